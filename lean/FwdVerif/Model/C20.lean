/-
  C20 — listener bandwidth limits (`/repo/ratelimit/{ratelimit,listener,conn}.go`, wired in
  `/repo/net.go` `Listener.Listen`), on top of `golang.org/x/time/rate` v0.12.0.

  The model mirrors the code:

  * `newRateLimiter(bw)`  = `rate.NewLimiter(rate.Limit(bw), max(bw/64, 4 MiB))`;
  * `rate.Limiter` reserve arithmetic (`advance`, `reserveN`, `WaitN`) in exact integers: time in
    nanoseconds, tokens in token-nanoseconds (1 byte = 10^9 units), so that `elapsed·rate` and
    `tokens/rate` need no rationals.  The library computes in float64 and truncates the wait to
    whole nanoseconds; the model floors;
  * `WaitN(ctx, n)` with `n > burst` returns an error *without* reserving anything, and
    `Conn.Read/Write` ignore that error: a single call larger than the burst is not throttled;
  * `NewListener(l, readLimit, writeLimit)`: the *read* limit creates the **tx** limiter (what the
    peer can read = what the proxy writes), the *write* limit the **rx** limiter; a limit ≤ 0 creates
    none; both limiters are shared by all accepted connections;
  * `Conn.Read/Write`: underlying I/O first, then (if `n > 0` and a limiter exists) `WaitN(n)`;
    the underlying call's results are returned unchanged;
  * deadlines: `Conn` embeds `net.Conn`, so `SetDeadline/SetReadDeadline/SetWriteDeadline` are the
    underlying connection's and bound the underlying I/O only; the wait runs on
    `context.Background()` and is never cut short (`stepArmed`).  What a wait that honours a deadline
    would do is kept beside it (`waitNWithin`, `stepD`) so that the theorems can say why it must not;
  * the wait context: `WaitN(waitContext, n)` with the package-level `context.Background()`; the state of
    that context is an explicit input of the wait step (`waitNCtx`, `stepC`) and listener lifecycle events
    are part of the history (`HEv`, `stepH`); contexts that `Listener.Close` or the shutdown would cancel
    are kept beside it (`WaitCtx`);
  * the schedule layer: a connection has a goroutine in `Read` and one in `Write`, each waiting in its
    own queue (`Duplex.readWait` / `writeWait`, `stepQ`); `Conn` takes no lock of its own.  A connection
    level mutex held across the wait is kept beside it (`stepM`).

  Core-only.
-/
import FwdVerif.Lib.Wire

namespace FwdVerif
namespace C20

def nsPerSec : Nat := 1000000000

/-- `defaultMaxBurstSize` (4 MiB) -/
def defaultMaxBurstSize : Nat := 4 * 1024 * 1024

/-- burst chosen by `newRateLimiter(bandwidth)` for `bandwidth > 0` -/
def burstOf (bw : Nat) : Nat :=
  if bw / 64 < defaultMaxBurstSize then defaultMaxBurstSize else bw / 64

/-! ### `SizeSuffix.Set`: the text of `--read-limit` / `--write-limit`

A limit is written `<integer>[.<fraction>]<suffix>`; the suffix selects a binary multiplier
(none = KiB, `B` = 1, `K`/`Ki`/`KiB` = 2¹⁰, `M…` = 2²⁰, `G…` = 2³⁰, `T…` = 2⁴⁰) and the value is
`float64(text) · multiplier` truncated.  The model is exact integer arithmetic on the digit strings
(the floor of the exact rational product).  The code's float64 product differs from it by float64
rounding only: the nearest double of the decimal has a relative error of at most 2⁻⁵³ and scaling by
a power of two is exact, so the truncated product lies within `1 + value·2⁻⁵²` of `sizeOf` — one byte
per second at 281 TB/s (`256.009T`, seen by the correspondence run), nothing below 4 PB/s otherwise;
the correspondence run compares with exactly that tolerance. -/

/-- the number a digit string denotes -/
def digitsVal (ds : List Nat) : Nat := ds.foldl (fun a d => a * 10 + d) 0

/-- bytes per second denoted by integer part `ip`, fraction digits `frac` and multiplier `mult` -/
def sizeOf (ip : Nat) (frac : List Nat) (mult : Nat) : Nat :=
  ((ip * 10 ^ frac.length + digitsVal frac) * mult) / 10 ^ frac.length

/-- multiplier of a suffix letter (`multiplierFromSymbol`); `none` = bad suffix -/
def sizeMultiplier (c : Char) : Option Nat :=
  match c.toLower with
  | 'k' => some (2 ^ 10) | 'm' => some (2 ^ 20) | 'g' => some (2 ^ 30)
  | 't' => some (2 ^ 40) | 'p' => some (2 ^ 50) | 'e' => some (2 ^ 60)
  | _ => none

/-- a `rate.Limiter`'s configuration: `rate` bytes (tokens) per second, `burst` tokens -/
structure Limiter where
  rate : Nat
  burst : Nat
  deriving DecidableEq, Repr

def newRateLimiter (bw : Nat) : Limiter := { rate := bw, burst := burstOf bw }

/-- mutable part of a `rate.Limiter`: `tokens` (token-nanoseconds, may be negative = reserved in
    advance) and `last` (ns).  `NewLimiter` starts full; the zero `last` is immaterial because the
    bucket is capped at `burst`. -/
structure LState where
  tokens : Int
  last : Nat
  deriving DecidableEq, Repr

/-- bucket capacity in token-nanoseconds -/
def Limiter.cap (l : Limiter) : Int := ((l.burst * nsPerSec : Nat) : Int)

def Limiter.init (l : Limiter) : LState := { tokens := l.cap, last := 0 }

/-- `(*Limiter).advance(t)`: tokens at time `t` (state not changed); a `t` before `last` counts as
    zero elapsed time. -/
def advance (l : Limiter) (s : LState) (t : Nat) : Int :=
  let last := if t < s.last then t else s.last
  let tok := s.tokens + ((t - last : Nat) : Int) * (l.rate : Int)
  if l.cap < tok then l.cap else tok

/-- `(*Limiter).reserveN(t, n, InfDuration)`: `none` = not ok (`n > burst`; state unchanged),
    `some wait` = nanoseconds until the reservation may act. -/
def reserveN (l : Limiter) (s : LState) (t n : Nat) : LState × Option Nat :=
  if l.burst < n then (s, none) else
  let tok := advance l s t - ((n * nsPerSec : Nat) : Int)
  let wait := if tok < 0 then (-tok).toNat / l.rate else 0
  ({ tokens := tok, last := t }, some wait)

/-- `(*Limiter).WaitN(context.Background(), n)` entered at time `t`: new state and the time at
    which the call returns (`n > burst`: error, returns at once, nothing reserved). -/
def waitN (l : Limiter) (s : LState) (t n : Nat) : LState × Nat :=
  match reserveN l s t n with
  | (s', some w) => (s', t + w)
  | (s', none) => (s', t)

/-! ### Wiring -/

/-- direction seen from the proxy: `rx` = `Conn.Read` (client → proxy), `tx` = `Conn.Write`. -/
inductive Dir where
  | rx | tx
  deriving DecidableEq, Repr

structure Listener where
  rxLimiter : Option Limiter
  txLimiter : Option Limiter
  deriving DecidableEq, Repr

/-- `ratelimit.NewListener(l, readLimit, writeLimit)` (int64 limits) -/
def newListener (readLimit writeLimit : Int) : Listener :=
  { txLimiter := if 0 < readLimit then some (newRateLimiter readLimit.toNat) else none
    rxLimiter := if 0 < writeLimit then some (newRateLimiter writeLimit.toNat) else none }

/-- `forwarder.Listener.Listen`: the rate-limited listener is only put in when a limit is set. -/
def listenWiring (readLimit writeLimit : Int) : Option Listener :=
  if 0 < readLimit ∨ 0 < writeLimit then some (newListener readLimit writeLimit) else none

/-- no wrapper = no limiters -/
def effective : Option Listener → Listener
  | some l => l
  | none => { rxLimiter := none, txLimiter := none }

def Listener.limiter (L : Listener) : Dir → Option Limiter
  | .rx => L.rxLimiter
  | .tx => L.txLimiter

/-- states of the listener's two limiters (a component is meaningless when the limiter is absent) -/
structure Sys where
  rx : LState
  tx : LState
  deriving DecidableEq, Repr

def Sys.get (s : Sys) : Dir → LState
  | .rx => s.rx
  | .tx => s.tx

def Sys.set (s : Sys) : Dir → LState → Sys
  | .rx, v => { s with rx := v }
  | .tx, v => { s with tx := v }

def Sys.init (L : Listener) : Sys :=
  { rx := match L.rxLimiter with | some l => l.init | none => ⟨0, 0⟩
    tx := match L.txLimiter with | some l => l.init | none => ⟨0, 0⟩ }

/-- one `Conn.Read`/`Conn.Write` on connection `conn`: the underlying I/O moved `n` bytes and
    finished at `time`. -/
structure Op where
  time : Nat
  conn : Nat
  dir : Dir
  n : Nat
  deriving DecidableEq, Repr

/-- `Conn.Read`/`Conn.Write` after the underlying call: new limiter states, time of return. -/
def step (L : Listener) (s : Sys) (op : Op) : Sys × Nat :=
  match L.limiter op.dir with
  | none => (s, op.time)
  | some l =>
    if op.n = 0 then (s, op.time) else
    let r := waitN l (s.get op.dir) op.time op.n
    (s.set op.dir r.1, r.2)

/-- `Conn.Read`/`Conn.Write` on a connection on which a deadline `left` ns ahead is armed
    (`none` = no deadline): `Conn` keeps no deadline and waits on `context.Background()`, so the
    deadline does not enter the computation. -/
def stepArmed (L : Listener) (s : Sys) (op : Op) (_left : Option Nat) : Sys × Nat := step L s op

/-- NOT what `Conn` does — `(*Limiter).WaitN(ctx, n)` with a context whose deadline is `left` ns
    away (`none` = no deadline): when the wait the reservation needs is longer than the time left it
    returns an error at once and reserves **nothing** (x/time/rate `reserveN(t, n, maxFutureReserve)`);
    a caller that ignores the error has moved `n` bytes that nobody accounts for. -/
def waitNWithin (l : Limiter) (s : LState) (t n : Nat) (left : Option Nat) : LState × Nat :=
  match reserveN l s t n, left with
  | (s', some w), some d => if d < w then (s, t) else (s', t + w)
  | (s', some w), none => (s', t + w)
  | (s', none), _ => (s', t)

/-- a sequence of calls (in the order they take the limiter's lock): final state, return times -/
def run (L : Listener) : Sys → List Op → Sys × List Nat
  | s, [] => (s, [])
  | s, op :: rest =>
    let r := step L s op
    let q := run L r.1 rest
    (q.1, r.2 :: q.2)

/-! ### Data path -/

/-- what an underlying `net.Conn.Read/Write` call returned: the bytes moved (`n = data.length`)
    and the error (0 = nil) -/
structure IORes where
  data : Bytes
  err : Nat
  deriving DecidableEq, Repr

/-- `Conn.Read`/`Conn.Write` as a whole: limiter effect plus the results handed to the caller. -/
def connCall (L : Listener) (s : Sys) (time conn : Nat) (d : Dir) (res : IORes) : Sys × Nat × IORes :=
  let r := step L s { time := time, conn := conn, dir := d, n := res.data.length }
  (r.1, r.2, res)

/-- the byte stream a sequence of calls moved -/
def stream (rs : List IORes) : Bytes := rs.flatMap (·.data)

/-- a sequence of calls through the rate-limited connection: results handed to the caller -/
def connCalls (L : Listener) : Sys → List (Nat × Nat × Dir × IORes) → List IORes
  | _, [] => []
  | s, (t, c, d, res) :: rest =>
    let r := connCall L s t c d res
    r.2.2 :: connCalls L r.1 rest

/-! ### One direction, with the schedule's ghost state

`rd[c]` is the time at which connection `c`'s last call in this direction returned; a schedule is
valid when calls reach the limiter in time order and a connection's next call finishes its I/O no
earlier than its previous call returned. -/

structure BOp where
  t : Nat
  c : Nat
  n : Nat
  deriving DecidableEq, Repr

structure RunSt where
  st : LState
  now : Nat
  rd : List Nat
  deriving DecidableEq, Repr

def initRun (l : Limiter) (k : Nat) : RunSt := { st := l.init, now := 0, rd := List.replicate k 0 }

def stepB (l : Limiter) (s : RunSt) (op : BOp) : RunSt :=
  if op.n = 0 then { st := s.st, now := op.t, rd := s.rd.set op.c op.t } else
  let r := waitN l s.st op.t op.n
  { st := r.1, now := op.t, rd := s.rd.set op.c r.2 }

def runB (l : Limiter) : RunSt → List BOp → RunSt
  | s, [] => s
  | s, op :: rest => runB l (stepB l s op) rest

/-- return times of the calls -/
def retsB (l : Limiter) : RunSt → List BOp → List Nat
  | _, [] => []
  | s, op :: rest => (stepB l s op).rd.getD op.c op.t :: retsB l (stepB l s op) rest

/-- schedule validity: time-ordered, known connection, the connection's previous call has returned,
    at most `w` bytes per call -/
def validB (l : Limiter) (w : Nat) : RunSt → List BOp → Bool
  | _, [] => true
  | s, op :: rest =>
    decide (s.now ≤ op.t) && decide (op.c < s.rd.length) && decide (s.rd.getD op.c 0 ≤ op.t) &&
      decide (op.n ≤ w) && validB l w (stepB l s op) rest

/-! ### Schedules of a hypothetical deadline-honouring wait

The same ghost-state machinery with `waitNWithin` in the place of `waitN`: `left` is the time the
connection's deadline leaves when the call reaches the limiter. -/

structure DOp where
  t : Nat
  c : Nat
  n : Nat
  left : Option Nat
  deriving DecidableEq, Repr

def DOp.toB (op : DOp) : BOp := { t := op.t, c := op.c, n := op.n }

def stepD (l : Limiter) (s : RunSt) (op : DOp) : RunSt :=
  if op.n = 0 then { st := s.st, now := op.t, rd := s.rd.set op.c op.t } else
  let r := waitNWithin l s.st op.t op.n op.left
  { st := r.1, now := op.t, rd := s.rd.set op.c r.2 }

/-- schedule validity (as `validB`) when waits honour deadlines -/
def validD (l : Limiter) (w : Nat) : RunSt → List DOp → Bool
  | _, [] => true
  | s, op :: rest =>
    decide (s.now ≤ op.t) && decide (op.c < s.rd.length) && decide (s.rd.getD op.c 0 ≤ op.t) &&
      decide (op.n ≤ w) && validD l w (stepD l s op) rest

/-- every call of the schedule waited for its tokens: no wait was longer than the time its deadline
    left (trivially so when no deadline is armed) -/
def allWaitedD (l : Limiter) : RunSt → List DOp → Bool
  | _, [] => true
  | s, op :: rest =>
    (match (reserveN l s.st op.t op.n).2, op.left with
      | some w, some d => decide (w ≤ d) || decide (op.n = 0)
      | _, _ => true) && allWaitedD l (stepD l s op) rest

/-! ### Schedules whose time stamps are not ordered

`WaitN` takes `time.Now()` *before* it takes the limiter's lock, so concurrent callers can reach the
bucket with time stamps out of order; `advance` then counts zero elapsed time and `reserveN` moves
`last` **back** to the earlier stamp, so the stretch between the two stamps is credited a second
time by the next call.  `backStep` is that stretch, `jitter` its sum over a schedule. -/

/-- how far `op` moves the limiter's `last` backwards (0 when it does not reach the limiter) -/
def backStep (l : Limiter) (s : RunSt) (op : BOp) : Nat :=
  if op.n = 0 ∨ l.burst < op.n then 0 else s.st.last - op.t

def jitter (l : Limiter) : RunSt → List BOp → Nat
  | _, [] => 0
  | s, op :: rest => backStep l s op + jitter l (stepB l s op) rest

/-- schedule validity without the time-order requirement: known connection, the connection's
    previous call has returned, at most `w` bytes per call -/
def validJ (l : Limiter) (w : Nat) : RunSt → List BOp → Bool
  | _, [] => true
  | s, op :: rest =>
    decide (op.c < s.rd.length) && decide (s.rd.getD op.c 0 ≤ op.t) && decide (op.n ≤ w) &&
      validJ l w (stepB l s op) rest

/-- bytes whose I/O completed in `[t0, t1]` -/
def bytesIn : List BOp → Nat → Nat → Nat
  | [], _, _ => 0
  | op :: rest, t0, t1 => (if t0 ≤ op.t ∧ op.t ≤ t1 then op.n else 0) + bytesIn rest t0 t1

/-- the calls of one direction -/
def proj (d : Dir) : List Op → List BOp
  | [] => []
  | op :: rest => if op.dir = d then { t := op.time, c := op.conn, n := op.n } :: proj d rest else proj d rest

/-- bytes moved in direction `d` with I/O completed in `[t0, t1]` -/
def bytesInDir (d : Dir) (ops : List Op) (t0 t1 : Nat) : Nat := bytesIn (proj d ops) t0 t1

/-- a schedule of the whole listener is valid when each limited direction's calls are -/
def validSched (L : Listener) (w k : Nat) (ops : List Op) : Bool :=
  (match L.rxLimiter with | some l => validB l w (initRun l k) (proj .rx ops) | none => true) &&
  (match L.txLimiter with | some l => validB l w (initRun l k) (proj .tx ops) | none => true)

/-- the bound of the property, in integers: `bytes·10⁹ ≤ (B + k·w)·10⁹ + R·(t₁ − t₀ + 1)`
    (the `+ 1` ns is the truncation of waits to whole nanoseconds). -/
def boundHolds (R B k w bytes t0 t1 : Nat) : Bool :=
  decide (bytes * nsPerSec ≤ (B + k * w) * nsPerSec + R * (t1 - t0 + 1))

/-! ### The wait context (lifecycle layer)

`Conn.Read/Write` call `WaitN(waitContext, n)` with the package-level
`var waitContext = context.Background()` (`ratelimit/conn.go`): a context that is never done,
whatever happens to the listener that accepted the connection (`ratelimit.Listener` has no `Close`
of its own: closing it closes the embedded `net.Listener` only) or to the context handed to
`HTTPProxy.Run` (graceful shutdown closes the listeners FIRST and then drains the connections for
up to `--shutdown-timeout`).  The state of the wait context is an explicit input of the wait step
(`waitNCtx`), the lifecycle events are part of the history (`HEv`), and what other choices of
context would do is kept beside the code's choice so that the theorems can say why it must stay
`Background`. -/

/-- how far the lifecycle has got: is the listener still open, is `Run`'s context still live -/
structure Life where
  listenerOpen : Bool
  runLive : Bool
  deriving DecidableEq, Repr

def Life.start : Life := { listenerOpen := true, runLive := true }

/-- candidates for the context handed to `WaitN` -/
inductive WaitCtx where
  /-- `context.Background()` — never done -/
  | background
  /-- a context owned by the listener and cancelled by its `Close` -/
  | listener
  /-- the context of `Run` (cancelled when the graceful shutdown starts) -/
  | run
  deriving DecidableEq, Repr

/-- `ctx.Done()` is closed -/
def WaitCtx.done : WaitCtx → Life → Bool
  | .background, _ => false
  | .listener, lf => !lf.listenerOpen
  | .run, lf => !lf.runLive

/-- the context `Conn.Read/Write` pass to `WaitN`: `var waitContext = context.Background()` -/
def connWaitCtx : WaitCtx := .background

/-- `(*Limiter).WaitN(ctx, n)` entered at `t` with the state of `ctx` explicit: a context that is
    already done makes it return its error **at once, reserving nothing** (x/time/rate `wait`:
    `select { case <-ctx.Done(): return ctx.Err() default: }` before `reserveN`) — and `Conn`
    ignores the result, the bytes having been moved already.  (A context that becomes done *during*
    the wait additionally hands the reservation back, `r.Cancel()`; not represented: the code's
    context never becomes done.) -/
def waitNCtx (l : Limiter) (s : LState) (t n : Nat) (done : Bool) : LState × Nat :=
  if done then (s, t) else waitN l s t n

/-- `stepB` with the wait context's state as an input -/
def stepC (l : Limiter) (s : RunSt) (op : BOp) (done : Bool) : RunSt :=
  if op.n = 0 then { st := s.st, now := op.t, rd := s.rd.set op.c op.t } else
  let r := waitNCtx l s.st op.t op.n done
  { st := r.1, now := op.t, rd := s.rd.set op.c r.2 }

/-- an event of a listener's history: a call on one of its accepted connections (one direction), or
    a lifecycle event -/
inductive HEv where
  | call (op : BOp)
  /-- `Listener.Close` (what `HTTPProxy.run` does first when shutting down) -/
  | listenerClose
  | listenerOpen
  /-- the context handed to `Run` is cancelled -/
  | runCancel
  deriving DecidableEq, Repr

structure HSt where
  run : RunSt
  life : Life
  deriving DecidableEq, Repr

/-- one event, the calls waiting on context `cx` -/
def stepH (cx : WaitCtx) (l : Limiter) (s : HSt) : HEv → HSt
  | .call op => { run := stepC l s.run op (cx.done s.life), life := s.life }
  | .listenerClose => { run := s.run, life := { s.life with listenerOpen := false } }
  | .listenerOpen => { run := s.run, life := { s.life with listenerOpen := true } }
  | .runCancel => { run := s.run, life := { s.life with runLive := false } }

def runH (cx : WaitCtx) (l : Limiter) : HSt → List HEv → HSt
  | s, [] => s
  | s, e :: rest => runH cx l (stepH cx l s e) rest

/-- return times of the calls of a history -/
def retsH (cx : WaitCtx) (l : Limiter) : HSt → List HEv → List Nat
  | _, [] => []
  | s, .call op :: rest =>
    (stepH cx l s (.call op)).run.rd.getD op.c op.t :: retsH cx l (stepH cx l s (.call op)) rest
  | s, .listenerClose :: rest => retsH cx l (stepH cx l s .listenerClose) rest
  | s, .listenerOpen :: rest => retsH cx l (stepH cx l s .listenerOpen) rest
  | s, .runCancel :: rest => retsH cx l (stepH cx l s .runCancel) rest

/-- the calls of a history -/
def callsOf : List HEv → List BOp
  | [] => []
  | .call op :: rest => op :: callsOf rest
  | .listenerClose :: rest => callsOf rest
  | .listenerOpen :: rest => callsOf rest
  | .runCancel :: rest => callsOf rest

/-- schedule validity of a history (as `validB`: time-ordered calls, known connection, a connection's
    previous call has returned, at most `w` bytes per call); lifecycle events are unconstrained -/
def validH (cx : WaitCtx) (l : Limiter) (w : Nat) : HSt → List HEv → Bool
  | _, [] => true
  | s, .call op :: rest =>
    decide (s.run.now ≤ op.t) && decide (op.c < s.run.rd.length) && decide (s.run.rd.getD op.c 0 ≤ op.t) &&
      decide (op.n ≤ w) && validH cx l w (stepH cx l s (.call op)) rest
  | s, .listenerClose :: rest => validH cx l w (stepH cx l s .listenerClose) rest
  | s, .listenerOpen :: rest => validH cx l w (stepH cx l s .listenerOpen) rest
  | s, .runCancel :: rest => validH cx l w (stepH cx l s .runCancel) rest

/-- no call of the history found its wait context done -/
def liveAtCalls (cx : WaitCtx) : Life → List HEv → Bool
  | _, [] => true
  | lf, .call op :: rest => (!cx.done lf || decide (op.n = 0)) && liveAtCalls cx lf rest
  | lf, .listenerClose :: rest => liveAtCalls cx { lf with listenerOpen := false } rest
  | lf, .listenerOpen :: rest => liveAtCalls cx { lf with listenerOpen := true } rest
  | lf, .runCancel :: rest => liveAtCalls cx { lf with runLive := false } rest

/-! ### The schedule layer: two goroutines per connection

A connection that carries traffic in both directions at once (CONNECT tunnel, upgraded connection)
has one goroutine in `Conn.Read` and one in `Conn.Write`.  `Conn` holds no lock of its own: each
goroutine waits in its own limiter's queue.  `readWait c` / `writeWait c` is the time at which the
outstanding `Read` / `Write` of connection `c` returns; a goroutine's next call starts then, its
underlying I/O takes `io` ns, and it enters `WaitN` when the I/O is done. -/

/-- one call of a goroutine: the underlying I/O takes `io` ns and moves `n` bytes -/
structure QOp where
  conn : Nat
  dir : Dir
  io : Nat
  n : Nat
  deriving DecidableEq, Repr

structure Duplex where
  sys : Sys
  readWait : Nat → Nat
  writeWait : Nat → Nat

def Duplex.init (L : Listener) : Duplex := { sys := Sys.init L, readWait := fun _ => 0, writeWait := fun _ => 0 }

def Duplex.wait (s : Duplex) : Dir → Nat → Nat
  | .rx => s.readWait
  | .tx => s.writeWait

def upd (f : Nat → Nat) (c v : Nat) : Nat → Nat := fun x => if x = c then v else f x

/-- a call of one goroutine (in the order the calls take the limiter's lock): new state, return time.
    Only the call's own direction's queue and limiter are involved. -/
def stepQ (L : Listener) (s : Duplex) (op : QOp) : Duplex × Nat :=
  let r := step L s.sys { time := s.wait op.dir op.conn + op.io, conn := op.conn, dir := op.dir, n := op.n }
  match op.dir with
  | .rx => ({ sys := r.1, readWait := upd s.readWait op.conn r.2, writeWait := s.writeWait }, r.2)
  | .tx => ({ sys := r.1, readWait := s.readWait, writeWait := upd s.writeWait op.conn r.2 }, r.2)

/-- return times of the calls of direction `d` -/
def retsQ (L : Listener) (d : Dir) : Duplex → List QOp → List Nat
  | _, [] => []
  | s, op :: rest =>
    if op.dir = d then (stepQ L s op).2 :: retsQ L d (stepQ L s op).1 rest else retsQ L d (stepQ L s op).1 rest

/-- one direction on its own: limiter (if any), its state, that direction's queue -/
def soloStep (lim : Option Limiter) (st : LState) (t n : Nat) : LState × Nat :=
  match lim with
  | none => (st, t)
  | some l => if n = 0 then (st, t) else waitN l st t n

def soloQ (lim : Option Limiter) : LState → (Nat → Nat) → List QOp → List Nat
  | _, _, [] => []
  | st, wt, op :: rest =>
    (soloStep lim st (wt op.conn + op.io) op.n).2 ::
      soloQ lim (soloStep lim st (wt op.conn + op.io) op.n).1
        (upd wt op.conn (soloStep lim st (wt op.conn + op.io) op.n).2) rest

/-- the calls of direction `d` -/
def projQ (d : Dir) : List QOp → List QOp
  | [] => []
  | op :: rest => if op.dir = d then op :: projQ d rest else projQ d rest

/-- NOT what `Conn` does — a connection-level mutex held across the wait (e.g. to account the time
    spent throttled): `mu c` is the time at which connection `c`'s mutex is released.  A direction
    without a limiter never takes it. -/
structure DuplexM where
  sys : Sys
  readWait : Nat → Nat
  writeWait : Nat → Nat
  mu : Nat → Nat

def DuplexM.init (L : Listener) : DuplexM :=
  { sys := Sys.init L, readWait := fun _ => 0, writeWait := fun _ => 0, mu := fun _ => 0 }

def DuplexM.wait (s : DuplexM) : Dir → Nat → Nat
  | .rx => s.readWait
  | .tx => s.writeWait

def stepM (L : Listener) (s : DuplexM) (op : QOp) : DuplexM × Nat :=
  let io := s.wait op.dir op.conn + op.io
  let locked := (L.limiter op.dir).isSome && decide (op.n ≠ 0)
  -- `c.mu.Lock()` succeeds when the other goroutine's wait is over
  let t := if locked then (if io < s.mu op.conn then s.mu op.conn else io) else io
  let r := step L s.sys { time := t, conn := op.conn, dir := op.dir, n := op.n }
  let mu' := if locked then upd s.mu op.conn r.2 else s.mu
  match op.dir with
  | .rx => ({ sys := r.1, readWait := upd s.readWait op.conn r.2, writeWait := s.writeWait, mu := mu' }, r.2)
  | .tx => ({ sys := r.1, readWait := s.readWait, writeWait := upd s.writeWait op.conn r.2, mu := mu' }, r.2)

def retsM (L : Listener) (d : Dir) : DuplexM → List QOp → List Nat
  | _, [] => []
  | s, op :: rest =>
    if op.dir = d then (stepM L s op).2 :: retsM L d (stepM L s op).1 rest else retsM L d (stepM L s op).1 rest

/-! ### Where a call's reservation is stamped (calls that sit blocked in the socket)

So far a call's I/O happens at one instant, which is also the stamp of its reservation.  A `Read`
whose peer sends nothing (a `Write` whose peer takes nothing) sits in the socket from `start` to
`done`; the bytes move at `done`.  `ratelimit/conn.go` calls `WaitN` *after* the embedded
`net.Conn`'s call has returned, so the reservation is stamped with a clock reading taken at or
after `done` (`connStampsAtStart = false`); the limiter is shared by all connections of the
listener, so calls of other connections reserve between `start` and `done`.  The alternative - a
stamp taken when the call was entered - is kept beside the code's choice (`SOp.res true`). -/

structure SOp where
  start : Nat
  done : Nat
  c : Nat
  n : Nat
  deriving DecidableEq, Repr

/-- the reservation a call makes, stamped with the time its I/O returned or with the time the
    call was entered -/
def SOp.res (atStart : Bool) (op : SOp) : BOp :=
  { t := if atStart then op.start else op.done, c := op.c, n := op.n }

/-- `Conn.Read/Write`: `n, err = c.Conn.Read(b)` first, `WaitN(ctx, n)` then -/
def connStampsAtStart : Bool := false

/-- every reservation that reaches the limiter is stamped at or after the limiter's last event -/
def stampsMonotone (l : Limiter) : RunSt → List BOp → Bool
  | _, [] => true
  | s, op :: rest =>
    (decide (op.n = 0) || decide (l.burst < op.n) || decide (s.st.last ≤ op.t)) &&
      stampsMonotone l (stepB l s op) rest

/-- calls listed in the order in which their I/O completes; a call starts before it completes -/
def doneOrdered : Nat → List SOp → Bool
  | _, [] => true
  | now, op :: rest => decide (now ≤ op.done) && decide (op.start ≤ op.done) && doneOrdered op.done rest

/-- a connection enters its next call only when the I/O of its previous one has completed -/
def startsAfterDone : List SOp → Bool
  | [] => true
  | op :: rest => rest.all (fun o => o.c != op.c || decide (op.done ≤ o.start)) && startsAfterDone rest

/-- bytes whose I/O completed in `[t0, t1]` -/
def bytesDone : List SOp → Nat → Nat → Nat
  | [], _, _ => 0
  | op :: rest, t0, t1 => (if t0 ≤ op.done ∧ op.done ≤ t1 then op.n else 0) + bytesDone rest t0 t1

end C20
end FwdVerif
