/-
  Response pipeline of the proxy (C02, shared with C12/C13).

  `processResponse rc o` says what the client receives for the response `o` an origin sent to a
  forwarded request whose relevant facts are in `rc`: status line, field lines (lower-case name ↦
  values in order), how the message is framed on the client connection, whether the body is passed
  through or gunzipped, and whether the connection stays open.

  It composes, in code order:
    net/http `Transport` response read      (Connection: close consumed, framing consumed, Trailer moved,
                                             "no length ⇒ close", transparent gzip when the proxy solicited it)
    martian `roundTrip`                     (body of a header-only response discarded)
    response modifiers                      (user response rules, then hop-by-hop removal), upgrade re-add
    martian `writeResponse`                 (close decision, close-delimited fallback for HTTP/1.0 clients,
                                             re-framing of a transparently gunzipped body, `Connection: close`,
                                             the header-only writer incl. its `Trailer:` line,
                                             `Response.Write` incl. its "no length ⇒ close" rule)
  Core-only.
-/
import FwdVerif.Model.Req

namespace FwdVerif
namespace Resp

open Ascii
open C16 (HMap goDel goSet goAdd Rule applyRules)
open Req (bs hget goGet trimOWS splitComma valuesContainToken parseNat? removeHopByHop upgradeType
          toHeader lowerFields mergeFields natToDec joinWith)

/-- what the proxy knows about the request when the response comes back -/
structure ReqCtx where
  method : Bytes
  reqClose : Bool                     -- `req.Close` (client asked for close, or HTTP/1.0 without keep-alive)
  solicitedGzip : Bool                -- the transport itself added `Accept-Encoding: gzip`
  rules : List Rule := []             -- --response-header rules
  reqMinor : Nat := 1                 -- the client's request is HTTP/1.<reqMinor>
  deriving Repr

/-- response as the origin sent it; framing is read from the field lines -/
structure OriginResp where
  minor : Nat                         -- HTTP/1.<minor>
  status : Nat
  reason : Bytes
  fields : List (Bytes × Bytes)
  deriving Repr

inductive Framing where
  | none                              -- header-only (HEAD, 204, 304): no body bytes follow
  | cl (n : Nat)
  | chunked (trailers : List Bytes)   -- declared trailer names (canonical, sorted)
  | eof                               -- body ends with the connection
  deriving Repr, DecidableEq

inductive BodyXform where
  | same | gunzip | dropped
  deriving Repr, DecidableEq

structure ClientResp where
  minor : Nat
  status : Nat
  reason : Bytes
  fields : List (Bytes × List Bytes)
  framing : Framing
  body : BodyXform
  keepAlive : Bool
  deriving Repr

inductive Outcome where
  | ok (r : ClientResp)
  | badGateway                        -- the transport rejects the response (malformed framing) → error response
  deriving Repr

def bodyAllowed (status : Nat) : Bool := !(status / 100 == 1 || status == 204 || status == 304)

def headerOnly (method : Bytes) (status : Nat) : Bool :=
  method == bs "HEAD" || !bodyAllowed status

/-- Go's `http.StatusText` is not needed: the origin's reason phrase is passed through (`res.Status`
    is "<code> <reason>"; the writer strips the "<code> " prefix again). An empty reason phrase is
    written as an empty string after the space. -/
def reasonOut (reason : Bytes) : Bytes := reason

structure GoResp where
  minor : Nat
  status : Nat
  reason : Bytes
  header : HMap
  contentLength : Int
  chunked : Bool
  close : Bool
  trailer : List Bytes
  uncompressed : Bool
  hasBody : Bool                      -- Body ≠ NoBody
  deriving Repr

/-- `Transport` reading the response head (`ReadResponse` → `readTransfer`) plus transparent gzip -/
def readResponse (rc : ReqCtx) (o : OriginResp) : Option GoResp := do
  let h0 := toHeader o.fields
  -- shouldClose(…, removeCloseHeader = true)
  let conn := hget h0 (bs "Connection")
  let hasClose := valuesContainToken conn (bs "close")
  let (close0, h1) : Bool × HMap :=
    if o.minor == 0 then (hasClose || !valuesContainToken conn (bs "keep-alive"), h0)
    else (hasClose, if hasClose then goDel h0 (bs "Connection") else h0)
  -- parseTransferEncoding
  let te := HMap.get h1 (bs "Transfer-Encoding")
  let h2 := goDel h1 (bs "Transfer-Encoding")
  let chunked ← match te with
    | none => some false
    | some vs =>
      if o.minor == 0 then some false
      else match vs with
        | [v] => if eqFold v (bs "chunked") then some true else none
        | _ => none
  -- fixLength
  let cls := hget h2 (bs "Content-Length")
  let (h3, cls) ← match cls with
    | [] => some (h2, cls)
    | [_] => some (h2, cls)
    | c :: rest =>
      if rest.all (fun x => trimOWS x == trimOWS c) then
        some (goSet (goDel h2 (bs "Content-Length")) (bs "Content-Length") (trimOWS c), [trimOWS c])
      else none
  let n? ← match cls with
    | [] => some (none : Option Nat)
    | c :: _ => match parseNat? (trimOWS c) with
      | some n => some (some n)
      | none => none
  let isHead := rc.method == bs "HEAD"
  let (h4, real) : HMap × Int :=
    if isHead || !bodyAllowed o.status then (h3, 0)
    else if chunked then (goDel h3 (bs "Content-Length"), -1)
    else match n? with
      | some n => (h3, (n : Int))
      | none => (h3, -1)
  let len : Int := if isHead then (match n? with | some n => (n : Int) | none => -1) else real
  -- fixTrailer
  let (h5, trailer) : HMap × List Bytes :=
    match HMap.get h4 (bs "Trailer") with
    | none => (h4, [])
    | some vs =>
      if !chunked then (h4, [])
      else (goDel h4 (bs "Trailer"),
            (vs.flatMap fun v => (splitComma v).map (fun k => canonicalKey (trimOWS k))).filter (fun k => !k.isEmpty))
  if trailer.any (fun k => k == bs "Transfer-Encoding" || k == bs "Trailer" || k == bs "Content-Length") then none
  let close1 := close0 || (real == -1 && !chunked && bodyAllowed o.status)
  let hasBody0 := if chunked then !(isHead || !bodyAllowed o.status) else real != 0
  -- transparent gzip (persistConn.readLoop): only when there is a body and the transport asked for gzip
  let gz := hasBody0 && !isHead && len != 0 && rc.solicitedGzip && eqFold (goGet h5 (bs "Content-Encoding")) (bs "gzip")
  let (h6, len, unc) : HMap × Int × Bool :=
    if gz then (goDel (goDel h5 (bs "Content-Encoding")) (bs "Content-Length"), -1, true) else (h5, len, false)
  some { minor := o.minor, status := o.status, reason := o.reason, header := h6, contentLength := len,
         chunked := chunked, close := close1, trailer := trailer, uncompressed := unc, hasBody := hasBody0 }

/-- what `writeResponse` has settled about the message before it calls one of the writers:
    `res.TransferEncoding` (chunked or none), `res.ContentLength`, `res.Close` -/
structure Framed where
  chunked : Bool
  contentLength : Int
  close : Bool
  deriving Repr, DecidableEq

/-- martian `writeResponse` before the writers, in code order:
    * `res.Close` := `req.Close` ∨ what the transport decided (no shutdown in progress);
    * an HTTP/1.0 client cannot parse a chunked body: a response with a transfer encoding that is not
      header-only falls back to a close-delimited body (`TransferEncoding = nil`, `ContentLength = -1`,
      `Close = true`; with the chunking gone `Response.Write` sends no trailers either);
    * a response the transport decompressed (`Uncompressed`) has lost its length; `Response.Write`
      exempts such a response from its "no length ⇒ close" rule, so it is framed here: chunked when the
      response's protocol AND the client's protocol are HTTP/1.1, close-delimited otherwise. -/
def frameForClient (rc : ReqCtx) (g : GoResp) : Framed :=
  let ho := headerOnly rc.method g.status
  let f0 : Framed := { chunked := g.chunked, contentLength := g.contentLength, close := g.close || rc.reqClose }
  let f1 : Framed :=
    if !(rc.reqMinor ≥ 1) && f0.chunked && !ho then { chunked := false, contentLength := -1, close := true }
    else f0
  if g.uncompressed && f1.contentLength < 0 && !f1.chunked && !f1.close && !ho then
    if g.minor ≥ 1 && rc.reqMinor ≥ 1 then { f1 with chunked := true } else { f1 with close := true }
  else f1

/-- names of `res.Trailer` (a map: no duplicates; listed in sorted order here) -/
def trailerKeys (g : GoResp) : List Bytes := (g.trailer.mergeSort C16.bytesLe).eraseDups

/-- `processResponse`: what is written to the client (no shutdown in progress). -/
def processResponse (rc : ReqCtx) (o : OriginResp) : Outcome :=
  match readResponse rc o with
  | none => .badGateway
  | some g =>
    let ho := headerOnly rc.method g.status
    let resUp := upgradeType g.header
    let isConnect := rc.method == bs "CONNECT"
    let h1 := if isConnect then g.header else applyRules rc.rules g.header
    let h2 := removeHopByHop h1
    let h3 := if resUp.isEmpty then h2 else goSet (goSet h2 (bs "Connection") (bs "Upgrade")) (bs "Upgrade") resUp
    let w := frameForClient rc g
    let close := w.close
    let h4 := if close then goAdd h3 (bs "Connection") (bs "close") else h3
    if ho then
      -- martian's own head writer: the whole map, then `Trailer: k1, k2` from the keys of `res.Trailer`
      -- (Go map order on the wire; sorted here, the correspondence check compares the names as a set),
      -- then the blank line
      let trailerLine : List (Bytes × List Bytes) :=
        if g.trailer.isEmpty then [] else [(bs "trailer", [joinWith [44, 32] (trailerKeys g)])]
      .ok { minor := g.minor, status := g.status, reason := reasonOut g.reason,
            fields := mergeFields (lowerFields h4 ++ trailerLine), framing := .none, body := .dropped,
            keepAlive := !close }
    else
      let len := w.contentLength
      let chunked := w.chunked && g.minor ≥ 1
      let closeW := close || (len == -1 && g.minor ≥ 1 && !chunked && !g.uncompressed)
      let connLine : List (Bytes × List Bytes) :=
        if closeW && !valuesContainToken [goGet h4 (bs "Connection")] (bs "close") then [(bs "connection", [bs "close"])] else []
      let lenFields : List (Bytes × List Bytes) :=
        if chunked then [(bs "transfer-encoding", [bs "chunked"])] ++
          (if g.trailer.isEmpty then [] else [(bs "trailer", [joinWith [44] (trailerKeys g)])])
        else if len ≥ 0 then [(bs "content-length", [natToDec len.toNat])]
        else []
      let excluded := [bs "Content-Length", bs "Transfer-Encoding", bs "Trailer"]
      let rest := lowerFields (h4.filter fun e => !excluded.contains e.1)
      -- neither chunked nor a length: the body ends with the connection (`c02_framing_eof_closes`
      -- proves that the connection is then closed)
      let framing : Framing :=
        if chunked then .chunked (trailerKeys g)
        else if len ≥ 0 then .cl len.toNat
        else .eof
      .ok { minor := g.minor, status := g.status, reason := reasonOut g.reason,
            fields := mergeFields (connLine ++ lenFields ++ rest), framing := framing,
            body := if g.uncompressed then .gunzip else .same, keepAlive := !closeW }

end Resp
end FwdVerif
