/-
  GENERATED — do not edit.  Written by harness/srcgen (the Prepare step of every `bin/check`
  of the property) from http_proxy.go of $VERIF_REPO.  Core-only.
-/
namespace FwdVerif
namespace C05Gen

def builtinLocalhost : List String := ["localhost", "0.0.0.0", "::"]

end C05Gen
end FwdVerif
