/-
  C17 — domain rule lists (`/repo/ruleset/regexp.go`).

  What the code does: every rule is a Go regular expression (`regexp.Compile`, Perl syntax);
  `NewRegexpMatcher` keeps the include rules and the exclude rules as two slices of compiled
  expressions and `match` evaluates every rule ON ITS OWN: some exclude rule matches ⇒ false; else
  some include rule matches ⇒ true; else false; `Match` inverts the answer when `inverse` is set.
  (Before the repair of F10/F26 the rules' source texts were joined with `|` and compiled again;
  that construction survives only in the last section of this file, marked as pre-repair.)

  The model contains the fragment of Go's `regexp/syntax` parser that decides what ONE rule
  matches: a byte-level lexer (`lexStep`, a left-to-right state machine exactly like the loop of
  `syntax.parse`), a token-level stack machine (`act`, Go's operator stack), *flag resolution*
  (`rx`/`flagsAfter`: a flag group `(?i)` changes the flags until the end of the enclosing group;
  `|` does NOT reset them; `)` restores the flags in force at the matching `(`), and a total
  matcher with unanchored-search semantics (`ends`, sets of end positions).  This part is validated
  rule by rule against Go's `regexp` on every run.

  Domain of the model: patterns and subjects over ASCII bytes; pattern syntax: literals, escapes
  (`\.` …, `\d \w \s \D \W \S`, `\A \z \b \B`, `\n \t \r \f \v \a`), `.`, classes `[...]`/`[^...]`
  with ranges and Perl classes, `* + ?` (+ lazy suffix), `^ $`, `|`, groups `( )`, `(?: )`,
  `(?flags)`, `(?flags: )` with flags `i m s U` and `-`.  Anything else (`{`, `\p`, `\x`, octal,
  `\Q`, named groups, `[[:alpha:]]`, non-ASCII) answers `unsupported`, never a wrong verdict.
  Greediness (`U`, lazy suffix) does not influence a boolean match and is parsed and dropped.
  Core-only.
-/
import FwdVerif.Lib.Ascii

namespace FwdVerif
namespace C17

open Ascii

/-! ### Flags -/

/-- the three inline flags that change what a pattern matches: `i` FoldCase, `m` (¬OneLine), `s` DotNL -/
structure Flags where
  i : Bool := false
  m : Bool := false
  s : Bool := false
  deriving DecidableEq, Repr, Inhabited

/-- flags of `regexp.Compile` (syntax.Perl): none of `i m s` set -/
def dflt : Flags := {}

/-- `(?on-off)`: flags before `-` are set, flags after it cleared (`parsePerlFlags`) -/
def Flags.apply (f on off : Flags) : Flags :=
  { i := (f.i || on.i) && !off.i, m := (f.m || on.m) && !off.m, s := (f.s || on.s) && !off.s }

/-! ### Character-level pieces -/

inductive Perl where
  | d | w | s | nd | nw | ns
  deriving DecidableEq, Repr

def isWordByte (c : UInt8) : Bool := isAlpha c || isDigit c || c == 95

def Perl.test : Perl → UInt8 → Bool
  | .d, c => isDigit c
  | .w, c => isWordByte c
  | .s, c => isSpaceRE c
  | .nd, c => !isDigit c
  | .nw, c => !isWordByte c
  | .ns, c => !isSpaceRE c

inductive CItem where
  | one (c : UInt8)
  | range (lo hi : UInt8)
  | perl (k : Perl)
  deriving DecidableEq, Repr

/-- ASCII case swap of a letter (identity elsewhere) -/
def swapCase (c : UInt8) : UInt8 := if isUpper c then c + 32 else if isLower c then c - 32 else c

/-- membership in one class item; with `fold` the item is closed under ASCII case folding
    (`appendFoldedRange`) -/
def CItem.test (fold : Bool) (b : UInt8) : CItem → Bool
  | .one c => b == c || (fold && swapCase b == c)
  | .range lo hi => (lo ≤ b && b ≤ hi) || (fold && lo ≤ swapCase b && swapCase b ≤ hi)
  | .perl k => k.test b

/-- zero-width assertions after flag resolution -/
inductive Asrt where
  | bot | eot | bol | eol | wordb | nwordb
  deriving DecidableEq, Repr

/-- one-byte matchers after flag resolution -/
inductive CM where
  | lit (c : UInt8) (fold : Bool)
  | cls (neg : Bool) (items : List CItem) (fold : Bool)
  | perl (k : Perl)
  | any (dotNL : Bool)
  deriving DecidableEq, Repr

def CM.test : CM → UInt8 → Bool
  | .lit c fold, b => b == c || (fold && swapCase b == c)
  | .cls neg items fold, b => neg != items.any (CItem.test fold b)
  | .perl k, b => k.test b
  | .any dotNL, b => dotNL || b != 10

/-! ### Syntax tree before flag resolution -/

inductive Raw where
  | empty
  | lit (c : UInt8)
  | cls (neg : Bool) (items : List CItem)
  | perl (k : Perl)
  | any
  | caret
  | dollar
  | asrt (a : Asrt)                       -- `\A \z \b \B`
  | flags (on off : Flags)                -- `(?on-off)`: changes the flags of what follows
  | group (on off : Flags) (body : Raw)   -- `( … )`, `(?: … )` (on = off = ∅), `(?on-off: … )`
  | star (r : Raw)
  | plus (r : Raw)
  | quest (r : Raw)
  | cat (a b : Raw)
  | alt (a b : Raw)
  deriving Repr

def Raw.isFlags : Raw → Bool
  | .flags _ _ => true
  | _ => false

/-- a concatenation, left to right -/
def mkCat : List Raw → Raw
  | [] => .empty
  | x :: xs => .cat x (mkCat xs)

/-- an alternation of concatenations (branches in source order) -/
def mkAlt : List (List Raw) → Raw
  | [] => .empty
  | [b] => mkCat b
  | b :: bs => .alt (mkCat b) (mkAlt bs)

/-! ### Flag resolution — the modelled fact about Go's parser

`flagsAfter f r` = the parser's flags after it has read `r` starting with flags `f`.  Flags flow
left to right through concatenation **and through alternation** (`parseVerticalBar` does not touch
`p.flags`); a group restores the flags in force at its `(` (`parseRightParen`: `p.flags = re2.Flags`). -/

def flagsAfter : Raw → Flags → Flags
  | .flags on off, f => f.apply on off
  | .cat a b, f => flagsAfter b (flagsAfter a f)
  | .alt a b, f => flagsAfter b (flagsAfter a f)
  | _, f => f

/-- regular expression with flags resolved at every leaf -/
inductive Rx where
  | empty
  | chr (m : CM)
  | asrt (a : Asrt)
  | cat (a b : Rx)
  | alt (a b : Rx)
  | star (a : Rx)
  deriving Repr

def rx : Raw → Flags → Rx
  | .empty, _ => .empty
  | .lit c, f => .chr (.lit c f.i)
  | .cls neg items, f => .chr (.cls neg items f.i)
  | .perl k, _ => .chr (.perl k)
  | .any, f => .chr (.any f.s)
  | .caret, f => .asrt (if f.m then .bol else .bot)
  | .dollar, f => .asrt (if f.m then .eol else .eot)
  | .asrt a, _ => .asrt a
  | .flags _ _, _ => .empty
  | .group on off b, f => rx b (f.apply on off)
  | .star r, f => .star (rx r f)
  | .plus r, f => .cat (rx r f) (.star (rx r f))
  | .quest r, f => .alt (rx r f) .empty
  | .cat a b, f => .cat (rx a f) (rx b (flagsAfter a f))
  | .alt a b, f => .alt (rx a f) (rx b (flagsAfter a f))

/-! ### Lexer: the loop of `syntax.parse`, one byte at a time -/

inductive Err where
  | syntax        -- Go's parser rejects the text
  | unsupported   -- outside the modelled fragment
  deriving DecidableEq, Repr

inductive RepKind where
  | star | plus | quest
  deriving DecidableEq, Repr

inductive Tok where
  | atom (r : Raw)
  | rep (k : RepKind)
  | bar
  | opn (on off : Flags)
  | clo
  deriving Repr

/-- `lastRepeat` of `syntax.parse` -/
inductive Rep where
  | none | op | lazy
  deriving DecidableEq, Repr

inductive Pend where
  | none
  | lo (c : UInt8)      -- a class character that may still become the low end of a range
  | dash (c : UInt8)    -- `c-` seen
  deriving Repr

inductive Mode where
  | normal
  | esc                                                         -- after `\`
  | lparen                                                      -- after `(`
  | qmark                                                       -- after `(?`
  | flags (on off : Flags) (neg saw : Bool)                     -- inside `(?…`
  | clsOpen                                                     -- after `[`
  | cls (first neg : Bool) (items : List CItem) (p : Pend)      -- inside `[…`
  | clsEsc (neg : Bool) (items : List CItem) (lo : Option UInt8) -- after `\` inside a class
  deriving Repr

structure Lex where
  mode : Mode := .normal
  rep : Rep := .none
  deriving Repr

def Lex.init : Lex := {}

abbrev LexOut := Except Err (Lex × List Tok)

def isAlnum (c : UInt8) : Bool := isAlpha c || isDigit c

/-- `\a \f \n \r \t \v` -/
def cEscape (c : UInt8) : Option UInt8 :=
  if c == 97 then some 7 else if c == 102 then some 12 else if c == 110 then some 10
  else if c == 114 then some 13 else if c == 116 then some 9 else if c == 118 then some 11 else none

/-- `\d \w \s \D \W \S` -/
def perlEscape (c : UInt8) : Option Perl :=
  if c == 100 then some .d else if c == 119 then some .w else if c == 115 then some .s
  else if c == 68 then some .nd else if c == 87 then some .nw else if c == 83 then some .ns else none

/-- escapes the model does not cover: digits (octal/backreference), `x`, `p`, `P`, `Q` -/
def escUnsupported (c : UInt8) : Bool :=
  isDigit c || c == 120 || c == 112 || c == 80 || c == 81

def atomOut (r : Raw) : LexOut := .ok ({ mode := .normal, rep := .none }, [.atom r])

def normalStep (rep : Rep) (c : UInt8) : LexOut :=
  if c ≥ 128 then .error .unsupported
  else if c == 92 then .ok ({ mode := .esc }, [])
  else if c == 40 then .ok ({ mode := .lparen }, [])
  else if c == 41 then .ok ({}, [.clo])
  else if c == 124 then .ok ({}, [.bar])
  else if c == 94 then atomOut .caret
  else if c == 36 then atomOut .dollar
  else if c == 46 then atomOut .any
  else if c == 91 then .ok ({ mode := .clsOpen }, [])
  else if c == 123 then .error .unsupported
  else if c == 42 || c == 43 || c == 63 then
    match rep with
    | .none =>
      .ok ({ mode := .normal, rep := .op },
           [.rep (if c == 42 then .star else if c == 43 then .plus else .quest)])
    | .op => if c == 63 then .ok ({ mode := .normal, rep := .lazy }, []) else .error .syntax
    | .lazy => .error .syntax
  else atomOut (.lit c)

def escStep (c : UInt8) : LexOut :=
  if c ≥ 128 then .error .unsupported
  else if c == 65 then atomOut (.asrt .bot)
  else if c == 122 then atomOut (.asrt .eot)
  else if c == 98 then atomOut (.asrt .wordb)
  else if c == 66 then atomOut (.asrt .nwordb)
  else match perlEscape c with
    | some k => atomOut (.perl k)
    | none =>
      match cEscape c with
      | some b => atomOut (.lit b)
      | none =>
        if escUnsupported c then .error .unsupported
        else if isAlnum c then .error .syntax
        else atomOut (.lit c)

def setFlag (fl : Flags) (c : UInt8) : Flags :=
  if c == 105 then { fl with i := true } else if c == 109 then { fl with m := true }
  else if c == 115 then { fl with s := true } else fl

def flagsStep (on off : Flags) (neg saw : Bool) (c : UInt8) : LexOut :=
  if c ≥ 128 then .error .unsupported
  else if c == 105 || c == 109 || c == 115 || c == 85 then
    if neg then .ok ({ mode := .flags on (setFlag off c) true true }, [])
    else .ok ({ mode := .flags (setFlag on c) off false true }, [])
  else if c == 45 then
    if neg then .error .syntax else .ok ({ mode := .flags on off true false }, [])
  else if c == 58 then
    if neg && !saw then .error .syntax else .ok ({}, [.opn on off])
  else if c == 41 then
    if neg && !saw then .error .syntax else .ok ({}, [.atom (.flags on off)])
  else .error .syntax

def flushPend (items : List CItem) : Pend → List CItem
  | .none => items
  | .lo x => items ++ [.one x]
  | .dash x => items ++ [.one x, .one 45]

/-- a class character `v` (already unescaped) arrives -/
def clsChar (neg : Bool) (items : List CItem) (p : Pend) (v : UInt8) (mayDash : Bool) : LexOut :=
  match p with
  | .none => .ok ({ mode := .cls false neg items (.lo v) }, [])
  | .lo x =>
    if mayDash && v == 45 then .ok ({ mode := .cls false neg items (.dash x) }, [])
    else .ok ({ mode := .cls false neg (items ++ [.one x]) (.lo v) }, [])
  | .dash x =>
    if v < x then .error .syntax
    else .ok ({ mode := .cls false neg (items ++ [.range x v]) .none }, [])

def clsStep (first neg : Bool) (items : List CItem) (p : Pend) (c : UInt8) : LexOut :=
  if c ≥ 128 then .error .unsupported
  else if c == 93 && !first then atomOut (.cls neg (flushPend items p))
  else if c == 92 then
    match p with
    | .none => .ok ({ mode := .clsEsc neg items none }, [])
    | .lo x => .ok ({ mode := .clsEsc neg (items ++ [.one x]) none }, [])
    | .dash x => .ok ({ mode := .clsEsc neg items (some x) }, [])
  else if c == 91 then .error .unsupported
  else clsChar neg items p c true

def clsEscStep (neg : Bool) (items : List CItem) (lo : Option UInt8) (c : UInt8) : LexOut :=
  if c ≥ 128 then .error .unsupported
  else match perlEscape c with
    | some k =>
      match lo with
      | none => .ok ({ mode := .cls false neg (items ++ [.perl k]) .none }, [])
      | some _ => .error .syntax
    | none =>
      let v? : Option UInt8 :=
        match cEscape c with
        | some b => some b
        | none => if isAlnum c then none else some c
      match v? with
      | some v =>
        match lo with
        | none => clsChar neg items .none v false
        | some x => clsChar neg items (.dash x) v false
      | none => if escUnsupported c then .error .unsupported else .error .syntax

def prepend (t : Tok) : LexOut → LexOut
  | .ok (lx, ts) => .ok (lx, t :: ts)
  | .error e => .error e

def lexStep (lx : Lex) (c : UInt8) : LexOut :=
  match lx.mode with
  | .normal => normalStep lx.rep c
  | .esc => escStep c
  | .lparen =>
    if c == 63 then .ok ({ mode := .qmark }, [])
    else prepend (.opn {} {}) (normalStep .none c)
  | .qmark =>
    if c == 80 || c == 60 then .error .unsupported else flagsStep {} {} false false c
  | .flags on off neg saw => flagsStep on off neg saw c
  | .clsOpen =>
    if c == 94 then .ok ({ mode := .cls true true [] .none }, [])
    else clsStep true false [] .none c
  | .cls first neg items p => clsStep first neg items p c
  | .clsEsc neg items lo => clsEscStep neg items lo c

def lexRun : Lex → Bytes → LexOut
  | lx, [] => .ok (lx, [])
  | lx, c :: cs =>
    match lexStep lx c with
    | .error e => .error e
    | .ok (lx', ts) =>
      match lexRun lx' cs with
      | .error e => .error e
      | .ok (lx'', ts') => .ok (lx'', ts ++ ts')

def Mode.isNormal : Mode → Bool
  | .normal => true
  | _ => false

def lexAll (src : Bytes) : Except Err (List Tok) :=
  match lexRun Lex.init src with
  | .error e => .error e
  | .ok (lx, ts) => if lx.mode.isNormal then .ok ts else .error .syntax

/-! ### Token-level stack machine (Go's operator stack) -/

/-- an open group (or the top level): finished branches, the items of the current branch in
    *reverse* order, and the group's own flag change -/
structure Frame where
  branches : List (List Raw) := []
  items : List Raw := []
  on : Flags := {}
  off : Flags := {}
  deriving Repr

def wrapRep : RepKind → Raw → Raw
  | .star, r => .star r
  | .plus, r => .plus r
  | .quest, r => .quest r

/-- a repetition operator applies to the top of Go's stack; a flag group pushes nothing, so it is
    skipped; an empty branch has no operand (`missing argument to repetition operator`) -/
def repRev (k : RepKind) : List Raw → Option (List Raw)
  | [] => none
  | x :: rest =>
    if x.isFlags then (repRev k rest).map (x :: ·) else some (wrapRep k x :: rest)

def Frame.close (f : Frame) : List (List Raw) := f.branches ++ [f.items.reverse]

def act : List Frame → Tok → Option (List Frame)
  | f :: fs, .atom r => some ({ f with items := r :: f.items } :: fs)
  | f :: fs, .rep k => (repRev k f.items).map fun it => { f with items := it } :: fs
  | f :: fs, .bar => some ({ f with branches := f.close, items := [] } :: fs)
  | f :: fs, .opn on off => some ({ on := on, off := off } :: f :: fs)
  | f :: p :: fs, .clo => some ({ p with items := .group f.on f.off (mkAlt f.close) :: p.items } :: fs)
  | _, _ => none

def runToks : List Frame → List Tok → Option (List Frame)
  | fs, [] => some fs
  | fs, t :: ts =>
    match act fs t with
    | none => none
    | some fs' => runToks fs' ts

def finish : List Frame → Option (List (List Raw))
  | [f] => some f.close
  | _ => none

def parseToks (ts : List Tok) : Option (List (List Raw)) :=
  match runToks [{}] ts with
  | none => none
  | some fs => finish fs

/-- top-level branches of a pattern text -/
def branchesOf (src : Bytes) : Except Err (List (List Raw)) :=
  match lexAll src with
  | .error e => .error e
  | .ok ts =>
    match parseToks ts with
    | none => .error .syntax
    | some bs => .ok bs

/-- `regexp.Compile` -/
def compile (src : Bytes) : Except Err Rx :=
  match branchesOf src with
  | .error e => .error e
  | .ok bs => .ok (rx (mkAlt bs) dflt)

/-! ### Matcher: unanchored search (`MatchString`) by sets of end positions -/

def byteAt (s : Bytes) (i : Nat) : Option UInt8 := s[i]?

def wordAt (s : Bytes) (i : Nat) : Bool :=
  match byteAt s i with
  | some c => isWordByte c
  | none => false

def Asrt.holds (s : Bytes) (i : Nat) : Asrt → Bool
  | .bot => i == 0
  | .eot => i == s.length
  | .bol => i == 0 || byteAt s (i - 1) == some 10
  | .eol => i == s.length || byteAt s i == some 10
  | .wordb => (i != 0 && wordAt s (i - 1)) != wordAt s i
  | .nwordb => (i != 0 && wordAt s (i - 1)) == wordAt s i

def union (a b : List Nat) : List Nat := a ++ b.filter (fun x => !a.contains x)

/-- least fixed point of `acc ↦ acc ∪ f acc` by bounded iteration (at most `|s|+1` positions exist) -/
def iter : Nat → (List Nat → List Nat) → List Nat → List Nat
  | 0, _, acc => acc
  | n + 1, f, acc =>
    let acc' := union acc (f acc)
    if acc'.length == acc.length then acc else iter n f acc'

def stepChr (s : Bytes) (m : CM) (i : Nat) : Option Nat :=
  match byteAt s i with
  | some b => if m.test b then some (i + 1) else none
  | none => none

/-- `ends s r S` = positions where a match of `r` that starts at some position of `S` can end -/
def ends (s : Bytes) : Rx → List Nat → List Nat
  | .empty, S => S
  | .chr m, S => S.filterMap (stepChr s m)
  | .asrt a, S => S.filter (fun i => a.holds s i)
  | .cat a b, S => ends s b (ends s a S)
  | .alt a b, S => union (ends s a S) (ends s b S)
  | .star a, S => iter (s.length + 1) (ends s a) S

/-- `(*Regexp).MatchString`: is there a match starting anywhere -/
def searchRx (r : Rx) (s : Bytes) : Bool :=
  !(ends s r (List.range (s.length + 1))).isEmpty

/-! ### Where Go's `regexp/syntax` is known to deviate from these semantics

`syntax.parse` factors common prefixes out of alternations; its second round compares the leading
pieces with `Regexp.Equal`, which for literals compares the runes only and not the fold-case flag,
and a case-folded literal is stored as its upper-case rune.  So the single pattern `B.|(?i:b.)`
becomes `B(?:.|.)` and no longer matches `bx` (confirmed on go1.23).  This is a property of the
library's treatment of ONE expression: since the repair the code never builds an alternation of
its own, so the deviation can only occur inside a rule that the user wrote as such an alternation —
and there the rule "taken on its own" is, by the property's own reading, whatever `regexp` makes of
it.  `foldRisk` is a decidable over-approximation of the expressions on which that can happen: some
alternation has an upper-case case-sensitive literal in one branch and the same letter case-folded
in another.  For a rule inside it the model's regular-expression semantics are not claimed to be
`regexp`'s (the harness does not compare that rule); outside it model and `regexp` agree on every
generated case. -/

/-- literal leaves of an expression: (byte, case-folded?) -/
def CM.lits : CM → List (UInt8 × Bool)
  | .lit c fold => [(c, fold)]
  | .cls false items fold =>
    items.flatMap fun it =>
      match it with
      | .one c => (c, fold) :: (if items.contains (.one (swapCase c)) then [(c, true)] else [])
      | _ => []
  | _ => []

def Rx.lits : Rx → List (UInt8 × Bool)
  | .chr m => m.lits
  | .cat a b => a.lits ++ b.lits
  | .alt a b => a.lits ++ b.lits
  | .star a => a.lits
  | _ => []

def litConflict (x y : List (UInt8 × Bool)) : Bool :=
  x.any fun p => y.any fun q =>
    p.2 != q.2 && isAlpha p.1 && toLower p.1 == toLower q.1 && (if p.2 then isUpper q.1 else isUpper p.1)

def Rx.foldRisk : Rx → Bool
  | .alt a b => litConflict a.lits b.lits || a.foldRisk || b.foldRisk
  | .cat a b => a.foldRisk || b.foldRisk
  | .star a => a.foldRisk
  | _ => false

/-! ### `ruleset.RegexpMatcher` -/

structure Rule where
  src : Bytes
  exclude : Bool
  deriving Repr, DecidableEq

/-- a rule taken on its own as a regular expression -/
def Rule.search (r : Rule) (s : Bytes) : Bool :=
  match compile r.src with
  | .ok x => searchRx x s
  | .error _ => false

/-- the `-` prefix of `ParseRegexpListItem` (`strings.CutPrefix(val, "-")`, once) -/
def splitItem (val : Bytes) : Rule :=
  match val with
  | 45 :: rest => { src := rest, exclude := true }
  | _ => { src := val, exclude := false }

/-- `ParseRegexpListItem` -/
def parseItem (val : Bytes) : Except Err Rule :=
  let r := splitItem val
  match compile r.src with
  | .ok _ => .ok r
  | .error e => .error e

/-- `RegexpListItem.String` -/
def printItem (r : Rule) : Bytes := if r.exclude then 45 :: r.src else r.src

/-- the two `append` loops of `NewRegexpMatcherFromList`: both keep the order of the list -/
def includes (l : List Rule) : List Rule := l.filter (fun r => !r.exclude)
def excludes (l : List Rule) : List Rule := l.filter (fun r => r.exclude)

/-- the `*regexp.Regexp` values of a slice of rules: every source text compiled ON ITS OWN, in
    order.  A text that is not a regular expression has no `*regexp.Regexp` value
    (`ParseRegexpListItem` refuses it), so it cannot occur in a slice handed to the code; the
    model reports the first such text instead of inventing an expression for it. -/
def compileAll : List Bytes → Except Err (List Rx)
  | [] => .ok []
  | a :: rest =>
    match compile a with
    | .error e => .error e
    | .ok x =>
      match compileAll rest with
      | .error e => .error e
      | .ok xs => .ok (x :: xs)

/-- `RegexpMatcher`: the include and the exclude rules, one compiled expression per rule -/
structure Matcher where
  incl : List Rx
  excl : List Rx
  inverse : Bool := false
  deriving Repr

inductive Res where
  | ok (m : Matcher)
  | noInclude             -- ErrNoIncludeRules
  | panic (e : Err)       -- a slice entry that is no regular expression (nil `*regexp.Regexp`)
  deriving Repr

/-- `NewRegexpMatcher`, the rules given by their source texts: `len(include) == 0` is refused,
    otherwise the two slices are cloned as they are — nothing is joined, nothing recompiled -/
def newMatcher (incl excl : List Bytes) : Res :=
  if incl.isEmpty then .noInclude
  else match compileAll incl, compileAll excl with
    | .error e, _ => .panic e
    | .ok _, .error e => .panic e
    | .ok is, .ok es => .ok { incl := is, excl := es }

/-- `NewRegexpMatcherFromList` -/
def fromList (l : List Rule) : Res :=
  newMatcher ((includes l).map (·.src)) ((excludes l).map (·.src))

/-- one `for _, r := range rules { if r.MatchString(s) { return … } }` loop of `match` -/
def anySearch (rs : List Rx) (s : Bytes) : Bool := rs.any (fun x => searchRx x s)

/-- `(*RegexpMatcher).match`: some exclude rule matches ⇒ false; else some include rule matches
    ⇒ true; else false -/
def Matcher.matchRaw (m : Matcher) (s : Bytes) : Bool :=
  if anySearch m.excl s then false else anySearch m.incl s

/-- `(*RegexpMatcher).Match` -/
def Matcher.matches (m : Matcher) (s : Bytes) : Bool :=
  if m.inverse then !m.matchRaw s else m.matchRaw s

/-- `(*RegexpMatcher).Inverse` -/
def Matcher.inv (m : Matcher) : Matcher := { m with inverse := !m.inverse }

/-! ### The property, decidable form -/

/-- what the property demands: some include rule matches on its own and no exclude rule does -/
def specMatch (l : List Rule) (s : Bytes) : Bool :=
  (includes l).any (·.search s) && !(excludes l).any (·.search s)

def validSrc (src : Bytes) : Bool :=
  match compile src with
  | .ok _ => true
  | .error _ => false

/-- every rule of the list is a valid, non-empty regular expression (the property's quantifier) -/
def Valid (l : List Rule) : Prop := ∀ r ∈ l, validSrc r.src = true ∧ r.src ≠ []

/-- the property's right-hand side: some include rule matches on its own, no exclude rule does -/
def Spec (l : List Rule) (s : Bytes) : Prop :=
  (∃ r ∈ includes l, r.search s = true) ∧ ¬ ∃ r ∈ excludes l, r.search s = true

instance (l : List Rule) : Decidable (Valid l) := by unfold Valid; infer_instance
instance (l : List Rule) (s : Bytes) : Decidable (Spec l s) := by unfold Spec; infer_instance

/-- `Match` of the matcher built from a list, when construction succeeds -/
def matchesOf (l : List Rule) (s : Bytes) : Option Bool :=
  match fromList l with
  | .ok m => some (m.matches s)
  | _ => none

def isAscii (s : Bytes) : Bool := s.all (fun c => c < 128)

/-! ### The pre-repair construction (NOT what the code does any more)

Before the repair of F10/F26 `NewRegexpMatcher` joined the rules' *source texts* with `|` and
compiled the joined text as one expression.  `joinSrc`/`joinedSearch` reproduce that construction;
they are used only by the kernel-checked witnesses of the section "Why the rules must not be
joined" in `Theorems/C17.lean` and by no definition above. -/

/-- pre-repair: the `strings.Builder` loop of the removed `build` closure, sources joined with `|` -/
def joinSrc : List Bytes → Bytes
  | [] => []
  | [a] => a
  | a :: b :: rest => a ++ 124 :: joinSrc (b :: rest)

/-- pre-repair: `MatchString` of the one expression compiled from the joined text -/
def joinedSearch (srcs : List Bytes) (s : Bytes) : Bool :=
  match compile (joinSrc srcs) with
  | .ok x => searchRx x s
  | .error _ => false

end C17
end FwdVerif
