/-
  C10 — the header lists of the HTTP/2 relay, between its HPACK decoder and its HPACK encoder, and the
  options of `h2.Config` (`/repo/internal/martian/h2`: h2.go `Config`, `Config.Proxy`; relay.go
  `decodeFull`, `encodeFull`).  Core-only.

  `Model/H2Relay.lean` keeps HPACK opaque: a completed block carries the re-encoded block as an oracle
  value.  This file models the one place between `decoder.DecodeFull` and `encoder.WriteField` where
  the code touches the decoded list, the loop of `encodeFull`:

      for _, h := range headers {
          if *r.enableDebugLogs { … fmt.Fprintf(&buf, "  %v\n", h) … }     // the debug dump
          if err := r.encoder.WriteField(h); err != nil { … }                // what the receiver decodes
      }

  `h` is the range copy: whatever the logging block does to it reaches the encoder.  The option
  `EnableDebugLogs` is handed to `newRelay` as a pointer and is read in `encodeFull`, in `relayFrames`
  (one log line per frame) and in `Config.Proxy` (one log line) — the frame machine of
  `Model/H2Relay.lean` does not get it at all (`Relay.startCfg`).

  A header field is `hpack.HeaderField`: name, value and `Sensitive`, the mark of the "literal never
  indexed" representation (RFC 7541 §6.2.3): x/net's decoder sets it for that representation only and
  its encoder writes exactly the fields that carry it that way, so the mark travels through the
  unchanged relay like names and values do (trusted base: the library's round trip).
-/
import FwdVerif.Model.H2Relay

namespace FwdVerif
namespace H2

open Wire

/-- `hpack.HeaderField` -/
structure HField where
  name : Bytes
  value : Bytes
  /-- `Sensitive`: decoded from / to be encoded as a literal never indexed -/
  sensitive : Bool := false
  deriving DecidableEq, Repr

/-- the options of `h2.Config` a relay is started with (besides the trust anchors), and which tree
    is modelled (`fixCredit`, `fixEndStream`: see `Dir`) -/
structure RelayCfg where
  /-- `EnableDebugLogs` -/
  debugLogs : Bool := false
  fixCredit : Bool := false
  fixEndStream : Bool := false
  deriving DecidableEq, Repr

/-- `Config.Proxy` → `newRelay` twice: the frame machine is started without the logging option -/
def Relay.startCfg {α : Type} (c : RelayCfg) : Relay α := Relay.start c.fixCredit c.fixEndStream

/-- one pass of the loop of `encodeFull` -/
structure EncStep where
  /-- the line appended to the debug dump -/
  logged : Option HField
  /-- the field handed to `r.encoder.WriteField` -/
  written : HField
  deriving DecidableEq, Repr

/-- the loop body of the unchanged tree: the field is printed when the option is on, and written -/
def encodeField (debug : Bool) (h : HField) : EncStep :=
  { logged := if debug then some h else none, written := h }

/-- `encodeFull` up to the opaque encoder, for a loop body `f`: (debug dump, fields written in order) -/
def encodeFullWith (f : Bool → HField → EncStep) (debug : Bool) (hs : List HField) : List HField × List HField :=
  ((hs.map (f debug)).filterMap (·.logged), (hs.map (f debug)).map (·.written))

def encodeFull : Bool → List HField → List HField × List HField := encodeFullWith encodeField

/-- a header block completed by one endpoint, as `decodeFull` returns it (HEADERS with or without
    CONTINUATION, trailers, PUSH_PROMISE: `relay.header` and `relay.pushPromise` call `encodeFull` alike) -/
structure HEv where
  side : Side
  sid : Nat
  /-- `some p`: a PUSH_PROMISE promising stream `p` -/
  promised : Option Nat := none
  list : List HField
  deriving DecidableEq, Repr

/-- the list the other endpoint decodes for a list the relay decoded, for a loop body `f` -/
def relayListWith (f : Bool → HField → EncStep) (c : RelayCfg) (hs : List HField) : List HField :=
  (encodeFullWith f c.debugLogs hs).2

/-- a whole schedule of header blocks of both directions, as the receiving endpoints decode them -/
def relayListsWith (f : Bool → HField → EncStep) (c : RelayCfg) (evs : List HEv) : List HEv :=
  evs.map fun e => { e with list := relayListWith f c e.list }

def relayList : RelayCfg → List HField → List HField := relayListWith encodeField
def relayLists : RelayCfg → List HEv → List HEv := relayListsWith encodeField

/-! ### a loop body that is NOT the tree's: log hygiene applied to the range copy -/

/-- "[redacted]" -/
def redacted : Bytes := [91, 114, 101, 100, 97, 99, 116, 101, 100, 93]

/-- the value of a never-indexed field is replaced before it is printed — on the copy that is written too -/
def encodeFieldRedacting (debug : Bool) (h : HField) : EncStep :=
  let h' : HField := if debug && h.sensitive then { h with value := redacted } else h
  { logged := if debug then some h' else none, written := h' }

/-! ### line protocol (`C10 hlist <debug> <name:value:sensitive,…>`) -/

def parseHField (s : String) : Option HField :=
  match s.splitOn ":" with
  | [n, v, m] => do pure { name := ← bytesOfHex n, value := ← bytesOfHex v, sensitive := ← boolOf m }
  | _ => none

def renderHField (h : HField) : String :=
  hexOfBytes h.name ++ ":" ++ hexOfBytes h.value ++ ":" ++ ofBool h.sensitive

def parseHList (s : String) : Option (List HField) := (splitList s).mapM parseHField

def renderHList (hs : List HField) : String := joinList (hs.map renderHField)

end H2
end FwdVerif
