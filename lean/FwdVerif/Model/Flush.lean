/-
  C02 — executable model of `patternFlushWriter` (internal/martian/flush.go).

  ```go
  type patternFlushWriter struct { w io.Writer; f flusher; pattern [2]byte; last byte }
  func (w *patternFlushWriter) Write(p []byte) (n int, err error) {
      n, err = w.w.Write(p)
      if err != nil { return }
      if (w.last == w.pattern[0] && n > 0 && p[0] == w.pattern[1]) ||
         bytes.LastIndex(p, w.pattern[:]) != -1 {
          err = w.f.Flush()
      }
      if n > 0 { w.last = p[n-1] } else { w.last = 0 }
      return
  }
  ```

  The underlying writer is assumed to accept everything (`n = len(p)`, no error) and `last`
  starts as the zero byte.  The writer is used with pattern "\n\n" for `text/event-stream`
  responses and "\r\n" for chunked / unknown-length bodies.

  Everything here is total, structurally recursive and kernel-reducible (so `decide` evaluates
  it).  Core-only.
-/
import FwdVerif.Lib.Wire

namespace FwdVerif
namespace Flush

/-- `bytes.LastIndex(p, pattern[:]) != -1`: the two pattern bytes occur adjacently in `p`. -/
def containsPair (pat : UInt8 × UInt8) : Bytes → Bool
  | [] => false
  | [_] => false
  | a :: b :: rest => (a == pat.1 && b == pat.2) || containsPair pat (b :: rest)

/-- One `Write(p)` with the writer's state `last`: `(flushed?, new last)`. -/
def step (pat : UInt8 × UInt8) (last : UInt8) (p : Bytes) : Bool × UInt8 :=
  ((last == pat.1 && p.head? == some pat.2) || containsPair pat p, p.getLast?.getD 0)

/-- The flush decisions of a sequence of writes, starting from state `last`. -/
def flushesFrom (pat : UInt8 × UInt8) (last : UInt8) : List Bytes → List Bool
  | [] => []
  | p :: ws => (step pat last p).1 :: flushesFrom pat (step pat last p).2 ws

/-- The flush decisions of a sequence of writes on a fresh writer (`last = 0`):
    element `i` is `true` iff the `i`-th write is followed by a `Flush()`. -/
def flushes (pat : UInt8 × UInt8) (ws : List Bytes) : List Bool := flushesFrom pat 0 ws

end Flush
end FwdVerif
