/-
  C02 — executable model of `patternFlushWriter` (internal/martian/flush.go).

  ```go
  type patternFlushWriter struct { w io.Writer; f flusher; pattern [2]byte; last byte }
  func (w *patternFlushWriter) Write(p []byte) (n int, err error) {
      n, err = w.w.Write(p)
      if err != nil { return }
      if (w.last == w.pattern[0] && n > 0 && p[0] == w.pattern[1]) ||
         bytes.LastIndex(p, w.pattern[:]) != -1 {
          err = w.f.Flush()
      }
      if n > 0 { w.last = p[n-1] } else { w.last = 0 }
      return
  }
  ```

  The underlying writer is assumed to accept everything (`n = len(p)`, no error) and `last`
  starts as the zero byte.  The writer is used with pattern "\n\n" for `text/event-stream`
  responses and "\r\n" for chunked / unknown-length bodies.

  Everything here is total, structurally recursive and kernel-reducible (so `decide` evaluates
  it).  Core-only.
-/
import FwdVerif.Lib.Wire

namespace FwdVerif
namespace Flush

/-- `bytes.LastIndex(p, pattern[:]) != -1`: the two pattern bytes occur adjacently in `p`. -/
def containsPair (pat : UInt8 × UInt8) : Bytes → Bool
  | [] => false
  | [_] => false
  | a :: b :: rest => (a == pat.1 && b == pat.2) || containsPair pat (b :: rest)

/-- One `Write(p)` with the writer's state `last`: `(flushed?, new last)`. -/
def step (pat : UInt8 × UInt8) (last : UInt8) (p : Bytes) : Bool × UInt8 :=
  ((last == pat.1 && p.head? == some pat.2) || containsPair pat p, p.getLast?.getD 0)

/-- The flush decisions of a sequence of writes, starting from state `last`. -/
def flushesFrom (pat : UInt8 × UInt8) (last : UInt8) : List Bytes → List Bool
  | [] => []
  | p :: ws => (step pat last p).1 :: flushesFrom pat (step pat last p).2 ws

/-- The flush decisions of a sequence of writes on a fresh writer (`last = 0`):
    element `i` is `true` iff the `i`-th write is followed by a `Flush()`. -/
def flushes (pat : UInt8 × UInt8) (ws : List Bytes) : List Bool := flushesFrom pat 0 ws


/-!
  ## The client connection: a sequence of responses over one `bufio.Writer`

  `proxyConn.writeResponse` (internal/martian/proxy_conn.go) runs once per response on a
  keep-alive client connection:

  ```go
  switch {
  case isHeaderOnlySpec(res):  err = writeHeaderOnlyResponse(p.brw.Writer, res)
  default:
      switch {
      case isTextEventStream(res): w := newPatternFlushWriter(p.brw.Writer, p.brw.Writer, sseFlushPattern);   err = res.Write(w)
      case shouldChunk(res):       w := newPatternFlushWriter(p.brw.Writer, p.brw.Writer, chunkFlushPattern); err = res.Write(w)
      default:                     err = res.Write(p.brw)
      }
  }
  ... err = p.brw.Flush()
  ```

  i.e. every response gets a FRESH `patternFlushWriter` (its own pattern, `last = 0`); the only state
  shared by the responses of a connection is `p.brw.Writer`, a `bufio.Writer` of 4096 bytes that is
  flushed at the end of every response.  `Conn` is that state; what the client can have received at
  any moment is `Buf.delivered`.
-/

abbrev Pat := UInt8 × UInt8

def ssePattern : Pat := (10, 10)
def chunkPattern : Pat := (13, 10)

/-- The writer `writeResponse` hands to `res.Write`: `none` = the `bufio.Writer` itself
    (header-only responses and bodies of known length that are not event streams).
    `minor` is `res.ProtoMinor` (the origin's version), `lengthKnown` is `res.ContentLength != -1`
    (`shouldChunk`: HTTP/1.1, length unknown, not header-only). -/
def choosePattern (headerOnly sse : Bool) (minor : Nat) (lengthKnown : Bool) : Option Pat :=
  if headerOnly then none
  else if sse then some ssePattern
  else if minor == 1 && !lengthKnown then some chunkPattern
  else none

/-- `bufio.Writer`: `buffered` = `b.n`; `delivered` = bytes handed to the connection so far. -/
structure Buf where
  buffered : Nat
  delivered : Nat
deriving DecidableEq, Repr

/-- `bufio.Writer.Write(p)` with `len(p) = n` (the connection accepts everything):
    while the data does not fit: an empty buffer passes it on directly, otherwise the buffer is
    topped up and flushed.  After one top-up the buffer is empty, so there are at most two rounds. -/
def Buf.write (size : Nat) (b : Buf) (n : Nat) : Buf :=
  let avail := size - b.buffered
  if n ≤ avail then { b with buffered := b.buffered + n }
  else if b.buffered = 0 then { b with delivered := b.delivered + n }
  else
    let rest := n - avail
    if rest ≤ size then { buffered := rest, delivered := b.delivered + b.buffered + avail }
    else { buffered := 0, delivered := b.delivered + b.buffered + avail + rest }

/-- `bufio.Writer.Flush()`. -/
def Buf.flush (b : Buf) : Buf := { buffered := 0, delivered := b.delivered + b.buffered }

/-- All bytes written to the `bufio.Writer` so far. -/
def Buf.total (b : Buf) : Nat := b.delivered + b.buffered

/-- The connection between two writes: the writer of the response in progress (`pat = none`: no
    pattern writer) with its `last` byte, and the shared `bufio.Writer`. -/
structure Conn where
  pat : Option Pat
  last : UInt8
  buf : Buf
deriving DecidableEq, Repr

/-- A new connection. -/
def Conn.fresh : Conn := { pat := none, last := 0, buf := { buffered := 0, delivered := 0 } }

/-- What one write did: was it followed by `Flush()`, and how many bytes of the connection's
    output has the client side of the socket been given after it. -/
structure Out where
  flushed : Bool
  delivered : Nat
deriving DecidableEq, Repr

/-- `writeResponse` picks the writer of this response: a new `patternFlushWriter` (or none). -/
def Conn.begin (c : Conn) (pat : Option Pat) : Conn := { pat := pat, last := 0, buf := c.buf }

/-- One `Write(p)` of `res.Write` to the response's writer. -/
def Conn.write (size : Nat) (c : Conn) (p : Bytes) : Conn × Out :=
  let b := c.buf.write size p.length
  match c.pat with
  | none => ({ c with buf := b }, { flushed := false, delivered := b.delivered })
  | some pat =>
    let s := step pat c.last p
    let b' := if s.1 then b.flush else b
    ({ pat := some pat, last := s.2, buf := b' }, { flushed := s.1, delivered := b'.delivered })

def Conn.writes (size : Nat) (c : Conn) : List Bytes → Conn × List Out
  | [] => (c, [])
  | p :: ps =>
    ((c.write size p).1.writes size ps |>.1, (c.write size p).2 :: ((c.write size p).1.writes size ps).2)

/-- `p.brw.Flush()` at the end of `writeResponse`. -/
def Conn.finish (c : Conn) : Conn × Out :=
  ({ c with buf := c.buf.flush }, { flushed := true, delivered := c.buf.flush.delivered })

/-- One response as `res.Write` emits it: the writer chosen for it and its writes. -/
structure Reply where
  pat : Option Pat
  writes : List Bytes
deriving DecidableEq, Repr

/-- One `writeResponse`: one `Out` per write and a last one for the final `Flush()`. -/
def Conn.reply (size : Nat) (c : Conn) (r : Reply) : Conn × List Out :=
  let w := (c.begin r.pat).writes size r.writes
  (w.1.finish.1, w.2 ++ [w.1.finish.2])

/-- The responses of a connection, in order. -/
def Conn.replies (size : Nat) (c : Conn) : List Reply → List (List Out)
  | [] => []
  | r :: rs => (c.reply size r).2 :: (c.reply size r).1.replies size rs

/-- Size of `bufio.NewWriter`'s buffer. -/
def bufSize : Nat := 4096

/-- One response written on a new connection. -/
def replyOuts (size : Nat) (r : Reply) : List Out := (Conn.fresh.reply size r).2

/-- The flush decisions of one response seen alone (the final `true` is the end-of-response flush). -/
def replyFlushes (r : Reply) : List Bool :=
  (match r.pat with
   | none => r.writes.map fun _ => false
   | some pat => flushes pat r.writes) ++ [true]

/-- Number of bytes a response puts on the connection. -/
def Reply.size (r : Reply) : Nat := r.writes.flatten.length

def repliesSize (rs : List Reply) : Nat := (rs.map Reply.size).sum

def Out.shift (k : Nat) (o : Out) : Out := { o with delivered := o.delivered + k }

end Flush
end FwdVerif
