/-
  C11 — helper lemmas (part 2): every action preserves the invariant `Inv`.
-/
import FwdVerif.Lemmas.C11Step

namespace FwdVerif
namespace C11

theorem step_conn_eq {s s' : State} {c : ConnId} {a : CAct} (h : step s (.conn c a) = some s') :
    ∃ x e, cstep s.closing (lockFree s) (s.conns c) a = some (x, e) ∧ s' = applyEff (setConn s c x) c e := by
  simp only [step] at h
  split at h
  · rename_i x e hc
    exact ⟨x, e, hc, by simpa using h.symm⟩
  · simp at h

theorem lockFree_iff (s : State) : lockFree s = true ↔ s.lock = .none := by
  simp [lockFree]

theorem inv_conn {s s' : State} {c : ConnId} {a : CAct} (hi : Inv s)
    (h : step s (.conn c a) = some s') : Inv s' := by
  obtain ⟨x, e, hc, rfl⟩ := step_conn_eq h
  have hpres := cstep_present hc
  have hcid : c ∈ s.ids := by
    apply Classical.byContradiction
    intro hn
    have := hi.absent c hn
    rw [this] at hpres
    exact hpres.1 rfl
  have hcnt := cstep_counted hc
  have hlock := cstep_lock hc
  have hmap := cstep_map hc
  have hloc := cstep_local hc (hi.loc c)
  have heff := cstep_eff_holds hc
  have hreg := cstep_reg hc
  have hcreg := cstep_counted_reg hc
  have hlc := hi.lockConn
  have hcu := cnt_update (f := s.conns) (x := x) hi.nodup hcid
  refine
    { nodup := ?_, absent := ?_, counter := ?_, lockConn := ?_, lockShut := ?_, lockClose := ?_,
      closingS := ?_, closingC := ?_, regNodup := ?_, reg := ?_, loc := ?_, nilDrained := ?_, afterNil := ?_,
      errCtx := ?_, afterClose := ?_, sweep := ?_ }
  · cases e <;> exact hi.nodup
  · intro d hd
    have hd' : d ∉ s.ids := by cases e <;> exact hd
    have hne : d ≠ c := fun hh => hd' (hh ▸ hcid)
    have := hi.absent d hd'
    cases e <;> simp [applyEff, setConn, hne, this]
  · have hc0 := hi.counter
    cases e <;> simp only [applyEff, setConn, effDelta] at * <;> rw [hcu] <;> omega
  · -- lockConn
    intro d
    have hd := hlc d
    have hcc := hlc c
    have hlf := lockFree_iff s
    by_cases hdc : d = c
    · subst hdc
      cases e <;> simp only [applyEff, setConn, lockSpec, if_true] at * <;> grind
    · cases e <;> simp only [applyEff, setConn, lockSpec, if_neg hdc] at * <;> grind
  · -- lockShut
    intro k
    have hls := hi.lockShut k
    have hcc := hlc c
    have hlf := lockFree_iff s
    cases e <;> simp only [applyEff, setConn, lockSpec] at * <;> grind
  · -- lockClose
    intro k
    have hlcl := hi.lockClose k
    have hcc := hlc c
    have hlf := lockFree_iff s
    cases e <;> simp only [applyEff, setConn, lockSpec] at * <;> grind
  · have := hi.closingS
    cases e <;> exact this
  · have := hi.closingC
    cases e <;> exact this
  · -- regNodup
    have hrc := hi.reg c
    have hrn := hi.regNodup
    cases e <;> simp only [applyEff, setConn, mapSpec] at * <;>
      first
        | exact hrn
        | exact List.nodup_cons.mpr ⟨by grind, hrn⟩
        | exact hrn.erase c
  · -- reg
    intro d
    have hrd := hi.reg d
    have hrc := hi.reg c
    have hrn := hi.regNodup
    by_cases hdc : d = c
    · subst hdc
      cases e <;> simp only [applyEff, setConn, mapSpec, if_true, List.mem_cons, hrn.mem_erase_iff] at * <;> grind
    · cases e <;> simp only [applyEff, setConn, mapSpec, if_neg hdc, List.mem_cons, hrn.mem_erase_iff] at * <;> grind
  · -- loc
    intro d
    have hld := hi.loc d
    by_cases hdc : d = c
    · subst hdc
      cases e <;> simpa [applyEff, setConn] using hloc
    · cases e <;> simpa [applyEff, setConn, hdc] using hld
  · -- nilDrained
    intro k hs
    have hs' : (s.shuts k).pc = .retNil := by cases e <;> exact hs
    have h0 := hi.nilDrained k hs'
    have hsh : s.lock = .shutdown k := (hi.lockShut k).mpr (by simp [hs', shutHolds])
    have hcc := hlc c
    have hc0 := hi.counter
    have hpos : counted (s.conns c).pc = true → 1 ≤ cnt s.conns s.ids := cnt_pos_of_mem hcid
    cases e <;> simp only [applyEff, setConn] at * <;> try exact h0
    · have := hcc.mp (heff.1 (by simp)); rw [hsh] at this; cases this
    · have hp := heff.2 trivial
      have := hpos (by simp [hp, counted])
      omega
  · -- afterNil
    intro k hs d hd
    have han := hi.afterNil k
    have hs' : (s.shuts k).pc = .retNil ∨ (s.shuts k).pc = .doneNil := by cases e <;> exact hs
    have hclt : s.closing = true := hi.closingS k (by rcases hs' with h | h <;> simp [h, shutClosed])
    by_cases hdc : d = c
    · subst hdc
      have hd' : counted x.pc = true := by cases e <;> simpa [applyEff, setConn] using hd
      have := hcreg hd'
      have h2 := han hs' d
      cases e <;> simp only [applyEff, setConn, if_true] at * <;> grind
    · have h2 := han hs' d
      cases e <;> simp only [applyEff, setConn, if_neg hdc] at * <;> grind
  · have := hi.errCtx
    cases e <;> exact this
  · -- afterClose
    intro k hs d hd
    have hac := hi.afterClose k
    have hs' : closeSwept (s.closes k) = true := by cases e <;> exact hs
    have hclt : s.closing = true := hi.closingC k (by
      revert hs'; cases s.closes k <;> simp [closeSwept, closeClosed])
    by_cases hdc : d = c
    · subst hdc
      have hd' : preReg x.pc = false := by cases e <;> simpa [applyEff, setConn] using hd
      have := hreg hd'
      have h2 := hac hs' d
      have hsd := cstep_sockDone hc
      cases e <;> simp only [applyEff, setConn, if_true] at * <;> grind
    · have h2 := hac hs' d
      cases e <;> simp only [applyEff, setConn, if_neg hdc] at * <;> grind
  · -- sweep: the map cannot change while Close holds the mutex
    intro k hs d hd
    have hsw := hi.sweep k
    have hs' : s.closes k = .closedCh := by cases e <;> exact hs
    have hlk : s.lock = .closer k := (hi.lockClose k).mpr (by simp [hs', closeHolds])
    have hnoc : holdsLock (s.conns c).pc = false := by
      cases hh : holdsLock (s.conns c).pc with
      | false => rfl
      | true => have := (hlc c).mp hh; rw [hlk] at this; cases this
    have hnoeff : e ≠ .ins ∧ e ≠ .add ∧ e ≠ .del := by
      refine ⟨?_, ?_, ?_⟩ <;> intro he <;> (have h3 := heff.1 (by simp [he]); rw [hnoc] at h3; cases h3)
    have hreg0 : (applyEff (setConn s c x) c e).registered = s.registered := by
      cases e <;> simp_all [applyEff, setConn]
    have hsl : (applyEff (setConn s c x) c e).sweepLeft = s.sweepLeft := by cases e <;> rfl
    rw [hreg0] at hd
    rw [hsl]
    rcases hsw hs' d hd with hin | hsc
    · exact Or.inl hin
    · right
      by_cases hdc : d = c
      · subst hdc
        have hcd : (applyEff (setConn s d x) d e).conns d = x := by cases e <;> simp [applyEff, setConn]
        rw [hcd]
        have hm := (hi.reg d).mp hd
        have hm' : inMap x.pc = true := by
          have := hmap
          cases e <;> simp_all [mapSpec]
        have hlx : holdsLock x.pc = false := by
          have := hlock
          cases e <;> simp_all [lockSpec, lockFree]
        have hx : preReg x.pc = false := by
          revert hm' hlx
          cases x.pc <;> simp [inMap, counted, preReg, holdsLock]
        exact cstep_sockDone hc hsc
      · have : (applyEff (setConn s c x) c e).conns d = s.conns d := by cases e <;> simp [applyEff, setConn, hdc]
        rw [this]; exact hsc

/-- fields the invariant does not mention may change freely -/
theorem inv_irrelevant {s : State} (hi : Inv s) (lo : Bool) (sv : SrvPC) (r : RPC) :
    Inv { s with listenerOpen := lo, serve := sv, runner := r } :=
  ⟨hi.nodup, hi.absent, hi.counter, hi.lockConn, hi.lockShut, hi.lockClose, hi.closingS, hi.closingC, hi.regNodup,
   hi.reg, hi.loc, hi.nilDrained, hi.afterNil, hi.errCtx, hi.afterClose, hi.sweep⟩

/-- … and so may the ghost / bookkeeping fields of the callers -/
theorem inv_ghost {s : State} (hi : Inv s) (rs rc : CallId) (ap ec : Bool) :
    Inv { s with runShut := rs, runClose := rc, api := ap, everClosed := ec } :=
  ⟨hi.nodup, hi.absent, hi.counter, hi.lockConn, hi.lockShut, hi.lockClose, hi.closingS, hi.closingC, hi.regNodup,
   hi.reg, hi.loc, hi.nilDrained, hi.afterNil, hi.errCtx, hi.afterClose, hi.sweep⟩

/-- a change of connection records that keeps every control-relevant aspect -/
theorem inv_conns {s : State} {g : ConnId → Conn} (hi : Inv s)
    (hg : ∀ d, counted (g d).pc = counted (s.conns d).pc ∧ holdsLock (g d).pc = holdsLock (s.conns d).pc ∧
      inMap (g d).pc = inMap (s.conns d).pc ∧ preReg (g d).pc = preReg (s.conns d).pc ∧
      (g d).regClosing = (s.conns d).regClosing ∧ (sockDone (s.conns d) → sockDone (g d)) ∧
      Local s.closing (g d))
    (habs : ∀ d, d ∉ s.ids → g d = {}) : Inv { s with conns := g } := by
  refine
    { nodup := hi.nodup, absent := habs, counter := ?_, lockConn := ?_, lockShut := hi.lockShut,
      lockClose := hi.lockClose, closingS := hi.closingS, closingC := hi.closingC, regNodup := hi.regNodup,
      reg := ?_, loc := ?_,
      nilDrained := hi.nilDrained, afterNil := ?_, errCtx := hi.errCtx, afterClose := ?_, sweep := ?_ }
  · show s.counter = cnt g s.ids
    rw [hi.counter]
    exact cnt_congr (fun d _ => (hg d).1.symm)
  · intro d; show holdsLock (g d).pc = true ↔ _; rw [(hg d).2.1]; exact hi.lockConn d
  · intro d; show _ ↔ inMap (g d).pc = true; rw [(hg d).2.2.1]; exact hi.reg d
  · intro d; exact (hg d).2.2.2.2.2.2
  · intro k hs d hd
    show (g d).regClosing = true
    rw [(hg d).2.2.2.2.1]
    exact hi.afterNil k hs d (by rw [← (hg d).1]; exact hd)
  · intro k hs d hd
    show sockDone (g d) ∨ (g d).regClosing = true
    rw [(hg d).2.2.2.2.1]
    have hd' : preReg (s.conns d).pc = false := by rw [← (hg d).2.2.2.1]; exact hd
    rcases hi.afterClose k hs d hd' with h | h
    · exact Or.inl ((hg d).2.2.2.2.2.1 h)
    · exact Or.inr h
  · intro k hs d hd
    rcases hi.sweep k hs d hd with h | h
    · exact Or.inl h
    · exact Or.inr ((hg d).2.2.2.2.2.1 h)

/-- updating one existing connection without touching its control state -/
theorem inv_setConn {s : State} {c : ConnId} {x : Conn} (hi : Inv s) (hc : c ∈ s.ids)
    (hpc : x.pc = (s.conns c).pc) (hreg : x.regClosing = (s.conns c).regClosing)
    (hsock : (s.conns c).sockClosed = true → x.sockClosed = true)
    (hl : Local s.closing x) : Inv (setConn s c x) := by
  apply inv_conns hi
  · intro d
    by_cases hd : d = c
    · subst hd; simp [hpc, hreg, hl]
      intro hsd
      rcases hsd with h | h
      · exact Or.inl (hsock h)
      · exact Or.inr (hpc.trans h)
    · simp [hd, hi.loc d]
  · intro d hd
    have : d ≠ c := fun h => hd (h ▸ hc)
    simp [this, hi.absent d hd]

theorem mem_ids_of_pc {s : State} (hi : Inv s) {c : ConnId} (h : (s.conns c).pc ≠ .absent) : c ∈ s.ids := by
  apply Classical.byContradiction
  intro hn
  rw [hi.absent c hn] at h
  exact h rfl

theorem inv_closeListener {s : State} (hi : Inv s) : Inv (closeListener s) := by
  have : Inv { s with conns := fun d => if (s.conns d).pc = .backlog then { s.conns d with pc := .reset } else s.conns d } := by
    apply inv_conns hi
    · intro d
      by_cases hb : (s.conns d).pc = .backlog
      · have hl := hi.loc d
        simp only [hb, if_true]
        refine ⟨by simp [counted], by simp [holdsLock], by simp [inMap, counted], by simp [preReg], trivial,
          (by intro hsd; rcases hsd with h | h
              · exact Or.inl h
              · rw [hb] at h; cases h), ?_⟩
        obtain ⟨h1, h2, h3, h4, h5, h6, h7⟩ := hl
        constructor <;> simp_all [preReg, noService, dropPath, pastDec]
      · simp [hb, hi.loc d]
    · intro d hd
      simp [hi.absent d hd]
  exact inv_irrelevant this false .returned s.runner

theorem inv_new {s : State} {c : ConnId} {x : Conn} (hi : Inv s) (hc : c ∉ s.ids)
    (hx : x.pc = .backlog ∨ x.pc = .refused) (hl : ∀ cl, Local cl x) :
    Inv { setConn s c x with ids := c :: s.ids } := by
  have hold := hi.absent c hc
  have hcx : counted x.pc = false := by rcases hx with h | h <;> simp [h, counted]
  have hhx : holdsLock x.pc = false := by rcases hx with h | h <;> simp [h, holdsLock]
  have hmx : inMap x.pc = false := by rcases hx with h | h <;> simp [h, inMap, counted]
  have hpx : preReg x.pc = true := by rcases hx with h | h <;> simp [h, preReg]
  refine
    { nodup := List.nodup_cons.mpr ⟨hc, hi.nodup⟩, absent := ?_, counter := ?_, lockConn := ?_,
      lockShut := hi.lockShut, lockClose := hi.lockClose, closingS := hi.closingS, closingC := hi.closingC,
      regNodup := hi.regNodup,
      reg := ?_, loc := ?_, nilDrained := hi.nilDrained, afterNil := ?_, errCtx := hi.errCtx, afterClose := ?_,
      sweep := ?_ }
  · intro d hd
    have hd1 : d ≠ c := fun h => hd (h ▸ List.mem_cons_self)
    have hd2 : d ∉ s.ids := fun h => hd (List.mem_cons_of_mem _ h)
    simp [setConn, hd1, hi.absent d hd2]
  · show s.counter = cnt _ (c :: s.ids)
    simp only [cnt, setConn, if_true, hcx]
    rw [cnt_update_not_mem hc, hi.counter]; simp
  · intro d
    by_cases hd : d = c
    · subst hd
      have := hi.lockConn d
      simp [setConn, hhx]
      rw [hold] at this
      simpa [holdsLock] using this
    · simpa [setConn, hd] using hi.lockConn d
  · intro d
    by_cases hd : d = c
    · subst hd
      have := hi.reg d
      rw [hold] at this
      simp [setConn, hmx]
      simpa [inMap, counted] using this
    · simpa [setConn, hd] using hi.reg d
  · intro d
    by_cases hd : d = c
    · subst hd; simpa [setConn] using hl s.closing
    · simpa [setConn, hd] using hi.loc d
  · intro k hs d hd
    by_cases hdc : d = c
    · subst hdc; simp [setConn, hcx] at hd
    · simp only [setConn, if_neg hdc] at hd ⊢
      exact hi.afterNil k hs d hd
  · intro k hs d hd
    by_cases hdc : d = c
    · subst hdc; simp [setConn, hpx] at hd
    · simp only [setConn, if_neg hdc] at hd ⊢
      exact hi.afterClose k hs d hd
  · intro k hs d hd
    have hdc : d ≠ c := by
      intro h; subst h
      have := (hi.reg d).mp hd
      rw [hold] at this
      simp [inMap, counted] at this
    rcases hi.sweep k hs d hd with h | h
    · exact Or.inl h
    · right; simpa [setConn, hdc] using h

/-! ## the calls of `Shutdown` and `Close` -/

/-- what the invariant says about call `k` of `Shutdown`, whose record is `x` -/
structure SInv (s : State) (k : CallId) (x : SCall) : Prop where
  lock : s.lock = .shutdown k ↔ shutHolds x.pc = true
  closing : shutClosed x.pc = true → s.closing = true
  nilDrained : x.pc = .retNil → s.counter = 0
  afterNil : (x.pc = .retNil ∨ x.pc = .doneNil) →
      ∀ c, counted (s.conns c).pc = true → (s.conns c).regClosing = true
  errCtx : (x.pc = .retErr ∨ x.pc = .doneErr) → x.done.isSome = true

/-- what the invariant says about call `k` of `Close`, which is at `x` -/
structure CInv (s : State) (k : CallId) (x : CPC) : Prop where
  lock : s.lock = .closer k ↔ closeHolds x = true
  closing : closeClosed x = true → s.closing = true
  afterClose : closeSwept x = true → ∀ c, preReg (s.conns c).pc = false →
      sockDone (s.conns c) ∨ (s.conns c).regClosing = true
  sweep : x = .closedCh → ∀ c, c ∈ s.registered → c ∈ s.sweepLeft ∨ sockDone (s.conns c)

theorem Inv.sinv {s : State} (hi : Inv s) (k : CallId) : SInv s k (s.shuts k) :=
  ⟨hi.lockShut k, hi.closingS k, hi.nilDrained k, hi.afterNil k, hi.errCtx k⟩

theorem Inv.cinv {s : State} (hi : Inv s) (k : CallId) : CInv s k (s.closes k) :=
  ⟨hi.lockClose k, hi.closingC k, hi.afterClose k, hi.sweep k⟩

/-- how a step of call `k` (of Shutdown or of Close; `mine` = the mutex as held by it) may change the
    mutex: not at all, take it when it is free, or give it back -/
def LockMove (s : State) (mine l : Holder) : Prop :=
  l = s.lock ∨ (s.lock = .none ∧ l = mine) ∨ (s.lock = mine ∧ l = .none)

theorem lockMove_conn {s : State} {mine l : Holder} (hi : Inv s) (hm : ∀ c, mine ≠ .conn c)
    (hl : LockMove s mine l) (c : ConnId) : holdsLock (s.conns c).pc = true ↔ l = .conn c := by
  have := hi.lockConn c
  rcases hl with h | ⟨h1, h2⟩ | ⟨h1, h2⟩
  · rw [h]; exact this
  · rw [h1] at this; rw [h2]
    constructor
    · intro h; exact absurd (this.mp h) (by simp)
    · intro h; exact absurd h (hm c)
  · rw [h1] at this; rw [h2]
    constructor
    · intro h; exact absurd (this.mp h) (hm c)
    · intro h; exact absurd h (by simp)

/-- for another holder `o` nothing changes -/
theorem lockMove_other {s : State} {mine l o : Holder} (hl : LockMove s mine l) (ho : o ≠ mine)
    (hn : o ≠ .none) : l = o ↔ s.lock = o := by
  rcases hl with h | ⟨h1, h2⟩ | ⟨h1, h2⟩
  · rw [h]
  · rw [h1, h2]
    constructor
    · intro h; exact absurd h.symm ho
    · intro h; exact absurd h.symm hn
  · rw [h1, h2]
    constructor
    · intro h; exact absurd h.symm hn
    · intro h; exact absurd h.symm ho

theorem local_grow {s : State} {cl : Bool} (hi : Inv s) (hcl : cl = s.closing ∨ cl = true) (c : ConnId) :
    Local cl (s.conns c) := by
  rcases hcl with h | h
  · rw [h]; exact hi.loc c
  · rw [h]; exact (hi.loc c).toTrue

theorem closing_grow {s : State} {cl : Bool} (hcl : cl = s.closing ∨ cl = true) (h : s.closing = true) :
    cl = true := by
  rcases hcl with h' | h'
  · rw [h', h]
  · exact h'

/-- a step of call `k` of `Shutdown`: its record becomes `x`, the mutex moves as `LockMove` allows,
    `closing` stays or becomes true; it is enough that `x` satisfies its clauses in the new state -/
theorem inv_shutStep {s : State} {k : CallId} {x : SCall} {l : Holder} {cl : Bool} (hi : Inv s)
    (hl : LockMove s (.shutdown k) l) (hcl : cl = s.closing ∨ cl = true)
    (hx : SInv { s with lock := l, closing := cl } k x) :
    Inv { setShut s k x with lock := l, closing := cl } := by
  have hso : ∀ j, j ≠ k → (l = .shutdown j ↔ s.lock = .shutdown j) := fun j hj =>
    lockMove_other hl (by intro h; exact hj (Holder.shutdown.inj h)) (by simp)
  have hco : ∀ j, (l = .closer j ↔ s.lock = .closer j) := fun j =>
    lockMove_other hl (by simp) (by simp)
  have hlc : ∀ c, holdsLock (s.conns c).pc = true ↔ l = .conn c := lockMove_conn hi (by simp) hl
  have hloc : ∀ c, Local cl (s.conns c) := local_grow hi hcl
  refine
    { nodup := hi.nodup, absent := hi.absent, counter := hi.counter,
      lockConn := hlc, lockShut := ?_, lockClose := ?_, closingS := ?_,
      closingC := ?_, regNodup := hi.regNodup, reg := hi.reg, loc := hloc, nilDrained := ?_,
      afterNil := ?_, errCtx := ?_, afterClose := hi.afterClose, sweep := hi.sweep }
  · intro j
    show l = .shutdown j ↔ shutHolds (if j = k then x else s.shuts j).pc = true
    by_cases hj : j = k
    · subst hj; simp only [if_true]; exact hx.lock
    · simp only [if_neg hj]; rw [hso j hj]; exact hi.lockShut j
  · intro j
    show l = .closer j ↔ closeHolds (s.closes j) = true
    rw [hco j]; exact hi.lockClose j
  · intro j
    show shutClosed (if j = k then x else s.shuts j).pc = true → cl = true
    by_cases hj : j = k
    · subst hj; simp only [if_true]; exact hx.closing
    · simp only [if_neg hj]; exact fun h => closing_grow hcl (hi.closingS j h)
  · intro j h
    exact closing_grow hcl (hi.closingC j h)
  · intro j
    show (if j = k then x else s.shuts j).pc = .retNil → s.counter = 0
    by_cases hj : j = k
    · subst hj; simp only [if_true]; exact hx.nilDrained
    · simp only [if_neg hj]; exact hi.nilDrained j
  · intro j
    show ((if j = k then x else s.shuts j).pc = .retNil ∨ (if j = k then x else s.shuts j).pc = .doneNil) → _
    by_cases hj : j = k
    · subst hj; simp only [if_true]; exact hx.afterNil
    · simp only [if_neg hj]; exact hi.afterNil j
  · intro j
    show ((if j = k then x else s.shuts j).pc = .retErr ∨ (if j = k then x else s.shuts j).pc = .doneErr) →
      (if j = k then x else s.shuts j).done.isSome = true
    by_cases hj : j = k
    · subst hj; simp only [if_true]; exact hx.errCtx
    · simp only [if_neg hj]; exact hi.errCtx j

/-- a step of call `k` of `Close` that leaves the connections alone: it moves to `x`, the mutex moves
    as `LockMove` allows, `closing` stays or becomes true, the list of its walk over the map changes
    only while it holds the mutex -/
theorem inv_closeStep {s : State} {k : CallId} {x : CPC} {l : Holder} {cl : Bool} {sw : List ConnId}
    (hi : Inv s) (hl : LockMove s (.closer k) l) (hcl : cl = s.closing ∨ cl = true)
    (hsw : sw = s.sweepLeft ∨ s.lock = .closer k)
    (hx : CInv { s with lock := l, closing := cl, sweepLeft := sw } k x) :
    Inv { setClose s k x with lock := l, closing := cl, sweepLeft := sw } := by
  have hso : ∀ j, (l = .shutdown j ↔ s.lock = .shutdown j) := fun j =>
    lockMove_other hl (by simp) (by simp)
  have hco : ∀ j, j ≠ k → (l = .closer j ↔ s.lock = .closer j) := fun j hj =>
    lockMove_other hl (by intro h; exact hj (Holder.closer.inj h)) (by simp)
  have hlc : ∀ c, holdsLock (s.conns c).pc = true ↔ l = .conn c := lockMove_conn hi (by simp) hl
  have hloc : ∀ c, Local cl (s.conns c) := local_grow hi hcl
  refine
    { nodup := hi.nodup, absent := hi.absent, counter := hi.counter,
      lockConn := hlc, lockShut := ?_, lockClose := ?_, closingS := ?_,
      closingC := ?_, regNodup := hi.regNodup, reg := hi.reg, loc := hloc,
      nilDrained := hi.nilDrained, afterNil := hi.afterNil, errCtx := hi.errCtx, afterClose := ?_, sweep := ?_ }
  · intro j
    show l = .shutdown j ↔ shutHolds (s.shuts j).pc = true
    rw [hso j]; exact hi.lockShut j
  · intro j
    show l = .closer j ↔ closeHolds (if j = k then x else s.closes j) = true
    by_cases hj : j = k
    · subst hj; simp only [if_true]; exact hx.lock
    · simp only [if_neg hj]; rw [hco j hj]; exact hi.lockClose j
  · intro j h
    exact closing_grow hcl (hi.closingS j h)
  · intro j
    show closeClosed (if j = k then x else s.closes j) = true → cl = true
    by_cases hj : j = k
    · subst hj; simp only [if_true]; exact hx.closing
    · simp only [if_neg hj]; exact fun h => closing_grow hcl (hi.closingC j h)
  · intro j
    show closeSwept (if j = k then x else s.closes j) = true → _
    by_cases hj : j = k
    · subst hj; simp only [if_true]; exact hx.afterClose
    · simp only [if_neg hj]; exact hi.afterClose j
  · intro j
    show (if j = k then x else s.closes j) = .closedCh → ∀ c, c ∈ s.registered → c ∈ sw ∨ _
    by_cases hj : j = k
    · subst hj; simp only [if_true]; exact hx.sweep
    · simp only [if_neg hj]
      intro hjc
      rcases hsw with h | h
      · rw [h]; exact hi.sweep j hjc
      · have := (hi.lockClose j).mpr (by simp [hjc, closeHolds])
        rw [h] at this
        exact absurd (Holder.closer.inj this).symm hj

end C11
end FwdVerif
