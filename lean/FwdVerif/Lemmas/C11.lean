/-
  C11 — helper lemmas (part 2): every action preserves the invariant `Inv`.
-/
import FwdVerif.Lemmas.C11Step

namespace FwdVerif
namespace C11

theorem step_conn_eq {s s' : State} {c : ConnId} {a : CAct} (h : step s (.conn c a) = some s') :
    ∃ x e, cstep s.closing (lockFree s) (s.conns c) a = some (x, e) ∧ s' = applyEff (setConn s c x) c e := by
  simp only [step] at h
  split at h
  · rename_i x e hc
    exact ⟨x, e, hc, by simpa using h.symm⟩
  · simp at h

theorem lockFree_iff (s : State) : lockFree s = true ↔ s.lock = .none := by
  simp [lockFree]

theorem inv_conn {s s' : State} {c : ConnId} {a : CAct} (hi : Inv s)
    (h : step s (.conn c a) = some s') : Inv s' := by
  obtain ⟨x, e, hc, rfl⟩ := step_conn_eq h
  have hpres := cstep_present hc
  have hcid : c ∈ s.ids := by
    apply Classical.byContradiction
    intro hn
    have := hi.absent c hn
    rw [this] at hpres
    exact hpres.1 rfl
  have hcnt := cstep_counted hc
  have hlock := cstep_lock hc
  have hmap := cstep_map hc
  have hloc := cstep_local hc (hi.loc c)
  have heff := cstep_eff_holds hc
  have hreg := cstep_reg hc
  have hcreg := cstep_counted_reg hc
  have hcl := hi.closing
  have hlc := hi.lockConn
  have hls := hi.lockShut
  have hlcl := hi.lockClose
  have hcu := cnt_update (f := s.conns) (x := x) hi.nodup hcid
  refine
    { nodup := ?_, absent := ?_, counter := ?_, lockConn := ?_, lockShut := ?_, lockClose := ?_,
      closing := ?_, regNodup := ?_, reg := ?_, loc := ?_, nilDrained := ?_, afterNil := ?_,
      errCtx := ?_, afterClose := ?_, sweep := ?_ }
  · cases e <;> exact hi.nodup
  · intro d hd
    have hd' : d ∉ s.ids := by cases e <;> exact hd
    have hne : d ≠ c := fun hh => hd' (hh ▸ hcid)
    have := hi.absent d hd'
    cases e <;> simp [applyEff, setConn, hne, this]
  · have hc0 := hi.counter
    cases e <;> simp only [applyEff, setConn, effDelta] at * <;> rw [hcu] <;> omega
  · -- lockConn
    intro d
    have hd := hlc d
    have hcc := hlc c
    have hlf := lockFree_iff s
    by_cases hdc : d = c
    · subst hdc
      cases e <;> simp only [applyEff, setConn, lockSpec, if_true] at * <;> grind
    · cases e <;> simp only [applyEff, setConn, lockSpec, if_neg hdc] at * <;> grind
  · -- lockShut
    have hcc := hlc c
    have hlf := lockFree_iff s
    cases e <;> simp only [applyEff, setConn, lockSpec] at * <;> grind
  · -- lockClose
    have hcc := hlc c
    have hlf := lockFree_iff s
    cases e <;> simp only [applyEff, setConn, lockSpec] at * <;> grind
  · cases e <;> exact hcl
  · -- regNodup
    have hrc := hi.reg c
    have hrn := hi.regNodup
    cases e <;> simp only [applyEff, setConn, mapSpec] at * <;>
      first
        | exact hrn
        | exact List.nodup_cons.mpr ⟨by grind, hrn⟩
        | exact hrn.erase c
  · -- reg
    intro d
    have hrd := hi.reg d
    have hrc := hi.reg c
    have hrn := hi.regNodup
    by_cases hdc : d = c
    · subst hdc
      cases e <;> simp only [applyEff, setConn, mapSpec, if_true, List.mem_cons, hrn.mem_erase_iff] at * <;> grind
    · cases e <;> simp only [applyEff, setConn, mapSpec, if_neg hdc, List.mem_cons, hrn.mem_erase_iff] at * <;> grind
  · -- loc
    intro d
    have hld := hi.loc d
    by_cases hdc : d = c
    · subst hdc
      cases e <;> simpa [applyEff, setConn] using hloc
    · cases e <;> simpa [applyEff, setConn, hdc] using hld
  · -- nilDrained
    intro hs
    have hs' : s.shut = .retNil := by cases e <;> exact hs
    have h0 := hi.nilDrained hs'
    have hsh : s.lock = .shutdown := hls.mpr (by simp [hs', shutHolds])
    have hcc := hlc c
    have hc0 := hi.counter
    have hpos : counted (s.conns c).pc = true → 1 ≤ cnt s.conns s.ids := cnt_pos_of_mem hcid
    cases e <;> simp only [applyEff, setConn] at * <;> try exact h0
    · have := hcc.mp (heff.1 (by simp)); rw [hsh] at this; cases this
    · have hp := heff.2 trivial
      have := hpos (by simp [hp, counted])
      omega
  · -- afterNil
    intro hs d hd
    have han := hi.afterNil
    have hs' : s.shut = .retNil ∨ s.shut = .doneNil := by cases e <;> exact hs
    have hclt : s.closing = true := by rw [hcl]; rcases hs' with h | h <;> simp [h, shutClosed]
    by_cases hdc : d = c
    · subst hdc
      have hd' : counted x.pc = true := by cases e <;> simpa [applyEff, setConn] using hd
      have := hcreg hd'
      have h2 := han hs' d
      cases e <;> simp only [applyEff, setConn, if_true] at * <;> grind
    · have h2 := han hs' d
      cases e <;> simp only [applyEff, setConn, if_neg hdc] at * <;> grind
  · have := hi.errCtx
    cases e <;> exact this
  · -- afterClose
    intro hs d hd
    have hac := hi.afterClose
    have hs' : closeSwept s.close = true := by cases e <;> exact hs
    have hclt : s.closing = true := by
      rw [hcl]; revert hs'; cases s.close <;> simp [closeSwept, closeClosed]
    by_cases hdc : d = c
    · subst hdc
      have hd' : preReg x.pc = false := by cases e <;> simpa [applyEff, setConn] using hd
      have := hreg hd'
      have h2 := hac hs' d
      cases e <;> simp only [applyEff, setConn, if_true] at * <;> grind
    · have h2 := hac hs' d
      cases e <;> simp only [applyEff, setConn, if_neg hdc] at * <;> grind
  · -- sweep: the map cannot change while Close holds the mutex
    intro hs d hd
    have hsw := hi.sweep
    have hs' : s.close = .closedCh := by cases e <;> exact hs
    have hlk : s.lock = .closer := hlcl.mpr (by simp [hs', closeHolds])
    have hnoc : holdsLock (s.conns c).pc = false := by
      cases hh : holdsLock (s.conns c).pc with
      | false => rfl
      | true => have := (hlc c).mp hh; rw [hlk] at this; cases this
    have hnoeff : e ≠ .ins ∧ e ≠ .add ∧ e ≠ .del := by
      refine ⟨?_, ?_, ?_⟩ <;> intro he <;> (have h3 := heff.1 (by simp [he]); rw [hnoc] at h3; cases h3)
    have hreg0 : (applyEff (setConn s c x) c e).registered = s.registered := by
      cases e <;> simp_all [applyEff, setConn]
    have hsl : (applyEff (setConn s c x) c e).sweepLeft = s.sweepLeft := by cases e <;> rfl
    rw [hreg0] at hd
    rw [hsl]
    rcases hsw hs' d hd with hin | hsc
    · exact Or.inl hin
    · right
      by_cases hdc : d = c
      · subst hdc
        have hcd : (applyEff (setConn s d x) d e).conns d = x := by cases e <;> simp [applyEff, setConn]
        rw [hcd]
        have hm := (hi.reg d).mp hd
        have hm' : inMap x.pc = true := by
          have := hmap
          cases e <;> simp_all [mapSpec]
        have hlx : holdsLock x.pc = false := by
          have := hlock
          cases e <;> simp_all [lockSpec, lockFree]
        have hx : preReg x.pc = false := by
          revert hm' hlx
          cases x.pc <;> simp [inMap, counted, preReg, holdsLock]
        rcases hreg hx with h1 | h1
        · exact absurd h1.1 hnoeff.2.1
        · exact h1.2.2.2 hsc
      · have : (applyEff (setConn s c x) c e).conns d = s.conns d := by cases e <;> simp [applyEff, setConn, hdc]
        rw [this]; exact hsc

/-- fields the invariant does not mention may change freely -/
theorem inv_irrelevant {s : State} (hi : Inv s) (lo : Bool) (sv : SrvPC) (r : RPC) :
    Inv { s with listenerOpen := lo, serve := sv, runner := r } :=
  ⟨hi.nodup, hi.absent, hi.counter, hi.lockConn, hi.lockShut, hi.lockClose, hi.closing, hi.regNodup,
   hi.reg, hi.loc, hi.nilDrained, hi.afterNil, hi.errCtx, hi.afterClose, hi.sweep⟩

/-- a change of connection records that keeps every control-relevant aspect -/
theorem inv_conns {s : State} {g : ConnId → Conn} (hi : Inv s)
    (hg : ∀ d, counted (g d).pc = counted (s.conns d).pc ∧ holdsLock (g d).pc = holdsLock (s.conns d).pc ∧
      inMap (g d).pc = inMap (s.conns d).pc ∧ preReg (g d).pc = preReg (s.conns d).pc ∧
      (g d).regClosing = (s.conns d).regClosing ∧ ((s.conns d).sockClosed = true → (g d).sockClosed = true) ∧
      Local s.closing (g d))
    (habs : ∀ d, d ∉ s.ids → g d = {}) : Inv { s with conns := g } := by
  refine
    { nodup := hi.nodup, absent := habs, counter := ?_, lockConn := ?_, lockShut := hi.lockShut,
      lockClose := hi.lockClose, closing := hi.closing, regNodup := hi.regNodup, reg := ?_, loc := ?_,
      nilDrained := hi.nilDrained, afterNil := ?_, errCtx := hi.errCtx, afterClose := ?_, sweep := ?_ }
  · show s.counter = cnt g s.ids
    rw [hi.counter]
    exact cnt_congr (fun d _ => (hg d).1.symm)
  · intro d; show holdsLock (g d).pc = true ↔ _; rw [(hg d).2.1]; exact hi.lockConn d
  · intro d; show _ ↔ inMap (g d).pc = true; rw [(hg d).2.2.1]; exact hi.reg d
  · intro d; exact (hg d).2.2.2.2.2.2
  · intro hs d hd
    show (g d).regClosing = true
    rw [(hg d).2.2.2.2.1]
    exact hi.afterNil hs d (by rw [← (hg d).1]; exact hd)
  · intro hs d hd
    show (g d).sockClosed = true ∨ (g d).regClosing = true
    rw [(hg d).2.2.2.2.1]
    have hd' : preReg (s.conns d).pc = false := by rw [← (hg d).2.2.2.1]; exact hd
    rcases hi.afterClose hs d hd' with h | h
    · exact Or.inl ((hg d).2.2.2.2.2.1 h)
    · exact Or.inr h
  · intro hs d hd
    rcases hi.sweep hs d hd with h | h
    · exact Or.inl h
    · exact Or.inr ((hg d).2.2.2.2.2.1 h)

/-- updating one existing connection without touching its control state -/
theorem inv_setConn {s : State} {c : ConnId} {x : Conn} (hi : Inv s) (hc : c ∈ s.ids)
    (hpc : x.pc = (s.conns c).pc) (hreg : x.regClosing = (s.conns c).regClosing)
    (hsock : (s.conns c).sockClosed = true → x.sockClosed = true)
    (hl : Local s.closing x) : Inv (setConn s c x) := by
  apply inv_conns hi
  · intro d
    by_cases hd : d = c
    · subst hd; simp [hpc, hreg, hl]; exact hsock
    · simp [hd, hi.loc d]
  · intro d hd
    have : d ≠ c := fun h => hd (h ▸ hc)
    simp [this, hi.absent d hd]

theorem mem_ids_of_pc {s : State} (hi : Inv s) {c : ConnId} (h : (s.conns c).pc ≠ .absent) : c ∈ s.ids := by
  apply Classical.byContradiction
  intro hn
  rw [hi.absent c hn] at h
  exact h rfl

theorem inv_closeListener {s : State} (hi : Inv s) : Inv (closeListener s) := by
  have : Inv { s with conns := fun d => if (s.conns d).pc = .backlog then { s.conns d with pc := .reset } else s.conns d } := by
    apply inv_conns hi
    · intro d
      by_cases hb : (s.conns d).pc = .backlog
      · have hl := hi.loc d
        simp only [hb, if_true]
        refine ⟨by simp [counted], by simp [holdsLock], by simp [inMap, counted], by simp [preReg], trivial, id, ?_⟩
        obtain ⟨h1, h2, h3, h4, h5, h6, h7⟩ := hl
        constructor <;> simp_all [preReg, noService, dropPath, pastDec]
      · simp [hb, hi.loc d]
    · intro d hd
      simp [hi.absent d hd]
  exact inv_irrelevant this false .returned s.runner

theorem inv_new {s : State} {c : ConnId} {x : Conn} (hi : Inv s) (hc : c ∉ s.ids)
    (hx : x.pc = .backlog ∨ x.pc = .refused) (hl : ∀ cl, Local cl x) :
    Inv { setConn s c x with ids := c :: s.ids } := by
  have hold := hi.absent c hc
  have hcx : counted x.pc = false := by rcases hx with h | h <;> simp [h, counted]
  have hhx : holdsLock x.pc = false := by rcases hx with h | h <;> simp [h, holdsLock]
  have hmx : inMap x.pc = false := by rcases hx with h | h <;> simp [h, inMap, counted]
  have hpx : preReg x.pc = true := by rcases hx with h | h <;> simp [h, preReg]
  refine
    { nodup := List.nodup_cons.mpr ⟨hc, hi.nodup⟩, absent := ?_, counter := ?_, lockConn := ?_,
      lockShut := hi.lockShut, lockClose := hi.lockClose, closing := hi.closing, regNodup := hi.regNodup,
      reg := ?_, loc := ?_, nilDrained := hi.nilDrained, afterNil := ?_, errCtx := hi.errCtx, afterClose := ?_,
      sweep := ?_ }
  · intro d hd
    have hd1 : d ≠ c := fun h => hd (h ▸ List.mem_cons_self)
    have hd2 : d ∉ s.ids := fun h => hd (List.mem_cons_of_mem _ h)
    simp [setConn, hd1, hi.absent d hd2]
  · show s.counter = cnt _ (c :: s.ids)
    simp only [cnt, setConn, if_true, hcx]
    rw [cnt_update_not_mem hc, hi.counter]; simp
  · intro d
    by_cases hd : d = c
    · subst hd
      have := hi.lockConn d
      simp [setConn, hhx]
      rw [hold] at this
      simpa [holdsLock] using this
    · simpa [setConn, hd] using hi.lockConn d
  · intro d
    by_cases hd : d = c
    · subst hd
      have := hi.reg d
      rw [hold] at this
      simp [setConn, hmx]
      simpa [inMap, counted] using this
    · simpa [setConn, hd] using hi.reg d
  · intro d
    by_cases hd : d = c
    · subst hd; simpa [setConn] using hl s.closing
    · simpa [setConn, hd] using hi.loc d
  · intro hs d hd
    by_cases hdc : d = c
    · subst hdc; simp [setConn, hcx] at hd
    · simp only [setConn, if_neg hdc] at hd ⊢
      exact hi.afterNil hs d hd
  · intro hs d hd
    by_cases hdc : d = c
    · subst hdc; simp [setConn, hpx] at hd
    · simp only [setConn, if_neg hdc] at hd ⊢
      exact hi.afterClose hs d hd
  · intro hs d hd
    have hdc : d ≠ c := by
      intro h; subst h
      have := (hi.reg d).mp hd
      rw [hold] at this
      simp [inMap, counted] at this
    rcases hi.sweep hs d hd with h | h
    · exact Or.inl h
    · right; simpa [setConn, hdc] using h

end C11
end FwdVerif
