/-
  C18 — helper lemmas, part f: the CONNECT path (`processConnect` cut around the Via modifier, the
  head `dialviaConnectHead` writes to an upstream HTTP(S) proxy, `reinjectConnect`), the upstream
  scheme as a parameter (`httpsify`).  Core Lean only.
-/
import FwdVerif.Lemmas.C18e

namespace FwdVerif
namespace C18
open Ascii Req
open C16 (HMap goDel goSet goAdd Rule applyRules prefixFold NodupKeys)

/-! ## §13 `processConnect` around the Via modifier -/

theorem processConnect_eq (cfg : Cfg) (ctx : Ctx) (c : ConnectReq) :
    processConnect cfg ctx c =
      match preViaConnect cfg c with
      | .error o => o
      | .ok (g, h2) =>
        match viaStep cfg g.minor h2 with
        | none => .refused 400 .loop
        | some h3 => connectDispatch cfg c.authority (connectFinalHeader cfg h3) := by
  unfold processConnect preViaConnect connectModified
  cases readRequest c.asRequest with
  | error e => rfl
  | ok g0 =>
    simp only
    cases securityCheck cfg { g0 with header := goDel g0.header (bs "X-Martian-Terminate-Tls") } with
    | some why => rfl
    | none =>
      simp only
      cases badFraming (removeHopByHop (goDel g0.header (bs "X-Martian-Terminate-Tls"))) with
      | none => rfl
      | some h2 =>
        simp only
        cases viaStep cfg g0.minor h2 with
        | none => rfl
        | some h3 => rfl

theorem terminateTls_not_via : viaName ≠ canonicalKey (bs "X-Martian-Terminate-Tls") := by decide +kernel
theorem terminateTls_not_connection :
    bs "Connection" ≠ canonicalKey (bs "X-Martian-Terminate-Tls") := by decide +kernel

def connectFixedNames : List Bytes := fixedNames ++ [bs "X-Martian-Terminate-Tls"]

theorem connectFixedNames_not_via : ∀ n ∈ connectFixedNames, viaName ≠ canonicalKey n := by
  intro n hn
  rcases List.mem_append.mp hn with h | h
  · exact fixedNames_not_via n h
  · simp only [List.mem_singleton] at h
    subst h
    exact terminateTls_not_via

/-- what reaches the Via modifier on the CONNECT path, in terms of the request as read -/
theorem preViaConnect_ok {cfg : Cfg} {c : ConnectReq} {g : GoReq} {h2 : HMap}
    (h : preViaConnect cfg c = .ok (g, h2)) :
    ∃ g0, readRequest c.asRequest = .ok g0 ∧ g.minor = c.minor ∧
      g.header = goDel g0.header (bs "X-Martian-Terminate-Tls") ∧
      Reach (nominatedNames g.header ++ connectFixedNames) (toHeader c.fields) h2 := by
  unfold preViaConnect at h
  cases hr : readRequest c.asRequest with
  | error e => rw [hr] at h; exact absurd h (by simp)
  | ok g0 =>
    rw [hr] at h
    simp only at h
    obtain ⟨hreach, hminor⟩ := readRequest_header hr
    refine ⟨g0, rfl, ?_⟩
    split at h
    · exact absurd h (by simp)
    · split at h
      · exact absurd h (by simp)
      · rename_i h2' hbf
        simp only [Except.ok.injEq, Prod.mk.injEq] at h
        obtain ⟨hg, hh⟩ := h
        subst hg; subst hh
        refine ⟨hminor, rfl, ?_⟩
        simp only at hbf ⊢
        have m1 : ∀ n ∈ framingNames, n ∈ nominatedNames (goDel g0.header (bs "X-Martian-Terminate-Tls")) ++ connectFixedNames := by
          intro n hn; simp [connectFixedNames, fixedNames, hn]
        have m2 : ∀ n ∈ nominatedNames (goDel g0.header (bs "X-Martian-Terminate-Tls")) ++ hopByHopNames,
            n ∈ nominatedNames (goDel g0.header (bs "X-Martian-Terminate-Tls")) ++ connectFixedNames := by
          intro n hn
          rcases List.mem_append.mp hn with hn | hn <;> simp [connectFixedNames, fixedNames, hn]
        have m4 : ∀ n ∈ [bs "Content-Length"],
            n ∈ nominatedNames (goDel g0.header (bs "X-Martian-Terminate-Tls")) ++ connectFixedNames := by
          intro n hn; simp only [List.mem_singleton] at hn; simp [connectFixedNames, fixedNames, hn]
        have a0 : Reach (nominatedNames (goDel g0.header (bs "X-Martian-Terminate-Tls")) ++ connectFixedNames)
            (toHeader c.fields) (goDel g0.header (bs "X-Martian-Terminate-Tls")) :=
          Reach.del _ (hreach.mono m1) (by simp [connectFixedNames])
        have a := a0.trans ((removeHopByHop_reach _).mono m2)
        exact a.trans ((badFraming_reach hbf).mono m4)

/-- Unless a Connection option nominates it, the Via field reaches the Via modifier exactly as the
    client sent it on the CONNECT request: every field line, in order. -/
theorem preViaConnect_via {cfg : Cfg} {c : ConnectReq} {g : GoReq} {h2 : HMap}
    (h : preViaConnect cfg c = .ok (g, h2)) (hn : viaNominated c.fields = false) :
    viaChainOf h2 = viaChain (viaLines c.fields) ∧ ViaInv h2 ∧ g.minor = c.minor := by
  obtain ⟨g0, hr, hminor, hgh, hreach⟩ := preViaConnect_ok h
  have hc : hget g.header (bs "Connection") = hget (toHeader c.fields) (bs "Connection") := by
    unfold hget
    rw [hgh, get_goDel_ne _ _ terminateTls_not_connection,
      (readRequest_header hr).1.get_eq framingNames_not_connection]
    rfl
  have hk : ∀ n ∈ nominatedNames g.header ++ connectFixedNames, viaName ≠ canonicalKey n := by
    intro n hmem
    rcases List.mem_append.mp hmem with hm | hm
    · exact nominated_not_via hc hn n hm
    · exact connectFixedNames_not_via n hm
  refine ⟨?_, hreach.viaInv (toHeader_viaInv _), hminor⟩
  rw [← hget_toHeader_via]
  show joinWith (bs ", ") (hget h2 viaName) = joinWith (bs ", ") (hget (toHeader c.fields) viaName)
  unfold hget
  rw [hreach.get_eq hk]

theorem securityCheck_status_not_loop {cfg : Cfg} {g : GoReq} {why : Refusal}
    (h : securityCheck cfg g = some why) :
    connectPassed (.refused why.status why) = false ∧ isConnectLoopRefusal (.refused why.status why) = false := by
  have := securityCheck_not_loop h
  cases why <;> first | exact ⟨rfl, rfl⟩ | exact absurd rfl this

theorem preViaConnect_error {cfg : Cfg} {c : ConnectReq} {o : ConnectOutcome}
    (h : preViaConnect cfg c = .error o) : connectPassed o = false ∧ isConnectLoopRefusal o = false := by
  unfold preViaConnect at h
  split at h
  · cases h; exact ⟨rfl, rfl⟩
  · simp only at h
    split at h
    · rename_i why hsc
      cases h
      exact securityCheck_status_not_loop hsc
    · split at h
      · cases h; exact ⟨rfl, rfl⟩
      · exact absurd h (by simp)

/-- the three ways `processConnect` can end, seen from the Via modifier -/
theorem processConnect_cases (cfg : Cfg) (ctx : Ctx) (c : ConnectReq) :
    (∃ o, preViaConnect cfg c = .error o ∧ processConnect cfg ctx c = o) ∨
    (∃ g h2, preViaConnect cfg c = .ok (g, h2) ∧ viaStep cfg g.minor h2 = none ∧
        processConnect cfg ctx c = .refused 400 .loop) ∨
    (∃ g h2 h3, preViaConnect cfg c = .ok (g, h2) ∧ viaStep cfg g.minor h2 = some h3 ∧
        processConnect cfg ctx c = connectDispatch cfg c.authority (connectFinalHeader cfg h3)) := by
  rw [processConnect_eq]
  cases hp : preViaConnect cfg c with
  | error o => exact Or.inl ⟨o, rfl, rfl⟩
  | ok p =>
    obtain ⟨g, h2⟩ := p
    cases hs : viaStep cfg g.minor h2 with
    | none => exact Or.inr (Or.inl ⟨g, h2, rfl, hs, by simp only [hs]⟩)
    | some h3 => exact Or.inr (Or.inr ⟨g, h2, h3, rfl, hs, by simp only [hs]⟩)

/-! ## §14 the head written to an upstream HTTP(S) proxy -/

theorem userAgent_not_via : viaName ≠ canonicalKey (bs "User-Agent") := by decide +kernel

theorem connectFinalHeader_via {cfg : Cfg} {h3 : HMap} (hr : rulesAvoidVia cfg.connectRules = true)
    (hv : ViaInv h3) :
    ViaInv (connectFinalHeader cfg h3) ∧
      HMap.get (connectFinalHeader cfg h3) viaName = HMap.get h3 viaName := by
  obtain ⟨h1, h2⟩ := applyRules_via hr hv
  unfold connectFinalHeader
  simp only
  split
  · exact ⟨h1.goSet _ _, (get_goSet_ne _ _ _ userAgent_not_via).trans h2⟩
  · exact ⟨h1, h2⟩

theorem connectExtra_via {cfg : Cfg} (hr : rulesAvoidVia cfg.connectRules = true) :
    ViaInv (connectExtra cfg) ∧ HMap.get (connectExtra cfg) viaName = none := by
  obtain ⟨h1, h2⟩ := applyRules_via (h := []) hr ViaInv.nil
  exact ⟨h1, h2⟩

theorem lookup_none_of_not_mem {t : HMap} {k : Bytes} (h : k ∉ t.map (·.1)) : t.lookup k = none := by
  cases hl : t.lookup k with
  | none => rfl
  | some vs => exact absurd (List.mem_map.mpr ⟨_, mem_of_lookup hl, rfl⟩) h

/-- `maps.Copy(dst, src)`: the values of `src` win, everything else stays -/
theorem get_mapsCopy (dst src : HMap) (k : Bytes) (hnd : NodupKeys src) :
    HMap.get (mapsCopy dst src) k =
      match HMap.get src k with
      | some v => some v
      | none => HMap.get dst k := by
  induction src generalizing dst with
  | nil => rfl
  | cons e t ih =>
    obtain ⟨k', ws⟩ := e
    have hnt : NodupKeys t := C16.NodupKeys.tail hnd
    have hnot : k' ∉ t.map (·.1) := C16.not_mem_keys_of_nodup_cons hnd
    show HMap.get (mapsCopy (HMap.put dst k' ws) t) k = _
    rw [ih _ hnt]
    unfold HMap.get
    by_cases hk : k = k'
    · subst hk
      rw [lookup_none_of_not_mem hnot]
      simp only [List.lookup_cons, beq_self_eq_true]
      exact C16.lookup_put_self dst k ws
    · have hb : (k == k') = false := by simpa using hk
      rw [List.lookup_cons, hb]
      cases t.lookup k with
      | some v => rfl
      | none => exact C16.lookup_put_ne dst ws hk

theorem mapsCopy_viaInv {dst src : HMap} (hd : ViaInv dst) (hs : ViaInv src) :
    ViaInv (mapsCopy dst src) := by
  induction src generalizing dst with
  | nil => exact hd
  | cons e t ih =>
    have hvt : ViaInv t := hs.sublist (List.sublist_cons_self e t)
    exact ih (hd.put e.1 e.2 (hs.2 e (by simp))) hvt

theorem dialBase_none : ViaInv [(bs "User-Agent", [[]])] ∧ HMap.get [(bs "User-Agent", [[]])] viaName = none :=
  ⟨⟨by decide +kernel, by decide +kernel⟩, by decide +kernel⟩

theorem dialBase_some (a : Bytes) :
    ViaInv [(bs "User-Agent", [[]]), (bs "Proxy-Authorization", [a])] ∧
      HMap.get [(bs "User-Agent", [[]]), (bs "Proxy-Authorization", [a])] viaName = none := by
  have e1 : (viaName == bs "User-Agent") = false := by decide +kernel
  have e2 : (viaName == bs "Proxy-Authorization") = false := by decide +kernel
  have l1 : lower (bs "User-Agent") ≠ lower viaName := by decide +kernel
  have l2 : lower (bs "Proxy-Authorization") ≠ lower viaName := by decide +kernel
  refine ⟨⟨?_, ?_⟩, ?_⟩
  · show ([bs "User-Agent", bs "Proxy-Authorization"] : List Bytes).Nodup
    decide +kernel
  · intro e he hl
    simp only [List.mem_cons, List.not_mem_nil, or_false] at he
    rcases he with rfl | rfl
    · exact absurd hl l1
    · exact absurd hl l2
  · show List.lookup viaName [(bs "User-Agent", [[]]), (bs "Proxy-Authorization", [a])] = none
    simp only [List.lookup, e1, e2]

theorem writeExcluded_not_via : writeExcluded.contains viaName = false := by decide +kernel

def connectOwnNames : List Bytes := [bs "host", bs "user-agent"]

theorem connectOwnNames_not_via : ∀ n ∈ connectOwnNames, n ≠ lower viaName := by decide +kernel

theorem userAgentField_names (m : HMap) (d : Bytes) : ∀ e ∈ userAgentField m d, e.1 = bs "user-agent" := by
  intro e he
  unfold userAgentField at he
  split at he
  · split at he
    · cases he
    · simp only [List.mem_singleton] at he; rw [he]
  · cases he
  · split at he
    · cases he
    · simp only [List.mem_singleton] at he; rw [he]

/-- the head's Via field lines, for any map `base` the dialer starts from that holds no Via -/
theorem outVia_head_aux (au : Bytes) (base h extra : HMap) (hb : ViaInv base)
    (hbn : HMap.get base viaName = none) (hv : ViaInv h) (hve : ViaInv extra)
    (hne : HMap.get extra viaName = none) :
    fvals (mergeFields ([(bs "host", [au])] ++ userAgentField (mapsCopy (mapsCopy base h) extra) [] ++
      lowerFields ((mapsCopy (mapsCopy base h) extra).filter fun e => !writeExcluded.contains e.1)))
      (lower viaName) = hget h viaName := by
  have hvm := mapsCopy_viaInv (mapsCopy_viaInv hb hv) hve
  have hgm : hget (mapsCopy (mapsCopy base h) extra) viaName = hget h viaName := by
    unfold hget
    rw [get_mapsCopy _ _ _ hve.1, hne]
    simp only
    rw [get_mapsCopy _ _ _ hv.1]
    cases HMap.get h viaName with
    | some v => rfl
    | none => simp only [hbn]
  rw [fvals_mergeFields]
  simp only [fvals_append]
  have hrest := fvals_rest_via (mapsCopy (mapsCopy base h) extra) (fun k => !writeExcluded.contains k)
    (by simp only [writeExcluded_not_via]; rfl) hvm
  have h1 : fvals [(bs "host", [au])] (lower viaName) = [] :=
    fvals_of_names (fun e he => by
      simp only [List.mem_singleton] at he
      rw [he]
      exact connectOwnNames_not_via _ (by simp [connectOwnNames]))
  have h2 : fvals (userAgentField (mapsCopy (mapsCopy base h) extra) []) (lower viaName) = [] :=
    fvals_of_names (fun e he => by
      rw [userAgentField_names _ _ e he]
      exact connectOwnNames_not_via _ (by simp [connectOwnNames]))
  rw [h1, h2, hrest, hgm]
  rfl

/-- Via field lines of the CONNECT head the dialer writes = the Via values of the (modified) client
    header it was handed, as long as `GetProxyConnectHeader` yields no Via of its own -/
theorem outVia_dialviaConnectHead (au : Bytes) (pa : Option Bytes) (h extra : HMap)
    (hv : ViaInv h) (hve : ViaInv extra) (hne : HMap.get extra viaName = none) :
    outVia (dialviaConnectHead au pa h extra) = hget h viaName := by
  cases pa with
  | none => exact outVia_head_aux au _ h extra dialBase_none.1 dialBase_none.2 hv hve hne
  | some a => exact outVia_head_aux au _ h extra (dialBase_some a).1 (dialBase_some a).2 hv hve hne

theorem lower_host : lower (bs "host") = bs "host" := by decide +kernel
theorem lower_userAgent : lower (bs "user-agent") = bs "user-agent" := by decide +kernel

/-- the field names of the head are lower-case -/
theorem dialviaConnectHead_names_lower (au : Bytes) (pa : Option Bytes) (h extra : HMap) :
    ∀ e ∈ (dialviaConnectHead au pa h extra).fields, lower e.1 = e.1 := by
  intro e he
  unfold dialviaConnectHead at he
  simp only at he
  have hk := mergeFields_mem_key he
  obtain ⟨e', he', hee⟩ := List.mem_map.mp hk
  rw [← hee]
  simp only [List.mem_append, List.mem_singleton] at he'
  rcases he' with (he' | he') | he'
  · rw [he']; exact lower_host
  · rw [userAgentField_names _ _ e' he']; exact lower_userAgent
  · unfold lowerFields at he'
    obtain ⟨x, _, hx⟩ := List.mem_map.mp he'
    rw [← hx]
    exact lower_idem _

theorem reinjectConnect_fields (o : OutMsg) : (reinjectConnect o).fields = flatten o.fields := rfl
theorem reinjectConnect_minor (o : OutMsg) : (reinjectConnect o).minor = 1 := rfl

theorem viaLines_reinjectConnect {o : OutMsg} (hl : ∀ e ∈ o.fields, lower e.1 = e.1) :
    viaLines (reinjectConnect o).fields = outVia o := by
  rw [reinjectConnect_fields, viaLines_flatten]
  unfold outVia outValues
  congr 1
  apply List.filter_congr
  intro e he
  unfold eqFold
  rw [hl e he]

theorem connectHead_some_passed {o : ConnectOutcome} {head : OutMsg} (h : connectHead o = some head) :
    connectPassed o = true := by
  cases o with
  | tunnel a => rfl
  | mitm => rfl
  | refused s w => cases h
  | badRequest => cases h
  | unreadable => cases h
  | routeError => cases h

/-- the head of a dispatched CONNECT, if there is one, is the dialer's head over the final header -/
theorem connectHead_dispatch {cfg : Cfg} {au : Bytes} {h : HMap} {head : OutMsg}
    (hh : connectHead (connectDispatch cfg au h) = some head) :
    ∃ auth, head = dialviaConnectHead au auth h (connectExtra cfg) := by
  unfold connectDispatch at hh
  split at hh
  · cases hh
  · split at hh
    · cases hh
    · cases hh; exact ⟨_, rfl⟩
    · cases hh; exact ⟨_, rfl⟩
    · cases hh
    · cases hh
    · cases hh

/-- A CONNECT forwarded as a message carries exactly one Via field line: what the modifier wrote. -/
theorem connect_head_out {cfg : Cfg} {ctx : Ctx} {c : ConnectReq} {head : OutMsg}
    (h : connectHead (processConnect cfg ctx c) = some head)
    (hr : rulesAvoidVia cfg.connectRules = true) :
    ∃ g h2, preViaConnect cfg c = .ok (g, h2) ∧
      outVia head = [newVia cfg.tag g.minor (viaChainOf h2)] ∧
      ¬ (viaChainOf h2 ≠ [] ∧ isInfix cfg.tag (viaChainOf h2) = true) ∧
      (∀ e ∈ head.fields, lower e.1 = e.1) := by
  rcases processConnect_cases cfg ctx c with ⟨o, hp, ho⟩ | ⟨g, h2, hp, hs, ho⟩ | ⟨g, h2, h3, hp, hs, ho⟩
  · rw [ho] at h
    have h1 := (preViaConnect_error hp).1
    rw [connectHead_some_passed h] at h1
    cases h1
  · rw [ho] at h
    cases h
  · rw [ho] at h
    obtain ⟨auth, hhead⟩ := connectHead_dispatch h
    obtain ⟨h3eq, hnl⟩ := viaStep_some hs
    obtain ⟨_, _, _, _, hreach⟩ := preViaConnect_ok hp
    have hv2 : ViaInv h2 := hreach.viaInv (toHeader_viaInv _)
    have hv3 : ViaInv h3 := by rw [h3eq]; exact hv2.goSet _ _
    obtain ⟨hvf, hgf⟩ := connectFinalHeader_via hr hv3
    obtain ⟨hve, hne⟩ := connectExtra_via hr
    refine ⟨g, h2, hp, ?_, hnl, ?_⟩
    · rw [hhead, outVia_dialviaConnectHead _ _ _ _ hvf hve hne]
      unfold hget
      rw [hgf, h3eq]
      have := get_goSet_self h2 viaName (newVia cfg.tag g.minor (viaChainOf h2))
      rw [viaName_canon] at this
      rw [this]
      rfl
    · rw [hhead]
      exact dialviaConnectHead_names_lower _ _ _ _

/-- a CONNECT whose Via value (as the modifier sees it) contains the tag never passes: no tunnel, no
    interception, whatever the upstream -/
theorem connect_tagged_not_passed {cfg : Cfg} {ctx : Ctx} {c : ConnectReq}
    (hn : viaNominated c.fields = false) (hne : viaChain (viaLines c.fields) ≠ [])
    (hi : isInfix cfg.tag (viaChain (viaLines c.fields)) = true) :
    connectPassed (processConnect cfg ctx c) = false ∧
      (connectReachesVia cfg c = true → processConnect cfg ctx c = .refused 400 .loop) := by
  rcases processConnect_cases cfg ctx c with ⟨o, hp, ho⟩ | ⟨g, h2, hp, hs, ho⟩ | ⟨g, h2, h3, hp, hs, ho⟩
  · refine ⟨by rw [ho]; exact (preViaConnect_error hp).1, ?_⟩
    intro hreach
    unfold connectReachesVia at hreach
    rw [hp] at hreach
    exact absurd hreach (by simp)
  · exact ⟨by rw [ho]; rfl, fun _ => ho⟩
  · obtain ⟨hget, _, _⟩ := preViaConnect_via hp hn
    have := (viaStep_some hs).2
    rw [hget] at this
    exact absurd ⟨hne, hi⟩ this

theorem connectDispatch_passed (cfg : Cfg) (au : Bytes) (h : HMap)
    (hup : ∀ sc hp a, cfg.upstream ≠ .other sc hp a) (hf : cfg.upstream ≠ .failed) :
    connectPassed (connectDispatch cfg au h) = true := by
  unfold connectDispatch
  split
  · rfl
  · split
    all_goals first
      | rfl
      | (rename_i hu; exact absurd hu (hup _ _ _))
      | (rename_i hu; exact absurd hu hf)

/-- a CONNECT whose Via value does not contain the tag passes the modifier -/
theorem connect_untagged_passed {cfg : Cfg} {ctx : Ctx} {c : ConnectReq}
    (hn : viaNominated c.fields = false)
    (hi : viaChain (viaLines c.fields) ≠ [] → isInfix cfg.tag (viaChain (viaLines c.fields)) = false)
    (hreach : connectReachesVia cfg c = true)
    (hup : ∀ sc hp a, cfg.upstream ≠ .other sc hp a) (hf : cfg.upstream ≠ .failed) :
    connectPassed (processConnect cfg ctx c) = true := by
  rcases processConnect_cases cfg ctx c with ⟨o, hp, ho⟩ | ⟨g, h2, hp, hs, ho⟩ | ⟨g, h2, h3, hp, hs, ho⟩
  · unfold connectReachesVia at hreach
    rw [hp] at hreach
    exact absurd hreach (by simp)
  · obtain ⟨hget, _, _⟩ := preViaConnect_via hp hn
    have := (viaStep_none_iff cfg g.minor h2).mp hs
    rw [hget] at this
    rw [hi this.1] at this
    exact absurd this.2 (by simp)
  · rw [ho]
    exact connectDispatch_passed cfg _ _ hup hf

/-- with an `http` or `https` upstream proxy a dispatched CONNECT is ONE head handed to the dialer:
    the (modified) client header, for both schemes -/
theorem connectDispatch_head {cfg : Cfg} {au hp : Bytes} {h : HMap} {auth : Option Bytes}
    (hup : cfg.upstream = .http hp auth ∨ cfg.upstream = .https hp auth) (hm : cfg.mitm = false) :
    connectHead (connectDispatch cfg au h) = some (dialviaConnectHead au auth h (connectExtra cfg)) := by
  unfold connectDispatch
  simp only [hm, Bool.false_eq_true, if_false]
  rcases hup with hu | hu <;> simp only [hu] <;> rfl

/-- with a SOCKS5 upstream or none no message is sent: the SOCKS request names the authority only -/
theorem connectDispatch_raw {cfg : Cfg} {au : Bytes} {h : HMap}
    (hup : (∃ hp a, cfg.upstream = .socks5 hp a) ∨ cfg.upstream = .none) :
    connectHead (connectDispatch cfg au h) = none ∧
      ∀ a, connectDispatch cfg au h = .tunnel a →
        a.sent = [] ∧ ((∃ hp x, cfg.upstream = .socks5 hp x) → a.socksTarget = some au) := by
  unfold connectDispatch
  split
  · exact ⟨rfl, fun a ha => by cases ha⟩
  · rcases hup with ⟨hp, x, hu⟩ | hu
    · simp only [hu]
      refine ⟨rfl, fun a ha => ?_⟩
      cases ha
      exact ⟨rfl, fun _ => rfl⟩
    · simp only [hu]
      refine ⟨rfl, fun a ha => ?_⟩
      cases ha
      refine ⟨rfl, fun hx => ?_⟩
      obtain ⟨hp, x, hx⟩ := hx
      cases hx

theorem connectHead_some_tunnel {o : ConnectOutcome} {head : OutMsg} (h : connectHead o = some head) :
    isTunnel o = true := by
  cases o with
  | tunnel a => rfl
  | mitm => cases h
  | refused s w => cases h
  | badRequest => cases h
  | unreadable => cases h
  | routeError => cases h

/-! ### equality of messages as a Boolean (for kernel-evaluated witnesses) -/

def sameMsg (a b : OutMsg) : Bool :=
  a.method == b.method && a.target == b.target && a.fields == b.fields && a.framing == b.framing

theorem sameMsg_eq {a b : OutMsg} (h : sameMsg a b = true) : a = b := by
  cases a; cases b
  simp only [sameMsg, Bool.and_eq_true, beq_iff_eq] at h
  obtain ⟨⟨⟨h1, h2⟩, h3⟩, h4⟩ := h
  subst h1 h2 h3 h4
  rfl

def headIs (o : Option OutMsg) (m : OutMsg) : Bool :=
  match o with
  | some h => sameMsg h m
  | none => false

theorem headIs_eq {o : Option OutMsg} {m : OutMsg} (h : headIs o m = true) : o = some m := by
  cases o with
  | none => cases h
  | some x => exact congrArg some (sameMsg_eq h)

/-! ## §15 the upstream scheme does not matter -/

theorem httpsify_tag (cfg : Cfg) : (httpsify cfg).tag = cfg.tag := by
  unfold httpsify; split <;> rfl
theorem httpsify_rules (cfg : Cfg) : (httpsify cfg).rules = cfg.rules := by
  unfold httpsify; split <;> rfl
theorem httpsify_connectRules (cfg : Cfg) : (httpsify cfg).connectRules = cfg.connectRules := by
  unfold httpsify; split <;> rfl
theorem httpsify_siteCred (cfg : Cfg) : (httpsify cfg).siteCred = cfg.siteCred := by
  unfold httpsify; split <;> rfl
theorem httpsify_mitm (cfg : Cfg) : (httpsify cfg).mitm = cfg.mitm := by
  unfold httpsify; split <;> rfl

theorem httpsify_securityCheck (cfg : Cfg) (g : GoReq) :
    securityCheck (httpsify cfg) g = securityCheck cfg g := by
  unfold httpsify
  split <;> rfl

theorem httpsify_viaStep (cfg : Cfg) (m : Nat) (h : HMap) : viaStep (httpsify cfg) m h = viaStep cfg m h := by
  unfold viaStep
  rw [httpsify_tag]

theorem httpsify_preVia (cfg : Cfg) (ctx : Ctx) (r : Request) :
    preVia (httpsify cfg) ctx r = preVia cfg ctx r := by
  unfold preVia
  simp only [httpsify_securityCheck]

theorem httpsify_preViaConnect (cfg : Cfg) (c : ConnectReq) :
    preViaConnect (httpsify cfg) c = preViaConnect cfg c := by
  unfold preViaConnect
  simp only [httpsify_securityCheck]

theorem httpsify_finalHeader (cfg : Cfg) (up : Bytes) (h4 : HMap) :
    finalHeader (httpsify cfg) up h4 = finalHeader cfg up h4 := by
  unfold finalHeader
  rw [httpsify_rules, httpsify_siteCred]

theorem httpsify_connectFinalHeader (cfg : Cfg) (h3 : HMap) :
    connectFinalHeader (httpsify cfg) h3 = connectFinalHeader cfg h3 := by
  unfold connectFinalHeader
  rw [httpsify_connectRules]

theorem httpsify_connectExtra (cfg : Cfg) : connectExtra (httpsify cfg) = connectExtra cfg := by
  unfold connectExtra
  rw [httpsify_connectRules]

theorem writeRequest_tlsProxy (hp : Bytes) (auth : Option Bytes) (g : GoReq) :
    writeRequest (.tlsProxy hp) auth g = writeRequest (.proxy hp) auth g := by
  unfold writeRequest
  cases auth <;> rfl

theorem httpsify_postVia (cfg : Cfg) (p : PreVia) (h4 : HMap) :
    eraseHop (postVia (httpsify cfg) p h4) = eraseHop (postVia cfg p h4) := by
  unfold postVia
  simp only [httpsify_finalHeader]
  cases hu : cfg.upstream with
  | http hp auth =>
    have : (httpsify cfg).upstream = .https hp auth := by unfold httpsify; simp only [hu]
    simp only [this]
    split
    · simp only [eraseHop, writeRequest_tlsProxy]
    · rfl
  | none => have : (httpsify cfg).upstream = .none := by unfold httpsify; simp only [hu]
            simp only [this]
  | https hp auth => have : (httpsify cfg).upstream = .https hp auth := by unfold httpsify; simp only [hu]
                     simp only [this]
  | socks5 hp a => have : (httpsify cfg).upstream = .socks5 hp a := by unfold httpsify; simp only [hu]
                   simp only [this]
  | other sc hp a => have : (httpsify cfg).upstream = .other sc hp a := by unfold httpsify; simp only [hu]
                     simp only [this]
  | failed => have : (httpsify cfg).upstream = .failed := by unfold httpsify; simp only [hu]
              simp only [this]

/-- the message a plain request is forwarded as does not depend on whether the upstream proxy is
    reached over TLS -/
theorem httpsify_processRequest (cfg : Cfg) (ctx : Ctx) (r : Request) :
    eraseHop (processRequest (httpsify cfg) ctx r) = eraseHop (processRequest cfg ctx r) := by
  rw [processRequest_eq, processRequest_eq, httpsify_preVia]
  cases preVia cfg ctx r with
  | error o => rfl
  | ok p =>
    simp only [httpsify_viaStep]
    cases viaStep cfg p.g.minor p.h3 with
    | none => rfl
    | some h4 => exact httpsify_postVia cfg p h4

theorem httpsify_connectDispatch (cfg : Cfg) (au : Bytes) (h : HMap) :
    connectView (connectDispatch (httpsify cfg) au h) = connectView (connectDispatch cfg au h) := by
  unfold connectDispatch
  simp only [httpsify_mitm, httpsify_connectExtra]
  split
  · rfl
  · cases hu : cfg.upstream with
    | http hp auth =>
      have : (httpsify cfg).upstream = .https hp auth := by unfold httpsify; simp only [hu]
      simp only [this]
      rfl
    | none => have : (httpsify cfg).upstream = .none := by unfold httpsify; simp only [hu]
              simp only [this]
    | https hp auth => have : (httpsify cfg).upstream = .https hp auth := by unfold httpsify; simp only [hu]
                       simp only [this]
    | socks5 hp a => have : (httpsify cfg).upstream = .socks5 hp a := by unfold httpsify; simp only [hu]
                     simp only [this]
    | other sc hp a => have : (httpsify cfg).upstream = .other sc hp a := by unfold httpsify; simp only [hu]
                       simp only [this]
    | failed => have : (httpsify cfg).upstream = .failed := by unfold httpsify; simp only [hu]
                simp only [this]

/-- … nor does the CONNECT head -/
theorem httpsify_processConnect (cfg : Cfg) (ctx : Ctx) (c : ConnectReq) :
    connectView (processConnect (httpsify cfg) ctx c) = connectView (processConnect cfg ctx c) := by
  rw [processConnect_eq, processConnect_eq, httpsify_preViaConnect]
  cases preViaConnect cfg c with
  | error o => rfl
  | ok p =>
    obtain ⟨g, h2⟩ := p
    simp only [httpsify_viaStep]
    cases viaStep cfg g.minor h2 with
    | none => rfl
    | some h3 =>
      simp only [httpsify_connectFinalHeader]
      exact httpsify_connectDispatch cfg _ _

def viewHead : ConnectView → Option OutMsg
  | .tunnelHead m => some m
  | _ => none

theorem connectHead_eq_viewHead (o : ConnectOutcome) : connectHead o = viewHead (connectView o) := by
  cases o with
  | tunnel a =>
    simp only [connectHead, connectView]
    cases a.sent.head? <;> rfl
  | mitm => rfl
  | refused s w => rfl
  | badRequest => rfl
  | unreadable => rfl
  | routeError => rfl

theorem connectHead_of_view {a b : ConnectOutcome} (h : connectView a = connectView b) :
    connectHead a = connectHead b := by
  rw [connectHead_eq_viewHead, connectHead_eq_viewHead, h]

/-- outcomes that agree up to the hop: both forwarded with the same message, or the same refusal -/
theorem eraseHop_eq_cases {a b : Outcome} (h : eraseHop a = eraseHop b) :
    (∃ hop hop' out, a = .forwarded hop out ∧ b = .forwarded hop' out) ∨
      (a = b ∧ isForwarded a = false) := by
  cases a <;> cases b
  all_goals first
    | (left; simp only [eraseHop, Outcome.forwarded.injEq, true_and] at h; subst h; exact ⟨_, _, _, rfl, rfl⟩)
    | (right; exact ⟨h, rfl⟩)
    | cases h

/-! ### one step of the loops -/

theorem runConnectLoop_step (insts : List (Cfg × Ctx)) (fuel i : Nat) (c : ConnectReq) (cfg : Cfg) (ctx : Ctx)
    (hi : insts[i % insts.length]? = some (cfg, ctx)) :
    runConnectLoop insts (fuel + 1) i c =
      match connectHead (processConnect cfg ctx c) with
      | some head => processConnect cfg ctx c :: runConnectLoop insts fuel (i + 1) (reinjectConnect head)
      | none => [processConnect cfg ctx c] := by
  unfold runConnectLoop
  rw [runConnectLoopWith]
  simp only [hi]
  rfl

theorem runLoop_step (insts : List (Cfg × Ctx)) (fuel i : Nat) (r : Request) (cfg : Cfg) (ctx : Ctx)
    (hi : insts[i % insts.length]? = some (cfg, ctx)) :
    runLoop insts (fuel + 1) i r =
      match processRequest cfg ctx r with
      | .forwarded hop out => .forwarded hop out :: runLoop insts fuel (i + 1) (reinject out)
      | o => [o] := by
  rw [runLoop]
  simp only [hi]
  cases processRequest cfg ctx r <;> rfl

/-! ## §16 concrete CONNECT requests and fleets used as witnesses / non-vacuity examples -/

def connectWith (minor : Nat) (via : List Bytes) : ConnectReq :=
  { authority := bs "origin.test:443", minor := minor,
    fields := [(bs "Host", bs "origin.test:443")] ++ via.map (fun v => (bs "Via", v)) ++ [(bs "User-Agent", bs "curl/8.0")] }

def connectPlain : ConnectReq := connectWith 1 []

/-- `cfgW` / `cfgX` behind an upstream proxy of the given kind -/
def cfgWhttp : Cfg := { cfgW with upstream := .http (bs "next.test:3128") none }
def cfgWhttps : Cfg := { cfgW with upstream := .https (bs "next.test:3128") none }
def cfgWsocks : Cfg := { cfgW with upstream := .socks5 (bs "next.test:1080") none }
def cfgXhttps : Cfg := { cfgX with upstream := .https (bs "next.test:3128") none }
def ctxTLS : Ctx := { clientIP := bs "127.0.0.1", secure := true }

/-- the head the no-header variant sends to an HTTPS proxy: the dialer's own fields only -/
def headNoHdr : OutMsg :=
  { method := bs "CONNECT", target := bs "origin.test:443",
    fields := [(bs "host", [bs "origin.test:443"])], framing := 0 }

/-- an identifier that is a function of the configuration VALUE (what a field filled in by the
    default-configuration constructor amounts to): every instance built from one value shares it -/
def idOfConfig (c : Cfg) : Bytes := c.name ++ bs "-0123456789abcdef0123"

/-- a second instance built from the SAME configuration value as `cfgWhttps` under an identifier that
    is a function of the configuration (same tag), differing in nothing the pipeline looks at -/
def cfgWcopy : Cfg := cfgWhttps

end C18
end FwdVerif
