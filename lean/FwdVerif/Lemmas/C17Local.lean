/-
  C17 — helper for the witness of `FwdVerif/Theorems/C17.lean` about a length guard in front of the
  inversion: the one-rule list `a` matches every subject that starts with `a`, of any length
  (core Lean only).
-/
import FwdVerif.Model.C17Local
import FwdVerif.Lemmas.C17Main

namespace FwdVerif
namespace C17

/-- the list `a` -/
def aList : List Rule := [⟨[97], false⟩]

/-- the rule `a`, on its own, matches `a…` whatever follows and however long it is -/
theorem aList_search (t : Bytes) : Rule.search ⟨[97], false⟩ (97 :: t) = true := by
  have hc : compile [97] = .ok (.cat (.chr (.lit 97 false)) .empty) := by rfl
  simp only [Rule.search, hc, searchRx, ends]
  rw [List.length_cons, List.range_succ_eq_map]
  simp [stepChr, byteAt, CM.test]

theorem aList_spec (t : Bytes) : Spec aList (97 :: t) := by
  refine ⟨⟨⟨[97], false⟩, by decide, aList_search _⟩, ?_⟩
  rintro ⟨r, hr, _⟩
  have he : excludes aList = [] := by decide
  simp [he] at hr

end C17
end FwdVerif
