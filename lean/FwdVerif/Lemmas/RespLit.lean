/-
  C02 — evaluation of the byte-string literals `bs "…"` used by the response model.

  `bs s = s.toUTF8.toList` does not reduce in the kernel (`ByteArray.toList` is defined by
  well-founded recursion), so concrete evaluations (`decide`) and (dis)equalities between the
  literal header names need these rewriting lemmas first.  Core-only.
-/
import FwdVerif.Model.Resp

namespace FwdVerif
namespace Resp

open Req (bs natToDec)

theorem byteArray_size_eq (b : ByteArray) : b.size = b.data.toList.length := by
  cases b; rfl

theorem byteArray_get!_eq (b : ByteArray) (i : Nat) (h : i < b.data.toList.length) :
    b.get! i = b.data.toList[i] := by
  cases b with | mk d =>
  show d[i]! = _
  simp at h
  simp [h]

theorem byteArray_toList_loop (b : ByteArray) (i : Nat) (r : List UInt8) :
    ByteArray.toList.loop b i r = r.reverse ++ b.data.toList.drop i := by
  fun_induction ByteArray.toList.loop b i r with
  | case1 i r h ih =>
    rw [ih]
    have hi : i < b.data.toList.length := by rw [← byteArray_size_eq]; exact h
    rw [List.drop_eq_getElem_cons hi, byteArray_get!_eq b i hi]
    simp
  | case2 i r h =>
    have : b.data.toList.length ≤ i := by rw [← byteArray_size_eq]; omega
    rw [List.drop_eq_nil_of_le this]; simp

theorem byteArray_toList (b : ByteArray) : b.toList = b.data.toList := by
  unfold ByteArray.toList; rw [byteArray_toList_loop]; simp

/-- the bytes of a string are the UTF-8 encodings of its characters, in order -/
theorem bs_eq (s : String) : bs s = s.toList.flatMap String.utf8EncodeChar := by
  unfold bs Wire.b String.toUTF8
  rw [byteArray_toList, ← String.utf8Encode_toList]
  unfold List.utf8Encode
  exact List.toList_data_toByteArray

/-! ### the literals of `Model/Resp.lean` and of the helpers it borrows from `Model/Req.lean` -/

theorem bs_Content_Length : bs "Content-Length" = [67, 111, 110, 116, 101, 110, 116, 45, 76, 101, 110, 103, 116, 104] := by rw [bs_eq]; decide
theorem bs_Connection : bs "Connection" = [67, 111, 110, 110, 101, 99, 116, 105, 111, 110] := by rw [bs_eq]; decide
theorem bs_Transfer_Encoding : bs "Transfer-Encoding" = [84, 114, 97, 110, 115, 102, 101, 114, 45, 69, 110, 99, 111, 100, 105, 110, 103] := by rw [bs_eq]; decide
theorem bs_Trailer : bs "Trailer" = [84, 114, 97, 105, 108, 101, 114] := by rw [bs_eq]; decide
theorem bs_close : bs "close" = [99, 108, 111, 115, 101] := by rw [bs_eq]; decide
theorem bs_Upgrade : bs "Upgrade" = [85, 112, 103, 114, 97, 100, 101] := by rw [bs_eq]; decide
theorem bs_chunked : bs "chunked" = [99, 104, 117, 110, 107, 101, 100] := by rw [bs_eq]; decide
theorem bs_HEAD : bs "HEAD" = [72, 69, 65, 68] := by rw [bs_eq]; decide
theorem bs_CONNECT : bs "CONNECT" = [67, 79, 78, 78, 69, 67, 84] := by rw [bs_eq]; decide
theorem bs_transfer_encoding : bs "transfer-encoding" = [116, 114, 97, 110, 115, 102, 101, 114, 45, 101, 110, 99, 111, 100, 105, 110, 103] := by rw [bs_eq]; decide
theorem bs_trailer : bs "trailer" = [116, 114, 97, 105, 108, 101, 114] := by rw [bs_eq]; decide
theorem bs_keep_alive : bs "keep-alive" = [107, 101, 101, 112, 45, 97, 108, 105, 118, 101] := by rw [bs_eq]; decide
theorem bs_gzip : bs "gzip" = [103, 122, 105, 112] := by rw [bs_eq]; decide
theorem bs_content_length : bs "content-length" = [99, 111, 110, 116, 101, 110, 116, 45, 108, 101, 110, 103, 116, 104] := by rw [bs_eq]; decide
theorem bs_connection : bs "connection" = [99, 111, 110, 110, 101, 99, 116, 105, 111, 110] := by rw [bs_eq]; decide
theorem bs_Content_Encoding : bs "Content-Encoding" = [67, 111, 110, 116, 101, 110, 116, 45, 69, 110, 99, 111, 100, 105, 110, 103] := by rw [bs_eq]; decide
theorem bs_Keep_Alive : bs "Keep-Alive" = [75, 101, 101, 112, 45, 65, 108, 105, 118, 101] := by rw [bs_eq]; decide
theorem bs_Proxy_Authenticate : bs "Proxy-Authenticate" = [80, 114, 111, 120, 121, 45, 65, 117, 116, 104, 101, 110, 116, 105, 99, 97, 116, 101] := by rw [bs_eq]; decide
theorem bs_Proxy_Authorization : bs "Proxy-Authorization" = [80, 114, 111, 120, 121, 45, 65, 117, 116, 104, 111, 114, 105, 122, 97, 116, 105, 111, 110] := by rw [bs_eq]; decide
theorem bs_Proxy_Connection : bs "Proxy-Connection" = [80, 114, 111, 120, 121, 45, 67, 111, 110, 110, 101, 99, 116, 105, 111, 110] := by rw [bs_eq]; decide
theorem bs_Te : bs "Te" = [84, 101] := by rw [bs_eq]; decide
theorem bs_GET : bs "GET" = [71, 69, 84] := by rw [bs_eq]; decide
theorem bs_OK : bs "OK" = [79, 75] := by rw [bs_eq]; decide
theorem bs_content_encoding : bs "content-encoding" = [99, 111, 110, 116, 101, 110, 116, 45, 101, 110, 99, 111, 100, 105, 110, 103] := by rw [bs_eq]; decide
theorem bs_upgrade : bs "upgrade" = [117, 112, 103, 114, 97, 100, 101] := by rw [bs_eq]; decide

/-- rewrite every `bs "…"` literal to its byte list -/
macro "bs_norm" : tactic => `(tactic| simp only [bs_Content_Length, bs_Connection, bs_Transfer_Encoding, bs_Trailer, bs_close, bs_Upgrade, bs_chunked, bs_HEAD, bs_CONNECT, bs_transfer_encoding, bs_trailer, bs_keep_alive, bs_gzip, bs_content_length, bs_connection, bs_Content_Encoding, bs_Keep_Alive, bs_Proxy_Authenticate, bs_Proxy_Authorization, bs_Proxy_Connection, bs_Te, bs_GET, bs_OK, bs_content_encoding, bs_upgrade])
macro "bs_norm" "at" h:ident : tactic => `(tactic| simp only [bs_Content_Length, bs_Connection, bs_Transfer_Encoding, bs_Trailer, bs_close, bs_Upgrade, bs_chunked, bs_HEAD, bs_CONNECT, bs_transfer_encoding, bs_trailer, bs_keep_alive, bs_gzip, bs_content_length, bs_connection, bs_Content_Encoding, bs_Keep_Alive, bs_Proxy_Authenticate, bs_Proxy_Authorization, bs_Proxy_Connection, bs_Te, bs_GET, bs_OK, bs_content_encoding, bs_upgrade] at $h:ident)
macro "bs_norm" "at" "*" : tactic => `(tactic| simp only [bs_Content_Length, bs_Connection, bs_Transfer_Encoding, bs_Trailer, bs_close, bs_Upgrade, bs_chunked, bs_HEAD, bs_CONNECT, bs_transfer_encoding, bs_trailer, bs_keep_alive, bs_gzip, bs_content_length, bs_connection, bs_Content_Encoding, bs_Keep_Alive, bs_Proxy_Authenticate, bs_Proxy_Authorization, bs_Proxy_Connection, bs_Te, bs_GET, bs_OK, bs_content_encoding, bs_upgrade] at *)


end Resp
end FwdVerif
