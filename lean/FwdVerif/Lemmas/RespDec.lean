/-
  C02 — `natToDec` (Go's `strconv.Itoa` for the `Content-Length` the writer generates) against the
  reader's `parseDec` (core Lean only).
-/
import FwdVerif.Lemmas.RespLit
import FwdVerif.Model.RespSpec

namespace FwdVerif
namespace Resp

open Ascii
open Req (bs natToDec trimOWS)

/-- the byte of an ASCII digit character -/
def digitByte (c : Char) : UInt8 := UInt8.ofNat c.val.toNat

theorem utf8_of_digit {c : Char} (h : c.isDigit = true) : String.utf8EncodeChar c = [digitByte c] := by
  have hle : c.val.toNat ≤ 0x7f := by
    simp only [Char.isDigit, Bool.and_eq_true, decide_eq_true_eq] at h
    have := h.2
    rw [UInt32.le_iff_toNat_le] at this
    have h9 : ('9' : Char).val.toNat = 57 := by decide
    omega
  unfold String.utf8EncodeChar digitByte
  simp only [hle, if_true]

theorem digit_bounds {c : Char} (h : c.isDigit = true) : 48 ≤ c.val.toNat ∧ c.val.toNat ≤ 57 := by
  simp only [Char.isDigit, Bool.and_eq_true, decide_eq_true_eq] at h
  obtain ⟨h1, h2⟩ := h
  rw [ge_iff_le, UInt32.le_iff_toNat_le] at h1
  rw [UInt32.le_iff_toNat_le] at h2
  have h0 : ('0' : Char).val.toNat = 48 := by decide
  have h9 : ('9' : Char).val.toNat = 57 := by decide
  omega

theorem digitByte_toNat {c : Char} (h : c.isDigit = true) : (digitByte c).toNat = c.toNat := by
  obtain ⟨_, h2⟩ := digit_bounds h
  unfold digitByte
  rw [UInt8.toNat_ofNat']
  show c.val.toNat % 2 ^ 8 = c.val.toNat
  omega

theorem isDigit_digitByte {c : Char} (h : c.isDigit = true) : isDigit (digitByte c) = true := by
  have hn := digitByte_toNat h
  obtain ⟨h1, h2⟩ := digit_bounds h
  have hc : c.toNat = c.val.toNat := rfl
  unfold isDigit
  simp only [Bool.and_eq_true, decide_eq_true_eq, UInt8.le_iff_toNat_le]
  have a : (48 : UInt8).toNat = 48 := rfl
  have b : (57 : UInt8).toNat = 57 := rfl
  omega

theorem natToDec_eq (n : Nat) : natToDec n = (Nat.toDigits 10 n).map digitByte := by
  have h1 : natToDec n = bs (toString n) := rfl
  rw [h1, bs_eq, Nat.toString_eq_repr, Nat.toList_repr]
  have hd : ∀ c ∈ Nat.toDigits 10 n, c.isDigit = true :=
    fun c hc => Nat.isDigit_of_mem_toDigits (by decide) (by decide) hc
  generalize Nat.toDigits 10 n = l at hd
  induction l with
  | nil => rfl
  | cons c l ih =>
    rw [List.flatMap_cons, List.map_cons, utf8_of_digit (hd c List.mem_cons_self),
      ih (fun c' hc' => hd c' (List.mem_cons_of_mem _ hc'))]
    rfl

theorem natToDec_ne_nil (n : Nat) : natToDec n ≠ [] := by
  rw [natToDec_eq]
  intro h
  exact Nat.toDigits_ne_nil (List.map_eq_nil_iff.mp h)

theorem natToDec_all_digit (n : Nat) : (natToDec n).all isDigit = true := by
  rw [natToDec_eq, List.all_eq_true]
  intro b hb
  obtain ⟨c, hc, rfl⟩ := List.mem_map.mp hb
  exact isDigit_digitByte (Nat.isDigit_of_mem_toDigits (by decide) (by decide) hc)

theorem foldl_digits (l : List Char) (hd : ∀ c ∈ l, c.isDigit = true) (a : Nat) :
    (l.map digitByte).foldl (fun a c => a * 10 + (c.toNat - 48)) a = Nat.ofDigitChars 10 l a := by
  induction l generalizing a with
  | nil => rfl
  | cons c l ih =>
    rw [List.map_cons, List.foldl_cons, Nat.ofDigitChars_cons,
      ih (fun c' hc' => hd c' (List.mem_cons_of_mem _ hc')),
      digitByte_toNat (hd c List.mem_cons_self)]
    have h0 : ('0' : Char).toNat = 48 := by decide
    rw [h0, Nat.mul_comm]

/-- the reader's decimal parser inverts the writer's `Itoa` -/
theorem parseDec_natToDec (n : Nat) : parseDec (natToDec n) = some n := by
  unfold parseDec
  have h1 : (natToDec n).isEmpty = false := by
    cases h : natToDec n with
    | nil => exact absurd h (natToDec_ne_nil n)
    | cons _ _ => rfl
  rw [h1, natToDec_all_digit]
  simp only [Bool.not_true, Bool.or_self, Bool.false_eq_true, if_false]
  rw [natToDec_eq, foldl_digits _ (fun c hc => Nat.isDigit_of_mem_toDigits (by decide) (by decide) hc),
    Nat.ofDigitChars_ten_toDigits]

theorem dropWhile_ows_of_digit {v : Bytes} (h : v.all isDigit = true) :
    v.dropWhile (fun c => c == 32 || c == 9) = v := by
  cases v with
  | nil => rfl
  | cons c cs =>
    have hc : isDigit c = true := by
      simp only [List.all_cons, Bool.and_eq_true] at h; exact h.1
    have : (c == 32 || c == 9) = false := by
      simp only [isDigit, Bool.and_eq_true, decide_eq_true_eq] at hc
      simp only [Bool.or_eq_false_iff, beq_eq_false_iff_ne, ne_eq]
      constructor <;> (intro h'; subst h'; revert hc; decide)
    rw [List.dropWhile_cons, this]
    rfl

/-- a string of digits has no optional white space to trim -/
theorem trimOWS_of_digits {v : Bytes} (h : v.all isDigit = true) : trimOWS v = v := by
  unfold trimOWS
  simp only
  rw [dropWhile_ows_of_digit h]
  have hr : v.reverse.all isDigit = true := by
    rw [List.all_eq_true] at h ⊢
    intro x hx
    exact h x (List.mem_reverse.mp hx)
  rw [dropWhile_ows_of_digit hr, List.reverse_reverse]

theorem trimOWS_natToDec (n : Nat) : trimOWS (natToDec n) = natToDec n :=
  trimOWS_of_digits (natToDec_all_digit n)

end Resp
end FwdVerif
