/-
  Request pipeline — helper lemmas, part 3 (core Lean only): the writer (`writeRequest`) on the
  per-name view, and the decomposition of `processRequest` into its stages.
-/
import FwdVerif.Lemmas.ReqStages

namespace FwdVerif
namespace Req

open Ascii
open C16

/-! ## §1 the pieces the writer puts together -/

def uaPiece (h : HMap) : List (Bytes × List Bytes) :=
  match HMap.get h (bs "User-Agent") with
  | some (v :: _) => if (trimOWS v).isEmpty then [] else [(bs "user-agent", [trimOWS v])]
  | _ => []

def connPiece (g : GoReq) : List (Bytes × List Bytes) :=
  if g.close && !valuesContainToken [goGet g.header (bs "Connection")] (bs "close")
  then [(bs "connection", [bs "close"])] else []

def framingPiece (g : GoReq) : List (Bytes × List Bytes) :=
  if g.chunked then
    [(bs "transfer-encoding", [bs "chunked"])] ++
      (if g.trailer.isEmpty then []
       else [(bs "trailer", [joinWith [44] (g.trailer.mergeSort C16.bytesLe).eraseDups])])
  else if sendsContentLength g.method g.contentLength then
    [(bs "content-length", [natToDec g.contentLength.toNat])]
  else []

def gzipPiece (g : GoReq) : List (Bytes × List Bytes) :=
  if (goGet g.header (bs "Accept-Encoding")).isEmpty && (goGet g.header (bs "Range")).isEmpty &&
      g.method != bs "HEAD"
  then [(bs "accept-encoding", [bs "gzip"])] else []

def proxyAuthPiece (hop : Hop) (auth : Option Bytes) (g : GoReq) : List (Bytes × List Bytes) :=
  match hop, auth with
  | .proxy _, some a => if g.scheme == bs "http" then [(bs "proxy-authorization", [a])] else []
  | .tlsProxy _, some a => if g.scheme == bs "http" then [(bs "proxy-authorization", [a])] else []
  | .otherProxy _ _, some a => if g.scheme == bs "http" then [(bs "proxy-authorization", [a])] else []
  | _, _ => []

/-- target the hop receives -/
def targetOf (hop : Hop) (g : GoReq) : Bytes :=
  match hop with
  | .direct _ => requestURI g
  | .proxy _ => if g.scheme == bs "http" then g.scheme ++ bs "://" ++ g.host ++ requestURI g
                else requestURI g
  | .socks _ => requestURI g
  | .tlsProxy _ | .otherProxy _ _ =>
    if g.scheme == bs "http" then g.scheme ++ bs "://" ++ g.host ++ requestURI g else requestURI g

def framingOf (g : GoReq) : Nat :=
  if g.chunked then 2
  else if sendsContentLength g.method g.contentLength then (if g.contentLength > 0 then 1 else 0)
  else 0

theorem writeRequest_eq (hop : Hop) (auth : Option Bytes) (g : GoReq) :
    writeRequest hop auth g =
      { method := g.method, target := targetOf hop g,
        fields := mergeFields ([(bs "host", [g.host])] ++ uaPiece g.header ++ connPiece g ++
          framingPiece g ++ lowerFields (g.header.filter fun e => !writerExcluded.contains e.1) ++
          (gzipPiece g ++ proxyAuthPiece hop auth g)),
        framing := framingOf g } := by
  unfold writeRequest framingPiece framingOf
  by_cases hc : g.chunked = true
  · simp only [hc, if_true]
    rfl
  · by_cases hs : sendsContentLength g.method g.contentLength = true
    · simp only [hc, hs, if_true, if_false, Bool.false_eq_true]
      rfl
    · simp only [hc, hs, if_false, Bool.false_eq_true]
      rfl

theorem writeRequest_fields (hop : Hop) (auth : Option Bytes) (g : GoReq) :
    (writeRequest hop auth g).fields =
      mergeFields ([(bs "host", [g.host])] ++ uaPiece g.header ++ connPiece g ++ framingPiece g ++
        lowerFields (g.header.filter fun e => !writerExcluded.contains e.1) ++
        (gzipPiece g ++ proxyAuthPiece hop auth g)) := by
  rw [writeRequest_eq]

theorem writeRequest_method (hop : Hop) (auth : Option Bytes) (g : GoReq) :
    (writeRequest hop auth g).method = g.method := by
  rw [writeRequest_eq]

theorem writeRequest_target (hop : Hop) (auth : Option Bytes) (g : GoReq) :
    (writeRequest hop auth g).target = targetOf hop g := by
  rw [writeRequest_eq]

theorem outValues_writeRequest (hop : Hop) (auth : Option Bytes) (g : GoReq) (n : Bytes) :
    outValues (writeRequest hop auth g) n =
      vals [(bs "host", [g.host])] n ++ vals (uaPiece g.header) n ++ vals (connPiece g) n ++
        vals (framingPiece g) n ++
        vals (lowerFields (g.header.filter fun e => !writerExcluded.contains e.1)) n ++
        (vals (gzipPiece g) n ++ vals (proxyAuthPiece hop auth g) n) := by
  unfold outValues
  rw [writeRequest_fields, vals_mergeFields]
  simp only [vals_append]

theorem vals_of_names {a : List (Bytes × List Bytes)} {n : Bytes} (h : ∀ e ∈ a, e.1 ≠ n) :
    vals a n = [] := by
  apply vals_of_not_mem
  intro hm
  obtain ⟨e, he, hk⟩ := List.mem_map.mp hm
  exact h e he hk

theorem vals_single_ne {m n : Bytes} (vs : List Bytes) (h : m ≠ n) : vals [(m, vs)] n = [] :=
  vals_of_names (by intro e he; simp only [List.mem_singleton] at he; subst he; exact h)

theorem vals_single_self (m : Bytes) (vs : List Bytes) : vals [(m, vs)] m = vs := by
  simp [vals]

theorem vals_uaPiece_ne (h : HMap) {n : Bytes} (hn : n ≠ bs "user-agent") :
    vals (uaPiece h) n = [] := by
  unfold uaPiece
  split
  · split
    · rfl
    · exact vals_single_ne _ (Ne.symm hn)
  · rfl

theorem vals_connPiece_ne (g : GoReq) {n : Bytes} (hn : n ≠ bs "connection") :
    vals (connPiece g) n = [] := by
  unfold connPiece
  split
  · exact vals_single_ne _ (Ne.symm hn)
  · rfl

theorem vals_framingPiece_ne (g : GoReq) {n : Bytes} (h1 : n ≠ bs "transfer-encoding")
    (h2 : n ≠ bs "trailer") (h3 : n ≠ bs "content-length") : vals (framingPiece g) n = [] := by
  unfold framingPiece
  split
  · rw [vals_append, vals_single_ne _ (Ne.symm h1)]
    split
    · rfl
    · exact vals_single_ne _ (Ne.symm h2)
  · split
    · exact vals_single_ne _ (Ne.symm h3)
    · rfl

theorem vals_gzipPiece_ne (g : GoReq) {n : Bytes} (hn : n ≠ bs "accept-encoding") :
    vals (gzipPiece g) n = [] := by
  unfold gzipPiece
  split
  · exact vals_single_ne _ (Ne.symm hn)
  · rfl

theorem vals_proxyAuthPiece_ne (hop : Hop) (auth : Option Bytes) (g : GoReq) {n : Bytes}
    (hn : n ≠ bs "proxy-authorization") : vals (proxyAuthPiece hop auth g) n = [] := by
  unfold proxyAuthPiece
  split
  all_goals first
    | (split
       · exact vals_single_ne _ (Ne.symm hn)
       · rfl)
    | rfl

theorem writerExcluded_lower : ∀ k ∈ writerExcluded, lower k ∈ writerNames := by decide +kernel

/-- a name the writer does not produce itself: its values are those in the header map -/
theorem outValues_writeRequest_other (hop : Hop) (auth : Option Bytes) {g : GoReq}
    (hi : Inv g.header) {n : Bytes} (hn : n.all isTokenByte = true) (hl : lower n = n)
    (hw : n ∉ writerNames) :
    outValues (writeRequest hop auth g) n = hget g.header (canonicalKey n) := by
  have ne : ∀ m ∈ writerNames, n ≠ m := fun m hm h => hw (h ▸ hm)
  rw [outValues_writeRequest,
    vals_single_ne _ (Ne.symm (ne _ (by decide +kernel))),
    vals_uaPiece_ne _ (ne _ (by decide +kernel)),
    vals_connPiece_ne _ (ne _ (by decide +kernel)),
    vals_framingPiece_ne _ (ne _ (by decide +kernel)) (ne _ (by decide +kernel))
      (ne _ (by decide +kernel)),
    vals_gzipPiece_ne _ (ne _ (by decide +kernel)),
    vals_proxyAuthPiece_ne _ _ _ (ne _ (by decide +kernel)),
    vals_lowerFields_filter hi _ hn hl]
  · simp
  · intro e _ hk
    have : ¬ canonicalKey n ∈ writerExcluded := fun hm =>
      hw (by
        have := writerExcluded_lower _ hm
        rwa [lower_canonicalKey, hl] at this)
    rw [hk]
    simpa using this

/-- Host: exactly the request's host; a `Host` entry of the map is never copied -/
theorem outValues_writeRequest_host (hop : Hop) (auth : Option Bytes) {g : GoReq}
    (hi : Inv g.header) : outValues (writeRequest hop auth g) (bs "host") = [g.host] := by
  rw [outValues_writeRequest, vals_single_self,
    vals_uaPiece_ne _ (by decide +kernel), vals_connPiece_ne _ (by decide +kernel),
    vals_framingPiece_ne _ (by decide +kernel) (by decide +kernel) (by decide +kernel),
    vals_gzipPiece_ne _ (by decide +kernel), vals_proxyAuthPiece_ne _ _ _ (by decide +kernel),
    vals_lowerFields_filter_excluded hi _ (by decide +kernel) (by decide +kernel)]
  · simp
  · intro e _ hk
    rw [hk]
    decide +kernel

/-- User-Agent: only what the writer derives from the first value -/
theorem outValues_writeRequest_ua (hop : Hop) (auth : Option Bytes) {g : GoReq}
    (hi : Inv g.header) :
    outValues (writeRequest hop auth g) (bs "user-agent") =
      vals (uaPiece g.header) (bs "user-agent") := by
  rw [outValues_writeRequest, vals_single_ne _ (by decide +kernel),
    vals_connPiece_ne _ (by decide +kernel),
    vals_framingPiece_ne _ (by decide +kernel) (by decide +kernel) (by decide +kernel),
    vals_gzipPiece_ne _ (by decide +kernel), vals_proxyAuthPiece_ne _ _ _ (by decide +kernel),
    vals_lowerFields_filter_excluded hi _ (by decide +kernel) (by decide +kernel)]
  · simp
  · intro e _ hk
    rw [hk]
    decide +kernel

/-- Connection: the writer's own `close`, then what the map holds -/
theorem outValues_writeRequest_conn (hop : Hop) (auth : Option Bytes) {g : GoReq}
    (hi : Inv g.header) :
    outValues (writeRequest hop auth g) (bs "connection") =
      vals (connPiece g) (bs "connection") ++ hget g.header (bs "Connection") := by
  rw [outValues_writeRequest, vals_single_ne _ (by decide +kernel),
    vals_uaPiece_ne _ (by decide +kernel),
    vals_framingPiece_ne _ (by decide +kernel) (by decide +kernel) (by decide +kernel),
    vals_gzipPiece_ne _ (by decide +kernel), vals_proxyAuthPiece_ne _ _ _ (by decide +kernel),
    vals_lowerFields_filter hi _ (n := bs "connection") (by decide +kernel) (by decide +kernel),
    ck_connection]
  · simp
  · intro e _ hk
    rw [hk]
    decide +kernel

theorem ck_accept_encoding : canonicalKey (bs "accept-encoding") = bs "Accept-Encoding" := by
  decide +kernel

/-- Accept-Encoding: what the map holds, then the transport's own `gzip` -/
theorem outValues_writeRequest_ae (hop : Hop) (auth : Option Bytes) {g : GoReq}
    (hi : Inv g.header) :
    outValues (writeRequest hop auth g) (bs "accept-encoding") =
      hget g.header (bs "Accept-Encoding") ++ vals (gzipPiece g) (bs "accept-encoding") := by
  rw [outValues_writeRequest, vals_single_ne _ (by decide +kernel),
    vals_uaPiece_ne _ (by decide +kernel), vals_connPiece_ne _ (by decide +kernel),
    vals_framingPiece_ne _ (by decide +kernel) (by decide +kernel) (by decide +kernel),
    vals_proxyAuthPiece_ne _ _ _ (by decide +kernel),
    vals_lowerFields_filter hi _ (n := bs "accept-encoding") (by decide +kernel) (by decide +kernel),
    ck_accept_encoding]
  · simp
  · intro e _ hk
    rw [hk]
    decide +kernel

end Req
end FwdVerif
