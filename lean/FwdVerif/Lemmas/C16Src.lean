/-
  C16 — helper lemmas for the arrival of rule lists (`Model/C16Src.lean`): the CSV reader on a record
  written by `csvEncode`.
-/
import FwdVerif.Model.C16Src

namespace FwdVerif
namespace C16

/-- no CR, no LF -/
def NoLineBreak (f : Bytes) : Prop := (13 : UInt8) ∉ f ∧ (10 : UInt8) ∉ f

/-! ### normalisation and blank-line skipping leave a text without line breaks alone -/

theorem csvNorm_id {s : Bytes} (h : (13 : UInt8) ∉ s) : csvNorm false s = s := by
  induction s with
  | nil => rfl
  | cons c s ih =>
    have hc : c ≠ 13 := fun e => h (by simp [e])
    have hs : (13 : UInt8) ∉ s := fun m => h (List.mem_cons_of_mem _ m)
    by_cases h10 : c = 10
    · subst h10; simp [csvNorm, ih hs]
    · simp [csvNorm, hc, h10, ih hs]

theorem dropWhile_lf_id {s : Bytes} (h : (10 : UInt8) ∉ s) : s.dropWhile (fun c => c == 10) = s := by
  cases s with
  | nil => rfl
  | cons c s =>
    have hc : (c == 10) = false := by
      have : c ≠ 10 := fun e => h (by simp [e])
      simp [this]
    simp [List.dropWhile, hc]

theorem csvRecord_of_line {s : Bytes} (hne : s ≠ []) (hcr : (13 : UInt8) ∉ s) (hlf : (10 : UInt8) ∉ s) :
    csvRecord s = csvFields .start [] s := by
  unfold csvRecord
  rw [csvNorm_id hcr, dropWhile_lf_id hlf]
  cases s with
  | nil => exact absurd rfl hne
  | cons c s => rfl

/-! ### the bytes of an encoded record -/

theorem mem_csvEscape {c : UInt8} {f : Bytes} (h : c ∈ csvEscape f) : c = 34 ∨ c ∈ f := by
  induction f with
  | nil => simp [csvEscape] at h
  | cons d f ih =>
    unfold csvEscape at h
    split at h
    · rename_i hd
      simp only [List.mem_cons] at h
      rcases h with h | h | h
      · exact .inl h
      · exact .inl h
      · rcases ih h with h | h
        · exact .inl h
        · exact .inr (List.mem_cons_of_mem _ h)
    · simp only [List.mem_cons] at h
      rcases h with h | h
      · exact .inr (by simp [h])
      · rcases ih h with h | h
        · exact .inl h
        · exact .inr (List.mem_cons_of_mem _ h)

theorem mem_csvField {force : Bytes → Bool} {c : UInt8} {f : Bytes} (h : c ∈ csvField force f) :
    c = 34 ∨ c ∈ f := by
  unfold csvField at h
  split at h
  · simp only [csvQuote, List.mem_cons, List.mem_append, List.not_mem_nil, or_false] at h
    rcases h with h | h | h
    · exact .inl h
    · exact mem_csvEscape h
    · exact .inl h
  · exact .inr h

theorem mem_csvEncode {force : Bytes → Bool} {c : UInt8} :
    ∀ {fs : List Bytes}, c ∈ csvEncode force fs → c = 34 ∨ c = 44 ∨ ∃ f ∈ fs, c ∈ f
  | [], h => by simp [csvEncode] at h
  | [f], h => by
    rcases mem_csvField (by simpa [csvEncode] using h) with h | h
    · exact .inl h
    · exact .inr (.inr ⟨f, by simp, h⟩)
  | f :: g :: fs, h => by
    simp only [csvEncode, List.mem_append, List.mem_cons] at h
    rcases h with h | h | h
    · rcases mem_csvField h with h | h
      · exact .inl h
      · exact .inr (.inr ⟨f, by simp, h⟩)
    · exact .inr (.inl h)
    · rcases mem_csvEncode h with h | h | ⟨x, hx, hc⟩
      · exact .inl h
      · exact .inr (.inl h)
      · exact .inr (.inr ⟨x, List.mem_cons_of_mem _ hx, hc⟩)

theorem csvField_ne_nil (force : Bytes → Bool) (f : Bytes) : csvField force f ≠ [] := by
  unfold csvField
  split
  · simp [csvQuote]
  · rename_i h
    intro e
    subst e
    simp [csvNeedsQuote] at h

theorem csvEncode_ne_nil (force : Bytes → Bool) : ∀ {fs : List Bytes}, fs ≠ [] → csvEncode force fs ≠ []
  | [], h => absurd rfl h
  | [f], _ => by simpa [csvEncode] using csvField_ne_nil force f
  | f :: g :: fs, _ => by
    have := csvField_ne_nil force f
    simp [csvEncode, this]

/-! ### the field loop on one written field -/

/-- what the reader does after a complete field `f` when `tail` follows: end of input ends the
    record, a comma starts the next field -/
def afterField (f : Bytes) : Bytes → Except CsvErr (List Bytes)
  | [] => .ok [f]
  | _ :: t => consField f (csvFields .start [] t)

/-- `tail` is empty or starts with a comma -/
def FieldEnd (tail : Bytes) : Prop := tail = [] ∨ ∃ t, tail = 44 :: t

theorem csvFields_quoted_run (f acc rest : Bytes) :
    csvFields .quoted acc (csvEscape f ++ 34 :: rest) = csvFields .qq (acc ++ f) rest := by
  induction f generalizing acc with
  | nil => simp [csvEscape, csvFields]
  | cons c f ih =>
    by_cases hc : c = 34
    · subst hc
      simp [csvEscape, csvFields, ih]
    · simp [csvEscape, csvFields, hc, ih]

theorem csvFields_qq_end (f : Bytes) {tail : Bytes} (h : FieldEnd tail) :
    csvFields .qq f tail = afterField f tail := by
  rcases h with h | ⟨t, h⟩
  · subst h; simp [csvFields, afterField]
  · subst h; simp [csvFields, afterField]

theorem csvFields_unq_run (f acc rest : Bytes)
    (h : ∀ c ∈ f, c ≠ 44 ∧ c ≠ 34 ∧ c ≠ 10) :
    csvFields .unq acc (f ++ rest) = csvFields .unq (acc ++ f) rest := by
  induction f generalizing acc with
  | nil => simp
  | cons c f ih =>
    obtain ⟨h1, h2, h3⟩ := h c (by simp)
    have ih' := ih (acc ++ [c]) (fun d hd => h d (List.mem_cons_of_mem _ hd))
    simp only [List.cons_append]
    rw [csvFields]
    simp [h1, h2, h3, ih']

theorem csvFields_unq_end (f : Bytes) {tail : Bytes} (h : FieldEnd tail) :
    csvFields .unq f tail = afterField f tail := by
  rcases h with h | ⟨t, h⟩
  · subst h; simp [csvFields, afterField]
  · subst h; simp [csvFields, afterField]

/-- one written field, quoted or not, is read back as it was -/
theorem csvFields_field (force : Bytes → Bool) (f : Bytes) (hlf : (10 : UInt8) ∉ f) {tail : Bytes}
    (ht : FieldEnd tail) :
    csvFields .start [] (csvField force f ++ tail) = afterField f tail := by
  unfold csvField
  split
  · -- quoted
    have := csvFields_quoted_run f [] tail
    simp only [List.nil_append] at this
    simp [csvQuote, csvFields, this, csvFields_qq_end _ ht]
  · -- as it stands: not empty, no comma, no quote
    rename_i hq
    simp only [Bool.or_eq_true, not_or, Bool.not_eq_true] at hq
    have hnq : csvNeedsQuote f = false := hq.2
    cases f with
    | nil => simp [csvNeedsQuote] at hnq
    | cons c f =>
      have hall : ∀ d ∈ c :: f, d ≠ 44 ∧ d ≠ 34 ∧ d ≠ 10 := by
        intro d hd
        simp only [csvNeedsQuote, List.isEmpty_cons, Bool.false_or, List.any_eq_false,
          Bool.or_eq_true, beq_iff_eq, not_or] at hnq
        exact ⟨(hnq d hd).1, (hnq d hd).2, fun e => hlf (e ▸ hd)⟩
      obtain ⟨h1, h2, h3⟩ := hall c (by simp)
      simp only [List.cons_append]
      rw [csvFields]
      simp only [beq_iff_eq, h2, h1, h3, if_false]
      rw [csvFields_unq_run f [c] tail (fun d hd => hall d (List.mem_cons_of_mem _ hd)),
        csvFields_unq_end _ ht]
      simp

theorem csvFields_encode (force : Bytes → Bool) :
    ∀ {fs : List Bytes}, fs ≠ [] → (∀ f ∈ fs, (10 : UInt8) ∉ f) →
      csvFields .start [] (csvEncode force fs) = .ok fs
  | [], h, _ => absurd rfl h
  | [f], _, hl => by
    have := csvFields_field force f (hl f (by simp)) (tail := []) (.inl rfl)
    simpa [csvEncode, afterField] using this
  | f :: g :: fs, _, hl => by
    have h1 := csvFields_field force f (hl f (by simp)) (tail := 44 :: csvEncode force (g :: fs))
      (.inr ⟨_, rfl⟩)
    have h2 := csvFields_encode force (fs := g :: fs) (by simp)
      (fun x hx => hl x (List.mem_cons_of_mem _ hx))
    simp only [csvEncode]
    rw [h1]
    simp [afterField, h2, consField]

/-- a list of texts without line breaks written as one CSV record is read back as that list -/
theorem csvRecord_encode (force : Bytes → Bool) {fs : List Bytes} (hne : fs ≠ [])
    (hl : ∀ f ∈ fs, NoLineBreak f) : csvRecord (csvEncode force fs) = .ok fs := by
  have hcr : (13 : UInt8) ∉ csvEncode force fs := by
    intro m
    rcases mem_csvEncode m with h | h | ⟨f, hf, hc⟩
    · exact absurd h (by decide)
    · exact absurd h (by decide)
    · exact (hl f hf).1 hc
  have hlf : (10 : UInt8) ∉ csvEncode force fs := by
    intro m
    rcases mem_csvEncode m with h | h | ⟨f, hf, hc⟩
    · exact absurd h (by decide)
    · exact absurd h (by decide)
    · exact (hl f hf).2 hc
  rw [csvRecord_of_line (csvEncode_ne_nil force hne) hcr hlf]
  exact csvFields_encode force hne (fun f hf => (hl f hf).2)

/-- every value of a flag given on its own, each a record of one field -/
theorem setAll_singletons (force : Bytes → Bool) :
    ∀ {fs : List Bytes}, (∀ f ∈ fs, NoLineBreak f) →
      setAll (fs.map (fun f => csvEncode force [f])) = .ok fs
  | [], _ => rfl
  | f :: fs, hl => by
    have h1 : csvRecord (csvEncode force [f]) = .ok [f] :=
      csvRecord_encode force (by simp) (fun x hx => by
        have : x = f := by simpa using hx
        exact this ▸ hl f (by simp))
    have h2 := setAll_singletons force (fs := fs) (fun x hx => hl x (List.mem_cons_of_mem _ hx))
    simp only [List.map_cons, setAll, h1, h2]
    rfl

theorem mapM_parse_length : ∀ {xs : List Bytes} {rs : List Rule}, xs.mapM parseRule = some rs →
    rs.length = xs.length
  | [], rs, h => by
    have : rs = [] := by simpa using h.symm
    simp [this]
  | x :: xs, rs, h => by
    simp only [List.mapM_cons] at h
    cases hx : parseRule x with
    | none => simp [hx] at h
    | some r =>
      cases hxs : xs.mapM parseRule with
      | none => simp [hx, hxs] at h
      | some rs' =>
        simp [hx, hxs] at h
        subst h
        simp [mapM_parse_length hxs]

end C16
end FwdVerif
