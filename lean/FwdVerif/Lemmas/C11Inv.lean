/-
  C11 — helper lemmas (part 3): `Inv` holds in every reachable state.
-/
import FwdVerif.Lemmas.C11

namespace FwdVerif
namespace C11

theorem no_holder_of_lock {s : State} (hi : Inv s) (h : ∀ c, s.lock ≠ .conn c) :
    ∀ c, holdsLock (s.conns c).pc = false := by
  intro c
  cases hh : holdsLock (s.conns c).pc with
  | false => rfl
  | true => exact absurd ((hi.lockConn c).mp hh) (h c)

theorem uncounted_of_absent {s : State} (hi : Inv s) {c : ConnId} (h : c ∉ s.ids) :
    counted (s.conns c).pc = false := by
  rw [hi.absent c h]; rfl

theorem all_uncounted_of_counter_zero {s : State} (hi : Inv s) (h : s.counter = 0) :
    ∀ c, counted (s.conns c).pc = false := by
  intro c
  by_cases hc : c ∈ s.ids
  · exact cnt_zero (by rw [← hi.counter]; exact h) c hc
  · exact uncounted_of_absent hi hc

theorem ctxDone_isSome (x : SCall) (w : Why) : (ctxDone x w).done.isSome = true := by
  unfold ctxDone; split <;> simp

/-- the record of a call changes in its context only, and the context stays done if it was -/
theorem inv_shut_ctx {s : State} {k : CallId} {x : SCall} (hi : Inv s) (hpc : x.pc = (s.shuts k).pc)
    (hd : x.done.isSome = true) : Inv (setShut s k x) := by
  have key : ∀ j, ((setShut s k x).shuts j).pc = (s.shuts j).pc := by
    intro j; simp only [setShut]; split
    · rename_i hj; rw [hj, hpc]
    · rfl
  obtain ⟨h1, h2, h3, h4, h5, h6, h7, h8, h9, h10, h11, h12, h13, h14, h15, h16⟩ := hi
  refine ⟨h1, h2, h3, h4, ?_, h6, ?_, h8, h9, h10, h11, ?_, ?_, ?_, h15, h16⟩
  · intro j; rw [key j]; exact h5 j
  · intro j; rw [key j]; exact h7 j
  · intro j; rw [key j]; exact h12 j
  · intro j; rw [key j]; exact h13 j
  · intro j hj
    rw [key j] at hj
    have := h14 j hj
    simp only [setShut]
    split
    · exact hd
    · exact this

/-- the clauses of call `k` of Shutdown after one of its steps, from its clauses before -/
macro "sinv_auto " hi:ident k:ident : tactic =>
  `(tactic| (obtain ⟨a1, a2, a3, a4, a5⟩ := Inv.sinv $hi $k
             constructor <;> simp_all [shutHolds, shutClosed]))

/-- the clauses of call `k` of Close after one of its steps, from its clauses before -/
macro "cinv_auto " hi:ident k:ident : tactic =>
  `(tactic| (obtain ⟨a1, a2, a3, a4⟩ := Inv.cinv $hi $k
             constructor <;> simp_all [closeHolds, closeClosed, closeSwept]))

theorem inv_step {s s' : State} (a : Action) (hi : Inv s) (h : step s a = some s') : Inv s' := by
  cases a with
  | conn c a => exact inv_conn hi h
  | connect c tls =>
    simp only [step] at h
    split at h
    · rename_i hg
      cases h
      exact inv_new hi hg.1 (Or.inl rfl) (fun cl => by constructor <;> simp [preReg, pastDec])
    · simp at h
  | connectRefused c =>
    simp only [step] at h
    split at h
    · rename_i hg
      cases h
      exact inv_new hi hg.1 (Or.inr rfl) (fun cl => by constructor <;> simp [preReg, pastDec])
    · simp at h
  | hello c =>
    simp only [step] at h
    split at h
    · rename_i hg; cases h
      have hl := hi.loc c
      exact inv_setConn hi hg rfl rfl id (by obtain ⟨h1, h2, h3, h4, h5, h6, h7⟩ := hl; constructor <;> simp_all)
    · simp at h
  | sendPartial c =>
    simp only [step] at h
    split at h
    · rename_i hg; cases h
      have hl := hi.loc c
      exact inv_setConn hi hg rfl rfl id (by obtain ⟨h1, h2, h3, h4, h5, h6, h7⟩ := hl; constructor <;> simp_all)
    · simp at h
  | send c r =>
    simp only [step] at h
    split at h
    · rename_i hg; cases h
      have hl := hi.loc c
      exact inv_setConn hi hg rfl rfl id (by obtain ⟨h1, h2, h3, h4, h5, h6, h7⟩ := hl; constructor <;> simp_all)
    · simp at h
  | gone c =>
    simp only [step] at h
    split at h
    · rename_i hg; cases h
      have hl := hi.loc c
      exact inv_setConn hi hg rfl rfl id (by obtain ⟨h1, h2, h3, h4, h5, h6, h7⟩ := hl; constructor <;> simp_all)
    · simp at h
  | originSeen c =>
    simp only [step] at h
    split at h
    · rename_i hg; cases h
      have hl := hi.loc c
      by_cases hc : c ∈ s.ids
      · exact inv_setConn hi hc rfl rfl id (by obtain ⟨h1, h2, h3, h4, h5, h6, h7⟩ := hl; constructor <;> simp_all)
      · rw [hi.absent c hc] at hg
        simp at hg
    · simp at h
  | originAnswer c =>
    simp only [step] at h
    split at h
    · rename_i hg; cases h
      have hl := hi.loc c
      have hc : c ∈ s.ids := mem_ids_of_pc hi (by rw [hg]; simp)
      exact inv_setConn hi hc rfl rfl id (by obtain ⟨h1, h2, h3, h4, h5, h6, h7⟩ := hl; constructor <;> simp_all)
    · simp at h
  | originEnd c =>
    simp only [step] at h
    split at h
    · rename_i hg; cases h
      have hl := hi.loc c
      exact inv_setConn hi hg rfl rfl id (by obtain ⟨h1, h2, h3, h4, h5, h6, h7⟩ := hl; constructor <;> simp_all)
    · simp at h
  | respSeen c cl =>
    simp only [step] at h
    split at h
    · split at h
      · cases h
        have hl := hi.loc c
        by_cases hc : c ∈ s.ids
        · exact inv_setConn hi hc rfl rfl id (by obtain ⟨h1, h2, h3, h4, h5, h6, h7⟩ := hl; constructor <;> simp_all)
        · rename_i hu _
          rw [hi.absent c hc] at hu
          simp at hu
      · simp at h
    · simp at h
  | echoSeen c =>
    simp only [step] at h
    split at h
    · rename_i hg; cases h
      have hl := hi.loc c
      by_cases hc : c ∈ s.ids
      · exact inv_setConn hi hc rfl rfl id (by obtain ⟨h1, h2, h3, h4, h5, h6, h7⟩ := hl; constructor <;> simp_all)
      · rw [hi.absent c hc] at hg
        simp at hg
    · simp at h
  | closedSeen c =>
    simp only [step] at h
    split at h
    · cases h; exact hi
    · simp at h
  | listenerClose =>
    simp only [step] at h
    cases h
    split
    · exact inv_closeListener hi
    · exact hi
  | shutdownCall k nl cb =>
    simp only [step] at h
    split at h
    · rename_i hg; cases h
      exact inv_ghost (inv_shutStep (l := s.lock) (cl := s.closing) hi (Or.inl rfl) (Or.inl rfl)
        (by sinv_auto hi k)) s.runShut s.runClose true s.everClosed
    · simp at h
  | shutdownRet k r =>
    simp only [step] at h
    split at h
    · split at h
      · cases h; exact hi
      · simp at h
    · split at h
      · cases h; exact hi
      · simp at h
  | closeCall k =>
    simp only [step] at h
    split at h
    · rename_i hg; cases h
      exact inv_ghost (inv_closeStep (l := s.lock) (cl := s.closing) (sw := s.sweepLeft) hi (Or.inl rfl) (Or.inl rfl)
        (Or.inl rfl) (by cinv_auto hi k)) s.runShut s.runClose true s.everClosed
    · simp at h
  | closeRet k =>
    simp only [step] at h
    split at h
    · cases h; exact hi
    · simp at h
  | ctxExpire k =>
    simp only [step] at h
    split at h
    · rename_i hg; cases h
      exact inv_shut_ctx hi rfl (ctxDone_isSome (s.shuts k) .deadline)
    · simp at h
  | ctxCancel k =>
    simp only [step] at h
    split at h
    · rename_i hg; cases h
      exact inv_shut_ctx hi rfl (ctxDone_isSome (s.shuts k) .cancel)
    · simp at h
  | sig n k =>
    simp only [step] at h
    split at h
    · rename_i hg; cases h
      exact inv_shut_ctx hi rfl (ctxDone_isSome (s.shuts k) .cancel)
    · cases h; exact hi
  | cancel =>
    simp only [step] at h
    split at h
    · cases h; exact inv_irrelevant hi s.listenerOpen s.serve .cancelled
    · simp at h
  | runRet =>
    simp only [step] at h
    split at h
    · cases h; exact hi
    · simp at h
  | serveCheck =>
    simp only [step] at h
    split at h
    · cases h
      split
      · exact inv_closeListener hi
      · exact inv_irrelevant hi s.listenerOpen .accepting s.runner
    · simp at h
  | accept c =>
    simp only [step] at h
    split at h
    · rename_i hg; cases h
      have hl := hi.loc c
      have hc : c ∈ s.ids := mem_ids_of_pc hi (by rw [hg.2.2]; simp)
      have : Inv { s with conns := fun d => if d = c then { s.conns c with pc := .accepted } else s.conns d } := by
        apply inv_conns hi
        · intro d
          by_cases hd : d = c
          · subst hd
            simp only [if_true, hg.2.2]
            refine ⟨by simp [counted], by simp [holdsLock], by simp [inMap, counted], by simp [preReg], trivial,
              (by intro hsd; rcases hsd with h | h
                  · exact Or.inl h
                  · rw [hg.2.2] at h; cases h), ?_⟩
            obtain ⟨h1, h2, h3, h4, h5, h6, h7⟩ := hl
            have := hg.2.2
            constructor <;> simp_all [preReg, noService, dropPath, pastDec]
          · simp [hd, hi.loc d]
        · intro d hd
          have : d ≠ c := fun h => hd (h ▸ hc)
          simp [this, hi.absent d hd]
      exact inv_irrelevant this s.listenerOpen .checking s.runner
    · simp at h
  | shutLock k =>
    simp only [step] at h
    split at h
    · rename_i hg; cases h
      exact inv_shutStep (cl := s.closing) hi (Or.inr (Or.inl ⟨hg.2, rfl⟩)) (Or.inl rfl) (by sinv_auto hi k)
    · simp at h
  | shutCloseCh k =>
    simp only [step] at h
    split at h
    · rename_i hg; cases h
      exact inv_shutStep (l := s.lock) hi (Or.inl rfl) (Or.inr rfl) (by sinv_auto hi k)
    · simp at h
  | shutPoll k =>
    simp only [step] at h
    split at h
    · rename_i hg; cases h
      by_cases h0 : s.counter = 0
      · have hun := all_uncounted_of_counter_zero hi h0
        exact inv_shutStep (l := s.lock) (cl := s.closing) hi (Or.inl rfl) (Or.inl rfl) (by sinv_auto hi k)
      · exact inv_shutStep (l := s.lock) (cl := s.closing) hi (Or.inl rfl) (Or.inl rfl) (by sinv_auto hi k)
    · simp at h
  | shutTimer k =>
    simp only [step] at h
    split at h
    · rename_i hg; cases h
      exact inv_shutStep (l := s.lock) (cl := s.closing) hi (Or.inl rfl) (Or.inl rfl) (by sinv_auto hi k)
    · simp at h
  | shutCtx k =>
    simp only [step] at h
    split at h
    · rename_i hg; cases h
      exact inv_shutStep (l := s.lock) (cl := s.closing) hi (Or.inl rfl) (Or.inl rfl) (by sinv_auto hi k)
    · simp at h
  | shutUnlock k =>
    simp only [step] at h
    split at h
    · rename_i hg; cases h
      have hlk : s.lock = .shutdown k := (hi.lockShut k).mpr (by simp [hg, shutHolds])
      exact inv_shutStep (cl := s.closing) hi (Or.inr (Or.inr ⟨hlk, rfl⟩)) (Or.inl rfl) (by sinv_auto hi k)
    · split at h
      · rename_i hg; cases h
        have hlk : s.lock = .shutdown k := (hi.lockShut k).mpr (by simp [hg, shutHolds])
        exact inv_shutStep (cl := s.closing) hi (Or.inr (Or.inr ⟨hlk, rfl⟩)) (Or.inl rfl) (by sinv_auto hi k)
      · simp at h
  | closeLock k =>
    simp only [step] at h
    split at h
    · rename_i hg; cases h
      exact inv_closeStep (cl := s.closing) (sw := s.sweepLeft) hi (Or.inr (Or.inl ⟨hg.2, rfl⟩)) (Or.inl rfl)
        (Or.inl rfl) (by cinv_auto hi k)
    · simp at h
  | closeCloseCh k =>
    simp only [step] at h
    split at h
    · rename_i hg; cases h
      have hlk : s.lock = .closer k := (hi.lockClose k).mpr (by simp [hg, closeHolds])
      exact inv_ghost (inv_closeStep (l := s.lock) (sw := s.registered) hi (Or.inl rfl) (Or.inr rfl) (Or.inr hlk)
        (by cinv_auto hi k)) s.runShut s.runClose s.api true
    · simp at h
  | closeConn k c =>
    simp only [step] at h
    split at h
    · rename_i hg; cases h
      have hl := hi.loc c
      have hi' : Inv (setConn s c (sweepClose (s.conns c))) :=
        inv_setConn hi hg.2.2 rfl rfl (fun hsc => by simp [sweepClose, hsc])
          (by obtain ⟨h1, h2, h3, h4, h5, h6, h7⟩ := hl; constructor <;> simp_all [sweepClose])
      obtain ⟨h1, h2, h3, h4, h5, h6, h7, h8, h9, h10, h11, h12, h13, h14, h15, h16⟩ := hi'
      refine ⟨h1, h2, h3, h4, h5, h6, h7, h8, h9, h10, h11, h12, h13, h14, h15, ?_⟩
      intro j hs d hd
      show d ∈ s.sweepLeft.erase c ∨ _
      by_cases hdc : d = c
      · subst hdc; right; simpa [setConn] using sockDone_sweepClose (s.conns d)
      · rcases h16 j hs d hd with h | h
        · exact Or.inl ((List.mem_erase_of_ne hdc).mpr h)
        · exact Or.inr h
    · simp at h
  | closeAll k =>
    simp only [step] at h
    split at h
    · rename_i hg; cases h
      have hreg := hi.reg
      have hlocs := hi.loc
      have hsw := hi.sweep k hg.1
      have hall : ∀ c, preReg (s.conns c).pc = false → sockDone (s.conns c) := by
        intro c hc
        by_cases hr : c ∈ s.registered
        · rcases hsw c hr with h | h
          · rw [hg.2] at h; cases h
          · exact h
        · apply Or.inl
          apply (hlocs c).closed
          have hm : inMap (s.conns c).pc = false := by
            cases hh : inMap (s.conns c).pc with
            | false => rfl
            | true => exact absurd ((hreg c).mpr hh) hr
          revert hm hc
          cases (s.conns c).pc <;> simp [inMap, counted, preReg, pastDec]
      exact inv_closeStep (l := s.lock) (cl := s.closing) (sw := s.sweepLeft) hi (Or.inl rfl) (Or.inl rfl)
        (Or.inl rfl) (by cinv_auto hi k)
    · simp at h
  | closeUnlock k =>
    simp only [step] at h
    split at h
    · rename_i hg; cases h
      have hlk : s.lock = .closer k := (hi.lockClose k).mpr (by simp [hg, closeHolds])
      exact inv_closeStep (cl := s.closing) (sw := s.sweepLeft) hi (Or.inr (Or.inr ⟨hlk, rfl⟩)) (Or.inl rfl)
        (Or.inl rfl) (by cinv_auto hi k)
    · simp at h
  | runCloseListeners =>
    simp only [step] at h
    split at h
    · cases h
      split
      · exact inv_irrelevant (inv_closeListener hi) _ _ _
      · exact inv_irrelevant hi _ _ _
    · simp at h
  | runShutdown k =>
    simp only [step] at h
    split at h
    · rename_i hg; cases h
      exact inv_irrelevant (inv_ghost (inv_shutStep (l := s.lock) (cl := s.closing) hi (Or.inl rfl) (Or.inl rfl)
        (by sinv_auto hi k)) k s.runClose s.api s.everClosed) s.listenerOpen s.serve .inShutdown
    · simp at h
  | runAfterShutdown k =>
    simp only [step] at h
    split at h
    · cases h; exact inv_irrelevant hi _ _ _
    · split at h
      · rename_i hg; cases h
        exact inv_irrelevant (inv_ghost (inv_closeStep (l := s.lock) (cl := s.closing) (sw := s.sweepLeft) hi
          (Or.inl rfl) (Or.inl rfl) (Or.inl rfl) (by cinv_auto hi k)) s.runShut k s.api s.everClosed)
          s.listenerOpen s.serve .inClose
      · simp at h
  | runAfterClose =>
    simp only [step] at h
    split at h
    · cases h; exact inv_irrelevant hi _ _ _
    · simp at h

theorem inv_reachable {s : State} (h : Reachable s) : Inv s := by
  induction h with
  | start nl sg => exact inv_initCfg nl sg
  | step a _ hs ih => exact inv_step a ih hs

end C11
end FwdVerif
