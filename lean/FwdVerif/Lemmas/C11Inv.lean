/-
  C11 — helper lemmas (part 3): `Inv` holds in every reachable state.
-/
import FwdVerif.Lemmas.C11

namespace FwdVerif
namespace C11

theorem no_holder_of_lock {s : State} (hi : Inv s) (h : ∀ c, s.lock ≠ .conn c) :
    ∀ c, holdsLock (s.conns c).pc = false := by
  intro c
  cases hh : holdsLock (s.conns c).pc with
  | false => rfl
  | true => exact absurd ((hi.lockConn c).mp hh) (h c)

theorem uncounted_of_absent {s : State} (hi : Inv s) {c : ConnId} (h : c ∉ s.ids) :
    counted (s.conns c).pc = false := by
  rw [hi.absent c h]; rfl

theorem all_uncounted_of_counter_zero {s : State} (hi : Inv s) (h : s.counter = 0) :
    ∀ c, counted (s.conns c).pc = false := by
  intro c
  by_cases hc : c ∈ s.ids
  · exact cnt_zero (by rw [← hi.counter]; exact h) c hc
  · exact uncounted_of_absent hi hc

theorem inv_step {s s' : State} (a : Action) (hi : Inv s) (h : step s a = some s') : Inv s' := by
  cases a with
  | conn c a => exact inv_conn hi h
  | connect c tls =>
    simp only [step] at h
    split at h
    · rename_i hg
      cases h
      exact inv_new hi hg.1 (Or.inl rfl) (fun cl => by constructor <;> simp [preReg, pastDec])
    · simp at h
  | connectRefused c =>
    simp only [step] at h
    split at h
    · rename_i hg
      cases h
      exact inv_new hi hg.1 (Or.inr rfl) (fun cl => by constructor <;> simp [preReg, pastDec])
    · simp at h
  | hello c =>
    simp only [step] at h
    split at h
    · rename_i hg; cases h
      have hl := hi.loc c
      exact inv_setConn hi hg rfl rfl id (by obtain ⟨h1, h2, h3, h4, h5, h6, h7⟩ := hl; constructor <;> simp_all)
    · simp at h
  | sendPartial c =>
    simp only [step] at h
    split at h
    · rename_i hg; cases h
      have hl := hi.loc c
      exact inv_setConn hi hg rfl rfl id (by obtain ⟨h1, h2, h3, h4, h5, h6, h7⟩ := hl; constructor <;> simp_all)
    · simp at h
  | send c r =>
    simp only [step] at h
    split at h
    · rename_i hg; cases h
      have hl := hi.loc c
      exact inv_setConn hi hg rfl rfl id (by obtain ⟨h1, h2, h3, h4, h5, h6, h7⟩ := hl; constructor <;> simp_all)
    · simp at h
  | gone c =>
    simp only [step] at h
    split at h
    · rename_i hg; cases h
      have hl := hi.loc c
      exact inv_setConn hi hg rfl rfl id (by obtain ⟨h1, h2, h3, h4, h5, h6, h7⟩ := hl; constructor <;> simp_all)
    · simp at h
  | originSeen c =>
    simp only [step] at h
    split at h
    · rename_i hg; cases h
      have hl := hi.loc c
      by_cases hc : c ∈ s.ids
      · exact inv_setConn hi hc rfl rfl id (by obtain ⟨h1, h2, h3, h4, h5, h6, h7⟩ := hl; constructor <;> simp_all)
      · rw [hi.absent c hc] at hg
        simp at hg
    · simp at h
  | originAnswer c =>
    simp only [step] at h
    split at h
    · rename_i hg; cases h
      have hl := hi.loc c
      have hc : c ∈ s.ids := mem_ids_of_pc hi (by rw [hg]; simp)
      exact inv_setConn hi hc rfl rfl id (by obtain ⟨h1, h2, h3, h4, h5, h6, h7⟩ := hl; constructor <;> simp_all)
    · simp at h
  | originEnd c =>
    simp only [step] at h
    split at h
    · rename_i hg; cases h
      have hl := hi.loc c
      exact inv_setConn hi hg rfl rfl id (by obtain ⟨h1, h2, h3, h4, h5, h6, h7⟩ := hl; constructor <;> simp_all)
    · simp at h
  | respSeen c cl =>
    simp only [step] at h
    split at h
    · split at h
      · cases h
        have hl := hi.loc c
        by_cases hc : c ∈ s.ids
        · exact inv_setConn hi hc rfl rfl id (by obtain ⟨h1, h2, h3, h4, h5, h6, h7⟩ := hl; constructor <;> simp_all)
        · rename_i hu _
          rw [hi.absent c hc] at hu
          simp at hu
      · simp at h
    · simp at h
  | echoSeen c =>
    simp only [step] at h
    split at h
    · rename_i hg; cases h
      have hl := hi.loc c
      by_cases hc : c ∈ s.ids
      · exact inv_setConn hi hc rfl rfl id (by obtain ⟨h1, h2, h3, h4, h5, h6, h7⟩ := hl; constructor <;> simp_all)
      · rw [hi.absent c hc] at hg
        simp at hg
    · simp at h
  | closedSeen c =>
    simp only [step] at h
    split at h
    · cases h; exact hi
    · simp at h
  | listenerClose =>
    simp only [step] at h
    cases h
    split
    · exact inv_closeListener hi
    · exact hi
  | shutdownCall =>
    simp only [step] at h
    split at h
    · rename_i hg; cases h
      obtain ⟨h1, h2, h3, h4, h5, h6, h7, h8, h9, h10, h11, h12, h13, h14, h15⟩ := hi
      constructor <;> simp_all [shutHolds, shutClosed]
    · simp at h
  | shutdownRet n =>
    simp only [step] at h
    split at h
    · cases h; exact hi
    · simp at h
  | closeCall =>
    simp only [step] at h
    split at h
    · rename_i hg; cases h
      obtain ⟨h1, h2, h3, h4, h5, h6, h7, h8, h9, h10, h11, h12, h13, h14, h15⟩ := hi
      constructor <;> simp_all [closeHolds, closeClosed, closeSwept]
    · simp at h
  | closeRet =>
    simp only [step] at h
    split at h
    · cases h; exact hi
    · simp at h
  | ctxExpire =>
    simp only [step] at h
    split at h
    · simp at h
    · cases h
      obtain ⟨h1, h2, h3, h4, h5, h6, h7, h8, h9, h10, h11, h12, h13, h14, h15⟩ := hi
      constructor <;> simp_all
  | cancel =>
    simp only [step] at h
    split at h
    · cases h; exact inv_irrelevant hi s.listenerOpen s.serve .cancelled
    · simp at h
  | runRet =>
    simp only [step] at h
    split at h
    · cases h; exact hi
    · simp at h
  | serveCheck =>
    simp only [step] at h
    split at h
    · cases h
      split
      · exact inv_closeListener hi
      · exact inv_irrelevant hi s.listenerOpen .accepting s.runner
    · simp at h
  | accept c =>
    simp only [step] at h
    split at h
    · rename_i hg; cases h
      have hl := hi.loc c
      have hc : c ∈ s.ids := mem_ids_of_pc hi (by rw [hg.2.2]; simp)
      have : Inv { s with conns := fun d => if d = c then { s.conns c with pc := .accepted } else s.conns d } := by
        apply inv_conns hi
        · intro d
          by_cases hd : d = c
          · subst hd
            simp only [if_true, hg.2.2]
            refine ⟨by simp [counted], by simp [holdsLock], by simp [inMap, counted], by simp [preReg], trivial, id, ?_⟩
            obtain ⟨h1, h2, h3, h4, h5, h6, h7⟩ := hl
            have := hg.2.2
            constructor <;> simp_all [preReg, noService, dropPath, pastDec]
          · simp [hd, hi.loc d]
        · intro d hd
          have : d ≠ c := fun h => hd (h ▸ hc)
          simp [this, hi.absent d hd]
      exact inv_irrelevant this s.listenerOpen .checking s.runner
    · simp at h
  | shutLock =>
    simp only [step] at h
    split at h
    · rename_i hg; cases h
      have hno := no_holder_of_lock hi (by rw [hg.2]; intro c; simp)
      obtain ⟨h1, h2, h3, h4, h5, h6, h7, h8, h9, h10, h11, h12, h13, h14, h15⟩ := hi
      constructor <;> simp_all [shutHolds, shutClosed]
    · simp at h
  | shutCloseCh =>
    simp only [step] at h
    split at h
    · rename_i hg; cases h
      have hloc : ∀ c, Local true (s.conns c) := fun c => (hi.loc c).toTrue
      obtain ⟨h1, h2, h3, h4, h5, h6, h7, h8, h9, h10, h11, h12, h13, h14, h15⟩ := hi
      constructor <;> simp_all [shutHolds, shutClosed]
    · simp at h
  | shutPoll =>
    simp only [step] at h
    split at h
    · rename_i hg; cases h
      by_cases h0 : s.counter = 0
      · have hun := all_uncounted_of_counter_zero hi h0
        obtain ⟨h1, h2, h3, h4, h5, h6, h7, h8, h9, h10, h11, h12, h13, h14, h15⟩ := hi
        constructor <;> simp_all [shutHolds, shutClosed]
      · obtain ⟨h1, h2, h3, h4, h5, h6, h7, h8, h9, h10, h11, h12, h13, h14, h15⟩ := hi
        constructor <;> simp_all [shutHolds, shutClosed]
    · simp at h
  | shutTimer =>
    simp only [step] at h
    split at h
    · rename_i hg; cases h
      obtain ⟨h1, h2, h3, h4, h5, h6, h7, h8, h9, h10, h11, h12, h13, h14, h15⟩ := hi
      constructor <;> simp_all [shutHolds, shutClosed]
    · simp at h
  | shutCtx =>
    simp only [step] at h
    split at h
    · rename_i hg; cases h
      obtain ⟨h1, h2, h3, h4, h5, h6, h7, h8, h9, h10, h11, h12, h13, h14, h15⟩ := hi
      constructor <;> simp_all [shutHolds, shutClosed]
    · simp at h
  | shutUnlock =>
    simp only [step] at h
    split at h
    · rename_i hg; cases h
      have hlk : s.lock = .shutdown := hi.lockShut.mpr (by simp [hg, shutHolds])
      have hno := no_holder_of_lock hi (by rw [hlk]; intro c; simp)
      obtain ⟨h1, h2, h3, h4, h5, h6, h7, h8, h9, h10, h11, h12, h13, h14, h15⟩ := hi
      constructor <;> simp_all [shutHolds, shutClosed]
    · split at h
      · rename_i hg; cases h
        have hlk : s.lock = .shutdown := hi.lockShut.mpr (by simp [hg, shutHolds])
        have hno := no_holder_of_lock hi (by rw [hlk]; intro c; simp)
        obtain ⟨h1, h2, h3, h4, h5, h6, h7, h8, h9, h10, h11, h12, h13, h14, h15⟩ := hi
        constructor <;> simp_all [shutHolds, shutClosed]
      · simp at h
  | closeLock =>
    simp only [step] at h
    split at h
    · rename_i hg; cases h
      have hno := no_holder_of_lock hi (by rw [hg.2]; intro c; simp)
      obtain ⟨h1, h2, h3, h4, h5, h6, h7, h8, h9, h10, h11, h12, h13, h14, h15⟩ := hi
      constructor <;> simp_all [closeHolds, closeClosed, closeSwept]
    · simp at h
  | closeCloseCh =>
    simp only [step] at h
    split at h
    · rename_i hg; cases h
      have hloc : ∀ c, Local true (s.conns c) := fun c => (hi.loc c).toTrue
      obtain ⟨h1, h2, h3, h4, h5, h6, h7, h8, h9, h10, h11, h12, h13, h14, h15⟩ := hi
      constructor <;> simp_all [closeHolds, closeClosed, closeSwept]
    · simp at h
  | closeConn c =>
    simp only [step] at h
    split at h
    · rename_i hg; cases h
      have hl := hi.loc c
      have hi' : Inv (setConn s c { s.conns c with sockClosed := true }) :=
        inv_setConn hi hg.2.2 rfl rfl (fun _ => rfl)
          (by obtain ⟨h1, h2, h3, h4, h5, h6, h7⟩ := hl; constructor <;> simp_all)
      obtain ⟨h1, h2, h3, h4, h5, h6, h7, h8, h9, h10, h11, h12, h13, h14, h15⟩ := hi'
      refine ⟨h1, h2, h3, h4, h5, h6, h7, h8, h9, h10, h11, h12, h13, h14, ?_⟩
      intro hs d hd
      show d ∈ s.sweepLeft.erase c ∨ _
      by_cases hdc : d = c
      · subst hdc; right; simp [setConn]
      · rcases h15 hs d hd with h | h
        · exact Or.inl ((List.mem_erase_of_ne hdc).mpr h)
        · exact Or.inr h
    · simp at h
  | closeAll =>
    simp only [step] at h
    split at h
    · rename_i hg; cases h
      have hreg := hi.reg
      have hlocs := hi.loc
      have hsw := hi.sweep hg.1
      obtain ⟨h1, h2, h3, h4, h5, h6, h7, h8, h9, h10, h11, h12, h13, h14, h15⟩ := hi
      refine ⟨h1, h2, h3, h4, h5, ?_, ?_, h8, h9, h10, h11, h12, h13, ?_, ?_⟩
      · show s.lock = .closer ↔ closeHolds .closedConns = true
        rw [hg.1] at h6
        simpa [closeHolds] using h6
      · show s.closing = (shutClosed s.shut || closeClosed .closedConns)
        rw [hg.1] at h7
        simpa [closeClosed] using h7
      · intro _ c hc
        show (s.conns c).sockClosed = true ∨ _
        by_cases hr : c ∈ s.registered
        · rcases hsw c hr with h | h
          · rw [hg.2] at h; cases h
          · exact Or.inl h
        · left
          apply (hlocs c).closed
          have hm : inMap (s.conns c).pc = false := by
            cases hh : inMap (s.conns c).pc with
            | false => rfl
            | true => exact absurd ((hreg c).mpr hh) hr
          revert hm hc
          cases (s.conns c).pc <;> simp [inMap, counted, preReg, pastDec]
      · intro hs; cases hs
    · simp at h
  | closeUnlock =>
    simp only [step] at h
    split at h
    · rename_i hg; cases h
      have hlk : s.lock = .closer := hi.lockClose.mpr (by simp [hg, closeHolds])
      have hno := no_holder_of_lock hi (by rw [hlk]; intro c; simp)
      obtain ⟨h1, h2, h3, h4, h5, h6, h7, h8, h9, h10, h11, h12, h13, h14, h15⟩ := hi
      constructor <;> simp_all [closeHolds, closeClosed, closeSwept]
    · simp at h
  | runCloseListeners =>
    simp only [step] at h
    split at h
    · cases h
      split
      · exact inv_irrelevant (inv_closeListener hi) _ _ _
      · exact inv_irrelevant hi _ _ _
    · simp at h
  | runShutdown =>
    simp only [step] at h
    split at h
    · rename_i hg; cases h
      obtain ⟨h1, h2, h3, h4, h5, h6, h7, h8, h9, h10, h11, h12, h13, h14, h15⟩ := hi
      constructor <;> simp_all [shutHolds, shutClosed]
    · simp at h
  | runAfterShutdown =>
    simp only [step] at h
    split at h
    · cases h; exact inv_irrelevant hi _ _ _
    · split at h
      · rename_i hg; cases h
        obtain ⟨h1, h2, h3, h4, h5, h6, h7, h8, h9, h10, h11, h12, h13, h14, h15⟩ := hi
        constructor <;> simp_all [closeHolds, closeClosed, closeSwept]
      · simp at h
  | runAfterClose =>
    simp only [step] at h
    split at h
    · cases h; exact inv_irrelevant hi _ _ _
    · simp at h

theorem inv_reachable {s : State} (h : Reachable s) : Inv s := by
  induction h with
  | init => exact inv_init
  | initNoLimit => exact inv_initNoLimit
  | step a _ hs ih => exact inv_step a ih hs

end C11
end FwdVerif
