/-
  C17 helper lemmas, part 3: flags and search through a top-level alternation; what `build`
  (sources joined with `|`, compiled) matches, for leak-free lists and for wrapped sources.
-/
import FwdVerif.Lemmas.C17Parse

namespace FwdVerif
namespace C17

theorem union_isEmpty (a b : List Nat) : (union a b).isEmpty = (a.isEmpty && b.isEmpty) := by
  cases a with
  | nil =>
    have : ∀ l : List Nat, (List.filter (fun _ => true) l) = l := by
      intro l; induction l with
      | nil => rfl
      | cons x xs ih => simp [List.filter]
    simp [union, this]
  | cons x xs => simp [union]

theorem searchRx_alt (a b : Rx) (s : Bytes) :
    searchRx (.alt a b) s = (searchRx a s || searchRx b s) := by
  simp only [searchRx, ends, union_isEmpty, Bool.not_and]

theorem searchRx_cat_empty (a : Rx) (s : Bytes) : searchRx (.cat a .empty) s = searchRx a s := by
  simp only [searchRx, ends]

theorem mkAlt_append_flags (A B : List (List Raw)) (hA : A ≠ []) (hB : B ≠ []) (f : Flags) :
    flagsAfter (mkAlt (A ++ B)) f = flagsAfter (mkAlt B) (flagsAfter (mkAlt A) f) := by
  induction A generalizing f with
  | nil => exact absurd rfl hA
  | cons a as ih =>
    cases as with
    | nil =>
      cases B with
      | nil => exact absurd rfl hB
      | cons b bs => simp [mkAlt, flagsAfter]
    | cons a' as' =>
      have := ih (by simp) (flagsAfter (mkCat a) f)
      simp only [List.cons_append, mkAlt, flagsAfter] at this ⊢
      exact this

theorem mkAlt_append_search (A B : List (List Raw)) (hA : A ≠ []) (hB : B ≠ []) (f : Flags) (s : Bytes) :
    searchRx (rx (mkAlt (A ++ B)) f) s =
      (searchRx (rx (mkAlt A) f) s || searchRx (rx (mkAlt B) (flagsAfter (mkAlt A) f)) s) := by
  induction A generalizing f with
  | nil => exact absurd rfl hA
  | cons a as ih =>
    cases as with
    | nil =>
      cases B with
      | nil => exact absurd rfl hB
      | cons b bs => simp [mkAlt, rx, searchRx_alt]
    | cons a' as' =>
      have := ih (by simp) (flagsAfter (mkCat a) f)
      simp only [List.cons_append, mkAlt, rx, flagsAfter, searchRx_alt] at this ⊢
      rw [this, Bool.or_assoc]

/-! ### sources -/

/-- top-level branches of a source (`[]` when it does not compile) -/
def brs (src : Bytes) : List (List Raw) :=
  match branchesOf src with
  | .ok B => B
  | .error _ => []

/-- a source on its own, searched in `s` -/
def standalone (src : Bytes) (s : Bytes) : Bool := searchRx (rx (mkAlt (brs src)) dflt) s

theorem valid_branches {src : Bytes} (h : validSrc src = true) : branchesOf src = .ok (brs src) := by
  unfold validSrc compile at h
  unfold brs
  cases hb : branchesOf src with
  | error e => simp [hb] at h
  | ok B => rfl

theorem compile_valid {src : Bytes} (h : validSrc src = true) :
    compile src = .ok (rx (mkAlt (brs src)) dflt) := by
  simp [compile, valid_branches h]

theorem brs_ne_nil {src : Bytes} (h : validSrc src = true) : brs src ≠ [] :=
  branchesOf_ne_nil (valid_branches h)

theorem neutral_flags {src : Bytes} (hv : validSrc src = true) (h : neutralSrc src = true) :
    flagsAfter (mkAlt (brs src)) dflt = dflt := by
  simpa [neutralSrc, valid_branches hv] using h

theorem rule_search_eq (r : Rule) (s : Bytes) (h : validSrc r.src = true) :
    r.search s = standalone r.src s := by
  simp [Rule.search, compile_valid h, standalone]

theorem flatten_brs_ne_nil {b : Bytes} {rest : List Bytes} (hb : validSrc b = true) :
    ((b :: rest).map brs).flatten ≠ [] := by
  have := brs_ne_nil hb
  intro h
  simp [List.flatten_eq_nil_iff] at h
  exact this h.1

/-- the joined text parses to the concatenation of the sources' branches -/
theorem branchesOf_joinSrc (srcs : List Bytes) (hne : srcs ≠ [])
    (hv : ∀ x ∈ srcs, validSrc x = true) :
    branchesOf (joinSrc srcs) = .ok ((srcs.map brs).flatten) := by
  induction srcs with
  | nil => exact absurd rfl hne
  | cons a rest ih =>
    cases rest with
    | nil => simpa [joinSrc] using valid_branches (hv a (by simp))
    | cons b rest' =>
      have ha := valid_branches (hv a (by simp))
      have hr := ih (by simp) (fun x hx => hv x (by simp [hx]))
      simpa [joinSrc] using branchesOf_join ha hr

/-- leak-free sources: the joined expression matches iff some source matches on its own -/
theorem search_joined (srcs : List Bytes) (hne : srcs ≠ [])
    (hv : ∀ x ∈ srcs, validSrc x = true) (hl : leakFree srcs = true) (s : Bytes) :
    searchRx (rx (mkAlt ((srcs.map brs).flatten)) dflt) s = srcs.any (fun x => standalone x s) := by
  induction srcs with
  | nil => exact absurd rfl hne
  | cons a rest ih =>
    cases rest with
    | nil => simp [standalone]
    | cons b rest' =>
      have hva := hv a (by simp)
      have hvb := hv b (by simp)
      simp only [leakFree, Bool.and_eq_true] at hl
      have hr := ih (by simp) (fun x hx => hv x (by simp [hx])) hl.2
      have hflat : ((a :: b :: rest').map brs).flatten = brs a ++ ((b :: rest').map brs).flatten := by
        simp
      rw [hflat, mkAlt_append_search _ _ (brs_ne_nil hva) (flatten_brs_ne_nil hvb), neutral_flags hva hl.1, hr]
      simp [standalone]

theorem joinSrc_ne_nil {a : Bytes} (rest : List Bytes) (ha : a ≠ []) : joinSrc (a :: rest) ≠ [] := by
  cases rest with
  | nil => simpa [joinSrc] using ha
  | cons b r => simp [joinSrc, ha]

/-- `build` on valid, non-empty, leak-free sources: never panics, and matches iff some source does -/
theorem build_spec (srcs : List Bytes) (hv : ∀ x ∈ srcs, validSrc x = true ∧ x ≠ [])
    (hl : leakFree srcs = true) :
    (build srcs).err? = none ∧ ∀ s, optSearch (build srcs).toOpt s = srcs.any (fun x => standalone x s) := by
  cases srcs with
  | nil => simp [build, joinSrc, Built.err?, Built.toOpt, optSearch]
  | cons a rest =>
    have hne : joinSrc (a :: rest) ≠ [] := joinSrc_ne_nil rest (hv a (by simp)).2
    have hb := branchesOf_joinSrc (a :: rest) (by simp) (fun x hx => (hv x hx).1)
    have hbuild : build (a :: rest) = .re (rx (mkAlt (((a :: rest).map brs).flatten)) dflt) := by
      simp [build, hne, compile, hb]
    refine ⟨by simp [hbuild, Built.err?], fun s => ?_⟩
    rw [hbuild]
    simp only [Built.toOpt, optSearch]
    exact search_joined (a :: rest) (by simp) (fun x hx => (hv x hx).1) hl s

/-! ### wrapped sources (candidate repair) -/

theorem valid_wrap {a : Bytes} (h : validSrc a = true) : validSrc (wrapSrc a) = true := by
  simp [validSrc, compile, branchesOf_wrap (valid_branches h)]

theorem brs_wrap {a : Bytes} (h : validSrc a = true) :
    brs (wrapSrc a) = [[.group {} {} (mkAlt (brs a))]] := by
  simp [brs, branchesOf_wrap (valid_branches h)]

theorem neutral_wrap {a : Bytes} (h : validSrc a = true) : neutralSrc (wrapSrc a) = true := by
  simp [neutralSrc, branchesOf_wrap (valid_branches h), mkAlt, mkCat, flagsAfter]

theorem apply_empty (f : Flags) : f.apply {} {} = f := by
  cases f; simp [Flags.apply]

theorem standalone_wrap {a : Bytes} (h : validSrc a = true) (s : Bytes) :
    standalone (wrapSrc a) s = standalone a s := by
  simp [standalone, brs_wrap h, mkAlt, mkCat, rx, searchRx_cat_empty, apply_empty]

theorem wrapSrc_ne_nil (a : Bytes) : wrapSrc a ≠ [] := by simp [wrapSrc]

theorem leakFree_of_neutral (srcs : List Bytes) (h : ∀ x ∈ srcs, neutralSrc x = true) :
    leakFree srcs = true := by
  induction srcs with
  | nil => rfl
  | cons a rest ih =>
    cases rest with
    | nil => rfl
    | cons b r =>
      simp only [leakFree, Bool.and_eq_true]
      exact ⟨h a (by simp), ih (fun x hx => h x (by simp [hx]))⟩

end C17
end FwdVerif
