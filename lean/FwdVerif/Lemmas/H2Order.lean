/-
  The reader side of the HTTP/2 relay model: the Framer's frame-order check guarantees that a
  CONTINUATION frame always finds a `headerContinuation` pending, so the nil `continuationState`
  dereference in `processFrame` is unreachable.  Core-only.
-/
import FwdVerif.Lemmas.H2Machine

namespace FwdVerif
namespace H2

variable {α : Type}

/-- while the Framer expects CONTINUATION, the relay holds a `headerContinuation` -/
def ContOk (d : Dir α) : Prop := ∀ s, d.expectCont = some s → ∃ p e, d.cont = Cont.headers p e

/-- the fields read by the reader loop are untouched -/
def SameRd (d d' : Dir α) : Prop := d'.cont = d.cont ∧ d'.expectCont = d.expectCont ∧ d'.dead = d.dead

theorem SameRd.refl (d : Dir α) : SameRd d d := ⟨rfl, rfl, rfl⟩
theorem SameRd.trans {a b c : Dir α} (h1 : SameRd a b) (h2 : SameRd b c) : SameRd a c :=
  ⟨h2.1.trans h1.1, h2.2.1.trans h1.2.1, h2.2.2.trans h1.2.2⟩

theorem SameRd.emitOn (d : Dir α) (s : Nat) : SameRd d (d.emitOn s).1 := by
  rcases d.emitOn_spec s with ⟨_, he⟩ | ⟨_, _, _, he1⟩
  · rw [he]; exact SameRd.refl d
  · rw [he1]; exact ⟨rfl, rfl, rfl⟩

theorem SameRd.emitList (d : Dir α) (ss : List Nat) : SameRd d (d.emitList ss).1 := by
  induction ss generalizing d with
  | nil => exact SameRd.refl d
  | cons s t ih => simp only [Dir.emitList]; exact (SameRd.emitOn d s).trans (ih _)

theorem SameRd.windowUpdate (d : Dir α) (order : List Nat) (s n : Nat) : SameRd d (d.windowUpdate order s n).1 := by
  unfold Dir.windowUpdate
  by_cases hs : s = 0
  · subst hs
    simp only [if_true]
    refine SameRd.trans (b := ({ d with connWin := d.connWin + n } : Dir α).pass order |>.1) ?_ ?_
    · exact SameRd.trans (b := { d with connWin := d.connWin + n }) ⟨rfl, rfl, rfl⟩ (SameRd.emitList _ _)
    · exact SameRd.trans (b := { (({ d with connWin := d.connWin + n } : Dir α).pass order).1 with
          streams := (({ d with connWin := d.connWin + n } : Dir α).pass order).1.streams.set 0 _ })
        ⟨rfl, rfl, rfl⟩ (SameRd.emitOn _ _)
  · simp only [hs, if_false]
    exact SameRd.trans (b := { d with streams := d.streams.set s _ }) ⟨rfl, rfl, rfl⟩ (SameRd.emitOn _ _)

theorem SameRd.setInitWin (d : Dir α) (order : List Nat) (v : Nat) : SameRd d (d.setInitWin order v).1 := by
  unfold Dir.setInitWin Dir.pass
  exact SameRd.trans (b := { d with initWin := v, streams := d.streams.mapWin _ }) ⟨rfl, rfl, rfl⟩ (SameRd.emitList _ _)

theorem SameRd.applyEach (o : Dir α) (ord : Nat → List Nat) (k : Nat) (kvs : List (Nat × Nat)) :
    SameRd o (applyEach o ord k kvs).1 := by
  induction kvs generalizing o k with
  | nil => exact SameRd.refl o
  | cons kv rest ih =>
    obtain ⟨id, v⟩ := kv
    simp only [H2.applyEach]
    split
    · exact (SameRd.setInitWin o (ord k) v).trans (ih _ _)
    · split
      · exact SameRd.trans (b := { o with maxFrame := v }) ⟨rfl, rfl, rfl⟩ (ih _ _)
      · split
        · exact SameRd.trans (b := { o with tableSize := v }) ⟨rfl, rfl, rfl⟩ (ih _ _)
        · exact ih _ _

/-- the opposite direction's reader state is never touched -/
theorem process_other (d o : Dir α) (ord : Nat → List Nat) (op : Op α) : SameRd o (process d o ord op).2.1 := by
  cases op with
  | data sid payload pad es => exact SameRd.refl o
  | headers sid es eh prio frag reenc => simp only [H2.process]; split <;> exact SameRd.refl o
  | continuation sid eh frag reenc =>
    simp only [H2.process]
    split
    · split <;> exact SameRd.refl o
    · exact SameRd.refl o
  | pushPromise sid promised eh frag reenc => simp only [H2.process]; split <;> exact SameRd.refl o
  | priority sid prio => exact SameRd.refl o
  | rst sid code => exact SameRd.refl o
  | windowUpdate sid inc => exact SameRd.windowUpdate o (ord 0) sid inc
  | settings kvs => exact SameRd.applyEach o ord 0 (inForce kvs)
  | settingsAck => exact SameRd.refl o
  | ping ack data => exact SameRd.refl o
  | goAway last code debug => exact SameRd.refl o
  | unknown typ => exact SameRd.refl o

theorem step_other (d o : Dir α) (ord : Nat → List Nat) (op : Op α) : SameRd o (step d o ord op).2.1 := by
  unfold H2.step
  split
  · exact SameRd.refl o
  · split
    · exact process_other d o ord op
    · exact SameRd.refl o

theorem ContOk.of_same {d d' : Dir α} (h : ContOk d) (s : SameRd d d') : ContOk d' := by
  intro x hx
  rw [s.2.1] at hx
  obtain ⟨p, e, hp⟩ := h x hx
  exact ⟨p, e, by rw [s.1]; exact hp⟩

/-- one iteration of the reader loop keeps `ContOk` and does not panic -/
theorem ContOk.step {d : Dir α} (h : ContOk d) (o : Dir α) (ord : Nat → List Nat) (op : Op α) :
    ContOk (step d o ord op).1 ∧ (step d o ord op).2.2.panic = false := by
  unfold H2.step
  by_cases hdead : d.dead = true
  · simp only [hdead, if_true]; exact ⟨h, trivial⟩
  · have hdead' : d.dead = false := by simpa using hdead
    simp only [hdead', Bool.false_eq_true, if_false]
    by_cases hok : orderOk d op = true
    · simp only [hok, if_true]
      cases op with
      | headers sid es eh prio frag reenc =>
        cases eh with
        | true =>
          refine ⟨?_, by simp [H2.process]⟩
          intro x hx; simp [nextExpect] at hx
        | false =>
          refine ⟨?_, by simp [H2.process]⟩
          intro x hx
          exact ⟨prio, es, by simp [H2.process]⟩
      | continuation sid eh frag reenc =>
        have hexp : d.expectCont = some sid := by simpa [orderOk] using hok
        obtain ⟨p, e0, hp⟩ := h sid hexp
        cases eh with
        | true =>
          refine ⟨?_, by simp [H2.process, hp]⟩
          intro x hx; simp [nextExpect] at hx
        | false =>
          refine ⟨?_, by simp [H2.process]⟩
          intro x hx
          exact ⟨p, e0, by simp [H2.process, hp]⟩
      | data sid payload pad es =>
        have hexp : d.expectCont = none := by simpa [orderOk] using hok
        exact ⟨by intro x hx; simp [nextExpect, hexp] at hx, rfl⟩
      | pushPromise sid promised eh frag reenc =>
        have hexp : d.expectCont = none := by simpa [orderOk] using hok
        refine ⟨by intro x hx; simp [nextExpect, hexp] at hx, ?_⟩
        simp only [H2.process]; split <;> rfl
      | priority sid prio =>
        have hexp : d.expectCont = none := by simpa [orderOk] using hok
        exact ⟨by intro x hx; simp [nextExpect, hexp] at hx, rfl⟩
      | rst sid code =>
        have hexp : d.expectCont = none := by simpa [orderOk] using hok
        exact ⟨by intro x hx; simp [nextExpect, hexp] at hx, rfl⟩
      | windowUpdate sid inc =>
        have hexp : d.expectCont = none := by simpa [orderOk] using hok
        exact ⟨by intro x hx; simp [nextExpect, hexp] at hx, rfl⟩
      | settings kvs =>
        have hexp : d.expectCont = none := by simpa [orderOk] using hok
        exact ⟨by intro x hx; simp [nextExpect, hexp] at hx, rfl⟩
      | settingsAck =>
        have hexp : d.expectCont = none := by simpa [orderOk] using hok
        exact ⟨by intro x hx; simp [nextExpect, hexp] at hx, rfl⟩
      | ping ack data =>
        have hexp : d.expectCont = none := by simpa [orderOk] using hok
        exact ⟨by intro x hx; simp [nextExpect, hexp] at hx, rfl⟩
      | goAway last code debug =>
        have hexp : d.expectCont = none := by simpa [orderOk] using hok
        exact ⟨by intro x hx; simp [nextExpect, hexp] at hx, rfl⟩
      | unknown typ =>
        have hexp : d.expectCont = none := by simpa [orderOk] using hok
        exact ⟨by intro x hx; simp [nextExpect, hexp] at hx, rfl⟩
    · have hok' : orderOk d op = false := by simpa using hok
      simp only [hok', Bool.false_eq_true, if_false]
      exact ⟨fun x hx => h x hx, trivial⟩

end H2
end FwdVerif
