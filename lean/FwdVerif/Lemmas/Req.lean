/-
  Request pipeline — helper lemmas, part 1 (core Lean only): header maps.

  §1 `HMap.get` under `erase`/`put`, the invariant `Inv` (canonical unique keys) and the relation
     `Agree T h h'` ("h' is h up to the keys in T") with its closure under Go's `Del/Set/Add`.
  §2 `toHeader`: grouping of field lines by canonical key, order preserved.
  §3 per-name value lists (`vals`) of `lowerFields`, `mergeFields`.
-/
import FwdVerif.Lemmas.C16
import FwdVerif.Model.ReqSpec

namespace FwdVerif
namespace Req

open Ascii
open C16

/-! ## §1 lookup under erase / put -/

theorem hget_eq (h : HMap) (k : Bytes) : hget h k = (HMap.get h k).getD [] := rfl

theorem get_erase_self (h : HMap) (c : Bytes) : HMap.get (HMap.erase h c) c = none := by
  unfold HMap.get HMap.erase
  induction h with
  | nil => rfl
  | cons e h ih =>
    obtain ⟨k, vs⟩ := e
    by_cases hk : k = c
    · have h1 : ((k, vs).1 != c) = false := by simpa using hk
      rw [List.filter_cons, h1]
      exact ih
    · have h1 : ((k, vs).1 != c) = true := by simpa using hk
      rw [List.filter_cons, h1, if_pos rfl, List.lookup_cons]
      have : (c == k) = false := by simpa using (fun h' : c = k => hk h'.symm)
      rw [this]; exact ih

theorem get_erase_ne (h : HMap) {c k : Bytes} (hne : k ≠ c) :
    HMap.get (HMap.erase h c) k = HMap.get h k := by
  unfold HMap.get HMap.erase
  induction h with
  | nil => rfl
  | cons e h ih =>
    obtain ⟨k', vs⟩ := e
    by_cases hk : k' = c
    · have h1 : ((k', vs).1 != c) = false := by simpa using hk
      rw [List.filter_cons, h1, List.lookup_cons]
      have : (k == k') = false := by simpa using (fun h' : k = k' => hne (h'.trans hk))
      rw [this]; exact ih
    · have h1 : ((k', vs).1 != c) = true := by simpa using hk
      rw [List.filter_cons, h1, if_pos rfl, List.lookup_cons, List.lookup_cons, ih]

theorem get_put_self (h : HMap) (c : Bytes) (vs : List Bytes) :
    HMap.get (HMap.put h c vs) c = some vs := lookup_put_self h c vs

theorem get_put_ne (h : HMap) {c k : Bytes} (vs : List Bytes) (hne : k ≠ c) :
    HMap.get (HMap.put h c vs) k = HMap.get h k := lookup_put_ne h vs hne

theorem get_goDel_self (h : HMap) (n : Bytes) : HMap.get (goDel h n) (canonicalKey n) = none :=
  get_erase_self h _

theorem get_goDel_ne (h : HMap) {n k : Bytes} (hne : k ≠ canonicalKey n) :
    HMap.get (goDel h n) k = HMap.get h k := get_erase_ne h hne

theorem get_goSet_self (h : HMap) (n v : Bytes) :
    HMap.get (goSet h n v) (canonicalKey n) = some [v] := get_put_self h _ _

theorem get_goSet_ne (h : HMap) {n k : Bytes} (v : Bytes) (hne : k ≠ canonicalKey n) :
    HMap.get (goSet h n v) k = HMap.get h k := get_put_ne h _ hne

theorem get_goAdd_self (h : HMap) (n v : Bytes) :
    HMap.get (goAdd h n v) (canonicalKey n) = some (hget h (canonicalKey n) ++ [v]) :=
  get_put_self h _ _

theorem get_goAdd_ne (h : HMap) {n k : Bytes} (v : Bytes) (hne : k ≠ canonicalKey n) :
    HMap.get (goAdd h n v) k = HMap.get h k := get_put_ne h _ hne

theorem hget_goSet_self (h : HMap) (n v : Bytes) : hget (goSet h n v) (canonicalKey n) = [v] := by
  rw [hget_eq, get_goSet_self]; rfl

theorem hget_goDel_self (h : HMap) (n : Bytes) : hget (goDel h n) (canonicalKey n) = [] := by
  rw [hget_eq, get_goDel_self]; rfl

theorem hget_congr {h h' : HMap} {k : Bytes} (e : HMap.get h' k = HMap.get h k) :
    hget h' k = hget h k := by rw [hget_eq, hget_eq, e]

theorem goGet_congr {h h' : HMap} {n : Bytes}
    (e : HMap.get h' (canonicalKey n) = HMap.get h (canonicalKey n)) : goGet h' n = goGet h n := by
  unfold goGet; rw [hget_congr e]

/-! ### the invariant: canonical, unique raw keys -/

/-- what `net/http` guarantees for a parsed message and every modifier without `%name` keeps -/
def Inv (h : HMap) : Prop := CanonKeys h ∧ NodupKeys h

theorem Inv.nil : Inv [] := ⟨fun _ he => by simp at he, by simp [NodupKeys]⟩

theorem Inv.erase {h : HMap} (c : Bytes) (hi : Inv h) : Inv (HMap.erase h c) :=
  ⟨hi.1.sublist (erase_sublist _ _), hi.2.sublist (erase_sublist _ _)⟩

theorem Inv.put {h : HMap} {c : Bytes} (vs : List Bytes) (hi : Inv h)
    (hc : canonicalKey c = c) : Inv (HMap.put h c vs) :=
  ⟨hi.1.put vs hc, hi.2.put c vs⟩

theorem Inv.goDel {h : HMap} (n : Bytes) (hi : Inv h) : Inv (goDel h n) := hi.erase _
theorem Inv.goSet {h : HMap} (n v : Bytes) (hi : Inv h) : Inv (goSet h n v) :=
  hi.put _ (canonicalKey_idem n)
theorem Inv.goAdd {h : HMap} (n v : Bytes) (hi : Inv h) : Inv (goAdd h n v) :=
  hi.put _ (canonicalKey_idem n)

instance (h : HMap) : Decidable (Inv h) := inferInstanceAs (Decidable (_ ∧ _))

/-- `h'` is reached from `h` by steps that keep the invariant and leave every key outside `T`
    alone -/
def Agree (T : Bytes → Prop) (h h' : HMap) : Prop :=
  Inv h → Inv h' ∧ ∀ k, ¬ T k → HMap.get h' k = HMap.get h k

theorem Agree.refl (T : Bytes → Prop) (h : HMap) : Agree T h h := fun hi => ⟨hi, fun _ _ => rfl⟩

theorem Agree.trans {T : Bytes → Prop} {a b c : HMap} (h1 : Agree T a b) (h2 : Agree T b c) :
    Agree T a c := fun hi =>
  let ⟨ib, eb⟩ := h1 hi
  let ⟨ic, ec⟩ := h2 ib
  ⟨ic, fun k hk => (ec k hk).trans (eb k hk)⟩

theorem Agree.mono {T T' : Bytes → Prop} {a b : HMap} (hT : ∀ k, T k → T' k) (h : Agree T a b) :
    Agree T' a b := fun hi =>
  let ⟨ib, eb⟩ := h hi
  ⟨ib, fun k hk => eb k (fun h' => hk (hT k h'))⟩

theorem Agree.del {T : Bytes → Prop} {a b : HMap} (n : Bytes) (hT : T (canonicalKey n))
    (h : Agree T a b) : Agree T a (goDel b n) := fun hi =>
  let ⟨ib, eb⟩ := h hi
  ⟨ib.goDel n, fun k hk => by
    rw [get_goDel_ne b (fun h' => hk (by rw [h']; exact hT))]; exact eb k hk⟩

theorem Agree.set {T : Bytes → Prop} {a b : HMap} (n v : Bytes) (hT : T (canonicalKey n))
    (h : Agree T a b) : Agree T a (goSet b n v) := fun hi =>
  let ⟨ib, eb⟩ := h hi
  ⟨ib.goSet n v, fun k hk => by
    rw [get_goSet_ne b v (fun h' => hk (by rw [h']; exact hT))]; exact eb k hk⟩

theorem Agree.add {T : Bytes → Prop} {a b : HMap} (n v : Bytes) (hT : T (canonicalKey n))
    (h : Agree T a b) : Agree T a (goAdd b n v) := fun hi =>
  let ⟨ib, eb⟩ := h hi
  ⟨ib.goAdd n v, fun k hk => by
    rw [get_goAdd_ne b v (fun h' => hk (by rw [h']; exact hT))]; exact eb k hk⟩

theorem Agree.ite {T : Bytes → Prop} {a b c : HMap} (p : Prop) [Decidable p]
    (h1 : Agree T a b) (h2 : Agree T a c) : Agree T a (if p then b else c) := by
  split
  · exact h1
  · exact h2

/-- deleting a list of names -/
theorem Agree.foldDel {T : Bytes → Prop} {a : HMap} (ns : List Bytes)
    (hT : ∀ n ∈ ns, T (canonicalKey n)) :
    ∀ {b : HMap}, Agree T a b → Agree T a (ns.foldl (fun h k => goDel h k) b) := by
  induction ns with
  | nil => intro b h; exact h
  | cons n ns ih =>
    intro b h
    exact ih (fun m hm => hT m (List.mem_cons_of_mem _ hm)) (h.del n (hT n List.mem_cons_self))

/-- after deleting a list of names every one of them is gone -/
theorem get_foldDel_mem (ns : List Bytes) {n : Bytes} (hn : n ∈ ns) :
    ∀ (b : HMap), HMap.get (ns.foldl (fun h k => goDel h k) b) (canonicalKey n) = none := by
  induction ns with
  | nil => simp at hn
  | cons m ns ih =>
    intro b
    by_cases hm : n ∈ ns
    · exact ih hm _
    · have : n = m := by simpa [hm] using hn
      subst this
      -- the key is removed first and never comes back
      have keep : ∀ (ms : List Bytes) (c : HMap), HMap.get c (canonicalKey n) = none →
          HMap.get (ms.foldl (fun h k => goDel h k) c) (canonicalKey n) = none := by
        intro ms
        induction ms with
        | nil => intro c hc; exact hc
        | cons x ms ihm =>
          intro c hc
          apply ihm
          by_cases hx : canonicalKey n = canonicalKey x
          · rw [hx]; exact get_goDel_self c x
          · rw [get_goDel_ne c hx]; exact hc
      exact keep ns _ (get_goDel_self b n)

/-! ## §2 `toHeader` -/

theorem hget_foldl_goAdd (fs : List (Bytes × Bytes)) (c : Bytes) :
    ∀ (h : HMap), hget (fs.foldl (fun h f => goAdd h f.1 f.2) h) c =
      hget h c ++ (fs.filter (fun f => canonicalKey f.1 == c)).map (·.2) := by
  induction fs with
  | nil => intro h; simp
  | cons f fs ih =>
    intro h
    rw [List.foldl_cons, ih]
    by_cases hk : canonicalKey f.1 = c
    · have hb : (canonicalKey f.1 == c) = true := by simpa using hk
      rw [List.filter_cons, hb, if_pos rfl, List.map_cons, ← hk, hget_eq (goAdd h f.1 f.2),
        get_goAdd_self]
      simp
    · have hb : (canonicalKey f.1 == c) = false := by simpa using hk
      rw [List.filter_cons, hb, if_neg Bool.false_ne_true,
        hget_congr (get_goAdd_ne h f.2 (fun h' : c = canonicalKey f.1 => hk h'.symm))]

theorem inv_foldl_goAdd (fs : List (Bytes × Bytes)) :
    ∀ (h : HMap), Inv h → Inv (fs.foldl (fun h f => goAdd h f.1 f.2) h) := by
  induction fs with
  | nil => intro h hi; exact hi
  | cons f fs ih => intro h hi; exact ih _ (hi.goAdd f.1 f.2)

theorem toHeader_inv (fs : List (Bytes × Bytes)) : Inv (toHeader fs) :=
  inv_foldl_goAdd fs [] Inv.nil

theorem hget_toHeader (fs : List (Bytes × Bytes)) (c : Bytes) :
    hget (toHeader fs) c = (fs.filter (fun f => canonicalKey f.1 == c)).map (·.2) := by
  unfold toHeader
  rw [hget_foldl_goAdd]
  rfl

/-- canonical keys of two names agree iff the names agree up to case (second name a token) -/
theorem canonicalKey_eq_iff {a n : Bytes} (hn : n.all isTokenByte = true) :
    canonicalKey a = canonicalKey n ↔ lower a = lower n := by
  constructor
  · intro h
    rw [← lower_canonicalKey a, h, lower_canonicalKey]
  · exact canonicalKey_congr hn

/-- `toHeader` groups the field lines by name, case-insensitively, keeping wire order -/
theorem hget_toHeader_lower (r : Request) {n : Bytes} (hn : n.all isTokenByte = true)
    (hl : lower n = n) : hget (toHeader r.fields) (canonicalKey n) = inValues r n := by
  rw [hget_toHeader]
  unfold inValues
  congr 1
  apply List.filter_congr
  intro f _
  rw [Bool.eq_iff_iff, beq_iff_eq, beq_iff_eq, canonicalKey_eq_iff hn, hl]

/-- a key in canonical spelling of a lower-case name is in a list of canonical keys only if the
    name is in the list of their lower-case forms -/
theorem lower_mem_of_canonicalKey_mem {n : Bytes} (hl : lower n = n) {S : List Bytes}
    (h : canonicalKey n ∈ S) : n ∈ S.map lower := by
  refine List.mem_map.mpr ⟨_, h, ?_⟩
  rw [lower_canonicalKey, hl]

/-! ## §3 per-name value lists -/

theorem vals_nil (n : Bytes) : vals [] n = [] := rfl

theorem vals_append (a b : List (Bytes × List Bytes)) (n : Bytes) :
    vals (a ++ b) n = vals a n ++ vals b n := by
  simp [vals, List.filter_append]

theorem vals_cons (e : Bytes × List Bytes) (a : List (Bytes × List Bytes)) (n : Bytes) :
    vals (e :: a) n = (if e.1 == n then e.2 else []) ++ vals a n := by
  unfold vals
  by_cases h : (e.1 == n) = true
  · simp [h]
  · simp [h]

theorem vals_of_not_mem {a : List (Bytes × List Bytes)} {n : Bytes} (h : n ∉ a.map (·.1)) :
    vals a n = [] := by
  unfold vals
  rw [List.filter_eq_nil_iff.mpr]
  · rfl
  · intro e he
    simp only [beq_iff_eq]
    intro hk
    exact h (List.mem_map.mpr ⟨e, he, hk⟩)

/-- on a map with canonical unique keys the entries whose name folds to the (token) name `n` are
    the values under the key `canonicalKey n`; `p` is the writer's exclusion filter -/
theorem vals_lowerFields_filter {h : HMap} (hi : Inv h) (p : Bytes × List Bytes → Bool)
    {n : Bytes} (hn : n.all isTokenByte = true) (hl : lower n = n)
    (hp : ∀ e ∈ h, e.1 = canonicalKey n → p e = true) :
    vals (lowerFields (h.filter p)) n = hget h (canonicalKey n) := by
  induction h with
  | nil => rfl
  | cons e h ih =>
    obtain ⟨k, vs⟩ := e
    have hck : canonicalKey k = k := hi.1 (k, vs) List.mem_cons_self
    have hi' : Inv h := ⟨hi.1.sublist (List.sublist_cons_self _ _), hi.2.tail⟩
    have ih := ih hi' (fun e he => hp e (List.mem_cons_of_mem _ he))
    have hiff := lower_eq_iff_of_canon hck hn
    by_cases hk : k = canonicalKey n
    · have hpe : p (k, vs) = true := hp (k, vs) List.mem_cons_self hk
      have hnot : canonicalKey n ∉ h.map (·.1) := hk ▸ not_mem_keys_of_nodup_cons hi.2
      have hrest : hget h (canonicalKey n) = [] := by
        unfold hget HMap.get
        have : h.lookup (canonicalKey n) = none := by
          rw [List.lookup_eq_none_iff]
          intro e he
          rw [bne_iff_ne]
          intro hbe
          exact hnot (List.mem_map.mpr ⟨e, he, hbe.symm⟩)
        rw [this]; rfl
      rw [List.filter_cons_of_pos hpe]
      show vals ((lower k, vs) :: lowerFields (h.filter p)) n = _
      rw [vals_cons, ih, hrest]
      have : (lower k == n) = true := by rw [beq_iff_eq, ← hl]; exact hiff.mpr hk
      simp only [this, if_true, List.append_nil]
      unfold hget HMap.get
      rw [List.lookup_cons]
      have : (canonicalKey n == k) = true := by rw [beq_iff_eq]; exact hk.symm
      rw [this]; rfl
    · have hlk : (lower k == n) = false := by
        rw [beq_eq_false_iff_ne]; intro h'; exact hk (hiff.mp (by rw [h', hl]))
      have hget' : hget ((k, vs) :: h) (canonicalKey n) = hget h (canonicalKey n) := by
        unfold hget HMap.get
        rw [List.lookup_cons]
        have : (canonicalKey n == k) = false := by
          rw [beq_eq_false_iff_ne]; exact fun h' => hk h'.symm
        rw [this]
      rw [hget']
      by_cases hpe : p (k, vs) = true
      · rw [List.filter_cons_of_pos hpe]
        show vals ((lower k, vs) :: lowerFields (h.filter p)) n = _
        rw [vals_cons, ih]
        simp [hlk]
      · rw [List.filter_cons_of_neg hpe]
        exact ih

/-- … and when the filter drops the key, nothing under that name is left -/
theorem vals_lowerFields_filter_excluded {h : HMap} (hi : Inv h) (p : Bytes × List Bytes → Bool)
    {n : Bytes} (hn : n.all isTokenByte = true) (hl : lower n = n)
    (hp : ∀ e ∈ h, e.1 = canonicalKey n → p e = false) :
    vals (lowerFields (h.filter p)) n = [] := by
  apply vals_of_not_mem
  intro hm
  obtain ⟨e, he, hk⟩ := List.mem_map.mp hm
  obtain ⟨e', he', rfl⟩ := List.mem_map.mp he
  obtain ⟨hmem, hpe⟩ := List.mem_filter.mp he'
  have hiff := lower_eq_iff_of_canon (hi.1 e' hmem) hn
  have : e'.1 = canonicalKey n := hiff.mp (by rw [hl]; exact hk)
  rw [hp e' hmem this] at hpe
  exact Bool.false_ne_true hpe

/-! ### `mergeFields` -/

/-- one step of `mergeFields` -/
def mergeStep (acc : List (Bytes × List Bytes)) (f : Bytes × List Bytes) :
    List (Bytes × List Bytes) :=
  if acc.any (fun e => e.1 == f.1) then acc.map (fun e => if e.1 == f.1 then (e.1, e.2 ++ f.2) else e)
  else acc ++ [f]

theorem mergeFields_eq (fs : List (Bytes × List Bytes)) : mergeFields fs = fs.foldl mergeStep [] := rfl

theorem keys_mergeStep (acc : List (Bytes × List Bytes)) (f : Bytes × List Bytes) :
    (mergeStep acc f).map (·.1) =
      if f.1 ∈ acc.map (·.1) then acc.map (·.1) else acc.map (·.1) ++ [f.1] := by
  unfold mergeStep
  by_cases h : f.1 ∈ acc.map (·.1)
  · have : acc.any (fun e => e.1 == f.1) = true := by
      obtain ⟨e, he, hk⟩ := List.mem_map.mp h
      simp only [List.any_eq_true, beq_iff_eq]
      exact ⟨e, he, hk⟩
    rw [if_pos this, if_pos h, List.map_map]
    apply List.map_congr_left
    intro e _
    show (if (e.1 == f.1) = true then (e.1, e.2 ++ f.2) else e).1 = e.1
    split <;> rfl
  · have : ¬ acc.any (fun e => e.1 == f.1) = true := by
      simp only [List.any_eq_true, beq_iff_eq, not_exists, not_and]
      intro e he hk
      exact h (List.mem_map.mpr ⟨e, he, hk⟩)
    rw [if_neg this, if_neg h]
    simp

theorem nodup_mergeStep {acc : List (Bytes × List Bytes)} (f : Bytes × List Bytes)
    (hn : (acc.map (·.1)).Nodup) : ((mergeStep acc f).map (·.1)).Nodup := by
  rw [keys_mergeStep]
  split
  · exact hn
  · rename_i h
    rw [List.nodup_append]
    refine ⟨hn, by simp, ?_⟩
    intro a ha b hb
    simp only [List.mem_singleton] at hb
    subst hb
    intro hab; subst hab
    exact h ha

theorem vals_map_append_of_not_mem {acc : List (Bytes × List Bytes)} {m : Bytes} (vs : List Bytes)
    (n : Bytes) (h : m ∉ acc.map (·.1)) :
    vals (acc.map (fun e => if e.1 == m then (e.1, e.2 ++ vs) else e)) n = vals acc n := by
  have : acc.map (fun e => if e.1 == m then (e.1, e.2 ++ vs) else e) = acc.map id := by
    apply List.map_congr_left
    intro e he
    have : (e.1 == m) = false := by
      rw [beq_eq_false_iff_ne]; intro hk; exact h (List.mem_map.mpr ⟨e, he, hk⟩)
    simp [this]
  rw [this, List.map_id]

theorem vals_map_append {acc : List (Bytes × List Bytes)} {m : Bytes} (vs : List Bytes)
    (n : Bytes) (hn : (acc.map (·.1)).Nodup) (hm : m ∈ acc.map (·.1)) :
    vals (acc.map (fun e => if e.1 == m then (e.1, e.2 ++ vs) else e)) n =
      vals acc n ++ (if m == n then vs else []) := by
  induction acc with
  | nil => simp at hm
  | cons e acc ih =>
    rw [List.map_cons, List.nodup_cons] at hn
    rw [List.map_cons, vals_cons, vals_cons]
    by_cases hk : e.1 = m
    · have hb : (e.1 == m) = true := by simpa using hk
      have hnot : m ∉ acc.map (·.1) := hk ▸ hn.1
      rw [vals_map_append_of_not_mem vs n hnot]
      simp only [hb, if_true]
      by_cases hmn : m = n
      · subst hmn; simp [hb]
        rw [vals_of_not_mem hnot]; simp
      · have h1 : (m == n) = false := by simpa using hmn
        have h2 : (e.1 == n) = false := by rw [hk]; exact h1
        simp [h1, h2]
    · have hb : (e.1 == m) = false := by simpa using hk
      have hm' : m ∈ acc.map (·.1) := by
        rcases List.mem_cons.mp hm with h | h
        · exact absurd h.symm hk
        · exact h
      rw [ih hn.2 hm']
      simp [hb]

theorem vals_mergeStep {acc : List (Bytes × List Bytes)} (f : Bytes × List Bytes) (n : Bytes)
    (hn : (acc.map (·.1)).Nodup) :
    vals (mergeStep acc f) n = vals acc n ++ (if f.1 == n then f.2 else []) := by
  unfold mergeStep
  split
  · rename_i h
    have hm : f.1 ∈ acc.map (·.1) := by
      simp only [List.any_eq_true, beq_iff_eq] at h
      obtain ⟨e, he, hk⟩ := h
      exact List.mem_map.mpr ⟨e, he, hk⟩
    exact vals_map_append f.2 n hn hm
  · rw [vals_append, vals_cons, vals_nil, List.append_nil]

theorem vals_foldl_mergeStep (fs : List (Bytes × List Bytes)) (n : Bytes) :
    ∀ (acc : List (Bytes × List Bytes)), (acc.map (·.1)).Nodup →
      vals (fs.foldl mergeStep acc) n = vals acc n ++ vals fs n := by
  induction fs with
  | nil => intro acc _; simp [vals_nil]
  | cons f fs ih =>
    intro acc hn
    rw [List.foldl_cons, ih _ (nodup_mergeStep f hn), vals_mergeStep f n hn, vals_cons,
      List.append_assoc]

/-- merging entries of equal name keeps every per-name value list (order included) -/
theorem vals_mergeFields (fs : List (Bytes × List Bytes)) (n : Bytes) :
    vals (mergeFields fs) n = vals fs n := by
  rw [mergeFields_eq, vals_foldl_mergeStep fs n [] (by simp)]
  simp [vals_nil]

/-! ### `joinWith`: combining field lines -/

theorem joinWith_cons_cons (sep x y : Bytes) (ys : List Bytes) :
    joinWith sep (x :: y :: ys) = x ++ sep ++ joinWith sep (y :: ys) := by
  rw [joinWith]
  intro h; cases h

theorem joinWith_ne_nil_of_head (sep : Bytes) {x : Bytes} (xs : List Bytes) (hx : x ≠ []) :
    joinWith sep (x :: xs) ≠ [] := by
  cases xs with
  | nil => exact hx
  | cons y ys =>
    rw [joinWith_cons_cons]
    intro h
    exact hx (List.append_eq_nil_iff.mp (List.append_eq_nil_iff.mp h).1).1

/-- appending one element to a list of non-empty values: the combined old value, the separator, the
    new element (nothing but the element when there was no old value) -/
theorem joinWith_append_singleton (sep e : Bytes) :
    ∀ (xs : List Bytes), (∀ v ∈ xs, v ≠ []) →
      joinWith sep (xs ++ [e]) =
        (if (joinWith sep xs).isEmpty then [] else joinWith sep xs ++ sep) ++ e := by
  intro xs
  induction xs with
  | nil => intro _; rfl
  | cons x xs ih =>
    intro hne
    have hx : x ≠ [] := hne x List.mem_cons_self
    have hrest : ∀ v ∈ xs, v ≠ [] := fun v hv => hne v (List.mem_cons_of_mem _ hv)
    have hj : (joinWith sep (x :: xs)).isEmpty = false := by
      simpa [List.isEmpty_iff] using joinWith_ne_nil_of_head sep xs hx
    rw [hj]
    cases xs with
    | nil =>
      show joinWith sep [x, e] = _
      rw [joinWith_cons_cons]
      simp [joinWith]
    | cons y ys =>
      show joinWith sep (x :: (y :: ys ++ [e])) = _
      have : y :: ys ++ [e] = y :: (ys ++ [e]) := rfl
      rw [this, joinWith_cons_cons, ← this, ih hrest]
      have hy : (joinWith sep (y :: ys)).isEmpty = false := by
        simpa [List.isEmpty_iff] using
          joinWith_ne_nil_of_head sep ys (hne y (List.mem_cons_of_mem _ List.mem_cons_self))
      rw [hy, joinWith_cons_cons]
      simp [List.append_assoc]

/-- a connection that carries plain requests only: every item is processed on its own, in the
    unchanged connection context -/
theorem processConnection_reqItems (cfg : Cfg) (ctx : Ctx) (rs : List Request) :
    processConnection cfg ctx (reqItems rs) =
      rs.map (fun r => ItemOutcome.req (processRequest cfg ctx r)) := by
  unfold reqItems
  induction rs with
  | nil => rfl
  | cons r rs ih =>
    rw [List.map_cons, List.map_cons, processConnection]
    simp only [processItem]
    rw [ih]

end Req
end FwdVerif
