/-
  C06 — helper lemmas for lookups in flight at the same time (the matcher as a machine over a schedule) and
  for construction histories (core Lean only).

  §1 `MatchURL`/`selectWithCreds`/`resolve` over `Match`'s answers are the model's when the answers are the table's
  §2 the table matcher under every schedule
  §3 the two-cell memo when lookups are made one at a time
  §4 construction histories under the copying constructor
-/
import FwdVerif.Lemmas.C06

namespace FwdVerif
namespace C06

open Ascii Req
open C05 (ProxyURL)

/-! ## §1 -/

theorem matchURLWith_table (t : Option CredTable) (scheme urlHost : Bytes) :
    matchURLWith (matchHostport t) scheme urlHost = matchURL t scheme urlHost := by
  cases t with
  | none => simp only [matchURLWith, matchHostport, matchURL, ite_self]
  | some t => rfl

theorem selectWithCredsWith_table (fc : FullCfg) (host : Bytes) :
    selectWithCredsWith (matchHostport fc.table) fc host = selectWithCreds fc host := by
  unfold selectWithCredsWith selectWithCreds upstreamProxyURLWith pacAttachWith upstreamProxyURL pacAttach
  simp only [matchURLWith_table]

theorem resolveWith_table (fc : FullCfg) (scheme urlHost : Bytes) :
    resolveWith (matchHostport fc.table) fc scheme urlHost = resolve fc scheme urlHost := by
  unfold resolveWith resolve siteCredFor
  simp only [matchURLWith_table, selectWithCredsWith_table]

/-! ## §2 -/

theorem tableMatcher_step_hp (t : Option CredTable) (s : Unit) (l : Lookup) :
    ((tableMatcher t).step s l).2.hp = l.hp := by
  unfold tableMatcher
  cases h : l.pc <;> simp only [h]

theorem tableMatcher_step_pc (t : Option CredTable) (s : Unit) (l : Lookup) :
    ((tableMatcher t).step s l).2.pc = l.pc ∨ ((tableMatcher t).step s l).2.pc = .done (matchHostport t l.hp) := by
  unfold tableMatcher
  cases h : l.pc <;> simp only [h, or_true, true_or]

theorem tableMatcher_step_start (t : Option CredTable) (s : Unit) (l : Lookup) (h : l.pc = .start) :
    ((tableMatcher t).step s l).2.pc = .done (matchHostport t l.hp) := by
  unfold tableMatcher
  simp only [h]

/-- under every schedule a lookup keeps its key, and stands where it stood or has the table's answer for ITS key -/
theorem runSched_table_inv (t : Option CredTable) (sched : List Nat) :
    ∀ (s : Unit) (ls : Nat → Lookup) (i : Nat),
      ((runSched (tableMatcher t) s ls sched).2 i).hp = (ls i).hp ∧
      (((runSched (tableMatcher t) s ls sched).2 i).pc = (ls i).pc ∨
       ((runSched (tableMatcher t) s ls sched).2 i).pc = .done (matchHostport t (ls i).hp)) := by
  induction sched with
  | nil => intro s ls i; exact ⟨rfl, Or.inl rfl⟩
  | cons k sched ih =>
    intro s ls i
    simp only [runSched]
    have h := ih ((tableMatcher t).step s (ls k)).1 (fun j => if j = k then ((tableMatcher t).step s (ls k)).2 else ls j) i
    by_cases hik : i = k
    · subst hik
      simp only [if_true] at h
      rw [tableMatcher_step_hp] at h
      refine ⟨h.1, ?_⟩
      rcases h.2 with h2 | h2
      · rcases tableMatcher_step_pc t s (ls i) with h3 | h3
        · exact Or.inl (h2.trans h3)
        · exact Or.inr (h2.trans h3)
      · exact Or.inr h2
    · simp only [hik, if_false] at h
      exact h

/-- … and once it was scheduled it has that answer -/
theorem runSched_table_done (t : Option CredTable) (sched : List Nat) :
    ∀ (s : Unit) (ls : Nat → Lookup) (i : Nat), (ls i).pc = .start → i ∈ sched →
      ((runSched (tableMatcher t) s ls sched).2 i).pc = .done (matchHostport t (ls i).hp) := by
  induction sched with
  | nil => intro s ls i _ hm; cases hm
  | cons k sched ih =>
    intro s ls i h0 hm
    simp only [runSched]
    by_cases hik : i = k
    · subst hik
      have h := runSched_table_inv t sched ((tableMatcher t).step s (ls i)).1
        (fun j => if j = i then ((tableMatcher t).step s (ls i)).2 else ls j) i
      simp only [if_true] at h
      rw [tableMatcher_step_hp, tableMatcher_step_start t s (ls i) h0] at h
      rcases h.2 with h2 | h2 <;> exact h2
    · have hm' : i ∈ sched := by
        rcases List.mem_cons.mp hm with h | h
        · exact absurd h hik
        · exact h
      have h := ih ((tableMatcher t).step s (ls k)).1 (fun j => if j = k then ((tableMatcher t).step s (ls k)).2 else ls j) i
      simp only [hik, if_false] at h
      exact h h0 hm'

/-! ## §3 -/

/-- the two cells agree with the table: the remembered answer is the table's answer for the remembered key -/
def SlotsAgree (t : Option CredTable) (s : LastSlots) : Prop :=
  ∀ k, s.key = some k → s.val = matchHostport t k

theorem lookupAlone_twoSlot (t : Option CredTable) (s : LastSlots) (hp : Bytes) (hs : SlotsAgree t s) :
    (lookupAlone (twoSlotCache t) s hp).2.pc = .done (matchHostport t hp) ∧
    SlotsAgree t (lookupAlone (twoSlotCache t) s hp).1 := by
  unfold lookupAlone twoSlotCache
  by_cases hk : s.key = some hp
  · simp only [hk, if_true]
    refine ⟨by rw [hs hp hk], ?_⟩
    exact hs
  · simp only [hk, if_false]
    refine ⟨trivial, ?_⟩
    intro k hk'
    simp only [Option.some.injEq] at hk'
    subst hk'
    rfl

/-! ## §4 -/

theorem writtenCells_cons (cells : List ProxyURL) (op : HistOp) (ops : List HistOp) :
    writtenCells cells (op :: ops) = writtenCells (callerStep cells op) ops := rfl

theorem set_self_of_getElem? {α : Type} (l : List α) (i : Nat) (a : α) (h : l[i]? = some a) : l.set i a = l := by
  induction l generalizing i with
  | nil => rfl
  | cons x xs ih =>
    cases i with
    | zero => simp only [List.getElem?_cons_zero, Option.some.injEq] at h; subst h; rfl
    | succ n => simp only [List.getElem?_cons_succ] at h; simp only [List.set_cons_succ, ih n h]

theorem runHist_copy_cells (ops : List HistOp) : ∀ cells : List ProxyURL,
    (runHist ctorCopy cells ops).2 = writtenCells cells ops := by
  induction ops with
  | nil => intro cells; rfl
  | cons op ops ih =>
    intro cells
    cases op with
    | build c t =>
      simp only [runHist, writtenCells_cons, callerStep]
      cases h : cells[c]? with
      | none => simp only [ih]
      | some u => simp only [ctorCopy, set_self_of_getElem? cells c u h, ih]
    | derive src host =>
      simp only [runHist, writtenCells_cons, ih]

theorem runHist_copy_answers (ops : List HistOp) : ∀ (cells : List ProxyURL) (k : Nat),
    (runHist ctorCopy cells ops).1[k]? = if k < ops.length then some (ownAnswer cells ops k) else none := by
  induction ops with
  | nil => intro cells k; simp only [runHist, List.getElem?_nil, List.length_nil, Nat.not_lt_zero, if_false]
  | cons op ops ih =>
    intro cells k
    cases k with
    | zero =>
      simp only [List.length_cons, Nat.zero_lt_succ, if_true]
      cases op with
      | build c t =>
        simp only [runHist, ownAnswer, List.getElem?_cons_zero, List.take_zero, writtenCells, List.foldl_nil]
        cases h : cells[c]? with
        | none => simp only [List.getElem?_cons_zero, Option.map_none]
        | some u => simp only [List.getElem?_cons_zero, ctorCopy, Option.map_some]
      | derive src host =>
        simp only [runHist, ownAnswer, List.getElem?_cons_zero]
    | succ n =>
      have hown : ownAnswer cells (op :: ops) (n + 1) = ownAnswer (callerStep cells op) ops n := by
        simp only [ownAnswer, List.getElem?_cons_succ, List.take_succ_cons, writtenCells_cons]
      rw [hown]
      simp only [List.length_cons, Nat.add_lt_add_iff_right]
      cases op with
      | build c t =>
        simp only [runHist, callerStep]
        cases h : cells[c]? with
        | none => simp only [List.getElem?_cons_succ, ih]
        | some u => simp only [List.getElem?_cons_succ, ctorCopy, set_self_of_getElem? cells c u h, ih]
      | derive src host =>
        simp only [runHist, List.getElem?_cons_succ, ih]

end C06
end FwdVerif
