/-
  C02 — lemmas about the status-line model (`Model/RespStatus.lean`) and the relay-limit model
  (`Model/RespRelay.lean`).  Core Lean only.
-/
import FwdVerif.Model.RespStatus
import FwdVerif.Model.RespRelay
import FwdVerif.Lemmas.RespDec

namespace FwdVerif
namespace Resp
namespace StatusLine

open Req (natToDec)

/-! ### digits -/

theorem digit_toNat (n : Nat) : (digit n).toNat = 48 + n % 10 := by
  unfold digit
  rw [UInt8.toNat_ofNat']
  omega

theorem digitVal?_digit (n : Nat) : digitVal? (digit n) = some (n % 10) := by
  unfold digitVal?
  rw [digit_toNat]
  have h : 48 ≤ 48 + n % 10 ∧ 48 + n % 10 ≤ 57 := by omega
  rw [if_pos h]
  congr 1
  omega

theorem digit_beq_false (n : Nat) (c : UInt8) (h : c.toNat < 48 ∨ 57 < c.toNat) : (digit n == c) = false := by
  rw [beq_eq_false_iff_ne]
  intro e
  have := digit_toNat n
  rw [e] at this
  omega

theorem digit_ne_sp (n : Nat) : (digit n == 32) = false := digit_beq_false n 32 (Or.inl (by decide))
theorem digit_ne_minus (n : Nat) : (digit n == 45) = false := digit_beq_false n 45 (Or.inl (by decide))
theorem digit_ne_plus (n : Nat) : (digit n == 43) = false := digit_beq_false n 43 (Or.inl (by decide))

/-! ### the reader -/

theorem cutSp_cons_ne {c : UInt8} (h : (c == 32) = false) (cs : Bytes) :
    cutSp (c :: cs) = (c :: (cutSp cs).1, (cutSp cs).2.1, (cutSp cs).2.2) := by
  rw [cutSp, h]; rfl

theorem cutSp_sp (cs : Bytes) : cutSp (32 :: cs) = ([], cs, true) := by
  rw [cutSp]; rfl

theorem cutSp_nil : cutSp [] = ([], [], false) := rfl

theorem cutSp_code_sp (a b c : Nat) (rest : Bytes) :
    cutSp (digit a :: digit b :: digit c :: 32 :: rest) = ([digit a, digit b, digit c], rest, true) := by
  rw [cutSp_cons_ne (digit_ne_sp a), cutSp_cons_ne (digit_ne_sp b), cutSp_cons_ne (digit_ne_sp c), cutSp_sp]

theorem cutSp_code_bare (a b c : Nat) :
    cutSp [digit a, digit b, digit c] = ([digit a, digit b, digit c], [], false) := by
  rw [cutSp_cons_ne (digit_ne_sp a), cutSp_cons_ne (digit_ne_sp b), cutSp_cons_ne (digit_ne_sp c), cutSp_nil]

theorem cutSp_version (m : Nat) (rest : Bytes) :
    cutSp (72 :: 84 :: 84 :: 80 :: 47 :: 49 :: 46 :: digit m :: 32 :: rest) =
      ([72, 84, 84, 80, 47, 49, 46, digit m], rest, true) := by
  rw [cutSp_cons_ne (by decide), cutSp_cons_ne (by decide), cutSp_cons_ne (by decide), cutSp_cons_ne (by decide),
    cutSp_cons_ne (by decide), cutSp_cons_ne (by decide), cutSp_cons_ne (by decide), cutSp_cons_ne (digit_ne_sp m),
    cutSp_sp]

theorem trimLeftSp_digit (a : Nat) (rest : Bytes) : trimLeftSp (digit a :: rest) = digit a :: rest := by
  unfold trimLeftSp
  rw [List.dropWhile_cons, digit_ne_sp a]
  rfl

theorem trimLeftSp_blanks_digit (k a : Nat) (rest : Bytes) :
    trimLeftSp (List.replicate k 32 ++ digit a :: rest) = digit a :: rest := by
  unfold trimLeftSp
  induction k with
  | zero =>
    show List.dropWhile _ (digit a :: rest) = _
    rw [List.dropWhile_cons, digit_ne_sp a]
    rfl
  | succ k ih =>
    rw [List.replicate_succ, List.cons_append, List.dropWhile_cons]
    simpa using ih

theorem atoi3_digits (a b c : Nat) :
    atoi3 [digit a, digit b, digit c] = some (a % 10 * 100 + b % 10 * 10 + c % 10) := by
  unfold atoi3
  simp only [digit_ne_minus, digit_ne_plus, digitVal?_digit, Bool.false_eq_true, if_false]

theorem atoi3_dec3 {s : Nat} (h : s < 1000) : atoi3 (dec3 s) = some s := by
  unfold dec3
  rw [atoi3_digits]
  congr 1
  omega

theorem parseVersion_1 (m : Nat) : parseVersion [72, 84, 84, 80, 47, 49, 46, digit m] = some (1, m % 10) := by
  unfold parseVersion
  simp only [digitVal?_digit]
  rfl

/-! ### `Itoa` and `%03d` of a three-digit code -/

theorem digitByte_digitChar {k : Nat} (h : k < 10) : digitByte (Nat.digitChar k) = UInt8.ofNat (48 + k) := by
  have : k = 0 ∨ k = 1 ∨ k = 2 ∨ k = 3 ∨ k = 4 ∨ k = 5 ∨ k = 6 ∨ k = 7 ∨ k = 8 ∨ k = 9 := by omega
  rcases this with rfl | rfl | rfl | rfl | rfl | rfl | rfl | rfl | rfl | rfl <;> decide

theorem digitByte_digitChar_mod (n : Nat) : digitByte (Nat.digitChar (n % 10)) = digit n :=
  digitByte_digitChar (Nat.mod_lt _ (by decide))

theorem itoa_lt10 {m : Nat} (h : m < 10) : itoa m = [digit m] := by
  unfold itoa
  rw [natToDec_eq, Nat.toDigits_of_lt_base h, List.map_singleton, ← digitByte_digitChar_mod,
    Nat.mod_eq_of_lt h]

theorem itoa_three {s : Nat} (h1 : 100 ≤ s) (h2 : s < 1000) : itoa s = dec3 s := by
  unfold itoa dec3
  have a : 10 ≤ s := by omega
  have b : 10 ≤ s / 10 := by omega
  have c : s / 10 / 10 < 10 := by omega
  rw [natToDec_eq, Nat.toDigits_of_base_le (by decide) a, Nat.toDigits_of_base_le (by decide) b,
    Nat.toDigits_of_lt_base c]
  have e : s / 10 / 10 = s / 100 % 10 := by omega
  rw [e]
  simp only [List.cons_append, List.nil_append, List.map_cons, List.map_nil, digitByte_digitChar_mod]

theorem pad3_three {s : Nat} (h1 : 100 ≤ s) (h2 : s < 1000) : pad3 s = dec3 s := by
  unfold pad3
  rw [itoa_three h1 h2]
  rfl

theorem formatLine_eq {m s : Nat} (hm : m < 10) (h1 : 100 ≤ s) (h2 : s < 1000) (text : Bytes) :
    formatLine 1 m s text = statusLine m s text := by
  unfold formatLine statusLine
  rw [itoa_lt10 (by decide : 1 < 10), itoa_lt10 hm, pad3_three h1 h2]
  rfl

/-! ### `TrimPrefix` -/

theorem trimPrefix_append (p t : Bytes) : trimPrefix (p ++ t) p = t := by
  unfold trimPrefix
  have : p.isPrefixOf (p ++ t) = true := List.isPrefixOf_iff_prefix.mpr (List.prefix_append p t)
  rw [this, if_pos rfl, List.drop_left]

theorem trimPrefix_short {s p : Bytes} (h : s.length < p.length) : trimPrefix s p = s := by
  unfold trimPrefix
  have : p.isPrefixOf s = false := by
    rw [Bool.eq_false_iff]
    intro hp
    have := (List.isPrefixOf_iff_prefix.mp hp).length_le
    omega
  rw [this]
  rfl

/-! ### reading the three regular forms -/

theorem read_originLineBlanks (k : Nat) {m s : Nat} (hm : m < 10) (h2 : s < 1000) (reason : Bytes) :
    readStatusLine (originLineBlanks k m s reason) =
      some { major := 1, minor := m, code := s, status := dec3 s ++ 32 :: reason } := by
  unfold readStatusLine originLineBlanks
  rw [cutSp_version]
  simp only [Bool.not_true, Bool.false_eq_true, if_false]
  have e : List.replicate k 32 ++ dec3 s ++ 32 :: reason =
      List.replicate k 32 ++ digit (s / 100) :: (digit (s / 10) :: digit s :: 32 :: reason) := by
    simp [dec3]
  rw [e, trimLeftSp_blanks_digit, cutSp_code_sp]
  have ha := atoi3_dec3 h2
  unfold dec3 at ha
  simp only [List.length_cons, List.length_nil, bne_self_eq_false, Bool.false_eq_true, if_false, ha,
    parseVersion_1, Nat.mod_eq_of_lt hm]
  rfl

theorem read_originLine {m s : Nat} (hm : m < 10) (h2 : s < 1000) (reason : Bytes) :
    readStatusLine (originLine m s reason) =
      some { major := 1, minor := m, code := s, status := dec3 s ++ 32 :: reason } := by
  have := read_originLineBlanks 0 hm h2 reason
  simpa [originLineBlanks, originLine] using this

theorem read_originLineBare {m s : Nat} (hm : m < 10) (h2 : s < 1000) :
    readStatusLine (originLineBare m s) = some { major := 1, minor := m, code := s, status := dec3 s } := by
  have ha := atoi3_dec3 h2
  unfold dec3 at ha
  unfold readStatusLine originLineBare dec3
  rw [cutSp_version]
  simp only [Bool.not_true, Bool.false_eq_true, if_false]
  rw [trimLeftSp_digit, cutSp_code_bare]
  simp only [List.length_cons, List.length_nil, bne_self_eq_false, Bool.false_eq_true, if_false, ha,
    parseVersion_1, Nat.mod_eq_of_lt hm]

/-! ### the writers on what was read -/

theorem dec3_ne_nil (s : Nat) (t : Bytes) : (dec3 s ++ t).isEmpty = false := rfl

theorem write_phrase (st : Nat → Bytes) {m s : Nat} (hm : m < 10) (h1 : 100 ≤ s) (h2 : s < 1000) (reason : Bytes) :
    responseWriteLine st { major := 1, minor := m, code := s, status := dec3 s ++ 32 :: reason } =
      statusLine m s reason := by
  unfold responseWriteLine
  simp only [dec3_ne_nil, Bool.false_eq_true, if_false]
  rw [itoa_three h1 h2, show dec3 s ++ 32 :: reason = (dec3 s ++ [32]) ++ reason by simp, trimPrefix_append,
    formatLine_eq hm h1 h2]

theorem write_bare (st : Nat → Bytes) {m s : Nat} (hm : m < 10) (h1 : 100 ≤ s) (h2 : s < 1000) :
    responseWriteLine st { major := 1, minor := m, code := s, status := dec3 s } = statusLine m s (dec3 s) := by
  unfold responseWriteLine
  have e : (dec3 s).isEmpty = false := rfl
  simp only [e, Bool.false_eq_true, if_false]
  rw [itoa_three h1 h2, trimPrefix_short (by simp [dec3]), formatLine_eq hm h1 h2]

/-- the two writers are the same function of what was read -/
theorem headerOnlyLine_eq (st : Nat → Bytes) (r : Read) : headerOnlyLine st r = responseWriteLine st r := rfl

/-- `Response.Status` as read from the wire is never empty -/
theorem read_status_ne_nil {line : Bytes} {r : Read} (h : readStatusLine line = some r) : r.status.isEmpty = false := by
  unfold readStatusLine at h
  simp only at h
  split at h
  · exact absurd h (by simp)
  · split at h
    · exact absurd h (by simp)
    · rename_i hlen
      split at h
      · exact absurd h (by simp)
      · split at h
        · exact absurd h (by simp)
        · simp only [Option.some.injEq] at h
          subst h
          simp only
          cases hs : trimLeftSp (cutSp line).2.1 with
          | nil => rw [hs] at hlen; simp [cutSp] at hlen
          | cons _ _ => rfl

/-! ### the cutset variant -/

theorem statusLine_inj (m s : Nat) (x y : Bytes) : statusLine m s x = statusLine m s y ↔ x = y := by
  unfold statusLine
  simp

theorem dropWhile_eq_self_iff (p : UInt8 → Bool) (l : Bytes) :
    l.dropWhile p = l ↔ (match l with | [] => True | c :: _ => p c = false) := by
  cases l with
  | nil => simp
  | cons c l =>
    by_cases h : p c = true
    · simp only [List.dropWhile_cons, h, if_true]
      constructor
      · intro e
        have := (List.dropWhile_sublist (l := l) p).length_le
        rw [e] at this
        simp at this
        omega
      · intro e; simp at e
    · simp only [Bool.not_eq_true] at h
      simp [h]

theorem trimLeftSet_status (s : Nat) (reason : Bytes) :
    trimLeftSet (dec3 s ++ 32 :: reason) (dec3 s ++ [32]) =
      reason.dropWhile (fun c => (dec3 s ++ [32]).contains c) := by
  unfold trimLeftSet dec3
  simp

theorem cutset_line_iff (st : Nat → Bytes) {m s : Nat} (hm : m < 10) (h1 : 100 ≤ s) (h2 : s < 1000) (reason : Bytes) :
    headerOnlyLineTrimLeft st { major := 1, minor := m, code := s, status := dec3 s ++ 32 :: reason } =
        statusLine m s reason ↔
      (match reason with | [] => True | c :: _ => (dec3 s ++ [32]).contains c = false) := by
  unfold headerOnlyLineTrimLeft
  simp only [dec3_ne_nil, Bool.false_eq_true, if_false]
  rw [itoa_three h1 h2, trimLeftSet_status, formatLine_eq hm h1 h2, statusLine_inj, dropWhile_eq_self_iff]

end StatusLine

namespace Relay

theorem writeOK_none (t : Nat) : writeOK none t = true := rfl

theorem relay_none (ws : List (Nat × Bytes)) : relay none ws = ws.map (·.2) := by
  induction ws with
  | nil => rfl
  | cons w ws ih =>
    obtain ⟨t, b⟩ := w
    rw [relay, writeOK_none, if_pos rfl, ih]
    rfl

theorem complete_none (ws : List (Nat × Bytes)) : complete none ws = true := by
  unfold complete
  rw [List.all_eq_true]
  intro w _
  rfl

theorem relay_of_complete {dl : Option Nat} {ws : List (Nat × Bytes)} (h : complete dl ws = true) :
    relay dl ws = ws.map (·.2) := by
  induction ws with
  | nil => rfl
  | cons w ws ih =>
    obtain ⟨t, b⟩ := w
    unfold complete at h
    rw [List.all_cons, Bool.and_eq_true] at h
    rw [relay, if_pos h.1, ih h.2]
    rfl

theorem complete_of_relay {dl : Option Nat} {ws : List (Nat × Bytes)} (h : (relay dl ws).length = ws.length) :
    complete dl ws = true := by
  induction ws with
  | nil => rfl
  | cons w ws ih =>
    obtain ⟨t, b⟩ := w
    unfold complete
    rw [List.all_cons, Bool.and_eq_true]
    rw [relay] at h
    by_cases hw : writeOK dl t = true
    · rw [if_pos hw, List.length_cons, List.length_cons] at h
      exact ⟨hw, ih (by omega)⟩
    · rw [if_neg hw] at h
      simp at h

end Relay
end Resp
end FwdVerif
