/-
  C02 — the transport's response read (`readResponse`) taken apart (core Lean only).

  `readResponse` is one `do` block; here it is split into named stages (`rrConn`, `rrChunked`,
  `rrCL`, `rrN`, `rrLen`, `rrTrailer`, `rrFinish`), shown equal to the model's definition
  (`readResponse_eq`), and the facts the property theorems need are derived stage by stage.
-/
import FwdVerif.Lemmas.RespLit
import FwdVerif.Lemmas.RespMap

namespace FwdVerif
namespace Resp

open Ascii
open C16 (HMap goDel goSet goAdd CanonKeys NodupKeys)
open Req (bs hget goGet trimOWS splitComma valuesContainToken parseNat? toHeader)

/-! ### stages -/

/-- `shouldClose(…, removeCloseHeader = true)`: (close0, h1) -/
def rrConn (o : OriginResp) : Bool × HMap :=
  let h0 := toHeader o.fields
  let conn := hget h0 (bs "Connection")
  let hasClose := valuesContainToken conn (bs "close")
  if o.minor == 0 then (hasClose || !valuesContainToken conn (bs "keep-alive"), h0)
  else (hasClose, if hasClose then goDel h0 (bs "Connection") else h0)

def rrChunked (o : OriginResp) (te : Option (List Bytes)) : Option Bool :=
  match te with
  | none => some false
  | some vs =>
    if o.minor == 0 then some false
    else match vs with
      | [v] => if eqFold v (bs "chunked") then some true else none
      | _ => none

def rrCL (h2 : HMap) : Option (HMap × List Bytes) :=
  match hget h2 (bs "Content-Length") with
  | [] => some (h2, [])
  | [c] => some (h2, [c])
  | c :: rest =>
    if rest.all (fun x => trimOWS x == trimOWS c) then
      some (goSet (goDel h2 (bs "Content-Length")) (bs "Content-Length") (trimOWS c), [trimOWS c])
    else none

def rrN (cls : List Bytes) : Option (Option Nat) :=
  match cls with
  | [] => some none
  | c :: _ => match parseNat? (trimOWS c) with
    | some n => some (some n)
    | none => none

def rrLen (rc : ReqCtx) (o : OriginResp) (chunked : Bool) (h3 : HMap) (n? : Option Nat) : HMap × Int :=
  if rc.method == bs "HEAD" || !bodyAllowed o.status then (h3, 0)
  else if chunked then (goDel h3 (bs "Content-Length"), -1)
  else match n? with
    | some n => (h3, (n : Int))
    | none => (h3, -1)

/-- `fixTrailer`: the declared trailer names -/
def trailerNames (vs : List Bytes) : List Bytes :=
  (vs.flatMap fun v => (splitComma v).map (fun k => canonicalKey (trimOWS k))).filter (fun k => !k.isEmpty)

def rrTrailer (chunked : Bool) (h4 : HMap) : HMap × List Bytes :=
  match HMap.get h4 (bs "Trailer") with
  | none => (h4, [])
  | some vs =>
    if !chunked then (h4, [])
    else (goDel h4 (bs "Trailer"), trailerNames vs)

def rrGz (rc : ReqCtx) (o : OriginResp) (chunked : Bool) (n? : Option Nat) (real : Int) (h5 : HMap) : Bool :=
  let isHead := rc.method == bs "HEAD"
  let len : Int := if isHead then (match n? with | some n => (n : Int) | none => -1) else real
  let hasBody0 := if chunked then !(isHead || !bodyAllowed o.status) else real != 0
  hasBody0 && !isHead && len != 0 && rc.solicitedGzip && eqFold (goGet h5 (bs "Content-Encoding")) (bs "gzip")

def rrFinish (rc : ReqCtx) (o : OriginResp) (close0 chunked : Bool) (n? : Option Nat) (real : Int)
    (h5 : HMap) (trailer : List Bytes) : GoResp :=
  let isHead := rc.method == bs "HEAD"
  let len : Int := if isHead then (match n? with | some n => (n : Int) | none => -1) else real
  let close1 := close0 || (real == -1 && !chunked && bodyAllowed o.status)
  let hasBody0 := if chunked then !(isHead || !bodyAllowed o.status) else real != 0
  let gz := rrGz rc o chunked n? real h5
  let (h6, len, unc) : HMap × Int × Bool :=
    if gz then (goDel (goDel h5 (bs "Content-Encoding")) (bs "Content-Length"), -1, true) else (h5, len, false)
  { minor := o.minor, status := o.status, reason := o.reason, header := h6, contentLength := len,
    chunked := chunked, close := close1, trailer := trailer, uncompressed := unc, hasBody := hasBody0 }

/-- the part of `readResponse` after the chunked decision, same `do` structure -/
def readTailS (rc : ReqCtx) (o : OriginResp) (c : Bool × HMap) (chunked : Bool) : Option GoResp := do
  let h2 := goDel c.2 (bs "Transfer-Encoding")
  let cls := hget h2 (bs "Content-Length")
  let (h3, cls) ← match cls with
    | [] => some (h2, cls)
    | [_] => some (h2, cls)
    | c :: rest =>
      if rest.all (fun x => trimOWS x == trimOWS c) then
        some (goSet (goDel h2 (bs "Content-Length")) (bs "Content-Length") (trimOWS c), [trimOWS c])
      else none
  let n? ← match cls with
    | [] => some (none : Option Nat)
    | c :: _ => match parseNat? (trimOWS c) with
      | some n => some (some n)
      | none => none
  let l := rrLen rc o chunked h3 n?
  let t := rrTrailer chunked l.1
  if t.2.any (fun k => k == bs "Transfer-Encoding" || k == bs "Trailer" || k == bs "Content-Length") then none
  some (rrFinish rc o c.1 chunked n? l.2 t.1 t.2)

/-- `readResponse` written with the stages, same `do` structure -/
def readResponseS (rc : ReqCtx) (o : OriginResp) : Option GoResp := do
  let c := rrConn o
  let te := HMap.get c.2 (bs "Transfer-Encoding")
  let chunked ← match te with
    | none => some false
    | some vs =>
      if o.minor == 0 then some false
      else match vs with
        | [v] => if eqFold v (bs "chunked") then some true else none
        | _ => none
  readTailS rc o c chunked

theorem readResponse_eqS (rc : ReqCtx) (o : OriginResp) : readResponse rc o = readResponseS rc o := rfl

/-- the tail composed with `Option.bind` -/
def readTailB (rc : ReqCtx) (o : OriginResp) (c : Bool × HMap) (chunked : Bool) : Option GoResp :=
  (rrCL (goDel c.2 (bs "Transfer-Encoding"))).bind fun p =>
  (rrN p.2).bind fun n? =>
    if (rrTrailer chunked (rrLen rc o chunked p.1 n?).1).2.any
        (fun k => k == bs "Transfer-Encoding" || k == bs "Trailer" || k == bs "Content-Length") then none
    else some (rrFinish rc o c.1 chunked n? (rrLen rc o chunked p.1 n?).2
        (rrTrailer chunked (rrLen rc o chunked p.1 n?).1).1 (rrTrailer chunked (rrLen rc o chunked p.1 n?).1).2)

theorem readTail_eq (rc : ReqCtx) (o : OriginResp) (c : Bool × HMap) (chunked : Bool) :
    readTailS rc o c chunked = readTailB rc o c chunked := by
  unfold readTailS readTailB rrCL rrN
  simp only [bind]
  repeat' split
  all_goals (try simp_all)
  all_goals (split <;> simp_all)

/-- the stages composed with `Option.bind` -/
def readResponseB (rc : ReqCtx) (o : OriginResp) : Option GoResp :=
  (rrChunked o (HMap.get (rrConn o).2 (bs "Transfer-Encoding"))).bind fun chunked =>
  (rrCL (goDel (rrConn o).2 (bs "Transfer-Encoding"))).bind fun p =>
  (rrN p.2).bind fun n? =>
    if (rrTrailer chunked (rrLen rc o chunked p.1 n?).1).2.any
        (fun k => k == bs "Transfer-Encoding" || k == bs "Trailer" || k == bs "Content-Length") then none
    else some (rrFinish rc o (rrConn o).1 chunked n? (rrLen rc o chunked p.1 n?).2
        (rrTrailer chunked (rrLen rc o chunked p.1 n?).1).1 (rrTrailer chunked (rrLen rc o chunked p.1 n?).1).2)

theorem readResponse_eq (rc : ReqCtx) (o : OriginResp) : readResponse rc o = readResponseB rc o := by
  have h : readResponse rc o =
      (rrChunked o (HMap.get (rrConn o).2 (bs "Transfer-Encoding"))).bind (readTailB rc o (rrConn o)) := by
    rw [readResponse_eqS]
    unfold readResponseS rrChunked
    simp only [bind, readTail_eq]
    repeat' split
    all_goals rfl
  exact h

/-- what a successful read consists of -/
structure ReadOK (rc : ReqCtx) (o : OriginResp) (g : GoResp) where
  chunked : Bool
  h3 : HMap
  cls : List Bytes
  n? : Option Nat
  hch : rrChunked o (HMap.get (rrConn o).2 (bs "Transfer-Encoding")) = some chunked
  hcl : rrCL (goDel (rrConn o).2 (bs "Transfer-Encoding")) = some (h3, cls)
  hn : rrN cls = some n?
  htr : (rrTrailer chunked (rrLen rc o chunked h3 n?).1).2.any
      (fun k => k == bs "Transfer-Encoding" || k == bs "Trailer" || k == bs "Content-Length") = false
  hg : g = rrFinish rc o (rrConn o).1 chunked n? (rrLen rc o chunked h3 n?).2
      (rrTrailer chunked (rrLen rc o chunked h3 n?).1).1 (rrTrailer chunked (rrLen rc o chunked h3 n?).1).2

theorem readResponse_some {rc : ReqCtx} {o : OriginResp} {g : GoResp} (h : readResponse rc o = some g) :
    Nonempty (ReadOK rc o g) := by
  rw [readResponse_eq] at h
  unfold readResponseB at h
  simp only [Option.bind_eq_some_iff] at h
  obtain ⟨chunked, hch, ⟨h3, cls⟩, hcl, n?, hn, h⟩ := h
  split at h
  · exact absurd h (by simp)
  · rename_i htr
    exact ⟨⟨chunked, h3, cls, n?, hch, hcl, hn, by simpa using htr, (Option.some.inj h).symm⟩⟩

/-! ### literal keys -/

theorem ck_Connection : canonicalKey (bs "Connection") = bs "Connection" := by bs_norm; decide
theorem ck_TE : canonicalKey (bs "Transfer-Encoding") = bs "Transfer-Encoding" := by bs_norm; decide
theorem ck_CL : canonicalKey (bs "Content-Length") = bs "Content-Length" := by bs_norm; decide
theorem ck_Trailer : canonicalKey (bs "Trailer") = bs "Trailer" := by bs_norm; decide
theorem ck_CE : canonicalKey (bs "Content-Encoding") = bs "Content-Encoding" := by bs_norm; decide
theorem ck_Upgrade : canonicalKey (bs "Upgrade") = bs "Upgrade" := by bs_norm; decide

theorem tok_Connection : (bs "Connection").all isTokenByte = true := by bs_norm; decide
theorem tok_Upgrade : (bs "Upgrade").all isTokenByte = true := by bs_norm; decide
theorem tok_CE : (bs "Content-Encoding").all isTokenByte = true := by bs_norm; decide
theorem tok_TE : (bs "Transfer-Encoding").all isTokenByte = true := by bs_norm; decide
theorem tok_CL : (bs "Content-Length").all isTokenByte = true := by bs_norm; decide
theorem tok_Trailer : (bs "Trailer").all isTokenByte = true := by bs_norm; decide

/-! ### maps derived from one another by Del/Set/Add on a set of keys -/

structure Derived (S : List Bytes) (a b : HMap) : Prop where
  canon : CanonKeys a → CanonKeys b
  nodup : NodupKeys a → NodupKeys b
  tok : TokKeys a → TokKeys b
  agree : ∀ k, k ∉ S → b.lookup k = a.lookup k

theorem Derived.refl (S : List Bytes) (a : HMap) : Derived S a a := ⟨id, id, id, fun _ _ => rfl⟩

theorem Derived.trans {S : List Bytes} {a b c : HMap} (h1 : Derived S a b) (h2 : Derived S b c) :
    Derived S a c :=
  ⟨fun h => h2.canon (h1.canon h), fun h => h2.nodup (h1.nodup h), fun h => h2.tok (h1.tok h),
   fun k hk => (h2.agree k hk).trans (h1.agree k hk)⟩

theorem Derived.mono {S T : List Bytes} {a b : HMap} (h : Derived S a b) (hst : ∀ k ∈ S, k ∈ T) :
    Derived T a b :=
  ⟨h.canon, h.nodup, h.tok, fun k hk => h.agree k (fun hs => hk (hst k hs))⟩

theorem Derived.del {S : List Bytes} (a : HMap) (n : Bytes) (hn : canonicalKey n ∈ S) :
    Derived S a (goDel a n) :=
  ⟨canonKeys_goDel n, nodupKeys_goDel n, tokKeys_goDel n, fun k hk => by
    rw [lookup_goDel, if_neg (fun h' : k = canonicalKey n => hk (h' ▸ hn))]⟩

theorem Derived.set {S : List Bytes} (a : HMap) (n v : Bytes) (hn : canonicalKey n ∈ S)
    (ht : n.all isTokenByte = true) : Derived S a (goSet a n v) :=
  ⟨canonKeys_goSet n v, nodupKeys_goSet n v, tokKeys_goSet v ht, fun k hk => by
    rw [lookup_goSet, if_neg (fun h' : k = canonicalKey n => hk (h' ▸ hn))]⟩

theorem Derived.add {S : List Bytes} (a : HMap) (n v : Bytes) (hn : canonicalKey n ∈ S)
    (ht : n.all isTokenByte = true) : Derived S a (goAdd a n v) :=
  ⟨canonKeys_goAdd n v, nodupKeys_goAdd n v, tokKeys_goAdd v ht, fun k hk => by
    rw [lookup_goAdd, if_neg (fun h' : k = canonicalKey n => hk (h' ▸ hn))]⟩

theorem Derived.ite {S : List Bytes} {a b c : HMap} (p : Prop) [Decidable p] (h1 : Derived S a b)
    (h2 : Derived S a c) : Derived S a (if p then b else c) := by
  split <;> assumption

/-! ### the header through the stages -/

theorem rrConn_derived (o : OriginResp) :
    Derived [bs "Connection"] (toHeader o.fields) (rrConn o).2 := by
  unfold rrConn
  simp only
  split
  · exact Derived.refl _ _
  · exact Derived.ite _ (Derived.del _ _ (by rw [ck_Connection]; simp)) (Derived.refl _ _)

theorem rrCL_derived {h2 h3 : HMap} {cls : List Bytes} (h : rrCL h2 = some (h3, cls)) :
    Derived [bs "Content-Length"] h2 h3 := by
  unfold rrCL at h
  split at h
  · cases h; exact Derived.refl _ _
  · cases h; exact Derived.refl _ _
  · split at h
    · cases h
      exact (Derived.del _ _ (by rw [ck_CL]; simp)).trans (Derived.set _ _ _ (by rw [ck_CL]; simp) tok_CL)
    · exact absurd h (by simp)

theorem rrLen_derived (rc : ReqCtx) (o : OriginResp) (chunked : Bool) (h3 : HMap) (n? : Option Nat) :
    Derived [bs "Content-Length"] h3 (rrLen rc o chunked h3 n?).1 := by
  unfold rrLen
  split
  · exact Derived.refl _ _
  · split
    · exact Derived.del _ _ (by rw [ck_CL]; simp)
    · split <;> exact Derived.refl _ _

theorem rrTrailer_derived (chunked : Bool) (h4 : HMap) :
    Derived [bs "Trailer"] h4 (rrTrailer chunked h4).1 := by
  unfold rrTrailer
  split
  · exact Derived.refl _ _
  · split
    · exact Derived.refl _ _
    · exact Derived.del _ _ (by rw [ck_Trailer]; simp)

/-- keys the read may touch after the `Connection` stage -/
def framingKeys : List Bytes :=
  [bs "Transfer-Encoding", bs "Content-Length", bs "Trailer"]

theorem rrFinish_header (rc : ReqCtx) (o : OriginResp) (close0 chunked : Bool) (n? : Option Nat)
    (real : Int) (h5 : HMap) (trailer : List Bytes) :
    (rrFinish rc o close0 chunked n? real h5 trailer).header =
      if rrGz rc o chunked n? real h5 then goDel (goDel h5 (bs "Content-Encoding")) (bs "Content-Length")
      else h5 := by
  unfold rrFinish
  simp only
  split <;> rfl

theorem rrFinish_uncompressed (rc : ReqCtx) (o : OriginResp) (close0 chunked : Bool) (n? : Option Nat)
    (real : Int) (h5 : HMap) (trailer : List Bytes) :
    (rrFinish rc o close0 chunked n? real h5 trailer).uncompressed = rrGz rc o chunked n? real h5 := by
  unfold rrFinish
  simp only
  split <;> simp_all

/-- from `h1` (after the `Connection` stage) to the stage before transparent gzip -/
theorem ReadOK.derived5 {rc : ReqCtx} {o : OriginResp} {g : GoResp} (ok : ReadOK rc o g) :
    Derived framingKeys (rrConn o).2 (rrTrailer ok.chunked (rrLen rc o ok.chunked ok.h3 ok.n?).1).1 := by
  have d2 : Derived framingKeys (rrConn o).2 (goDel (rrConn o).2 (bs "Transfer-Encoding")) :=
    Derived.del _ _ (by rw [ck_TE]; simp [framingKeys])
  have d3 := (rrCL_derived ok.hcl).mono (T := framingKeys) (by simp [framingKeys])
  have d4 := (rrLen_derived rc o ok.chunked ok.h3 ok.n?).mono (T := framingKeys) (by simp [framingKeys])
  have d5 := (rrTrailer_derived ok.chunked (rrLen rc o ok.chunked ok.h3 ok.n?).1).mono (T := framingKeys)
    (by simp [framingKeys])
  exact ((d2.trans d3).trans d4).trans d5

end Resp
end FwdVerif
