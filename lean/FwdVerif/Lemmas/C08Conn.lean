/-
  C08 helper lemmas, part 7: the connection state machine (once-only header read).
-/
import FwdVerif.Lemmas.C08Inv

namespace FwdVerif
namespace C08

def goodConn (st : HdrState) (w : Bytes) : Conn := { wire := w, hdr := some st, runs := 1, crashed := false }

theorem ensure_good (st : HdrState) (w : Bytes) : (goodConn st w).ensure = goodConn st w := by
  simp [Conn.ensure, goodConn]

theorem step_good (st : HdrState) (w : Bytes) (op : Op) :
    ∃ k o, (goodConn st w).step op = (goodConn st (w.drop k), o) ∧ Answer st op o ∧
      dataOf [o] = w.take k ∧ (∀ e, st = .failed e → k = 0) := by
  unfold Conn.step
  rw [ensure_good]
  cases op with
  | read k =>
    cases st with
    | ok h => exact ⟨k, .data (w.take k), rfl, ⟨_, rfl⟩, by simp [dataOf], by intro e he; cases he⟩
    | failed e => exact ⟨0, .fail e, rfl, rfl, rfl, fun _ _ => rfl⟩
  | write =>
    cases st with
    | ok h => exact ⟨0, .wrote, rfl, rfl, rfl, fun _ _ => rfl⟩
    | failed e => exact ⟨0, .fail e, rfl, rfl, rfl, fun _ _ => rfl⟩
  | remoteAddr =>
    cases st with
    | ok h => exact ⟨0, _, rfl, rfl, rfl, fun _ _ => rfl⟩
    | failed e => exact ⟨0, _, rfl, rfl, rfl, fun _ _ => rfl⟩
  | localAddr =>
    cases st with
    | ok h => exact ⟨0, _, rfl, rfl, rfl, fun _ _ => rfl⟩
    | failed e => exact ⟨0, _, rfl, rfl, rfl, fun _ _ => rfl⟩
  | header =>
    cases st with
    | ok h => exact ⟨0, .header h, rfl, rfl, rfl, fun _ _ => rfl⟩
    | failed e => exact ⟨0, .fail e, rfl, rfl, rfl, fun _ _ => rfl⟩

theorem dataOf_cons (o : Out) (os : List Out) : dataOf (o :: os) = dataOf [o] ++ dataOf os := by
  cases o <;> simp [dataOf]

theorem run_good (st : HdrState) : ∀ (ops : List Op) (w : Bytes),
    ((goodConn st w).run ops).1.runs = 1 ∧ ((goodConn st w).run ops).1.crashed = false ∧
    Answers st ops ((goodConn st w).run ops).2 ∧
    dataOf ((goodConn st w).run ops).2 <+: w ∧
    (∀ e, st = .failed e → dataOf ((goodConn st w).run ops).2 = []) := by
  intro ops
  induction ops with
  | nil => intro w; exact ⟨rfl, rfl, Answers.nil, ⟨w, rfl⟩, fun _ _ => rfl⟩
  | cons op ops ih =>
    intro w
    obtain ⟨k, o, hstep, hans, hdata, hfail⟩ := step_good st w op
    obtain ⟨i1, i2, i3, i4, i5⟩ := ih (w.drop k)
    unfold Conn.run
    rw [hstep]
    dsimp only
    refine ⟨i1, i2, Answers.cons hans i3, ?_, ?_⟩
    · rw [dataOf_cons, hdata]
      obtain ⟨t, ht⟩ := i4
      exact ⟨t, by rw [List.append_assoc, ht, List.take_append_drop]⟩
    · intro e he
      rw [dataOf_cons, hdata, i5 e he, hfail e he]
      simp

theorem step_ensure (c : Conn) (op : Op) : c.step op = c.ensure.step op := by
  have idem : c.ensure.ensure = c.ensure := by
    unfold Conn.ensure
    by_cases hc : c.crashed = true
    · simp [hc]
    · simp only [hc, Bool.false_eq_true, if_false]
      cases hh : c.hdr with
      | some st => simp [hh]
      | none =>
        simp only []
        cases hr : readHeader c.wire with
        | ok p => obtain ⟨h, rest⟩ := p; simp
        | err e => simp
        | panic => simp
  unfold Conn.step
  rw [idem]

/-- what is left on the wire after the header read -/
def wireAfter (bs : Bytes) : Bytes :=
  match readHeader bs with
  | .ok (_, rest) => rest
  | _ => bs

theorem ensure_fresh (bs : Bytes) :
    ({ wire := bs } : Conn).ensure = goodConn (hdrOf bs) (wireAfter bs) := by
  unfold Conn.ensure hdrOf goodConn wireAfter
  have := (readHeader_eq bs).symm ▸ readHeaderS_ne_panic bs
  cases hr : readHeader bs with
  | ok p => obtain ⟨h, rest⟩ := p; simp
  | err e => simp
  | panic => exact absurd hr this

/-- no allowed answer is a nil address -/
theorem Answers.no_missing {st : HdrState} {ops : List Op} {os : List Out} (h : Answers st ops os) :
    ∀ o ∈ os, o ≠ .addr .missing := by
  induction h with
  | nil => intro o ho; cases ho
  | @cons op o ops os ha _ ih =>
    intro x hx
    rcases List.mem_cons.mp hx with e | hx
    · subst e
      intro hm
      subst hm
      cases op with
      | remoteAddr =>
        have : AddrSel.missing = remoteSel st := by simpa [Answer] using ha
        exact (sel_ne_missing st).1 this.symm
      | localAddr =>
        have : AddrSel.missing = localSel st := by simpa [Answer] using ha
        exact (sel_ne_missing st).2 this.symm
      | header => cases st <;> simp [Answer] at ha
      | write => cases st <;> simp [Answer] at ha
      | read k => cases st <;> simp [Answer] at ha
    · exact ih x hx

end C08
end FwdVerif
