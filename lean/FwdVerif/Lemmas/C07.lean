/-
  C07 — helper lemmas and hypothesis predicates for `FwdVerif/Theorems/C07.lean` (core Lean only).

  §1 net.SplitHostPort on the three well-formed authority shapes.
  §2 net.ParseIP: dotted quads are accepted; a string without ':' that has a byte other than a
     digit or '.' is rejected.
  §4 url.URL.Hostname on the well-formed authority shapes (`host:port`, `[v6]:port`, no port).
  §5 a certificate that does not verify for the origin's name: 502, nothing delivered.
  §6 histories on one proxy instance: steps that leave the transport's TLS configuration alone.
  §3 validity window arithmetic; what is ASSUMED of x509 verification (`FreshVerifies`, a hypothesis
     of the theorems — never an axiom) and the certificate served for every cache state / history.
-/
import FwdVerif.Model.C07

namespace FwdVerif
namespace C07

open Ascii

/-! ## §1 SplitHostPort -/

theorem splitLastColon_none {s : Bytes} (h : (58 : UInt8) ∉ s) : splitLastColon s = none := by
  induction s with
  | nil => rfl
  | cons c cs ih =>
    have hc : c ≠ 58 := fun e => h (by simp [e])
    have hcs : (58 : UInt8) ∉ cs := fun m => h (List.mem_cons_of_mem _ m)
    simp [splitLastColon, ih hcs, hc]

theorem splitLastColon_append (h p : Bytes) (hp : (58 : UInt8) ∉ p) :
    splitLastColon (h ++ 58 :: p) = some (h, p) := by
  induction h with
  | nil => simp [splitLastColon, splitLastColon_none hp]
  | cons c cs ih => simp [splitLastColon, ih]

/-- bytes of a host name / port: no ':', '[' or ']' -/
def Plain (s : Bytes) : Prop := (58 : UInt8) ∉ s ∧ (91 : UInt8) ∉ s ∧ (93 : UInt8) ∉ s

theorem splitHostPort_no_colon {s : Bytes} (h : (58 : UInt8) ∉ s) : splitHostPort s = none := by
  simp [splitHostPort, h]

theorem splitHostPort_host_port {h p : Bytes} (hh : Plain h) (hp : Plain p) :
    splitHostPort (h ++ 58 :: p) = some (h, p) := by
  obtain ⟨h1, h2, h3⟩ := hh
  obtain ⟨p1, p2, p3⟩ := hp
  have pl : splitPlain (h ++ 58 :: p) = some (h, p) := by
    simp [splitPlain, splitLastColon_append h p p1, h1, h2, h3, p2, p3]
  unfold splitHostPort
  cases h with
  | nil => simpa using pl
  | cons a as =>
    have ha : a ≠ 91 := fun e => h2 (by simp [e])
    simp only [List.cons_append] at pl ⊢
    split
    · simp at *
    · split
      · rename_i heq
        simp at heq
        exact absurd heq.1 ha
      · exact pl

theorem takeWhile_ne_append {h : Bytes} {c : UInt8} (hc : c ∉ h) (t : Bytes) :
    (h ++ c :: t).takeWhile (· != c) = h := by
  induction h with
  | nil => simp
  | cons a as ih =>
    have ha : a ≠ c := fun e => hc (by simp [e])
    have has : c ∉ as := fun m => hc (List.mem_cons_of_mem _ m)
    simp [ha, ih has]

theorem splitHostPort_bracketed {h p : Bytes} (h2 : (91 : UInt8) ∉ h) (h3 : (93 : UInt8) ∉ h)
    (hp : Plain p) : splitHostPort (91 :: (h ++ 93 :: 58 :: p)) = some (h, p) := by
  obtain ⟨p1, p2, p3⟩ := hp
  have tw := takeWhile_ne_append h3 (58 :: p)
  have dr : (h ++ 93 :: 58 :: p).drop h.length = 93 :: 58 :: p := by simp
  have sb : splitBracket (h ++ 93 :: 58 :: p) = some (h, p) := by
    unfold splitBracket
    simp only [tw, dr]
    simp [p1, p2, p3, h2]
  unfold splitHostPort
  simp [sb]

/-! ## §2 ParseIP -/

/-- decimal digits of an octet -/
def dec (n : Nat) : Bytes :=
  if n < 10 then [UInt8.ofNat (48 + n)]
  else if n < 100 then [UInt8.ofNat (48 + n / 10), UInt8.ofNat (48 + n % 10)]
  else [UInt8.ofNat (48 + n / 100), UInt8.ofNat (48 + n / 10 % 10), UInt8.ofNat (48 + n % 10)]

/-- `a.b.c.d` -/
def dotted (a b c d : Nat) : Bytes := dec a ++ 46 :: (dec b ++ 46 :: (dec c ++ 46 :: dec d))

/-- a decimal octet without leading zero, value ≤ 255 -/
def octetOK : Bytes → Bool
  | [a] => isDigit a
  | [a, b] => isDigit a && isDigit b && a != 48
  | [a, b, c] =>
    isDigit a && isDigit b && isDigit c && a != 48 &&
      decide ((a.toNat - 48) * 100 + (b.toNat - 48) * 10 + (c.toNat - 48) ≤ 255)
  | _ => false

set_option maxRecDepth 100000 in
theorem octetOK_dec : ∀ n : Fin 256, octetOK (dec n.val) = true := by decide

theorem isDigit_iff (c : UInt8) : isDigit c = true ↔ 48 ≤ c.toNat ∧ c.toNat ≤ 57 := by
  simp [isDigit, UInt8.le_iff_toNat_le]

theorem ne48_iff (c : UInt8) : c ≠ 48 ↔ c.toNat ≠ 48 := by
  constructor
  · intro h e; exact h (UInt8.toNat_inj.mp (by simpa using e))
  · intro h e; exact h (by simp [e])

/-- one octet followed by '.' and more input advances to the next field -/
theorem v4Loop_octet_dot {ds : Bytes} (hd : octetOK ds = true) (tail : Bytes)
    (ht : tail.isEmpty = false) (pos : Nat) (hpos : pos < 3) (first pd : Bool) :
    v4Loop (ds ++ 46 :: tail) 0 pos 0 first pd = v4Loop tail 0 (pos + 1) 0 false true := by
  have h46 : isDigit 46 = false := by decide
  have hp3 : (pos == 3) = false := by simp; omega
  match ds, hd with
  | [a], hd =>
    simp only [octetOK] at hd
    have ha := (isDigit_iff a).mp hd
    have f1 : ¬ 255 < a.toNat - 48 := by omega
    simp [v4Loop, hd, h46, hp3, ht, f1]
  | [a, b], hd =>
    simp only [octetOK, Bool.and_eq_true, bne_iff_ne] at hd
    obtain ⟨⟨ha, hb⟩, hz⟩ := hd
    have ha' := (isDigit_iff a).mp ha
    have hb' := (isDigit_iff b).mp hb
    have hz' := (ne48_iff a).mp hz
    have f1 : ¬ 255 < a.toNat - 48 := by omega
    have f2 : ¬ a.toNat - 48 = 0 := by omega
    have f3 : ¬ 255 < (a.toNat - 48) * 10 + (b.toNat - 48) := by omega
    simp [v4Loop, ha, hb, h46, hp3, ht, f1, f2, f3]
  | [a, b, c], hd =>
    simp only [octetOK, Bool.and_eq_true, bne_iff_ne, decide_eq_true_eq] at hd
    obtain ⟨⟨⟨⟨ha, hb⟩, hc⟩, hz⟩, hv⟩ := hd
    have ha' := (isDigit_iff a).mp ha
    have hb' := (isDigit_iff b).mp hb
    have hc' := (isDigit_iff c).mp hc
    have hz' := (ne48_iff a).mp hz
    have f1 : ¬ 255 < a.toNat - 48 := by omega
    have f2 : ¬ a.toNat - 48 = 0 := by omega
    have f3 : ¬ 255 < (a.toNat - 48) * 10 + (b.toNat - 48) := by omega
    have f4 : ¬ 255 < ((a.toNat - 48) * 10 + (b.toNat - 48)) * 10 + (c.toNat - 48) := by omega
    simp [v4Loop, ha, hb, hc, h46, hp3, ht, f1, f2, f3, f4]

theorem v4Loop_octet_end {ds : Bytes} (hd : octetOK ds = true) (first pd : Bool) :
    v4Loop ds 0 3 0 first pd = true := by
  match ds, hd with
  | [a], hd =>
    simp only [octetOK] at hd
    have ha := (isDigit_iff a).mp hd
    have f1 : ¬ 255 < a.toNat - 48 := by omega
    simp [v4Loop, hd, f1]
  | [a, b], hd =>
    simp only [octetOK, Bool.and_eq_true, bne_iff_ne] at hd
    obtain ⟨⟨ha, hb⟩, hz⟩ := hd
    have ha' := (isDigit_iff a).mp ha
    have hb' := (isDigit_iff b).mp hb
    have hz' := (ne48_iff a).mp hz
    have f1 : ¬ 255 < a.toNat - 48 := by omega
    have f2 : ¬ a.toNat - 48 = 0 := by omega
    have f3 : ¬ 255 < (a.toNat - 48) * 10 + (b.toNat - 48) := by omega
    simp [v4Loop, ha, hb, f1, f2, f3]
  | [a, b, c], hd =>
    simp only [octetOK, Bool.and_eq_true, bne_iff_ne, decide_eq_true_eq] at hd
    obtain ⟨⟨⟨⟨ha, hb⟩, hc⟩, hz⟩, hv⟩ := hd
    have ha' := (isDigit_iff a).mp ha
    have hb' := (isDigit_iff b).mp hb
    have hc' := (isDigit_iff c).mp hc
    have hz' := (ne48_iff a).mp hz
    have f1 : ¬ 255 < a.toNat - 48 := by omega
    have f2 : ¬ a.toNat - 48 = 0 := by omega
    have f3 : ¬ 255 < (a.toNat - 48) * 10 + (b.toNat - 48) := by omega
    have f4 : ¬ 255 < ((a.toNat - 48) * 10 + (b.toNat - 48)) * 10 + (c.toNat - 48) := by omega
    simp [v4Loop, ha, hb, hc, f1, f2, f3, f4]

theorem octetOK_isEmpty {ds : Bytes} (h : octetOK ds = true) (t : Bytes) :
    (ds ++ t).isEmpty = false := by
  match ds, h with
  | [a], _ => rfl
  | [a, b], _ => rfl
  | [a, b, c], _ => rfl

theorem parseIPv4_octets {a b c d : Bytes} (ha : octetOK a = true) (hb : octetOK b = true)
    (hc : octetOK c = true) (hd : octetOK d = true) :
    parseIPv4 (a ++ 46 :: (b ++ 46 :: (c ++ 46 :: d))) = true := by
  unfold parseIPv4
  rw [v4Loop_octet_dot ha _ (octetOK_isEmpty hb _) 0 (by omega),
      v4Loop_octet_dot hb _ (octetOK_isEmpty hc _) 1 (by omega),
      v4Loop_octet_dot hc _ (by simpa using octetOK_isEmpty hd []) 2 (by omega)]
  exact v4Loop_octet_end hd false true

theorem parseAddrFrom_digits_dot (whole : Bytes) {ds : Bytes} (hd : octetOK ds = true)
    (rest : Bytes) : parseAddrFrom whole (ds ++ 46 :: rest) = parseIPv4 whole := by
  have nd : ∀ x : UInt8, isDigit x = true → x ≠ 46 ∧ x ≠ 58 ∧ x ≠ 37 := by
    intro x hx
    have := (isDigit_iff x).mp hx
    refine ⟨?_, ?_, ?_⟩ <;> (intro e; subst e; simp at this)
  match ds, hd with
  | [a], hd =>
    simp only [octetOK] at hd
    obtain ⟨a1, a2, a3⟩ := nd a hd
    simp [parseAddrFrom, a1, a2, a3]
  | [a, b], hd =>
    simp only [octetOK, Bool.and_eq_true] at hd
    obtain ⟨a1, a2, a3⟩ := nd a hd.1.1
    obtain ⟨b1, b2, b3⟩ := nd b hd.1.2
    simp [parseAddrFrom, a1, a2, a3, b1, b2, b3]
  | [a, b, c], hd =>
    simp only [octetOK, Bool.and_eq_true] at hd
    obtain ⟨a1, a2, a3⟩ := nd a hd.1.1.1.1
    obtain ⟨b1, b2, b3⟩ := nd b hd.1.1.1.2
    obtain ⟨c1, c2, c3⟩ := nd c hd.1.1.2
    simp [parseAddrFrom, a1, a2, a3, b1, b2, b3, c1, c2, c3]

theorem octetOK_no_percent {ds : Bytes} (hd : octetOK ds = true) : (37 : UInt8) ∉ ds := by
  intro hm
  have h37 : isDigit 37 = false := by decide
  match ds, hd with
  | [a], hd => simp only [octetOK] at hd; simp at hm; subst hm; simp [h37] at hd
  | [a, b], hd =>
    simp only [octetOK, Bool.and_eq_true] at hd
    simp at hm
    rcases hm with e | e <;> subst e <;> simp [h37] at hd
  | [a, b, c], hd =>
    simp only [octetOK, Bool.and_eq_true] at hd
    simp at hm
    rcases hm with e | e | e <;> subst e <;> simp [h37] at hd

theorem isIP_octets {a b c d : Bytes} (ha : octetOK a = true) (hb : octetOK b = true)
    (hc : octetOK c = true) (hd : octetOK d = true) :
    isIP (a ++ 46 :: (b ++ 46 :: (c ++ 46 :: d))) = true := by
  have np : (a ++ 46 :: (b ++ 46 :: (c ++ 46 :: d))).contains 37 = false := by
    have := octetOK_no_percent ha
    have := octetOK_no_percent hb
    have := octetOK_no_percent hc
    have := octetOK_no_percent hd
    simp [*]
  unfold isIP
  simp only [np]
  rw [parseAddrFrom_digits_dot _ ha]
  simpa using parseIPv4_octets ha hb hc hd

/-- the IPv4 parser accepts digits and dots only -/
theorem v4Loop_bytes {s : Bytes} {val pos dl : Nat} {first pd : Bool}
    (h : v4Loop s val pos dl first pd = true) : ∀ c ∈ s, isDigit c = true ∨ c = 46 := by
  induction s generalizing val pos dl first pd with
  | nil => intro c hc; cases hc
  | cons x xs ih =>
    intro c hc
    unfold v4Loop at h
    by_cases hx : isDigit x = true
    · rw [if_pos hx] at h
      by_cases c1 : (dl == 1 && val == 0) = true
      · rw [if_pos c1] at h; cases h
      · rw [if_neg c1] at h
        by_cases c2 : val * 10 + (x.toNat - 48) > 255
        · simp only [c2, if_true] at h; cases h
        · simp only [c2, if_false] at h
          rcases List.mem_cons.mp hc with e | m
          · exact Or.inl (e ▸ hx)
          · exact ih h c m
    · rw [if_neg hx] at h
      by_cases h46 : (x == 46) = true
      · rw [if_pos h46] at h
        by_cases c1 : (first || xs.isEmpty || pd) = true
        · rw [if_pos c1] at h; cases h
        · rw [if_neg c1] at h
          by_cases c2 : (pos == 3) = true
          · rw [if_pos c2] at h; cases h
          · rw [if_neg c2] at h
            rcases List.mem_cons.mp hc with e | m
            · exact Or.inr (e ▸ (by simpa using h46))
            · exact ih h c m
      · rw [if_neg h46] at h; cases h

/-- without ':' the dispatch can only reach the IPv4 parser -/
theorem parseAddrFrom_no_colon (whole : Bytes) {s : Bytes} (h : (58 : UInt8) ∉ s)
    (hp : parseAddrFrom whole s = true) : parseIPv4 whole = true := by
  induction s with
  | nil => simp [parseAddrFrom] at hp
  | cons c cs ih =>
    have hc : c ≠ 58 := fun e => h (by simp [e])
    have hcs : (58 : UInt8) ∉ cs := fun m => h (List.mem_cons_of_mem _ m)
    unfold parseAddrFrom at hp
    by_cases h46 : (c == 46) = true
    · simpa [h46] using hp
    · simp only [h46] at hp
      have : (c == 58) = false := by simpa using hc
      simp only [this] at hp
      by_cases h37 : (c == 37) = true
      · simp [h37] at hp
      · simp only [h37] at hp
        exact ih hcs (by simpa using hp)

theorem isIP_no_colon_bytes {s : Bytes} (h : (58 : UInt8) ∉ s) (hip : isIP s = true) :
    ∀ c ∈ s, isDigit c = true ∨ c = 46 := by
  unfold isIP at hip
  simp at hip
  exact v4Loop_bytes (parseAddrFrom_no_colon s h hip.2)

/-! ## §3 validity window, certificates -/

theorem truncSec_le (t : Int) : truncSec t ≤ t := by
  unfold truncSec sec; omega

theorem lt_truncSec_add (t : Int) : t - sec < truncSec t := by
  unfold truncSec sec; omega

/-- ASSUMED of crypto/x509 and of the CA material (a hypothesis of the theorems, not an axiom):
    a leaf that `cert` has just issued for `n` at `t` — CN/SAN = `n`, SAN kind by literal kind,
    window `t ± validity` in whole seconds, signed by the configured CA — verifies for `n` at every
    instant of its validity window. -/
def FreshVerifies (vf : Verifier) (validity : Int) : Prop :=
  ∀ n t t', (fresh validity n t).notBefore ≤ t' → t' ≤ (fresh validity n t).notAfter →
    vf (fresh validity n t) n t' = true

theorem fresh_window {validity : Int} (hv : sec ≤ validity) (n : Bytes) (now : Int) :
    (fresh validity n now).notBefore ≤ now ∧ now ≤ (fresh validity n now).notAfter := by
  have h1 := truncSec_le (now - validity)
  have h2 := lt_truncSec_add (now + validity)
  have : (0 : Int) < sec := by decide
  simp only [fresh]
  constructor <;> omega

theorem certFor_verifies {vf : Verifier} {validity : Int} (hv : sec ≤ validity)
    (hf : FreshVerifies vf validity) (cache : Cache) (name : Bytes) (now : Int) :
    vf (certFor vf validity cache name now) name now = true := by
  have hw := fresh_window hv name now
  have hfr := hf name now now hw.1 hw.2
  unfold certFor
  split
  · rename_i c _
    by_cases hc : vf c name now = true
    · simp [hc]
    · simp [hc, hfr]
  · exact hfr

/-- every certificate served in a run verifies for the name and at the time it was asked for -/
theorem run_all_verify {vf : Verifier} {validity : Int} (hv : sec ≤ validity)
    (hf : FreshVerifies vf validity) (ops : List Op) :
    ∀ cache : Cache, ∀ s ∈ run vf validity cache ops, vf s.cert s.name s.now = true := by
  induction ops with
  | nil => intro cache s hs; cases hs
  | cons op ops ih =>
    intro cache s hs
    cases op with
    | handshake sni h now =>
      simp only [run, step] at hs
      rcases List.mem_cons.mp hs with e | m
      · subst e; exact certFor_verifies hv hf cache _ now
      · exact ih _ s m
    | evict n => simp only [run, step] at hs; exact ih _ s hs
    | put n c => simp only [run, step] at hs; exact ih _ s hs
    | clear => simp only [run, step] at hs; exact ih _ s hs

theorem eqFold_refl (s : Bytes) : eqFold s s = true := by simp [eqFold]

/-- the concrete x509-shaped verifier satisfies what is assumed of the abstract one -/
theorem x509ish_fresh (validity : Int) : FreshVerifies x509ish validity := by
  intro n t t' h1 h2
  simp only [fresh] at h1 h2
  simp [x509ish, fresh, h1, h2, eqFold_refl]

theorem eqFold_length {a b : Bytes} (h : eqFold a b = true) : a.length = b.length := by
  simp only [eqFold, beq_iff_eq, lower] at h
  have := congrArg List.length h
  simpa using this

/-- two names one SAN matches are the same name up to ASCII case -/
theorem eqFold_of_common {m a b : Bytes} (ha : eqFold m a = true) (hb : eqFold m b = true) :
    eqFold a b = true := by
  simp only [eqFold, beq_iff_eq] at ha hb ⊢
  rw [← ha, ← hb]

/-- what the x509-shaped verifier reads of the SAN -/
theorem x509ish_san {c : Cert} {n : Bytes} {t : Int} (h : x509ish c n t = true) :
    c.kind = san n ∧ eqFold c.sanVal n = true := by
  simp only [x509ish, Bool.and_eq_true, decide_eq_true_eq, beq_iff_eq] at h
  exact ⟨h.1.2, h.2⟩

/-- the verbatim handling is the model of the tree -/
theorem certForH_verbatim (vf : Verifier) (validity : Int) (cache : Cache) (name : Bytes) (now : Int) :
    certForH .verbatim vf validity cache name now = certFor vf validity cache name now := rfl

theorem cacheAfterH_verbatim (vf : Verifier) (validity : Int) (cache : Cache) (name : Bytes) (now : Int) :
    cacheAfterH .verbatim vf validity cache name now = cacheAfter vf validity cache name now := rfl

/-- every certificate served in a run, with the x509-shaped verifier: served for two requests only
    when they ask for the same name up to ASCII case -/
theorem run_cert_one_name {validity : Int} (hv : sec ≤ validity) (cache : Cache) (ops : List Op)
    {s₁ s₂ : Served} (h₁ : s₁ ∈ run x509ish validity cache ops) (h₂ : s₂ ∈ run x509ish validity cache ops)
    (hc : s₁.cert = s₂.cert) : eqFold s₁.name s₂.name = true := by
  have v₁ := run_all_verify hv (x509ish_fresh validity) ops cache s₁ h₁
  have v₂ := run_all_verify hv (x509ish_fresh validity) ops cache s₂ h₂
  rw [hc] at v₁
  exact eqFold_of_common (x509ish_san v₁).2 (x509ish_san v₂).2

/-! ## §4 url.URL.Hostname -/

theorem digits_no_colon {p : Bytes} (hp : p.all isDigit = true) : (58 : UInt8) ∉ p := by
  intro hm
  have := List.all_eq_true.mp hp 58 hm
  revert this
  decide

theorem plain_head {h : Bytes} (h2 : (91 : UInt8) ∉ h) : (h.head? == some 91) = false := by
  cases h with
  | nil => rfl
  | cons a as =>
    have ha : a ≠ 91 := fun e => h2 (by simp [e])
    simpa using ha

/-- `host:port` with a numeric (possibly empty) port: the host -/
theorem urlHostname_host_port {h p : Bytes} (h2 : (91 : UInt8) ∉ h) (hp : p.all isDigit = true) :
    urlHostname (h ++ 58 :: p) = h := by
  unfold urlHostname
  simp only [splitLastColon_append h p (digits_no_colon hp), hp, if_true, plain_head h2,
    Bool.false_and, Bool.false_eq_true, if_false]

/-- `[v]:port`: what is between the brackets -/
theorem urlHostname_bracketed (v : Bytes) {p : Bytes} (hp : p.all isDigit = true) :
    urlHostname (91 :: (v ++ 93 :: 58 :: p)) = v := by
  have e : (91 : UInt8) :: (v ++ 93 :: 58 :: p) = (91 :: (v ++ [93])) ++ 58 :: p := by simp
  unfold urlHostname
  rw [e]
  simp only [splitLastColon_append _ p (digits_no_colon hp), hp, if_true]
  have gl : (91 :: (v ++ [93]) : Bytes).getLast? = some 93 := by
    rw [← List.cons_append, List.getLast?_append]
    simp
  simp [gl]

/-- no port and no bracket: unchanged -/
theorem urlHostname_plain {h : Bytes} (h1 : (58 : UInt8) ∉ h) (h2 : (91 : UInt8) ∉ h) :
    urlHostname h = h := by
  unfold urlHostname
  simp only [splitLastColon_none h1, plain_head h2, Bool.false_and, Bool.false_eq_true, if_false]

set_option maxRecDepth 100000 in
theorem dec_plain : ∀ n : Fin 256,
    (58 : UInt8) ∉ dec n.val ∧ (91 : UInt8) ∉ dec n.val ∧ (93 : UInt8) ∉ dec n.val ∧
      dec n.val ≠ [] := by decide

theorem dotted_plain {a b c d : Nat} (ha : a < 256) (hb : b < 256) (hc : c < 256) (hd : d < 256) :
    Plain (dotted a b c d) ∧ dotted a b c d ≠ [] := by
  have A := dec_plain ⟨a, ha⟩
  have B := dec_plain ⟨b, hb⟩
  have C := dec_plain ⟨c, hc⟩
  have D := dec_plain ⟨d, hd⟩
  simp only at A B C D
  refine ⟨⟨?_, ?_, ?_⟩, ?_⟩ <;> simp [dotted, A, B, C, D]

/-! ## §5 origin verification -/

theorem interceptedTo_refused {vf : Verifier} {c : Cert} {a : Bytes} {now : Int} (allowHTTP : Bool)
    (h : originVerifies vf c a now = false) :
    interceptedTo vf [] allowHTTP false c a now = .refused502 ∧
      (interceptedTo vf [] allowHTTP false c a now).delivered = false := by
  unfold interceptedTo
  rw [h]
  cases allowHTTP <;> decide

/-! ## §6 histories on one proxy instance -/

theorem tunnelStep_cloned (up : Upstream) (st : Inst) : tunnelStep .cloned up st = st := by
  cases up <;> rfl

theorem tunnelStep_not_https (h : ConfHandling) {up : Upstream} (hup : ∀ p, up ≠ .https p)
    (st : Inst) : tunnelStep h up st = st := by
  cases up with
  | https p => exact absurd rfl (hup p)
  | _ => rfl

theorem evStep_cloned_state (up : Upstream) (vf : Verifier) (a i : Bool) (st : Inst) (e : Event) :
    (evStep .cloned up vf a i st e).1 = st := by
  cases e <;> simp [evStep, tunnelStep_cloned]

theorem verifyName_fresh (authority : Bytes) :
    verifyName Inst.fresh authority = originVerifyName authority := by
  simp [verifyName, Inst.fresh]

/-- on an instance whose transport configuration has no `ServerName`, every variant gives every
    event the history-free verdict -/
theorem evStep_fresh_out (h : ConfHandling) (up : Upstream) (vf : Verifier) (a i : Bool) (e : Event) :
    (evStep h up vf a i Inst.fresh e).2 = specOut vf a i e := by
  cases e <;> simp [evStep, specOut, verifyName_fresh, interceptedAs, interceptedTo, originVerifies]

theorem runHist_of_state_fixed (h : ConfHandling) (up : Upstream) (vf : Verifier) (a i : Bool)
    (st : Inst) :
    ∀ evs : List Event, (∀ e ∈ evs, (evStep h up vf a i st e).1 = st) →
      runHist h up vf a i st evs = evs.map (fun e => (evStep h up vf a i st e).2) := by
  intro evs
  induction evs with
  | nil => intro _; rfl
  | cons e es ih =>
    intro hfix
    have he := hfix e (by simp)
    simp only [runHist, List.map_cons, he]
    rw [ih (fun e' he' => hfix e' (by simp [he']))]

theorem histState_of_state_fixed (h : ConfHandling) (up : Upstream) (vf : Verifier) (a i : Bool)
    (st : Inst) :
    ∀ evs : List Event, (∀ e ∈ evs, (evStep h up vf a i st e).1 = st) →
      histState h up vf a i st evs = st := by
  intro evs
  induction evs with
  | nil => intro _; rfl
  | cons e es ih =>
    intro hfix
    have he := hfix e (by simp)
    simp only [histState, he]
    exact ih (fun e' he' => hfix e' (by simp [he']))

theorem absoluteAs_refused {vf : Verifier} {c : Cert} {n : Bytes} {now : Int} (allowHTTP : Bool)
    (h : vf c n now = false) : absoluteAs vf allowHTTP false c n now = .refused502 := by
  unfold absoluteAs
  rw [h]
  cases allowHTTP <;> decide

/-! ## §7 histories of instance construction in one process -/

theorem poolOf_mkBuilt (sys : List CA) (p : Proc) (cfg : TrustCfg) :
    poolOf sys p (mkBuilt sys cfg).roots = trustOf sys cfg := by
  unfold mkBuilt trustOf
  split <;> rfl

theorem mkBuilt_insecure (sys : List CA) (cfg : TrustCfg) : (mkBuilt sys cfg).insecure = cfg.insecure := by
  unfold mkBuilt
  split <;> rfl

/-- with a pool of its own per instance, a probe sees the configuration of the probed instance only -/
theorem probeOut_copied (sys sp : List CA) (cfgs : List TrustCfg) (i : Nat) (s : CA) :
    probeOut sys ⟨sp, cfgs.map (mkBuilt sys)⟩ i s = specProbe sys cfgs i s := by
  unfold probeOut specProbe
  simp only [List.getElem?_map]
  cases cfgs[i]? with
  | none => rfl
  | some cfg => simp [poolOf_mkBuilt, mkBuilt_insecure, trustsSigner]

theorem runProc_copied (sys sp : List CA) (cfgs : List TrustCfg) (evs : List PEvent) :
    runProc .copied sys ⟨sp, cfgs.map (mkBuilt sys)⟩ evs = specRun sys cfgs evs := by
  induction evs generalizing cfgs with
  | nil => rfl
  | cons e es ih =>
    cases e with
    | build cfg =>
      have := ih (cfgs ++ [cfg])
      simp only [List.map_append, List.map_cons, List.map_nil] at this
      simp only [runProc, pStep, buildStep, specRun, this]
    | probe i s =>
      simp only [runProc, pStep, specRun, probeOut_copied, ih]

/-- the spec run, event by event: a probe at position `k` gets the verdict of the configuration
    that the builds BEFORE position `k` gave instance `i` -/
theorem specRun_getElem (sys : List CA) (cfgs : List TrustCfg) (evs : List PEvent) (k i : Nat) (s : CA)
    (hk : evs[k]? = some (.probe i s)) :
    (specRun sys cfgs evs)[k]? = some (specProbe sys (cfgs ++ buildsOf (evs.take k)) i s) := by
  induction evs generalizing cfgs k with
  | nil => simp at hk
  | cons e es ih =>
    cases k with
    | zero =>
      simp only [List.getElem?_cons_zero, Option.some.injEq] at hk
      subst hk
      simp [specRun, buildsOf]
    | succ k =>
      simp only [List.getElem?_cons_succ] at hk
      cases e with
      | build cfg =>
        simp only [specRun, List.getElem?_cons_succ, List.take_succ_cons, buildsOf]
        rw [ih (cfgs ++ [cfg]) k hk]
        simp
      | probe j t =>
        simp only [specRun, List.getElem?_cons_succ, List.take_succ_cons, buildsOf]
        exact ih cfgs k hk

/-- instances built later do not renumber or change earlier ones -/
theorem specProbe_append (sys : List CA) (cfgs more : List TrustCfg) (i : Nat) (s : CA) (cfg : TrustCfg)
    (hi : cfgs[i]? = some cfg) : specProbe sys (cfgs ++ more) i s = specProbe sys cfgs i s := by
  have hlt : i < cfgs.length := by
    rcases Nat.lt_or_ge i cfgs.length with h | h
    · exact h
    · rw [List.getElem?_eq_none h] at hi; cases hi
  unfold specProbe
  rw [List.getElem?_append_left hlt]

/-- verifications do not change the process: two states that answer every probe alike answer a
    run of probes alike, whatever the pool handling -/
theorem runProc_probes_congr (h h' : PoolHandling) (sys : List CA) (p q : Proc)
    (hpq : ∀ i s, probeOut sys p i s = probeOut sys q i s) (ps : List PEvent)
    (hp : ∀ e ∈ ps, ∃ i s, e = PEvent.probe i s) :
    runProc h sys p ps = runProc h' sys q ps := by
  induction ps with
  | nil => rfl
  | cons e es ih =>
    obtain ⟨i, s, rfl⟩ := hp e (by simp)
    simp only [runProc, pStep, hpq]
    rw [ih (fun e he => hp e (by simp [he]))]

theorem probeOut_single (sys : List CA) (cfg : TrustCfg) (i : Nat) (s : CA) :
    probeOut sys (buildStep .shared sys (Proc.start sys) cfg) i s =
      probeOut sys (buildStep .copied sys (Proc.start sys) cfg) i s := by
  unfold buildStep mkBuilt Proc.start probeOut
  cases i with
  | zero => cases h : cfg.extra.isEmpty <;> simp [h, poolOf]
  | succ n => cases h : cfg.extra.isEmpty <;> simp [h]

end C07
end FwdVerif
