/-
  C03 — helper lemmas for sections J (leg capabilities) and K (request / dial limits) of
  `FwdVerif/Theorems/C03.lean` (core Lean only).

  §1 what single steps of the tunnel machine do to `eof`, to the phase
  §2 the machine with leg capabilities (`hstep`): it refines `step` under the code's policy, invariant `HInv`
  §3 the machine with limits (`lstep`): it refines `tstep` under the code's policy, invariant `LInv`
-/
import FwdVerif.Lemmas.C03

set_option linter.unusedSimpArgs false
set_option linter.unusedVariables false

namespace FwdVerif
namespace C03

/-! ## §1 -/

/-- what finishing a direction needs and does -/
theorem step_eof_pre {c : Cfg} {s s' : State} {d : Dir} (h : step c s (.eof d) = some s') :
    s.phase = .tunnel ∧ (s.pipe d).done = false ∧ (s.pipe d).fin = true ∧ (s.pipe d).avail = 0 ∧
      s'.pipe d.other = s.pipe d.other ∧ s'.expired = s.expired ∧
      (s'.phase = .closed ↔ (s.pipe d.other).done = true) ∧ (s'.phase = .tunnel ∨ s'.phase = .closed) := by
  simp only [step] at h
  split at h
  · rename_i hc
    obtain ⟨hp, hd, hf, ha⟩ := hc
    split at h
    · rename_i ho
      have := some_inj h; subst this
      refine ⟨hp, hd, hf, ha, ?_, ?_, ?_, ?_⟩ <;> cases d <;> simp_all
    · rename_i ho
      have := some_inj h; subst this
      refine ⟨hp, hd, hf, ha, ?_, ?_, ?_, ?_⟩ <;> cases d <;> simp_all
  · exact absurd h (by simp)

/-- only `eof` steps touch the `eof` flags -/
theorem step_eof_eq {c : Cfg} {s s' : State} {st : Step} (hne : ∀ d, st ≠ .eof d)
    (h : step c s st = some s') : s'.up.eof = s.up.eof ∧ s'.down.eof = s.down.eof := by
  cases st with
  | eof d => exact absurd rfl (hne d)
  | clientWrite seg =>
    simp only [step] at h
    split at h
    · exact absurd h (by simp)
    · have := some_inj h; subst this; exact ⟨rfl, rfl⟩
  | targetWrite seg =>
    simp only [step] at h
    split at h
    · exact absurd h (by simp)
    · have := some_inj h; subst this; exact ⟨rfl, rfl⟩
  | fin d =>
    simp only [step] at h
    split at h
    · exact absurd h (by simp)
    · have := some_inj h; subst this; cases d <;> exact ⟨rfl, rfl⟩
  | readHead k =>
    simp only [step] at h
    split at h
    · have := some_inj h; subst this; exact ⟨rfl, rfl⟩
    · exact absurd h (by simp)
  | replyRead n =>
    simp only [step] at h
    split at h
    · have := some_inj h; subst this; exact ⟨rfl, rfl⟩
    · exact absurd h (by simp)
  | connected =>
    simp only [step] at h
    split at h
    · split at h <;> (have := some_inj h; subst this; exact ⟨rfl, rfl⟩)
    · exact absurd h (by simp)
  | drain =>
    simp only [step] at h
    split at h
    · have := some_inj h; subst this; exact ⟨rfl, rfl⟩
    · exact absurd h (by simp)
  | copy d n =>
    simp only [step] at h
    split at h
    · have := some_inj h; subst this; cases d <;> exact ⟨rfl, rfl⟩
    · exact absurd h (by simp)
  | graceExpire =>
    simp only [step] at h
    split at h
    · have := some_inj h; subst this; exact ⟨rfl, rfl⟩
    · exact absurd h (by simp)

/-- the machine gets into phase `closed` by the second copier returning or by the grace timer only -/
theorem step_closes {c : Cfg} {s s' : State} {st : Step} (h : step c s st = some s')
    (hp : s'.phase = .closed) (hn : s.phase ≠ .closed) : (∃ d, st = .eof d) ∨ st = .graceExpire := by
  cases st with
  | eof d => exact Or.inl ⟨d, rfl⟩
  | graceExpire => exact Or.inr rfl
  | clientWrite seg =>
    simp only [step] at h
    split at h
    · exact absurd h (by simp)
    · have := some_inj h; subst this; exact absurd hp hn
  | targetWrite seg =>
    simp only [step] at h
    split at h
    · exact absurd h (by simp)
    · have := some_inj h; subst this; exact absurd hp hn
  | fin d =>
    simp only [step] at h
    split at h
    · exact absurd h (by simp)
    · have := some_inj h; subst this; rw [setPipe_phase] at hp; exact absurd hp hn
  | readHead k =>
    simp only [step] at h
    split at h
    · have := some_inj h; subst this; exact absurd hp (by simp)
    · exact absurd h (by simp)
  | replyRead n =>
    simp only [step] at h
    split at h
    · have := some_inj h; subst this; exact absurd hp hn
    · exact absurd h (by simp)
  | connected =>
    simp only [step] at h
    split at h
    · split at h <;> (have := some_inj h; subst this; exact absurd hp (by simp))
    · exact absurd h (by simp)
  | drain =>
    simp only [step] at h
    split at h
    · have := some_inj h; subst this; exact absurd hp (by simp)
    · exact absurd h (by simp)
  | copy d n =>
    simp only [step] at h
    split at h
    · have := some_inj h; subst this; rw [setPipe_phase] at hp; exact absurd hp hn
    · exact absurd h (by simp)

/-- an established tunnel stays established -/
theorem step_established {c : Cfg} {s s' : State} {st : Step} (hi : Inv c s) (h : step c s st = some s')
    (he : s.phase.established = true) : s'.phase.established = true := by
  by_cases hc : s.phase = .closed
  · rw [(step_closed hc h).1]; rfl
  · have ht : s.phase = .tunnel := by
      cases hs : s.phase <;> simp_all [Phase.established]
    cases st with
    | eof d => rcases (step_eof_pre h).2.2.2.2.2.2.2 with e | e <;> rw [e] <;> rfl
    | graceExpire => rw [(step_graceExpire_spec h).2.2.1]; rfl
    | clientWrite seg =>
      simp only [step] at h
      split at h
      · exact absurd h (by simp)
      · have := some_inj h; subst this; exact he
    | targetWrite seg =>
      simp only [step] at h
      split at h
      · exact absurd h (by simp)
      · have := some_inj h; subst this; exact he
    | fin d =>
      simp only [step] at h
      split at h
      · exact absurd h (by simp)
      · have := some_inj h; subst this; rw [setPipe_phase]; exact he
    | readHead k =>
      simp only [step] at h
      split at h
      · rename_i hx; rw [ht] at hx; exact absurd hx.1 (by decide)
      · exact absurd h (by simp)
    | replyRead n =>
      simp only [step] at h
      split at h
      · rename_i hx; rw [ht] at hx; exact absurd hx.1 (by decide)
      · exact absurd h (by simp)
    | connected =>
      simp only [step] at h
      split at h
      · rename_i hx; rw [ht] at hx; exact absurd hx.1 (by decide)
      · exact absurd h (by simp)
    | drain =>
      simp only [step] at h
      split at h
      · rename_i hx; rw [ht] at hx; exact absurd hx (by decide)
      · exact absurd h (by simp)
    | copy d n =>
      simp only [step] at h
      split at h
      · have := some_inj h; subst this; rw [setPipe_phase]; exact he
      · exact absurd h (by simp)

/-! ## §2 the machine with leg capabilities -/

@[simp] theorem shown_up (h : HState) : h.shown .up = h.shownU := rfl
@[simp] theorem shown_down (h : HState) : h.shown .down = h.shownD := rfl

/-- the shapes of an enabled step under the code's policy -/
theorem hstep_leave_cases {c : Cfg} {L : Legs} {h h' : HState} {st : Step}
    (hx : hstep c L .leave h st = some h') :
    ∃ s', step c h.s st = some s' ∧ h'.s = s' ∧ h'.cut = h.cut ∧
      ((∀ d, st ≠ .eof d) → h'.shownU = h.shownU ∧ h'.shownD = h.shownD) ∧
      (∀ d, st = .eof d →
        (s'.phase = .closed ∧ h'.shownU = true ∧ h'.shownD = true) ∨
        (s'.phase ≠ .closed ∧ L.dst d = .halfClose ∧ h'.shown d = true ∧ h'.shown d.other = h.shown d.other) ∨
        (s'.phase ≠ .closed ∧ L.dst d = .none ∧ h'.shownU = h.shownU ∧ h'.shownD = h.shownD)) := by
  simp only [hstep] at hx
  split at hx
  · exact absurd hx (by simp)
  · rename_i s' hs
    refine ⟨s', hs, ?_⟩
    cases st with
    | eof d =>
      simp only at hx
      split at hx
      · rename_i hc
        have := some_inj hx; subst this
        exact ⟨rfl, rfl, fun hne => absurd rfl (hne d), fun d' hd' => Or.inl ⟨hc, rfl, rfl⟩⟩
      · rename_i hc
        split at hx
        · rename_i hcap
          have := some_inj hx; subst this
          refine ⟨?_, ?_, fun hne => absurd rfl (hne d), fun d' hd' => ?_⟩
          · cases d <;> rfl
          · cases d <;> rfl
          · have : d' = d := (Step.eof.inj hd').symm
            subst this
            exact Or.inr (Or.inl ⟨hc, hcap, by cases d' <;> rfl, by cases d' <;> rfl⟩)
        · rename_i hcap hpol
          have := some_inj hx; subst this
          refine ⟨rfl, rfl, fun hne => absurd rfl (hne d), fun d' hd' => ?_⟩
          have : d' = d := (Step.eof.inj hd').symm
          subst this
          exact Or.inr (Or.inr ⟨hc, hcap, rfl, rfl⟩)
        · rename_i hcap hpol
          exact absurd hpol (by simp)
    | clientWrite seg =>
      have := some_inj hx; subst this
      exact ⟨rfl, rfl, fun _ => ⟨rfl, rfl⟩, fun d hd => absurd hd (by simp)⟩
    | targetWrite seg =>
      have := some_inj hx; subst this
      exact ⟨rfl, rfl, fun _ => ⟨rfl, rfl⟩, fun d hd => absurd hd (by simp)⟩
    | fin d' =>
      have := some_inj hx; subst this
      exact ⟨rfl, rfl, fun _ => ⟨rfl, rfl⟩, fun d hd => absurd hd (by simp)⟩
    | readHead k =>
      have := some_inj hx; subst this
      exact ⟨rfl, rfl, fun _ => ⟨rfl, rfl⟩, fun d hd => absurd hd (by simp)⟩
    | replyRead n =>
      have := some_inj hx; subst this
      exact ⟨rfl, rfl, fun _ => ⟨rfl, rfl⟩, fun d hd => absurd hd (by simp)⟩
    | connected =>
      have := some_inj hx; subst this
      exact ⟨rfl, rfl, fun _ => ⟨rfl, rfl⟩, fun d hd => absurd hd (by simp)⟩
    | drain =>
      have := some_inj hx; subst this
      exact ⟨rfl, rfl, fun _ => ⟨rfl, rfl⟩, fun d hd => absurd hd (by simp)⟩
    | copy d' n =>
      have := some_inj hx; subst this
      exact ⟨rfl, rfl, fun _ => ⟨rfl, rfl⟩, fun d hd => absurd hd (by simp)⟩
    | graceExpire =>
      have := some_inj hx; subst this
      exact ⟨rfl, rfl, fun _ => ⟨rfl, rfl⟩, fun d hd => absurd hd (by simp)⟩

/-- a step other than `eof` is the step of the plain machine, for every policy -/
theorem hstep_not_eof {c : Cfg} {L : Legs} {pol : CwPolicy} {h : HState} {st : Step}
    (hne : ∀ d, st ≠ .eof d) :
    hstep c L pol h st = (step c h.s st).map (fun s' => { h with s := s' }) := by
  simp only [hstep]
  cases hs : step c h.s st with
  | none => rfl
  | some s' =>
    cases st with
    | eof d => exact absurd rfl (hne d)
    | _ => rfl

theorem hrunFrom_cons {c : Cfg} {L : Legs} {pol : CwPolicy} {h h' : HState} {st : Step} {rest : List Step}
    (hx : hrunFrom c L pol h (st :: rest) = some h') :
    ∃ m, hstep c L pol h st = some m ∧ hrunFrom c L pol m rest = some h' := by
  simp only [hrunFrom] at hx
  split at hx
  · exact absurd hx (by simp)
  · rename_i m hm
    exact ⟨m, hm, hx⟩

/-- under the code's policy the machine with capabilities runs the plain machine -/
theorem hrunFrom_erase {c : Cfg} {L : Legs} {h h' : HState} {steps : List Step}
    (hx : hrunFrom c L .leave h steps = some h') : runFrom c h.s steps = some h'.s := by
  induction steps generalizing h with
  | nil => have := some_inj hx; subst this; rfl
  | cons st rest ih =>
    obtain ⟨m, hm, hr⟩ := hrunFrom_cons hx
    obtain ⟨s', hs, hms, _⟩ := hstep_leave_cases hm
    simp only [runFrom, hs]
    rw [← hms]
    exact ih hr

structure HInv (c : Cfg) (L : Legs) (h : HState) : Prop where
  inv : Inv c h.s
  /-- end-of-stream is shown only for a direction whose copier returned after its source finished -/
  shownEof : ∀ d, h.shown d = true → (h.s.pipe d).eof = true
  /-- a leg that can be half-closed: shown as soon as the copier returned -/
  eofShown : ∀ d, L.dst d = .halfClose → (h.s.pipe d).eof = true → h.shown d = true
  /-- a leg that cannot: shown only by closing the tunnel -/
  noneClosed : ∀ d, L.dst d = .none → h.shown d = true → h.s.phase = .closed
  /-- both copiers returned: everybody has been shown end-of-stream -/
  closedShown : h.s.phase = .closed → h.s.expired = false → h.shownU = true ∧ h.shownD = true
  noCut : h.cut = false

theorem hinv_init (c : Cfg) (L : Legs) : HInv c L hinit := by
  refine ⟨inv_init c, ?_, ?_, ?_, ?_, rfl⟩
  · intro d hd; cases d <;> simp [hinit] at hd
  · intro d _ he; cases d <;> simp [hinit, init] at he
  · intro d _ hd; cases d <;> simp [hinit] at hd
  · intro hp; simp [hinit, init] at hp

theorem hinv_step {c : Cfg} {L : Legs} {h h' : HState} {st : Step} (hi : HInv c L h)
    (hx : hstep c L .leave h st = some h') : HInv c L h' := by
  obtain ⟨s', hs, hms, hcut, hne, heq⟩ := hstep_leave_cases hx
  have hinv' : Inv c s' := inv_step hi.inv hs
  by_cases hst : ∃ d, st = .eof d
  · obtain ⟨d, rfl⟩ := hst
    have pre := step_eof_pre hs
    have hexp : s'.expired = false := by
      rw [pre.2.2.2.2.2.1]
      cases he : h.s.expired
      · rfl
      · have := hi.inv.expired he
        rw [pre.1] at this
        exact absurd this (by decide)
    have hself : (s'.pipe d).eof = true := (step_eof_spec hs).2
    have hother : (s'.pipe d.other).eof = (h.s.pipe d.other).eof := by rw [pre.2.2.2.2.1]
    rcases heq d rfl with ⟨hc, hu, hd⟩ | ⟨hnc, hcap, hsd, hso⟩ | ⟨hnc, hcap, hu, hd⟩
    · -- the second copier returned
      have hdone := hinv'.closedIff.mp hc
      have eu : s'.up.eof = true := by
        rcases hinv'.doneUp hdone.1 with e | e
        · exact e
        · rw [hexp] at e; exact absurd e (by decide)
      have ed : s'.down.eof = true := by
        rcases hinv'.doneDown hdone.2 with e | e
        · exact e
        · rw [hexp] at e; exact absurd e (by decide)
      refine ⟨by rw [hms]; exact hinv', ?_, ?_, ?_, ?_, by rw [hcut]; exact hi.noCut⟩
      · intro d' _; rw [hms]; cases d' <;> assumption
      · intro d' _ _; cases d' <;> assumption
      · intro d' _ _; rw [hms]; exact hc
      · intro _ _; exact ⟨hu, hd⟩
    · -- the first copier returned, its destination has been half-closed
      refine ⟨by rw [hms]; exact hinv', ?_, ?_, ?_, ?_, by rw [hcut]; exact hi.noCut⟩
      · intro d' hd'
        rw [hms]
        by_cases e : d' = d
        · subst e; exact hself
        · have : d' = d.other := by cases d <;> cases d' <;> simp_all
          subst this
          rw [hother]
          exact hi.shownEof _ (by rw [← hso]; exact hd')
      · intro d' hc' he'
        rw [hms] at he'
        by_cases e : d' = d
        · subst e; exact hsd
        · have : d' = d.other := by cases d <;> cases d' <;> simp_all
          subst this
          rw [hso]
          exact hi.eofShown _ hc' (by rw [← hother]; exact he')
      · intro d' hc' hd'
        by_cases e : d' = d
        · subst e; rw [hcap] at hc'; exact absurd hc' (by decide)
        · have : d' = d.other := by cases d <;> cases d' <;> simp_all
          subst this
          have := hi.noneClosed _ hc' (by rw [← hso]; exact hd')
          rw [pre.1] at this
          exact absurd this (by decide)
      · intro hp; rw [hms] at hp; exact absurd hp hnc
    · -- the first copier returned, its destination cannot be half-closed: nothing is shown
      have hsame : ∀ d', h'.shown d' = h.shown d' := by intro d'; cases d' <;> assumption
      refine ⟨by rw [hms]; exact hinv', ?_, ?_, ?_, ?_, by rw [hcut]; exact hi.noCut⟩
      · intro d' hd'
        rw [hms]
        rw [hsame] at hd'
        by_cases e : d' = d
        · subst e; exact hself
        · have : d' = d.other := by cases d <;> cases d' <;> simp_all
          subst this
          rw [hother]
          exact hi.shownEof _ hd'
      · intro d' hc' he'
        rw [hms] at he'
        rw [hsame]
        by_cases e : d' = d
        · subst e; rw [hcap] at hc'; exact absurd hc' (by decide)
        · have : d' = d.other := by cases d <;> cases d' <;> simp_all
          subst this
          exact hi.eofShown _ hc' (by rw [← hother]; exact he')
      · intro d' hc' hd'
        rw [hsame] at hd'
        have := hi.noneClosed _ hc' hd'
        rw [pre.1] at this
        exact absurd this (by decide)
      · intro hp; rw [hms] at hp; exact absurd hp hnc
  · -- any other step: nothing is shown, no `eof` flag moves
    have hne' : ∀ d, st ≠ .eof d := fun d e => hst ⟨d, e⟩
    obtain ⟨hu, hd⟩ := hne hne'
    have hsame : ∀ d', h'.shown d' = h.shown d' := by intro d'; cases d' <;> assumption
    have heofs := step_eof_eq hne' hs
    have heof : ∀ d', (s'.pipe d').eof = (h.s.pipe d').eof := by
      intro d'; cases d'
      · exact heofs.1
      · exact heofs.2
    refine ⟨by rw [hms]; exact hinv', ?_, ?_, ?_, ?_, by rw [hcut]; exact hi.noCut⟩
    · intro d' hd'
      rw [hms, heof]
      exact hi.shownEof _ (by rw [← hsame]; exact hd')
    · intro d' hc' he'
      rw [hms, heof] at he'
      rw [hsame]
      exact hi.eofShown _ hc' he'
    · intro d' hc' hd'
      rw [hsame] at hd'
      have := hi.noneClosed _ hc' hd'
      rw [hms]
      exact (step_closed this hs).1
    · intro hp hexp
      rw [hms] at hp hexp
      rw [hu, hd]
      by_cases hc : h.s.phase = .closed
      · exact hi.closedShown hc (by rw [← (step_closed hc hs).2]; exact hexp)
      · rcases step_closes hs hp hc with ⟨d, e⟩ | e
        · exact absurd e (hne' d)
        · subst e
          rw [(step_graceExpire_spec hs).2.2.2.1] at hexp
          exact absurd hexp (by decide)

theorem hinv_runFrom {c : Cfg} {L : Legs} {h h' : HState} {steps : List Step} (hi : HInv c L h)
    (hx : hrunFrom c L .leave h steps = some h') : HInv c L h' := by
  induction steps generalizing h with
  | nil => have := some_inj hx; subst this; exact hi
  | cons st rest ih =>
    obtain ⟨m, hm, hr⟩ := hrunFrom_cons hx
    exact ih (hinv_step hi hm) hr

theorem hinv_run {c : Cfg} {L : Legs} {h : HState} {steps : List Step}
    (hx : hrun c L .leave steps = some h) : HInv c L h :=
  hinv_runFrom (hinv_init c L) hx

theorem hrun_erase {c : Cfg} {L : Legs} {h : HState} {steps : List Step}
    (hx : hrun c L .leave steps = some h) : run c steps = some h.s :=
  hrunFrom_erase hx

/-! ## §3 the machine with limits -/

theorem lrunFrom_cons {c : Cfg} {τ : Timing} {lim : Limits} {pol : DeadlinePolicy} {l l' : LState} {st : LStep}
    {rest : List LStep} (hx : lrunFrom c τ lim pol l (st :: rest) = some l') :
    ∃ m, lstep c τ lim pol l st = some m ∧ lrunFrom c τ lim pol m rest = some l' := by
  simp only [lrunFrom] at hx
  split at hx
  · exact absurd hx (by simp)
  · rename_i m hm
    exact ⟨m, hm, hx⟩

/-- the shapes of an enabled step of the machine with limits -/
theorem lstep_cases {c : Cfg} {τ : Timing} {lim : Limits} {pol : DeadlinePolicy} {l l' : LState} {st : LStep}
    (hx : lstep c τ lim pol l st = some l') :
    l.stopped = false ∧
    ((∃ n t', st = .t (.tick n) ∧ l.limitBlocks n = false ∧ tstep c τ l.t (.tick n) = some t' ∧
        l' = { l with t := t' }) ∨
     (∃ u t', st = .t (.act u) ∧ tstep c τ l.t (.act u) = some t' ∧
        l' = { l with t := t', deadline := nextDeadline lim pol l.deadline l.t.s t'.s l.t.now }) ∨
     (∃ dl, st = .limitExpire ∧ l.deadline = some dl ∧ dl ≤ l.t.now ∧
        ((l.t.s.phase.established = true ∧
            l' = { l with t := { l.t with s := limitCut l.t.s }, deadline := none, cutByLimit := true }) ∨
         (l.t.s.phase.established = false ∧ l' = { l with deadline := none, aborted := true })))) := by
  cases st with
  | t ts =>
    cases ts with
    | tick n =>
      simp only [lstep] at hx
      split at hx
      · exact absurd hx (by simp)
      · rename_i hs
        split at hx
        · exact absurd hx (by simp)
        · rename_i hb
          split at hx
          · rename_i t' ht
            exact ⟨by simpa using hs, Or.inl ⟨n, t', rfl, by simpa using hb, ht, (some_inj hx).symm⟩⟩
          · exact absurd hx (by simp)
    | act u =>
      simp only [lstep] at hx
      split at hx
      · exact absurd hx (by simp)
      · rename_i hs
        split at hx
        · rename_i t' ht
          exact ⟨by simpa using hs, Or.inr (Or.inl ⟨u, t', rfl, ht, (some_inj hx).symm⟩)⟩
        · exact absurd hx (by simp)
  | limitExpire =>
    simp only [lstep] at hx
    split at hx
    · exact absurd hx (by simp)
    · rename_i hs
      split at hx
      · rename_i dl hdl
        split at hx
        · rename_i hle
          split at hx
          · rename_i he
            exact ⟨by simpa using hs, Or.inr (Or.inr ⟨dl, rfl, hdl, hle, Or.inl ⟨he, (some_inj hx).symm⟩⟩)⟩
          · rename_i he
            exact ⟨by simpa using hs, Or.inr (Or.inr ⟨dl, rfl, hdl, hle,
              Or.inr ⟨by simpa using he, (some_inj hx).symm⟩⟩)⟩
        · exact absurd hx (by simp)
      · exact absurd hx (by simp)

/-- what a timed step does to the phase of an established tunnel -/
theorem tstep_established {c : Cfg} {τ : Timing} {t t' : TState} {st : TStep} (hi : TInv c τ t)
    (h : tstep c τ t st = some t') (he : t.s.phase.established = true) : t'.s.phase.established = true := by
  rcases tstep_cases h with ⟨n, _, _, rfl⟩ | ⟨_, _, s', hs, rfl⟩ | ⟨u, _, _, s', hs, rfl⟩
  · exact he
  · exact step_established hi.inv hs he
  · exact step_established hi.inv hs he

/-- no limit is armed for an established tunnel -/
theorem forPhase_established {lim : Limits} {p : Phase} (he : p.established = true) : lim.forPhase p = none := by
  cases p <;> simp_all [Phase.established, Limits.forPhase]

/-- the invariant of the machine with limits under the code's policy -/
structure LInv (c : Cfg) (τ : Timing) (l : LState) : Prop where
  tinv : TInv c τ l.t
  /-- no limit is armed on an established tunnel -/
  clear : l.t.s.phase.established = true → l.deadline = none
  /-- a request is abandoned only before the tunnel is established -/
  abortedPre : l.aborted = true → l.t.s.phase.established = false
  noCut : l.cutByLimit = false

theorem linv_init (c : Cfg) (τ : Timing) : LInv c τ linit :=
  ⟨tinv_init c τ, fun _ => rfl, fun h => by simp [linit] at h, rfl⟩

theorem nextDeadline_cleared_established {lim : Limits} {cur : Option Nat} {old new : State} {now : Nat}
    (hcur : old.phase.established = true → cur = none) (he : new.phase.established = true)
    (hmono : old.phase.established = true ∨ new.phase ≠ old.phase) :
    nextDeadline lim .cleared cur old new now = none := by
  simp only [nextDeadline]
  split
  · rename_i hsame
    have hnr : ¬ (new.phase = .reading ∧ old.up.written = [] ∧ new.up.written ≠ []) := by
      intro hx
      rw [hx.1] at he
      exact absurd he (by decide)
    rw [if_neg hnr]
    apply hcur
    rw [← hsame]
    exact he
  · simp only [forPhase_established he, Option.map_none]

theorem linv_step {c : Cfg} {τ : Timing} {lim : Limits} {l l' : LState} {st : LStep} (hi : LInv c τ l)
    (hx : lstep c τ lim .cleared l st = some l') : LInv c τ l' := by
  obtain ⟨hstop, hc⟩ := lstep_cases hx
  rcases hc with ⟨n, t', rfl, _, ht, rfl⟩ | ⟨u, t', rfl, ht, rfl⟩ | ⟨dl, rfl, hdl, _, ⟨he, rfl⟩ | ⟨he, rfl⟩⟩
  · have hti := tinv_step hi.tinv ht
    have hph : t'.s = l.t.s := by
      rcases tstep_cases ht with ⟨n', _, _, rfl⟩ | ⟨hn, _⟩ | ⟨u, hu, _⟩
      · rfl
      · exact absurd hn (by simp)
      · exact absurd hu (by simp)
    exact ⟨hti, fun h => hi.clear (by rw [← hph]; exact h), fun h => by
      show t'.s.phase.established = false
      rw [hph]; exact hi.abortedPre h, hi.noCut⟩
  · have hti := tinv_step hi.tinv ht
    refine ⟨hti, ?_, ?_, hi.noCut⟩
    · intro he
      show nextDeadline lim .cleared l.deadline l.t.s t'.s l.t.now = none
      apply nextDeadline_cleared_established hi.clear he
      by_cases ho : l.t.s.phase.established = true
      · exact Or.inl ho
      · right
        intro heq
        rw [heq] at he
        exact ho he
    · intro ha
      have : l.aborted = true := ha
      simp only [LState.stopped, this, Bool.true_or] at hstop
      exact absurd hstop (by decide)
  · have := hi.clear he
    rw [this] at hdl
    exact absurd hdl (by simp)
  · exact ⟨hi.tinv, fun _ => rfl, fun _ => he, hi.noCut⟩

theorem linv_runFrom {c : Cfg} {τ : Timing} {lim : Limits} {l l' : LState} {steps : List LStep} (hi : LInv c τ l)
    (hx : lrunFrom c τ lim .cleared l steps = some l') : LInv c τ l' := by
  induction steps generalizing l with
  | nil => have := some_inj hx; subst this; exact hi
  | cons st rest ih =>
    obtain ⟨m, hm, hr⟩ := lrunFrom_cons hx
    exact ih (linv_step hi hm) hr

theorem linv_run {c : Cfg} {τ : Timing} {lim : Limits} {l : LState} {steps : List LStep}
    (hx : lrun c τ lim .cleared steps = some l) : LInv c τ l :=
  linv_runFrom (linv_init c τ) hx

/-- under the code's policy a limit never changes the timed machine's state: erasing the expiries gives a
    run of the timed machine -/
theorem lrunFrom_erase {c : Cfg} {τ : Timing} {lim : Limits} {l l' : LState} {steps : List LStep}
    (hi : LInv c τ l) (hx : lrunFrom c τ lim .cleared l steps = some l') :
    trunFrom c τ l.t (lerase steps) = some l'.t := by
  induction steps generalizing l with
  | nil => have := some_inj hx; subst this; rfl
  | cons st rest ih =>
    obtain ⟨m, hm, hr⟩ := lrunFrom_cons hx
    have hmi := linv_step hi hm
    obtain ⟨_, hc⟩ := lstep_cases hm
    rcases hc with ⟨n, t', rfl, _, ht, rfl⟩ | ⟨u, t', rfl, ht, rfl⟩ | ⟨dl, rfl, hdl, _, ⟨he, rfl⟩ | ⟨he, rfl⟩⟩
    · simp only [lerase, trunFrom, ht]; exact ih hmi hr
    · simp only [lerase, trunFrom, ht]; exact ih hmi hr
    · have := hi.clear he
      rw [this] at hdl
      exact absurd hdl (by simp)
    · simp only [lerase]
      have h2 := ih hmi hr
      exact h2

/-- a step of the machine with capabilities is enabled exactly when the step of the plain machine is -/
theorem hstep_isSome {c : Cfg} {L : Legs} {pol : CwPolicy} {h : HState} {st : Step} :
    (hstep c L pol h st).isSome = (step c h.s st).isSome := by
  simp only [hstep]
  cases hs : step c h.s st with
  | none => rfl
  | some s' =>
    cases st with
    | eof d =>
      simp only
      split
      · rfl
      · split <;> rfl
    | _ => rfl

theorem hrunFrom_append {c : Cfg} {L : Legs} {pol : CwPolicy} {h : HState} {a b : List Step} :
    hrunFrom c L pol h (a ++ b) = (hrunFrom c L pol h a).bind (fun m => hrunFrom c L pol m b) := by
  induction a generalizing h with
  | nil => rfl
  | cons st rest ih =>
    simp only [List.cons_append, hrunFrom]
    cases hstep c L pol h st with
    | none => rfl
    | some m => exact ih

theorem hrun_snoc {c : Cfg} {L : Legs} {pol : CwPolicy} {steps : List Step} {h h' : HState} {st : Step}
    (hx : hrun c L pol steps = some h) (hs : hstep c L pol h st = some h') :
    hrun c L pol (steps ++ [st]) = some h' := by
  unfold hrun at *
  rw [hrunFrom_append, hx]
  show hrunFrom c L pol h [st] = some h'
  simp only [hrunFrom, hs]

/-- on an established tunnel, under the code's policy, a step of the machine with limits IS the step of
    the timed machine -/
theorem lstep_established_eq {c : Cfg} {τ : Timing} {lim : Limits} {l : LState} (hi : LInv c τ l)
    (he : l.t.s.phase.established = true) (st : TStep) :
    lstep c τ lim .cleared l (.t st) = (tstep c τ l.t st).map (fun t' => { l with t := t' }) := by
  have hdl := hi.clear he
  have hab : l.aborted = false := by
    cases ha : l.aborted
    · rfl
    · have := hi.abortedPre ha; rw [he] at this; exact absurd this (by decide)
  have hstop : l.stopped = false := by simp [LState.stopped, hab, hi.noCut]
  cases st with
  | tick n =>
    have hb : l.limitBlocks n = false := by simp [LState.limitBlocks, hdl]
    simp only [lstep, hstop, hb]
    cases tstep c τ l.t (.tick n) <;> rfl
  | act u =>
    simp only [lstep, hstop]
    cases hts : tstep c τ l.t (.act u) with
    | none => rfl
    | some t' =>
      have he' := tstep_established hi.tinv hts he
      have hnd : nextDeadline lim .cleared l.deadline l.t.s t'.s l.t.now = none :=
        nextDeadline_cleared_established hi.clear he' (Or.inl he)
      simp only [Option.map, hnd, Bool.false_eq_true, if_false]
      rw [← hdl]

/-- … and so is a whole schedule: from an established state the limits play no part -/
theorem lrunFrom_established {c : Cfg} {τ : Timing} {lim : Limits} {l : LState} (hi : LInv c τ l)
    (he : l.t.s.phase.established = true) (more : List TStep) :
    (lrunFrom c τ lim .cleared l (more.map LStep.t)).map LState.t = trunFrom c τ l.t more := by
  induction more generalizing l with
  | nil => rfl
  | cons st rest ih =>
    simp only [List.map_cons, lrunFrom, trunFrom]
    rw [lstep_established_eq hi he st]
    cases hts : tstep c τ l.t st with
    | none => rfl
    | some t' =>
      simp only [Option.map]
      have hx : lstep c τ lim .cleared l (.t st) = some { l with t := t' } := by
        rw [lstep_established_eq hi he st, hts]; rfl
      exact ih (linv_step hi hx) (tstep_established hi.tinv hts he)

end C03
end FwdVerif
