/-
  "Nothing is released beyond the stream's credit" for lists of settings that repeat
  SETTINGS_INITIAL_WINDOW_SIZE, applied value by value (`applyEach`: the loop the relay ran over a
  whole SETTINGS frame before the repair of F51; `Lemmas/H2Credit.lean` covers lists that name the
  identifier at most once, which is all `relay.applySettings` feeds it now).  Scanning the queues
  after EVERY value means a frame released under an earlier value stays released under the later
  ones.  When no value of the list exceeds the LAST one (the one in force afterwards) every release
  is covered by it; otherwise it need not be (`c09_settings_each_value_applied_witness`).  Applying
  only the last value of every identifier before the queues are scanned (`applySettingsLastOnly`)
  covers every frame.  Core-only.
-/
import FwdVerif.Lemmas.H2Credit
import FwdVerif.Lemmas.H2Settings

namespace FwdVerif
namespace H2

variable {α : Type}

/-- every SETTINGS_INITIAL_WINDOW_SIZE value of the list is at most `V` -/
def initAllLe (V : Int) : List (Nat × Nat) → Prop
  | [] => True
  | (id, v) :: t => (id = settingInitialWindowSize → (v : Int) ≤ V) ∧ initAllLe V t

def initAllLe.dec (V : Int) : (kvs : List (Nat × Nat)) → Decidable (initAllLe V kvs)
  | [] => isTrue trivial
  | (id, v) :: t =>
    have : Decidable (initAllLe V t) := initAllLe.dec V t
    by unfold initAllLe; exact inferInstance

instance (V : Int) (kvs : List (Nat × Nat)) : Decidable (initAllLe V kvs) := initAllLe.dec V kvs

/-- every released frame belongs to a buffer whose window would not be negative if the initial
    window size were `V` -/
def UpTo (V : Int) (d : Dir α) (e : List (QFrame α)) : Prop :=
  ∀ q ∈ e, ∃ st, d.streams.get q.sid = some st ∧ d.initWin - V ≤ st.win

def KeepsUpTo (V : Int) (d d' : Dir α) : Prop :=
  ∀ s st, d.streams.get s = some st →
    ∃ st', d'.streams.get s = some st' ∧ (d.initWin - V ≤ st.win → d'.initWin - V ≤ st'.win)

theorem KeepsUpTo.refl (V : Int) (d : Dir α) : KeepsUpTo V d d := fun _ st h => ⟨st, h, id⟩

theorem KeepsUpTo.trans {V : Int} {a b c : Dir α} (h1 : KeepsUpTo V a b) (h2 : KeepsUpTo V b c) : KeepsUpTo V a c := by
  intro s st hs
  obtain ⟨st1, hs1, k1⟩ := h1 s st hs
  obtain ⟨st2, hs2, k2⟩ := h2 s st1 hs1
  exact ⟨st2, hs2, fun h => k2 (k1 h)⟩

theorem KeepsUpTo.of_eq {V : Int} {d d' : Dir α} (h : d'.streams = d.streams) (hi : d'.initWin = d.initWin) :
    KeepsUpTo V d d' := by
  intro s st hs; exact ⟨st, by rw [h]; exact hs, by rw [hi]; exact id⟩

theorem UpTo.nil (V : Int) (d : Dir α) : UpTo V d [] := by intro q hq; simp at hq

theorem UpTo.mono {V : Int} {d d' : Dir α} {e : List (QFrame α)} (h : UpTo V d e) (k : KeepsUpTo V d d') : UpTo V d' e := by
  intro q hq
  obtain ⟨st, hs, hw⟩ := h q hq
  obtain ⟨st', hs', kw⟩ := k _ st hs
  exact ⟨st', hs', kw hw⟩

theorem UpTo.append {V : Int} {d : Dir α} {a b : List (QFrame α)} (ha : UpTo V d a) (hb : UpTo V d b) :
    UpTo V d (a ++ b) := by
  intro q hq
  rcases List.mem_append.mp hq with h | h
  · exact ha q h
  · exact hb q h

theorem Released.upTo {V : Int} {d : Dir α} {e : List (QFrame α)} (h : Released d e) (hV : d.initWin ≤ V) : UpTo V d e := by
  intro q hq
  obtain ⟨st, hs, hw⟩ := h q hq
  exact ⟨st, hs, by omega⟩

theorem UpTo.released {d : Dir α} {e : List (QFrame α)} (h : UpTo d.initWin d e) : Released d e := by
  intro q hq
  obtain ⟨st, hs, hw⟩ := h q hq
  exact ⟨st, hs, by omega⟩

theorem KeepsUpTo.emitOn {V : Int} (d : Dir α) (s : Nat) (hV : d.initWin ≤ V) : KeepsUpTo V d (d.emitOn s).1 := by
  rcases d.emitOn_spec s with ⟨_, he⟩ | ⟨st, hs, _, he1⟩
  · rw [he]; exact KeepsUpTo.refl V d
  · rw [he1]
    intro t st0 ht
    simp only [SMap.get_set]
    by_cases hst : s = t
    · subst hst
      simp only [if_true]
      rw [hs] at ht
      injection ht with ht
      subst ht
      refine ⟨_, rfl, fun hw => ?_⟩
      simp only
      by_cases hem : (emitQ st.win d.connWin st.queue).1 = []
      · rw [emitQ_win, hem]; simpa [fcSum] using hw
      · have := emitQ_win_nonneg st.win d.connWin st.queue hem
        omega
    · simp only [hst, if_false]
      exact ⟨st0, ht, id⟩

theorem emitOn_initWin (d : Dir α) (s : Nat) : (d.emitOn s).1.initWin = d.initWin := (SameCfg.emitOn d s).1

theorem KeepsUpTo.emitList {V : Int} (d : Dir α) (ss : List Nat) (hV : d.initWin ≤ V) : KeepsUpTo V d (d.emitList ss).1 := by
  induction ss generalizing d with
  | nil => exact KeepsUpTo.refl V d
  | cons s t ih =>
    simp only [Dir.emitList]
    exact (KeepsUpTo.emitOn d s hV).trans (ih _ (by rw [emitOn_initWin]; exact hV))

theorem UpTo.pass {V : Int} {d : Dir α} {L : Ledger} (h : Book d L) (order : List Nat) (hV : d.initWin ≤ V) :
    UpTo V (d.pass order).1 (d.pass order).2 ∧ KeepsUpTo V d (d.pass order).1 := by
  refine ⟨(Released.pass h order).1.upTo ?_, KeepsUpTo.emitList d _ hV⟩
  have := (SameCfg.emitList d (order ++ d.streams.keys)).1
  unfold Dir.pass
  rw [this]; exact hV

/-- the state between "all windows moved by the delta" and the scan -/
theorem Book.initDelta {d : Dir α} {L : Ledger} (h : Book d L) (v : Nat) :
    Book ({ d with initWin := v, streams := d.streams.mapWin (· + ((v : Int) - d.initWin)) } : Dir α) L := by
  refine { conn := h.conn, connNonneg := h.connNonneg, win := ?_, fresh := ?_, sids := ?_ }
  · intro t st' ht
    simp only [SMap.get_mapWin] at ht
    cases hg : d.streams.get t with
    | none => simp [hg] at ht
    | some st =>
      simp only [hg, Option.map_some, Option.some.injEq] at ht
      subst ht
      have := h.win t st hg
      simp only; omega
  · intro t ht
    simp only [SMap.get_mapWin] at ht
    cases hg : d.streams.get t with
    | none => exact h.fresh t hg
    | some st => simp [hg] at ht
  · intro t st' ht q hq
    simp only [SMap.get_mapWin] at ht
    cases hg : d.streams.get t with
    | none => simp [hg] at ht
    | some st =>
      simp only [hg, Option.map_some, Option.some.injEq] at ht
      subst ht
      exact h.sids t st hg q hq

theorem UpTo.setInitWin {V : Int} {d : Dir α} {L : Ledger} (h : Book d L) (order : List Nat) (v : Nat) (hv : (v : Int) ≤ V) :
    UpTo V (d.setInitWin order v).1 (d.setInitWin order v).2 ∧ KeepsUpTo V d (d.setInitWin order v).1 := by
  have hmid := h.initDelta v
  have hp := UpTo.pass (V := V) hmid order hv
  unfold Dir.setInitWin
  refine ⟨hp.1, KeepsUpTo.trans ?_ hp.2⟩
  intro s st hs
  refine ⟨{ st with win := st.win + ((v : Int) - d.initWin) }, ?_, ?_⟩
  · simp [SMap.get_mapWin, hs]
  · intro hw; simp only; omega

/-- **repeated SETTINGS_INITIAL_WINDOW_SIZE, none above `V`**: every frame released while the list
    is processed belongs to a buffer whose window is at least `initWin − V` afterwards -/
theorem UpTo.applyEach {V : Int} {o : Dir α} {L : Ledger} (h : Book o L) (ord : Nat → List Nat) (k : Nat)
    (kvs : List (Nat × Nat)) (hc : initAllLe V kvs) :
    UpTo V (applyEach o ord k kvs).1 (applyEach o ord k kvs).2 ∧ KeepsUpTo V o (applyEach o ord k kvs).1 := by
  induction kvs generalizing o L k with
  | nil => exact ⟨UpTo.nil V o, KeepsUpTo.refl V o⟩
  | cons kv rest ih =>
    obtain ⟨id, v⟩ := kv
    simp only [initAllLe] at hc
    simp only [H2.applyEach]
    split
    · rename_i hid
      have h1 := UpTo.setInitWin (V := V) h (ord k) v (hc.1 hid)
      have h2 := ih (h.setInitWin (ord k) v) (k + 1) hc.2
      exact ⟨(h1.1.mono h2.2).append h2.1, h1.2.trans h2.2⟩
    · split
      · have := ih (h.congr (d' := { o with maxFrame := v }) rfl rfl rfl) k hc.2
        exact ⟨this.1, (KeepsUpTo.of_eq (d := o) (d' := { o with maxFrame := v }) rfl rfl).trans this.2⟩
      · split
        · have := ih (h.congr (d' := { o with tableSize := v }) rfl rfl rfl) k hc.2
          exact ⟨this.1, (KeepsUpTo.of_eq (d := o) (d' := { o with tableSize := v }) rfl rfl).trans this.2⟩
        · exact ih h k hc.2

/-- … in particular when the LAST value is the largest: every release is within the credit in force
    after the frame -/
theorem Released.applyEach_lastMax {o : Dir α} {L : Ledger} (h : Book o L) (ord : Nat → List Nat) (k : Nat)
    (kvs : List (Nat × Nat)) (hc : initAllLe (lastOfInt settingInitialWindowSize o.initWin kvs) kvs) :
    Released (H2.applyEach o ord k kvs).1 (H2.applyEach o ord k kvs).2 := by
  have := (UpTo.applyEach h ord k kvs hc).1
  rw [← (applyEach_cfg o ord k kvs).1] at this
  exact this.released

theorem initAllLe_absent (V : Int) (t : List (Nat × Nat)) (h : settingInitialWindowSize ∉ t.map (·.1)) :
    initAllLe V t := by
  induction t with
  | nil => trivial
  | cons kv rest ih =>
    obtain ⟨i, v⟩ := kv
    simp only [List.map_cons, List.mem_cons, not_or] at h
    exact ⟨fun e => absurd e.symm h.1, ih h.2⟩

/-- in a frame that names no identifier twice the (only) SETTINGS_INITIAL_WINDOW_SIZE value is the
    last one -/
theorem initAllLe_of_nodup (d : Int) (kvs : List (Nat × Nat)) (h : (kvs.map (·.1)).Nodup) :
    initAllLe (lastOfInt settingInitialWindowSize d kvs) kvs := by
  induction kvs generalizing d with
  | nil => trivial
  | cons kv rest ih =>
    obtain ⟨i, v⟩ := kv
    simp only [List.map_cons, List.nodup_cons] at h
    simp only [initAllLe, lastOfInt]
    by_cases hi : i = settingInitialWindowSize
    · subst hi
      simp only [if_true]
      rw [lastOfInt_absent _ _ _ h.1]
      exact ⟨fun _ => Int.le_refl _, initAllLe_absent _ _ h.1⟩
    · simp only [hi, if_false]
      exact ⟨fun e => e.elim, ih d h.2⟩

/-- **the fix pattern**: when only the last value of every identifier is applied before the queues
    are scanned, every release is within the credit in force after the frame — for EVERY frame -/
theorem Released.applySettingsLastOnly {o : Dir α} {L : Ledger} (h : Book o L) (ord : Nat → List Nat)
    (kvs : List (Nat × Nat)) :
    Released (H2.applySettingsLastOnly o ord kvs).1 (H2.applySettingsLastOnly o ord kvs).2 :=
  Released.applyEach_lastMax h ord 0 (lastOcc kvs) (initAllLe_of_nodup _ _ (lastOcc_nodup kvs))

end H2
end FwdVerif
