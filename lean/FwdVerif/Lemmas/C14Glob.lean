/-
  C14 — `shExpMatch`: the RegExp the JavaScript builds from a glob of the agreed alphabet, and the
  equality of its matcher with the glob semantics.
-/
import FwdVerif.Lemmas.C14Str
namespace FwdVerif
namespace C14
open Ascii

/-- what one pattern character becomes in the RegExp source -/
def img (c : UInt8) : Bytes :=
  if c == 46 then [92, 46] else if c == 42 then [46, 42] else if c == 63 then [46] else [c]

/-- … and as a matcher item -/
def tokOf (c : UInt8) : Atom × Bool :=
  if c == 46 then (.lit 46, false) else if c == 42 then (.any, true)
  else if c == 63 then (.any, false) else (.lit c, false)

def rtoks (c : UInt8) : List RTok :=
  if c == 46 then [.atom (.lit 46)] else if c == 42 then [.atom .any, .star]
  else if c == 63 then [.atom .any] else [.atom (.lit c)]

theorem replaceAll_append (c : UInt8) (rep a b : Bytes) :
    replaceAll c rep (a ++ b) = replaceAll c rep a ++ replaceAll c rep b := by
  simp [replaceAll, List.flatMap_append]

theorem globToRegexSrc_cons (c : UInt8) (p : Bytes) :
    globToRegexSrc (c :: p) = img c ++ globToRegexSrc p := by
  have hc : c :: p = [c] ++ p := rfl
  unfold globToRegexSrc
  rw [hc, replaceAll_append, replaceAll_append, replaceAll_append]
  congr 1
  unfold img
  by_cases h1 : c = 46
  · subst h1; decide
  · by_cases h2 : c = 42
    · subst h2; decide
    · by_cases h3 : c = 63
      · subst h3; decide
      · have a1 : (c == 46) = false := beq_eq_false_iff_ne.mpr h1
        have a2 : (c == 42) = false := beq_eq_false_iff_ne.mpr h2
        have a3 : (c == 63) = false := beq_eq_false_iff_ne.mpr h3
        simp [replaceAll, h1, h2, h3]

theorem globToRegexSrc_nil : globToRegexSrc [] = [] := by decide

theorem reLex_src (p : Bytes) (hd : globDomain p = true) :
    reLex (globToRegexSrc p) = some (p.flatMap rtoks) := by
  induction p with
  | nil => simp [globToRegexSrc_nil, reLex]
  | cons c p ih =>
    have hd' : globDomain p = true := by
      unfold globDomain at hd ⊢; simp only [List.all_cons, Bool.and_eq_true] at hd; exact hd.2
    have hc : (c == 46 || c == 42 || c == 63 || !isReSpecial c) = true := by
      unfold globDomain at hd; simp only [List.all_cons, Bool.and_eq_true] at hd; exact hd.1
    rw [globToRegexSrc_cons, List.flatMap_cons]
    by_cases h1 : c = 46
    · subst h1
      have e1 : img 46 = [92, 46] := by decide
      have e2 : rtoks 46 = [.atom (.lit 46)] := by decide
      rw [e1, e2]; simp [reLex.eq_def (_ :: _), ih hd']
    · by_cases h2 : c = 42
      · subst h2
        have e1 : img 42 = [46, 42] := by decide
        have e2 : rtoks 42 = [.atom .any, .star] := by decide
        rw [e1, e2]; simp [reLex.eq_def (_ :: _), ih hd']
      · by_cases h3 : c = 63
        · subst h3
          have e1 : img 63 = [46] := by decide
          have e2 : rtoks 63 = [.atom .any] := by decide
          rw [e1, e2]; simp [reLex.eq_def (_ :: _), ih hd']
        · have a1 : (c == 46) = false := beq_eq_false_iff_ne.mpr h1
          have a2 : (c == 42) = false := beq_eq_false_iff_ne.mpr h2
          have a3 : (c == 63) = false := beq_eq_false_iff_ne.mpr h3
          have a4 : isReSpecial c = false := by simpa [a1, a2, a3] using hc
          have a5 : (c == 92) = false := by
            unfold isReSpecial at a4
            simp only [Bool.or_eq_false_iff] at a4
            exact a4.1.1.1.1.1.1.1.1.1.1.1.1.1
          have e1 : img c = [c] := by simp [img, h1, h2, h3]
          have e2 : rtoks c = [.atom (.lit c)] := by simp [rtoks, h1, h2, h3]
          rw [e1, e2]
          have a5' : c ≠ 92 := by simpa using a5
          simp [reLex.eq_def (_ :: _), h1, h2, a5', a4, ih hd']


theorem rtoks_not_star (c : UInt8) (p : Bytes) :
    ∀ rest', rtoks c ++ p.flatMap rtoks = RTok.star :: rest' → False := by
  intro rest' h
  unfold rtoks at h
  split at h
  · simp at h
  · split at h
    · simp at h
    · split at h <;> simp at h

theorem reGroup_toks (p : Bytes) : reGroup (p.flatMap rtoks) = some (p.map tokOf) := by
  induction p with
  | nil => simp [reGroup]
  | cons c p ih =>
    rw [List.flatMap_cons, List.map_cons]
    have hns : ∀ rest', p.flatMap rtoks = RTok.star :: rest' → False := by
      cases p with
      | nil => intro r h; simp at h
      | cons d q => intro r h; rw [List.flatMap_cons] at h; exact rtoks_not_star d q r h
    by_cases h2 : c = 42
    · subst h2
      have e2 : rtoks 42 = [.atom .any, .star] := by decide
      have e3 : tokOf 42 = (.any, true) := by decide
      rw [e2, e3]
      simp only [List.cons_append, List.nil_append]
      rw [reGroup.eq_3, ih]; rfl
    · have e2 : ∃ a, rtoks c = [.atom a] ∧ tokOf c = (a, false) := by
        unfold rtoks tokOf
        by_cases h1 : c = 46
        · exact ⟨.lit 46, by simp [h1]⟩
        · by_cases h3 : c = 63
          · exact ⟨.any, by subst h3; decide⟩
          · exact ⟨.lit c, by simp [h1, h2, h3]⟩
      obtain ⟨a, ea, eb⟩ := e2
      rw [ea, eb]
      simp only [List.cons_append, List.nil_append]
      rw [reGroup.eq_4 a _ hns, ih]; rfl

theorem compileGlob_domain (p : Bytes) (hd : globDomain p = true) :
    compileGlob p = some (p.map tokOf) := by
  unfold compileGlob
  rw [reLex_src p hd]
  exact reGroup_toks p

theorem any_m (d : UInt8) (h : (d != 10) = true ∧ (d != 13) = true) : Atom.any.m d = true := by
  simp [Atom.m, h.1, h.2]

theorem matchAtoms_glob (p : Bytes) : ∀ s : Bytes, noNewline s = true →
    matchAtoms (p.map tokOf) s = globMatch p s := by
  induction p with
  | nil => intro s _; rw [globMatch.eq_def]; simp [matchAtoms]
  | cons c p ih =>
    by_cases h2 : c = 42
    · subst h2
      have e3 : tokOf 42 = (.any, true) := by decide
      intro s
      induction s with
      | nil =>
        intro hs
        rw [globMatch.eq_def]
        simp [e3, matchAtoms, starLoop, ih [] hs]
      | cons d s' ihs =>
        intro hs
        have hs' : noNewline s' = true := by
          unfold noNewline at hs ⊢; simp only [List.all_cons, Bool.and_eq_true] at hs; exact hs.2
        have hd : (d != 10) = true ∧ (d != 13) = true := by
          unfold noNewline at hs; simp only [List.all_cons, Bool.and_eq_true] at hs; exact hs.1
        have := ihs hs'
        rw [globMatch.eq_def]
        simp only [List.map_cons, e3, matchAtoms, starLoop] at this ⊢
        rw [any_m d hd, this, ih (d :: s') hs]
        simp
    · intro s hs
      rw [globMatch.eq_def]
      have hne : ((c == 42) = true) = False := by simp [h2]
      simp only [hne, if_false]
      cases s with
      | nil =>
        have : ∃ a, tokOf c = (a, false) := by
          unfold tokOf
          by_cases h1 : c = 46
          · exact ⟨.lit 46, by simp [h1]⟩
          · by_cases h3 : c = 63
            · exact ⟨.any, by subst h3; decide⟩
            · exact ⟨.lit c, by simp [h1, h2, h3]⟩
        obtain ⟨a, ea⟩ := this
        simp [ea, matchAtoms]
      | cons d s' =>
        have hs' : noNewline s' = true := by
          unfold noNewline at hs ⊢; simp only [List.all_cons, Bool.and_eq_true] at hs; exact hs.2
        have hd : (d != 10) = true ∧ (d != 13) = true := by
          unfold noNewline at hs; simp only [List.all_cons, Bool.and_eq_true] at hs; exact hs.1
        by_cases h3 : c = 63
        · subst h3
          have e3 : tokOf 63 = (.any, false) := by decide
          simp only [List.map_cons, e3, matchAtoms]
          rw [any_m d hd, ih s' hs']; simp
        · by_cases h1 : c = 46
          · subst h1
            have e3 : tokOf 46 = (.lit 46, false) := by decide
            simp only [List.map_cons, e3, matchAtoms, Atom.m]
            rw [ih s' hs']; simp
          · have e3 : tokOf c = (.lit c, false) := by simp [tokOf, h1, h2, h3]
            simp only [List.map_cons, e3, matchAtoms, Atom.m]
            rw [ih s' hs']
            have : (c == 63) = false := beq_eq_false_iff_ne.mpr h3
            simp [this]

theorem shExpMatch_eq_glob (s p : Bytes) (hd : globDomain p = true) (hs : noNewline s = true) :
    shExpMatch s p = some (globMatch p s) := by
  unfold shExpMatch
  rw [compileGlob_domain p hd]
  simp [matchAtoms_glob p s hs]

end C14
end FwdVerif
