/-
  C02 — syntactic well-formedness of the head the client receives (core Lean only).

  `GoodMap`: every entry of a header map has a non-empty token key and values without LF.  The
  invariant holds for the map built from well-formed origin field lines and is kept by everything
  the transport's read and the response modifiers do (`Del/Set/Add`, hop-by-hop removal); the
  writers' own lines (`connection: close`, `transfer-encoding`, `content-length`, `trailer`) are
  well formed too, the `trailer` value because declared trailer names are pieces of values of the map.
-/
import FwdVerif.Lemmas.RespOut

namespace FwdVerif
namespace Resp

open Ascii
open C16 (HMap goDel goSet goAdd CanonKeys NodupKeys Rule applyRules)
open Req (bs hget goGet trimOWS splitComma valuesContainToken toHeader removeHopByHop upgradeType
          lowerFields mergeFields natToDec joinWith hopByHopNames)

/-! ### header maps whose entries can be written as well-formed lines -/

/-- non-empty token keys, values without LF -/
def GoodMap (h : HMap) : Prop :=
  ∀ e ∈ h, e.1 ≠ [] ∧ e.1.all isTokenByte = true ∧ ∀ v ∈ e.2, (10 : UInt8) ∉ v

theorem goodMap_nil : GoodMap ([] : HMap) := fun _ h => absurd h (by simp)

theorem GoodMap.sublist {h h' : HMap} (hs : h'.Sublist h) (hg : GoodMap h) : GoodMap h' :=
  fun e he => hg e (hs.subset he)

theorem goodMap_put {h : HMap} {c : Bytes} {vs : List Bytes} (hne : c ≠ [])
    (hc : c.all isTokenByte = true) (hvs : ∀ v ∈ vs, (10 : UInt8) ∉ v) (hg : GoodMap h) :
    GoodMap (HMap.put h c vs) := by
  intro e he
  rcases C16.mem_put he with he | rfl
  · exact hg e he
  · exact ⟨hne, hc, hvs⟩

theorem lookup_some_mem {h : HMap} {k : Bytes} {vs : List Bytes} (hl : h.lookup k = some vs) :
    (k, vs) ∈ h := by
  obtain ⟨l₁, l₂, rfl, _⟩ := List.lookup_eq_some_iff.mp hl
  simp

/-- the values stored under a key of a good map have no LF -/
theorem GoodMap.hget {h : HMap} (hg : GoodMap h) (k : Bytes) : ∀ v ∈ hget h k, (10 : UInt8) ∉ v := by
  unfold Req.hget C16.HMap.get
  cases hl : h.lookup k with
  | none => intro v hv; simp at hv
  | some vs => exact (hg _ (lookup_some_mem hl)).2.2

theorem GoodMap.goGet {h : HMap} (hg : GoodMap h) (n : Bytes) : (10 : UInt8) ∉ goGet h n := by
  unfold Req.goGet
  cases hv : Req.hget h (canonicalKey n) with
  | nil => simp
  | cons a l =>
    have := hg.hget (canonicalKey n) a (by rw [hv]; exact List.mem_cons_self)
    simpa using this

theorem canonicalKey_ne_nil {n : Bytes} (hne : n ≠ []) : canonicalKey n ≠ [] := by
  cases n with
  | nil => exact absurd rfl hne
  | cons c cs =>
    unfold canonicalKey
    split
    · rw [C16.canonLoop_cons]; simp
    · simp

theorem goodMap_goDel {h : HMap} (n : Bytes) (hg : GoodMap h) : GoodMap (goDel h n) :=
  hg.sublist (C16.erase_sublist _ _)

theorem goodMap_goSet {h : HMap} {n v : Bytes} (hne : n ≠ []) (hn : n.all isTokenByte = true)
    (hv : (10 : UInt8) ∉ v) (hg : GoodMap h) : GoodMap (goSet h n v) :=
  goodMap_put (canonicalKey_ne_nil hne) (by rw [C16.all_token_canonicalKey]; exact hn)
    (fun w hw => by rw [List.mem_singleton.mp hw]; exact hv) hg

theorem goodMap_goAdd {h : HMap} {n v : Bytes} (hne : n ≠ []) (hn : n.all isTokenByte = true)
    (hv : (10 : UInt8) ∉ v) (hg : GoodMap h) : GoodMap (goAdd h n v) := by
  refine goodMap_put (canonicalKey_ne_nil hne) (by rw [C16.all_token_canonicalKey]; exact hn) ?_ hg
  intro w hw
  rcases List.mem_append.mp hw with hw | hw
  · exact hg.hget (canonicalKey n) w hw
  · rw [List.mem_singleton.mp hw]; exact hv

theorem goodMap_toHeader (fs : List (Bytes × Bytes)) (hwf : ∀ f ∈ fs, LineWF f) :
    GoodMap (toHeader fs) := by
  unfold Req.toHeader
  suffices ∀ h : HMap, GoodMap h → GoodMap (fs.foldl (fun h f => goAdd h f.1 f.2) h) from
    this [] goodMap_nil
  induction fs with
  | nil => exact fun h hg => hg
  | cons f fs ih =>
    intro h hg
    have hf := hwf f List.mem_cons_self
    exact ih (fun f' hf' => hwf f' (List.mem_cons_of_mem _ hf')) _
      (goodMap_goAdd hf.name_ne hf.name_tok hf.value_nolf hg)

theorem goodMap_foldl_goDel (ns : List Bytes) (h : HMap) (hg : GoodMap h) :
    GoodMap (ns.foldl (fun h n => goDel h n) h) := by
  induction ns generalizing h with
  | nil => exact hg
  | cons n ns ih => exact ih _ (goodMap_goDel _ hg)

theorem goodMap_removeHopByHop {h : HMap} (hg : GoodMap h) : GoodMap (removeHopByHop h) := by
  rw [removeHopByHop_eq]
  exact goodMap_foldl_goDel _ _ (goodMap_foldl_goDel _ _ hg)

/-! ### byte-level facts -/

theorem mem_trimOWS {c : Bytes} {x : UInt8} (h : x ∈ trimOWS c) : x ∈ c := by
  unfold Req.trimOWS at h
  simp only [List.mem_reverse] at h
  exact C16.mem_of_mem_dropWhile (List.mem_reverse.mp (C16.mem_of_mem_dropWhile h))

theorem trimOWS_nolf {c : Bytes} (h : (10 : UInt8) ∉ c) : (10 : UInt8) ∉ trimOWS c :=
  fun hx => h (mem_trimOWS hx)

theorem splitGo_bytes (Q : UInt8 → Prop) (s cur : Bytes) (acc : List Bytes)
    (hcur : ∀ x ∈ cur, Q x) (hacc : ∀ p ∈ acc, ∀ x ∈ p, Q x) (hs : ∀ x ∈ s, Q x) :
    ∀ p ∈ Req.splitComma.go cur acc s, ∀ x ∈ p, Q x := by
  induction s generalizing cur acc with
  | nil =>
    intro p hp x hx
    unfold Req.splitComma.go at hp
    rw [List.mem_reverse, List.mem_cons] at hp
    rcases hp with rfl | hp
    · exact hcur x (List.mem_reverse.mp hx)
    · exact hacc p hp x hx
  | cons c cs ih =>
    unfold Req.splitComma.go
    split
    · apply ih
      · intro x hx; simp at hx
      · intro p hp x hx
        rcases List.mem_cons.mp hp with rfl | hp
        · exact hcur x (List.mem_reverse.mp hx)
        · exact hacc p hp x hx
      · exact fun x hx => hs x (List.mem_cons_of_mem _ hx)
    · apply ih
      · intro x hx
        rcases List.mem_cons.mp hx with rfl | hx
        · exact hs _ List.mem_cons_self
        · exact hcur x hx
      · exact hacc
      · exact fun x hx => hs x (List.mem_cons_of_mem _ hx)

theorem splitComma_nolf {v : Bytes} (h : (10 : UInt8) ∉ v) : ∀ p ∈ splitComma v, (10 : UInt8) ∉ p := by
  intro p hp h10
  have := splitGo_bytes (fun x => x ≠ 10) v [] [] (by simp) (by simp)
    (fun x hx hx10 => h (hx10 ▸ hx)) p hp 10 h10
  exact this rfl

theorem caseStep_eq_lf {up : Bool} {c : UInt8} (h : C16.caseStep up c = 10) : c = 10 := by
  revert h
  cases up <;> simp only [C16.caseStep, isUpper, isLower] <;> grind

theorem canonLoop_nolf (up : Bool) {s : Bytes} (h : (10 : UInt8) ∉ s) : (10 : UInt8) ∉ canonLoop up s := by
  induction s generalizing up with
  | nil => simp [canonLoop]
  | cons c cs ih =>
    rw [C16.canonLoop_cons]
    intro hm
    rcases List.mem_cons.mp hm with hm | hm
    · exact h (by rw [caseStep_eq_lf hm.symm]; exact List.mem_cons_self)
    · exact ih _ (fun hx => h (List.mem_cons_of_mem _ hx)) hm

theorem canonicalKey_nolf {s : Bytes} (h : (10 : UInt8) ∉ s) : (10 : UInt8) ∉ canonicalKey s := by
  unfold canonicalKey
  split
  · exact canonLoop_nolf true h
  · exact h

theorem joinWith_nolf_sep (sep : Bytes) (hs : (10 : UInt8) ∉ sep) (l : List Bytes)
    (h : ∀ p ∈ l, (10 : UInt8) ∉ p) : (10 : UInt8) ∉ joinWith sep l := by
  induction l with
  | nil => simp [Req.joinWith]
  | cons a l ih =>
    cases l with
    | nil => simpa [Req.joinWith] using h a List.mem_cons_self
    | cons b l =>
      unfold Req.joinWith
      intro hm
      simp only [List.mem_append] at hm
      rcases hm with (hm | hm) | hm
      · exact h a List.mem_cons_self hm
      · exact hs hm
      · exact ih (fun p hp => h p (List.mem_cons_of_mem _ hp)) hm

theorem joinWith_nolf (l : List Bytes) (h : ∀ p ∈ l, (10 : UInt8) ∉ p) :
    (10 : UInt8) ∉ joinWith [44] l :=
  joinWith_nolf_sep [44] (by decide) l h

theorem digit_ne_lf {l : Bytes} (h : l.all isDigit = true) : (10 : UInt8) ∉ l := by
  intro hm
  have := List.all_eq_true.mp h 10 hm
  exact absurd this (by decide)

/-! ### literals -/

theorem ne_Connection : bs "Connection" ≠ [] := by bs_norm; simp
theorem ne_Upgrade : bs "Upgrade" ≠ [] := by bs_norm; simp
theorem ne_CL : bs "Content-Length" ≠ [] := by bs_norm; simp
theorem nolf_Upgrade : (10 : UInt8) ∉ bs "Upgrade" := by bs_norm; decide
theorem nolf_close : (10 : UInt8) ∉ bs "close" := by bs_norm; decide

/-! ### the header map through the transport's read -/

theorem rrConn_good (o : OriginResp) (hg : GoodMap (toHeader o.fields)) : GoodMap (rrConn o).2 := by
  unfold rrConn
  simp only
  split
  · exact hg
  · show GoodMap (if _ then _ else _)
    split
    · exact goodMap_goDel _ hg
    · exact hg

theorem rrCL_good {h2 h3 : HMap} {cls : List Bytes} (h : rrCL h2 = some (h3, cls)) (hg : GoodMap h2) :
    GoodMap h3 := by
  unfold rrCL at h
  split at h
  · cases h; exact hg
  · cases h; exact hg
  · rename_i c rest _ heq
    split at h
    · cases h
      have hc : (10 : UInt8) ∉ c := hg.hget _ c (by rw [heq]; exact List.mem_cons_self)
      exact goodMap_goSet ne_CL tok_CL (trimOWS_nolf hc) (goodMap_goDel _ hg)
    · exact absurd h (by simp)

theorem rrLen_good (rc : ReqCtx) (o : OriginResp) (chunked : Bool) {h3 : HMap} (n? : Option Nat)
    (hg : GoodMap h3) : GoodMap (rrLen rc o chunked h3 n?).1 := by
  unfold rrLen
  split
  · exact hg
  · split
    · exact goodMap_goDel _ hg
    · split <;> exact hg

theorem rrTrailer_good (chunked : Bool) {h4 : HMap} (hg : GoodMap h4) :
    GoodMap (rrTrailer chunked h4).1 := by
  unfold rrTrailer
  split
  · exact hg
  · split
    · exact hg
    · exact goodMap_goDel _ hg

theorem rrTrailer_nolf (chunked : Bool) {h4 : HMap} (hg : GoodMap h4) :
    ∀ k ∈ (rrTrailer chunked h4).2, (10 : UInt8) ∉ k := by
  unfold rrTrailer
  split
  · intro k hk; simp at hk
  · rename_i vs heq
    have hvs : ∀ v ∈ vs, (10 : UInt8) ∉ v := (hg _ (lookup_some_mem heq)).2.2
    split
    · intro k hk; simp at hk
    · intro k hk
      unfold trailerNames at hk
      simp only [List.mem_filter, List.mem_flatMap, List.mem_map] at hk
      obtain ⟨⟨v, hv, p, hp, rfl⟩, _⟩ := hk
      exact canonicalKey_nolf (trimOWS_nolf (splitComma_nolf (hvs v hv) p hp))

section read
variable {rc : ReqCtx} {o : OriginResp} {g : GoResp}

/-- the map before transparent gzip -/
theorem ReadOK.h5_good (ok : ReadOK rc o g) (hwf : ∀ f ∈ o.fields, LineWF f) :
    GoodMap (rrTrailer ok.chunked (rrLen rc o ok.chunked ok.h3 ok.n?).1).1 :=
  rrTrailer_good _ (rrLen_good rc o _ _
    (rrCL_good ok.hcl (goodMap_goDel _ (rrConn_good o (goodMap_toHeader _ hwf)))))

theorem ReadOK.header_good (ok : ReadOK rc o g) (hwf : ∀ f ∈ o.fields, LineWF f) :
    GoodMap g.header := by
  rw [ok.header_eq]
  split
  · exact goodMap_goDel _ (goodMap_goDel _ (ok.h5_good hwf))
  · exact ok.h5_good hwf

theorem ReadOK.trailer_nolf (ok : ReadOK rc o g) (hwf : ∀ f ∈ o.fields, LineWF f) :
    ∀ k ∈ g.trailer, (10 : UInt8) ∉ k := by
  rw [ok.trailer_eq]
  exact rrTrailer_nolf _ (rrLen_good rc o _ _
    (rrCL_good ok.hcl (goodMap_goDel _ (rrConn_good o (goodMap_toHeader _ hwf)))))

end read

/-! ### the header map handed to the writers -/

theorem pipeHeader_good {rc : ReqCtx} {g : GoResp} (hrules : rc.rules = []) (hg : GoodMap g.header) :
    GoodMap (pipeHeader rc g) := by
  have hid : (if rc.method == bs "CONNECT" then g.header else applyRules rc.rules g.header) = g.header := by
    rw [hrules]; split <;> rfl
  have h2 : GoodMap (pipeH2 rc g) := by
    unfold pipeH2
    rw [hid]
    exact goodMap_removeHopByHop hg
  have hup : (10 : UInt8) ∉ upgradeType g.header := by
    unfold Req.upgradeType
    split
    · exact hg.goGet _
    · simp
  rw [pipeHeader_eq]
  simp only
  have h3 : GoodMap (if (upgradeType g.header).isEmpty then pipeH2 rc g
      else goSet (goSet (pipeH2 rc g) (bs "Connection") (bs "Upgrade")) (bs "Upgrade") (upgradeType g.header)) := by
    split
    · exact h2
    · exact goodMap_goSet ne_Upgrade tok_Upgrade hup (goodMap_goSet ne_Connection tok_Connection nolf_Upgrade h2)
  split
  · exact goodMap_goAdd ne_Connection tok_Connection nolf_close h3
  · exact h3

/-! ### the lines written -/

theorem mem_flatFields (fs : List (Bytes × List Bytes)) (n v : Bytes) :
    (n, v) ∈ flatFields fs ↔ v ∈ valsOf fs n := by
  unfold flatFields valsOf
  simp only [List.mem_flatMap, List.mem_map, List.mem_filter, Prod.mk.injEq, beq_iff_eq]
  constructor
  · rintro ⟨e, he, w, hw, rfl, rfl⟩
    exact ⟨e, ⟨he, rfl⟩, hw⟩
  · rintro ⟨e, ⟨he, rfl⟩, hv⟩
    exact ⟨e, he, v, hv, rfl, rfl⟩

/-- merging entries introduces no line -/
theorem mem_flatFields_mergeFields {fs : List (Bytes × List Bytes)} {f : Bytes × Bytes}
    (h : f ∈ flatFields (mergeFields fs)) : f ∈ flatFields fs := by
  obtain ⟨n, v⟩ := f
  rw [mem_flatFields, valsOf_mergeFields, ← mem_flatFields] at h
  exact h

theorem flatFields_append (a b : List (Bytes × List Bytes)) :
    flatFields (a ++ b) = flatFields a ++ flatFields b := by
  unfold flatFields
  exact List.flatMap_append

theorem lower_ne_nil {k : Bytes} (h : k ≠ []) : lower k ≠ [] := by
  cases k with
  | nil => exact absurd rfl h
  | cons c cs => rw [C16.lower_cons]; simp

theorem lowerFields_lines {H : HMap} (hg : GoodMap H) : ∀ f ∈ flatFields (lowerFields H), LineWF f := by
  intro f hf
  unfold flatFields Req.lowerFields at hf
  simp only [List.mem_flatMap, List.mem_map] at hf
  obtain ⟨e', ⟨e, he, rfl⟩, v, hv, rfl⟩ := hf
  obtain ⟨h1, h2, h3⟩ := hg e he
  exact ⟨lower_ne_nil h1, by rw [C16.all_token_lower]; exact h2, h3 v hv⟩

theorem wConnLine_lines (rc : ReqCtx) (g : GoResp) : ∀ f ∈ flatFields (wConnLine rc g), LineWF f := by
  unfold wConnLine
  split
  · intro f hf
    rw [lit_connection, lit_close] at hf
    simp only [flatFields, List.flatMap_cons, List.flatMap_nil, List.map_cons, List.map_nil,
      List.append_nil, List.mem_singleton] at hf
    subst hf
    exact ⟨by decide, by decide, by decide⟩
  · intro f hf; simp [flatFields] at hf

theorem wLenFields_lines (rc : ReqCtx) (g : GoResp) (ht : ∀ k ∈ g.trailer, (10 : UInt8) ∉ k) :
    ∀ f ∈ flatFields (wLenFields rc g), LineWF f := by
  have hte : LineWF (bs "transfer-encoding", bs "chunked") := by
    rw [lit_transfer_encoding, lit_chunked]
    exact ⟨by decide, by decide, by decide⟩
  unfold wLenFields
  intro f hf
  split at hf
  · split at hf
    · simp only [flatFields, List.flatMap_cons, List.flatMap_nil, List.map_cons, List.map_nil,
        List.append_nil, List.mem_singleton] at hf
      subst hf
      exact hte
    · simp only [flatFields, List.flatMap_cons, List.flatMap_nil, List.map_cons, List.map_nil,
        List.append_nil, List.cons_append, List.nil_append, List.mem_cons, List.not_mem_nil, or_false] at hf
      rcases hf with rfl | rfl
      · exact hte
      · refine ⟨by rw [lit_trailer]; show Name.trailer ≠ []; decide,
          by rw [lit_trailer]; show Name.trailer.all isTokenByte = true; decide, ?_⟩
        apply joinWith_nolf
        intro p hp
        exact ht p (List.mem_mergeSort.mp (List.mem_eraseDups.mp hp))
  · split at hf
    · simp only [flatFields, List.flatMap_cons, List.flatMap_nil, List.map_cons, List.map_nil,
        List.append_nil, List.mem_singleton] at hf
      subst hf
      exact ⟨by rw [lit_content_length]; show Name.contentLength ≠ []; decide,
        by rw [lit_content_length]; show Name.contentLength.all isTokenByte = true; decide,
        digit_ne_lf (natToDec_all_digit _)⟩
    · simp [flatFields] at hf

theorem hoTrailerLine_lines (g : GoResp) (ht : ∀ k ∈ g.trailer, (10 : UInt8) ∉ k) :
    ∀ f ∈ flatFields (hoTrailerLine g), LineWF f := by
  unfold hoTrailerLine
  intro f hf
  split at hf
  · simp [flatFields] at hf
  · simp only [flatFields, List.flatMap_cons, List.flatMap_nil, List.map_cons, List.map_nil,
      List.append_nil, List.mem_singleton] at hf
    subst hf
    refine ⟨by rw [lit_trailer]; show Name.trailer ≠ []; decide,
      by rw [lit_trailer]; show Name.trailer.all isTokenByte = true; decide, ?_⟩
    apply joinWith_nolf_sep _ (by decide)
    intro p hp
    exact ht p (List.mem_mergeSort.mp (List.mem_eraseDups.mp hp))

/-! ### the theorem -/

/-- a syntactically well-formed origin head yields a syntactically well-formed head on the client side -/
theorem headWF_of_origin {rc : ReqCtx} {o : OriginResp} {r : ClientResp} (hwf : OriginHeadWF o)
    (hrules : rc.rules = []) (h : processResponse rc o = .ok r) : HeadWF r := by
  obtain ⟨g, hread, hcase⟩ := processResponse_ok h
  obtain ⟨ok⟩ := readResponse_some hread
  have hpipe : GoodMap (pipeHeader rc g) := pipeHeader_good hrules (ok.header_good hwf.lines)
  have hm : g.minor < 10 := by rw [ok.minor]; exact hwf.minor_lt
  have hs : g.status < 1000 := by rw [ok.status]; exact hwf.status_lt
  have hr : (10 : UInt8) ∉ reasonOut g.reason := by
    unfold reasonOut; rw [ok.reason]; exact hwf.reason_nolf
  rcases hcase with ⟨_, rfl⟩ | ⟨_, rfl⟩
  · refine ⟨hm, hs, hr, ?_⟩
    intro f hf
    have hf' := mem_flatFields_mergeFields (fs := lowerFields (pipeHeader rc g) ++ hoTrailerLine g) hf
    rw [flatFields_append, List.mem_append] at hf'
    rcases hf' with h1 | h1
    · exact lowerFields_lines hpipe f h1
    · exact hoTrailerLine_lines g (ok.trailer_nolf hwf.lines) f h1
  · refine ⟨hm, hs, hr, ?_⟩
    intro f hf
    have hf' := mem_flatFields_mergeFields (fs := wConnLine rc g ++ wLenFields rc g ++ wRest rc g) hf
    rw [flatFields_append, flatFields_append, List.mem_append, List.mem_append] at hf'
    rcases hf' with (h1 | h1) | h1
    · exact wConnLine_lines rc g f h1
    · exact wLenFields_lines rc g (ok.trailer_nolf hwf.lines) f h1
    · rw [wRest_eq] at h1
      exact lowerFields_lines (hpipe.sublist List.filter_sublist) f h1

/-- the hypotheses are satisfiable: a concrete well-formed origin head (`X-A: 1`, `Content-Length: 2`,
    `Connection: close`) and what it yields -/
example (rc : ReqCtx) (r : ClientResp) (hrules : rc.rules = [])
    (h : processResponse rc
      ⟨1, 200, [79, 75],
        [([88, 45, 65], [49]),
         ([67, 111, 110, 116, 101, 110, 116, 45, 76, 101, 110, 103, 116, 104], [50]),
         ([67, 111, 110, 110, 101, 99, 116, 105, 111, 110], [99, 108, 111, 115, 101])]⟩ = .ok r) :
    HeadWF r := by
  refine headWF_of_origin ⟨by decide, by decide, by decide, ?_⟩ hrules h
  intro f hf
  simp only [List.mem_cons, List.not_mem_nil, or_false] at hf
  rcases hf with rfl | rfl | rfl <;> exact ⟨by decide, by decide, by decide⟩

end Resp
end FwdVerif
