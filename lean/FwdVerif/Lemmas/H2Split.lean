/-
  Lemmas about the splitting functions of the HTTP/2 relay model (`relay.data`, `splitIntoChunks`,
  `queuedHeaderFrame.send`).  Core-only.
-/
import FwdVerif.Model.H2Relay

namespace FwdVerif
namespace H2

variable {α : Type}

/-! ### `splitData` -/

theorem splitDataAux_flatten (m : Nat) : ∀ (fuel : Nat) (d : List α), (splitDataAux m fuel d).flatten = d
  | 0, d => by simp [splitDataAux]
  | fuel + 1, d => by
    unfold splitDataAux
    split
    · simp
    · simp [splitDataAux_flatten m fuel (d.drop m)]

theorem splitData_flatten (m : Nat) (d : List α) : (splitData m d).flatten = d :=
  splitDataAux_flatten m _ d

theorem splitDataAux_ne_nil (m : Nat) : ∀ (fuel : Nat) (d : List α), splitDataAux m fuel d ≠ []
  | 0, d => by simp [splitDataAux]
  | fuel + 1, d => by
    unfold splitDataAux
    split <;> simp

theorem splitData_ne_nil (m : Nat) (d : List α) : splitData m d ≠ [] := splitDataAux_ne_nil m _ d

theorem splitDataAux_le (m : Nat) (hm : 0 < m) :
    ∀ (fuel : Nat) (d : List α), d.length ≤ fuel → ∀ c ∈ splitDataAux m fuel d, c.length ≤ m
  | 0, d, h, c, hc => by
    simp [splitDataAux] at hc
    subst hc
    omega
  | fuel + 1, d, h, c, hc => by
    unfold splitDataAux at hc
    split at hc
    · simp at hc; subst hc; assumption
    · rename_i hlt
      simp only [List.mem_cons] at hc
      rcases hc with hc | hc
      · subst hc; simp [List.length_take]; omega
      · exact splitDataAux_le m hm fuel (d.drop m) (by simp [List.length_drop]; omega) c hc

/-- every DATA frame the relay builds under a limit `m > 0` carries at most `m` octets -/
theorem splitData_le (m : Nat) (hm : 0 < m) (d : List α) : ∀ c ∈ splitData m d, c.length ≤ m :=
  splitDataAux_le m hm _ d (Nat.le_refl _)

/-- payloads of the queued DATA frames, in order -/
def dataPayloads : List (QFrame α) → List (List α)
  | [] => []
  | .data _ _ p :: t => p :: dataPayloads t
  | _ :: t => dataPayloads t

theorem dataQ_payloads (sid : Nat) (es : Bool) : ∀ cs : List (List α), dataPayloads (dataQ sid es cs) = cs
  | [] => rfl
  | [c] => rfl
  | c :: c' :: cs => by
    simp only [dataQ, dataPayloads]
    rw [dataQ_payloads sid es (c' :: cs)]

theorem dataQ_length (sid : Nat) (es : Bool) : ∀ cs : List (List α), (dataQ sid es cs).length = cs.length
  | [] => rfl
  | [c] => rfl
  | c :: c' :: cs => by simp only [dataQ, List.length_cons]; rw [dataQ_length sid es (c' :: cs)]; rfl

/-- END_STREAM is on the last fragment and nowhere else -/
theorem dataQ_shape (sid : Nat) (es : Bool) : ∀ (cs : List (List α)) (c : List α),
    dataQ sid es (cs ++ [c]) = cs.map (fun x => QFrame.data sid false x) ++ [QFrame.data sid es c]
  | [], c => rfl
  | [x], c => rfl
  | x :: y :: cs, c => by
    have := dataQ_shape sid es (y :: cs) c
    simp only [List.cons_append, List.map_cons] at this ⊢
    simp only [dataQ]
    rw [this]

theorem dataQ_sid (sid : Nat) (es : Bool) : ∀ (cs : List (List α)), ∀ q ∈ dataQ sid es cs, q.sid = sid
  | [], q, h => by simp [dataQ] at h
  | [c], q, h => by simp [dataQ] at h; subst h; rfl
  | c :: c' :: cs, q, h => by
    simp only [dataQ, List.mem_cons] at h
    rcases h with h | h
    · subst h; rfl
    · exact dataQ_sid sid es (c' :: cs) q (by simpa [dataQ] using h)

/-! ### `splitChunks` -/

theorem splitRest_flatten (m : Nat) : ∀ (fuel : Nat) (d : List α), d.length ≤ fuel → 0 < m →
    (splitRest m fuel d).flatten = d
  | 0, d, h, _ => by
    have : d = [] := List.eq_nil_of_length_eq_zero (by omega)
    subst this; simp [splitRest]
  | fuel + 1, d, h, hm => by
    unfold splitRest
    split
    · rename_i he
      have : d = [] := by simpa using he
      subst this; simp
    · rename_i he
      have hne : d ≠ [] := by simpa using he
      have hl : 0 < d.length := List.length_pos_iff.mpr hne
      simp only [List.flatten_cons]
      rw [splitRest_flatten m fuel (d.drop m) (by simp [List.length_drop]; omega) hm]
      exact List.take_append_drop m d

/-- the chunks of a header block concatenate to the block (`continuationMax > 0`) -/
theorem splitChunks_flatten (first cont : Nat) (hc : 0 < cont) (d : List α) :
    (splitChunks first cont d).flatten = d := by
  unfold splitChunks
  simp only [List.flatten_cons]
  rw [splitRest_flatten cont d.length (d.drop first) (by simp [List.length_drop]) hc]
  exact List.take_append_drop first d

theorem splitChunks_ne_nil (first cont : Nat) (d : List α) : splitChunks first cont d ≠ [] := by
  simp [splitChunks]

theorem splitRest_le (m : Nat) : ∀ (fuel : Nat) (d : List α), ∀ c ∈ splitRest m fuel d, c.length ≤ m
  | 0, d, c, hc => by simp [splitRest] at hc
  | fuel + 1, d, c, hc => by
    unfold splitRest at hc
    split at hc
    · simp at hc
    · simp only [List.mem_cons] at hc
      rcases hc with hc | hc
      · subst hc; simp [List.length_take]; omega
      · exact splitRest_le m fuel (d.drop m) c hc

theorem splitChunks_head_le (first cont : Nat) (d : List α) :
    ∀ c rest, splitChunks first cont d = c :: rest → c.length ≤ first ∧ ∀ x ∈ rest, x.length ≤ cont := by
  intro c rest h
  unfold splitChunks at h
  injection h with h1 h2
  subst h1; subst h2
  exact ⟨by simp [List.length_take]; omega, splitRest_le cont _ _⟩

/-! ### frames on the wire -/

/-- header-block fragments carried by wire frames, in order -/
def frags : List (Frame α) → List (List α)
  | [] => []
  | .headers _ _ _ _ f :: t => f :: frags t
  | .continuation _ _ f :: t => f :: frags t
  | .pushPromise _ _ _ f :: t => f :: frags t
  | _ :: t => frags t

theorem contFrames_frags (sid : Nat) : ∀ cs : List (List α), frags (contFrames sid cs) = cs
  | [] => rfl
  | [c] => rfl
  | c :: c' :: cs => by
    simp only [contFrames, frags]
    rw [contFrames_frags sid (c' :: cs)]

/-- END_HEADERS is on the last CONTINUATION frame and nowhere else -/
theorem contFrames_shape (sid : Nat) : ∀ (cs : List (List α)) (c : List α),
    contFrames sid (cs ++ [c]) = cs.map (fun x => Frame.continuation sid false x) ++ [Frame.continuation sid true c]
  | [], c => rfl
  | [x], c => rfl
  | x :: y :: cs, c => by
    have := contFrames_shape sid (y :: cs) c
    simp only [List.cons_append, List.map_cons] at this ⊢
    simp only [contFrames]
    rw [this]

/-- a queued HEADERS frame goes out as HEADERS + CONTINUATION* whose fragments are its chunks -/
theorem send_headers_frags (s : Nat) (e : Bool) (p : Prio) (cs : List (List α)) (n : Nat) :
    frags (QFrame.send (.headers s e p cs n)) = cs := by
  cases cs with
  | nil => rfl
  | cons c cs => simp [QFrame.send, frags, contFrames_frags]

theorem send_push_frags (s pr : Nat) (cs : List (List α)) (n : Nat) :
    frags (QFrame.send (.push s pr cs n)) = cs := by
  cases cs with
  | nil => rfl
  | cons c cs => simp [QFrame.send, frags, contFrames_frags]

end H2
end FwdVerif
