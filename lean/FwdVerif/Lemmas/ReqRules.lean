/-
  Request pipeline — helper lemmas, part 5 (core Lean only): configured header rules (C16's
  `applyRules`) leave every key they do not name alone, and with them the end-to-end clause of C01.
-/
import FwdVerif.Lemmas.ReqPipeline

namespace FwdVerif
namespace Req

open Ascii
open C16

/-- the raw keys a rule may change -/
def ruleKey : Rule → Bytes → Prop
  | .removePrefix p, k => prefixFold p k = true
  | .rename _, _ => True
  | .remove n, k => k = canonicalKey n
  | .empty n, k => k = canonicalKey n
  | .add n _, k => k = canonicalKey n

theorem get_filter_key (f : Bytes → Bool) (h : HMap) {k : Bytes} (hk : f k = true) :
    HMap.get (h.filter (fun e => f e.1)) k = HMap.get h k := by
  unfold HMap.get
  induction h with
  | nil => rfl
  | cons e h ih =>
    obtain ⟨k', vs⟩ := e
    by_cases hf : f k' = true
    · rw [List.filter_cons, if_pos (by exact hf), List.lookup_cons, List.lookup_cons, ih]
    · rw [List.filter_cons, if_neg (by exact hf), List.lookup_cons]
      have : (k == k') = false := by
        rw [beq_eq_false_iff_ne]; intro hkk; rw [hkk] at hk; exact hf hk
      rw [this]; exact ih

theorem applyRule_agree (h : HMap) {ρ : Rule} (hρ : ∀ n, ρ ≠ .rename n) :
    Agree (ruleKey ρ) h (applyRule h ρ) := by
  cases ρ with
  | remove n => exact (Agree.refl _ _).del n rfl
  | empty n => exact (Agree.refl _ _).set n [] rfl
  | add n v => exact (Agree.refl _ _).add n v rfl
  | rename n => exact absurd rfl (hρ n)
  | removePrefix p =>
    intro hi
    have e : applyRule h (.removePrefix p) = h.filter (fun e => !prefixFold p e.1) :=
      removeByPrefix_eq p hi.1
    rw [e]
    refine ⟨⟨hi.1.sublist List.filter_sublist, hi.2.sublist List.filter_sublist⟩, ?_⟩
    intro k hk
    have : (!prefixFold p k) = true := by
      cases hpk : prefixFold p k
      · rfl
      · exact absurd hpk hk
    exact get_filter_key (fun k => !prefixFold p k) h this

theorem applyRules_agree (rs : List Rule) (hnr : NoRename rs) :
    ∀ (h : HMap), Agree (fun k => ∃ ρ ∈ rs, ruleKey ρ k) h (applyRules rs h) := by
  induction rs with
  | nil => intro h; exact Agree.refl _ _
  | cons ρ rs ih =>
    intro h
    have a1 : Agree (fun k => ∃ ρ' ∈ ρ :: rs, ruleKey ρ' k) h (applyRule h ρ) :=
      (applyRule_agree h (hnr ρ List.mem_cons_self)).mono
        (fun k hk => ⟨ρ, List.mem_cons_self, hk⟩)
    have a2 : Agree (fun k => ∃ ρ' ∈ ρ :: rs, ruleKey ρ' k) (applyRule h ρ)
        (applyRules rs (applyRule h ρ)) :=
      (ih (fun ρ' hρ' => hnr ρ' (List.mem_cons_of_mem _ hρ')) _).mono
        (fun k ⟨ρ', hρ', hk⟩ => ⟨ρ', List.mem_cons_of_mem _ hρ', hk⟩)
    exact a1.trans a2

/-- a rule that does not touch the (lower-case) name `n` does not touch its canonical key -/
theorem not_ruleKey_of_not_touches {ρ : Rule} (hρ : ∀ m, ρ ≠ .rename m) {n : Bytes}
    (hl : lower n = n) (ht : ruleTouches n ρ = false) : ¬ ruleKey ρ (canonicalKey n) := by
  have name_case : ∀ m : Bytes, (lower m == n) = false → canonicalKey n ≠ canonicalKey m := by
    intro m hm heq
    rw [beq_eq_false_iff_ne] at hm
    apply hm
    rw [← lower_canonicalKey m, ← heq, lower_canonicalKey, hl]
  cases ρ with
  | remove m => exact name_case m ht
  | empty m => exact name_case m ht
  | add m v => exact name_case m ht
  | rename m => exact absurd rfl (hρ m)
  | removePrefix p =>
    show ¬ prefixFold p (canonicalKey n) = true
    rw [prefixFold_eq, lower_canonicalKey, hl]
    have : (lower p).isPrefixOf n = false := ht
    rw [this]
    exact Bool.false_ne_true

section trace

variable {cfg : Cfg} {ctx : Ctx} {r : Request} {hop : Hop} {out : OutMsg}
  {g0 : GoReq} {h3 h4 : HMap} {auth : Option Bytes}

attribute [local irreducible] removeHopByHop forwarded badFraming viaStep finishTail fixup
  nominatedKeys upgradeType

theorem Trace.inv8_rules (t : Trace cfg ctx r hop out g0 h3 h4 auth) (hnr : NoRename cfg.rules) :
    Inv (finish cfg (upgradeType g0.header) h4) := by
  rw [finish_eq]
  exact (finishTail_agree cfg _ _).inv ((applyRules_agree cfg.rules hnr h4).inv t.inv4)

theorem Trace.get8_rules (t : Trace cfg ctx r hop out g0 h3 h4 auth) (hnr : NoRename cfg.rules)
    {k : Bytes} (hk : ∀ ρ ∈ cfg.rules, ¬ ruleKey ρ k)
    (h1 : k ≠ canonicalKey (bs "Via")) (h2 : k ∉ tailKeys) :
    HMap.get (finish cfg (upgradeType g0.header) h4) k = HMap.get h3 k := by
  have a5 := applyRules_agree cfg.rules hnr h4
  rw [finish_eq, (finishTail_agree cfg _ _).get (a5.inv t.inv4) h2,
    a5.get t.inv4 (fun ⟨ρ, hρ, hkk⟩ => hk ρ hρ hkk), (viaStep_agree t.via).get t.inv3 h1]

/-- the end-to-end clause with configured rules (no `%name` rule) that do not touch the name -/
theorem Trace.end_to_end_rules (t : Trace cfg ctx r hop out g0 h3 h4 auth)
    (hnr : NoRename cfg.rules) {n : Bytes} (hn : n.all isTokenByte = true) (hl : lower n = n)
    (hL : n ∉ hopByHopLower ++ managedLower) (hnom : n ∉ nominated r)
    (hrules : ∀ ρ ∈ cfg.rules, ruleTouches n ρ = false) :
    outValues out n = inValues r n := by
  obtain ⟨k1, k2, k3, k4, k5, k6, _⟩ := other_keys hl hL
  have hw : n ∉ writerNames := fun hw =>
    hL (List.mem_append_right _ (writerNames_managed _ hw))
  rw [t.out, outValues_writeRequest_other _ _ (by rw [header_mk]; exact t.inv8_rules hnr) hn hl hw,
    header_mk,
    hget_congr (t.get8_rules hnr
      (fun ρ hρ => not_ruleKey_of_not_touches (hnr ρ hρ) hl (hrules ρ hρ)) k5 k6),
    hget_congr (t.get3 k1 (fun h => hnom ((mem_nominatedKeys_iff r hn hl).mp h)) k2 k3 k4),
    hget_toHeader_lower r hn hl]

/-- … and the removal clause -/
theorem Trace.removed_rules (t : Trace cfg ctx r hop out g0 h3 h4 auth)
    (hnr : NoRename cfg.rules) {n : Bytes} (hn : n.all isTokenByte = true) (hl : lower n = n)
    (hm : n ∉ managedLower) (hrem : n ∈ hopByHopLower ∨ n ∈ nominated r)
    (hrules : ∀ ρ ∈ cfg.rules, ruleTouches n ρ = false) :
    outValues out n = [] := by
  have hmk : ∀ S : List Bytes, (∀ s ∈ S, lower s ∈ managedLower) → canonicalKey n ∉ S :=
    fun S hS => key_not_mem_of_lower hS hl hm
  have k3 : canonicalKey n ∉ fwdKeys := hmk _ (by decide +kernel)
  have k45 : canonicalKey n ∉ [bs "Content-Length", bs "Via"] := hmk _ (by decide +kernel)
  have k6 : canonicalKey n ∉ tailKeys := hmk _ (by decide +kernel)
  simp only [List.mem_cons, List.not_mem_nil, or_false, not_or] at k45
  have hk : canonicalKey n ∈ nominatedKeys (toHeader r.fields) ∨ canonicalKey n ∈ hopByHopNames := by
    rcases hrem with hs | hnom
    · right
      rw [← hopByHopNames_lower] at hs
      obtain ⟨m, hm', hlm⟩ := List.mem_map.mp hs
      have : canonicalKey m = canonicalKey n := canonicalKey_congr hn (by rw [hlm, hl])
      rw [← this, hopByHopNames_canon m hm']
      exact hm'
    · exact Or.inl ((mem_nominatedKeys_iff r hn hl).mpr hnom)
  have hw : n ∉ writerNames := fun hw => hm (writerNames_managed _ hw)
  rw [t.out, outValues_writeRequest_other _ _ (by rw [header_mk]; exact t.inv8_rules hnr) hn hl hw,
    header_mk, hget_eq,
    t.get8_rules hnr (fun ρ hρ => not_ruleKey_of_not_touches (hnr ρ hρ) hl (hrules ρ hρ))
      (by rw [ck_Via]; exact k45.2) k6,
    t.get3_removed hk k3 (by rw [ck_CL]; exact k45.1)]
  rfl

end trace

end Req
end FwdVerif
