/-
  C08 helper lemmas, part 12: listener stacking (`Model/C08Stack.lean`) - what is below the PROXY layer,
  the token bucket as a clock, arrivals seen through it.
-/
import FwdVerif.Model.C08Stack
import FwdVerif.Lemmas.C08Timed

namespace FwdVerif
namespace C08

set_option maxRecDepth 100000 in
theorem verdict_nil : verdict [] = none := by decide

theorem verdict_of_ok {bs : Bytes} {h : Header} {rest : Bytes} (hr : readHeader bs = .ok (h, rest)) :
    verdict bs = some (.accepted h rest) := by
  unfold verdict; rw [hr]

theorem belowProxy_product (c : StackCfg) (hp : c.proxy = true) : belowProxy (productStack c) = [] := by
  unfold productStack
  rw [hp]
  rfl

theorem belowProxy_limiterFirst (c : StackCfg) (hl : c.limited = true) :
    Layer.ratelimit ∈ belowProxy (limiterFirstStack c) := by
  unfold limiterFirstStack
  rw [hl]
  simp [belowProxy]

theorem take_le_snd (l : Limiter) (t n : Nat) : t ≤ (l.take t n).2 := by
  unfold Limiter.take
  split
  · exact Nat.le_refl _
  · exact Nat.le_max_left _ _

theorem take_zeroAt_le_snd (l : Limiter) (t n : Nat) (hn : n ≠ 0) : l.zeroAt ≤ (l.take t n).2 := by
  unfold Limiter.take
  rw [if_neg hn]
  show l.zeroAt ≤ max t (max l.zeroAt (t - l.burst * l.cost) + n * l.cost)
  omega

/-- seen through the limiter the same bytes arrive in the same pieces, none earlier than it reached
    the socket -/
theorem throttle_later : ∀ (sched : List Arr) (l : Limiter) (now : Nat), Later sched (throttle l now sched) := by
  intro sched
  induction sched with
  | nil => intro l now; exact True.intro
  | cons a as ih =>
    intro l now
    have h1 := take_le_snd l (max now a.time) a.data.length
    exact ⟨rfl, by show a.time ≤ (l.take (max now a.time) a.data.length).2; omega, ih _ _⟩

theorem throttle_bytes : ∀ (sched : List Arr) (l : Limiter) (now : Nat),
    bytesOf (throttle l now sched) = bytesOf sched := by
  intro sched
  induction sched with
  | nil => intro l now; rfl
  | cons a as ih =>
    intro l now
    show a.data ++ bytesOf (throttle _ _ as) = a.data ++ bytesOf as
    rw [ih]

end C08
end FwdVerif
