/-
  C02 — framing decisions of the writers (core Lean only): which `Framing` is chosen, when the
  connection stays open, and that the field lines written declare the framing to a reader.
-/
import FwdVerif.Lemmas.RespOut

namespace FwdVerif
namespace Resp

open Ascii
open C16 (HMap goDel goSet goAdd CanonKeys NodupKeys)
open Req (bs hget goGet trimOWS splitComma valuesContainToken toHeader lowerFields mergeFields natToDec)

section basic
variable {rc : ReqCtx} {o : OriginResp} {r : ClientResp}

/-- A -/
theorem status_preserved (h : processResponse rc o = .ok r) :
    r.status = o.status ∧ r.reason = o.reason ∧ r.minor = o.minor := by
  obtain ⟨g, hread, hcase⟩ := processResponse_ok h
  obtain ⟨ok⟩ := readResponse_some hread
  rcases hcase with ⟨_, rfl⟩ | ⟨_, rfl⟩
  · exact ⟨ok.status, ok.reason, ok.minor⟩
  · exact ⟨ok.status, ok.reason, ok.minor⟩

theorem header_only_no_body (h : processResponse rc o = .ok r) (hb : bodiless rc.method o.status = true) :
    (r.framing = .none ∨ r.framing = .unterminatedHead) ∧ r.body = .dropped := by
  obtain ⟨g, hread, hcase⟩ := processResponse_ok h
  obtain ⟨ok⟩ := readResponse_some hread
  rw [← headerOnly_eq_bodiless, ← ok.status] at hb
  rcases hcase with ⟨_, rfl⟩ | ⟨hho, rfl⟩
  · refine ⟨?_, rfl⟩
    have hfr : (writeHO rc g).framing =
        if g.trailer.isEmpty then Framing.none else Framing.unterminatedHead := rfl
    rw [hfr]
    split
    · exact Or.inl rfl
    · exact Or.inr rfl
  · rw [hb] at hho; exact absurd hho (by simp)

theorem eof_closes (h : processResponse rc o = .ok r) (hf : r.framing = .eof) : r.keepAlive = false := by
  obtain ⟨g, _, hcase⟩ := processResponse_ok h
  rcases hcase with ⟨_, rfl⟩ | ⟨_, rfl⟩
  · have : (writeHO rc g).framing = if g.trailer.isEmpty then Framing.none else Framing.unterminatedHead := rfl
    rw [this] at hf
    split at hf <;> exact absurd hf (by simp)
  · have hfr : (writeFull rc g).framing = wFraming rc g := rfl
    rw [hfr] at hf
    unfold wFraming at hf
    split at hf
    · exact absurd hf (by simp)
    · split at hf
      · exact absurd hf (by simp)
      · split at hf
        · rename_i hc
          show (!wClose rc g) = false
          rw [hc]; rfl
        · exact absurd hf (by simp)

end basic

/-! ### the two defect classes, seen from the input -/

section classes
variable {rc : ReqCtx} {o : OriginResp} {g : GoResp}

/-- the transport found the response chunked ⇒ the origin's field lines say so -/
theorem ReadOK.originChunked (ok : ReadOK rc o g) (hc : g.chunked = true) : originChunked o = true := by
  have hmin := ok.chunked_minor hc
  rw [ok.chunked_eq] at hc
  have hch := ok.hch
  rw [hc] at hch
  have hte : (rrConn o).2.lookup (bs "Transfer-Encoding") = (toHeader o.fields).lookup (bs "Transfer-Encoding") :=
    (rrConn_derived o).agree _ (by bs_norm; decide)
  unfold rrChunked at hch
  unfold C16.HMap.get at hch
  rw [hte] at hch
  have hgt := hget_h0_TE o
  unfold Req.hget C16.HMap.get at hgt
  unfold Resp.originChunked
  split at hch
  · simp at hch
  · rename_i vs hl
    rw [hl] at hgt
    simp only [Option.getD_some] at hgt
    split at hch
    · simp at hch
    · split at hch
      · rename_i v
        rw [← hgt]
        split at hch
        · rename_i hv
          rw [← lit_chunked]
          simp [hmin, hv]
        · simp at hch
      · simp at hch

/-- conversely: field lines that say chunked (HTTP/1.1, one `Transfer-Encoding: chunked`) are read as chunked -/
theorem ReadOK.chunked_of_origin (ok : ReadOK rc o g) (h : Resp.originChunked o = true) : g.chunked = true := by
  rw [ok.chunked_eq]
  unfold Resp.originChunked at h
  simp only [Bool.and_eq_true, bne_iff_ne, ne_eq] at h
  obtain ⟨hmin, hm⟩ := h
  have hte : (rrConn o).2.lookup (bs "Transfer-Encoding") = (toHeader o.fields).lookup (bs "Transfer-Encoding") :=
    (rrConn_derived o).agree _ (by bs_norm; decide)
  have hgt := hget_h0_TE o
  unfold Req.hget C16.HMap.get at hgt
  have hch := ok.hch
  unfold C16.HMap.get at hch
  rw [hte] at hch
  split at hm
  · rename_i v hv
    rw [hv] at hgt
    cases hl : (toHeader o.fields).lookup (bs "Transfer-Encoding") with
    | none => rw [hl] at hgt; simp at hgt
    | some vs =>
      rw [hl] at hgt hch
      simp only [Option.getD_some] at hgt
      subst hgt
      unfold rrChunked at hch
      have hm0 : (o.minor == 0) = false := by simpa using hmin
      rw [lit_chunked] at hch
      simp only [hm0, Bool.false_eq_true, if_false, hm, if_true] at hch
      exact (Option.some.inj hch).symm
  · simp at hm

theorem filter_nonempty_map_iff {α : Type} (l : List α) (f g : α → Bytes)
    (hfg : ∀ a, (f a).isEmpty = (g a).isEmpty) :
    (l.map f).filter (fun k => !k.isEmpty) = [] ↔ (l.map g).filter (fun k => !k.isEmpty) = [] := by
  simp only [List.filter_eq_nil_iff, List.mem_map, forall_exists_index, and_imp,
    forall_apply_eq_imp_iff₂, hfg]

theorem canonicalKey_isEmpty (k : Bytes) : (canonicalKey k).isEmpty = k.isEmpty := by
  cases k with
  | nil => rfl
  | cons c cs =>
    unfold canonicalKey
    split <;> rfl

theorem lower_isEmpty (k : Bytes) : (lower k).isEmpty = k.isEmpty := by
  cases k <;> rfl

theorem trailerNames_ne_nil_iff (vs : List Bytes) :
    trailerNames vs ≠ [] ↔
      ((vs.flatMap fun v => (splitComma v).map fun k => lower (trimOWS k)).filter fun k => !k.isEmpty) ≠ [] := by
  unfold trailerNames
  have h1 : (vs.flatMap fun v => (splitComma v).map (fun k => canonicalKey (trimOWS k))) =
      (vs.flatMap splitComma).map (fun k => canonicalKey (trimOWS k)) := by
    rw [List.map_flatMap]
  have h2 : (vs.flatMap fun v => (splitComma v).map (fun k => lower (trimOWS k))) =
      (vs.flatMap splitComma).map (fun k => lower (trimOWS k)) := by
    rw [List.map_flatMap]
  rw [h1, h2]
  exact not_congr (filter_nonempty_map_iff _ _ _
    (fun a => by rw [canonicalKey_isEmpty, lower_isEmpty]))

/-- declared trailers come from the origin's `Trailer` lines -/
theorem ReadOK.originTrailers (ok : ReadOK rc o g) (ht : g.trailer ≠ []) : originTrailers o ≠ [] := by
  rw [ok.trailer_eq] at ht
  have hlk : (rrLen rc o ok.chunked ok.h3 ok.n?).1.lookup (bs "Trailer") =
      (toHeader o.fields).lookup (bs "Trailer") := by
    have d : Derived [bs "Connection", bs "Transfer-Encoding", bs "Content-Length"] (toHeader o.fields)
        (rrLen rc o ok.chunked ok.h3 ok.n?).1 := by
      have d1 := (rrConn_derived o).mono (T := [bs "Connection", bs "Transfer-Encoding", bs "Content-Length"])
        (by simp)
      have d2 : Derived [bs "Connection", bs "Transfer-Encoding", bs "Content-Length"] (rrConn o).2
          (goDel (rrConn o).2 (bs "Transfer-Encoding")) := Derived.del _ _ (by rw [ck_TE]; simp)
      have d3 := (rrCL_derived ok.hcl).mono
        (T := [bs "Connection", bs "Transfer-Encoding", bs "Content-Length"]) (by simp)
      have d4 := (rrLen_derived rc o ok.chunked ok.h3 ok.n?).mono
        (T := [bs "Connection", bs "Transfer-Encoding", bs "Content-Length"]) (by simp)
      exact ((d1.trans d2).trans d3).trans d4
    exact d.agree _ (by bs_norm; decide)
  unfold rrTrailer C16.HMap.get at ht
  rw [hlk] at ht
  have hgt := hget_h0_Trailer o
  unfold Req.hget C16.HMap.get at hgt
  split at ht
  · exact absurd rfl ht
  · rename_i vs hl
    rw [hl] at hgt
    simp only [Option.getD_some] at hgt
    split at ht
    · exact absurd rfl ht
    · unfold Resp.originTrailers
      rw [← hgt]
      exact (trailerNames_ne_nil_iff vs).mp ht

end classes

/-- F1 seen from the input: a bodiless response whose origin is chunked and declares trailers -/
def InputF1 (rc : ReqCtx) (o : OriginResp) : Prop :=
  bodiless rc.method o.status = true ∧ originChunked o = true ∧ originTrailers o ≠ []

/-- F22 seen from the input: gzip solicited by the proxy itself, answered with gzip, on a response
    that has a body and is not chunked (i.e. delimited by `Content-Length` or by close) -/
def InputF22 (rc : ReqCtx) (o : OriginResp) : Prop :=
  rc.solicitedGzip = true ∧ originGzip o = true ∧ bodiless rc.method o.status = false ∧
    originChunked o = false

section framing
variable {rc : ReqCtx} {o : OriginResp} {r : ClientResp}

theorem unterminated_is_F1 (h : processResponse rc o = .ok r) (hf : r.framing = .unterminatedHead) :
    InputF1 rc o := by
  obtain ⟨g, hread, hcase⟩ := processResponse_ok h
  obtain ⟨ok⟩ := readResponse_some hread
  rcases hcase with ⟨hho, rfl⟩ | ⟨_, rfl⟩
  · have : (writeHO rc g).framing = if g.trailer.isEmpty then Framing.none else Framing.unterminatedHead := rfl
    rw [this] at hf
    split at hf
    · exact absurd hf (by simp)
    · rename_i hne
      have hne' : g.trailer ≠ [] := by
        intro h'; rw [h'] at hne; exact hne rfl
      refine ⟨by rw [← headerOnly_eq_bodiless, ← ok.status]; exact hho,
        ok.originChunked (ok.trailer_chunked hne'), ok.originTrailers hne'⟩
  · have hfr : (writeFull rc g).framing = wFraming rc g := rfl
    rw [hfr] at hf
    unfold wFraming at hf
    repeat' split at hf
    all_goals exact absurd hf (by simp)

theorem unframed_is_F22 (h : processResponse rc o = .ok r) (hf : r.framing = .unframed) :
    InputF22 rc o := by
  obtain ⟨g, hread, hcase⟩ := processResponse_ok h
  obtain ⟨ok⟩ := readResponse_some hread
  rcases hcase with ⟨_, rfl⟩ | ⟨hho, rfl⟩
  · have : (writeHO rc g).framing = if g.trailer.isEmpty then Framing.none else Framing.unterminatedHead := rfl
    rw [this] at hf
    split at hf <;> exact absurd hf (by simp)
  · have hfr : (writeFull rc g).framing = wFraming rc g := rfl
    rw [hfr] at hf
    unfold wFraming at hf
    split at hf
    · exact absurd hf (by simp)
    · rename_i hwc
      split at hf
      · exact absurd hf (by simp)
      · rename_i hlen
        split at hf
        · exact absurd hf (by simp)
        · rename_i hcl
          have hho' : headerOnly rc.method o.status = false := by rw [← ok.status]; exact hho
          have hu : g.uncompressed = true := by
            by_cases hu : g.uncompressed = true
            · exact hu
            · exfalso
              have hu' : g.uncompressed = false := by simpa using hu
              have hlen' : g.contentLength < 0 := by omega
              have hchunk : g.chunked = false := by
                by_cases hc : g.chunked = true
                · exfalso
                  have hm := ok.chunked_minor hc
                  rw [← ok.minor] at hm
                  apply hwc
                  unfold wChunked
                  simp only [hc, Bool.true_and, decide_eq_true_eq]
                  omega
                · simpa using hc
              have hclose := ok.close_of_unknown hho' hlen' hchunk hu'
              apply hcl
              unfold wClose pipeClose
              rw [hclose]
              rfl
          obtain ⟨h1, _, _⟩ := ok.gz_facts hu
          have := gunzip_facts h (by
            show (if g.uncompressed then BodyXform.gunzip else BodyXform.same) = _
            rw [hu]; rfl)
          refine ⟨this.1, this.2.1, this.2.2, ?_⟩
          cases hoc : Resp.originChunked o with
          | false => rfl
          | true =>
            exfalso
            have hc := ok.chunked_of_origin hoc
            have hm := ok.chunked_minor hc
            rw [← ok.minor] at hm
            apply hwc
            unfold wChunked
            simp only [hc, Bool.true_and, decide_eq_true_eq]
            omega

/-- keep-alive ⇒ the response is delimited, outside the two recorded defect classes -/
theorem keepalive_delimited (h : processResponse rc o = .ok r) (h22 : ¬ InputF22 rc o)
    (h1 : ¬ InputF1 rc o) (hk : r.keepAlive = true) :
    r.framing = .none ∨ (∃ n, r.framing = .cl n) ∨ (∃ ts, r.framing = .chunked ts) := by
  cases hf : r.framing with
  | none => exact Or.inl rfl
  | cl n => exact Or.inr (Or.inl ⟨n, rfl⟩)
  | chunked ts => exact Or.inr (Or.inr ⟨ts, rfl⟩)
  | eof => rw [eof_closes h hf] at hk; exact absurd hk (by simp)
  | unframed => exact absurd (unframed_is_F22 h hf) h22
  | unterminatedHead => exact absurd (unterminated_is_F1 h hf) h1

end framing

/-! ### the reader's framing decision on given field values -/

/-- steps 3–7 of RFC 7230 §3.3.3 -/
def bodyKindRest (fs : List (Bytes × Bytes)) : Option BodyKind :=
  let codings := (fieldValues fs Name.transferEncoding).flatMap fun v => (splitComma v).map trimOWS
  if !codings.isEmpty then
    match codings.getLast? with
    | some t => if eqFold t Name.chunked then some .chunked else some .eof
    | none => some .eof
  else
    match fieldValues fs Name.contentLength with
    | [] => some .eof
    | c :: rest =>
      match parseDec c with
      | none => none
      | some n => if rest.all (fun x => parseDec x == some n) then some (.len n) else none

theorem bodyKind_eq (m : Bytes) (st : Nat) (fs : List (Bytes × Bytes)) :
    bodyKind m st fs =
      if bodiless m st = true then some .none
      else if (m == Name.CONNECT && st / 100 == 2) = true then some .none
      else bodyKindRest fs := rfl

theorem bodyKind_bodiless {m : Bytes} {st : Nat} (fs : List (Bytes × Bytes))
    (hb : bodiless m st = true) : bodyKind m st fs = some .none := by
  rw [bodyKind_eq, if_pos hb]

theorem bodyKind_rest {m : Bytes} {st : Nat} (fs : List (Bytes × Bytes))
    (hb : bodiless m st = false) (hc : m ≠ Name.CONNECT) : bodyKind m st fs = bodyKindRest fs := by
  have hb' : ¬ bodiless m st = true := by simp [hb]
  have hc' : ¬ (m == Name.CONNECT && st / 100 == 2) = true := by simp [hc]
  rw [bodyKind_eq, if_neg hb', if_neg hc']

theorem bodyKind_chunked {m : Bytes} {st : Nat} {fs : List (Bytes × Bytes)}
    (hb : bodiless m st = false) (hc : m ≠ Name.CONNECT)
    (hte : fieldValues fs Name.transferEncoding = [Name.chunked]) : bodyKind m st fs = some .chunked := by
  rw [bodyKind_rest fs hb hc]
  unfold bodyKindRest
  rw [hte]
  have h1 : ([Name.chunked].flatMap fun v => (splitComma v).map trimOWS) = [Name.chunked] := by decide
  simp only [h1]
  have h2 : eqFold Name.chunked Name.chunked = true := by decide
  simp [h2]

theorem bodyKind_len {m : Bytes} {st : Nat} {fs : List (Bytes × Bytes)} {v : Bytes} {n : Nat}
    (hb : bodiless m st = false) (hc : m ≠ Name.CONNECT)
    (hte : fieldValues fs Name.transferEncoding = [])
    (hcl : fieldValues fs Name.contentLength = [v]) (hv : parseDec v = some n) :
    bodyKind m st fs = some (.len n) := by
  rw [bodyKind_rest fs hb hc]
  unfold bodyKindRest
  rw [hte, hcl]
  simp [hv]

theorem bodyKind_eof {m : Bytes} {st : Nat} {fs : List (Bytes × Bytes)}
    (hb : bodiless m st = false) (hc : m ≠ Name.CONNECT)
    (hte : fieldValues fs Name.transferEncoding = [])
    (hcl : fieldValues fs Name.contentLength = []) : bodyKind m st fs = some .eof := by
  rw [bodyKind_rest fs hb hc]
  unfold bodyKindRest
  rw [hte, hcl]
  rfl

/-! ### the values a reader finds under a name -/

theorem fieldValues_norm {fs : List (Bytes × List Bytes)} (hl : ∀ e ∈ fs, lower e.1 = e.1) (m : Bytes) :
    fieldValues ((flatFields fs).map normField) m = (valsOf fs m).map trimOWS := by
  rw [← fieldValues_flatFields]
  unfold fieldValues
  rw [List.filter_map, List.map_map, List.map_map]
  have hfl : ∀ f ∈ flatFields fs, lower f.1 = f.1 := by
    intro f hf
    unfold flatFields at hf
    simp only [List.mem_flatMap, List.mem_map] at hf
    obtain ⟨e, he, v, _, rfl⟩ := hf
    exact hl e he
  have : (flatFields fs).filter ((fun f : Bytes × Bytes => f.1 == m) ∘ normField) =
      (flatFields fs).filter (fun f => f.1 == m) := by
    apply List.filter_congr
    intro f hf
    show (lower f.1 == m) = (f.1 == m)
    rw [hfl f hf]
  rw [this]
  rfl

section declared
variable {rc : ReqCtx} {g : GoResp}

theorem names_lower_writeHO : ∀ e ∈ (writeHO rc g).fields, lower e.1 = e.1 := by
  intro e he
  have := mem_names_mergeFields (fs := lowerFields (pipeHeader rc g)) he
  unfold lowerFields at this
  simp only [List.map_map, List.mem_map, Function.comp] at this
  obtain ⟨e', _, hk⟩ := this
  rw [← hk]
  exact lower_idem _

theorem names_lower_writeFull : ∀ e ∈ (writeFull rc g).fields, lower e.1 = e.1 := by
  intro e he
  have hmem := mem_names_mergeFields (fs := wConnLine rc g ++ wLenFields g ++ wRest rc g) he
  rw [List.map_append, List.map_append, List.mem_append, List.mem_append] at hmem
  rcases hmem with (h | h) | h
  · rw [wConnLine_names rc g _ h]; decide
  · rcases wLenFields_names g _ h with h | h | h <;> rw [h] <;> decide
  · unfold wRest lowerFields at h
    simp only [List.map_map, List.mem_map, Function.comp] at h
    obtain ⟨e', _, hk⟩ := h
    rw [← hk]
    exact lower_idem _

theorem wLenFields_eq (g : GoResp) :
    wLenFields g =
      if wChunked g then (Name.transferEncoding, [Name.chunked]) ::
        (if g.trailer.isEmpty then []
         else [(Name.trailer, [Req.joinWith [44] (g.trailer.mergeSort C16.bytesLe).eraseDups])])
      else if g.contentLength ≥ 0 then [(Name.contentLength, [natToDec g.contentLength.toNat])]
      else [] := by
  unfold wLenFields
  rw [lit_transfer_encoding, lit_chunked, lit_trailer, lit_content_length]
  rfl

theorem valsOf_wLenFields_TE (g : GoResp) :
    valsOf (wLenFields g) Name.transferEncoding = if wChunked g then [Name.chunked] else [] := by
  rw [wLenFields_eq]
  split
  · split
    · simp [valsOf_cons, valsOf_nil]
    · have : ¬ Name.trailer = Name.transferEncoding := by decide
      simp [valsOf_cons, valsOf_nil, this]
  · split
    · have : ¬ Name.contentLength = Name.transferEncoding := by decide
      simp [valsOf_cons, valsOf_nil, this]
    · rfl

theorem valsOf_wLenFields_CL (g : GoResp) :
    valsOf (wLenFields g) Name.contentLength =
      if wChunked g then [] else if g.contentLength ≥ 0 then [natToDec g.contentLength.toNat] else [] := by
  rw [wLenFields_eq]
  have h1 : ¬ Name.transferEncoding = Name.contentLength := by decide
  have h2 : ¬ Name.trailer = Name.contentLength := by decide
  split
  · split
    · simp [valsOf_cons, valsOf_nil, h1]
    · simp [valsOf_cons, valsOf_nil, h1, h2]
  · split
    · simp [valsOf_cons, valsOf_nil]
    · rfl

/-- the map's own framing keys are never written by `Response.Write` -/
theorem valsOf_wRest_excluded (hc : CanonKeys (pipeHeader rc g)) (hn : NodupKeys (pipeHeader rc g))
    {N : Bytes} (ht : N.all isTokenByte = true) (hex : notExcluded (canonicalKey N) = false) :
    valsOf (wRest rc g) (lower N) = [] := by
  rw [wRest_eq]
  have hsub : ((pipeHeader rc g).filter fun e => notExcluded e.1).Sublist (pipeHeader rc g) :=
    List.filter_sublist
  rw [valsOf_lowerFields (hc.sublist hsub) (hn.sublist hsub) ht, lookup_filter_key, hex]
  rfl

theorem valsOf_wConnLine_ne {m : Bytes} (h : m ≠ Name.connection) : valsOf (wConnLine rc g) m = [] :=
  valsOf_eq_nil_of_not_mem fun hm => h (wConnLine_names rc g _ hm)

theorem valsOf_writeFull_TE (hc : CanonKeys (pipeHeader rc g)) (hn : NodupKeys (pipeHeader rc g)) :
    valsOf (writeFull rc g).fields Name.transferEncoding = if wChunked g then [Name.chunked] else [] := by
  show valsOf (mergeFields (wConnLine rc g ++ wLenFields g ++ wRest rc g)) _ = _
  rw [valsOf_mergeFields, valsOf_append, valsOf_append, valsOf_wConnLine_ne (by decide),
    valsOf_wLenFields_TE]
  have : valsOf (wRest rc g) Name.transferEncoding = [] := by
    rw [← lower_TE]
    exact valsOf_wRest_excluded hc hn tok_TE (by rw [ck_TE]; simp [notExcluded, wExcluded])
  rw [this]
  simp

theorem valsOf_writeFull_CL (hc : CanonKeys (pipeHeader rc g)) (hn : NodupKeys (pipeHeader rc g)) :
    valsOf (writeFull rc g).fields Name.contentLength =
      if wChunked g then [] else if g.contentLength ≥ 0 then [natToDec g.contentLength.toNat] else [] := by
  show valsOf (mergeFields (wConnLine rc g ++ wLenFields g ++ wRest rc g)) _ = _
  rw [valsOf_mergeFields, valsOf_append, valsOf_append, valsOf_wConnLine_ne (by decide),
    valsOf_wLenFields_CL]
  have : valsOf (wRest rc g) Name.contentLength = [] := by
    rw [← lower_CL]
    exact valsOf_wRest_excluded hc hn tok_CL (by rw [ck_CL]; simp [notExcluded, wExcluded])
  rw [this]
  simp

end declared

/-- D: the field lines written declare the framing used, to a reader that knows the request method -/
theorem framing_declared {rc : ReqCtx} {o : OriginResp} {r : ClientResp} (hr : RulesOK rc)
    (hm : rc.method ≠ Name.CONNECT) (h : processResponse rc o = .ok r)
    (h1 : r.framing ≠ .unframed) (h2 : r.framing ≠ .unterminatedHead) : FramingDeclared rc.method r := by
  obtain ⟨g, hread, hcase⟩ := processResponse_ok h
  obtain ⟨ok⟩ := readResponse_some hread
  obtain ⟨hc, hn⟩ := pipeHeader_canon_nodup hr ok.canon ok.nodup
  rcases hcase with ⟨hho, rfl⟩ | ⟨hho, rfl⟩
  · -- header-only: decided by method and status alone
    have hb : bodiless rc.method (writeHO rc g).status = true := by
      rw [← headerOnly_eq_bodiless]; exact hho
    have hfr : (writeHO rc g).framing =
        if g.trailer.isEmpty then Framing.none else Framing.unterminatedHead := rfl
    unfold FramingDeclared
    split at hfr
    · rw [hfr]; exact bodyKind_bodiless _ hb
    · exact absurd hfr h2
  · have hb : bodiless rc.method (writeFull rc g).status = false := by
      rw [← headerOnly_eq_bodiless]; exact hho
    have hTE := fieldValues_norm (names_lower_writeFull (rc := rc) (g := g)) Name.transferEncoding
    have hCL := fieldValues_norm (names_lower_writeFull (rc := rc) (g := g)) Name.contentLength
    rw [valsOf_writeFull_TE hc hn] at hTE
    rw [valsOf_writeFull_CL hc hn] at hCL
    have hfr : (writeFull rc g).framing = wFraming rc g := rfl
    unfold FramingDeclared
    rw [hfr] at h1 ⊢
    unfold wFraming at h1 ⊢
    by_cases hch : wChunked g = true
    · simp only [hch, if_true] at hTE ⊢
      exact bodyKind_chunked hb hm (by rw [hTE]; decide)
    · simp only [hch, Bool.false_eq_true, if_false] at hTE hCL h1 ⊢
      by_cases hlen : g.contentLength ≥ 0
      · simp only [hlen, if_true] at hCL ⊢
        refine bodyKind_len hb hm (by rw [hTE]; rfl) (by rw [hCL]; rfl) ?_
        rw [trimOWS_natToDec, parseDec_natToDec]
      · simp only [hlen, if_false] at hCL h1 ⊢
        by_cases hcl : wClose rc g = true
        · simp only [hcl, if_true]
          exact bodyKind_eof hb hm (by rw [hTE]; rfl) (by rw [hCL]; rfl)
        · simp [hcl] at h1

end Resp
end FwdVerif
