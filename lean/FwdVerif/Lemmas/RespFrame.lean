/-
  C02 — framing decisions of the writers (core Lean only): which `Framing` is chosen, when the
  connection stays open, and that the field lines written declare the framing to a reader.
-/
import FwdVerif.Lemmas.RespOut

namespace FwdVerif
namespace Resp

open Ascii
open C16 (HMap goDel goSet goAdd CanonKeys NodupKeys)
open Req (bs hget goGet trimOWS splitComma valuesContainToken toHeader lowerFields mergeFields natToDec)

section basic
variable {rc : ReqCtx} {o : OriginResp} {r : ClientResp}

/-- A -/
theorem status_preserved (h : processResponse rc o = .ok r) :
    r.status = o.status ∧ r.reason = o.reason ∧ r.minor = o.minor := by
  obtain ⟨g, hread, hcase⟩ := processResponse_ok h
  obtain ⟨ok⟩ := readResponse_some hread
  rcases hcase with ⟨_, rfl⟩ | ⟨_, rfl⟩
  · exact ⟨ok.status, ok.reason, ok.minor⟩
  · exact ⟨ok.status, ok.reason, ok.minor⟩

theorem header_only_no_body (h : processResponse rc o = .ok r) (hb : bodiless rc.method o.status = true) :
    r.framing = .none ∧ r.body = .dropped := by
  obtain ⟨g, hread, hcase⟩ := processResponse_ok h
  obtain ⟨ok⟩ := readResponse_some hread
  rw [← headerOnly_eq_bodiless, ← ok.status] at hb
  rcases hcase with ⟨_, rfl⟩ | ⟨hho, rfl⟩
  · exact ⟨rfl, rfl⟩
  · rw [hb] at hho; exact absurd hho (by simp)

/-- what `Response.Write` is handed, in terms of the six facts `frameCore` looks at -/
theorem ReadOK.frame_full {g : GoResp} (ok : ReadOK rc o g) (hho : headerOnly rc.method g.status = false) :
    frameForClient rc g =
      frameCore (decide (rc.reqMinor ≥ 1)) (decide (g.minor ≥ 1)) g.chunked (g.close || rc.reqClose)
        g.uncompressed g.contentLength ∧
    (g.contentLength = -1 ∨ 0 ≤ g.contentLength) ∧
    (g.chunked = true → decide (g.minor ≥ 1) = true) ∧
    (g.contentLength < 0 → g.chunked = false → g.uncompressed = false → g.close = true) := by
  have hho' : headerOnly rc.method o.status = false := by rw [← ok.status]; exact hho
  refine ⟨frameForClient_full hho, ?_, ?_, ?_⟩
  · have hl := ok.contentLength_full hho'
    rw [hl]
    split
    · exact Or.inl rfl
    · split
      · exact Or.inl rfl
      · split
        · exact Or.inr (Int.natCast_nonneg _)
        · exact Or.inl rfl
  · intro hc
    have hm := ok.chunked_minor hc
    rw [← ok.minor] at hm
    simp only [decide_eq_true_eq]
    omega
  · intro hlen hch hunc
    exact ok.close_of_unknown hho' hlen hch hunc

/-- a response that is neither chunked nor has a length is close-delimited: the connection is closed -/
theorem eof_closes (h : processResponse rc o = .ok r) (hf : r.framing = .eof) : r.keepAlive = false := by
  obtain ⟨g, hread, hcase⟩ := processResponse_ok h
  obtain ⟨ok⟩ := readResponse_some hread
  rcases hcase with ⟨_, rfl⟩ | ⟨hho, rfl⟩
  · exact absurd hf (by simp [writeHO])
  · have hfr : (writeFull rc g).framing = wFraming rc g := rfl
    rw [hfr] at hf
    unfold wFraming at hf
    split at hf
    · exact absurd hf (by simp)
    · rename_i hwc
      split at hf
      · exact absurd hf (by simp)
      · rename_i hlen
        obtain ⟨hF, hL, hcb, hk⟩ := ok.frame_full hho
        show (!wClose rc g) = false
        have hwc' : wChunked rc g = false := by simpa using hwc
        have hlen' : wLen rc g < 0 := by omega
        unfold wChunked at hwc'
        unfold wLen at hlen'
        unfold wClose pipeClose wLen wChunked
        rw [hF] at hwc' hlen' ⊢
        rw [frameCore_unframed_closes hL hcb hk hwc' hlen']
        rfl

/-- an HTTP/1.0 client is never sent a chunked body -/
theorem http10_never_chunked (h0 : rc.reqMinor = 0) (h : processResponse rc o = .ok r) :
    ¬ isChunked r.framing := by
  obtain ⟨g, _, hcase⟩ := processResponse_ok h
  rcases hcase with ⟨_, rfl⟩ | ⟨hho, rfl⟩
  · exact fun hc => hc
  · have hfr : (writeFull rc g).framing = wFraming rc g := rfl
    rw [hfr]
    have hwc : wChunked rc g = false := by
      unfold wChunked
      rw [frameForClient_full hho, h0]
      have : decide ((0 : Nat) ≥ 1) = false := by decide
      rw [this, frameCore_http10]
      rfl
    unfold wFraming
    rw [hwc]
    simp only [Bool.false_eq_true, if_false]
    split <;> exact fun hc => hc

end basic

/-! ### what was read, seen from the input -/

section classes
variable {rc : ReqCtx} {o : OriginResp} {g : GoResp}

/-- the transport found the response chunked ⇒ the origin's field lines say so -/
theorem ReadOK.originChunked (ok : ReadOK rc o g) (hc : g.chunked = true) : originChunked o = true := by
  have hmin := ok.chunked_minor hc
  rw [ok.chunked_eq] at hc
  have hch := ok.hch
  rw [hc] at hch
  have hte : (rrConn o).2.lookup (bs "Transfer-Encoding") = (toHeader o.fields).lookup (bs "Transfer-Encoding") :=
    (rrConn_derived o).agree _ (by bs_norm; decide)
  unfold rrChunked at hch
  unfold C16.HMap.get at hch
  rw [hte] at hch
  have hgt := hget_h0_TE o
  unfold Req.hget C16.HMap.get at hgt
  unfold Resp.originChunked
  split at hch
  · simp at hch
  · rename_i vs hl
    rw [hl] at hgt
    simp only [Option.getD_some] at hgt
    split at hch
    · simp at hch
    · split at hch
      · rename_i v
        rw [← hgt]
        split at hch
        · rename_i hv
          rw [← lit_chunked]
          simp [hmin, hv]
        · simp at hch
      · simp at hch

/-- conversely: field lines that say chunked (HTTP/1.1, one `Transfer-Encoding: chunked`) are read as chunked -/
theorem ReadOK.chunked_of_origin (ok : ReadOK rc o g) (h : Resp.originChunked o = true) : g.chunked = true := by
  rw [ok.chunked_eq]
  unfold Resp.originChunked at h
  simp only [Bool.and_eq_true, bne_iff_ne, ne_eq] at h
  obtain ⟨hmin, hm⟩ := h
  have hte : (rrConn o).2.lookup (bs "Transfer-Encoding") = (toHeader o.fields).lookup (bs "Transfer-Encoding") :=
    (rrConn_derived o).agree _ (by bs_norm; decide)
  have hgt := hget_h0_TE o
  unfold Req.hget C16.HMap.get at hgt
  have hch := ok.hch
  unfold C16.HMap.get at hch
  rw [hte] at hch
  split at hm
  · rename_i v hv
    rw [hv] at hgt
    cases hl : (toHeader o.fields).lookup (bs "Transfer-Encoding") with
    | none => rw [hl] at hgt; simp at hgt
    | some vs =>
      rw [hl] at hgt hch
      simp only [Option.getD_some] at hgt
      subst hgt
      unfold rrChunked at hch
      have hm0 : (o.minor == 0) = false := by simpa using hmin
      rw [lit_chunked] at hch
      simp only [hm0, Bool.false_eq_true, if_false, hm, if_true] at hch
      exact (Option.some.inj hch).symm
  · simp at hm

theorem filter_nonempty_map_iff {α : Type} (l : List α) (f g : α → Bytes)
    (hfg : ∀ a, (f a).isEmpty = (g a).isEmpty) :
    (l.map f).filter (fun k => !k.isEmpty) = [] ↔ (l.map g).filter (fun k => !k.isEmpty) = [] := by
  simp only [List.filter_eq_nil_iff, List.mem_map, forall_exists_index, and_imp,
    forall_apply_eq_imp_iff₂, hfg]

theorem canonicalKey_isEmpty (k : Bytes) : (canonicalKey k).isEmpty = k.isEmpty := by
  cases k with
  | nil => rfl
  | cons c cs =>
    unfold canonicalKey
    split <;> rfl

theorem lower_isEmpty (k : Bytes) : (lower k).isEmpty = k.isEmpty := by
  cases k <;> rfl

theorem trailerNames_ne_nil_iff (vs : List Bytes) :
    trailerNames vs ≠ [] ↔
      ((vs.flatMap fun v => (splitComma v).map fun k => lower (trimOWS k)).filter fun k => !k.isEmpty) ≠ [] := by
  unfold trailerNames
  have h1 : (vs.flatMap fun v => (splitComma v).map (fun k => canonicalKey (trimOWS k))) =
      (vs.flatMap splitComma).map (fun k => canonicalKey (trimOWS k)) := by
    rw [List.map_flatMap]
  have h2 : (vs.flatMap fun v => (splitComma v).map (fun k => lower (trimOWS k))) =
      (vs.flatMap splitComma).map (fun k => lower (trimOWS k)) := by
    rw [List.map_flatMap]
  rw [h1, h2]
  exact not_congr (filter_nonempty_map_iff _ _ _
    (fun a => by rw [canonicalKey_isEmpty, lower_isEmpty]))

/-- declared trailers come from the origin's `Trailer` lines -/
theorem ReadOK.originTrailers (ok : ReadOK rc o g) (ht : g.trailer ≠ []) : originTrailers o ≠ [] := by
  rw [ok.trailer_eq] at ht
  have hlk : (rrLen rc o ok.chunked ok.h3 ok.n?).1.lookup (bs "Trailer") =
      (toHeader o.fields).lookup (bs "Trailer") := by
    have d : Derived [bs "Connection", bs "Transfer-Encoding", bs "Content-Length"] (toHeader o.fields)
        (rrLen rc o ok.chunked ok.h3 ok.n?).1 := by
      have d1 := (rrConn_derived o).mono (T := [bs "Connection", bs "Transfer-Encoding", bs "Content-Length"])
        (by simp)
      have d2 : Derived [bs "Connection", bs "Transfer-Encoding", bs "Content-Length"] (rrConn o).2
          (goDel (rrConn o).2 (bs "Transfer-Encoding")) := Derived.del _ _ (by rw [ck_TE]; simp)
      have d3 := (rrCL_derived ok.hcl).mono
        (T := [bs "Connection", bs "Transfer-Encoding", bs "Content-Length"]) (by simp)
      have d4 := (rrLen_derived rc o ok.chunked ok.h3 ok.n?).mono
        (T := [bs "Connection", bs "Transfer-Encoding", bs "Content-Length"]) (by simp)
      exact ((d1.trans d2).trans d3).trans d4
    exact d.agree _ (by bs_norm; decide)
  unfold rrTrailer C16.HMap.get at ht
  rw [hlk] at ht
  have hgt := hget_h0_Trailer o
  unfold Req.hget C16.HMap.get at hgt
  split at ht
  · exact absurd rfl ht
  · rename_i vs hl
    rw [hl] at hgt
    simp only [Option.getD_some] at hgt
    split at ht
    · exact absurd rfl ht
    · unfold Resp.originTrailers
      rw [← hgt]
      exact (trailerNames_ne_nil_iff vs).mp ht

end classes

section framing
variable {rc : ReqCtx} {o : OriginResp} {r : ClientResp}

/-- keep-alive ⇒ the response is delimited on the wire -/
theorem keepalive_delimited (h : processResponse rc o = .ok r) (hk : r.keepAlive = true) :
    r.framing = .none ∨ (∃ n, r.framing = .cl n) ∨ (∃ ts, r.framing = .chunked ts) := by
  cases hf : r.framing with
  | none => exact Or.inl rfl
  | cl n => exact Or.inr (Or.inl ⟨n, rfl⟩)
  | chunked ts => exact Or.inr (Or.inr ⟨ts, rfl⟩)
  | eof => rw [eof_closes h hf] at hk; exact absurd hk (by simp)

/-- a gunzipped body is sent chunked, or close-delimited on a connection that is closed -/
theorem gunzip_framed (h : processResponse rc o = .ok r) (hb : r.body = .gunzip) :
    (∃ ts, r.framing = .chunked ts) ∨ (r.framing = .eof ∧ r.keepAlive = false) := by
  cases hf : r.framing with
  | chunked ts => exact Or.inl ⟨ts, rfl⟩
  | eof => exact Or.inr ⟨rfl, eof_closes h hf⟩
  | none =>
    exfalso
    obtain ⟨g, _, hcase⟩ := processResponse_ok h
    rcases hcase with ⟨_, rfl⟩ | ⟨hho, rfl⟩
    · exact absurd hb (by simp [writeHO])
    · have hfr : (writeFull rc g).framing = wFraming rc g := rfl
      rw [hfr] at hf
      unfold wFraming at hf
      repeat' split at hf
      all_goals exact absurd hf (by simp)
  | cl n =>
    exfalso
    obtain ⟨g, hread, hcase⟩ := processResponse_ok h
    obtain ⟨ok⟩ := readResponse_some hread
    rcases hcase with ⟨_, rfl⟩ | ⟨hho, rfl⟩
    · exact absurd hb (by simp [writeHO])
    · have hu : g.uncompressed = true := by
        by_cases hu : g.uncompressed = true
        · exact hu
        · have : (writeFull rc g).body = .same := by
            show (if g.uncompressed then BodyXform.gunzip else BodyXform.same) = _
            simp [hu]
          rw [this] at hb
          exact absurd hb (by simp)
      have hlen : wLen rc g = -1 := by
        have := ok.contentLength_full (by rw [← ok.status]; exact hho)
        rw [hu] at this
        have hg : g.contentLength = -1 := by simpa using this
        unfold wLen
        rw [frameForClient_full hho, hg]
        exact frameCore_len_unknown ..
      have hfr : (writeFull rc g).framing = wFraming rc g := rfl
      rw [hfr] at hf
      unfold wFraming at hf
      rw [hlen] at hf
      split at hf
      · exact absurd hf (by simp)
      · simp at hf

end framing

/-! ### the reader's framing decision on given field values -/

/-- steps 3–7 of RFC 7230 §3.3.3 -/
def bodyKindRest (fs : List (Bytes × Bytes)) : Option BodyKind :=
  let codings := (fieldValues fs Name.transferEncoding).flatMap fun v => (splitComma v).map trimOWS
  if !codings.isEmpty then
    match codings.getLast? with
    | some t => if eqFold t Name.chunked then some .chunked else some .eof
    | none => some .eof
  else
    match fieldValues fs Name.contentLength with
    | [] => some .eof
    | c :: rest =>
      match parseDec c with
      | none => none
      | some n => if rest.all (fun x => parseDec x == some n) then some (.len n) else none

theorem bodyKind_eq (m : Bytes) (st : Nat) (fs : List (Bytes × Bytes)) :
    bodyKind m st fs =
      if bodiless m st = true then some .none
      else if (m == Name.CONNECT && st / 100 == 2) = true then some .none
      else bodyKindRest fs := rfl

theorem bodyKind_bodiless {m : Bytes} {st : Nat} (fs : List (Bytes × Bytes))
    (hb : bodiless m st = true) : bodyKind m st fs = some .none := by
  rw [bodyKind_eq, if_pos hb]

theorem bodyKind_rest {m : Bytes} {st : Nat} (fs : List (Bytes × Bytes))
    (hb : bodiless m st = false) (hc : m ≠ Name.CONNECT) : bodyKind m st fs = bodyKindRest fs := by
  have hb' : ¬ bodiless m st = true := by simp [hb]
  have hc' : ¬ (m == Name.CONNECT && st / 100 == 2) = true := by simp [hc]
  rw [bodyKind_eq, if_neg hb', if_neg hc']

theorem bodyKind_chunked {m : Bytes} {st : Nat} {fs : List (Bytes × Bytes)}
    (hb : bodiless m st = false) (hc : m ≠ Name.CONNECT)
    (hte : fieldValues fs Name.transferEncoding = [Name.chunked]) : bodyKind m st fs = some .chunked := by
  rw [bodyKind_rest fs hb hc]
  unfold bodyKindRest
  rw [hte]
  have h1 : ([Name.chunked].flatMap fun v => (splitComma v).map trimOWS) = [Name.chunked] := by decide
  simp only [h1]
  have h2 : eqFold Name.chunked Name.chunked = true := by decide
  simp [h2]

theorem bodyKind_len {m : Bytes} {st : Nat} {fs : List (Bytes × Bytes)} {v : Bytes} {n : Nat}
    (hb : bodiless m st = false) (hc : m ≠ Name.CONNECT)
    (hte : fieldValues fs Name.transferEncoding = [])
    (hcl : fieldValues fs Name.contentLength = [v]) (hv : parseDec v = some n) :
    bodyKind m st fs = some (.len n) := by
  rw [bodyKind_rest fs hb hc]
  unfold bodyKindRest
  rw [hte, hcl]
  simp [hv]

theorem bodyKind_eof {m : Bytes} {st : Nat} {fs : List (Bytes × Bytes)}
    (hb : bodiless m st = false) (hc : m ≠ Name.CONNECT)
    (hte : fieldValues fs Name.transferEncoding = [])
    (hcl : fieldValues fs Name.contentLength = []) : bodyKind m st fs = some .eof := by
  rw [bodyKind_rest fs hb hc]
  unfold bodyKindRest
  rw [hte, hcl]
  rfl

/-! ### the values a reader finds under a name -/

theorem fieldValues_norm {fs : List (Bytes × List Bytes)} (hl : ∀ e ∈ fs, lower e.1 = e.1) (m : Bytes) :
    fieldValues ((flatFields fs).map normField) m = (valsOf fs m).map trimOWS := by
  rw [← fieldValues_flatFields]
  unfold fieldValues
  rw [List.filter_map, List.map_map, List.map_map]
  have hfl : ∀ f ∈ flatFields fs, lower f.1 = f.1 := by
    intro f hf
    unfold flatFields at hf
    simp only [List.mem_flatMap, List.mem_map] at hf
    obtain ⟨e, he, v, _, rfl⟩ := hf
    exact hl e he
  have : (flatFields fs).filter ((fun f : Bytes × Bytes => f.1 == m) ∘ normField) =
      (flatFields fs).filter (fun f => f.1 == m) := by
    apply List.filter_congr
    intro f hf
    show (lower f.1 == m) = (f.1 == m)
    rw [hfl f hf]
  rw [this]
  rfl

section declared
variable {rc : ReqCtx} {g : GoResp}

theorem names_lower_writeHO : ∀ e ∈ (writeHO rc g).fields, lower e.1 = e.1 := by
  intro e he
  have := mem_names_mergeFields (fs := lowerFields (pipeHeader rc g) ++ hoTrailerLine g) he
  rw [List.map_append, List.mem_append] at this
  rcases this with this | this
  · unfold lowerFields at this
    simp only [List.map_map, List.mem_map, Function.comp] at this
    obtain ⟨e', _, hk⟩ := this
    rw [← hk]
    exact lower_idem _
  · rw [hoTrailerLine_names g _ this]; decide

theorem names_lower_writeFull : ∀ e ∈ (writeFull rc g).fields, lower e.1 = e.1 := by
  intro e he
  have hmem := mem_names_mergeFields (fs := wConnLine rc g ++ wLenFields rc g ++ wRest rc g) he
  rw [List.map_append, List.map_append, List.mem_append, List.mem_append] at hmem
  rcases hmem with (h | h) | h
  · rw [wConnLine_names rc g _ h]; decide
  · rcases wLenFields_names rc g _ h with h | h | h <;> rw [h] <;> decide
  · unfold wRest lowerFields at h
    simp only [List.map_map, List.mem_map, Function.comp] at h
    obtain ⟨e', _, hk⟩ := h
    rw [← hk]
    exact lower_idem _

theorem wLenFields_eq (rc : ReqCtx) (g : GoResp) :
    wLenFields rc g =
      if wChunked rc g then (Name.transferEncoding, [Name.chunked]) ::
        (if g.trailer.isEmpty then []
         else [(Name.trailer, [Req.joinWith [44] (trailerKeys g)])])
      else if wLen rc g ≥ 0 then [(Name.contentLength, [natToDec (wLen rc g).toNat])]
      else [] := by
  unfold wLenFields
  rw [lit_transfer_encoding, lit_chunked, lit_trailer, lit_content_length]
  rfl

theorem valsOf_wLenFields_TE (rc : ReqCtx) (g : GoResp) :
    valsOf (wLenFields rc g) Name.transferEncoding = if wChunked rc g then [Name.chunked] else [] := by
  rw [wLenFields_eq]
  split
  · split
    · simp [valsOf_cons, valsOf_nil]
    · have : ¬ Name.trailer = Name.transferEncoding := by decide
      simp [valsOf_cons, valsOf_nil, this]
  · split
    · have : ¬ Name.contentLength = Name.transferEncoding := by decide
      simp [valsOf_cons, valsOf_nil, this]
    · rfl

theorem valsOf_wLenFields_CL (rc : ReqCtx) (g : GoResp) :
    valsOf (wLenFields rc g) Name.contentLength =
      if wChunked rc g then [] else if wLen rc g ≥ 0 then [natToDec (wLen rc g).toNat] else [] := by
  rw [wLenFields_eq]
  have h1 : ¬ Name.transferEncoding = Name.contentLength := by decide
  have h2 : ¬ Name.trailer = Name.contentLength := by decide
  split
  · split
    · simp [valsOf_cons, valsOf_nil, h1]
    · simp [valsOf_cons, valsOf_nil, h1, h2]
  · split
    · simp [valsOf_cons, valsOf_nil]
    · rfl

/-- the map's own framing keys are never written by `Response.Write` -/
theorem valsOf_wRest_excluded (hc : CanonKeys (pipeHeader rc g)) (hn : NodupKeys (pipeHeader rc g))
    {N : Bytes} (ht : N.all isTokenByte = true) (hex : notExcluded (canonicalKey N) = false) :
    valsOf (wRest rc g) (lower N) = [] := by
  rw [wRest_eq]
  have hsub : ((pipeHeader rc g).filter fun e => notExcluded e.1).Sublist (pipeHeader rc g) :=
    List.filter_sublist
  rw [valsOf_lowerFields (hc.sublist hsub) (hn.sublist hsub) ht, lookup_filter_key, hex]
  rfl

theorem valsOf_wConnLine_ne {m : Bytes} (h : m ≠ Name.connection) : valsOf (wConnLine rc g) m = [] :=
  valsOf_eq_nil_of_not_mem fun hm => h (wConnLine_names rc g _ hm)

theorem valsOf_writeFull_TE (hc : CanonKeys (pipeHeader rc g)) (hn : NodupKeys (pipeHeader rc g)) :
    valsOf (writeFull rc g).fields Name.transferEncoding = if wChunked rc g then [Name.chunked] else [] := by
  show valsOf (mergeFields (wConnLine rc g ++ wLenFields rc g ++ wRest rc g)) _ = _
  rw [valsOf_mergeFields, valsOf_append, valsOf_append, valsOf_wConnLine_ne (by decide),
    valsOf_wLenFields_TE]
  have : valsOf (wRest rc g) Name.transferEncoding = [] := by
    rw [← lower_TE]
    exact valsOf_wRest_excluded hc hn tok_TE (by rw [ck_TE]; simp [notExcluded, wExcluded])
  rw [this]
  simp

theorem valsOf_writeFull_CL (hc : CanonKeys (pipeHeader rc g)) (hn : NodupKeys (pipeHeader rc g)) :
    valsOf (writeFull rc g).fields Name.contentLength =
      if wChunked rc g then [] else if wLen rc g ≥ 0 then [natToDec (wLen rc g).toNat] else [] := by
  show valsOf (mergeFields (wConnLine rc g ++ wLenFields rc g ++ wRest rc g)) _ = _
  rw [valsOf_mergeFields, valsOf_append, valsOf_append, valsOf_wConnLine_ne (by decide),
    valsOf_wLenFields_CL]
  have : valsOf (wRest rc g) Name.contentLength = [] := by
    rw [← lower_CL]
    exact valsOf_wRest_excluded hc hn tok_CL (by rw [ck_CL]; simp [notExcluded, wExcluded])
  rw [this]
  simp

end declared

/-- D: the field lines written declare the framing used, to a reader that knows the request method -/
theorem framing_declared {rc : ReqCtx} {o : OriginResp} {r : ClientResp} (hr : RulesOK rc)
    (hm : rc.method ≠ Name.CONNECT) (h : processResponse rc o = .ok r) : FramingDeclared rc.method r := by
  obtain ⟨g, hread, hcase⟩ := processResponse_ok h
  obtain ⟨ok⟩ := readResponse_some hread
  obtain ⟨hc, hn⟩ := pipeHeader_canon_nodup hr ok.canon ok.nodup
  rcases hcase with ⟨hho, rfl⟩ | ⟨hho, rfl⟩
  · -- header-only: decided by method and status alone
    have hb : bodiless rc.method (writeHO rc g).status = true := by
      rw [← headerOnly_eq_bodiless]; exact hho
    exact bodyKind_bodiless _ hb
  · have hb : bodiless rc.method (writeFull rc g).status = false := by
      rw [← headerOnly_eq_bodiless]; exact hho
    have hTE := fieldValues_norm (names_lower_writeFull (rc := rc) (g := g)) Name.transferEncoding
    have hCL := fieldValues_norm (names_lower_writeFull (rc := rc) (g := g)) Name.contentLength
    rw [valsOf_writeFull_TE hc hn] at hTE
    rw [valsOf_writeFull_CL hc hn] at hCL
    have hfr : (writeFull rc g).framing = wFraming rc g := rfl
    unfold FramingDeclared
    rw [hfr]
    unfold wFraming
    by_cases hch : wChunked rc g = true
    · simp only [hch, if_true] at hTE ⊢
      exact bodyKind_chunked hb hm (by rw [hTE]; decide)
    · simp only [hch, Bool.false_eq_true, if_false] at hTE hCL ⊢
      by_cases hlen : wLen rc g ≥ 0
      · simp only [hlen, if_true] at hCL ⊢
        refine bodyKind_len hb hm (by rw [hTE]; rfl) (by rw [hCL]; rfl) ?_
        rw [trimOWS_natToDec, parseDec_natToDec]
      · simp only [hlen, if_false] at hCL ⊢
        exact bodyKind_eof hb hm (by rw [hTE]; rfl) (by rw [hCL]; rfl)

end Resp
end FwdVerif
