/-
  Frame-size bound and wire-level reading of the ledger for the HTTP/2 relay model.  Core-only.
-/
import FwdVerif.Lemmas.H2Machine

namespace FwdVerif
namespace H2

variable {α : Type}

/-- DATA payload octets in a list of wire frames -/
def dataOctets : List (Frame α) → Int
  | [] => 0
  | .data _ _ p :: t => (p.length : Int) + dataOctets t
  | _ :: t => dataOctets t

theorem dataOctets_append (a b : List (Frame α)) : dataOctets (a ++ b) = dataOctets a + dataOctets b := by
  induction a with
  | nil => simp [dataOctets]
  | cons f t ih => cases f <;> simp [dataOctets, ih] <;> omega

theorem dataOctets_contFrames (s : Nat) : ∀ cs : List (List α), dataOctets (contFrames s cs) = 0
  | [] => rfl
  | [c] => rfl
  | c :: c' :: cs => by simp only [contFrames, dataOctets]; exact dataOctets_contFrames s (c' :: cs)

theorem dataOctets_send (q : QFrame α) : dataOctets q.send = (q.fc : Int) := by
  cases q with
  | data s e p => simp [QFrame.send, dataOctets, QFrame.fc]
  | headers s e p cs n => cases cs <;> simp [QFrame.send, dataOctets, QFrame.fc, dataOctets_contFrames]
  | push s pr cs n => cases cs <;> simp [QFrame.send, dataOctets, QFrame.fc, dataOctets_contFrames]
  | priority s p => simp [QFrame.send, dataOctets, QFrame.fc]
  | rst s c => simp [QFrame.send, dataOctets, QFrame.fc]

/-- the ledger's octet count is the DATA payload on the wire -/
theorem dataOctets_wire (qs : List (QFrame α)) : dataOctets (qs.flatMap QFrame.send) = fcSum qs := by
  induction qs with
  | nil => rfl
  | cons q t ih => simp [List.flatMap_cons, dataOctets_append, dataOctets_send, fcSum, ih]

theorem contFrames_le (s m : Nat) : ∀ cs : List (List α), (∀ c ∈ cs, c.length ≤ m) →
    ∀ f ∈ contFrames s cs, f.payloadLen ≤ m
  | [], _, f, hf => by simp [contFrames] at hf
  | [c], h, f, hf => by
    simp [contFrames] at hf; subst hf
    simpa [Frame.payloadLen] using h c (by simp)
  | c :: c' :: cs, h, f, hf => by
    simp only [contFrames, List.mem_cons] at hf
    rcases hf with hf | hf
    · subst hf; simpa [Frame.payloadLen] using h c (by simp)
    · exact contFrames_le s m (c' :: cs) (fun x hx => h x (by simp [List.mem_cons] at hx ⊢; right; exact hx)) f
        (by simpa [contFrames] using hf)

theorem dataQ_le (sid : Nat) (es : Bool) (m : Nat) : ∀ cs : List (List α), (∀ c ∈ cs, c.length ≤ m) →
    ∀ q ∈ dataQ sid es cs, ∀ f ∈ q.send, f.payloadLen ≤ m
  | [], _, q, hq => by simp [dataQ] at hq
  | [c], h, q, hq => by
    simp [dataQ] at hq; subst hq
    intro f hf; simp [QFrame.send] at hf; subst hf
    simpa [Frame.payloadLen] using h c (by simp)
  | c :: c' :: cs, h, q, hq => by
    simp only [dataQ, List.mem_cons] at hq
    rcases hq with hq | hq
    · subst hq
      intro f hf; simp [QFrame.send] at hf; subst hf
      simpa [Frame.payloadLen] using h c (by simp)
    · exact dataQ_le sid es m (c' :: cs) (fun x hx => h x (by simp [List.mem_cons] at hx ⊢; right; exact hx)) q
        (by simpa [dataQ] using hq)

theorem headerQ_le (d : Dir α) (hm : 5 ≤ d.maxFrame) (sid : Nat) (block : List α) (es : Bool) (p : Prio) :
    ∀ f ∈ (d.headerQ sid block es p).send, f.payloadLen ≤ d.maxFrame := by
  unfold Dir.headerQ
  intro f hf
  simp only [] at hf
  cases hsc : splitChunks (if p.isZero = true then d.maxFrame else subU32 d.maxFrame 5) d.maxFrame block with
  | nil => exact absurd hsc (splitChunks_ne_nil _ _ _)
  | cons c cs =>
    have hb := splitChunks_head_le _ _ _ c cs hsc
    rw [hsc] at hf
    simp only [QFrame.send, List.mem_cons] at hf
    rcases hf with hf | hf
    · subst hf
      simp only [Frame.payloadLen]
      by_cases hz : p.isZero = true
      · simp only [hz, if_true] at hb ⊢; omega
      · have hz' : p.isZero = false := by simpa using hz
        simp only [hz', subU32] at hb ⊢
        have : ¬ d.maxFrame < 5 := by omega
        simp only [this, if_false, Bool.false_eq_true] at hb ⊢
        omega
    · exact contFrames_le sid d.maxFrame cs hb.2 f hf

theorem pushQ_le (d : Dir α) (hm : 4 ≤ d.maxFrame) (sid pr : Nat) (block : List α) :
    ∀ f ∈ (d.pushQ sid pr block).send, f.payloadLen ≤ d.maxFrame := by
  unfold Dir.pushQ
  intro f hf
  cases hsc : splitChunks (subU32 d.maxFrame 4) d.maxFrame block with
  | nil => exact absurd hsc (splitChunks_ne_nil _ _ _)
  | cons c cs =>
    have hb := splitChunks_head_le _ _ _ c cs hsc
    rw [hsc] at hf
    simp only [QFrame.send, List.mem_cons] at hf
    rcases hf with hf | hf
    · subst hf
      simp only [Frame.payloadLen, subU32] at hb ⊢
      have : ¬ d.maxFrame < 4 := by omega
      simp only [this, if_false] at hb
      omega
    · exact contFrames_le sid d.maxFrame cs hb.2 f hf

end H2
end FwdVerif
