/-
  C14 — decorated scripts (Model/C14.lean §10): a decorated plain tree answers like the plain tree;
  sub-sequences; the pool machine over VMs with state refines the machine of §9 (answers erased),
  which gives exclusivity, and on top of it: the state of every VM is the state of a single
  resolver after the requests that VM evaluated, a sub-sequence of all evaluations so far.
-/
import FwdVerif.Lemmas.C14Pool
namespace FwdVerif
namespace C14

/-! ## decorated trees -/

theorem evalDTree_toD (hc : Helper → List Val → Res) (u h : Bytes) (g : Globals) (t : Tree) :
    evalDTree hc u h g t.toD = (evalTree hc u h t, g) := by
  induction t with
  | ret e => rfl
  | ite c a b iha ihb =>
    simp only [Tree.toD, evalDTree, evalTree]
    cases evalCond hc u h c with
    | ok b => cases b <;> simp [iha, ihb]
    | throw => rfl
    | unmodelled => rfl

theorem evalDTree_via (hc : Helper → List Val → Res) (u h : Bytes) (g : Globals) (x : Name) (t : Tree) :
    (evalDTree hc u h g (t.via x)).1 = evalTree hc u h t := by
  induction t with
  | ret e =>
    simp only [Tree.via, evalDTree, evalTree]
    cases evalRet hc u h e <;> rfl
  | ite c a b iha ihb =>
    simp only [Tree.via, evalDTree, evalTree]
    cases evalCond hc u h c with
    | ok b => cases b <;> simp [iha, ihb]
    | throw => rfl
    | unmodelled => rfl

theorem shadowHc_nil (hc : Helper → List Val → Res) : shadowHc [] hc = hc := by
  funext h args
  simp [shadowHc]

/-! ## sub-sequences -/

section
variable {ρ α σ : Type}

theorem mem_subseqs (l h : List ρ) : h ∈ subseqs l ↔ h.Sublist l := by
  induction l generalizing h with
  | nil => simp [subseqs]
  | cons x xs ih =>
    simp only [subseqs, List.mem_append, List.mem_map, ih]
    constructor
    · rintro (h1 | ⟨r, hr, rfl⟩)
      · exact List.Sublist.cons x h1
      · exact List.Sublist.cons_cons x hr
    · intro hs
      cases hs with
      | cons _ h1 => exact Or.inl h1
      | cons_cons _ h1 => exact Or.inr ⟨_, h1, rfl⟩

theorem mem_possibleAnswers (f : σ → ρ → α × σ) (s0 : σ) (log : List ρ) (q : ρ) (a : α) :
    a ∈ possibleAnswers f s0 log q ↔ ∃ h, h.Sublist log ∧ a = answerAfter f s0 h q := by
  unfold possibleAnswers
  simp only [List.mem_map, mem_subseqs]
  constructor
  · rintro ⟨h, hs, rfl⟩; exact ⟨h, hs, rfl⟩
  · rintro ⟨h, hs, rfl⟩; exact ⟨h, hs, rfl⟩

theorem seqState_append (f : σ → ρ → α × σ) (s0 : σ) (h : List ρ) (r : ρ) :
    seqState f s0 (h ++ [r]) = (f (seqState f s0 h) r).2 := by
  simp [seqState, List.foldl_append]

theorem seqAnswers_getLast (f : σ → ρ → α × σ) (s0 : σ) (h : List ρ) (q : ρ) :
    (seqAnswers f s0 (h ++ [q])).getLast? = some (answerAfter f s0 h q) := by
  induction h generalizing s0 with
  | nil => simp [seqAnswers, answerAfter, seqState]
  | cons r rs ih =>
    have := ih (f s0 r).2
    simp only [List.cons_append, seqAnswers]
    rw [List.getLast?_cons, this]
    simp [answerAfter, seqState]

/-! ## the pool over VMs with state -/

def Phase.erase : Phase α → Phase Unit
  | .idle => .idle
  | .acquired v => .acquired v
  | .begun v => .begun v
  | .finished v a => .finished v (a.map fun _ => ())
  | .released a => .released (a.map fun _ => ())

def PState.erase (s : PState ρ α) : PState ρ Unit :=
  { free := s.free, next := s.next, reg := s.reg, phase := fun c => (s.phase c).erase }

theorem Phase.erase_idle : (Phase.idle : Phase α).erase = .idle := rfl
theorem Phase.erase_acquired (v : Nat) : (Phase.acquired v : Phase α).erase = .acquired v := rfl
theorem Phase.erase_begun (v : Nat) : (Phase.begun v : Phase α).erase = .begun v := rfl
theorem Phase.erase_finished (v : Nat) (a : Option α) :
    (Phase.finished v a).erase = .finished v (a.map fun _ => ()) := rfl
theorem Phase.erase_released (a : Option α) : (Phase.released a).erase = .released (a.map fun _ => ()) := rfl

theorem erase_setPhase (ph : Nat → Phase α) (c : Nat) (p : Phase α) :
    (fun x => (setPhase ph c p x).erase) = setPhase (fun x => (ph x).erase) c p.erase := by
  funext x
  by_cases h : x = c <;> simp [setPhase, h]

theorem erase_vm (p : Phase α) : p.erase.vm? = p.vm? := by cases p <;> rfl

theorem erase_begun_iff (p : Phase α) (v : Nat) : p.erase = .begun v ↔ p = .begun v := by
  cases p <;> simp [Phase.erase]

/-- erasing the answers commutes with every step of the stateless machine -/
theorem erase_pstep (f : ρ → α) (req : Nat → ρ) (s : PState ρ α) (op : POp) :
    (pstep f req s op).erase = pstep (fun _ => ()) req s.erase op := by
  cases op with
  | acquire c choice =>
    simp only [pstep, PState.erase]
    cases hc : s.phase c <;>
      simp only [Phase.erase_idle, Phase.erase_acquired, Phase.erase_begun, Phase.erase_finished, Phase.erase_released]
    cases hv : choice.bind (fun i => s.free[i]?) <;> simp only [erase_setPhase, Phase.erase_acquired]
  | beginEval c =>
    simp only [pstep, PState.erase]
    cases hc : s.phase c <;>
      simp only [Phase.erase_idle, Phase.erase_acquired, Phase.erase_begun, Phase.erase_finished, Phase.erase_released,
        erase_setPhase]
  | finish c =>
    simp only [pstep, PState.erase]
    cases hc : s.phase c <;>
      simp only [Phase.erase_idle, Phase.erase_acquired, Phase.erase_begun, Phase.erase_finished, Phase.erase_released,
        erase_setPhase, Option.map_map]
  | release c =>
    simp only [pstep, PState.erase]
    cases hc : s.phase c <;>
      simp only [Phase.erase_idle, Phase.erase_acquired, Phase.erase_begun, Phase.erase_finished, Phase.erase_released,
        erase_setPhase]
  | gc i => rfl

/-- … and with every step of the machine with state: it refines the stateless one -/
theorem erase_sstep (f : σ → ρ → α × σ) (req : Nat → ρ) (s : SState ρ α σ) (op : POp) :
    (sstep f req s op).base.erase = pstep (fun _ => ()) req s.base.erase op := by
  cases op with
  | finish c =>
    simp only [sstep, pstep, PState.erase]
    cases hc : s.base.phase c <;>
      simp only [Phase.erase_idle, Phase.erase_acquired, Phase.erase_begun, Phase.erase_finished, Phase.erase_released]
    rename_i v
    cases hr : s.base.reg v <;>
      simp only [erase_setPhase, Phase.erase_finished, Option.map]
  | acquire c choice => exact erase_pstep _ req s.base _
  | beginEval c => exact erase_pstep _ req s.base _
  | release c => exact erase_pstep _ req s.base _
  | gc i => exact erase_pstep _ req s.base _

/-- invariant of the machine with state -/
structure SInv (f : σ → ρ → α × σ) (s0 : σ) (req : Nat → ρ) (s : SState ρ α σ) : Prop where
  pinv : PInv (fun _ => ()) req s.base.erase
  vm_ok : ∀ v, s.vmst v = seqState f s0 (s.hist v)
  hist_sub : ∀ v, (s.hist v).Sublist s.log
  log_req : ∀ r, r ∈ s.log → ∃ c, r = req c
  ans_ok : ∀ c a, (s.base.phase c).answer? = some a →
    ∃ h, h.Sublist s.log ∧ a = some (answerAfter f s0 h (req c))

theorem sinv_init (f : σ → ρ → α × σ) (s0 : σ) (req : Nat → ρ) :
    SInv f s0 req (SState.init s0 : SState ρ α σ) := by
  refine ⟨?_, ?_, ?_, ?_, ?_⟩
  · exact pinv_init _ req
  · intro v; rfl
  · intro v; exact List.Sublist.refl _
  · intro r hr; simp [SState.init] at hr
  · intro c a h; simp [SState.init, PState.init, Phase.answer?] at h

/-- steps that only change the pool bookkeeping of the base machine and keep every answer -/
theorem sinv_of_base (f : σ → ρ → α × σ) (s0 : σ) (req : Nat → ρ) (s : SState ρ α σ) (op : POp)
    (hi : SInv f s0 req s) (b : PState ρ α)
    (he : b.erase = pstep (fun _ => ()) req s.base.erase op)
    (ha : ∀ c a, (b.phase c).answer? = some a → (s.base.phase c).answer? = some a) :
    SInv f s0 req { s with base := b } := by
  refine ⟨?_, hi.vm_ok, hi.hist_sub, hi.log_req, ?_⟩
  · show PInv _ req b.erase
    rw [he]; exact pinv_step _ req _ op hi.pinv
  · intro c a h; exact hi.ans_ok c a (ha c a h)

theorem sinv_step (f : σ → ρ → α × σ) (s0 : σ) (req : Nat → ρ) (s : SState ρ α σ) (op : POp)
    (hi : SInv f s0 req s) : SInv f s0 req (sstep f req s op) := by
  have hrefine := erase_sstep f req s op
  cases op with
  | acquire c choice =>
    refine sinv_of_base f s0 req s _ hi _ hrefine ?_
    intro x a
    simp only [pstep]
    cases hc : s.base.phase c with
    | idle =>
      cases hv : choice.bind (fun i => s.base.free[i]?) <;>
      · simp only []
        by_cases hx : x = c
        · subst hx; simp [setPhase, Phase.answer?]
        · simp [setPhase, hx]
    | _ => simp
  | beginEval c =>
    refine sinv_of_base f s0 req s _ hi _ hrefine ?_
    intro x a
    simp only [pstep]
    cases hc : s.base.phase c with
    | acquired v =>
      simp only []
      by_cases hx : x = c
      · subst hx; simp [setPhase, Phase.answer?]
      · simp [setPhase, hx]
    | _ => simp
  | release c =>
    refine sinv_of_base f s0 req s _ hi _ hrefine ?_
    intro x a
    simp only [pstep]
    cases hc : s.base.phase c with
    | finished v b =>
      simp only []
      by_cases hx : x = c
      · subst hx; simp [setPhase, Phase.answer?, hc]
      · simp [setPhase, hx]
    | _ => simp
  | gc i =>
    refine sinv_of_base f s0 req s _ hi _ hrefine ?_
    intro x a h; exact h
  | finish c =>
    have hpin : PInv (fun _ => ()) req (sstep f req s (.finish c)).base.erase := by
      rw [hrefine]; exact pinv_step _ req _ _ hi.pinv
    revert hpin
    simp only [sstep]
    cases hc : s.base.phase c with
    | begun v =>
      simp only []
      have hreg : s.base.reg v = some (req c) :=
        hi.pinv.reg_ok c v (by show (s.base.phase c).erase = _; rw [hc]; rfl)
      rw [hreg]
      simp only []
      intro hpin
      refine ⟨hpin, ?_, ?_, ?_, ?_⟩
      · intro w
        by_cases hw : w = v
        · subst hw
          simp only [setAt, if_true]
          rw [seqState_append, ← hi.vm_ok]
        · simp only [setAt, hw, if_false]; exact hi.vm_ok w
      · intro w
        by_cases hw : w = v
        · subst hw
          simp only [setAt, if_true]
          exact List.Sublist.append (hi.hist_sub w) (List.Sublist.refl _)
        · simp only [setAt, hw, if_false]
          exact (hi.hist_sub w).trans (List.sublist_append_left _ _)
      · intro r hr
        rcases List.mem_append.mp hr with h1 | h1
        · exact hi.log_req r h1
        · simp at h1; exact ⟨c, h1⟩
      · intro x a hx
        by_cases hxc : x = c
        · subst hxc
          simp [setPhase, Phase.answer?] at hx
          refine ⟨s.hist v, (hi.hist_sub v).trans (List.sublist_append_left _ _), ?_⟩
          rw [← hx, hi.vm_ok v]; rfl
        · simp only [setPhase, hxc, if_false] at hx
          obtain ⟨h, hs, ha⟩ := hi.ans_ok x a hx
          exact ⟨h, hs.trans (List.sublist_append_left _ _), ha⟩
    | _ => intro _; exact hi

theorem sinv_run (f : σ → ρ → α × σ) (s0 : σ) (req : Nat → ρ) (ops : List POp) :
    SInv f s0 req (srun f s0 req ops) := by
  unfold srun
  have : ∀ (s : SState ρ α σ), SInv f s0 req s → SInv f s0 req (ops.foldl (sstep f req) s) := by
    induction ops with
    | nil => intro s h; exact h
    | cons op ops ih => intro s h; exact ih _ (sinv_step f s0 req s op h)
  exact this _ (sinv_init f s0 req)

end

end C14
end FwdVerif
