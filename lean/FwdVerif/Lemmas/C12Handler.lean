/-
  C12 — helper lemmas for §8 of `Model/C12.lean` (the handler variant): chunks without the last-chunk
  never read back as a complete chunked body, with it they do.  Core Lean only.
-/
import FwdVerif.Model.C12
import FwdVerif.Lemmas.RespParse

namespace FwdVerif
namespace C12

open Resp (splitLine decodeChunkedAux decodeChunked encodeChunk encodeChunked hexNat parseHex isHexByte
  splitLine_append hexNat_nolf hexNat_all hexNat_ne_nil parseHex_hexNat)

private theorem takeWhile_all' {α : Type} (p : α → Bool) (l : List α) (h : ∀ a ∈ l, p a = true) :
    l.takeWhile p = l := by
  induction l with
  | nil => rfl
  | cons a l ih =>
    simp only [List.takeWhile_cons, h a List.mem_cons_self, if_true]
    rw [ih (fun x hx => h x (List.mem_cons_of_mem _ hx))]

theorem flatMap_encodeChunk_cons (c : Bytes) (cs : List Bytes) (rest : Bytes) :
    (c :: cs).flatMap encodeChunk ++ rest =
      hexNat c.length ++ 13 :: 10 :: (c ++ 13 :: 10 :: (cs.flatMap encodeChunk ++ rest)) := by
  simp [encodeChunk, Resp.crlf]

/-- whole chunks and then the end of the stream: the reader never finds the last-chunk -/
theorem decodeChunkedAux_unterminated (cs : List Bytes) (hc : ∀ c ∈ cs, c ≠ []) (fuel : Nat) :
    decodeChunkedAux fuel (cs.flatMap encodeChunk) = none := by
  induction cs generalizing fuel with
  | nil =>
    cases fuel with
    | zero => rfl
    | succ fuel => simp [decodeChunkedAux, splitLine]
  | cons c cs ih =>
    cases fuel with
    | zero => rfl
    | succ fuel =>
      have ih' := ih (fun g hg => hc g (List.mem_cons_of_mem _ hg)) fuel
      have hcne : c.length ≠ 0 := by
        have := hc c List.mem_cons_self
        cases c with
        | nil => exact absurd rfl this
        | cons a l => simp
      have h0 := flatMap_encodeChunk_cons c cs []
      simp only [List.append_nil] at h0
      rw [h0]
      have hdrop : (c ++ 13 :: 10 :: cs.flatMap encodeChunk).drop (c.length + 2) = cs.flatMap encodeChunk := by
        rw [← List.drop_drop, List.drop_left]; rfl
      simp only [decodeChunkedAux, splitLine_append _ _ (hexNat_nolf _), takeWhile_all' _ _ (hexNat_all _),
        hexNat_ne_nil, parseHex_hexNat, List.drop_length, hdrop, ih', List.drop_left]
      simp [hcne, Resp.crlf]

theorem decodeChunked_unterminated (cs : List Bytes) (hc : ∀ c ∈ cs, c ≠ []) :
    decodeChunked (cs.flatMap encodeChunk) = none :=
  decodeChunkedAux_unterminated cs hc _

/-- … whereas the same chunks followed by the last-chunk are a complete body, whatever follows -/
theorem decodeChunked_terminated (cs : List Bytes) (hc : ∀ c ∈ cs, c ≠ []) (rest : Bytes) :
    decodeChunked (cs.flatMap encodeChunk ++ (48 :: Resp.crlf ++ Resp.crlf) ++ rest) = some (cs.flatten, [], rest) := by
  have := Resp.decodeChunked_encode cs [] rest hc (by simp)
  simpa [encodeChunked, Resp.fieldLines] using this

/-! ### the observation after a failed body copy -/

/-- what the client reads when the body copy fails under policy `p` -/
theorem handlerBodyCut_abort (p : CopyPolicy) (ex : Exchange) (k lost : Nat) (r : Bool)
    (hk : ex.kind ≠ .connect) (hfr : handlerFraming ex ≠ .eof) (hwf : (Fault.bodyCut k r lost).wf ex = true)
    (herr : ex.framing = .eof → r = true)
    (hp : p .upstreamEOF = .abort ∧ p .upstreamReset = .abort) :
    handlerStreamWith p (.bodyCut k r lost) ex = .prefixThenClose ex.id (handlerFraming ex) (k - lost) false .fin ∧
      (handlerStreamWith p (.bodyCut k r lost) ex).parsesComplete = false := by
  have hk' : (ex.kind == ReqKind.connect) = false := by
    cases h : ex.kind <;> simp_all
  have hs : handlerStreamWith p (.bodyCut k r lost) ex =
      .prefixThenClose ex.id (handlerFraming ex) (k - lost) false .fin := by
    simp only [handlerStreamWith, faultErr, hk', Bool.false_eq_true, if_false, handlerBodyCutWith, copyErrOf]
    cases r with
    | true =>
      simp only [if_true, hp.2, serverEnd]
      done
    | false =>
      have hne : (ex.framing == Framing.eof) = false := by
        cases hf : ex.framing with
        | eof => exact absurd (herr hf) (by simp)
        | cl n => rfl
        | chunked => rfl
      simp only [Bool.false_eq_true, if_false, hne, hp.1, serverEnd]
      done
  refine ⟨hs, ?_⟩
  rw [hs]
  cases hf : handlerFraming ex with
  | eof => exact absurd hf hfr
  | chunked => rfl
  | cl n =>
    have hcl : ex.framing = .cl n := by
      unfold handlerFraming at hf
      cases hx : ex.framing with
      | cl m => rw [hx] at hf; simpa using hf
      | chunked => rw [hx] at hf; simp only at hf; split at hf <;> cases hf
      | eof => rw [hx] at hf; simp only at hf; split at hf <;> cases hf
    simp only [Fault.wf, hcl, Bool.and_eq_true, beq_iff_eq, decide_eq_true_eq] at hwf
    simp only [ClientObs.parsesComplete, beq_eq_false_iff_ne, ne_eq]
    omega

end C12
end FwdVerif
