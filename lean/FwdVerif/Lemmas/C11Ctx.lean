/-
  C11 — helper lemmas (part 5): the contexts handed to `Shutdown` and the control flow of the
  goroutine of `HTTPProxy.run`.  A second, small invariant over the control part of the state
  (the calls of Shutdown / Close with their contexts, `runner`, the shutdown configuration): no
  connection step touches it.
-/
import FwdVerif.Lemmas.C11Inv

namespace FwdVerif
namespace C11

/-- the control part of the state -/
structure Ctl where
  shuts : CallId → SCall
  closes : CallId → CPC
  runner : RPC
  runShut : CallId
  runClose : CallId
  cfgNoLimit : Bool
  cfgSignals : List Sig
  api : Bool

def ctl (s : State) : Ctl :=
  ⟨s.shuts, s.closes, s.runner, s.runShut, s.runClose, s.cfgNoLimit, s.cfgSignals, s.api⟩

theorem applyEff_ctl (s : State) (c : ConnId) (e : Eff) : ctl (applyEff s c e) = ctl s := by
  cases e <;> rfl

/-- a step of a connection's goroutine leaves the control part alone -/
theorem step_conn_ctl {s s' : State} {c : ConnId} {a : CAct} (h : step s (.conn c a) = some s') :
    ctl s' = ctl s := by
  obtain ⟨x, e, _, rfl⟩ := step_conn_eq h
  exact applyEff_ctl (setConn s c x) c e

/-- `run` has called `Shutdown` -/
def runnerPast : RPC → Bool
  | .inShutdown | .inClose | .finished => true
  | _ => false

/-- the invariant, on the control part -/
structure CtlInv (t : Ctl) : Prop where
  /-- a context is done for a reason its kind allows -/
  kindD : ∀ k, (t.shuts k).done = some .deadline → (t.shuts k).noLimit = false
  kindC : ∀ k, (t.shuts k).done = some .cancel → (t.shuts k).cancellable = true ∨ (t.shuts k).sigs ≠ []
  /-- the proxy is driven through `run` or through the API, not both -/
  apiRun : t.runner ≠ .idle → t.api = false
  /-- under `run`, the only call of `Shutdown` is run's -/
  onlyS : t.api = false → ∀ j, (t.shuts j).pc ≠ .idle → runnerPast t.runner = true ∧ j = t.runShut
  /-- … and the only call of `Close` is run's, made after its `Shutdown` returned an error -/
  onlyC : t.api = false → ∀ j, t.closes j ≠ .idle →
      (t.runner = .inClose ∨ t.runner = .finished) ∧ j = t.runClose ∧ (t.shuts t.runShut).pc = .doneErr
  /-- the context `run` hands to `Shutdown` is the one `shutdownContext` builds from the configuration -/
  kind : runnerPast t.runner = true → (t.shuts t.runShut).pc ≠ .idle ∧
      (t.shuts t.runShut).noLimit = t.cfgNoLimit ∧ (t.shuts t.runShut).cancellable = false ∧
      (t.shuts t.runShut).sigs = t.cfgSignals
  /-- `run` is in its call of `Close` only after `Shutdown` returned an error, and `Close` was really called -/
  inClose : t.runner = .inClose → (t.shuts t.runShut).pc = .doneErr ∧ t.closes t.runClose ≠ .idle
  /-- `run` returns after `Shutdown` returned nil, or — `Shutdown` having returned an error — after `Close` returned -/
  fin : t.runner = .finished → (t.shuts t.runShut).pc = .doneNil ∨
      ((t.shuts t.runShut).pc = .doneErr ∧ t.closes t.runClose = .done)

def CtxInv (s : State) : Prop := CtlInv (ctl s)

theorem ctxinv_initCfg (nl : Bool) (sg : List Sig) : CtxInv (initCfg nl sg) := by
  constructor <;> simp [initCfg, ctl, runnerPast]

/-- the context of call `k` becomes done (for a reason its kind allows), nothing else changes -/
theorem ctlinv_ctx {t : Ctl} {k : CallId} {x : SCall} (hi : CtlInv t) (hpc : x.pc = (t.shuts k).pc)
    (hn : x.noLimit = (t.shuts k).noLimit) (hc : x.cancellable = (t.shuts k).cancellable)
    (hsg : x.sigs = (t.shuts k).sigs)
    (hdD : x.done = some .deadline → x.noLimit = false)
    (hdC : x.done = some .cancel → x.cancellable = true ∨ x.sigs ≠ []) :
    CtlInv { t with shuts := fun j => if j = k then x else t.shuts j } := by
  have e1 : ∀ j, (if j = k then x else t.shuts j).pc = (t.shuts j).pc := by
    intro j; split
    · rename_i h; rw [h, hpc]
    · rfl
  have e2 : ∀ j, (if j = k then x else t.shuts j).noLimit = (t.shuts j).noLimit := by
    intro j; split
    · rename_i h; rw [h, hn]
    · rfl
  have e3 : ∀ j, (if j = k then x else t.shuts j).cancellable = (t.shuts j).cancellable := by
    intro j; split
    · rename_i h; rw [h, hc]
    · rfl
  have e4 : ∀ j, (if j = k then x else t.shuts j).sigs = (t.shuts j).sigs := by
    intro j; split
    · rename_i h; rw [h, hsg]
    · rfl
  obtain ⟨r1, r2, r3, r4, r5, r6, r7, r8⟩ := hi
  refine ⟨?_, ?_, r3, ?_, ?_, ?_, ?_, ?_⟩
  · intro j
    show (if j = k then x else t.shuts j).done = _ → (if j = k then x else t.shuts j).noLimit = false
    by_cases hj : j = k
    · simp only [if_pos hj]; exact hdD
    · simp only [if_neg hj]; exact r1 j
  · intro j
    show (if j = k then x else t.shuts j).done = _ → (if j = k then x else t.shuts j).cancellable = true ∨
      (if j = k then x else t.shuts j).sigs ≠ []
    by_cases hj : j = k
    · simp only [if_pos hj]; exact hdC
    · simp only [if_neg hj]; exact r2 j
  · intro ha j
    show (if j = k then x else t.shuts j).pc ≠ .idle → _
    rw [e1 j]; exact r4 ha j
  · intro ha j
    show _ → _ ∧ _ ∧ (if t.runShut = k then x else t.shuts t.runShut).pc = .doneErr
    rw [e1 t.runShut]; exact r5 ha j
  · show _ → (if t.runShut = k then x else t.shuts t.runShut).pc ≠ .idle ∧
      (if t.runShut = k then x else t.shuts t.runShut).noLimit = _ ∧
      (if t.runShut = k then x else t.shuts t.runShut).cancellable = _ ∧
      (if t.runShut = k then x else t.shuts t.runShut).sigs = _
    rw [e1 t.runShut, e2 t.runShut, e3 t.runShut, e4 t.runShut]; exact r6
  · show _ → (if t.runShut = k then x else t.shuts t.runShut).pc = .doneErr ∧ _
    rw [e1 t.runShut]; exact r7
  · show _ → (if t.runShut = k then x else t.shuts t.runShut).pc = .doneNil ∨
      ((if t.runShut = k then x else t.shuts t.runShut).pc = .doneErr ∧ _)
    rw [e1 t.runShut]; exact r8

/-- actions of the environment, of `Serve`, the iteration of `Close`'s loop and the observations of the callers -/
def Action.isEnv : Action → Bool
  | .conn .. | .connect .. | .connectRefused .. | .hello .. | .sendPartial .. | .send .. | .gone ..
  | .originSeen .. | .originAnswer .. | .originEnd .. | .respSeen .. | .echoSeen .. | .closedSeen ..
  | .listenerClose | .serveCheck | .accept .. | .closeConn .. | .shutdownRet .. | .closeRet .. | .runRet => true
  | _ => false

/-- … leave the control part alone -/
theorem step_env_ctl {s s' : State} (a : Action) (h : step s a = some s') (ha : a.isEnv = true) :
    ctl s' = ctl s := by
  cases a with
  | conn c a => exact step_conn_ctl h
  | _ =>
    first
      | (simp [Action.isEnv] at ha; done)
      | (simp only [step] at h
         repeat' split at h
         all_goals first
           | (simp at h; done)
           | (simp only [Option.some.injEq] at h; subst h
              first | rfl | (simp only [closeListener, setConn]; done) | (split <;> rfl)))

/-- one step of call `k` of `Shutdown` (it has been called and has not returned): its program counter
    changes, its context does not -/
theorem ctlinv_shutStep {t : Ctl} {k : CallId} {x : SCall} (hi : CtlInv t)
    (h0 : (t.shuts k).pc ≠ .idle) (h1 : (t.shuts k).pc ≠ .doneErr) (h2 : (t.shuts k).pc ≠ .doneNil)
    (hx0 : x.pc ≠ .idle) (hn : x.noLimit = (t.shuts k).noLimit) (hc : x.cancellable = (t.shuts k).cancellable)
    (hsg : x.sigs = (t.shuts k).sigs) (hd : x.done = (t.shuts k).done) :
    CtlInv { t with shuts := fun j => if j = k then x else t.shuts j } := by
  obtain ⟨r1, r2, r3, r4, r5, r6, r7, r8⟩ := hi
  have hrs : t.runShut ≠ k → (if t.runShut = k then x else t.shuts t.runShut) = t.shuts t.runShut :=
    fun h => if_neg h
  refine ⟨?_, ?_, r3, ?_, ?_, ?_, ?_, ?_⟩
  · intro j
    show (if j = k then x else t.shuts j).done = _ → (if j = k then x else t.shuts j).noLimit = false
    by_cases hj : j = k
    · simp only [if_pos hj]; rw [hd, hn]; exact r1 k
    · simp only [if_neg hj]; exact r1 j
  · intro j
    show (if j = k then x else t.shuts j).done = _ → (if j = k then x else t.shuts j).cancellable = true ∨
      (if j = k then x else t.shuts j).sigs ≠ []
    by_cases hj : j = k
    · simp only [if_pos hj]; rw [hd, hc, hsg]; exact r2 k
    · simp only [if_neg hj]; exact r2 j
  · intro ha j
    show (if j = k then x else t.shuts j).pc ≠ .idle → _
    by_cases hj : j = k
    · simp only [if_pos hj]; intro _; rw [hj]; exact r4 ha k h0
    · simp only [if_neg hj]; exact r4 ha j
  · intro ha j hjc
    obtain ⟨a1, a2, a3⟩ := r5 ha j hjc
    refine ⟨a1, a2, ?_⟩
    show (if t.runShut = k then x else t.shuts t.runShut).pc = .doneErr
    rw [hrs (by intro h; rw [h] at a3; exact h1 a3)]; exact a3
  · intro hp
    obtain ⟨a1, a2, a3, a4⟩ := r6 hp
    show (if t.runShut = k then x else t.shuts t.runShut).pc ≠ .idle ∧
      (if t.runShut = k then x else t.shuts t.runShut).noLimit = _ ∧
      (if t.runShut = k then x else t.shuts t.runShut).cancellable = _ ∧
      (if t.runShut = k then x else t.shuts t.runShut).sigs = _
    by_cases hr : t.runShut = k
    · simp only [if_pos hr]; rw [hr] at a2 a3 a4; exact ⟨hx0, hn.trans a2, hc.trans a3, hsg.trans a4⟩
    · simp only [if_neg hr]; exact ⟨a1, a2, a3, a4⟩
  · intro hr
    obtain ⟨a1, a2⟩ := r7 hr
    refine ⟨?_, a2⟩
    show (if t.runShut = k then x else t.shuts t.runShut).pc = .doneErr
    rw [hrs (by intro h; rw [h] at a1; exact h1 a1)]; exact a1
  · intro hr
    show (if t.runShut = k then x else t.shuts t.runShut).pc = .doneNil ∨
      ((if t.runShut = k then x else t.shuts t.runShut).pc = .doneErr ∧ _)
    rcases r8 hr with a1 | ⟨a1, a2⟩
    · rw [hrs (by intro h; rw [h] at a1; exact h2 a1)]; exact Or.inl a1
    · rw [hrs (by intro h; rw [h] at a1; exact h1 a1)]; exact Or.inr ⟨a1, a2⟩

/-- one step of call `k` of `Close` (it has been called and has not returned) -/
theorem ctlinv_closeStep {t : Ctl} {k : CallId} {x : CPC} (hi : CtlInv t)
    (h0 : t.closes k ≠ .idle) (h1 : t.closes k ≠ .done) (hx0 : x ≠ .idle) :
    CtlInv { t with closes := fun j => if j = k then x else t.closes j } := by
  obtain ⟨r1, r2, r3, r4, r5, r6, r7, r8⟩ := hi
  refine ⟨r1, r2, r3, r4, ?_, r6, ?_, ?_⟩
  · intro ha j
    show (if j = k then x else t.closes j) ≠ .idle → _
    by_cases hj : j = k
    · simp only [if_pos hj]; intro _; rw [hj]; exact r5 ha k h0
    · simp only [if_neg hj]; exact r5 ha j
  · intro hr
    obtain ⟨a1, a2⟩ := r7 hr
    refine ⟨a1, ?_⟩
    show (if t.runClose = k then x else t.closes t.runClose) ≠ .idle
    by_cases hk : t.runClose = k
    · simp only [if_pos hk]; exact hx0
    · simp only [if_neg hk]; exact a2
  · intro hr
    rcases r8 hr with a1 | ⟨a1, a2⟩
    · exact Or.inl a1
    · refine Or.inr ⟨a1, ?_⟩
      show (if t.runClose = k then x else t.closes t.runClose) = .done
      rw [if_neg (by intro h; rw [h] at a2; exact h1 a2)]; exact a2

/-- a call through the API (the proxy is not driven by `run`) -/
theorem ctlinv_api {t : Ctl} {sh : CallId → SCall} {cl : CallId → CPC} (_hi : CtlInv t) (hr : t.runner = .idle)
    (hD : ∀ k, (sh k).done = some .deadline → (sh k).noLimit = false)
    (hC : ∀ k, (sh k).done = some .cancel → (sh k).cancellable = true ∨ (sh k).sigs ≠ []) :
    CtlInv { t with shuts := sh, closes := cl, api := true } := by
  refine ⟨hD, hC, ?_, ?_, ?_, ?_, ?_, ?_⟩
  · intro h; exact absurd hr h
  · intro h; cases h
  · intro h; cases h
  · intro h; rw [show ({ t with shuts := sh, closes := cl, api := true } : Ctl).runner = .idle from hr] at h
    simp [runnerPast] at h
  · intro h; rw [show ({ t with shuts := sh, closes := cl, api := true } : Ctl).runner = .idle from hr] at h
    cases h
  · intro h; rw [show ({ t with shuts := sh, closes := cl, api := true } : Ctl).runner = .idle from hr] at h
    cases h

/-- before `run` calls `Shutdown` nothing has been called -/
theorem ctlinv_noCalls {t : Ctl} (hi : CtlInv t) (ha : t.api = false) (hp : runnerPast t.runner = false) :
    (∀ j, (t.shuts j).pc = .idle) ∧ ∀ j, t.closes j = .idle := by
  constructor
  · intro j
    cases hpc : (t.shuts j).pc with
    | idle => rfl
    | _ => have := (hi.onlyS ha j (by rw [hpc]; simp)).1; rw [hp] at this; cases this
  · intro j
    cases hc : t.closes j with
    | idle => rfl
    | _ =>
      have := (hi.onlyC ha j (by rw [hc]; simp)).1
      rcases this with h | h <;> (rw [h] at hp; simp [runnerPast] at hp)

/-- `run` moves on before it has called anything -/
theorem ctlinv_early {t : Ctl} {r : RPC} (hi : CtlInv t) (ha : t.api = false)
    (hp : runnerPast t.runner = false) (hr : runnerPast r = false) : CtlInv { t with runner := r } := by
  obtain ⟨hs, hc⟩ := ctlinv_noCalls hi ha hp
  refine ⟨hi.kindD, hi.kindC, fun _ => ha, ?_, ?_, ?_, ?_, ?_⟩
  · intro _ j hj; exact absurd (hs j) hj
  · intro _ j hj; exact absurd (hc j) hj
  · intro h; rw [show ({ t with runner := r } : Ctl).runner = r from rfl, hr] at h; cases h
  · intro h; rw [show ({ t with runner := r } : Ctl).runner = r from rfl] at h; rw [h] at hr; simp [runnerPast] at hr
  · intro h; rw [show ({ t with runner := r } : Ctl).runner = r from rfl] at h; rw [h] at hr; simp [runnerPast] at hr

theorem ctxinv_shutdownCall {s s' : State} (k : CallId) (nl cb : Bool) (hi : CtxInv s)
    (h : step s (.shutdownCall k nl cb) = some s') : CtxInv s' := by
  simp only [step] at h
  split at h
  · rename_i hg; cases h
    refine ctlinv_api (t := ctl s) hi hg.2 ?_ ?_
    · intro j
      show (if j = k then _ else s.shuts j).done = _ → (if j = k then _ else s.shuts j).noLimit = false
      by_cases hj : j = k
      · simp only [if_pos hj]; intro h; cases h
      · simp only [if_neg hj]; exact hi.kindD j
    · intro j
      show (if j = k then _ else s.shuts j).done = _ → (if j = k then _ else s.shuts j).cancellable = true ∨
        (if j = k then _ else s.shuts j).sigs ≠ []
      by_cases hj : j = k
      · simp only [if_pos hj]; intro h; cases h
      · simp only [if_neg hj]; exact hi.kindC j
  · simp at h

theorem ctxinv_closeCall {s s' : State} (k : CallId) (hi : CtxInv s)
    (h : step s (.closeCall k) = some s') : CtxInv s' := by
  simp only [step] at h
  split at h
  · rename_i hg; cases h
    exact ctlinv_api (t := ctl s) hi hg.2 hi.kindD hi.kindC
  · simp at h

theorem ctxinv_ctxExpire {s s' : State} (k : CallId) (hi : CtxInv s)
    (h : step s (.ctxExpire k) = some s') : CtxInv s' := by
  simp only [step] at h
  split at h
  · rename_i hg; cases h
    refine ctlinv_ctx (t := ctl s) (k := k) hi rfl rfl rfl rfl ?_ ?_
    · intro _; exact hg.2
    · intro h0
      apply hi.kindC k
      show (s.shuts k).done = some .cancel
      revert h0; unfold ctxDone; cases (s.shuts k).done <;> simp
  · simp at h

theorem ctxinv_ctxCancel {s s' : State} (k : CallId) (hi : CtxInv s)
    (h : step s (.ctxCancel k) = some s') : CtxInv s' := by
  simp only [step] at h
  split at h
  · rename_i hg; cases h
    refine ctlinv_ctx (t := ctl s) (k := k) hi rfl rfl rfl rfl ?_ ?_
    · intro h0
      apply hi.kindD k
      show (s.shuts k).done = some .deadline
      revert h0; unfold ctxDone; cases (s.shuts k).done <;> simp
    · intro _; exact Or.inl hg.2
  · simp at h

theorem ctxinv_sig {s s' : State} (n : Sig) (k : CallId) (hi : CtxInv s)
    (h : step s (.sig n k) = some s') : CtxInv s' := by
  simp only [step] at h
  split at h
  · rename_i hg; cases h
    refine ctlinv_ctx (t := ctl s) (k := k) hi rfl rfl rfl rfl ?_ ?_
    · intro h0
      apply hi.kindD k
      show (s.shuts k).done = some .deadline
      revert h0; unfold ctxDone; cases (s.shuts k).done <;> simp
    · intro _
      refine Or.inr ?_
      show (s.shuts k).sigs ≠ []
      intro he; rw [he] at hg; simp at hg
  · cases h; exact hi

theorem ctxinv_cancel {s s' : State} (hi : CtxInv s) (h : step s .cancel = some s') : CtxInv s' := by
  simp only [step] at h
  split at h
  · rename_i hg; cases h
    exact ctlinv_early (t := ctl s) (r := .cancelled) hi hg.2 (by simp [ctl, hg.1, runnerPast]) rfl
  · simp at h

theorem ctxinv_runCloseListeners {s s' : State} (hi : CtxInv s) (h : step s .runCloseListeners = some s') :
    CtxInv s' := by
  simp only [step] at h
  split at h
  · rename_i hg; cases h
    have ha : s.api = false := hi.apiRun (by simp [ctl, hg])
    have := ctlinv_early (t := ctl s) (r := .listenersClosed) hi ha (by simp [ctl, hg, runnerPast]) rfl
    split
    · exact this
    · exact this
  · simp at h

/-- the steps of `Shutdown` proper: from a program counter that is neither idle nor final -/
theorem ctxinv_shut {s : State} {k : CallId} {pc : SPC} {sc : Bool} (hi : CtxInv s)
    (h0 : (s.shuts k).pc ≠ .idle) (h1 : (s.shuts k).pc ≠ .doneErr) (h2 : (s.shuts k).pc ≠ .doneNil)
    (hx0 : pc ≠ .idle) (l : Holder) (cl : Bool) :
    CtxInv { setShut s k { s.shuts k with pc := pc, sawClosing := sc } with lock := l, closing := cl } :=
  ctlinv_shutStep (t := ctl s) (k := k) hi h0 h1 h2 hx0 rfl rfl rfl rfl

theorem ctxinv_shutLock {s s' : State} (k : CallId) (hi : CtxInv s)
    (h : step s (.shutLock k) = some s') : CtxInv s' := by
  simp only [step] at h
  split at h
  · rename_i hg; cases h
    exact ctxinv_shut (sc := (s.shuts k).sawClosing) hi (by simp [hg.1]) (by simp [hg.1]) (by simp [hg.1])
      (by simp) _ s.closing
  · simp at h

theorem ctxinv_shutCloseCh {s s' : State} (k : CallId) (hi : CtxInv s)
    (h : step s (.shutCloseCh k) = some s') : CtxInv s' := by
  simp only [step] at h
  split at h
  · rename_i hg; cases h
    exact ctxinv_shut hi (by simp [hg]) (by simp [hg]) (by simp [hg]) (by simp) s.lock true
  · simp at h

theorem ctxinv_shutPoll {s s' : State} (k : CallId) (hi : CtxInv s)
    (h : step s (.shutPoll k) = some s') : CtxInv s' := by
  simp only [step] at h
  split at h
  · rename_i hg; cases h
    exact ctxinv_shut (sc := (s.shuts k).sawClosing) hi (by simp [hg]) (by simp [hg]) (by simp [hg])
      (by split <;> simp) s.lock s.closing
  · simp at h

theorem ctxinv_shutTimer {s s' : State} (k : CallId) (hi : CtxInv s)
    (h : step s (.shutTimer k) = some s') : CtxInv s' := by
  simp only [step] at h
  split at h
  · rename_i hg; cases h
    exact ctxinv_shut (sc := (s.shuts k).sawClosing) hi (by simp [hg]) (by simp [hg]) (by simp [hg])
      (by simp) s.lock s.closing
  · simp at h

theorem ctxinv_shutCtx {s s' : State} (k : CallId) (hi : CtxInv s)
    (h : step s (.shutCtx k) = some s') : CtxInv s' := by
  simp only [step] at h
  split at h
  · rename_i hg; cases h
    exact ctxinv_shut (sc := (s.shuts k).sawClosing) hi (by simp [hg.1]) (by simp [hg.1]) (by simp [hg.1])
      (by simp) s.lock s.closing
  · simp at h

theorem ctxinv_shutUnlock {s s' : State} (k : CallId) (hi : CtxInv s)
    (h : step s (.shutUnlock k) = some s') : CtxInv s' := by
  simp only [step] at h
  split at h
  · rename_i hg; cases h
    exact ctxinv_shut (sc := (s.shuts k).sawClosing) hi (by simp [hg]) (by simp [hg]) (by simp [hg])
      (by simp) .none s.closing
  · split at h
    · rename_i hg; cases h
      exact ctxinv_shut (sc := (s.shuts k).sawClosing) hi (by simp [hg]) (by simp [hg]) (by simp [hg])
        (by simp) .none s.closing
    · simp at h

/-- the steps of `Close` proper -/
theorem ctxinv_close {s : State} {k : CallId} {x : CPC} (hi : CtxInv s)
    (h0 : s.closes k ≠ .idle) (h1 : s.closes k ≠ .done) (hx0 : x ≠ .idle) (l : Holder) (cl : Bool)
    (sw : List ConnId) (ec : Bool) :
    CtxInv { setClose s k x with lock := l, closing := cl, sweepLeft := sw, everClosed := ec } :=
  ctlinv_closeStep (t := ctl s) (k := k) hi h0 h1 hx0

theorem ctxinv_closeLock {s s' : State} (k : CallId) (hi : CtxInv s)
    (h : step s (.closeLock k) = some s') : CtxInv s' := by
  simp only [step] at h
  split at h
  · rename_i hg; cases h
    exact ctxinv_close hi (by simp [hg.1]) (by simp [hg.1]) (by simp) _ s.closing s.sweepLeft s.everClosed
  · simp at h

theorem ctxinv_closeCloseCh {s s' : State} (k : CallId) (hi : CtxInv s)
    (h : step s (.closeCloseCh k) = some s') : CtxInv s' := by
  simp only [step] at h
  split at h
  · rename_i hg; cases h
    exact ctxinv_close hi (by simp [hg]) (by simp [hg]) (by simp) s.lock true s.registered true
  · simp at h

theorem ctxinv_closeAll {s s' : State} (k : CallId) (hi : CtxInv s)
    (h : step s (.closeAll k) = some s') : CtxInv s' := by
  simp only [step] at h
  split at h
  · rename_i hg; cases h
    exact ctxinv_close hi (by simp [hg.1]) (by simp [hg.1]) (by simp) s.lock s.closing s.sweepLeft s.everClosed
  · simp at h

theorem ctxinv_closeUnlock {s s' : State} (k : CallId) (hi : CtxInv s)
    (h : step s (.closeUnlock k) = some s') : CtxInv s' := by
  simp only [step] at h
  split at h
  · rename_i hg; cases h
    exact ctxinv_close hi (by simp [hg]) (by simp [hg]) (by simp) .none s.closing s.sweepLeft s.everClosed
  · simp at h

theorem ctxinv_runShutdown {s s' : State} (k : CallId) (hi : CtxInv s)
    (h : step s (.runShutdown k) = some s') : CtxInv s' := by
  simp only [step] at h
  split at h
  · rename_i hg; cases h
    have ha : s.api = false := hi.apiRun (by simp [ctl, hg.1])
    obtain ⟨hs, hc⟩ := ctlinv_noCalls (t := ctl s) hi ha (by simp [ctl, hg.1, runnerPast])
    refine ⟨?_, ?_, fun _ => ha, ?_, ?_, ?_, ?_, ?_⟩
    · intro j
      show (if j = k then _ else s.shuts j).done = _ → (if j = k then _ else s.shuts j).noLimit = false
      by_cases hj : j = k
      · simp only [if_pos hj]; intro h; cases h
      · simp only [if_neg hj]; exact hi.kindD j
    · intro j
      show (if j = k then _ else s.shuts j).done = _ → (if j = k then _ else s.shuts j).cancellable = true ∨
        (if j = k then _ else s.shuts j).sigs ≠ []
      by_cases hj : j = k
      · simp only [if_pos hj]; intro h; cases h
      · simp only [if_neg hj]; exact hi.kindC j
    · intro _ j
      show (if j = k then _ else s.shuts j).pc ≠ .idle → _ ∧ j = k
      by_cases hj : j = k
      · intro _; exact ⟨rfl, hj⟩
      · simp only [if_neg hj]; intro h; exact absurd (hs j) h
    · intro _ j hj; exact absurd (hc j) hj
    · intro _
      show (if k = k then _ else s.shuts k).pc ≠ .idle ∧ (if k = k then _ else s.shuts k).noLimit = s.cfgNoLimit ∧
        (if k = k then _ else s.shuts k).cancellable = false ∧ (if k = k then _ else s.shuts k).sigs = s.cfgSignals
      simp
    · intro h; cases h
    · intro h; cases h
  · simp at h

theorem ctxinv_runAfterShutdown {s s' : State} (k : CallId) (hi : CtxInv s)
    (h : step s (.runAfterShutdown k) = some s') : CtxInv s' := by
  simp only [step] at h
  split at h
  · rename_i hg; cases h
    have ha : s.api = false := hi.apiRun (by simp [ctl, hg.1])
    refine ⟨hi.kindD, hi.kindC, fun _ => ha, ?_, ?_, ?_, ?_, ?_⟩
    · intro _ j hj; exact ⟨rfl, (hi.onlyS ha j hj).2⟩
    · intro _ j hj
      have := (hi.onlyC ha j hj).1
      rcases this with h | h <;> (rw [show (ctl s).runner = s.runner from rfl, hg.1] at h; cases h)
    · intro _; exact hi.kind (by simp [ctl, hg.1, runnerPast])
    · intro h; cases h
    · intro _; exact Or.inl hg.2
  · split at h
    · rename_i hg; cases h
      have ha : s.api = false := hi.apiRun (by simp [ctl, hg.1])
      have hnoc : ∀ j, s.closes j = .idle := by
        intro j
        cases hc : s.closes j with
        | idle => rfl
        | _ =>
          have := (hi.onlyC ha j (by rw [show (ctl s).closes j = s.closes j from rfl, hc]; simp)).1
          rcases this with h | h <;> (rw [show (ctl s).runner = s.runner from rfl, hg.1] at h; cases h)
      refine ⟨hi.kindD, hi.kindC, fun _ => ha, ?_, ?_, ?_, ?_, ?_⟩
      · intro _ j hj; exact ⟨rfl, (hi.onlyS ha j hj).2⟩
      · intro _ j
        show (if j = k then _ else s.closes j) ≠ .idle → _ ∧ j = k ∧ _
        by_cases hj : j = k
        · intro _; exact ⟨Or.inl rfl, hj, hg.2.1⟩
        · simp only [if_neg hj]; intro h; exact absurd (hnoc j) h
      · intro _; exact hi.kind (by simp [ctl, hg.1, runnerPast])
      · intro _
        refine ⟨hg.2.1, ?_⟩
        show (if k = k then CPC.waitingForLock else s.closes k) ≠ .idle
        simp
      · intro h; cases h
    · simp at h

theorem ctxinv_runAfterClose {s s' : State} (hi : CtxInv s) (h : step s .runAfterClose = some s') :
    CtxInv s' := by
  simp only [step] at h
  split at h
  · rename_i hg; cases h
    have ha : s.api = false := hi.apiRun (by simp [ctl, hg.1])
    have hic := hi.inClose hg.1
    refine ⟨hi.kindD, hi.kindC, fun _ => ha, ?_, ?_, ?_, ?_, ?_⟩
    · intro _ j hj; exact ⟨rfl, (hi.onlyS ha j hj).2⟩
    · intro _ j hj
      obtain ⟨_, a2, a3⟩ := hi.onlyC ha j hj
      exact ⟨Or.inr rfl, a2, a3⟩
    · intro _; exact hi.kind (by simp [ctl, hg.1, runnerPast])
    · intro h; cases h
    · intro _; exact Or.inr ⟨hic.1, hg.2⟩
  · simp at h

theorem ctxinv_step {s s' : State} (a : Action) (hi : CtxInv s) (h : step s a = some s') : CtxInv s' := by
  cases a with
  | shutdownCall k nl cb => exact ctxinv_shutdownCall k nl cb hi h
  | closeCall k => exact ctxinv_closeCall k hi h
  | ctxExpire k => exact ctxinv_ctxExpire k hi h
  | ctxCancel k => exact ctxinv_ctxCancel k hi h
  | sig n k => exact ctxinv_sig n k hi h
  | cancel => exact ctxinv_cancel hi h
  | shutLock k => exact ctxinv_shutLock k hi h
  | shutCloseCh k => exact ctxinv_shutCloseCh k hi h
  | shutPoll k => exact ctxinv_shutPoll k hi h
  | shutTimer k => exact ctxinv_shutTimer k hi h
  | shutCtx k => exact ctxinv_shutCtx k hi h
  | shutUnlock k => exact ctxinv_shutUnlock k hi h
  | closeLock k => exact ctxinv_closeLock k hi h
  | closeCloseCh k => exact ctxinv_closeCloseCh k hi h
  | closeAll k => exact ctxinv_closeAll k hi h
  | closeUnlock k => exact ctxinv_closeUnlock k hi h
  | runCloseListeners => exact ctxinv_runCloseListeners hi h
  | runShutdown k => exact ctxinv_runShutdown k hi h
  | runAfterShutdown k => exact ctxinv_runAfterShutdown k hi h
  | runAfterClose => exact ctxinv_runAfterClose hi h
  | _ =>
    unfold CtxInv
    rw [step_env_ctl _ h rfl]; exact hi

theorem ctxinv_reachable {s : State} (h : Reachable s) : CtxInv s := by
  induction h with
  | start nl sg => exact ctxinv_initCfg nl sg
  | step a _ hs ih => exact ctxinv_step a ih hs

/-- the call of `Shutdown` whose record an action changes -/
def Action.shutOf : Action → Option CallId
  | .shutdownCall k _ _ | .ctxExpire k | .ctxCancel k | .sig _ k | .shutLock k | .shutCloseCh k | .shutPoll k
  | .shutTimer k | .shutCtx k | .shutUnlock k | .runShutdown k => some k
  | _ => none

/-- the call of `Close` whose program counter an action changes -/
def Action.closeOf : Action → Option CallId
  | .closeCall k | .closeLock k | .closeCloseCh k | .closeAll k | .closeUnlock k | .runAfterShutdown k => some k
  | _ => none

/-- the record of call `k` of `Shutdown` is changed only by the actions of that call -/
theorem step_shuts_other {s s' : State} (a : Action) (k : CallId) (h : step s a = some s')
    (ha : a.shutOf ≠ some k) : s'.shuts k = s.shuts k := by
  by_cases he : a.isEnv = true
  · have := step_env_ctl a h he
    exact congrFun (congrArg Ctl.shuts this) k
  · cases a <;> first | (exact absurd rfl he) | skip
    all_goals simp only [Action.shutOf, ne_eq, Option.some.injEq] at ha <;>
      simp only [step] at h <;> (repeat' split at h) <;>
      first
        | (simp at h; done)
        | (simp only [Option.some.injEq] at h; subst h
           first
             | rfl
             | (show (if k = _ then _ else s.shuts k) = s.shuts k
                exact if_neg (fun e => ha e.symm))
             | (simp only [closeListener]; done)
             | (split <;> rfl))

/-- … and the program counter of call `k` of `Close` only by the actions of that call -/
theorem step_closes_other {s s' : State} (a : Action) (k : CallId) (h : step s a = some s')
    (ha : a.closeOf ≠ some k) : s'.closes k = s.closes k := by
  by_cases he : a.isEnv = true
  · have := step_env_ctl a h he
    exact congrFun (congrArg Ctl.closes this) k
  · cases a <;> first | (exact absurd rfl he) | skip
    all_goals simp only [Action.closeOf, ne_eq, Option.some.injEq] at ha <;>
      simp only [step] at h <;> (repeat' split at h) <;>
      first
        | (simp at h; done)
        | (simp only [Option.some.injEq] at h; subst h
           first
             | rfl
             | (show (if k = _ then _ else s.closes k) = s.closes k
                exact if_neg (fun e => ha e.symm))
             | (simp only [closeListener]; done)
             | (split <;> rfl))

/-- what one step does to the program counter of call `k` of `Shutdown` while it waits: nothing,
    except that call's own poll / timer / context branch -/
theorem step_shut_waiting {s s' : State} (k : CallId) (a : Action) (h : step s a = some s')
    (hw : (s.shuts k).pc = .polling ∨ (s.shuts k).pc = .selecting) :
    (a = .shutPoll k ∧ (s'.shuts k).pc = (if s.counter = 0 then .retNil else .selecting)) ∨
    (a = .shutTimer k ∧ (s'.shuts k).pc = .polling) ∨
    (a = .shutCtx k ∧ (s.shuts k).done.isSome = true ∧ (s'.shuts k).pc = .retErr) ∨
    (a ≠ .shutPoll k ∧ a ≠ .shutCtx k ∧ (s'.shuts k).pc = (s.shuts k).pc) := by
  by_cases ho : a.shutOf = some k
  · cases a <;> simp only [Action.shutOf, Option.some.injEq, reduceCtorEq] at ho <;> subst ho <;>
      simp only [step] at h <;> (repeat' split at h) <;>
      first
        | (simp at h; done)
        | (simp only [Option.some.injEq] at h; subst h
           rcases hw with hw | hw <;> simp_all [setShut, ctxDone])
  · right; right; right
    refine ⟨?_, ?_, by rw [step_shuts_other a k h ho]⟩
    · intro e; rw [e] at ho; exact ho rfl
    · intro e; rw [e] at ho; exact ho rfl

/-- the context of a call is of one kind, fixed at the call, and it stays done for the reason for
    which it became done -/
theorem step_ctx_fixed {s s' : State} (k : CallId) (a : Action) (h : step s a = some s')
    (hc : (s.shuts k).pc ≠ .idle) :
    (s'.shuts k).noLimit = (s.shuts k).noLimit ∧ (s'.shuts k).cancellable = (s.shuts k).cancellable ∧
      (s'.shuts k).sigs = (s.shuts k).sigs ∧
      ∀ w, (s.shuts k).done = some w → (s'.shuts k).done = some w := by
  by_cases ho : a.shutOf = some k
  · cases a <;> simp only [Action.shutOf, Option.some.injEq, reduceCtorEq] at ho <;> subst ho <;>
      simp only [step] at h <;> (repeat' split at h) <;>
      first
        | (simp at h; done)
        | (simp only [Option.some.injEq] at h; subst h
           simp_all [setShut, ctxDone]; done)
        | (simp only [Option.some.injEq] at h; subst h
           refine ⟨by simp [setShut, ctxDone], by simp [setShut, ctxDone], by simp [setShut, ctxDone], ?_⟩
           intro w hw; simp [setShut, ctxDone, hw])
  · rw [step_shuts_other a k h ho]; exact ⟨rfl, rfl, rfl, fun _ h => h⟩

/-- how call `k` of `Shutdown` comes to `return nil` / to `return ctx.Err()`: by its OWN poll finding the
    counter at 0, resp. by its own `select` finding its own context done — never by a step of anybody else -/
theorem step_shut_reaches {s s' : State} (k : CallId) (a : Action) (h : step s a = some s') :
    ((s'.shuts k).pc = .retNil → (s.shuts k).pc ≠ .retNil →
      a = .shutPoll k ∧ s.counter = 0 ∧ (s.shuts k).pc = .polling) ∧
    ((s'.shuts k).pc = .retErr → (s.shuts k).pc ≠ .retErr →
      a = .shutCtx k ∧ (s.shuts k).done.isSome = true ∧ (s.shuts k).pc = .selecting) := by
  by_cases ho : a.shutOf = some k
  · cases a <;> simp only [Action.shutOf, Option.some.injEq, reduceCtorEq] at ho <;> subst ho <;>
      simp only [step] at h <;> (repeat' split at h) <;>
      first
        | (simp at h; done)
        | (simp only [Option.some.injEq] at h; subst h
           constructor <;> intro h1 h2 <;> simp_all [setShut, ctxDone]
           done)
        | (simp only [Option.some.injEq] at h; subst h
           by_cases h0 : s.counter = 0 <;> constructor <;> intro h1 h2 <;> simp_all [setShut, ctxDone])
  · rw [step_shuts_other a k h ho]
    exact ⟨fun h1 h2 => absurd h1 h2, fun h1 h2 => absurd h1 h2⟩

/-- `closing` is set once and for all -/
theorem step_closing_mono {s s' : State} (a : Action) (h : step s a = some s') (hc : s.closing = true) :
    s'.closing = true := by
  cases a with
  | conn c a =>
    obtain ⟨x, e, _, rfl⟩ := step_conn_eq h
    cases e <;> exact hc
  | _ =>
    simp only [step] at h
    repeat' split at h
    all_goals first
      | (simp at h; done)
      | (simp only [Option.some.injEq] at h; subst h
         first | exact hc | rfl | (simp only [closeListener, setConn]; exact hc) | (split <;> first | exact hc | rfl))

end C11
end FwdVerif
