/-
  C11 — helper lemmas (part 5): the context handed to `Shutdown` and the control flow of the
  goroutine of `HTTPProxy.run`.  A second, small invariant over the control part of the state
  (`shut`, `close`, `runner`, `ctxExpired`, `noLimit`): no connection step touches it.
-/
import FwdVerif.Lemmas.C11Inv

namespace FwdVerif
namespace C11

/-- the control part of the state -/
structure Ctl where
  shut : SPC
  close : CPC
  runner : RPC
  ctxExpired : Bool
  noLimit : Bool

def ctl (s : State) : Ctl := ⟨s.shut, s.close, s.runner, s.ctxExpired, s.noLimit⟩

theorem applyEff_ctl (s : State) (c : ConnId) (e : Eff) : ctl (applyEff s c e) = ctl s := by
  cases e <;> rfl

/-- a step of a connection's goroutine leaves the control part alone -/
theorem step_conn_ctl {s s' : State} {c : ConnId} {a : CAct} (h : step s (.conn c a) = some s') :
    s'.shut = s.shut ∧ s'.close = s.close ∧ s'.runner = s.runner ∧ s'.ctxExpired = s.ctxExpired ∧
      s'.noLimit = s.noLimit := by
  obtain ⟨x, e, _, rfl⟩ := step_conn_eq h
  have := applyEff_ctl (setConn s c x) c e
  simp only [ctl, setConn, Ctl.mk.injEq] at this
  exact this

/-- the kind of context never changes -/
theorem step_noLimit {s s' : State} (a : Action) (h : step s a = some s') : s'.noLimit = s.noLimit := by
  cases a with
  | conn c a => exact (step_conn_ctl h).2.2.2.2
  | _ =>
    simp only [step] at h
    repeat' split at h
    all_goals first
      | (simp at h; done)
      | (simp only [Option.some.injEq] at h; subst h; first | rfl | (simp only [closeListener, setConn]; done) | (split <;> rfl))

structure CtxInv (s : State) : Prop where
  /-- a context without deadline has not expired -/
  noExpiry : s.noLimit = true → s.ctxExpired = false
  /-- once `run` is under way, `Close` runs only after `Shutdown` returned the context's error -/
  runClose : s.runner ≠ .idle → s.close ≠ .idle → s.shut = .doneErr
  /-- `run` is in its call of `Close` only when `Close` was really called -/
  inClose : s.runner = .inClose → s.close ≠ .idle
  /-- `run` returns after `Shutdown` returned nil, or after `Close` returned -/
  fin : s.runner = .finished → s.shut = .doneNil ∨ s.close = .done
  /-- `run` is past the listeners only with `Shutdown` called -/
  past : (s.runner = .inShutdown ∨ s.runner = .inClose ∨ s.runner = .finished) → s.shut ≠ .idle

theorem ctxinv_init : CtxInv init := by
  constructor <;> simp [init]

theorem ctxinv_initNoLimit : CtxInv initNoLimit := by
  constructor <;> simp [initNoLimit]

theorem ctxinv_step {s s' : State} (a : Action) (hi : CtxInv s) (h : step s a = some s') : CtxInv s' := by
  obtain ⟨h1, h2, h3, h4, h5⟩ := hi
  cases a with
  | conn c a =>
    obtain ⟨e1, e2, e3, e4, e5⟩ := step_conn_ctl h
    constructor <;> simp_all
  | _ =>
    simp only [step] at h
    repeat' split at h
    all_goals first
      | (simp at h; done)
      | (simp only [Option.some.injEq] at h; subst h
         constructor <;> (try split) <;> simp_all [closeListener, setConn])

theorem ctxinv_reachable {s : State} (h : Reachable s) : CtxInv s := by
  induction h with
  | init => exact ctxinv_init
  | initNoLimit => exact ctxinv_initNoLimit
  | step a _ hs ih => exact ctxinv_step a ih hs

/-- what one step does to the program counter of `Shutdown` while it waits: nothing, except
    Shutdown's own poll / timer / context branch -/
theorem step_shut_waiting {s s' : State} (a : Action) (h : step s a = some s')
    (hw : s.shut = .polling ∨ s.shut = .selecting) :
    (a = .shutPoll ∧ s'.shut = (if s.counter = 0 then .retNil else .selecting)) ∨
    (a = .shutTimer ∧ s'.shut = .polling) ∨
    (a = .shutCtx ∧ s.ctxExpired = true ∧ s'.shut = .retErr) ∨
    (a ≠ .shutPoll ∧ a ≠ .shutCtx ∧ s'.shut = s.shut) := by
  cases a with
  | conn c a => right; right; right; exact ⟨by simp, by simp, (step_conn_ctl h).1⟩
  | _ =>
    simp only [step] at h
    repeat' split at h
    all_goals first
      | (simp at h; done)
      | (simp only [Option.some.injEq] at h; subst h
         rcases hw with hw | hw <;> (try split) <;> simp_all [closeListener, setConn])

end C11
end FwdVerif
