/-
  C14 — `isInNetEx`: `CIDRMask`, the comparison loop of `IPNet.Contains` as equality of the first
  `n` bits, and the family dispatch (`To4`) of `Contains`.
-/
import FwdVerif.Spec.C14
namespace FwdVerif
namespace C14

open Ascii

/-- the mask byte with `k` leading ones -/
def mbyte (k : Nat) : Nat := 255 - (255 >>> k)

theorem mbyte_testBit_lt : ∀ k : Fin 9, ∀ i : Fin 8, (mbyte k.val).testBit i.val = decide (8 - k.val ≤ i.val) := by
  decide

theorem mbyte_lt (k : Nat) : mbyte k < 256 := by
  unfold mbyte
  have : 255 - 255 >>> k ≤ 255 := Nat.sub_le _ _
  omega

theorem mbyte_testBit (k i : Nat) (hk : k ≤ 8) : (mbyte k).testBit i = (decide (8 - k ≤ i) && decide (i < 8)) := by
  by_cases hi : i < 8
  · have := mbyte_testBit_lt ⟨k, by omega⟩ ⟨i, hi⟩
    simp only at this
    simp [this, hi]
  · have : (mbyte k).testBit i = false := by
      apply Nat.testBit_lt_two_pow
      exact Nat.lt_of_lt_of_le (mbyte_lt k) (by
        have : 2 ^ 8 ≤ 2 ^ i := Nat.pow_le_pow_right (by omega) (by omega)
        simpa using this)
    simp [this, hi]

theorem and_eq_and_iff (h p m : Nat) :
    (h &&& m) = (p &&& m) ↔ ∀ i, m.testBit i = true → h.testBit i = p.testBit i := by
  constructor
  · intro e i hmi
    have := congrArg (fun x => x.testBit i) e
    simpa [Nat.testBit_and, hmi] using this
  · intro hb
    apply Nat.eq_of_testBit_eq
    intro i
    simp only [Nat.testBit_and]
    cases hmi : m.testBit i
    · simp
    · simp [hb i hmi]

theorem byte_cmp (v w k : Nat) (hk : k ≤ 8) :
    (((v &&& mbyte k) &&& mbyte k) == (w &&& mbyte k)) = true ↔
      ∀ j, j < k → v.testBit (7 - j) = w.testBit (7 - j) := by
  rw [Nat.and_assoc, Nat.and_self, beq_iff_eq, and_eq_and_iff]
  constructor
  · intro h j hj
    apply h (7 - j)
    rw [mbyte_testBit _ _ hk]
    simp; omega
  · intro h i hi
    rw [mbyte_testBit _ _ hk] at hi
    simp at hi
    have := h (7 - i) (by omega)
    have e : 7 - (7 - i) = i := by omega
    rwa [e] at this

theorem cidrMask_succ (l k : Nat) : cidrMask (l + 1) k = mbyte (min k 8) :: cidrMask l (k - 8) := by
  rw [cidrMask]
  by_cases h : k ≥ 8
  · have : min k 8 = 8 := by omega
    simp [h, this, mbyte]
  · have h1 : min k 8 = k := by omega
    have h2 : k - 8 = 0 := by omega
    simp [h, h1, h2, mbyte]

theorem cidrMask_length (l : Nat) : ∀ k, (cidrMask l k).length = l := by
  induction l with
  | zero => intro k; simp [cidrMask]
  | succ l ih => intro k; rw [cidrMask_succ]; simp [ih]

/-- the comparison loop of `IPNet.Contains` -/
def cmpBytes (nn m x : List Nat) : Bool :=
  (List.zip nn (List.zip m x)).all (fun t => (t.1 &&& t.2.1) == (t.2.2 &&& t.2.1))

theorem bitAt_cons_lt (x0 : Nat) (x' : List Nat) (j : Nat) (hj : j < 8) :
    bitAt (x0 :: x') j = x0.testBit (7 - j) := by
  unfold bitAt
  have h1 : j / 8 = 0 := by omega
  have h2 : j % 8 = j := by omega
  simp [h1, h2]

theorem bitAt_cons_ge (x0 : Nat) (x' : List Nat) (j : Nat) :
    bitAt (x0 :: x') (j + 8) = bitAt x' j := by
  unfold bitAt
  have h1 : (j + 8) / 8 = j / 8 + 1 := by omega
  have h2 : (j + 8) % 8 = j % 8 := by omega
  simp [h1, h2]

theorem prefixEq_cons (k x0 a0 : Nat) (x' a' : List Nat) :
    prefixEq k (x0 :: x') (a0 :: a') ↔
      (∀ j, j < min k 8 → x0.testBit (7 - j) = a0.testBit (7 - j)) ∧ prefixEq (k - 8) x' a' := by
  unfold prefixEq
  constructor
  · intro h
    constructor
    · intro j hj
      have := h j (by omega)
      rwa [bitAt_cons_lt _ _ _ (by omega), bitAt_cons_lt _ _ _ (by omega)] at this
    · intro j hj
      have := h (j + 8) (by omega)
      rwa [bitAt_cons_ge, bitAt_cons_ge] at this
  · rintro ⟨h1, h2⟩ j hj
    by_cases hj8 : j < 8
    · rw [bitAt_cons_lt _ _ _ hj8, bitAt_cons_lt _ _ _ hj8]
      exact h1 j (by omega)
    · have e : j = (j - 8) + 8 := by omega
      rw [e, bitAt_cons_ge, bitAt_cons_ge]
      exact h2 (j - 8) (by omega)

theorem cmp_mask_iff : ∀ (l k : Nat) (a x : List Nat), a.length = l → x.length = l →
    (cmpBytes (andBytes a (cidrMask l k)) (cidrMask l k) x = true ↔ prefixEq k x a) := by
  intro l
  induction l with
  | zero =>
    intro k a x ha hx
    have : a = [] := List.eq_nil_of_length_eq_zero ha
    have : x = [] := List.eq_nil_of_length_eq_zero hx
    subst_vars
    simp [cmpBytes, andBytes, cidrMask, prefixEq]
  | succ l ih =>
    intro k a x ha hx
    cases a with
    | nil => simp at ha
    | cons a0 a' =>
      cases x with
      | nil => simp at hx
      | cons x0 x' =>
        rw [cidrMask_succ, prefixEq_cons]
        have ha' : a'.length = l := by simpa using ha
        have hx' : x'.length = l := by simpa using hx
        have := ih (k - 8) a' x' ha' hx'
        simp only [cmpBytes, andBytes, List.zipWith_cons_cons, List.zip_cons_cons, List.all_cons,
          Bool.and_eq_true] at this ⊢
        rw [this, byte_cmp a0 x0 (min k 8) (by omega)]
        constructor
        · rintro ⟨h1, h2⟩; exact ⟨fun j hj => (h1 j hj).symm, h2⟩
        · rintro ⟨h1, h2⟩; exact ⟨fun j hj => (h1 j hj).symm, h2⟩


theorem list16 (a : List Nat) (hl : a.length = 16) : ∃ a0 a1 a2 a3 a4 a5 a6 a7 a8 a9 a10 a11 a12 a13 a14 a15, a = [a0, a1, a2, a3, a4, a5, a6, a7, a8, a9, a10, a11, a12, a13, a14, a15] := by
  rcases a with _ | ⟨a0, a⟩
  · simp at hl
  rcases a with _ | ⟨a1, a⟩
  · simp at hl
  rcases a with _ | ⟨a2, a⟩
  · simp at hl
  rcases a with _ | ⟨a3, a⟩
  · simp at hl
  rcases a with _ | ⟨a4, a⟩
  · simp at hl
  rcases a with _ | ⟨a5, a⟩
  · simp at hl
  rcases a with _ | ⟨a6, a⟩
  · simp at hl
  rcases a with _ | ⟨a7, a⟩
  · simp at hl
  rcases a with _ | ⟨a8, a⟩
  · simp at hl
  rcases a with _ | ⟨a9, a⟩
  · simp at hl
  rcases a with _ | ⟨a10, a⟩
  · simp at hl
  rcases a with _ | ⟨a11, a⟩
  · simp at hl
  rcases a with _ | ⟨a12, a⟩
  · simp at hl
  rcases a with _ | ⟨a13, a⟩
  · simp at hl
  rcases a with _ | ⟨a14, a⟩
  · simp at hl
  rcases a with _ | ⟨a15, a⟩
  · simp at hl
  rcases a with _ | ⟨x, a⟩
  · exact ⟨a0, a1, a2, a3, a4, a5, a6, a7, a8, a9, a10, a11, a12, a13, a14, a15, rfl⟩
  · simp at hl

theorem list4 (a : List Nat) (hl : a.length = 4) : ∃ a0 a1 a2 a3, a = [a0, a1, a2, a3] := by
  rcases a with _ | ⟨a0, _ | ⟨a1, _ | ⟨a2, _ | ⟨a3, _ | ⟨x, t⟩⟩⟩⟩⟩ <;> simp at hl
  exact ⟨a0, a1, a2, a3, rfl⟩

theorem mbyte_eq_255 (t : Nat) : mbyte (min t 8) = 255 ↔ t ≥ 8 := by
  have key : ∀ j : Fin 9, mbyte j.val = 255 ↔ j.val = 8 := by decide
  have := key ⟨min t 8, by omega⟩
  simp only at this
  rw [this]; omega

theorem and255' (x : Nat) (h : x < 256) : x &&& 255 = x := by
  have := Nat.and_two_pow_sub_one_eq_mod x 8
  simp at this
  rw [this]; omega

theorem and_eq_255 (x m : Nat) (hx : x < 256) (hm : m < 256) (h : x &&& m = 255) : x = 255 ∧ m = 255 := by
  have h1 : x &&& m ≤ x := Nat.and_le_left
  have h2 : x &&& m ≤ m := Nat.and_le_right
  omega

theorem to4_16 (y : List Nat) (hl : y.length = 16) :
    to4 y = if y.take 12 == v4InV6Prefix then some (y.drop 12) else none := by
  unfold to4; simp [hl]

theorem andBytes_length (a m : List Nat) : (andBytes a m).length = min a.length m.length := by
  simp [andBytes]

theorem masked_not_mapped (a : List Nat) (k : Nat) (hl : a.length = 16) (hb : ∀ v ∈ a, v < 256)
    (h : to4 a = none) : to4 (andBytes a (cidrMask 16 k)) = none := by
  have hlen : (andBytes a (cidrMask 16 k)).length = 16 := by
    rw [andBytes_length, cidrMask_length, hl]; rfl
  rw [to4_16 _ hlen]
  rw [to4_16 _ hl] at h
  obtain ⟨a0, a1, a2, a3, a4, a5, a6, a7, a8, a9, a10, a11, a12, a13, a14, a15, rfl⟩ := list16 a hl
  have b0 := hb a0 (by simp); have b1 := hb a1 (by simp); have b2 := hb a2 (by simp)
  have b3 := hb a3 (by simp); have b4 := hb a4 (by simp); have b5 := hb a5 (by simp)
  have b6 := hb a6 (by simp); have b7 := hb a7 (by simp); have b8 := hb a8 (by simp)
  have b9 := hb a9 (by simp); have b10 := hb a10 (by simp); have b11 := hb a11 (by simp)
  simp only [cidrMask_succ, andBytes, List.zipWith_cons_cons] at *
  simp only [List.take_succ_cons, List.take_zero, v4InV6Prefix] at h ⊢
  apply if_neg
  · intro hc
    simp only [beq_iff_eq, List.cons.injEq, and_true] at hc
    obtain ⟨c0, c1, c2, c3, c4, c5, c6, c7, c8, c9, c10, c11⟩ := hc
    have m10 := (and_eq_255 _ _ b10 (mbyte_lt _) c10)
    have m11 := (and_eq_255 _ _ b11 (mbyte_lt _) c11)
    have hk : k - 8 - 8 - 8 - 8 - 8 - 8 - 8 - 8 - 8 - 8 ≥ 8 := (mbyte_eq_255 _).mp m10.2
    have f : ∀ t, t ≥ 8 → mbyte (min t 8) = 255 := fun t ht => (mbyte_eq_255 t).mpr ht
    rw [f _ (by omega), and255' _ b0] at c0
    rw [f _ (by omega), and255' _ b1] at c1
    rw [f _ (by omega), and255' _ b2] at c2
    rw [f _ (by omega), and255' _ b3] at c3
    rw [f _ (by omega), and255' _ b4] at c4
    rw [f _ (by omega), and255' _ b5] at c5
    rw [f _ (by omega), and255' _ b6] at c6
    rw [f _ (by omega), and255' _ b7] at c7
    rw [f _ (by omega), and255' _ b8] at c8
    rw [f _ (by omega), and255' _ b9] at c9
    subst c0 c1 c2 c3 c4 c5 c6 c7 c8 c9
    rw [m10.1, m11.1] at h
    simp at h


theorem to4_len4 (y : List Nat) (hl : y.length = 4) : to4 y = some y := by
  unfold to4; simp [hl]

theorem to4_mapped (h : List Nat) (hl : h.length = 4) : to4 (v4InV6Prefix ++ h) = some h := by
  obtain ⟨a0, a1, a2, a3, rfl⟩ := list4 h hl
  simp [to4, v4InV6Prefix]

theorem contains_v4 (h a : List Nat) (k : Nat) (hh : h.length = 4) (ha : a.length = 4) :
    IPNet.contains { ip := andBytes a (cidrMask 4 k), mask := cidrMask 4 k } (v4InV6Prefix ++ h) = true ↔
      prefixEq k h a := by
  have hlen : (andBytes a (cidrMask 4 k)).length = 4 := by
    rw [andBytes_length, cidrMask_length, ha]; rfl
  unfold IPNet.contains
  simp only [to4_len4 _ hlen, to4_mapped h hh, Option.getD_some, cidrMask_length, hlen, hh]
  have := cmp_mask_iff 4 k a h ha hh
  unfold cmpBytes at this
  simpa using this

theorem contains_v6 (x a : List Nat) (k : Nat) (hx : x.length = 16) (ha : a.length = 16)
    (hb : ∀ v ∈ a, v < 256) (hx4 : to4 x = none) (ha4 : to4 a = none) :
    IPNet.contains { ip := andBytes a (cidrMask 16 k), mask := cidrMask 16 k } x = true ↔
      prefixEq k x a := by
  have hlen : (andBytes a (cidrMask 16 k)).length = 16 := by
    rw [andBytes_length, cidrMask_length, ha]; rfl
  unfold IPNet.contains
  simp only [masked_not_mapped a k ha hb ha4, hx4, Option.getD_none, cidrMask_length, hlen, hx]
  have := cmp_mask_iff 16 k a x ha hx
  unfold cmpBytes at this
  simpa using this

theorem contains_v4host_v6net (h a : List Nat) (k : Nat) (hh : h.length = 4) (ha : a.length = 16)
    (hb : ∀ v ∈ a, v < 256) (ha4 : to4 a = none) :
    IPNet.contains { ip := andBytes a (cidrMask 16 k), mask := cidrMask 16 k } (v4InV6Prefix ++ h) = false := by
  have hlen : (andBytes a (cidrMask 16 k)).length = 16 := by
    rw [andBytes_length, cidrMask_length, ha]; rfl
  unfold IPNet.contains
  simp [masked_not_mapped a k ha hb ha4, to4_mapped h hh, hlen, hh]

theorem contains_v6host_v4net (x a : List Nat) (k : Nat) (hx : x.length = 16) (ha : a.length = 4)
    (hx4 : to4 x = none) :
    IPNet.contains { ip := andBytes a (cidrMask 4 k), mask := cidrMask 4 k } x = false := by
  have hlen : (andBytes a (cidrMask 4 k)).length = 4 := by
    rw [andBytes_length, cidrMask_length, ha]; rfl
  unfold IPNet.contains
  simp [to4_len4 _ hlen, hx4, hlen, hx]

theorem parseAddr_true (s : Bytes) (ip : IP) (h : parseAddr s = some (true, ip)) :
    ∃ f, ip = v4InV6Prefix ++ f := by
  unfold parseAddr at h
  split at h
  · simp at h
  · split at h
    · simp at h
    · split at h
      · cases hp : parseV4 s with
        | none => simp [hp] at h
        | some f => simp [hp] at h; exact ⟨f, h.symm⟩
      · cases hp : parseV6 s with
        | none => simp [hp] at h
        | some f => simp [hp] at h

theorem wf_len (ip : List Nat) (h : wfOctets ip = true) : ip.length = 16 ∧ ∀ v ∈ ip, v < 256 := by
  unfold wfOctets at h
  simp only [Bool.and_eq_true, beq_iff_eq, List.all_eq_true, decide_eq_true_eq] at h
  exact h

/-- what `familyOctets` tells about `parseAddr` -/
theorem familyOctets_cases (s : Bytes) (o : List Nat) (h : familyOctets s = some o) :
    (o.length = 4 ∧ parseAddr s = some (true, v4InV6Prefix ++ o)) ∨
    (o.length = 16 ∧ (∀ v ∈ o, v < 256) ∧ to4 o = none ∧ parseAddr s = some (false, o)) := by
  unfold familyOctets at h
  cases hp : parseAddr s with
  | none => simp [hp] at h
  | some bi =>
    obtain ⟨b, ip⟩ := bi
    cases b with
    | true =>
      simp only [hp] at h
      split at h
      · rename_i hw
        obtain ⟨f, rfl⟩ := parseAddr_true s ip hp
        have hl := (wf_len _ hw).1
        simp only [Option.some.injEq] at h
        have : o = f := by rw [← h]; simp [v4InV6Prefix]
        subst this
        left
        refine ⟨?_, rfl⟩
        simp [v4InV6Prefix] at hl; omega
      · simp at h
    | false =>
      simp only [hp] at h
      split at h
      · rename_i hw
        simp only [Bool.and_eq_true, Bool.not_eq_true'] at hw
        simp only [Option.some.injEq] at h
        subst h
        right
        have hl := wf_len _ hw.1
        refine ⟨hl.1, hl.2, ?_, rfl⟩
        have := hw.2
        unfold isV4 at this
        cases ht : to4 ip with
        | none => rfl
        | some y => simp [ht] at this
      · simp at h

theorem isInNetEx_spec (x c addr m : Bytes) (xo ao : List Nat)
    (hc : cutAt 47 c = some (addr, m)) (hx : familyOctets x = some xo) (ha : familyOctets addr = some ao)
    (hm : (m.isEmpty || !m.all isDigit || decide (decVal m > 8 * ao.length)) = false) :
    isInNetEx x c = (if xo.length != ao.length then false else decide (prefixEq (decVal m) xo ao)) := by
  simp only [Bool.or_eq_false_iff, decide_eq_false_iff_not] at hm
  obtain ⟨⟨hm1, hm2⟩, hm3⟩ := hm
  unfold isInNetEx parseIP parseCIDR
  rw [hc]
  rcases familyOctets_cases x xo hx with ⟨hxl, hpx⟩ | ⟨hxl, hxb, hx4, hpx⟩ <;>
  rcases familyOctets_cases addr ao ha with ⟨hal, hpa⟩ | ⟨hal, hab, ha4, hpa⟩
  · -- v4 / v4
    have hbits : ¬ (decVal m > 32) := by omega
    simp only [hpx, hpa, Option.map_some, hm1, hm2, hbits, if_true, Bool.or_self, Bool.false_eq_true, if_false,
      decide_false]
    have hd : (v4InV6Prefix ++ ao).drop 12 = ao := by simp [v4InV6Prefix]
    simp only [hd, show (32 : Nat) / 8 = 4 from rfl]
    have := contains_v4 xo ao (decVal m) hxl hal
    rw [Bool.eq_iff_iff, this]
    simp [hxl, hal]
  · -- v4 host / v6 net
    have hbits : ¬ (decVal m > 128) := by omega
    simp only [hpx, hpa, Option.map_some, hm1, hm2, hbits, Bool.false_eq_true, if_false,
      decide_false, Bool.or_self]
    simp only [show (128 : Nat) / 8 = 16 from rfl]
    rw [contains_v4host_v6net xo ao (decVal m) hxl hal hab ha4]
    simp [hxl, hal]
  · -- v6 host / v4 net
    have hbits : ¬ (decVal m > 32) := by omega
    simp only [hpx, hpa, Option.map_some, hm1, hm2, hbits, if_true, Bool.or_self, Bool.false_eq_true, if_false,
      decide_false]
    have hd : (v4InV6Prefix ++ ao).drop 12 = ao := by simp [v4InV6Prefix]
    simp only [hd, show (32 : Nat) / 8 = 4 from rfl]
    rw [contains_v6host_v4net xo ao (decVal m) hxl hal hx4]
    simp [hxl, hal]
  · -- v6 / v6
    have hbits : ¬ (decVal m > 128) := by omega
    simp only [hpx, hpa, Option.map_some, hm1, hm2, hbits, Bool.false_eq_true, if_false,
      decide_false, Bool.or_self]
    simp only [show (128 : Nat) / 8 = 16 from rfl]
    have := contains_v6 xo ao (decVal m) hxl hal hab hx4 ha4
    rw [Bool.eq_iff_iff, this]
    simp [hxl, hal]

end C14
end FwdVerif
