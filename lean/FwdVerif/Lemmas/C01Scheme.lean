/-
  C01 — helper lemmas for the scheme clauses (`Theorems/C01.lean` §18): `Req.reqTarget` in terms of the
  specification vocabulary, requests that differ in their forwarding fields only.  Core Lean only.
-/
import FwdVerif.Lemmas.ReqExamples
import FwdVerif.Lemmas.ReqRules
import FwdVerif.Model.C01Scheme

namespace FwdVerif
namespace C01

open Req Ascii

variable {cfg : Cfg} {ctx : Ctx} {r : Request} {hop : Hop} {out : OutMsg}

theorem reqTarget_of_read {g0 : GoReq} (h : readRequest r = .ok g0) :
    reqTarget ctx r = some ((fixup ctx g0).scheme, (fixup ctx g0).urlHost) := by
  unfold reqTarget
  rw [h]
  rfl

theorem reqTarget_spec {s a : Bytes} (h : reqTarget ctx r = some (s, a)) :
    s = effScheme ctx r ∧ a = hostOf r := by
  unfold reqTarget at h
  split at h
  · cases h
  · rename_i g0 hr
    have sp := readRequest_ok hr
    have e1 := sp.fixup_scheme ctx
    have e2 := sp.fixup_urlHost ctx
    simp only [Option.some.injEq, Prod.mk.injEq] at h
    exact ⟨h.1 ▸ e1, h.2 ▸ e2⟩

theorem effScheme_eq_fixScheme (ctx : Ctx) (r : Request) :
    effScheme ctx r = fixScheme true ctx.secure (targetScheme r) (firstValue r (bs "x-forwarded-proto")) := by
  unfold effScheme fixScheme
  simp

theorem http_ne_https : (bs "https" == bs "http") = false := by decide +kernel

/-- a name that is not a forwarding name keeps all its field lines -/
theorem inValues_withoutForwarding (r : Request) {n : Bytes} (hn : forwardingNames.contains n = false) :
    inValues (withoutForwarding r) n = inValues r n := by
  unfold inValues withoutForwarding
  simp only [List.filter_filter]
  congr 1
  apply List.filter_congr
  intro f _
  by_cases hf : lower f.1 == n
  · have : lower f.1 = n := by simpa using hf
    have hn' : n ∉ forwardingNames := by simpa using hn
    simp [isForwardingName, this, hn']
  · simp [hf]

theorem hostOf_withoutForwarding (r : Request) : hostOf (withoutForwarding r) = hostOf r := by
  unfold hostOf firstValue
  rw [inValues_withoutForwarding r (by decide +kernel)]
  rfl

theorem requestActions_forwarded (h : processRequest cfg ctx r = .forwarded hop out) :
    requestActions cfg ctx r = [transportAction cfg (effScheme ctx r) (hostOf r) out] := by
  obtain ⟨g0, h3, h4, auth, t⟩ := processRequest_forwarded h
  have ht := reqTarget_of_read (ctx := ctx) t.read
  obtain ⟨e1, e2⟩ := reqTarget_spec ht
  unfold requestActions
  rw [h, ht, e1, e2]

/-- `GET http://origin.test/x` relayed by a TLS terminating front end: `X-Forwarded-Proto: https` -/
def exReqFrontEnd : Request :=
  { method := bs "GET", minor := 1, target := .absolute (bs "http") (bs "origin.test"), path := bs "/x",
    query := none, fields := [(bs "Host", bs "origin.test"), (bs "X-Forwarded-Proto", bs "https")] }

end C01
end FwdVerif
