/-
  C02 — what the writers put on the wire, in terms of the header map they receive, and the
  preservation / removal facts that follow (core Lean only).
-/
import FwdVerif.Lemmas.RespPipe
import FwdVerif.Lemmas.RespDec

namespace FwdVerif
namespace Resp

open Ascii
open C16 (HMap goDel goSet goAdd CanonKeys NodupKeys Rule applyRules)
open Req (bs hget goGet trimOWS splitComma valuesContainToken toHeader removeHopByHop upgradeType
          lowerFields mergeFields natToDec joinWith hopByHopNames)

/-! ### literal names -/

theorem lit_connection : bs "connection" = Name.connection := by bs_norm; rfl
theorem lit_content_length : bs "content-length" = Name.contentLength := by bs_norm; rfl
theorem lit_transfer_encoding : bs "transfer-encoding" = Name.transferEncoding := by bs_norm; rfl
theorem lit_trailer : bs "trailer" = Name.trailer := by bs_norm; rfl
theorem lit_HEAD : bs "HEAD" = Name.HEAD := by bs_norm; rfl
theorem lit_CONNECT : bs "CONNECT" = Name.CONNECT := by bs_norm; rfl
theorem lit_chunked : bs "chunked" = Name.chunked := by bs_norm; rfl
theorem lit_close : bs "close" = Name.close := by bs_norm; rfl
theorem lit_gzip : bs "gzip" = Name.gzip := by bs_norm; rfl

theorem lower_Connection : lower (bs "Connection") = Name.connection := by bs_norm; decide
theorem lower_Upgrade : lower (bs "Upgrade") = Name.upgrade := by bs_norm; decide
theorem lower_CL : lower (bs "Content-Length") = Name.contentLength := by bs_norm; decide
theorem lower_TE : lower (bs "Transfer-Encoding") = Name.transferEncoding := by bs_norm; decide
theorem lower_Trailer : lower (bs "Trailer") = Name.trailer := by bs_norm; decide
theorem lower_CE : lower (bs "Content-Encoding") = Name.contentEncoding := by bs_norm; decide


/-- lower-case spellings of the static hop-by-hop keys of `removeHopByHopHeaders` -/
theorem hopByHop_lower :
    (hopByHopNames.map canonicalKey).map lower =
      [Name.connection, Name.keepAlive, Name.proxyAuthenticate, Name.proxyAuthorization,
       Name.proxyConnection, Name.te, Name.trailer, Name.transferEncoding, Name.upgrade] := by
  unfold hopByHopNames
  bs_norm
  decide

/-- a canonical key differs from `L` as soon as the names differ up to case -/
theorem ck_ne_of_lower_ne {n L : Bytes} (h : lower n ≠ lower L) : canonicalKey n ≠ L := by
  intro hk
  apply h
  rw [← hk, C16.lower_canonicalKey]

theorem lower_lower_name {n : Bytes} : lower (lower n) = lower n := lower_idem n

/-! ### values and names under `valsOf` -/

theorem valsOf_eq_nil_of_not_mem {fs : List (Bytes × List Bytes)} {m : Bytes}
    (h : m ∉ fs.map (·.1)) : valsOf fs m = [] := by
  unfold valsOf
  rw [List.filter_eq_nil_iff.mpr]
  · rfl
  · intro e he hk
    exact h (List.mem_map.mpr ⟨e, he, by simpa using hk⟩)

theorem outValues_eq (r : ClientResp) (n : Bytes) : outValues r n = valsOf r.fields (lower n) :=
  fieldValues_flatFields _ _

/-! ### names written by `Response.Write` on its own -/

theorem wConnLine_names (rc : ReqCtx) (g : GoResp) :
    ∀ m ∈ (wConnLine rc g).map (·.1), m = Name.connection := by
  unfold wConnLine
  split
  · intro m hm
    simp only [List.map_cons, List.map_nil, List.mem_singleton] at hm
    rw [hm, lit_connection]
  · intro m hm; simp at hm

theorem wLenFields_names (rc : ReqCtx) (g : GoResp) :
    ∀ m ∈ (wLenFields rc g).map (·.1), m = Name.transferEncoding ∨ m = Name.trailer ∨ m = Name.contentLength := by
  unfold wLenFields
  intro m hm
  split at hm
  · split at hm
    · simp only [List.append_nil, List.map_cons, List.map_nil, List.mem_singleton] at hm
      exact Or.inl (by rw [hm, lit_transfer_encoding])
    · simp only [List.cons_append, List.nil_append, List.map_cons, List.map_nil, List.mem_cons,
        List.not_mem_nil, or_false] at hm
      rcases hm with hm | hm
      · exact Or.inl (by rw [hm, lit_transfer_encoding])
      · exact Or.inr (Or.inl (by rw [hm, lit_trailer]))
  · split at hm
    · simp only [List.map_cons, List.map_nil, List.mem_singleton] at hm
      exact Or.inr (Or.inr (by rw [hm, lit_content_length]))
    · simp at hm

theorem hoTrailerLine_names (g : GoResp) : ∀ m ∈ (hoTrailerLine g).map (·.1), m = Name.trailer := by
  unfold hoTrailerLine
  intro m hm
  split at hm
  · simp at hm
  · simp only [List.map_cons, List.map_nil, List.mem_singleton] at hm
    rw [hm, lit_trailer]

theorem managed_of_own_name {m : Bytes}
    (h : m = Name.connection ∨ m = Name.transferEncoding ∨ m = Name.trailer ∨ m = Name.contentLength) :
    m ∈ managedNames := by
  rcases h with h | h | h | h <;> subst h <;> decide

/-! ### `wRest`: the map minus the framing keys -/

def notExcluded (k : Bytes) : Bool := !wExcluded.contains k

theorem wRest_eq (rc : ReqCtx) (g : GoResp) :
    wRest rc g = lowerFields ((pipeHeader rc g).filter fun e => notExcluded e.1) := rfl

theorem notExcluded_of_lower {n : Bytes} (h1 : lower n ≠ Name.contentLength)
    (h2 : lower n ≠ Name.transferEncoding) (h3 : lower n ≠ Name.trailer) :
    notExcluded (canonicalKey n) = true := by
  unfold notExcluded wExcluded
  have a := ck_ne_of_lower_ne (n := n) (L := bs "Content-Length") (by rw [lower_CL]; exact h1)
  have b := ck_ne_of_lower_ne (n := n) (L := bs "Transfer-Encoding") (by rw [lower_TE]; exact h2)
  have c := ck_ne_of_lower_ne (n := n) (L := bs "Trailer") (by rw [lower_Trailer]; exact h3)
  simp [a, b, c]

section writers
variable {rc : ReqCtx} {g : GoResp}

/-- values the head writer lists under a token name -/
theorem valsOf_writeHO (hc : CanonKeys (pipeHeader rc g)) (hn : NodupKeys (pipeHeader rc g)) {n : Bytes}
    (ht : n.all isTokenByte = true) (htr : lower n ≠ Name.trailer) :
    valsOf (writeHO rc g).fields (lower n) = ((pipeHeader rc g).lookup (canonicalKey n)).getD [] := by
  show valsOf (mergeFields (lowerFields (pipeHeader rc g) ++ hoTrailerLine g)) (lower n) = _
  have hT : valsOf (hoTrailerLine g) (lower n) = [] :=
    valsOf_eq_nil_of_not_mem fun h => htr (hoTrailerLine_names g _ h)
  rw [valsOf_mergeFields, valsOf_append, hT, List.append_nil, valsOf_lowerFields hc hn ht]

/-- values `Response.Write` lists under a token name it does not manage -/
theorem valsOf_writeFull (hc : CanonKeys (pipeHeader rc g)) (hn : NodupKeys (pipeHeader rc g)) {n : Bytes}
    (ht : n.all isTokenByte = true) (hm : lower n ∉ managedNames) :
    valsOf (writeFull rc g).fields (lower n) = ((pipeHeader rc g).lookup (canonicalKey n)).getD [] := by
  show valsOf (mergeFields (wConnLine rc g ++ wLenFields rc g ++ wRest rc g)) (lower n) = _
  rw [valsOf_mergeFields, valsOf_append, valsOf_append]
  have hA : valsOf (wConnLine rc g) (lower n) = [] :=
    valsOf_eq_nil_of_not_mem fun h => hm (managed_of_own_name (Or.inl (wConnLine_names rc g _ h)))
  have hB : valsOf (wLenFields rc g) (lower n) = [] :=
    valsOf_eq_nil_of_not_mem fun h => hm (managed_of_own_name (Or.inr (wLenFields_names rc g _ h)))
  rw [hA, hB, List.nil_append, List.nil_append, wRest_eq]
  have hsub : ((pipeHeader rc g).filter fun e => notExcluded e.1).Sublist (pipeHeader rc g) :=
    List.filter_sublist
  rw [valsOf_lowerFields (hc.sublist hsub) (hn.sublist hsub) ht, lookup_filter_key]
  have hne : notExcluded (canonicalKey n) = true :=
    notExcluded_of_lower (fun h => hm (by rw [h]; decide)) (fun h => hm (by rw [h]; decide))
      (fun h => hm (by rw [h]; decide))
  rw [if_pos hne]

/-- a token name the head writer emits is `trailer` or a key of the map -/
theorem name_writeHO (hc : CanonKeys (pipeHeader rc g)) {n : Bytes} (ht : n.all isTokenByte = true)
    (hm : lower n ∈ outNames (writeHO rc g)) :
    lower n ∈ managedNames ∨ ((pipeHeader rc g).lookup (canonicalKey n)).isSome = true := by
  obtain ⟨e, he, hk⟩ := List.mem_map.mp hm
  have := mem_names_mergeFields (fs := lowerFields (pipeHeader rc g) ++ hoTrailerLine g) he
  rw [hk, List.map_append, List.mem_append] at this
  rcases this with h | h
  · exact Or.inr (mem_lowerFields_names hc ht h)
  · exact Or.inl (managed_of_own_name (Or.inr (Or.inr (Or.inl (hoTrailerLine_names g _ h)))))

/-- a token name `Response.Write` emits is one of its own or a key of the map -/
theorem name_writeFull (hc : CanonKeys (pipeHeader rc g)) {n : Bytes} (ht : n.all isTokenByte = true)
    (hm : lower n ∈ outNames (writeFull rc g)) :
    lower n ∈ managedNames ∨ ((pipeHeader rc g).lookup (canonicalKey n)).isSome = true := by
  obtain ⟨e, he, hk⟩ := List.mem_map.mp hm
  have hmem := mem_names_mergeFields (fs := wConnLine rc g ++ wLenFields rc g ++ wRest rc g) he
  rw [hk, List.map_append, List.map_append, List.mem_append, List.mem_append] at hmem
  rcases hmem with (h | h) | h
  · exact Or.inl (managed_of_own_name (Or.inl (wConnLine_names rc g _ h)))
  · exact Or.inl (managed_of_own_name (Or.inr (wLenFields_names rc g _ h)))
  · right
    rw [wRest_eq] at h
    have hsub : ((pipeHeader rc g).filter fun e => notExcluded e.1).Sublist (pipeHeader rc g) :=
      List.filter_sublist
    have := mem_lowerFields_names (hc.sublist hsub) ht h
    rw [lookup_filter_key] at this
    split at this
    · exact this
    · simp at this

end writers

/-! ### the origin's field lines as the transport sees them -/

theorem hget_h0 (o : OriginResp) {N L : Bytes} (hck : canonicalKey N = N)
    (htok : N.all isTokenByte = true) (hl : lower N = lower L) :
    hget (toHeader o.fields) N = inValues o L := by
  rw [hget_toHeader]
  have := linesOf_canonicalKey o.fields htok
  rw [hck] at this
  rw [this]
  unfold inValues
  rw [hl]

theorem hget_h0_connection (o : OriginResp) :
    hget (toHeader o.fields) (bs "Connection") = inValues o Name.connection :=
  hget_h0 o ck_Connection tok_Connection (by rw [lower_Connection]; decide)

theorem hget_h0_CE (o : OriginResp) :
    hget (toHeader o.fields) (bs "Content-Encoding") = inValues o Name.contentEncoding :=
  hget_h0 o ck_CE tok_CE (by rw [lower_CE]; decide)

theorem hget_h0_TE (o : OriginResp) :
    hget (toHeader o.fields) (bs "Transfer-Encoding") = inValues o Name.transferEncoding :=
  hget_h0 o ck_TE tok_TE (by rw [lower_TE]; decide)

theorem hget_h0_Trailer (o : OriginResp) :
    hget (toHeader o.fields) (bs "Trailer") = inValues o Name.trailer :=
  hget_h0 o ck_Trailer tok_Trailer (by rw [lower_Trailer]; decide)

/-- values of a token name in the origin's response, through the transport's map -/
theorem h0_lookup_token (o : OriginResp) {n : Bytes} (ht : n.all isTokenByte = true) :
    ((toHeader o.fields).lookup (canonicalKey n)).getD [] = inValues o n := by
  have := hget_toHeader o.fields (canonicalKey n)
  unfold hget C16.HMap.get at this
  rw [this, linesOf_canonicalKey o.fields ht]
  rfl

/-! ### nominations -/

theorem mem_nominated_of_ck {conn : List Bytes} {n : Bytes} (h : canonicalKey n ∈ nominatedOf conn) :
    lower n ∈ conn.flatMap fun v => (splitComma v).map fun t => lower (Req.trimSpace t) := by
  unfold nominatedOf at h
  simp only [List.mem_flatMap, List.mem_map] at h ⊢
  obtain ⟨v, hv, t, ht, hk⟩ := h
  refine ⟨v, hv, t, ht, ?_⟩
  have := congrArg lower hk
  rw [C16.lower_canonicalKey, C16.lower_canonicalKey] at this
  exact this

theorem hop_lower_cases {x : Bytes}
    (h : x ∈ [Name.connection, Name.keepAlive, Name.proxyAuthenticate, Name.proxyAuthorization,
       Name.proxyConnection, Name.te, Name.trailer, Name.transferEncoding, Name.upgrade]) :
    x ∈ staticHopByHop ∨ x ∈ managedNames := by
  simp only [List.mem_cons, List.not_mem_nil, or_false] at h
  rcases h with h | h | h | h | h | h | h | h | h <;> subst h <;> decide

theorem ck_not_static {n : Bytes} (hs : lower n ∉ staticHopByHop) (hm : lower n ∉ managedNames) :
    canonicalKey n ∉ hopByHopNames.map canonicalKey := by
  intro h
  have h2 : lower (canonicalKey n) ∈ (hopByHopNames.map canonicalKey).map lower :=
    List.mem_map.mpr ⟨_, h, rfl⟩
  rw [C16.lower_canonicalKey, hopByHop_lower] at h2
  rcases hop_lower_cases h2 with h3 | h3
  · exact hs h3
  · exact hm h3

theorem ck_not_conn_upgrade {n : Bytes} (hm : lower n ∉ managedNames) :
    canonicalKey n ∉ [bs "Connection", bs "Upgrade"] := by
  intro h
  simp only [List.mem_cons, List.not_mem_nil, or_false] at h
  rcases h with h | h
  · exact ck_ne_of_lower_ne (n := n) (L := bs "Connection")
      (by rw [lower_Connection]; intro h'; exact hm (by rw [h']; decide)) h
  · exact ck_ne_of_lower_ne (n := n) (L := bs "Upgrade")
      (by rw [lower_Upgrade]; intro h'; exact hm (by rw [h']; decide)) h

section preserve
variable {rc : ReqCtx} {o : OriginResp} {g : GoResp}

/-- the names the hop-by-hop modifier finds nominated are among those the origin nominated -/
theorem ReadOK.nominated_sub (ok : ReadOK rc o g) {n : Bytes}
    (h : canonicalKey n ∈ nominatedOf (hget g.header (bs "Connection"))) : lower n ∈ nominated o := by
  rw [ok.hget_connection] at h
  split at h
  · simp [nominatedOf] at h
  · rw [hget_h0_connection] at h
    exact mem_nominated_of_ck h

/-- end-to-end key: what the writers receive is what the origin sent -/
theorem ReadOK.pipe_lookup_e2e (ok : ReadOK rc o g) (hrules : rc.rules = []) {n : Bytes}
    (hs : lower n ∉ staticHopByHop) (hm : lower n ∉ managedNames) (hnom : lower n ∉ nominated o)
    (hce : g.uncompressed = true → lower n ≠ Name.contentEncoding) :
    (pipeHeader rc g).lookup (canonicalKey n) = (toHeader o.fields).lookup (canonicalKey n) := by
  rw [(pipeHeader_derived rc g).agree _ (ck_not_conn_upgrade hm), pipeH2_lookup hrules,
    if_neg (ck_not_static hs hm), if_neg (fun h => hnom (ok.nominated_sub h))]
  have hc : canonicalKey n ≠ bs "Connection" := ck_ne_of_lower_ne (n := n)
    (by rw [lower_Connection]; intro h'; exact hm (by rw [h']; decide))
  have hte : canonicalKey n ≠ bs "Transfer-Encoding" := ck_ne_of_lower_ne (n := n)
    (by rw [lower_TE]; intro h'; exact hm (by rw [h']; decide))
  have hcl : canonicalKey n ≠ bs "Content-Length" := ck_ne_of_lower_ne (n := n)
    (by rw [lower_CL]; intro h'; exact hm (by rw [h']; decide))
  have htr : canonicalKey n ≠ bs "Trailer" := ck_ne_of_lower_ne (n := n)
    (by rw [lower_Trailer]; intro h'; exact hm (by rw [h']; decide))
  by_cases hu : g.uncompressed = true
  · have hcen : canonicalKey n ≠ bs "Content-Encoding" := ck_ne_of_lower_ne (n := n)
      (by rw [lower_CE]; exact hce hu)
    exact ok.header_derived.agree _ (by simp [readKeys, hc, hte, hcl, htr, hcen])
  · exact (ok.header_derived_plain (by simpa using hu)).agree _ (by simp [hc, hte, hcl, htr])

end preserve

theorem headerOnly_eq_bodiless (m : Bytes) (st : Nat) : headerOnly m st = bodiless m st := by
  unfold headerOnly bodiless bodyAllowed
  rw [lit_HEAD]
  simp [Bool.or_assoc]

/-- B: end-to-end fields reach the client unchanged -/
theorem end_to_end_preserved {rc : ReqCtx} {o : OriginResp} {r : ClientResp} (hrules : rc.rules = [])
    (h : processResponse rc o = .ok r) {n : Bytes} (ht : n.all isTokenByte = true)
    (hs : lower n ∉ staticHopByHop) (hm : lower n ∉ managedNames) (hnom : lower n ∉ nominated o)
    (hce : r.body = .gunzip → lower n ≠ Name.contentEncoding) :
    outValues r n = inValues o n := by
  obtain ⟨g, hread, hcase⟩ := processResponse_ok h
  obtain ⟨ok⟩ := readResponse_some hread
  obtain ⟨hc, hn⟩ := pipeHeader_canon_nodup (rulesOK_nil hrules) ok.canon ok.nodup
  rw [outValues_eq, ← h0_lookup_token o ht]
  rcases hcase with ⟨hho, rfl⟩ | ⟨hho, rfl⟩
  · rw [valsOf_writeHO hc hn ht (fun h' => hm (by rw [h']; decide)), ok.pipe_lookup_e2e hrules hs hm hnom]
    intro hu
    have := (ok.gz_facts hu).2.2
    rw [← ok.status, hho] at this
    exact absurd this (by simp)
  · rw [valsOf_writeFull hc hn ht hm, ok.pipe_lookup_e2e hrules hs hm hnom]
    intro hu
    apply hce
    show (if g.uncompressed then BodyXform.gunzip else BodyXform.same) = _
    rw [hu]; rfl

/-! ### well-formed origins: every name on the wire is a token -/

theorem pipeHeader_tokKeys {rc : ReqCtx} {g : GoResp} (hrules : rc.rules = []) (ht : TokKeys g.header) :
    TokKeys (pipeHeader rc g) := by
  apply (pipeHeader_derived rc g).tok
  have : (if rc.method == bs "CONNECT" then g.header else applyRules rc.rules g.header) = g.header := by
    rw [hrules]; split <;> rfl
  unfold pipeH2
  rw [this]
  exact tokKeys_removeHopByHop ht

theorem names_token {rc : ReqCtx} {o : OriginResp} {r : ClientResp} (hwf : OriginWF o)
    (hrules : rc.rules = []) (h : processResponse rc o = .ok r) :
    ∀ m ∈ outNames r, m.all isTokenByte = true := by
  obtain ⟨g, hread, hcase⟩ := processResponse_ok h
  obtain ⟨ok⟩ := readResponse_some hread
  have ht : TokKeys (pipeHeader rc g) :=
    pipeHeader_tokKeys hrules (ok.header_derived.tok (tokKeys_toHeader _ hwf))
  have hlow : ∀ (H : HMap), TokKeys H → ∀ m ∈ (lowerFields H).map (·.1), m.all isTokenByte = true := by
    intro H hH m hm
    unfold lowerFields at hm
    simp only [List.map_map, List.mem_map, Function.comp] at hm
    obtain ⟨e, he, rfl⟩ := hm
    rw [C16.all_token_lower]
    exact hH e he
  intro m hm
  obtain ⟨e, he, rfl⟩ := List.mem_map.mp hm
  rcases hcase with ⟨_, rfl⟩ | ⟨_, rfl⟩
  · have hmem := mem_names_mergeFields (fs := lowerFields (pipeHeader rc g) ++ hoTrailerLine g) he
    rw [List.map_append, List.mem_append] at hmem
    rcases hmem with h1 | h1
    · exact hlow _ ht _ h1
    · rw [hoTrailerLine_names g _ h1]; decide
  · have hmem := mem_names_mergeFields (fs := wConnLine rc g ++ wLenFields rc g ++ wRest rc g) he
    rw [List.map_append, List.map_append, List.mem_append, List.mem_append] at hmem
    rcases hmem with (h1 | h1) | h1
    · rw [wConnLine_names rc g _ h1]; decide
    · rcases wLenFields_names rc g _ h1 with h2 | h2 | h2 <;> rw [h2] <;> decide
    · rw [wRest_eq] at h1
      exact hlow _ (ht.sublist List.filter_sublist) _ h1

theorem inValues_non_token {o : OriginResp} (hwf : OriginWF o) {n : Bytes}
    (hn : ¬ n.all isTokenByte = true) : inValues o n = [] := by
  unfold inValues
  rw [List.filter_eq_nil_iff.mpr]
  · rfl
  · intro f hf hk
    have h1 : lower f.1 = lower n := by simpa using hk
    have h2 := hwf f hf
    rw [← C16.all_token_lower, h1, C16.all_token_lower] at h2
    exact hn h2

/-- B for a well-formed origin: no restriction on the name -/
theorem end_to_end_preserved_wf {rc : ReqCtx} {o : OriginResp} {r : ClientResp} (hwf : OriginWF o)
    (hrules : rc.rules = []) (h : processResponse rc o = .ok r) {n : Bytes}
    (hs : lower n ∉ staticHopByHop) (hm : lower n ∉ managedNames) (hnom : lower n ∉ nominated o)
    (hce : r.body = .gunzip → lower n ≠ Name.contentEncoding) :
    outValues r n = inValues o n := by
  by_cases ht : n.all isTokenByte = true
  · exact end_to_end_preserved hrules h ht hs hm hnom hce
  · rw [inValues_non_token hwf ht, outValues_eq]
    apply valsOf_eq_nil_of_not_mem
    intro hmem
    have := names_token hwf hrules h _ hmem
    rw [C16.all_token_lower] at this
    exact ht this

/-! ### hop-by-hop removal -/

theorem hopByHop_canon :
    hopByHopNames.map canonicalKey =
      [bs "Connection", bs "Keep-Alive", bs "Proxy-Authenticate", bs "Proxy-Authorization",
       bs "Proxy-Connection", bs "Te", bs "Trailer", bs "Transfer-Encoding", bs "Upgrade"] := by
  unfold hopByHopNames
  bs_norm
  decide

theorem static_facts {n : Bytes} (h : n ∈ staticHopByHop) :
    lower n = n ∧ n.all isTokenByte = true ∧ n ∉ managedNames ∧
      canonicalKey n ∈ hopByHopNames.map canonicalKey := by
  rw [hopByHop_canon]
  unfold staticHopByHop at h
  simp only [List.mem_cons, List.not_mem_nil, or_false] at h
  rcases h with h | h | h | h | h <;> subst h <;>
    refine ⟨by decide, by decide, by decide, ?_⟩ <;> bs_norm <;> decide

/-- a token name that appears on the wire is managed by the writers or a key of the map they got -/
theorem name_on_wire {rc : ReqCtx} {o : OriginResp} {r : ClientResp} (hr : RulesOK rc)
    (h : processResponse rc o = .ok r) {n : Bytes} (ht : n.all isTokenByte = true)
    (hm : lower n ∈ outNames r) :
    ∃ g, readResponse rc o = some g ∧
      (lower n ∈ managedNames ∨ ((pipeHeader rc g).lookup (canonicalKey n)).isSome = true) := by
  obtain ⟨g, hread, hcase⟩ := processResponse_ok h
  obtain ⟨ok⟩ := readResponse_some hread
  obtain ⟨hc, _⟩ := pipeHeader_canon_nodup hr ok.canon ok.nodup
  refine ⟨g, hread, ?_⟩
  rcases hcase with ⟨_, rfl⟩ | ⟨_, rfl⟩
  · exact name_writeHO hc ht hm
  · exact name_writeFull hc ht hm

/-- C (static part): the hop-by-hop fields of RFC 7230 §6.1 never reach the client -/
theorem static_removed {rc : ReqCtx} {o : OriginResp} {r : ClientResp} (hr : RulesOK rc)
    (h : processResponse rc o = .ok r) {n : Bytes} (hn : n ∈ staticHopByHop) : n ∉ outNames r := by
  obtain ⟨hl, ht, hm, hk⟩ := static_facts hn
  intro hmem
  rw [← hl] at hmem
  obtain ⟨g, _, hcase⟩ := name_on_wire hr h ht hmem
  rcases hcase with hcase | hcase
  · exact hm (hl ▸ hcase)
  · rw [(pipeHeader_derived rc g).agree _ (ck_not_conn_upgrade (by rw [hl]; exact hm)),
      pipeH2_lookup_static rc g hk] at hcase
    simp at hcase

theorem originSaysClose_eq (o : OriginResp) :
    valuesContainToken (hget (toHeader o.fields) (bs "Connection")) (bs "close") = originSaysClose o := by
  rw [hget_h0_connection, lit_close]
  rfl

/-- C (nominated part), provided the `Connection` field survives the transport's read -/
theorem nominated_removed {rc : ReqCtx} {o : OriginResp} {r : ClientResp} (hrules : rc.rules = [])
    (h : processResponse rc o = .ok r) (hsurv : o.minor = 0 ∨ originSaysClose o = false) {n : Bytes}
    (hn : n ∈ nominated o) (ht : n.all isTokenByte = true) (hm : n ∉ managedNames) : n ∉ outNames r := by
  -- n = lower (trimSpace t) for an element t of a Connection value
  unfold nominated at hn
  simp only [List.mem_flatMap, List.mem_map] at hn
  obtain ⟨v, hv, t, htv, rfl⟩ := hn
  have hl : lower (lower (Req.trimSpace t)) = lower (Req.trimSpace t) := lower_idem _
  intro hmem
  rw [← hl] at hmem
  obtain ⟨g, hread, hcase⟩ := name_on_wire (rulesOK_nil hrules) h ht hmem
  obtain ⟨ok⟩ := readResponse_some hread
  rw [hl] at hcase
  rcases hcase with hcase | hcase
  · exact hm hcase
  · have htt : (Req.trimSpace t).all isTokenByte = true := by rw [← C16.all_token_lower]; exact ht
    have hck : canonicalKey (lower (Req.trimSpace t)) = canonicalKey (Req.trimSpace t) :=
      C16.canonicalKey_congr htt hl
    have hconn : hget g.header (bs "Connection") = inValues o Name.connection := by
      rw [ok.hget_connection, originSaysClose_eq, if_neg, hget_h0_connection]
      rintro ⟨h1, h2⟩
      rcases hsurv with h3 | h3
      · exact h1 h3
      · rw [h3] at h2; exact absurd h2 (by simp)
    have hnomin : canonicalKey (lower (Req.trimSpace t)) ∈ nominatedOf (hget g.header (bs "Connection")) := by
      rw [hconn, hck]
      unfold nominatedOf
      simp only [List.mem_flatMap, List.mem_map]
      exact ⟨v, hv, t, htv, rfl⟩
    rw [(pipeHeader_derived rc g).agree _ (ck_not_conn_upgrade (by rw [hl]; exact hm)),
      pipeH2_lookup hrules] at hcase
    rw [if_pos hnomin] at hcase
    split at hcase <;> simp at hcase

/-! ### transparent gzip -/

theorem CE_not_framing : bs "Content-Encoding" ∉
    [bs "Connection", bs "Transfer-Encoding", bs "Content-Length", bs "Trailer"] := by
  bs_norm; decide

/-- F: the body is gunzipped only when the proxy solicited gzip and the origin used it -/
theorem gunzip_facts {rc : ReqCtx} {o : OriginResp} {r : ClientResp}
    (h : processResponse rc o = .ok r) (hb : r.body = .gunzip) :
    rc.solicitedGzip = true ∧ originGzip o = true ∧ bodiless rc.method o.status = false := by
  obtain ⟨g, hread, hcase⟩ := processResponse_ok h
  obtain ⟨ok⟩ := readResponse_some hread
  rcases hcase with ⟨_, rfl⟩ | ⟨_, rfl⟩
  · exact absurd hb (by simp [writeHO])
  · have hu : g.uncompressed = true := by
      by_cases hu : g.uncompressed = true
      · exact hu
      · have : (writeFull rc g).body = .same := by
          show (if g.uncompressed then BodyXform.gunzip else BodyXform.same) = _
          simp [hu]
        rw [this] at hb
        exact absurd hb (by simp)
    obtain ⟨h1, h2, h3⟩ := ok.gz_facts hu
    refine ⟨h1, ?_, by rw [← headerOnly_eq_bodiless]; exact h3⟩
    unfold originGzip
    rw [← hget_h0_CE, ← lit_gzip]
    unfold goGet at h2
    rw [ck_CE] at h2
    have : hget (rrTrailer ok.chunked (rrLen rc o ok.chunked ok.h3 ok.n?).1).1 (bs "Content-Encoding") =
        hget (toHeader o.fields) (bs "Content-Encoding") := by
      unfold hget C16.HMap.get
      rw [ok.h5_derived.agree _ CE_not_framing]
    rw [this] at h2
    exact h2

theorem ck_of_Name_CE : canonicalKey Name.contentEncoding = bs "Content-Encoding" := by
  bs_norm; decide

/-- F: after transparent decompression neither `Content-Encoding` nor `Content-Length` is written -/
theorem gunzip_drops {rc : ReqCtx} {o : OriginResp} {r : ClientResp} (hrules : rc.rules = [])
    (h : processResponse rc o = .ok r) (hb : r.body = .gunzip) :
    Name.contentEncoding ∉ outNames r ∧ Name.contentLength ∉ outNames r := by
  obtain ⟨g, hread, hcase⟩ := processResponse_ok h
  obtain ⟨ok⟩ := readResponse_some hread
  obtain ⟨hc, hn⟩ := pipeHeader_canon_nodup (rulesOK_nil hrules) ok.canon ok.nodup
  rcases hcase with ⟨_, rfl⟩ | ⟨hho, rfl⟩
  · exact absurd hb (by simp [writeHO])
  · have hu : g.uncompressed = true := by
      by_cases hu : g.uncompressed = true
      · exact hu
      · have : (writeFull rc g).body = .same := by
          show (if g.uncompressed then BodyXform.gunzip else BodyXform.same) = _
          simp [hu]
        rw [this] at hb
        exact absurd hb (by simp)
    have hhdr := ok.header_eq
    rw [hu] at hhdr
    simp only [if_true] at hhdr
    constructor
    · -- Content-Encoding
      intro hmem
      have hl : lower Name.contentEncoding = Name.contentEncoding := by decide
      rw [← hl] at hmem
      rcases name_writeFull hc (n := Name.contentEncoding) (by decide) hmem with hcase | hcase
      · exact absurd hcase (by decide)
      · rw [(pipeHeader_derived rc g).agree _ (ck_not_conn_upgrade (by decide)), pipeH2_lookup hrules,
          ck_of_Name_CE] at hcase
        have hnone : g.header.lookup (bs "Content-Encoding") = none := by
          rw [hhdr, lookup_goDel, ck_CL, lookup_goDel, ck_CE]
          simp
        rw [hnone] at hcase
        split at hcase
        · simp at hcase
        · split at hcase <;> simp at hcase
    · -- Content-Length: not generated (unknown length), and the map's own key is never written
      intro hmem
      obtain ⟨e, he, hk⟩ := List.mem_map.mp hmem
      have hmem2 := mem_names_mergeFields (fs := wConnLine rc g ++ wLenFields rc g ++ wRest rc g) he
      rw [hk, List.map_append, List.map_append, List.mem_append, List.mem_append] at hmem2
      rcases hmem2 with (h1 | h1) | h1
      · exact absurd (wConnLine_names rc g _ h1) (by decide)
      · have hlen : wLen rc g = -1 := by
          have := ok.contentLength_full (by rw [← ok.status]; exact hho)
          rw [hu] at this
          have hg : g.contentLength = -1 := by simpa using this
          unfold wLen
          rw [frameForClient_full hho, hg]
          exact frameCore_len_unknown ..
        unfold wLenFields at h1
        split at h1
        · split at h1
          · simp only [List.append_nil, List.map_cons, List.map_nil, List.mem_singleton] at h1
            rw [lit_transfer_encoding] at h1
            exact absurd h1 (by decide)
          · simp only [List.cons_append, List.nil_append, List.map_cons, List.map_nil, List.mem_cons,
              List.not_mem_nil, or_false] at h1
            rw [lit_transfer_encoding, lit_trailer] at h1
            rcases h1 with h1 | h1 <;> exact absurd h1 (by decide)
        · rw [hlen] at h1
          simp at h1
      · rw [wRest_eq] at h1
        have hsub : ((pipeHeader rc g).filter fun e => notExcluded e.1).Sublist (pipeHeader rc g) :=
          List.filter_sublist
        have hl : lower (bs "Content-Length") = Name.contentLength := lower_CL
        rw [← hl] at h1
        have := mem_lowerFields_names (hc.sublist hsub) tok_CL h1
        rw [lookup_filter_key, ck_CL] at this
        have hex : notExcluded (bs "Content-Length") = false := by
          unfold notExcluded wExcluded
          simp
        rw [hex] at this
        simp at this

end Resp
end FwdVerif
