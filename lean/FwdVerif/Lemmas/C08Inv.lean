/-
  C08 helper lemmas, part 6: what an accepted header implies (inversion of the buffer-free reader),
  for every input.
-/
import FwdVerif.Lemmas.C08Exact

namespace FwdVerif
namespace C08

/-- the reader sets both addresses of a header or neither -/
def HdrOK (h : Header) : Prop :=
  (h.source.isSome = true ∧ h.dest.isSome = true) ∨ (h.source = none ∧ h.dest = none)

theorem ofOpt_ne_missing (o : Option Addr) : ofOpt o ≠ .missing := by
  cases o <;> simp [ofOpt]

/-- the address selection of `Conn` never yields a nil `net.Addr`, whatever the header read gave -/
theorem sel_ne_missing (st : HdrState) : remoteSel st ≠ .missing ∧ localSel st ≠ .missing := by
  cases st with
  | failed e => exact ⟨by simp [remoteSel], by simp [localSel]⟩
  | ok h =>
    unfold remoteSel localSel
    constructor <;> (dsimp only; split)
    · simp
    · exact ofOpt_ne_missing _
    · simp
    · exact ofOpt_ne_missing _

/-- a header marked local, or lacking one address (hence both), selects the socket's addresses -/
theorem HdrOK.headerless {h : Header} (hk : HdrOK h)
    (hna : h.isLocal = true ∨ h.source = none ∨ h.dest = none) :
    remoteSel (.ok h) = .sock ∧ localSel (.ok h) = .sock := by
  unfold remoteSel localSel
  dsimp only
  by_cases hl : h.isLocal = true
  · simp [hl]
  · have hnone : h.source = none ∧ h.dest = none := by
      rcases hk with ⟨h1, h2⟩ | h0
      · rcases hna with h' | h' | h'
        · exact absurd h' hl
        · rw [h'] at h1; cases h1
        · rw [h'] at h2; cases h2
      · exact h0
    simp [hl, hnone.1, hnone.2, ofOpt]

theorem parseV1Header_ok {b : Bytes} {h : Header} (hp : parseV1Header b = .ok h) :
    h.version = 1 ∧ h.isLocal = false ∧ h.source.isSome = true ∧ h.dest.isSome = true := by
  unfold parseV1Header at hp
  cases hs : slFrom b 11 with
  | panic => rw [hs] at hp; cases hp
  | err e => rw [hs] at hp; cases hp
  | ok t =>
    rw [hs] at hp
    simp only [bind_ok] at hp
    cases hf : v1Fields (splitSp t) 0 {} with
    | panic => rw [hf] at hp; cases hp
    | err e => rw [hf] at hp; cases hp
    | ok a =>
      rw [hf] at hp
      simp only [bind_ok] at hp
      split at hp
      · cases hp
      · injection hp with hp
        subst hp
        simp

theorem parseKeep_ok {b rest r : Bytes} {h : Header} (hp : parseKeep b rest = .ok (h, r)) :
    r = rest ∧ h.version = 1 ∧ HdrOK h := by
  unfold parseKeep at hp
  cases hq : parseV1Header b with
  | panic => rw [hq] at hp; cases hp
  | err e => rw [hq] at hp; cases hp
  | ok h' =>
    rw [hq] at hp
    injection hp with hp
    injection hp with h1 h2
    subst h1; subst h2
    obtain ⟨hv, _, hs, hd⟩ := parseV1Header_ok hq
    exact ⟨rfl, hv, Or.inl ⟨hs, hd⟩⟩

/-- an accepted v1 header: the consumed part ends with a CRLF found inside the first 107 bytes -/
theorem readV1S_ok {bs rest : Bytes} {h : Header} (hr : readV1S bs = .ok (h, rest)) :
    h.version = 1 ∧ HdrOK h ∧
      ∃ m, 1 ≤ m ∧ m < 107 ∧ m < bs.length ∧ crlfAt bs (m - 1) = true ∧ rest = bs.drop (m + 1) := by
  unfold readV1S at hr
  have line : ∀ {fuel idx : Nat}, 1 ≤ idx → idx + fuel = 107 → lineS bs fuel idx = .ok (h, rest) →
      h.version = 1 ∧ HdrOK h ∧
      ∃ m, 1 ≤ m ∧ m < 107 ∧ m < bs.length ∧ crlfAt bs (m - 1) = true ∧ rest = bs.drop (m + 1) := by
    intro fuel idx h1 h2 hl
    unfold lineS at hl
    cases hu : untilS bs fuel idx with
    | panic => rw [hu] at hl; cases hl
    | err e => rw [hu] at hl; cases hl
    | ok p =>
      obtain ⟨b, r⟩ := p
      rw [hu] at hl
      obtain ⟨m, hm1, hm2, hm3, hm4, _, hm6⟩ := untilS_ok hu
      obtain ⟨e1, e2, e3⟩ := parseKeep_ok hl
      exact ⟨e2, e3, m, by omega, by omega, hm3, hm4, by rw [e1, hm6]⟩
  split at hr
  · cases hu : untilS bs 94 13 with
    | panic => rw [hu] at hr; cases hr
    | err e => rw [hu] at hr; cases hr
    | ok p =>
      obtain ⟨b, r⟩ := p
      rw [hu] at hr
      injection hr with hr
      injection hr with h1 h2
      obtain ⟨m, hm1, hm2, hm3, hm4, _, hm6⟩ := untilS_ok hu
      subst h1
      exact ⟨rfl, Or.inr ⟨rfl, rfl⟩, m, by omega, by omega, hm3, hm4, by rw [← h2, hm6]⟩
  · split at hr
    · split at hr
      · rename_i h32
        split at hr
        · rename_i hc
          obtain ⟨e1, e2, e3⟩ := parseKeep_ok hr
          exact ⟨e2, e3, 31, by omega, by omega, by omega, hc, e1⟩
        · exact line (by omega) (by omega) hr
      · cases hr
    · split at hr
      · split at hr
        · rename_i h22
          split at hr
          · rename_i hc
            obtain ⟨e1, e2, e3⟩ := parseKeep_ok hr
            exact ⟨e2, e3, 21, by omega, by omega, by omega, hc, e1⟩
          · exact line (by omega) (by omega) hr
        · cases hr
      · cases hr

theorem v2Hdr_version (b12 fam : UInt8) (body : Bytes) : (v2Hdr b12 fam body).version = 2 := by
  unfold v2Hdr
  dsimp only
  split
  · rfl
  · split
    · rfl
    · split <;> rfl

/-- an accepted v2 header: exactly the 16 fixed bytes and the announced remainder are consumed -/
theorem readV2S_ok {bs rest : Bytes} {h : Header} (hr : readV2S bs = .ok (h, rest)) :
    16 ≤ bs.length ∧ (bs.getD 12 0).toNat / 16 = 2 ∧
    (let n := (bs.getD 14 0).toNat * 256 + (bs.getD 15 0).toNat
     n ≤ 2048 ∧ 16 + n ≤ bs.length ∧ v2Refusal (bs.getD 12 0) (bs.getD 13 0) n = none ∧
       h = v2Hdr (bs.getD 12 0) (bs.getD 13 0) ((bs.drop 16).take n) ∧ rest = bs.drop (16 + n)) := by
  unfold readV2S at hr
  split at hr
  · rename_i h16
    split at hr
    · cases hr
    · rename_i hv
      rw [v2Rest_eq] at hr
      split at hr
      · cases hr
      · rename_i hn
        split at hr
        · cases hr
        · rename_i hs
          split at hr
          · cases hr
          · rename_i href
            injection hr with hr
            injection hr with h1 h2
            refine ⟨h16, by simpa using hv, ?_⟩
            dsimp only
            simp only [List.length_drop] at hs
            refine ⟨by omega, by omega, href, h1.symm, ?_⟩
            rw [← h2, List.drop_drop]
  · cases hr

theorem isPrefixOf_take : ∀ (pre bs : Bytes) (k : Nat), pre.length ≤ k →
    pre.isPrefixOf (bs.take k) = pre.isPrefixOf bs := by
  intro pre
  induction pre with
  | nil => intro bs k _; simp
  | cons x xs ih =>
    intro bs k hk
    cases bs with
    | nil => simp
    | cons y ys =>
      cases k with
      | zero => simp at hk
      | succ k =>
        simp only [List.take_succ_cons, List.isPrefixOf]
        rw [ih ys k (by simpa using hk)]

theorem crlfAt_take {bs : Bytes} {j k : Nat} (h : j + 2 ≤ k) : crlfAt (bs.take k) j = crlfAt bs j := by
  unfold crlfAt pairAt
  rw [List.take_take]
  congr 3
  omega

/-! ### inputs that must fail -/

theorem getElem?_getD {bs : Bytes} {i : Nat} (h : i < bs.length) : bs[i]? = some (bs.getD i 0) := by
  simp [List.getD, List.getElem?_eq_getElem h]

theorem readHeaderS_mustFail {bs : Bytes} (h : mustFail bs = true) : ∃ e, readHeaderS bs = .err e := by
  unfold mustFail at h
  unfold readHeaderS
  by_cases h13 : 13 ≤ bs.length
  · rw [if_pos h13]
    rw [isPrefixOf_take v2Ident bs 13 (by decide), isPrefixOf_take v1Ident bs 13 (by decide)]
    rw [if_neg (by omega)] at h
    by_cases hv2 : v2Ident.isPrefixOf bs = true
    · rw [if_pos hv2] at h ⊢
      unfold readV2S
      by_cases h16 : 16 ≤ bs.length
      · rw [if_pos h16]
        rw [getElem?_getD (show 12 < bs.length by omega), getElem?_getD (show 14 < bs.length by omega),
          getElem?_getD (show 15 < bs.length by omega)] at h
        dsimp only at h
        split
        · exact ⟨_, rfl⟩
        · rename_i hv
          rw [v2Rest_eq]
          split
          · exact ⟨_, rfl⟩
          · rename_i hn
            split
            · exact ⟨_, rfl⟩
            · rename_i hs
              exfalso
              simp only [List.length_drop] at hs
              simp only [Bool.or_eq_true, decide_eq_true_eq] at h
              rcases h with (h | h) | h
              · exact hv h
              · omega
              · omega
      · rw [if_neg h16]; exact ⟨_, rfl⟩
    · rw [if_neg hv2] at h ⊢
      by_cases hv1 : v1Ident.isPrefixOf bs = true
      · rw [if_pos hv1] at h ⊢
        cases hf : firstCRLFEnd (bs.take 107) with
        | some n => rw [hf] at h; cases h
        | none =>
          cases hr : readV1S bs with
          | err e => exact ⟨e, rfl⟩
          | panic => exact absurd hr (readV1S_ne_panic bs)
          | ok p =>
            obtain ⟨hd, rest⟩ := p
            obtain ⟨_, _, m, hm1, hm2, hm3, hm4, _⟩ := readV1S_ok hr
            have := crlfAt_false_of_none hf (m - 1)
            rw [crlfAt_take (by omega), hm4] at this
            cases this
      · rw [if_neg hv1]; exact ⟨_, rfl⟩
  · rw [if_neg h13]; exact ⟨_, rfl⟩

/-! ### what was consumed; which addresses are present -/

theorem take_succ_succ_of_crlfAt {bs : Bytes} {j : Nat} (h : crlfAt bs j = true) :
    bs.take (j + 2) = bs.take j ++ crlf := by
  have hp : pairAt bs j = crlf := by simpa [crlfAt] using h
  have := List.take_append_drop j (bs.take (j + 2))
  rw [List.take_take] at this
  have e : min j (j + 2) = j := by omega
  rw [e] at this
  rw [← this]
  congr 1

theorem readHeaderS_consumed {bs rest : Bytes} {h : Header} (hr : readHeaderS bs = .ok (h, rest)) :
    ∃ pre, bs = pre ++ rest ∧
      ((h.version = 2 ∧ specHdrEnd bs = some pre.length) ∨
       (h.version = 1 ∧ (∃ line, pre = line ++ crlf) ∧ ∃ n, specHdrEnd bs = some n ∧ n ≤ pre.length)) := by
  unfold readHeaderS at hr
  split at hr
  · rename_i h13
    rw [isPrefixOf_take v2Ident bs 13 (by decide), isPrefixOf_take v1Ident bs 13 (by decide)] at hr
    split at hr
    · rename_i hv2
      obtain ⟨h16, _, hn, hle, _, hh, hrest⟩ := readV2S_ok hr
      refine ⟨bs.take (16 + ((bs.getD 14 0).toNat * 256 + (bs.getD 15 0).toNat)), ?_, Or.inl ⟨?_, ?_⟩⟩
      · rw [hrest, List.take_append_drop]
      · rw [hh]; exact v2Hdr_version _ _ _
      · unfold specHdrEnd
        rw [if_pos hv2, getElem?_getD (show 14 < bs.length by omega), getElem?_getD (show 15 < bs.length by omega)]
        simp only [List.length_take]
        congr 1
        omega
    · rename_i hv2
      split at hr
      · rename_i hv1
        obtain ⟨hv, _, m, hm1, _, hm3, hm4, hrest⟩ := readV1S_ok hr
        have hpre : bs.take (m + 1) = bs.take (m - 1) ++ crlf := by
          have := take_succ_succ_of_crlfAt hm4
          have e : m - 1 + 2 = m + 1 := by omega
          rw [e] at this; exact this
        obtain ⟨n, hn, hle⟩ := firstCRLFEnd_of_crlfAt hm4
        refine ⟨bs.take (m + 1), ?_, Or.inr ⟨hv, ⟨_, hpre⟩, n, ?_, ?_⟩⟩
        · rw [hrest, List.take_append_drop]
        · unfold specHdrEnd
          rw [if_neg hv2, if_pos hv1]; exact hn
        · simp [List.length_take]; omega
      · cases hr
  · cases hr

theorem v2Hdr_ok (b12 fam : UInt8) (body : Bytes) : HdrOK (v2Hdr b12 fam body) := by
  unfold v2Hdr
  dsimp only
  split
  · exact Or.inr ⟨rfl, rfl⟩
  · split
    · exact Or.inl ⟨rfl, rfl⟩
    · split
      · exact Or.inl ⟨rfl, rfl⟩
      · exact Or.inr ⟨rfl, rfl⟩

/-- every accepted header, for every input, has both addresses or neither -/
theorem readHeaderS_addr {bs rest : Bytes} {h : Header} (hr : readHeaderS bs = .ok (h, rest)) : HdrOK h := by
  unfold readHeaderS at hr
  split at hr
  · rename_i h13
    split at hr
    · obtain ⟨_, _, _, _, _, hh, _⟩ := readV2S_ok hr
      rw [hh]
      exact v2Hdr_ok _ _ _
    · split at hr
      · exact (readV1S_ok hr).2.1
      · cases hr
  · cases hr

end C08
end FwdVerif
