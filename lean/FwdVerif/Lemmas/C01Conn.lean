/-
  C01 — helper lemmas for `Model/C01.lean`: interleavings are permutations of the concatenation, a
  schedule's outcomes per connection, and the connection loop with the pipeline as its decision
  function.  Core-only.
-/
import FwdVerif.Model.C01
import FwdVerif.Model.ReqSpec
import FwdVerif.Lemmas.ReqSeq
import FwdVerif.Lemmas.ReqConn

namespace FwdVerif
namespace C01

open Req Ascii
open ReqConn (ReqHead Disp Drain Acted Item End BodyParts)

/-! ### interleavings -/

theorem flatten_all_nil {α : Type} (cs : List (List α)) (h : ∀ c ∈ cs, c = []) : cs.flatten = [] := by
  induction cs with
  | nil => rfl
  | cons c cs ih =>
    rw [List.flatten_cons, h c List.mem_cons_self, ih (fun c' hc' => h c' (List.mem_cons_of_mem _ hc'))]
    rfl

/-- an interleaving is a permutation of the lists put one after the other -/
theorem Interleaving.perm {α : Type} {cs : List (List α)} {es : List α} (h : Interleaving cs es) :
    es.Perm cs.flatten := by
  induction h with
  | done hnil => rw [flatten_all_nil _ hnil]
  | @take pre post c es x _ ih =>
    have e1 : (pre ++ (x :: c) :: post).flatten = pre.flatten ++ x :: (c ++ post.flatten) := by
      simp [List.flatten_append, List.flatten_cons]
    have e2 : (pre ++ c :: post).flatten = pre.flatten ++ (c ++ post.flatten) := by
      simp [List.flatten_append, List.flatten_cons]
    rw [e1]
    rw [e2] at ih
    exact (List.Perm.cons x ih).trans List.perm_middle.symm

/-- … that keeps the order inside every list: each list is a subsequence of the merge -/
theorem Interleaving.sublist {α : Type} {cs : List (List α)} {es : List α} (h : Interleaving cs es) :
    ∀ c ∈ cs, c.Sublist es := by
  induction h with
  | done hnil =>
    intro c hc
    rw [hnil c hc]
    exact List.Sublist.refl _
  | @take pre post c es x _ ih =>
    intro c' hc'
    rcases List.mem_append.mp hc' with hp | hp
    · exact (ih c' (List.mem_append_left _ hp)).cons x
    · rcases List.mem_cons.mp hp with rfl | hp
      · exact (ih c (List.mem_append_right _ List.mem_cons_self)).cons_cons x
      · exact (ih c' (List.mem_append_right _ (List.mem_cons_of_mem _ hp))).cons x

/-- the outcomes of a schedule are the outcomes of its events, one by one -/
theorem runSchedule_eq_map (st : ProcState) (s : Schedule) :
    runSchedule st s = s.map fun p => (p.1, eventAlone p.2) := by
  unfold runSchedule
  rw [runProcess_eq_map]
  induction s with
  | nil => rfl
  | cons p s ih => simp only [List.map_cons, List.zip_cons_cons, ih]

theorem connOutcomes_runSchedule (st : ProcState) (s : Schedule) (c : Nat) :
    connOutcomes c (runSchedule st s) = (connEvents c s).map eventAlone := by
  rw [runSchedule_eq_map]
  unfold connOutcomes connEvents
  induction s with
  | nil => rfl
  | cons p s ih =>
    simp only [List.map_cons, List.filter_cons]
    by_cases hp : (p.1 == c) = true
    · simp only [hp, if_true, List.map_cons, ih]
    · simp only [hp, Bool.false_eq_true, if_false, ih]

/-! ### the connection loop with the pipeline as decision function -/

theorem dispOf_refused_isNone (oc : Bool) (h : ReqHead) (o : Outcome) :
    (dispOf oc h o).refused.isNone = isFwd o := by
  cases o <;> rfl

theorem pipeDecide_refused_isNone (cfg : Cfg) (ctx : Ctx) (oc : ReqHead → Bool) (h : ReqHead) :
    (pipeDecide cfg ctx oc h).refused.isNone = isFwd (processRequest cfg ctx (ofHead h)) :=
  dispOf_refused_isNone _ _ _

/-- with the body drain the loop acts on the client's framing -/
theorem serveConn_always (cfg : Cfg) (ctx : Ctx) (oc : ReqHead → Bool) (inp : Bytes) :
    serveConn .always cfg ctx oc inp =
      ReqConn.cut (pipeDecide cfg ctx oc) (ReqConn.frames inp).1 (ReqConn.frames inp).2 :=
  ReqConn.serveAux_always _ _ inp

/-- the items acted on are a prefix of the framed ones -/
theorem serveConn_items (cfg : Cfg) (ctx : Ctx) (oc : ReqHead → Bool) (inp : Bytes) :
    (serveConn .always cfg ctx oc inp).1.map Acted.item =
      (ReqConn.frames inp).1.take (serveConn .always cfg ctx oc inp).1.length := by
  rw [serveConn_always]
  exact ReqConn.cut_items _ _ _

theorem serveConn_disp (cfg : Cfg) (ctx : Ctx) (oc : ReqHead → Bool) (inp : Bytes) :
    ∀ a ∈ (serveConn .always cfg ctx oc inp).1, a.disp = pipeDecide cfg ctx oc a.head := by
  rw [serveConn_always]
  exact ReqConn.cut_disp _ _ _

/-- filtering the acted requests by "not answered locally" is filtering their items by "the pipeline
    forwards" -/
theorem forwarded_eq_filter (cfg : Cfg) (ctx : Ctx) (oc : ReqHead → Bool) (as : List Acted)
    (hd : ∀ a ∈ as, a.disp = pipeDecide cfg ctx oc a.head) :
    ReqConn.forwarded as =
      (as.map Acted.item).filter fun i => isFwd (processRequest cfg ctx (ofHead i.head)) := by
  unfold ReqConn.forwarded
  induction as with
  | nil => rfl
  | cons a as ih =>
    have ha := hd a List.mem_cons_self
    have ih' := ih (fun a' ha' => hd a' (List.mem_cons_of_mem _ ha'))
    have hk : a.disp.refused.isNone = isFwd (processRequest cfg ctx (ofHead a.item.head)) := by
      rw [ha]
      exact pipeDecide_refused_isNone cfg ctx oc a.head
    simp only [List.filter_cons, List.map_cons, hk]
    split
    · simp only [List.map_cons, ih']
    · exact ih'

end C01
end FwdVerif
