/-
  C08 helper lemmas, part 1: the `Res` monad, Go slice expressions on the 232-byte buffer,
  and the invariant "the buffer holds the first k bytes of the stream, zero-padded".
-/
import FwdVerif.Model.C08

namespace FwdVerif
namespace C08

/-! ### `Res` -/

@[simp] theorem bind_ok {α β} (a : α) (f : α → Res β) : (Res.ok a >>= f) = f a := rfl
@[simp] theorem bind_err {α β} (e : Err) (f : α → Res β) : ((Res.err e : Res α) >>= f) = .err e := rfl
@[simp] theorem bind_panic {α β} (f : α → Res β) : ((Res.panic : Res α) >>= f) = .panic := rfl
@[simp] theorem pure_eq {α} (a : α) : (pure a : Res α) = .ok a := rfl

theorem bind_eq_ok {α β} {x : Res α} {f : α → Res β} {b : β} :
    (x >>= f) = .ok b ↔ ∃ a, x = .ok a ∧ f a = .ok b := by
  cases x <;> simp

theorem bind_ne_panic {α β} {x : Res α} {f : α → Res β}
    (hx : x ≠ .panic) (hf : ∀ a, x = .ok a → f a ≠ .panic) : (x >>= f) ≠ .panic := by
  cases x with
  | ok a => simpa using hf a rfl
  | err e => simp
  | panic => exact absurd rfl hx

/-! ### the buffer -/

/-- the buffer after the first `k` bytes of `bs` were read into it -/
def mkBuf (bs : Bytes) (k : Nat) : Bytes := bs.take k ++ List.replicate (232 - k) 0

theorem mkBuf_zero (bs : Bytes) : mkBuf bs 0 = bufInit := by
  simp [mkBuf, bufInit]

theorem mkBuf_length {bs : Bytes} {k : Nat} (hk : k ≤ bs.length) (h2 : k ≤ 232) :
    (mkBuf bs k).length = 232 := by
  simp [mkBuf, List.length_take]; omega

theorem sl_mkBuf {bs : Bytes} {k lo hi : Nat} (hk : k ≤ bs.length) (h2 : k ≤ 232)
    (hlo : lo ≤ hi) (hhi : hi ≤ k) : sl (mkBuf bs k) lo hi = .ok ((bs.take hi).drop lo) := by
  have hlen := mkBuf_length hk h2
  unfold sl
  rw [if_pos ⟨hlo, by omega⟩]
  congr 2
  unfold mkBuf
  rw [List.take_append_of_le_length (by simp [List.length_take]; omega)]
  rw [List.take_take]
  congr 1
  omega

theorem ix_mkBuf {bs : Bytes} {k i : Nat} (hk : k ≤ bs.length) (hi : i < k) :
    ix (mkBuf bs k) i = ix bs i := by
  unfold ix mkBuf
  rw [List.getElem?_append_left (by simp [List.length_take]; omega)]
  rw [List.getElem?_take_of_lt hi]

theorem take_add_drop' (bs : Bytes) {k hi : Nat} (hkh : k ≤ hi) :
    bs.take k ++ (bs.drop k).take (hi - k) = bs.take hi := by
  have := List.take_add (l := bs) (i := k) (j := hi - k)
  rw [← this]; congr 1; omega

theorem mkBuf_drop {bs : Bytes} {k hi : Nat} (hk : k ≤ bs.length) (hkh : k ≤ hi) (h2 : hi ≤ 232) :
    (mkBuf bs k).drop hi = List.replicate (232 - hi) 0 := by
  unfold mkBuf
  rw [List.drop_append]
  have : (List.take k bs).length = k := by simp [List.length_take]; omega
  rw [this, List.drop_eq_nil_of_le (by omega)]
  simp
  omega

theorem mkBuf_take {bs : Bytes} {k : Nat} (hk : k ≤ bs.length) :
    (mkBuf bs k).take k = bs.take k := by
  unfold mkBuf
  rw [List.take_append_of_le_length (by simp [List.length_take]; omega)]
  simp [List.take_take]

theorem readFullInto_mkBuf {bs : Bytes} {k hi : Nat} (e : Err) (hk : k ≤ bs.length)
    (hkh : k ≤ hi) (h2 : hi ≤ 232) :
    readFullInto (mkBuf bs k) (bs.drop k) k hi e =
      if hi ≤ bs.length then .ok (mkBuf bs hi, bs.drop hi) else .err e := by
  have hlen := mkBuf_length hk (by omega : k ≤ 232)
  unfold readFullInto
  rw [if_pos ⟨hkh, by omega⟩]
  by_cases h : hi ≤ bs.length
  · rw [if_pos (by simp; omega), if_pos h]
    congr 2
    · rw [mkBuf_take hk, mkBuf_drop hk hkh h2, take_add_drop' bs hkh]
      rfl
    · simp [List.drop_drop]; congr 1; omega
  · rw [if_neg (by simp; omega), if_neg h]

/-- one byte stored at `buf[idx]` by the 1-byte `Read` of `readUntilCRLF` -/
theorem mkBuf_store {bs : Bytes} {idx : Nat} (h : idx < bs.length) (h2 : idx + 1 ≤ 232) :
    (mkBuf bs idx).take idx ++ bs[idx] :: (mkBuf bs idx).drop (idx + 1) = mkBuf bs (idx + 1) := by
  rw [mkBuf_take (by omega), mkBuf_drop (by omega) (by omega) h2]
  unfold mkBuf
  rw [List.take_succ_eq_append_getElem h, List.append_assoc]
  rfl

end C08
end FwdVerif
