/-
  C19 — helper lemmas: the cut functions on assembled strings, the per-flag renderings,
  and the assembly of the configuration dump.
-/
import FwdVerif.Model.C19

namespace FwdVerif
namespace C19

/-! ### cut functions -/

theorem cutByte_none (c : UInt8) (s : Bytes) (h : c ∉ s) : cutByte c s = none := by
  induction s with
  | nil => rfl
  | cons x xs ih =>
    have hx : x ≠ c := fun e => h (by simp [e])
    have hxs : c ∉ xs := fun m => h (List.mem_cons_of_mem _ m)
    simp [cutByte, hx, ih hxs]

theorem cutByte_append (c : UInt8) (a r : Bytes) (h : c ∉ a) :
    cutByte c (a ++ c :: r) = some (a, r) := by
  induction a with
  | nil => simp [cutByte]
  | cons x xs ih =>
    have hx : x ≠ c := fun e => h (by simp [e])
    have hxs : c ∉ xs := fun m => h (List.mem_cons_of_mem _ m)
    simp [cutByte, hx, ih hxs]

theorem cutLastByte_none (c : UInt8) (s : Bytes) (h : c ∉ s) : cutLastByte c s = none := by
  induction s with
  | nil => rfl
  | cons x xs ih =>
    have hx : x ≠ c := fun e => h (by simp [e])
    have hxs : c ∉ xs := fun m => h (List.mem_cons_of_mem _ m)
    simp [cutLastByte, hx, ih hxs]

theorem cutLastByte_append (c : UInt8) (a r : Bytes) (h : c ∉ r) :
    cutLastByte c (a ++ c :: r) = some (a, r) := by
  induction a with
  | nil => simp [cutLastByte, cutLastByte_none c r h]
  | cons x xs ih => simp [cutLastByte, ih]

theorem countByte_zero (c : UInt8) (s : Bytes) (h : c ∉ s) : countByte c s = 0 := by
  induction s with
  | nil => rfl
  | cons x xs ih =>
    have hx : x ≠ c := fun e => h (by simp [e])
    have hxs : c ∉ xs := fun m => h (List.mem_cons_of_mem _ m)
    simp [countByte, hx, ih hxs]

theorem countByte_append (c : UInt8) (a r : Bytes) :
    countByte c (a ++ r) = countByte c a + countByte c r := by
  induction a with
  | nil => simp [countByte]
  | cons x xs ih => simp [countByte, ih, Nat.add_assoc]

theorem cutSub_scheme (scheme rest : Bytes) (h : schemeOK scheme = true) :
    cutSub schemeSep (scheme ++ schemeSep ++ rest) = some (scheme, rest) := by
  simp only [schemeOK, Bool.or_eq_true, beq_iff_eq] at h
  rcases h with (h | h) | h <;> subst h <;>
    simp [cutSub, schemeSep, schemeHttp, schemeHttps, schemeSocks5, List.isPrefixOf]

theorem dataPrefix_isPrefixOf (p : Bytes) : dataPrefix.isPrefixOf (dataPrefix ++ p) = true := by
  simp [dataPrefix, List.isPrefixOf]

/-- any spelling of the scheme: five bytes that lower-case to `data:` -/
theorem isDataURI_of_spelling (sch p : Bytes) (h : sch.map Ascii.toLower = dataPrefix) :
    isDataURI (sch ++ p) = true := by
  have hl : sch.length = 5 := by
    have := congrArg List.length h
    simpa [dataPrefix] using this
  have ht : (sch ++ p).take 5 = sch := by
    rw [← hl]; exact List.take_left
  simp [isDataURI, ht, h]

theorem isDataURI_dataPrefix (p : Bytes) : isDataURI (dataPrefix ++ p) = true :=
  isDataURI_of_spelling dataPrefix p (by decide)

/-! ### per-flag renderings -/

theorem parseUserinfo_raw (u : UserPub) (pw : Bytes) (h : u.ok) :
    parseUserinfo (u.raw pw) = some ⟨u.user, if u.hasPass then some pw else none⟩ := by
  obtain ⟨hne, hcol⟩ := h
  unfold UserPub.raw parseUserinfo
  cases hp : u.hasPass with
  | true =>
    have hne' : u.user ++ cColon :: pw ≠ [] := by simp
    simp [hne', cutByte_append cColon u.user pw hcol, hne]
  | false =>
    simp [hne, cutByte_none cColon u.user hcol]

theorem describe_userinfo (u : UserPub) (pw : Bytes) (h : u.ok) :
    describeValue .userinfo (u.raw pw) = some u.shown := by
  simp only [describeValue, parseUserinfo_raw u pw h, Option.map_some, UserPub.shown]
  cases u.hasPass <;> simp [redactUserinfo]

theorem at_notin_userRaw (u : UserPub) (pw : Bytes) (hu : cAt ∉ u.user) (hp : cAt ∉ pw) :
    cAt ∉ u.raw pw := by
  unfold UserPub.raw
  cases u.hasPass with
  | false => simpa using hu
  | true =>
    simp only [if_true, List.mem_append, List.mem_cons, not_or]
    exact ⟨hu, by decide, hp⟩

theorem describe_proxy (p : ProxyPub) (pw : Bytes) (h : p.ok) (hpw : cAt ∉ pw) :
    describeValue .proxyURL (p.raw pw) = some p.shown := by
  obtain ⟨hs, hh, hat, hu⟩ := h
  cases hpu : p.user with
  | none =>
    have hraw : p.raw pw = p.scheme ++ schemeSep ++ p.hostport := by
      simp [ProxyPub.raw, hpu]
    simp only [describeValue, hraw, parseProxyURL, cutSub_scheme p.scheme p.hostport hs,
      countByte_zero cAt p.hostport hat, cutByte_none cAt p.hostport hat]
    simp [hs, hh, redactURL, ProxyPub.shown, hpu]
  | some u =>
    obtain ⟨huok, huat⟩ := hu u hpu
    have hnot := at_notin_userRaw u pw huat hpw
    have hraw : p.raw pw = p.scheme ++ schemeSep ++ (u.raw pw ++ cAt :: p.hostport) := by
      simp [ProxyPub.raw, hpu]
    have hcount : countByte cAt (u.raw pw ++ cAt :: p.hostport) = 1 := by
      rw [countByte_append, countByte_zero cAt _ hnot]
      simp [countByte, countByte_zero cAt p.hostport hat]
    simp only [describeValue, hraw, parseProxyURL, cutSub_scheme p.scheme _ hs, hcount,
      cutByte_append cAt (u.raw pw) p.hostport hnot, parseUserinfo_raw u pw huok]
    cases hpass : u.hasPass <;>
      simp [hs, hh, redactURL, userinfoRedacted, ProxyPub.shown, hpu, hpass]

/-- the `--proxy` value written without `scheme://` in front (the parser then assumes `http`) -/
def ProxyPub.rawBare (p : ProxyPub) (pw : Bytes) : Bytes :=
  (match p.user with
   | some u => u.raw pw ++ [cAt]
   | none => []) ++ p.hostport

theorem describe_proxy_bare (p : ProxyPub) (pw : Bytes) (h : p.ok) (hsch : p.scheme = schemeHttp)
    (hpw : cAt ∉ pw) (hcut : cutSub schemeSep (p.rawBare pw) = none) :
    describeValue .proxyURL (p.rawBare pw) = some p.shown := by
  obtain ⟨hs, hh, hat, hu⟩ := h
  cases hpu : p.user with
  | none =>
    have hraw : p.rawBare pw = p.hostport := by simp [ProxyPub.rawBare, hpu]
    rw [hraw] at hcut
    simp only [describeValue, hraw, parseProxyURL, hcut,
      countByte_zero cAt p.hostport hat, cutByte_none cAt p.hostport hat]
    simp [hh, redactURL, ProxyPub.shown, hpu, hsch, schemeOK]
  | some u =>
    obtain ⟨huok, huat⟩ := hu u hpu
    have hnot := at_notin_userRaw u pw huat hpw
    have hraw : p.rawBare pw = u.raw pw ++ cAt :: p.hostport := by
      simp [ProxyPub.rawBare, hpu]
    rw [hraw] at hcut
    have hcount : countByte cAt (u.raw pw ++ cAt :: p.hostport) = 1 := by
      rw [countByte_append, countByte_zero cAt _ hnot]
      simp [countByte, countByte_zero cAt p.hostport hat]
    simp only [describeValue, hraw, parseProxyURL, hcut, hcount,
      cutByte_append cAt (u.raw pw) p.hostport hnot, parseUserinfo_raw u pw huok]
    cases hpass : u.hasPass <;>
      simp [hh, redactURL, userinfoRedacted, ProxyPub.shown, hpu, hpass, hsch, schemeOK]

theorem portOK_of (port : Bytes) (h : port = [cStar] ∨ portDigitsOK port = true) :
    portDigitsOK (if port = [cStar] then [48] else port) = true := by
  by_cases hs : port = [cStar]
  · simp only [hs, if_true]; decide
  · simp only [hs, if_false]
    rcases h with h | h
    · exact absurd h hs
    · exact h

theorem describe_cred (c : CredPub) (pw : Bytes) (h : c.ok) :
    describeValue .hostPortUser (c.raw pw) = some c.shown := by
  obtain ⟨hu, hhost, hath, hcolp, hatp, hport⟩ := h
  have hnot : cAt ∉ c.host ++ cColon :: c.port := by
    simp only [List.mem_append, List.mem_cons, not_or]
    exact ⟨hath, by decide, hatp⟩
  have hraw : c.raw pw = c.user.raw pw ++ cAt :: (c.host ++ cColon :: c.port) := by
    simp [CredPub.raw]
  have hp := portOK_of c.port hport
  simp only [describeValue, hraw, parseHostPortUser, cutLastByte_append cAt _ _ hnot,
    parseUserinfo_raw c.user pw hu, parseHostPort, cutLastByte_append cColon c.host c.port hcolp]
  simp only [hhost, hp, Bool.and_self, if_true, Option.map_some, CredPub.shown, UserPub.shown]
  cases c.user.hasPass <;> simp [redactHostPortUser]

theorem describe_file (f : FilePub) (payload : Bytes) (h : f.ok) :
    describeValue .file (f.raw payload) = some f.shown := by
  cases f with
  | path p =>
    simp only [FilePub.ok] at h
    simp [describeValue, FilePub.raw, FilePub.shown, redactBase64, h]
  | data =>
    simp [describeValue, FilePub.raw, FilePub.shown, redactBase64, isDataURI_dataPrefix]

/-! ### lists of values -/

theorem mapOpt_optRaw {α : Type} (k : Kind) (f : α → Bytes → Bytes) (g : α → Bytes)
    (x : Option α) (s : Bytes) (h : ∀ a, x = some a → describeValue k (f a s) = some (g a)) :
    mapOpt (describeValue k) (optRaw f x s) = some (optShown g x) := by
  cases x with
  | none => rfl
  | some a => simp [optRaw, optShown, mapOpt, h a rfl]

theorem mapOpt_rawsFrom {α : Type} (k : Kind) (f : α → Bytes → Bytes) (g : α → Bytes)
    (l : List α) (i : Nat) (s : Nat → Bytes)
    (h : ∀ a ∈ l, ∀ pw, describeValue k (f a pw) = some (g a)) :
    mapOpt (describeValue k) (rawsFrom f l i s) = some (l.map g) := by
  induction l generalizing i with
  | nil => rfl
  | cons a r ih =>
    have ha := h a (by simp) (s i)
    have hr := ih (i + 1) (fun b hb pw => h b (List.mem_cons_of_mem _ hb) pw)
    simp [rawsFrom, mapOpt, ha, hr]

theorem describeFlag_of (fmt : Format) (n : String) (k : Kind) (sl : Bool) (raws vs : List Bytes)
    (h : mapOpt (describeValue k) raws = some vs) :
    describeFlag fmt ⟨n, k, sl, raws⟩ = some (ascii n ++ 61 :: renderValues fmt sl k vs) := by
  simp [describeFlag, h]

/-- the dump of an admissible configuration is the public rendering, whatever the secrets are -/
theorem describe_eq_shown (fmt : Format) (p : ConfigPub) (s : Secrets) (hp : p.ok) (hs : s.ok) :
    describe fmt ⟨p, s⟩ = some (shown fmt p) := by
  obtain ⟨hba, haba, hpx, hcr, htc, htk, hmc, hmk, hca⟩ := hp
  have e1 := describeFlag_of fmt "api-basic-auth" .userinfo false _ _
    (mapOpt_optRaw .userinfo UserPub.raw UserPub.shown p.apiBasicAuth s.apiBasicAuth
      (fun a ha => describe_userinfo a _ (haba a ha)))
  have e2 := describeFlag_of fmt "basic-auth" .userinfo false _ _
    (mapOpt_optRaw .userinfo UserPub.raw UserPub.shown p.basicAuth s.basicAuth
      (fun a ha => describe_userinfo a _ (hba a ha)))
  have e3 := describeFlag_of fmt "cacert-file" .file true _ _
    (mapOpt_rawsFrom .file FilePub.raw FilePub.shown p.cacerts 0 s.cacerts
      (fun a ha pw => describe_file a pw (hca a ha)))
  have e4 := describeFlag_of fmt "credentials" .hostPortUser true _ _
    (mapOpt_rawsFrom .hostPortUser CredPub.raw CredPub.shown p.credentials 0 s.credentials
      (fun a ha pw => describe_cred a pw (hcr a ha)))
  have e5 := describeFlag_of fmt "mitm-cacert-file" .file false _ _
    (mapOpt_optRaw .file FilePub.raw FilePub.shown p.mitmCert s.mitmCert
      (fun a ha => describe_file a _ (hmc a ha)))
  have e6 := describeFlag_of fmt "mitm-cakey-file" .file false _ _
    (mapOpt_optRaw .file FilePub.raw FilePub.shown p.mitmKey s.mitmKey
      (fun a ha => describe_file a _ (hmk a ha)))
  have e7 := describeFlag_of fmt "proxy" .proxyURL false _ _
    (mapOpt_optRaw .proxyURL ProxyPub.raw ProxyPub.shown p.proxy s.proxy
      (fun a ha => describe_proxy a _ (hpx a ha) hs))
  have e8 := describeFlag_of fmt "tls-cert-file" .file false _ _
    (mapOpt_optRaw .file FilePub.raw FilePub.shown p.tlsCert s.tlsCert
      (fun a ha => describe_file a _ (htc a ha)))
  have e9 := describeFlag_of fmt "tls-key-file" .file false _ _
    (mapOpt_optRaw .file FilePub.raw FilePub.shown p.tlsKey s.tlsKey
      (fun a ha => describe_file a _ (htk a ha)))
  simp only [describe, describeFlags, settings, mapOpt, e1, e2, e3, e4, e5, e6, e7, e8, e9,
    Option.map_some, shown, shownLines]
  cases fmt <;> rfl

/-! ### error texts that render a flag value -/

theorem firstRejected_none_of_mapOpt (k : Kind) (raws vs : List Bytes)
    (h : mapOpt (describeValue k) raws = some vs) : firstRejected k raws = none := by
  induction raws generalizing vs with
  | nil => rfl
  | cons r rs ih =>
    cases hr : describeValue k r with
    | none => simp [mapOpt, hr] at h
    | some v =>
      cases hrs : mapOpt (describeValue k) rs with
      | none => simp [mapOpt, hr, hrs] at h
      | some ws => simp [firstRejected, hr, ih ws hrs]

/-- an admissible configuration has no rejected value, whatever the secrets are -/
theorem flagErrors_admissible (p : ConfigPub) (s : Secrets) (hp : p.ok) (hs : s.ok) :
    flagErrors (settings ⟨p, s⟩) = [] := by
  obtain ⟨hba, haba, hpx, hcr, htc, htk, hmc, hmk, hca⟩ := hp
  have e1 := firstRejected_none_of_mapOpt .userinfo _ _
    (mapOpt_optRaw .userinfo UserPub.raw UserPub.shown p.apiBasicAuth s.apiBasicAuth
      (fun a ha => describe_userinfo a _ (haba a ha)))
  have e2 := firstRejected_none_of_mapOpt .userinfo _ _
    (mapOpt_optRaw .userinfo UserPub.raw UserPub.shown p.basicAuth s.basicAuth
      (fun a ha => describe_userinfo a _ (hba a ha)))
  have e3 := firstRejected_none_of_mapOpt .file _ _
    (mapOpt_rawsFrom .file FilePub.raw FilePub.shown p.cacerts 0 s.cacerts
      (fun a ha pw => describe_file a pw (hca a ha)))
  have e4 := firstRejected_none_of_mapOpt .hostPortUser _ _
    (mapOpt_rawsFrom .hostPortUser CredPub.raw CredPub.shown p.credentials 0 s.credentials
      (fun a ha pw => describe_cred a pw (hcr a ha)))
  have e5 := firstRejected_none_of_mapOpt .file _ _
    (mapOpt_optRaw .file FilePub.raw FilePub.shown p.mitmCert s.mitmCert
      (fun a ha => describe_file a _ (hmc a ha)))
  have e6 := firstRejected_none_of_mapOpt .file _ _
    (mapOpt_optRaw .file FilePub.raw FilePub.shown p.mitmKey s.mitmKey
      (fun a ha => describe_file a _ (hmk a ha)))
  have e7 := firstRejected_none_of_mapOpt .proxyURL _ _
    (mapOpt_optRaw .proxyURL ProxyPub.raw ProxyPub.shown p.proxy s.proxy
      (fun a ha => describe_proxy a _ (hpx a ha) hs))
  have e8 := firstRejected_none_of_mapOpt .file _ _
    (mapOpt_optRaw .file FilePub.raw FilePub.shown p.tlsCert s.tlsCert
      (fun a ha => describe_file a _ (htc a ha)))
  have e9 := firstRejected_none_of_mapOpt .file _ _
    (mapOpt_optRaw .file FilePub.raw FilePub.shown p.tlsKey s.tlsKey
      (fun a ha => describe_file a _ (htk a ha)))
  simp [flagErrors, settings, e1, e2, e3, e4, e5, e6, e7, e8, e9]

theorem escape_plain (s : Bytes) (h1 : (34 : UInt8) ∉ s) (h2 : (92 : UInt8) ∉ s) :
    (s.flatMap fun c => if c == 34 || c == 92 then [92, c] else [c]) = s := by
  induction s with
  | nil => rfl
  | cons x xs ih =>
    have hx1 : x ≠ 34 := fun e => h1 (by simp [e])
    have hx2 : x ≠ 92 := fun e => h2 (by simp [e])
    have hr := ih (fun m => h1 (List.mem_cons_of_mem _ m)) (fun m => h2 (List.mem_cons_of_mem _ m))
    have hc : (x == 34 || x == 92) = false := by simp [hx1, hx2]
    rw [List.flatMap_cons, hr, hc]
    rfl

/-- a value without `"` and `\` is quoted as itself between two `"` -/
theorem quoteAscii_plain (s : Bytes) (h1 : (34 : UInt8) ∉ s) (h2 : (92 : UInt8) ∉ s) :
    quoteAscii s = 34 :: s ++ [34] := by
  unfold quoteAscii
  rw [escape_plain s h1 h2]

theorem infix_echoedValue (src : Source) (slice : Bool) (raw : Bytes)
    (h1 : (34 : UInt8) ∉ raw) (h2 : (92 : UInt8) ∉ raw) : raw <:+: echoedValue src slice [raw] := by
  have hq : raw <:+: quoteAscii raw := by
    rw [quoteAscii_plain raw h1 h2]
    exact ⟨[34], [34], by simp⟩
  cases src <;> cases slice <;> simp only [echoedValue, joinWith, List.map]
  all_goals first
    | exact hq
    | exact hq.trans ⟨[91], [93], by simp⟩

/-! ### `redactDataURI` (tls.go): the debug record "loading TLS certificate", the CA certificate error -/

theorem redactDataURI_data (payload : Bytes) :
    redactDataURI (dataPrefix ++ payload) = dataPrefix ++ placeholder := by
  simp [redactDataURI, isDataURI_dataPrefix]

theorem redactDataURI_path (p : Bytes) (h : isDataURI p = false) : redactDataURI p = p := by
  simp [redactDataURI, h]

/-- what is printed of a file-valued flag is what may be shown of it -/
theorem redactDataURI_raw (f : FilePub) (payload : Bytes) (h : f.ok) :
    redactDataURI (f.raw payload) = f.shown := by
  cases f with
  | path p => exact redactDataURI_path p h
  | data => exact redactDataURI_data payload

/-- without any hypothesis: the payload has no influence on what is printed -/
theorem redactDataURI_raw_indep (f : FilePub) (payload₁ payload₂ : Bytes) :
    redactDataURI (f.raw payload₁) = redactDataURI (f.raw payload₂) := by
  cases f with
  | path p => rfl
  | data => simp only [FilePub.raw, redactDataURI_data]

theorem dataPrefix_append_ne_nil (payload : Bytes) : dataPrefix ++ payload ≠ [] := by
  simp [dataPrefix]

theorem redactDataURI_optRaw (f : Option FilePub) (payload : Bytes) (h : ∀ x, f = some x → x.ok) :
    redactDataURI (optFileRaw f payload) = optFileShown f := by
  cases f with
  | none => rfl
  | some x => exact redactDataURI_raw x payload (h x rfl)

theorem redactDataURI_optRaw_indep (f : Option FilePub) (payload₁ payload₂ : Bytes) :
    redactDataURI (optFileRaw f payload₁) = redactDataURI (optFileRaw f payload₂) := by
  cases f with
  | none => rfl
  | some x => exact redactDataURI_raw_indep x payload₁ payload₂

/-- whether a file-valued flag counts as "not given" does not depend on the payload … -/
theorem optFileRaw_nil_indep (f : Option FilePub) (payload₁ payload₂ : Bytes) :
    optFileRaw f payload₁ = [] ↔ optFileRaw f payload₂ = [] := by
  cases f with
  | none => exact Iff.rfl
  | some x =>
    cases x with
    | path p => exact Iff.rfl
    | data =>
      exact ⟨fun h => absurd h (dataPrefix_append_ne_nil payload₁),
        fun h => absurd h (dataPrefix_append_ne_nil payload₂)⟩

/-- … and can be read off the public part -/
theorem optFileRaw_nil_iff (f : Option FilePub) (payload : Bytes) :
    optFileRaw f payload = [] ↔ optFileShown f = [] := by
  cases f with
  | none => exact Iff.rfl
  | some x =>
    cases x with
    | path p => exact Iff.rfl
    | data =>
      exact ⟨fun h => absurd h (dataPrefix_append_ne_nil payload),
        fun h => absurd h (dataPrefix_append_ne_nil placeholder)⟩

theorem tlsLoadLine_indep (p : ConfigPub) (s₁ s₂ : Secrets) :
    tlsLoadLine ⟨p, s₁⟩ = tlsLoadLine ⟨p, s₂⟩ := by
  simp only [tlsLoadLine, tlsLoadAttrs,
    optFileRaw_nil_indep p.tlsCert s₁.tlsCert s₂.tlsCert, optFileRaw_nil_indep p.tlsKey s₁.tlsKey s₂.tlsKey,
    redactDataURI_optRaw_indep p.tlsCert s₁.tlsCert s₂.tlsCert,
    redactDataURI_optRaw_indep p.tlsKey s₁.tlsKey s₂.tlsKey]

theorem tlsLoadLine_eq_shown (p : ConfigPub) (s : Secrets)
    (hc : ∀ f, p.tlsCert = some f → f.ok) (hk : ∀ f, p.tlsKey = some f → f.ok) :
    tlsLoadLine ⟨p, s⟩ = tlsLoadShown p := by
  simp only [tlsLoadLine, tlsLoadAttrs, tlsLoadShown,
    optFileRaw_nil_iff p.tlsCert s.tlsCert, optFileRaw_nil_iff p.tlsKey s.tlsKey,
    redactDataURI_optRaw p.tlsCert s.tlsCert hc, redactDataURI_optRaw p.tlsKey s.tlsKey hk]

theorem caCertErrorText_indep (f : FilePub) (payload₁ payload₂ : Bytes) :
    caCertErrorText (f.raw payload₁) = caCertErrorText (f.raw payload₂) := by
  simp only [caCertErrorText, redactDataURI_raw_indep f payload₁ payload₂]

/-! ### infix facts -/

theorem infix_mid (a x b : Bytes) : x <:+: a ++ x ++ b := ⟨a, b, rfl⟩

theorem not_infix_of_missing_byte (s t : Bytes) (c : UInt8) (hc : c ∈ s) (hn : c ∉ t) :
    ¬ s <:+: t := by
  rintro ⟨a, r, rfl⟩
  exact hn (by simp [hc])

theorem isInfix_iff (s t : Bytes) : isInfix s t = true ↔ s <:+: t := by
  induction t with
  | nil =>
    simp [isInfix, List.isEmpty_iff]
  | cons x xs ih =>
    simp only [isInfix, Bool.or_eq_true, ih, List.isPrefixOf_iff_prefix, List.infix_cons_iff]

/-! ### PAC: the credentials table and what `pacProxy` lets out of it -/

/-- the flag's parser reads an admissible entry as `CredPub.entry` -/
theorem parseHostPortUser_raw (c : CredPub) (pw : Bytes) (h : c.ok) :
    parseHostPortUser (c.raw pw) = some (c.entry pw) := by
  obtain ⟨hu, hhost, hath, hcolp, hatp, hport⟩ := h
  have hnot : cAt ∉ c.host ++ cColon :: c.port := by
    simp only [List.mem_append, List.mem_cons, not_or]
    exact ⟨hath, by decide, hatp⟩
  have hraw : c.raw pw = c.user.raw pw ++ cAt :: (c.host ++ cColon :: c.port) := by
    simp [CredPub.raw]
  have hp := portOK_of c.port hport
  simp only [hraw, parseHostPortUser, cutLastByte_append cAt _ _ hnot,
    parseUserinfo_raw c.user pw hu, parseHostPort, cutLastByte_append cColon c.host c.port hcolp]
  simp only [hhost, hp, Bool.and_self, if_true, CredPub.entry]

theorem mapOpt_credTable (cs : List CredPub) (i : Nat) (s : Nat → Bytes) (h : ∀ c ∈ cs, c.ok) :
    mapOpt parseHostPortUser (rawsFrom CredPub.raw cs i s) = some (credTable cs i s) := by
  induction cs generalizing i with
  | nil => rfl
  | cons c r ih =>
    have hc := h c (List.mem_cons_self ..)
    have hr := ih (i + 1) fun x hx => h x (List.mem_cons_of_mem _ hx)
    simp only [rawsFrom, credTable, mapOpt, parseHostPortUser_raw c (s i) hc, hr]

/-- what is public of a table entry: everything but the password itself -/
structure CredView where
  host : Bytes
  port : Bytes
  user : Bytes
  hasPass : Bool
  deriving DecidableEq

def HostPortUser.view (e : HostPortUser) : CredView := ⟨e.host, e.port, e.ui.user, e.ui.pass.isSome⟩

theorem view_entry (c : CredPub) (pw₁ pw₂ : Bytes) : (c.entry pw₁).view = (c.entry pw₂).view := by
  simp only [HostPortUser.view, CredPub.entry]
  cases c.user.hasPass <;> rfl

theorem view_credTable (cs : List CredPub) (i : Nat) (s₁ s₂ : Nat → Bytes) :
    (credTable cs i s₁).map HostPortUser.view = (credTable cs i s₂).map HostPortUser.view := by
  induction cs generalizing i with
  | nil => rfl
  | cons c r ih => simp only [credTable, List.map_cons, view_entry c (s₁ i) (s₂ i), ih (i + 1)]

/-- a search whose test looks at the public part only finds entries with the same public part -/
theorem find_view (q : HostPortUser → Bool) (hq : ∀ a b : HostPortUser, a.view = b.view → q a = q b)
    (t₁ t₂ : List HostPortUser) (h : t₁.map HostPortUser.view = t₂.map HostPortUser.view) :
    (t₁.find? q).map HostPortUser.view = (t₂.find? q).map HostPortUser.view := by
  induction t₁ generalizing t₂ with
  | nil =>
    cases t₂ with
    | nil => rfl
    | cons b r => simp at h
  | cons a r ih =>
    cases t₂ with
    | nil => simp at h
    | cons b r₂ =>
      simp only [List.map_cons, List.cons.injEq] at h
      have hab := hq a b h.1
      simp only [List.find?_cons, ← hab]
      cases q a with
      | true => simp [h.1]
      | false => exact ih r₂ h.2

theorem view_host {a b : HostPortUser} (h : a.view = b.view) : a.host = b.host := by
  simpa [HostPortUser.view] using congrArg CredView.host h

theorem view_port {a b : HostPortUser} (h : a.view = b.view) : a.port = b.port := by
  simpa [HostPortUser.view] using congrArg CredView.port h

/-- the matcher picks entries with the same public part from two tables with the same public part -/
theorem credMatch_view (t₁ t₂ : List HostPortUser) (host port : Bytes)
    (h : t₁.map HostPortUser.view = t₂.map HostPortUser.view) :
    (credMatch t₁ host port).map HostPortUser.view = (credMatch t₂ host port).map HostPortUser.view := by
  unfold credMatch
  simp only [Option.map_or]
  rw [find_view _ (fun a b hab => by rw [view_host hab, view_port hab]) t₁ t₂ h,
    find_view _ (fun a b hab => by rw [view_host hab, view_port hab]) t₁ t₂ h,
    find_view _ (fun a b hab => by rw [view_host hab, view_port hab]) t₁ t₂ h,
    find_view _ (fun a b hab => by rw [view_host hab, view_port hab]) t₁ t₂ h]

/-- the userinfo that may be shown of an entry -/
def CredView.ui (v : CredView) : Userinfo := ⟨v.user, if v.hasPass then some placeholder else none⟩

theorem pub_via_entry (u : ProxyURL) (e : HostPortUser) :
    (PacOutcome.via { u with user := some e.ui }).pub = .via { u with user := some e.view.ui } := by
  simp only [PacOutcome.pub, Option.map_some, HostPortUser.view, CredView.ui]
  rcases e with ⟨eh, ep, ⟨eu, _ | pw⟩⟩ <;> rfl

/-- the outcome of `pacProxy` with the password replaced depends on the public part of the table only -/
theorem pacProxy_pub_view (t₁ t₂ : List HostPortUser) (r : Bytes)
    (h : t₁.map HostPortUser.view = t₂.map HostPortUser.view) :
    (pacProxy t₁ r).pub = (pacProxy t₂ r).pub := by
  unfold pacProxy
  cases pacFirst r with
  | error e => rfl
  | ok p =>
    simp only
    split
    · rfl
    · cases hu : pacURL p with
      | none => rfl
      | some u =>
        have hm := credMatch_view t₁ t₂ p.host p.port h
        cases h₁ : credMatch t₁ p.host p.port with
        | none =>
          cases h₂ : credMatch t₂ p.host p.port with
          | none => rfl
          | some e₂ => simp [h₁, h₂] at hm
        | some e₁ =>
          cases h₂ : credMatch t₂ p.host p.port with
          | none => simp [h₁, h₂] at hm
          | some e₂ =>
            simp only [h₁, h₂, Option.map_some, Option.some.injEq] at hm
            simp only [pub_via_entry, hm]

/-- the error text of `pacProxy` does not look at the table -/
theorem pacProxy_errorText_table (t₁ t₂ : List HostPortUser) (r : Bytes) :
    (pacProxy t₁ r).errorText = (pacProxy t₂ r).errorText := by
  unfold pacProxy
  cases pacFirst r with
  | error e => rfl
  | ok p =>
    simp only
    split
    · rfl
    · cases pacURL p with
      | none => rfl
      | some u =>
        cases credMatch t₁ p.host p.port <;> cases credMatch t₂ p.host p.port <;> rfl

/-- the rendering of an outcome does not look at the password -/
theorem logged_pub (o : PacOutcome) : o.pub.logged = o.logged := by
  cases o with
  | error t => rfl
  | direct => rfl
  | via u =>
    rcases u with ⟨sc, _ | ⟨uu, _ | pw⟩, h⟩ <;> rfl

end C19
end FwdVerif
