/-
  C11 — helper lemmas (part 7): registration against the drain.  Two facts about ONE step that make the
  trace-level theorems of section K (`Theorems/C11.lean`): a connection that has registered stays registered,
  and — once `closing` is set — a connection that has not registered yet either stays so or registers MARKED
  (`regClosing`), i.e. is never served.
-/
import FwdVerif.Lemmas.C11Progress
import FwdVerif.Lemmas.C11Ctx

namespace FwdVerif
namespace C11

theorem applyEff_conns (s : State) (c : ConnId) (e : Eff) : (applyEff s c e).conns = s.conns := by
  cases e <;> rfl

theorem setConn_self (s : State) (c : ConnId) (x : Conn) : (setConn s c x).conns c = x := by
  simp [setConn]

theorem setConn_other (s : State) {c d : ConnId} (x : Conn) (h : d ≠ c) : (setConn s c x).conns d = s.conns d := by
  simp [setConn, h]

/-- one connection step: a registered connection stays registered -/
theorem cstep_registered_stays {cl lf : Bool} {y x : Conn} {a : CAct} {e : Eff}
    (h : cstep cl lf y a = some (x, e)) (hp : preReg y.pc = false) : preReg x.pc = false := by
  cstep_cases h <;> cases cl <;> simp_all [preReg]

/-- one connection step while `closing`: not yet registered, or registered marked — and it stays that way -/
theorem cstep_late {lf : Bool} {y x : Conn} {a : CAct} {e : Eff}
    (h : cstep true lf y a = some (x, e)) (hp : preReg y.pc = true ∨ y.regClosing = true) :
    preReg x.pc = true ∨ x.regClosing = true := by
  cstep_cases h <;> simp_all [preReg]

theorem setConn_keep {s : State} {d c : ConnId} {y : Conn} (hpc : y.pc = (s.conns d).pc)
    (hrc : y.regClosing = (s.conns d).regClosing) :
    ((setConn s d y).conns c).pc = (s.conns c).pc ∧ ((setConn s d y).conns c).regClosing = (s.conns c).regClosing := by
  by_cases h : c = d
  · subst h; simp [setConn, hpc, hrc]
  · simp [setConn, h]

/-- the three things a step that is not a step of the connection's own goroutine can do to a connection -/
def OtherPc (s s' : State) (c : ConnId) : Prop :=
  ((s'.conns c).pc = (s.conns c).pc ∧ (s'.conns c).regClosing = (s.conns c).regClosing) ∨
  (preReg (s.conns c).pc = true ∧ preReg (s'.conns c).pc = true ∧ (s'.conns c).regClosing = (s.conns c).regClosing) ∨
  (c ∉ s.ids ∧ preReg (s'.conns c).pc = true ∧ (s'.conns c).regClosing = false)

theorem otherPc_closeListener (s : State) (c : ConnId) : OtherPc s (closeListener s) c := by
  by_cases hb : (s.conns c).pc = .backlog
  · right; left; simp [closeListener, hb, preReg]
  · left; simp [closeListener, hb]

theorem otherPc_new {s : State} {d : ConnId} (c : ConnId) (y : Conn) (hd : d ∉ s.ids) (hy : preReg y.pc = true)
    (hr : y.regClosing = false) (ids : List ConnId) : OtherPc s { setConn s d y with ids := ids } c := by
  by_cases h : c = d
  · subst h; right; right; exact ⟨hd, by simp [setConn, hy], by simp [setConn, hr]⟩
  · left; simp [setConn, h]

/-- what a step that is not a step of the connection's own goroutine does to a connection: nothing to its program
    counter and its mark — except that it is created (`connect`, `connectRefused`: it did not exist), taken out of the
    backlog (`accept`) or reset in it (the listener is closed) -/
theorem step_other_pc {s s' : State} (a : Action) (h : step s a = some s') (c : ConnId)
    (ha : ∀ a', a ≠ .conn c a') : OtherPc s s' c := by
  cases a with
  | conn d a' =>
    obtain ⟨x, e, _, rfl⟩ := step_conn_eq h
    have hd : c ≠ d := fun e => ha a' (by rw [e])
    left
    rw [applyEff_conns, setConn_other _ _ hd]
    exact ⟨rfl, rfl⟩
  | connect d tls =>
    simp only [step] at h
    split at h
    · rename_i hg; cases h; exact otherPc_new c _ hg.1 rfl rfl _
    · simp at h
  | connectRefused d =>
    simp only [step] at h
    split at h
    · rename_i hg; cases h; exact otherPc_new c _ hg.1 rfl rfl _
    · simp at h
  | accept d =>
    simp only [step] at h
    split at h
    · rename_i hg; cases h
      by_cases hcd : c = d
      · subst hcd; right; left; simp [setConn, hg.2.2, preReg]
      · left; simp [setConn, hcd]
    · simp at h
  | listenerClose =>
    simp only [step] at h
    cases h
    split
    · exact otherPc_closeListener s c
    · left; exact ⟨rfl, rfl⟩
  | serveCheck =>
    simp only [step] at h
    split at h
    · cases h
      split
      · exact otherPc_closeListener s c
      · left; exact ⟨rfl, rfl⟩
    · simp at h
  | runCloseListeners =>
    simp only [step] at h
    split at h
    · cases h
      split
      · exact otherPc_closeListener s c
      · left; exact ⟨rfl, rfl⟩
    · simp at h
  | closeConn k d =>
    simp only [step] at h
    split at h
    · cases h; left; exact setConn_keep rfl rfl
    · simp at h
  | respSeen d cl =>
    simp only [step] at h
    split at h
    · split at h
      · cases h; left; exact setConn_keep rfl rfl
      · simp at h
    · simp at h
  | _ =>
    simp only [step] at h
    repeat' split at h
    all_goals first
      | (simp at h; done)
      | (simp only [Option.some.injEq] at h; subst h; left; exact setConn_keep rfl rfl)
      | (simp only [Option.some.injEq] at h; subst h; left; exact ⟨rfl, rfl⟩)

/-- registration is for good: no step takes a connection back to "not registered" -/
theorem step_registered_stays {s s' : State} (a : Action) (hi : Inv s) (h : step s a = some s') (c : ConnId)
    (hp : preReg (s.conns c).pc = false) : preReg (s'.conns c).pc = false := by
  by_cases hc : ∃ a', a = .conn c a'
  · obtain ⟨a', rfl⟩ := hc
    obtain ⟨x, e, hx, rfl⟩ := step_conn_eq h
    rw [applyEff_conns, setConn_self]
    exact cstep_registered_stays hx hp
  · rcases step_other_pc a h c (fun a' e => hc ⟨a', e⟩) with h1 | h1 | h1
    · rw [h1.1]; exact hp
    · rw [h1.1] at hp; cases hp
    · rw [hi.absent c h1.1] at hp; simp [preReg] at hp

/-- once `closing` is set: a connection that has not registered, or registered marked, stays one of the two -/
theorem step_late {s s' : State} (a : Action) (h : step s a = some s') (hcl : s.closing = true) (c : ConnId)
    (hp : preReg (s.conns c).pc = true ∨ (s.conns c).regClosing = true) :
    preReg (s'.conns c).pc = true ∨ (s'.conns c).regClosing = true := by
  by_cases hc : ∃ a', a = .conn c a'
  · obtain ⟨a', rfl⟩ := hc
    obtain ⟨x, e, hx, rfl⟩ := step_conn_eq h
    rw [applyEff_conns, setConn_self]
    rw [hcl] at hx
    exact cstep_late hx hp
  · rcases step_other_pc a h c (fun a' e => hc ⟨a', e⟩) with h1 | h1 | h1
    · rw [h1.1, h1.2]; exact hp
    · exact Or.inl h1.2.1
    · exact Or.inl h1.2.1

theorem run_registered_stays {as : List Action} : ∀ {s s' : State}, Reachable s → run s as = some s' →
    ∀ c, preReg (s.conns c).pc = false → preReg (s'.conns c).pc = false := by
  induction as with
  | nil => intro s s' _ h c hp; have h' : some s = some s' := h; cases h'; exact hp
  | cons a as ih =>
    intro s s' hr h c hp
    simp only [run] at h
    cases hs1 : step s a with
    | none => rw [hs1] at h; cases h
    | some s1 =>
      rw [hs1] at h
      exact ih (Reachable.step a hr hs1) h c (step_registered_stays a (inv_reachable hr) hs1 c hp)

theorem run_late {as : List Action} : ∀ {s s' : State}, run s as = some s' → s.closing = true →
    ∀ c, (preReg (s.conns c).pc = true ∨ (s.conns c).regClosing = true) →
      preReg (s'.conns c).pc = true ∨ (s'.conns c).regClosing = true := by
  induction as with
  | nil => intro s s' h _ c hp; have h' : some s = some s' := h; cases h'; exact hp
  | cons a as ih =>
    intro s s' h hcl c hp
    simp only [run] at h
    cases hs1 : step s a with
    | none => rw [hs1] at h; cases h
    | some s1 =>
      rw [hs1] at h
      exact ih h (step_closing_mono a hs1 hcl) c (step_late a hs1 hcl c hp)

end C11
end FwdVerif
