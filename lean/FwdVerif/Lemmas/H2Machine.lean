/-
  The invariants of `Lemmas/H2Flow.lean` and `Lemmas/H2Fifo.lean` carried through `processFrame`
  (`H2.process`), the reader loop (`H2.step`), the pair of relays and whole schedules.  Core-only.
-/
import FwdVerif.Lemmas.H2Fifo
import FwdVerif.Lemmas.H2Split

namespace FwdVerif
namespace H2

variable {α : Type}

/-- everything that is invariant about one direction, against its ledger and history -/
structure Inv (d : Dir α) (L : Ledger) (H : Hist α) : Prop where
  book : Book d L
  stuck : AllStuck d
  fifo : Fifo d H

theorem Inv.init : Inv ({} : Dir α) {} {} := ⟨Book.init, AllStuck.init, Fifo.init⟩

theorem Inv.congr {d d' : Dir α} {L : Ledger} {H : Hist α} (h : Inv d L H) (h1 : d'.connWin = d.connWin)
    (h2 : d'.initWin = d.initWin) (h3 : d'.streams = d.streams) : Inv d' L H :=
  ⟨h.book.congr h1 h2 h3, h.stuck.congr h1 h3, h.fifo.congr h3⟩

theorem Inv.enqEmitAll {d : Dir α} {L : Ledger} {H : Hist α} (h : Inv d L H) (fs : List (QFrame α)) :
    Inv (d.enqEmitAll fs).1 (L.addEmitted (d.enqEmitAll fs).2) ((H.addEnq fs).addOut (d.enqEmitAll fs).2) :=
  ⟨h.book.enqEmitAll fs, h.stuck.enqEmitAll fs, h.fifo.enqEmitAll fs⟩

theorem Inv.enqEmit {d : Dir α} {L : Ledger} {H : Hist α} (h : Inv d L H) (f : QFrame α) :
    Inv (d.enqEmit f).1 (L.addEmitted (d.enqEmit f).2) ((H.addEnq [f]).addOut (d.enqEmit f).2) :=
  ⟨h.book.enqEmit f, h.stuck.enqEmit f, h.fifo.enqEmit f⟩

theorem Inv.windowUpdate {d : Dir α} {L : Ledger} {H : Hist α} (h : Inv d L H) (order : List Nat) (s n : Nat) :
    Inv (d.windowUpdate order s n).1 ((L.addWU s n).addEmitted (d.windowUpdate order s n).2)
      (H.addOut (d.windowUpdate order s n).2) :=
  ⟨h.book.windowUpdate order s n, h.stuck.windowUpdate order s n, h.fifo.windowUpdate order s n⟩

theorem Inv.setInitWin {d : Dir α} {L : Ledger} {H : Hist α} (h : Inv d L H) (order : List Nat) (v : Nat) :
    Inv (d.setInitWin order v).1 (L.addEmitted (d.setInitWin order v).2) (H.addOut (d.setInitWin order v).2) :=
  ⟨h.book.setInitWin order v, AllStuck.setInitWin d order v, h.fifo.setInitWin order v⟩

theorem Inv.applyEach {o : Dir α} {L : Ledger} {H : Hist α} (h : Inv o L H) (ord : Nat → List Nat)
    (k : Nat) (kvs : List (Nat × Nat)) :
    Inv (applyEach o ord k kvs).1 (L.addEmitted (applyEach o ord k kvs).2)
      (H.addOut (applyEach o ord k kvs).2) := by
  induction kvs generalizing o L H k with
  | nil => exact h
  | cons kv rest ih =>
    obtain ⟨id, v⟩ := kv
    simp only [H2.applyEach]
    split
    · simp only []
      rw [Ledger.addEmitted_append, Hist.addOut_append]
      exact ih (h.setInitWin (ord k) v) (k + 1)
    · split
      · exact ih (h.congr (d' := { o with maxFrame := v }) rfl rfl rfl) k
      · split
        · exact ih (h.congr (d' := { o with tableSize := v }) rfl rfl rfl) k
        · exact ih h k

/-- `relay.applySettings` keeps the invariants of the direction it acts on -/
theorem Inv.applySettings {o : Dir α} {L : Ledger} {H : Hist α} (h : Inv o L H) (ord : Nat → List Nat)
    (kvs : List (Nat × Nat)) :
    Inv (applySettings o ord kvs).1 (L.addEmitted (applySettings o ord kvs).2)
      (H.addOut (applySettings o ord kvs).2) :=
  h.applyEach ord 0 (inForce kvs)

theorem Inv.header {d : Dir α} {L : Ledger} {H : Hist α} (h : Inv d L H) (sid : Nat) (block : List α) (es : Bool) (p : Prio) :
    Inv (d.header sid block es p).1 (L.addEmitted (d.header sid block es p).2)
      ((H.addEnq [d.headerQ sid block es p]).addOut (d.header sid block es p).2) := by
  unfold Dir.header
  exact (h.congr (d' := { d with encSeq := d.encSeq + 1 }) rfl rfl rfl).enqEmit _

theorem Inv.pushPromise {d : Dir α} {L : Ledger} {H : Hist α} (h : Inv d L H) (sid pr : Nat) (block : List α) :
    Inv (d.pushPromise sid pr block).1 (L.addEmitted (d.pushPromise sid pr block).2)
      ((H.addEnq [d.pushQ sid pr block]).addOut (d.pushPromise sid pr block).2) := by
  unfold Dir.pushPromise
  exact (h.congr (d' := { d with encSeq := d.encSeq + 1 }) rfl rfl rfl).enqEmit _

/-- WINDOW_UPDATE increments read with this frame (they act on the opposite direction) -/
def opInc (L : Ledger) : Op α → Ledger
  | .windowUpdate s n => L.addWU s n
  | _ => L

/-- `processFrame` keeps the invariants of both directions -/
theorem Inv.process {d o : Dir α} {Ld Lo : Ledger} {Hd Ho : Hist α} (hd : Inv d Ld Hd) (ho : Inv o Lo Ho)
    (ord : Nat → List Nat) (op : Op α) :
    Inv (process d o ord op).1 (Ld.addEmitted (process d o ord op).2.2.fwd)
        ((Hd.addEnq (enqOf d op)).addOut (process d o ord op).2.2.fwd) ∧
    Inv (process d o ord op).2.1 ((opInc Lo op).addEmitted (process d o ord op).2.2.back)
        (Ho.addOut (process d o ord op).2.2.back) := by
  cases op with
  | data sid payload pad es =>
    exact ⟨hd.enqEmitAll _, ho⟩
  | headers sid es eh prio frag reenc =>
    simp only [H2.process, enqOf]
    split
    · exact ⟨hd.header sid reenc es prio, ho⟩
    · exact ⟨hd.congr rfl rfl rfl, ho⟩
  | continuation sid eh frag reenc =>
    simp only [H2.process, enqOf]
    split
    · split
      · rename_i prio es hc
        have hc' : d.cont = Cont.headers prio es := hc
        simp only [hc']
        exact ⟨Inv.header (Inv.congr (d' := { d with hdrBuf := d.hdrBuf ++ frag, cont := Cont.headers prio es }) hd rfl rfl rfl) sid reenc
          (if d.fixEndStream then es else true) prio, ho⟩
      · rename_i promised hc
        have hc' : d.cont = Cont.push promised := hc
        simp only [hc']
        exact ⟨Inv.pushPromise (Inv.congr (d' := { d with hdrBuf := d.hdrBuf ++ frag, cont := Cont.push promised }) hd rfl rfl rfl) sid promised reenc, ho⟩
      · rename_i hc
        have hc' : d.cont = Cont.none := hc
        simp only [hc']
        exact ⟨hd.congr rfl rfl rfl, ho⟩
    · exact ⟨hd.congr rfl rfl rfl, ho⟩
  | pushPromise sid promised eh frag reenc =>
    simp only [H2.process, enqOf]
    split
    · exact ⟨hd.pushPromise sid promised reenc, ho⟩
    · exact ⟨hd.congr rfl rfl rfl, ho⟩
  | priority sid prio => exact ⟨hd.enqEmit _, ho⟩
  | rst sid code => exact ⟨hd.enqEmit _, ho⟩
  | windowUpdate sid inc => exact ⟨hd, ho.windowUpdate (ord 0) sid inc⟩
  | settings kvs => exact ⟨hd, ho.applySettings ord kvs⟩
  | settingsAck => exact ⟨hd, ho⟩
  | ping ack data => exact ⟨hd, ho⟩
  | goAway last code debug => exact ⟨hd, ho⟩
  | unknown typ => exact ⟨hd, ho⟩

/-- the frame was read and processed (the direction is alive and the Framer's order check passed) -/
def accepted (d : Dir α) (op : Op α) : Bool := !d.dead && orderOk d op

theorem Inv.step {d o : Dir α} {Ld Lo : Ledger} {Hd Ho : Hist α} (hd : Inv d Ld Hd) (ho : Inv o Lo Ho)
    (ord : Nat → List Nat) (op : Op α) :
    Inv (step d o ord op).1 (Ld.addEmitted (step d o ord op).2.2.fwd)
        ((Hd.addEnq (if accepted d op then enqOf d op else [])).addOut (step d o ord op).2.2.fwd) ∧
    Inv (step d o ord op).2.1 ((if accepted d op then opInc Lo op else Lo).addEmitted (step d o ord op).2.2.back)
        (Ho.addOut (step d o ord op).2.2.back) := by
  unfold H2.step accepted
  by_cases hdead : d.dead = true
  · simp only [hdead, if_true, Bool.not_true, Bool.false_and]
    exact ⟨hd, ho⟩
  · have hdead' : d.dead = false := by simpa using hdead
    by_cases hok : orderOk d op = true
    · simp only [hdead', hok, if_true, Bool.not_false, Bool.true_and]
      have := Inv.process hd ho ord op
      exact ⟨this.1.congr rfl rfl rfl, this.2⟩
    · have hok' : orderOk d op = false := by simpa using hok
      simp only [hdead', hok', Bool.not_false, Bool.true_and]
      exact ⟨hd.congr rfl rfl rfl, ho⟩

/-! ### the pair of relays and whole schedules -/

/-- ledgers and histories of both directions -/
structure Ghost (α : Type) where
  Lcs : Ledger := {}
  Lsc : Ledger := {}
  Hcs : Hist α := {}
  Hsc : Hist α := {}
  /-- everything released towards the server / towards the client so far, in writer order -/
  Ecs : List (QFrame α) := []
  Esc : List (QFrame α) := []

structure RInv (r : Relay α) (g : Ghost α) : Prop where
  cs : Inv r.cs g.Lcs g.Hcs
  sc : Inv r.sc g.Lsc g.Hsc

/-- how the ledgers and histories advance with one scheduled frame: released frames and increments
    are read off the wire, "enqueued" is what the frame asks the relay to forward (`enqOf`) -/
def Ghost.step (g : Ghost α) (r : Relay α) (e : Ev α) : Ghost α :=
  let out := (r.step e.side e.ord e.op).2
  match e.side with
  | .client =>
    { Lcs := g.Lcs.addEmitted out.fwd,
      Hcs := (g.Hcs.addEnq (if accepted r.cs e.op then enqOf r.cs e.op else [])).addOut out.fwd,
      Lsc := (if accepted r.cs e.op then opInc g.Lsc e.op else g.Lsc).addEmitted out.back,
      Hsc := g.Hsc.addOut out.back,
      Ecs := g.Ecs ++ out.fwd, Esc := g.Esc ++ out.back }
  | .server =>
    { Lsc := g.Lsc.addEmitted out.fwd,
      Hsc := (g.Hsc.addEnq (if accepted r.sc e.op then enqOf r.sc e.op else [])).addOut out.fwd,
      Lcs := (if accepted r.sc e.op then opInc g.Lcs e.op else g.Lcs).addEmitted out.back,
      Hcs := g.Hcs.addOut out.back,
      Esc := g.Esc ++ out.fwd, Ecs := g.Ecs ++ out.back }

theorem RInv.step {r : Relay α} {g : Ghost α} (h : RInv r g) (e : Ev α) :
    RInv (r.step e.side e.ord e.op).1 (g.step r e) := by
  obtain ⟨side, ord, op⟩ := e
  cases side with
  | client =>
    have := Inv.step h.cs h.sc ord op
    exact ⟨this.1, this.2⟩
  | server =>
    have := Inv.step h.sc h.cs ord op
    exact ⟨this.2, this.1⟩

/-- run a schedule with its ghosts -/
def Relay.runG (r : Relay α) (g : Ghost α) : List (Ev α) → Relay α × Ghost α
  | [] => (r, g)
  | e :: es => Relay.runG (r.step e.side e.ord e.op).1 (g.step r e) es

theorem RInv.run {r : Relay α} {g : Ghost α} (h : RInv r g) (evs : List (Ev α)) :
    RInv (r.runG g evs).1 (r.runG g evs).2 := by
  induction evs generalizing r g with
  | nil => exact h
  | cons e es ih => exact ih (h.step e)

theorem RInv.init : RInv ({} : Relay α) {} := ⟨Inv.init, Inv.init⟩

/-- the relay state of `runG` is that of `run` -/
theorem Relay.runG_fst (r : Relay α) (g : Ghost α) (evs : List (Ev α)) :
    (r.runG g evs).1 = (r.run evs).1 := by
  induction evs generalizing r g with
  | nil => rfl
  | cons e es ih => simp only [Relay.runG, Relay.run]; exact ih _ _

end H2
end FwdVerif
