/-
  C17 helper lemmas for the concurrent-use section: interleavings (permutation, per-caller order),
  the code's `run` is a `map`, and the self-organising counter-model (`Model/C17Conc.lean`): an
  undisturbed swap permutes the slice, a blind state stays blind.
-/
import FwdVerif.Model.C17Conc
import FwdVerif.Lemmas.C17Main

namespace FwdVerif
namespace C17

/-! ### interleavings -/

theorem flatten_all_nil {α : Type} (cs : List (List α)) (h : ∀ c ∈ cs, c = []) : cs.flatten = [] := by
  induction cs with
  | nil => rfl
  | cons c cs ih =>
    rw [List.flatten_cons, h c List.mem_cons_self, ih (fun c' hc' => h c' (List.mem_cons_of_mem _ hc'))]
    rfl

/-- an interleaving is a permutation of the lists put one after the other -/
theorem Interleaving.perm {α : Type} {cs : List (List α)} {es : List α} (h : Interleaving cs es) :
    es.Perm cs.flatten := by
  induction h with
  | done hnil => rw [flatten_all_nil _ hnil]
  | @take pre post c es x _ ih =>
    have e1 : (pre ++ (x :: c) :: post).flatten = pre.flatten ++ x :: (c ++ post.flatten) := by
      simp [List.flatten_append, List.flatten_cons]
    have e2 : (pre ++ c :: post).flatten = pre.flatten ++ (c ++ post.flatten) := by
      simp [List.flatten_append, List.flatten_cons]
    rw [e1]
    rw [e2] at ih
    exact (List.Perm.cons x ih).trans List.perm_middle.symm

/-- … that keeps the order inside every list: each list is a subsequence of the merge -/
theorem Interleaving.sublist {α : Type} {cs : List (List α)} {es : List α} (h : Interleaving cs es) :
    ∀ c ∈ cs, c.Sublist es := by
  induction h with
  | done hnil =>
    intro c hc
    rw [hnil c hc]
    exact List.Sublist.refl _
  | @take pre post c es x _ ih =>
    intro c' hc'
    rcases List.mem_append.mp hc' with hp | hp
    · exact (ih c' (List.mem_append_left _ hp)).cons x
    · rcases List.mem_cons.mp hp with rfl | hp
      · exact (ih c (List.mem_append_right _ List.mem_cons_self)).cons_cons x
      · exact (ih c' (List.mem_append_right _ (List.mem_cons_of_mem _ hp))).cons x

/-! ### the code: `run` is a `map`, the state never changes -/

theorem run_eq (m : Matcher) (qs : List Query) : run m qs = (m, qs.map (answer m)) := by
  induction qs with
  | nil => rfl
  | cons q qs ih => simp [run, step, ih]

theorem runSchedule_eq_map (m : Matcher) (s : Schedule) :
    runSchedule m s = s.map fun p => (p.1, answer m p.2) := by
  unfold runSchedule
  rw [run_eq]
  induction s with
  | nil => rfl
  | cons p s ih => simpa using ih

theorem callerAnswers_runSchedule (m : Matcher) (s : Schedule) (c : Nat) :
    callerAnswers c (runSchedule m s) = (callerQueries c s).map (answer m) := by
  rw [runSchedule_eq_map]
  unfold callerAnswers callerQueries
  induction s with
  | nil => rfl
  | cons p s ih =>
    simp only [List.map_cons, List.filter_cons]
    cases h : p.1 == c <;> simp [ih]

/-- the answer of a matcher that is not itself an inverse, in terms of `match` -/
theorem answer_eq_via (m : Matcher) (hm : m.inverse = false) (q : Query) :
    answer m q = viaAnswer q (m.matchRaw q.host) := by
  unfold answer viaAnswer
  cases q.viaInverse <;> simp [Matcher.matches, Matcher.inv, Matcher.matchRaw, hm]

theorem answer_fromList {l : List Rule} {m : Matcher} (h : fromList l = .ok m) (q : Query) :
    answer m q = specAnswer l q := by
  obtain ⟨hi, _⟩ := fromList_spec h q.host
  rw [answer_eq_via m hi q]
  unfold viaAnswer specAnswer
  rw [(fromList_spec h q.host).2]

/-! ### the self-organising counter-model -/

theorem trun_append (st : TState) (a b : List TOp) :
    trun st (a ++ b) = ((trun (trun st a).1 b).1, (trun st a).2 ++ (trun (trun st a).1 b).2) := by
  induction a generalizing st with
  | nil => simp [trun]
  | cons op a ih =>
    simp only [List.cons_append, trun, ih]
    cases (tstep st op).2 <;> simp

theorem firstHit_none {rs : List Rx} {s : Bytes} (h : firstHit rs s = none) : anySearch rs s = false := by
  induction rs with
  | nil => rfl
  | cons x xs ih =>
    unfold firstHit at h
    split at h
    · cases h
    · rename_i hx
      have : firstHit xs s = none := by simpa using h
      simp [anySearch, hx] at ih ⊢
      exact ih this

theorem firstHit_some {rs : List Rx} {s : Bytes} {k : Nat} (h : firstHit rs s = some k) :
    anySearch rs s = true ∧ k < rs.length := by
  induction rs generalizing k with
  | nil => cases h
  | cons x xs ih =>
    unfold firstHit at h
    split at h
    · rename_i hx
      cases h
      simp [anySearch, hx]
    · cases hf : firstHit xs s with
      | none => simp [hf] at h
      | some j =>
        obtain ⟨h1, h2⟩ := ih hf
        simp only [hf, Option.map_some, Option.some.injEq] at h
        subst h
        refine ⟨?_, by simp; omega⟩
        simp only [anySearch, List.any_cons] at h1 ⊢
        simp [h1]

/-- the two stores of one undisturbed swap permute the slice -/
theorem perm_swap_set {α : Type} : ∀ (l : List α) (n : Nat) (a b : α),
    l[n]? = some a → l[n + 1]? = some b → ((l.set n b).set (n + 1) a).Perm l
  | [], _, _, _, h, _ => by simp at h
  | [_], 0, _, _, _, h => by simp at h
  | x :: y :: t, 0, a, b, ha, hb => by
    simp only [List.getElem?_cons_zero, Option.some.injEq] at ha
    simp only [Nat.zero_add, List.getElem?_cons_succ, List.getElem?_cons_zero, Option.some.injEq] at hb
    subst ha hb
    simpa using List.Perm.swap x y t
  | x :: t, n + 1, a, b, ha, hb => by
    simp only [List.getElem?_cons_succ] at ha hb
    simpa using perm_swap_set t n a b ha hb

theorem anySearch_perm {a b : List Rx} (hp : a.Perm b) (s : Bytes) : anySearch a s = anySearch b s := by
  unfold anySearch
  rw [Bool.eq_iff_iff]; simp only [List.any_eq_true]
  exact ⟨fun ⟨x, hx, h⟩ => ⟨x, hp.mem_iff.mp hx, h⟩, fun ⟨x, hx, h⟩ => ⟨x, hp.mem_iff.mpr hx, h⟩⟩

theorem matchRaw_perm {i i' : List Rx} (e : List Rx) (hp : i'.Perm i) (s : Bytes) :
    Matcher.matchRaw { incl := i', excl := e } s = Matcher.matchRaw { incl := i, excl := e } s := by
  simp only [Matcher.matchRaw, anySearch_perm hp s]

/-- one whole call with nothing in between: the specified answer, the slice permuted, nothing pending -/
theorem atomic_call (st : TState) (hp : st.pend = []) (c : Nat × Query) :
    (trun st (atomicOps c)).2 = [answer st.matcher c.2] ∧
      (trun st (atomicOps c)).1.incl.Perm st.incl ∧
      (trun st (atomicOps c)).1.excl = st.excl ∧ (trun st (atomicOps c)).1.pend = [] := by
  obtain ⟨g, q⟩ := c
  obtain ⟨incl, excl, pend⟩ := st
  simp only at hp
  subst hp
  have hans : answer (TState.matcher ⟨incl, excl, []⟩) q =
      viaAnswer q (if anySearch excl q.host then false else anySearch incl q.host) :=
    answer_eq_via _ rfl q
  rw [hans]
  simp only [atomicOps, trun, tstep]
  cases hx : anySearch excl q.host with
  | true => simp [pendOf]
  | false =>
    simp only [Bool.false_eq_true, if_false]
    cases hf : firstHit incl q.host with
    | none => simp [pendOf, firstHit_none hf]
    | some k =>
      obtain ⟨hany, hlt⟩ := firstHit_some hf
      cases k with
      | zero => simp [pendOf, hany]
      | succ n =>
        have h1 : incl[n]? = some incl[n] := List.getElem?_eq_getElem (by omega)
        have h2 : incl[n + 1]? = some incl[n + 1] := List.getElem?_eq_getElem hlt
        simp only [h1, h2, hany]
        simp only [pendOf, List.filter_nil, List.find?_cons, beq_self_eq_true, Option.map_some,
          Nat.add_sub_cancel, bne_self_eq_false, Bool.false_eq_true, not_false_eq_true,
          List.filter_cons_of_neg, and_true, true_and]
        exact perm_swap_set incl n _ _ h1 h2

theorem blind_step {st : TState} {s : Bytes} (hb : Blind st s) (op : TOp) : Blind (tstep st op).1 s := by
  obtain ⟨hi, hp⟩ := hb
  cases op with
  | walk g q =>
    simp only [tstep]
    split
    · exact ⟨hi, hp⟩
    · split
      · exact ⟨hi, hp⟩
      · exact ⟨hi, hp⟩
      · split
        · rename_i a b ha hb'
          refine ⟨hi, ?_⟩
          intro gp hgp
          rcases List.mem_cons.mp hgp with rfl | hgp
          · exact ⟨hi _ (List.mem_of_getElem? ha), hi _ (List.mem_of_getElem? hb')⟩
          · exact hp gp (List.mem_filter.mp hgp).1
        · exact ⟨hi, hp⟩
  | storeLo g =>
    simp only [tstep]
    cases hpo : pendOf st g with
    | none => exact ⟨hi, hp⟩
    | some p =>
      unfold pendOf at hpo
      cases hfind : st.pend.find? (·.1 == g) with
      | none => simp [hfind] at hpo
      | some gp =>
        simp only [hfind, Option.map_some, Option.some.injEq] at hpo
        subst hpo
        have hmem := List.mem_of_find?_eq_some hfind
        refine ⟨?_, hp⟩
        intro x hx
        rcases List.mem_or_eq_of_mem_set hx with h | h
        · exact hi x h
        · rw [h]; exact (hp gp hmem).2
  | storeHi g =>
    simp only [tstep]
    cases hpo : pendOf st g with
    | none => exact ⟨hi, hp⟩
    | some p =>
      unfold pendOf at hpo
      cases hfind : st.pend.find? (·.1 == g) with
      | none => simp [hfind] at hpo
      | some gp =>
        simp only [hfind, Option.map_some, Option.some.injEq] at hpo
        subst hpo
        have hmem := List.mem_of_find?_eq_some hfind
        refine ⟨?_, fun gp' h' => hp gp' (List.mem_filter.mp h').1⟩
        intro x hx
        rcases List.mem_or_eq_of_mem_set hx with h | h
        · exact hi x h
        · rw [h]; exact (hp gp hmem).1

theorem blind_run {st : TState} {s : Bytes} (hb : Blind st s) (ops : List TOp) : Blind (trun st ops).1 s := by
  induction ops generalizing st with
  | nil => exact hb
  | cons op ops ih => exact ih (blind_step hb op)

theorem blind_firstHit {st : TState} {s : Bytes} (hb : Blind st s) : firstHit st.incl s = none := by
  obtain ⟨hi, _⟩ := hb
  generalize st.incl = l at hi
  induction l with
  | nil => rfl
  | cons x xs ih =>
    simp only [firstHit, hi x List.mem_cons_self, Bool.false_eq_true, if_false,
      ih (fun y hy => hi y (List.mem_cons_of_mem _ hy)), Option.map_none]

end C17
end FwdVerif
