/-
  C14 — `sortIpAddressList`: the comparison given to `sort.Slice` is a total preorder
  (IPv6 before IPv4, then lexicographic byte order).
-/
import FwdVerif.Spec.C14
namespace FwdVerif
namespace C14

theorem bytesLt_asymm : ∀ a b : List Nat, bytesLt a b = true → bytesLt b a = false := by
  intro a
  induction a with
  | nil => intro b h; cases b <;> simp_all [bytesLt]
  | cons x xs ih =>
    intro b h
    cases b with
    | nil => simp [bytesLt] at h
    | cons y ys =>
      simp only [bytesLt] at h ⊢
      split at h
      · have : ¬ y < x := by omega
        simp [this]; omega
      · split at h
        · simp at h
        · have hxy : x = y := by omega
          subst hxy
          simp [ih ys h]

/-- `le a b := bytesLt b a = false` is transitive -/
theorem bytesLe_trans : ∀ a b c : List Nat, bytesLt b a = false → bytesLt c b = false → bytesLt c a = false := by
  intro a
  induction a with
  | nil =>
    intro b c _ _
    cases c <;> simp [bytesLt]
  | cons x xs ih =>
    intro b c h1 h2
    cases b with
    | nil => simp [bytesLt] at h1
    | cons y ys =>
      cases c with
      | nil => simp [bytesLt] at h2
      | cons z zs =>
        simp only [bytesLt] at h1 h2 ⊢
        by_cases hzx : z < x
        · exfalso
          -- z < x: then either z < y (contradiction with h2) or y ≤ z < x (contradiction with h1)
          by_cases hzy : z < y
          · simp [hzy] at h2
          · by_cases hyx : y < x
            · simp [hyx] at h1
            · omega
        · simp only [hzx, if_false]
          by_cases hxz : x < z
          · simp [hxz]
          · have hxz' : x = z := by omega
            subst hxz'
            simp only [Nat.lt_irrefl, if_false]
            by_cases hyx : y < x
            · simp [hyx] at h1
            · by_cases hxy : x < y
              · simp [hxy] at h2
              · have : x = y := by omega
                subst this
                simp only [Nat.lt_irrefl, if_false] at h1 h2
                exact ih ys zs h1 h2

theorem ipLe_total (a b : IP × Bytes) : (ipLe a b || ipLe b a) = true := by
  unfold ipLe ipLess
  by_cases h : isV4 a.1 = isV4 b.1
  · have h' : isV4 b.1 = isV4 a.1 := h.symm
    rw [h']
    simp only [BEq.rfl, if_true]
    cases hab : bytesLt a.1 b.1
    · simp
    · simp [bytesLt_asymm _ _ hab]
  · cases ha : isV4 a.1 <;> cases hb : isV4 b.1 <;> simp_all

theorem ipLe_trans (a b c : IP × Bytes) (h1 : ipLe a b = true) (h2 : ipLe b c = true) : ipLe a c = true := by
  unfold ipLe ipLess at *
  cases ha : isV4 a.1 <;> cases hb : isV4 b.1 <;> cases hc : isV4 c.1 <;> simp_all
  · exact bytesLe_trans _ _ _ h1 h2
  · exact bytesLe_trans _ _ _ h1 h2

theorem ipLe_sortedPair (a b : IP × Bytes) (h : ipLe a b = true) : sortedPair a b := by
  unfold ipLe ipLess at h
  unfold sortedPair
  cases ha : isV4 a.1 <;> cases hb : isV4 b.1 <;> simp_all


theorem insertIp_perm (a : IP × Bytes) (l : List (IP × Bytes)) : (insertIp a l).Perm (a :: l) := by
  induction l with
  | nil => simp [insertIp]
  | cons b l ih =>
    unfold insertIp
    split
    · exact List.Perm.refl _
    · exact (List.Perm.cons b ih).trans (List.Perm.swap a b l)

theorem sortIps_perm (l : List (IP × Bytes)) : (sortIps l).Perm l := by
  unfold sortIps
  induction l with
  | nil => simp
  | cons a l ih =>
    simp only [List.foldr_cons]
    exact (insertIp_perm a _).trans (List.Perm.cons a ih)

theorem insertIp_sorted (a : IP × Bytes) (l : List (IP × Bytes))
    (h : l.Pairwise (fun x y => ipLe x y = true)) : (insertIp a l).Pairwise (fun x y => ipLe x y = true) := by
  induction l with
  | nil => simp [insertIp]
  | cons b l ih =>
    unfold insertIp
    have hb := (List.pairwise_cons.mp h)
    split
    · rename_i hab
      refine List.pairwise_cons.mpr ⟨?_, h⟩
      intro y hy
      rcases List.mem_cons.mp hy with rfl | hy
      · exact hab
      · exact ipLe_trans a b y hab (hb.1 y hy)
    · rename_i hab
      have hba : ipLe b a = true := by
        have := ipLe_total a b
        cases h1 : ipLe a b
        · simpa [h1] using this
        · exact absurd h1 hab
      refine List.pairwise_cons.mpr ⟨?_, ih hb.2⟩
      intro y hy
      have : y ∈ a :: l := (insertIp_perm a l).subset hy
      rcases List.mem_cons.mp this with rfl | hy
      · exact hba
      · exact hb.1 y hy

theorem sortIps_sorted (l : List (IP × Bytes)) : (sortIps l).Pairwise (fun x y => ipLe x y = true) := by
  unfold sortIps
  induction l with
  | nil => simp
  | cons a l ih => simp only [List.foldr_cons]; exact insertIp_sorted a _ ih

end C14
end FwdVerif
