/-
  C08 helper lemmas, part 12: the reader decides on a prefix.  Once `readHeader` has an answer other
  than "the input ended", appending bytes does not change it (`readHeaderS_append`, `verdict_append`).
-/
import FwdVerif.Lemmas.C08Inv
import FwdVerif.Lemmas.C08Timed

namespace FwdVerif
namespace C08

/-- more input after the bytes read so far: an accepted header keeps its verdict, the unread rest grows -/
def Res.more (x : Bytes) : Res (Header × Bytes) → Res (Header × Bytes)
  | .ok (h, rest) => .ok (h, rest ++ x)
  | .err e => .err e
  | .panic => .panic

theorem pairAt_append {p x : Bytes} {j : Nat} (h : j + 2 ≤ p.length) : pairAt (p ++ x) j = pairAt p j := by
  unfold pairAt
  rw [List.take_append_of_le_length h]

theorem crlfAt_append {p x : Bytes} {j : Nat} (h : j + 2 ≤ p.length) : crlfAt (p ++ x) j = crlfAt p j := by
  unfold crlfAt; rw [pairAt_append h]

theorem untilS_append (p x : Bytes) : ∀ (fuel idx : Nat), 1 ≤ idx →
    (∀ b rest, untilS p fuel idx = .ok (b, rest) → untilS (p ++ x) fuel idx = .ok (b, rest ++ x)) ∧
    (untilS p fuel idx = .err .v1GaveUp → untilS (p ++ x) fuel idx = .err .v1GaveUp) := by
  intro fuel
  induction fuel with
  | zero => intro idx _; exact ⟨fun b rest h => by simp [untilS] at h, fun _ => rfl⟩
  | succ n ih =>
    intro idx h1
    unfold untilS
    by_cases hlt : idx < p.length
    · have hlt' : idx < (p ++ x).length := by simp; omega
      rw [if_pos hlt, if_pos hlt', crlfAt_append (by omega)]
      by_cases hc : crlfAt p (idx - 1) = true
      · rw [if_pos hc, if_pos hc]
        refine ⟨fun b rest h => ?_, fun h => by simp at h⟩
        simp only [Res.ok.injEq, Prod.mk.injEq] at h
        obtain ⟨hb, hr⟩ := h
        rw [List.take_append_of_le_length (by omega), List.drop_append_of_le_length (by omega), hb, hr]
      · rw [if_neg hc, if_neg hc]
        exact ih (idx + 1) (by omega)
    · rw [if_neg hlt]
      exact ⟨fun b rest h => by simp at h, fun h => by simp at h⟩


theorem untilS_cases (p : Bytes) : ∀ (fuel idx : Nat),
    (∃ b rest, untilS p fuel idx = .ok (b, rest)) ∨ untilS p fuel idx = .err .v1GaveUp ∨ untilS p fuel idx = .err .v1Short := by
  intro fuel
  induction fuel with
  | zero => intro idx; exact Or.inr (Or.inl rfl)
  | succ n ih =>
    intro idx
    unfold untilS
    by_cases hlt : idx < p.length
    · rw [if_pos hlt]
      by_cases hc : crlfAt p (idx - 1) = true
      · rw [if_pos hc]; exact Or.inl ⟨_, _, rfl⟩
      · rw [if_neg hc]; exact ih (idx + 1)
    · rw [if_neg hlt]; exact Or.inr (Or.inr rfl)

theorem parseKeep_more (b rest x : Bytes) : parseKeep b (rest ++ x) = (parseKeep b rest).more x := by
  unfold parseKeep
  cases parseV1Header b <;> rfl

theorem lineS_append (p x : Bytes) (fuel idx : Nat) (h1 : 1 ≤ idx)
    (hd : ∀ e, lineS p fuel idx = .err e → e.cls ≠ .short) :
    lineS (p ++ x) fuel idx = (lineS p fuel idx).more x := by
  unfold lineS at hd ⊢
  obtain ⟨hok, hgu⟩ := untilS_append p x fuel idx h1
  rcases untilS_cases p fuel idx with ⟨b, rest, h⟩ | h | h
  · rw [h, hok b rest h]; exact parseKeep_more ..
  · rw [h, hgu h]; rfl
  · rw [h] at hd; exact absurd rfl (hd _ rfl)

theorem readV1S_append (p x : Bytes) (h13 : 13 ≤ p.length)
    (hd : ∀ e, readV1S p = .err e → e.cls ≠ .short) :
    readV1S (p ++ x) = (readV1S p).more x := by
  unfold readV1S at hd ⊢
  have t13 : (p ++ x).take 13 = p.take 13 := List.take_append_of_le_length h13
  have t10 : (p ++ x).take 10 = p.take 10 := List.take_append_of_le_length (by omega)
  have hl : (p ++ x).length = p.length + x.length := by simp
  rw [t13, t10]
  by_cases hu : ((p.take 13).drop 6 == sUnknown) = true
  · rw [if_pos hu] at hd; rw [if_pos hu, if_pos hu]
    obtain ⟨hok, hgu⟩ := untilS_append p x 94 13 (by omega)
    rcases untilS_cases p 94 13 with ⟨b, rest, h⟩ | h | h
    · rw [h, hok b rest h]; rfl
    · rw [h, hgu h]; rfl
    · rw [h] at hd; exact absurd rfl (hd _ rfl)
  · rw [if_neg hu] at hd; rw [if_neg hu, if_neg hu]
    by_cases h4 : ((p.take 10).drop 6 == sTCP4) = true
    · rw [if_pos h4] at hd; rw [if_pos h4, if_pos h4]
      by_cases h32 : 32 ≤ p.length
      · rw [if_pos h32] at hd
        rw [if_pos h32, if_pos (by omega), crlfAt_append (by omega)]
        by_cases hc : crlfAt p 30 = true
        · rw [if_pos hc, if_pos hc, List.take_append_of_le_length (by omega), List.drop_append_of_le_length (by omega)]
          exact parseKeep_more ..
        · rw [if_neg hc] at hd
          rw [if_neg hc, if_neg hc]
          exact lineS_append p x 75 32 (by omega) hd
      · rw [if_neg h32] at hd; exact absurd rfl (hd _ rfl)
    · rw [if_neg h4] at hd; rw [if_neg h4, if_neg h4]
      by_cases h6 : ((p.take 10).drop 6 == sTCP6) = true
      · rw [if_pos h6] at hd; rw [if_pos h6, if_pos h6]
        by_cases h22 : 22 ≤ p.length
        · rw [if_pos h22] at hd
          rw [if_pos h22, if_pos (by omega), crlfAt_append (by omega)]
          by_cases hc : crlfAt p 20 = true
          · rw [if_pos hc, if_pos hc, List.take_append_of_le_length (by omega), List.drop_append_of_le_length (by omega)]
            exact parseKeep_more ..
          · rw [if_neg hc] at hd
            rw [if_neg hc, if_neg hc]
            exact lineS_append p x 85 22 (by omega) hd
        · rw [if_neg h22] at hd; exact absurd rfl (hd _ rfl)
      · rw [if_neg h6, if_neg h6]; rfl


theorem v2Rest_append (b12 fam : UInt8) (length : Nat) (s x : Bytes)
    (hd : ∀ e, v2Rest b12 fam length s = .err e → e.cls ≠ .short) :
    v2Rest b12 fam length (s ++ x) = (v2Rest b12 fam length s).more x := by
  rw [v2Rest_eq] at hd ⊢
  rw [v2Rest_eq]
  by_cases hbig : length > 2048
  · rw [if_pos hbig, if_pos hbig]; rfl
  · rw [if_neg hbig] at hd
    rw [if_neg hbig, if_neg hbig]
    by_cases hs : length > s.length
    · rw [if_pos hs] at hd; exact absurd rfl (hd _ rfl)
    · have hs' : ¬ length > (s ++ x).length := by simp; omega
      rw [if_neg hs', if_neg hs]
      rw [List.take_append_of_le_length (by omega), List.drop_append_of_le_length (by omega)]
      cases v2Refusal b12 fam length <;> rfl

theorem getD_append_left (p x : Bytes) (i : Nat) (h : i < p.length) : (p ++ x).getD i 0 = p.getD i 0 := by
  simp [List.getD, List.getElem?_append_left h]

theorem readV2S_append (p x : Bytes)
    (hd : ∀ e, readV2S p = .err e → e.cls ≠ .short) :
    readV2S (p ++ x) = (readV2S p).more x := by
  unfold readV2S at hd ⊢
  by_cases h16 : 16 ≤ p.length
  · rw [if_pos h16] at hd
    rw [if_pos h16, if_pos (by simp; omega)]
    rw [getD_append_left p x 12 (by omega), getD_append_left p x 13 (by omega),
      getD_append_left p x 14 (by omega), getD_append_left p x 15 (by omega)]
    by_cases hv : ((p.getD 12 0).toNat / 16 != 2) = true
    · rw [if_pos hv, if_pos hv]; rfl
    · rw [if_neg hv] at hd
      rw [if_neg hv, if_neg hv, List.drop_append_of_le_length (by omega)]
      exact v2Rest_append _ _ _ _ _ hd
  · rw [if_neg h16] at hd; exact absurd rfl (hd _ rfl)

/-- Once the reader has decided (accepted, or refused for a reason other than "the input ended"),
    further input does not change the decision; it only lengthens the unread rest. -/
theorem readHeaderS_append (p x : Bytes)
    (hd : ∀ e, readHeaderS p = .err e → e.cls ≠ .short) :
    readHeaderS (p ++ x) = (readHeaderS p).more x := by
  unfold readHeaderS at hd ⊢
  by_cases h13 : 13 ≤ p.length
  · rw [if_pos h13] at hd
    rw [if_pos h13, if_pos (by simp; omega), List.take_append_of_le_length h13]
    by_cases h2 : v2Ident.isPrefixOf (p.take 13) = true
    · rw [if_pos h2] at hd
      rw [if_pos h2, if_pos h2]
      exact readV2S_append p x hd
    · rw [if_neg h2] at hd
      rw [if_neg h2, if_neg h2]
      by_cases h1 : v1Ident.isPrefixOf (p.take 13) = true
      · rw [if_pos h1] at hd
        rw [if_pos h1, if_pos h1]
        exact readV1S_append p x h13 hd
      · rw [if_neg h1, if_neg h1]; rfl
  · rw [if_neg h13] at hd; exact absurd rfl (hd _ rfl)

theorem verdict_append (got x : Bytes) (r : TRes) (hv : verdict got = some r) :
    verdict (got ++ x) = some (r.more x) := by
  unfold verdict at hv ⊢
  rw [readHeader_eq] at hv ⊢
  cases hr : readHeaderS got with
  | ok p =>
    obtain ⟨h, rest⟩ := p
    rw [hr] at hv
    rw [readHeaderS_append got x (by intro e he; rw [hr] at he; cases he), hr]
    simp only [Option.some.injEq] at hv
    rw [← hv]; rfl
  | panic =>
    rw [hr] at hv
    rw [readHeaderS_append got x (by intro e he; rw [hr] at he; cases he), hr]
    simp only [Option.some.injEq] at hv
    rw [← hv]; rfl
  | err e =>
    rw [hr] at hv
    by_cases hc : e.cls = .short
    · simp [hc] at hv
    · simp only [hc, if_false, Option.some.injEq] at hv
      rw [readHeaderS_append got x (by intro e' he; rw [hr] at he; cases he; exact hc), hr]
      simp only [Res.more, hc, if_false]
      rw [← hv]; rfl

end C08
end FwdVerif
