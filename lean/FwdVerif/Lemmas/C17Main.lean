/-
  C17 helper lemmas: `compileAll` compiles every rule on its own, so the matcher built by
  `fromList` computes the property's right-hand side (`specMatch`) — whatever flags, anchors or
  alternations the rules contain; construction succeeds exactly on lists of regular expressions
  with an include rule; permutations.
-/
import FwdVerif.Model.C17

namespace FwdVerif
namespace C17

theorem specMatch_iff (l : List Rule) (s : Bytes) : specMatch l s = true ↔ Spec l s := by
  simp [specMatch, Spec, List.any_eq_true]

theorem mem_includes {l : List Rule} {r : Rule} (h : r ∈ includes l) : r ∈ l := by
  simp [includes] at h; exact h.1

theorem mem_excludes {l : List Rule} {r : Rule} (h : r ∈ excludes l) : r ∈ l := by
  simp [excludes] at h; exact h.1

/-! ### `compileAll` -/

/-- the compiled slice answers, rule by rule, what the rules answer on their own -/
theorem compileAll_search : ∀ (rs : List Rule) (xs : List Rx),
    compileAll (rs.map (·.src)) = .ok xs → ∀ s, anySearch xs s = rs.any (·.search s)
  | [], xs, h, s => by
    simp only [List.map_nil, compileAll, Except.ok.injEq] at h
    subst h; rfl
  | r :: rest, xs, h, s => by
    simp only [List.map_cons, compileAll] at h
    cases hc : compile r.src with
    | error e => simp [hc] at h
    | ok x =>
      cases hr : compileAll (rest.map (·.src)) with
      | error e => simp [hc, hr] at h
      | ok xs' =>
        simp only [hc, hr, Except.ok.injEq] at h
        subst h
        have ih := compileAll_search rest xs' hr s
        simp only [anySearch] at ih
        simp [anySearch, Rule.search, hc, ih]

/-- a slice of regular expressions always has its compiled form -/
theorem compileAll_of_valid : ∀ (srcs : List Bytes), (∀ x ∈ srcs, validSrc x = true) →
    ∃ xs, compileAll srcs = .ok xs
  | [], _ => ⟨[], rfl⟩
  | a :: rest, hv => by
    obtain ⟨xs, hxs⟩ := compileAll_of_valid rest (fun x hx => hv x (by simp [hx]))
    have ha := hv a (by simp)
    unfold validSrc at ha
    cases hc : compile a with
    | error e => simp [hc] at ha
    | ok x => exact ⟨x :: xs, by simp [compileAll, hc, hxs]⟩

/-- … and only such a slice has one -/
theorem valid_of_compileAll : ∀ (srcs : List Bytes) (xs : List Rx), compileAll srcs = .ok xs →
    ∀ x ∈ srcs, validSrc x = true
  | [], _, _ => by simp
  | a :: rest, xs, h => by
    simp only [compileAll] at h
    cases hc : compile a with
    | error e => simp [hc] at h
    | ok y =>
      cases hr : compileAll rest with
      | error e => simp [hc, hr] at h
      | ok ys =>
        intro x hx
        rcases List.mem_cons.mp hx with rfl | hx
        · simp [validSrc, hc]
        · exact valid_of_compileAll rest ys hr x hx

theorem valid_srcs_includes {l : List Rule} (hv : Valid l) :
    ∀ x ∈ (includes l).map (·.src), validSrc x = true := by
  intro x hx
  simp only [List.mem_map] at hx
  obtain ⟨r, hr, rfl⟩ := hx
  exact (hv r (mem_includes hr)).1

theorem valid_srcs_excludes {l : List Rule} (hv : Valid l) :
    ∀ x ∈ (excludes l).map (·.src), validSrc x = true := by
  intro x hx
  simp only [List.mem_map] at hx
  obtain ⟨r, hr, rfl⟩ := hx
  exact (hv r (mem_excludes hr)).1

/-! ### `fromList` -/

/-- the shape of a successful `fromList` and what it matches — no hypothesis on the rules -/
theorem fromList_spec {l : List Rule} {m : Matcher} (h : fromList l = .ok m) (s : Bytes) :
    m.inverse = false ∧ m.matchRaw s = specMatch l s := by
  unfold fromList newMatcher at h
  split at h
  · cases h
  · cases hi : compileAll ((includes l).map (·.src)) with
    | error e => simp [hi] at h
    | ok is =>
      cases he : compileAll ((excludes l).map (·.src)) with
      | error e => simp [hi, he] at h
      | ok es =>
        simp only [hi, he, Res.ok.injEq] at h
        subst h
        refine ⟨rfl, ?_⟩
        simp only [Matcher.matchRaw, specMatch, compileAll_search _ _ hi s, compileAll_search _ _ he s]
        cases (excludes l).any (·.search s) <;> simp

theorem fromList_noInclude (l : List Rule) : fromList l = .noInclude ↔ includes l = [] := by
  unfold fromList newMatcher
  constructor
  · intro h
    split at h
    · rename_i hemp; simpa using hemp
    · split at h <;> cases h
  · intro h
    simp [h]

theorem fromList_no_panic {l : List Rule} (hv : Valid l) (e : Err) : fromList l ≠ .panic e := by
  obtain ⟨is, hi⟩ := compileAll_of_valid _ (valid_srcs_includes hv)
  obtain ⟨es, he⟩ := compileAll_of_valid _ (valid_srcs_excludes hv)
  unfold fromList newMatcher
  split
  · intro h; cases h
  · simp [hi, he]

/-- a valid list with an include rule always yields a matcher -/
theorem fromList_ok_of_valid {l : List Rule} (hv : Valid l) (hne : includes l ≠ []) :
    ∃ m, fromList l = .ok m := by
  obtain ⟨is, hi⟩ := compileAll_of_valid _ (valid_srcs_includes hv)
  obtain ⟨es, he⟩ := compileAll_of_valid _ (valid_srcs_excludes hv)
  refine ⟨{ incl := is, excl := es }, ?_⟩
  unfold fromList newMatcher
  simp [hne, hi, he]

/-- a matcher is built only from lists all of whose rules are regular expressions -/
theorem valid_of_fromList_ok {l : List Rule} {m : Matcher} (h : fromList l = .ok m) :
    ∀ r ∈ l, validSrc r.src = true := by
  unfold fromList newMatcher at h
  split at h
  · cases h
  · cases hi : compileAll ((includes l).map (·.src)) with
    | error e => simp [hi] at h
    | ok is =>
      cases he : compileAll ((excludes l).map (·.src)) with
      | error e => simp [hi, he] at h
      | ok es =>
        intro r hr
        cases hx : r.exclude with
        | false =>
          exact valid_of_compileAll _ _ hi r.src
            (List.mem_map.mpr ⟨r, by simp [includes, hr, hx], rfl⟩)
        | true =>
          exact valid_of_compileAll _ _ he r.src
            (List.mem_map.mpr ⟨r, by simp [excludes, hr, hx], rfl⟩)

/-! ### permutations -/

theorem specMatch_perm {l l' : List Rule} (hp : l.Perm l') (s : Bytes) :
    specMatch l s = specMatch l' s := by
  have hi : (includes l).Perm (includes l') := hp.filter _
  have he : (excludes l).Perm (excludes l') := hp.filter _
  have h1 : (includes l).any (·.search s) = (includes l').any (·.search s) := by
    rw [Bool.eq_iff_iff]; simp only [List.any_eq_true]
    exact ⟨fun ⟨x, hx, h⟩ => ⟨x, hi.mem_iff.mp hx, h⟩, fun ⟨x, hx, h⟩ => ⟨x, hi.mem_iff.mpr hx, h⟩⟩
  have h2 : (excludes l).any (·.search s) = (excludes l').any (·.search s) := by
    rw [Bool.eq_iff_iff]; simp only [List.any_eq_true]
    exact ⟨fun ⟨x, hx, h⟩ => ⟨x, he.mem_iff.mp hx, h⟩, fun ⟨x, hx, h⟩ => ⟨x, he.mem_iff.mpr hx, h⟩⟩
  simp only [specMatch, h1, h2]

/-- a permutation of a list that yields a matcher yields a matcher -/
theorem fromList_ok_perm {l l' : List Rule} {m : Matcher} (hp : l.Perm l') (h : fromList l = .ok m) :
    ∃ m', fromList l' = .ok m' := by
  have hv := valid_of_fromList_ok h
  have hv' : ∀ r ∈ l', validSrc r.src = true := fun r hr => hv r (hp.mem_iff.mpr hr)
  have hne : includes l ≠ [] := by
    intro hemp
    rw [(fromList_noInclude l).mpr hemp] at h
    cases h
  have hne' : includes l' ≠ [] := by
    intro hemp
    have hperm : (includes l).Perm (includes l') := hp.filter _
    rw [hemp] at hperm
    exact hne hperm.eq_nil
  obtain ⟨is, hi⟩ := compileAll_of_valid ((includes l').map (·.src)) (by
    intro x hx
    simp only [List.mem_map] at hx
    obtain ⟨r, hr, rfl⟩ := hx
    exact hv' r (mem_includes hr))
  obtain ⟨es, he⟩ := compileAll_of_valid ((excludes l').map (·.src)) (by
    intro x hx
    simp only [List.mem_map] at hx
    obtain ⟨r, hr, rfl⟩ := hx
    exact hv' r (mem_excludes hr))
  refine ⟨{ incl := is, excl := es }, ?_⟩
  unfold fromList newMatcher
  simp [hne', hi, he]

end C17
end FwdVerif
