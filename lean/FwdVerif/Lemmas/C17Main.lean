/-
  C17 helper lemmas, part 4: `fromList` on valid leak-free lists computes the property's
  right-hand side; the same for wrapped lists; permutations.
-/
import FwdVerif.Lemmas.C17Sem

namespace FwdVerif
namespace C17

theorem specMatch_iff (l : List Rule) (s : Bytes) : specMatch l s = true ↔ Spec l s := by
  simp [specMatch, Spec, List.any_eq_true]

theorem mem_includes {l : List Rule} {r : Rule} (h : r ∈ includes l) : r ∈ l := by
  simp [includes] at h; exact h.1

theorem mem_excludes {l : List Rule} {r : Rule} (h : r ∈ excludes l) : r ∈ l := by
  simp [excludes] at h; exact h.1

theorem any_standalone (rs : List Rule) (hv : ∀ r ∈ rs, validSrc r.src = true) (s : Bytes) :
    (rs.map (·.src)).any (fun x => standalone x s) = rs.any (·.search s) := by
  induction rs with
  | nil => rfl
  | cons r rest ih =>
    simp only [List.map_cons, List.any_cons]
    rw [ih (fun x hx => hv x (by simp [hx])), rule_search_eq r s (hv r (by simp))]

/-- the shape of a successful `fromList` and what it matches -/
theorem fromList_spec {l : List Rule} {m : Matcher} (hv : Valid l) (hl : LeakFree l)
    (h : fromList l = .ok m) (s : Bytes) :
    m.inverse = false ∧ m.matchRaw s = specMatch l s := by
  have hvi : ∀ x ∈ (includes l).map (·.src), validSrc x = true ∧ x ≠ [] := by
    intro x hx
    simp only [List.mem_map] at hx
    obtain ⟨r, hr, rfl⟩ := hx
    exact hv r (mem_includes hr)
  have hve : ∀ x ∈ (excludes l).map (·.src), validSrc x = true ∧ x ≠ [] := by
    intro x hx
    simp only [List.mem_map] at hx
    obtain ⟨r, hr, rfl⟩ := hx
    exact hv r (mem_excludes hr)
  obtain ⟨hi1, hi2⟩ := build_spec _ hvi hl.1
  obtain ⟨he1, he2⟩ := build_spec _ hve hl.2
  unfold fromList newMatcher at h
  split at h
  · cases h
  · simp only [hi1, he1, Res.ok.injEq] at h
    subst h
    refine ⟨rfl, ?_⟩
    simp only [Matcher.matchRaw, hi2, he2, specMatch]
    rw [any_standalone _ (fun r hr => (hv r (mem_includes hr)).1),
        any_standalone _ (fun r hr => (hv r (mem_excludes hr)).1)]
    cases (excludes l).any (·.search s) <;> simp

theorem fromList_noInclude (l : List Rule) : fromList l = .noInclude ↔ includes l = [] := by
  unfold fromList newMatcher
  constructor
  · intro h
    split at h
    · rename_i hemp; simpa using hemp
    · split at h <;> cases h
  · intro h
    simp [h]

theorem fromList_no_panic {l : List Rule} (hv : Valid l) (hl : LeakFree l) (e : Err) :
    fromList l ≠ .panic e := by
  have hvi : ∀ x ∈ (includes l).map (·.src), validSrc x = true ∧ x ≠ [] := by
    intro x hx
    simp only [List.mem_map] at hx
    obtain ⟨r, hr, rfl⟩ := hx
    exact hv r (mem_includes hr)
  have hve : ∀ x ∈ (excludes l).map (·.src), validSrc x = true ∧ x ≠ [] := by
    intro x hx
    simp only [List.mem_map] at hx
    obtain ⟨r, hr, rfl⟩ := hx
    exact hv r (mem_excludes hr)
  obtain ⟨hi1, _⟩ := build_spec _ hvi hl.1
  obtain ⟨he1, _⟩ := build_spec _ hve hl.2
  unfold fromList newMatcher
  split
  · intro h; cases h
  · simp [hi1, he1]

/-! ### wrapped lists -/

theorem includes_wrapAll (l : List Rule) : includes (wrapAll l) = wrapAll (includes l) := by
  simp [includes, wrapAll, List.filter_map, Function.comp_def]

theorem excludes_wrapAll (l : List Rule) : excludes (wrapAll l) = wrapAll (excludes l) := by
  simp [excludes, wrapAll, List.filter_map, Function.comp_def]

theorem valid_wrapAll {l : List Rule} (hv : ∀ r ∈ l, validSrc r.src = true) : Valid (wrapAll l) := by
  intro r hr
  simp only [wrapAll, List.mem_map] at hr
  obtain ⟨r0, hr0, rfl⟩ := hr
  exact ⟨valid_wrap (hv r0 hr0), wrapSrc_ne_nil _⟩

theorem neutral_wrapAll {l : List Rule} (hv : ∀ r ∈ l, validSrc r.src = true) : FlagNeutral (wrapAll l) := by
  intro r hr
  simp only [wrapAll, List.mem_map] at hr
  obtain ⟨r0, hr0, rfl⟩ := hr
  exact neutral_wrap (hv r0 hr0)

theorem leakFree_of_flagNeutral {l : List Rule} (h : FlagNeutral l) : LeakFree l := by
  constructor
  · apply leakFree_of_neutral
    intro x hx
    simp only [List.mem_map] at hx
    obtain ⟨r, hr, rfl⟩ := hx
    exact h r (mem_includes hr)
  · apply leakFree_of_neutral
    intro x hx
    simp only [List.mem_map] at hx
    obtain ⟨r, hr, rfl⟩ := hx
    exact h r (mem_excludes hr)

theorem search_wrap (r : Rule) (hv : validSrc r.src = true) (s : Bytes) :
    Rule.search { r with src := wrapSrc r.src } s = r.search s := by
  rw [rule_search_eq _ s (valid_wrap hv), rule_search_eq r s hv]
  exact standalone_wrap hv s

theorem any_search_wrapAll (rs : List Rule) (hv : ∀ r ∈ rs, validSrc r.src = true) (s : Bytes) :
    (wrapAll rs).any (·.search s) = rs.any (·.search s) := by
  induction rs with
  | nil => rfl
  | cons r rest ih =>
    simp only [wrapAll, List.map_cons, List.any_cons] at ih ⊢
    rw [ih (fun x hx => hv x (by simp [hx])), search_wrap r (hv r (by simp))]

theorem specMatch_wrapAll (l : List Rule) (hv : ∀ r ∈ l, validSrc r.src = true) (s : Bytes) :
    specMatch (wrapAll l) s = specMatch l s := by
  simp only [specMatch, includes_wrapAll, excludes_wrapAll]
  rw [any_search_wrapAll _ (fun r hr => hv r (mem_includes hr)),
      any_search_wrapAll _ (fun r hr => hv r (mem_excludes hr))]

/-! ### permutations -/

theorem specMatch_perm {l l' : List Rule} (hp : l.Perm l') (s : Bytes) :
    specMatch l s = specMatch l' s := by
  have hi : (includes l).Perm (includes l') := hp.filter _
  have he : (excludes l).Perm (excludes l') := hp.filter _
  have h1 : (includes l).any (·.search s) = (includes l').any (·.search s) := by
    rw [Bool.eq_iff_iff]; simp only [List.any_eq_true]
    exact ⟨fun ⟨x, hx, h⟩ => ⟨x, hi.mem_iff.mp hx, h⟩, fun ⟨x, hx, h⟩ => ⟨x, hi.mem_iff.mpr hx, h⟩⟩
  have h2 : (excludes l).any (·.search s) = (excludes l').any (·.search s) := by
    rw [Bool.eq_iff_iff]; simp only [List.any_eq_true]
    exact ⟨fun ⟨x, hx, h⟩ => ⟨x, he.mem_iff.mp hx, h⟩, fun ⟨x, hx, h⟩ => ⟨x, he.mem_iff.mpr hx, h⟩⟩
  simp only [specMatch, h1, h2]

end C17
end FwdVerif
