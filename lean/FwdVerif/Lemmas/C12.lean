/-
  C12 — helper lemmas for `FwdVerif/Theorems/C12.lean` (core Lean only).

  §1 header maps: `Del` over a list of names is a filter; the map `errorResponse` builds and what the
     response modifiers leave of it.
  §2 `handleLoop`: runs of results.
  §3 `connStream`.

  String literals: `Req.bs "…"` does not reduce by `decide`, it does by `with_unfolding_all rfl`.
-/
import FwdVerif.Model.C12
import FwdVerif.Lemmas.C16

namespace FwdVerif
namespace C12

open Ascii
open C16 (HMap goDel goSet goAdd Rule applyRules)
open Req (bs hget removeHopByHop hopByHopNames natToDec lowerFields)

/-! ## §1 header maps -/

theorem foldl_goDel_eq_filter (names : List Bytes) (h : HMap) :
    names.foldl (fun h k => goDel h k) h =
      h.filter (fun e => !(names.map canonicalKey).contains e.1) := by
  induction names generalizing h with
  | nil => exact (List.filter_eq_self.2 (by simp)).symm
  | cons n ns ih =>
    rw [List.foldl_cons, ih]
    simp only [goDel, C16.HMap.erase, List.filter_filter, List.map_cons, List.contains_cons]
    apply List.filter_congr
    intro e _
    cases h1 : (e.1 == canonicalKey n) <;> simp [bne, h1]

def ctName : Bytes := bs "Content-Type"
def paName : Bytes := bs "Proxy-Authenticate"
def connName : Bytes := bs "Connection"
def ctValue : Bytes := bs "text/plain; charset=utf-8"

def challenge (name : Bytes) : Bytes := bs "Basic realm=\"" ++ name ++ bs "\""

/-- the header map `errorResponse` builds: (Proxy-Authenticate for 407,) X-Forwarder-Error, Content-Type -/
theorem errorResponse_header (rq : ReqFacts) (st : Nat) (msg err : Bytes) :
    (errorResponse rq st msg err).header =
      (if st == 407 then [(paName, [challenge rq.name])] else []) ++
        [(xfeName, [rq.name ++ [32] ++ err]), (ctName, [ctValue])] := by
  have k1 : canonicalKey xfeName = xfeName := by with_unfolding_all rfl
  have k2 : canonicalKey (bs "Content-Type") = ctName := by with_unfolding_all rfl
  have k3 : canonicalKey (bs "Proxy-Authenticate") = paName := by with_unfolding_all rfl
  have n1 : (xfeName == ctName) = false := by with_unfolding_all rfl
  have n2 : (paName == ctName) = false := by with_unfolding_all rfl
  have n3 : (paName == xfeName) = false := by with_unfolding_all rfl
  unfold errorResponse
  by_cases h : (st == 407) = true
  · simp [h, goSet, C16.HMap.put, k1, k2, k3, n1, n2, n3, challenge, ctValue]
  · simp [h, goSet, C16.HMap.put, k1, k2, k3, n1, n2, n3, ctValue]

/-- hop-by-hop removal on that map: no `Connection` field, so nothing is nominated; of the static
    list only `Proxy-Authenticate` is present (and goes: F19) -/
theorem removeHopByHop_errorHeader (pre : Bool) (c x : Bytes) :
    removeHopByHop ((if pre then [(paName, [c])] else []) ++ [(xfeName, [x]), (ctName, [ctValue])]) =
      [(xfeName, [x]), (ctName, [ctValue])] := by
  have c1 : (connName == paName) = false := by with_unfolding_all rfl
  have c2 : (connName == xfeName) = false := by with_unfolding_all rfl
  have c3 : (connName == ctName) = false := by with_unfolding_all rfl
  have m1 : (hopByHopNames.map canonicalKey).contains paName = true := by with_unfolding_all rfl
  have m2 : (hopByHopNames.map canonicalKey).contains xfeName = false := by with_unfolding_all rfl
  have m3 : (hopByHopNames.map canonicalKey).contains ctName = false := by with_unfolding_all rfl
  unfold removeHopByHop
  have hg : hget ((if pre then [(paName, [c])] else []) ++ [(xfeName, [x]), (ctName, [ctValue])])
      (bs "Connection") = [] := by
    change hget _ connName = []
    cases pre <;> simp [hget, C16.HMap.get, List.lookup, c1, c2, c3]
  simp only [hg, List.flatMap_nil, List.foldl_nil]
  rw [foldl_goDel_eq_filter]
  cases pre <;>
    simp only [Bool.false_eq_true, if_false, if_true, List.nil_append, List.cons_append, List.filter_cons,
      List.filter_nil, m1, m2, m3, Bool.not_true, Bool.not_false]

def errBody (rq : ReqFacts) (msg err : Bytes) : Bytes := rq.name ++ [32] ++ msg ++ [10] ++ err ++ [10]

/-- what the response modifiers leave of an error response (no response rules, or a CONNECT) -/
theorem modifyResponse_errorResponse (rq : ReqFacts) (st : Nat) (msg err : Bytes)
    (hr : rq.rules = [] ∨ rq.isConnect = true) :
    modifyResponse rq (errorResponse rq st msg err) =
      { status := st, minor := respMinor rq, header := [(xfeName, [rq.name ++ [32] ++ err]), (ctName, [ctValue])],
        body := errBody rq msg err, contentLength := (errBody rq msg err).length, close := rq.close } := by
  have h0 : (if rq.isConnect then (errorResponse rq st msg err).header
      else applyRules rq.rules (errorResponse rq st msg err).header) = (errorResponse rq st msg err).header := by
    rcases hr with h | h
    · simp [h, applyRules]
    · simp [h]
  have h1 : removeHopByHop (errorResponse rq st msg err).header =
      [(xfeName, [rq.name ++ [32] ++ err]), (ctName, [ctValue])] := by
    rw [errorResponse_header]
    exact removeHopByHop_errorHeader (st == 407) _ _
  unfold modifyResponse
  rw [h0, h1]
  rfl

/-- `writeResponse` on such a response, in closed form -/
theorem writeResponse_error (closing : Bool) (st mi cl : Nat) (bd x : Bytes) (c : Bool) :
    writeResponse closing
        { status := st, minor := mi, header := [(xfeName, [x]), (ctName, [ctValue])], body := bd,
          contentLength := cl, close := c } =
      { minor := mi, status := st,
        fields := (bs "content-length", [natToDec cl]) :: (lower xfeName, [x]) :: (lower ctName, [ctValue]) ::
          (if closing || c then [(lower connName, [bs "close"])] else []),
        body := bd, keepAlive := !(closing || c) } := by
  cases closing <;> cases c <;> with_unfolding_all rfl

/-- the whole error path in closed form -/
theorem writtenError_eq (closing : Bool) (rq : ReqFacts) (st : Nat) (msg err : Bytes)
    (hr : rq.rules = [] ∨ rq.isConnect = true) :
    writtenError closing rq st msg err =
      { minor := respMinor rq, status := st,
        fields := (bs "content-length", [natToDec (errBody rq msg err).length]) ::
          (lower xfeName, [rq.name ++ [32] ++ err]) :: (lower ctName, [ctValue]) ::
          (if closing || rq.close then [(lower connName, [bs "close"])] else []),
        body := errBody rq msg err, keepAlive := !(closing || rq.close) } := by
  unfold writtenError
  rw [modifyResponse_errorResponse rq st msg err hr, writeResponse_error]

theorem values_xfe_closedForm (mi st : Nat) (a x bd : Bytes) (tl ka : Bool) :
    WireResp.values
        { minor := mi, status := st, body := bd, keepAlive := ka,
          fields := (bs "content-length", [a]) :: (lower xfeName, [x]) :: (lower ctName, [ctValue]) ::
            (if tl then [(lower connName, [bs "close"])] else []) }
        xfeName = [x] := by
  cases tl <;> with_unfolding_all rfl

theorem values_cl_closedForm (mi st : Nat) (a x bd : Bytes) (tl ka : Bool) :
    WireResp.values
        { minor := mi, status := st, body := bd, keepAlive := ka,
          fields := (bs "content-length", [a]) :: (lower xfeName, [x]) :: (lower ctName, [ctValue]) ::
            (if tl then [(lower connName, [bs "close"])] else []) }
        (bs "Content-Length") = [a] := by
  cases tl <;> with_unfolding_all rfl

/-! ## §1b response rules: what they leave of an error response -/

open C16 (fieldsOf specRule specRules CanonKeys NodupKeys NoRename ValidRule entryFields fieldsOf_cons applyRules_spec applyRule_spec lower_eq_iff_of_canon)

/-- values of the field lines named `x` (lower case) of a header map, in map order -/
def vals (g : HMap) (x : Bytes) : List Bytes :=
  ((lowerFields g).filter (fun f => f.1 == x)).flatMap (·.2)

theorem vals_nil (x : Bytes) : vals [] x = [] := rfl

theorem vals_cons (e : Bytes × List Bytes) (g : HMap) (x : Bytes) :
    vals (e :: g) x = (if lower e.1 == x then e.2 else []) ++ vals g x := by
  unfold vals lowerFields
  simp only [List.map_cons, List.filter_cons]
  split <;> simp

theorem vals_append (a b : HMap) (x : Bytes) : vals (a ++ b) x = vals a x ++ vals b x := by
  induction a with
  | nil => simp [vals_nil]
  | cons e a ih => simp [vals_cons, ih]

/-- the field-line view and `vals` agree -/
theorem fieldsOf_filter_vals (g : HMap) (x : Bytes) :
    ((fieldsOf g).filter (fun f => f.1 == x)).map (·.2) = vals g x := by
  induction g with
  | nil => rfl
  | cons e g ih =>
    rw [fieldsOf_cons, List.filter_append, List.map_append, ih, vals_cons]
    congr 1
    unfold entryFields
    by_cases h : (lower e.1 == x) = true
    · simp [h, List.filter_map, Function.comp_def]
    · have h' : (lower e.1 == x) = false := by simpa using h
      simp [h', List.filter_map, Function.comp_def]

theorem vals_filter (g : HMap) (p : Bytes × List Bytes → Bool) (x : Bytes)
    (hp : ∀ e ∈ g, p e = false → (lower e.1 == x) = false) : vals (g.filter p) x = vals g x := by
  induction g with
  | nil => rfl
  | cons e g ih =>
    have ih' := ih (fun e' he' => hp e' (List.mem_cons_of_mem _ he'))
    rw [List.filter_cons]
    by_cases h : p e = true
    · simp [h, vals_cons, ih']
    · have h' : p e = false := by simpa using h
      have := hp e List.mem_cons_self h'
      simp [h', vals_cons, ih', this]

theorem vals_map_replace (g : HMap) (k : Bytes) (vs : List Bytes) (x : Bytes) (hk : (lower k == x) = false) :
    vals (g.map (fun e => if e.1 == k then (k, vs) else e)) x = vals g x := by
  induction g with
  | nil => rfl
  | cons e g ih =>
    rw [List.map_cons, vals_cons, vals_cons, ih]
    by_cases he : (e.1 == k) = true
    · have : e.1 = k := by simpa using he
      subst this
      simp [hk]
    · have he' : (e.1 == k) = false := by simpa using he
      simp [he']

theorem vals_put_ne (g : HMap) (k : Bytes) (vs : List Bytes) (x : Bytes) (hk : (lower k == x) = false) :
    vals (HMap.put g k vs) x = vals g x := by
  unfold HMap.put
  split
  · exact vals_map_replace g k vs x hk
  · rw [vals_append, vals_cons, vals_nil]
    simp [hk]

theorem lookup_vals_nil (g : HMap) (k : Bytes) (vs : List Bytes) (h : g.lookup k = some vs)
    (hv : vals g (lower k) = []) : vs = [] := by
  induction g with
  | nil => simp at h
  | cons e g ih =>
    rw [vals_cons] at hv
    have hv1 := List.append_eq_nil_iff.1 hv
    simp only [List.lookup] at h
    by_cases he : (k == e.1) = true
    · have : k = e.1 := by simpa using he
      subst this
      simp only [he, Option.some.injEq] at h
      subst h
      simpa using hv1.1
    · have he' : (k == e.1) = false := by simpa using he
      simp only [he'] at h
      exact ih h hv1.2


/-- a response rule leaves the field lines named `x` (lower case) alone -/
def leaves (x : Bytes) : Rule → Bool
  | .remove n => lower n != x
  | .removePrefix p => !(lower p).isPrefixOf x
  | .empty n => lower n != x
  | .add n _ => lower n != x
  | .rename _ => false

theorem specRule_filter (fs : List (Bytes × Bytes)) (r : Rule) (x : Bytes) (h : leaves x r = true) :
    (specRule fs r).filter (fun f => f.1 == x) = fs.filter (fun f => f.1 == x) := by
  cases r with
  | remove n =>
    simp only [leaves, bne_iff_ne, ne_eq] at h
    simp only [specRule, List.filter_filter]
    apply List.filter_congr
    intro f _
    by_cases hf : (f.1 == x) = true
    · have : f.1 = x := by simpa using hf
      simp [hf, this]
      exact fun h' => h h'.symm
    · simp [hf]
  | removePrefix p =>
    simp only [leaves, Bool.not_eq_eq_eq_not, Bool.not_true] at h
    simp only [specRule, List.filter_filter]
    apply List.filter_congr
    intro f _
    by_cases hf : (f.1 == x) = true
    · have : f.1 = x := by simpa using hf
      simp [hf, this, h]
    · simp [hf]
  | empty n =>
    simp only [leaves, bne_iff_ne, ne_eq] at h
    have hn : ((lower n == x) = false) := by simpa using h
    simp only [specRule, List.filter_append, List.filter_filter, List.filter_cons, List.filter_nil, hn]
    simp only [Bool.false_eq_true, if_false, List.append_nil]
    apply List.filter_congr
    intro f _
    by_cases hf : (f.1 == x) = true
    · have : f.1 = x := by simpa using hf
      simp [hf, this]
      exact fun h' => h h'.symm
    · simp [hf]
  | add n v =>
    simp only [leaves, bne_iff_ne, ne_eq] at h
    have hn : ((lower n == x) = false) := by simpa using h
    simp [specRule, List.filter_append, hn]
  | rename n => simp [leaves] at h

theorem specRules_filter (rs : List Rule) (fs : List (Bytes × Bytes)) (x : Bytes)
    (h : ∀ r ∈ rs, leaves x r = true) :
    (specRules rs fs).filter (fun f => f.1 == x) = fs.filter (fun f => f.1 == x) := by
  induction rs generalizing fs with
  | nil => rfl
  | cons r rs ih =>
    show (specRules rs (specRule fs r)).filter _ = _
    rw [ih _ (fun r' hr' => h r' (List.mem_cons_of_mem _ hr')), specRule_filter fs r x (h r List.mem_cons_self)]

theorem applyRules_inv {rs : List Rule} {h : HMap} (hr : NoRename rs) (hv : ∀ r ∈ rs, ValidRule r)
    (hc : CanonKeys h) (hn : NodupKeys h) : CanonKeys (applyRules rs h) ∧ NodupKeys (applyRules rs h) := by
  induction rs generalizing h with
  | nil => exact ⟨hc, hn⟩
  | cons r rs ih =>
    obtain ⟨_, h2, h3⟩ := applyRule_spec (hr r List.mem_cons_self) (hv r List.mem_cons_self) hc hn
    exact ih (fun r' hr' => hr r' (List.mem_cons_of_mem _ hr')) (fun r' hr' => hv r' (List.mem_cons_of_mem _ hr')) h2 h3

/-- rules that leave `x` alone keep the values of `x` (as a multiset; for at most one value: exactly) -/
theorem vals_applyRules {rs : List Rule} {h : HMap} (x : Bytes) (hr : NoRename rs) (hv : ∀ r ∈ rs, ValidRule r)
    (hc : CanonKeys h) (hn : NodupKeys h) (hl : ∀ r ∈ rs, leaves x r = true) :
    (vals (applyRules rs h) x).Perm (vals h x) := by
  rw [← fieldsOf_filter_vals, ← fieldsOf_filter_vals]
  have hp := (applyRules_spec hr hv hc hn).filter (fun f => f.1 == x)
  rw [specRules_filter rs _ x hl] at hp
  exact hp.map _

theorem vals_removeHopByHop (H : HMap) (x : Bytes) (hconn : vals H (lower connName) = [])
    (hx : ∀ k ∈ hopByHopNames.map canonicalKey, (lower k == x) = false) :
    vals (removeHopByHop H) x = vals H x := by
  unfold removeHopByHop
  have hg : hget H (bs "Connection") = [] := by
    show (H.lookup connName).getD [] = []
    cases hl : H.lookup connName with
    | none => rfl
    | some vs => simp [lookup_vals_nil H connName vs hl hconn]
  simp only [hg, List.flatMap_nil, List.foldl_nil]
  rw [foldl_goDel_eq_filter]
  apply vals_filter
  intro e _ he
  have hc : (hopByHopNames.map canonicalKey).contains e.1 = true := by
    revert he
    generalize (hopByHopNames.map canonicalKey).contains e.1 = b
    cases b <;> simp
  exact hx e.1 (List.contains_iff_mem.1 hc)

theorem values_writeResponse (closing : Bool) (r : GoResp) (name : Bytes)
    (h1 : (bs "content-length" == lower name) = false)
    (h2 : (lower connName == lower name) = false)
    (h3 : ∀ k ∈ [bs "Content-Length", bs "Transfer-Encoding", bs "Trailer"], (lower k == lower name) = false) :
    (writeResponse closing r).values name = vals r.header (lower name) := by
  have k1 : canonicalKey (bs "Connection") = connName := by with_unfolding_all rfl
  unfold writeResponse WireResp.values
  simp only [List.filter_cons, h1, Bool.false_eq_true, if_false]
  show vals (List.filter _ _) (lower name) = _
  rw [vals_filter]
  · split
    · simp only [goAdd, k1]
      exact vals_put_ne _ _ _ _ h2
    · rfl
  · intro e _ he
    have hc : [bs "Content-Length", bs "Transfer-Encoding", bs "Trailer"].contains e.1 = true := by
      revert he
      generalize [bs "Content-Length", bs "Transfer-Encoding", bs "Trailer"].contains e.1 = b
      cases b <;> simp
    exact h3 e.1 (List.contains_iff_mem.1 hc)


def errHeader (rq : ReqFacts) (st : Nat) (err : Bytes) : HMap :=
  (if st == 407 then [(paName, [challenge rq.name])] else []) ++
    [(xfeName, [rq.name ++ [32] ++ err]), (ctName, [ctValue])]

theorem errHeader_canon (rq : ReqFacts) (st : Nat) (err : Bytes) :
    CanonKeys (errHeader rq st err) ∧ NodupKeys (errHeader rq st err) := by
  have k1 : canonicalKey xfeName = xfeName := by with_unfolding_all rfl
  have k2 : canonicalKey ctName = ctName := by with_unfolding_all rfl
  have k3 : canonicalKey paName = paName := by with_unfolding_all rfl
  have n1 : xfeName ≠ ctName := by with_unfolding_all decide
  have n2 : paName ≠ ctName := by with_unfolding_all decide
  have n3 : paName ≠ xfeName := by with_unfolding_all decide
  unfold errHeader CanonKeys NodupKeys
  cases (st == 407) <;> simp [k1, k2, k3, n1, n2, n3]

theorem errHeader_vals (rq : ReqFacts) (st : Nat) (err : Bytes) :
    vals (errHeader rq st err) (lower xfeName) = [rq.name ++ [32] ++ err] ∧
      vals (errHeader rq st err) (lower connName) = [] := by
  unfold errHeader
  cases (st == 407) <;> constructor <;> with_unfolding_all rfl

/-- the header map of an error response after the response modifiers, for rule lists without `%name`:
    `X-Forwarder-Error` keeps its one value whenever no rule names it or `Connection` -/
theorem modified_vals_xfe (rq : ReqFacts) (st : Nat) (msg err : Bytes)
    (hr : NoRename rq.rules) (hv : ∀ r ∈ rq.rules, ValidRule r)
    (hl : ∀ r ∈ rq.rules, leaves (lower xfeName) r = true ∧ leaves (lower connName) r = true) :
    vals (modifyResponse rq (errorResponse rq st msg err)).header (lower xfeName) = [rq.name ++ [32] ++ err] := by
  have hx : ∀ k ∈ hopByHopNames.map canonicalKey, (lower k == lower xfeName) = false := by
    with_unfolding_all decide
  obtain ⟨hc, hn⟩ := errHeader_canon rq st err
  obtain ⟨v1, v2⟩ := errHeader_vals rq st err
  show vals (removeHopByHop _) _ = _
  rw [errorResponse_header]
  change vals (removeHopByHop (if rq.isConnect = true then errHeader rq st err else applyRules rq.rules (errHeader rq st err))) _ = _
  by_cases hco : rq.isConnect = true
  · simp only [hco, if_true]
    rw [vals_removeHopByHop _ _ v2 hx, v1]
  · have hco' : rq.isConnect = false := by simpa using hco
    simp only [hco', Bool.false_eq_true, if_false]
    have p1 := vals_applyRules (lower xfeName) hr hv hc hn (fun r h => (hl r h).1)
    have p2 := vals_applyRules (lower connName) hr hv hc hn (fun r h => (hl r h).2)
    rw [v1] at p1
    rw [v2] at p2
    rw [vals_removeHopByHop _ _ (List.perm_nil.1 p2) hx, List.perm_singleton.1 p1]


theorem vals_eq_nil (g : HMap) (x : Bytes) (h : ∀ e ∈ g, (lower e.1 == x) = false) : vals g x = [] := by
  induction g with
  | nil => rfl
  | cons e g ih =>
    rw [vals_cons, h e List.mem_cons_self, ih (fun e' he' => h e' (List.mem_cons_of_mem _ he'))]
    rfl

theorem removeHopByHop_sublist (H : HMap) : (removeHopByHop H).Sublist H := by
  unfold removeHopByHop
  rw [foldl_goDel_eq_filter, foldl_goDel_eq_filter]
  exact (List.filter_sublist).trans List.filter_sublist

/-- `Content-Length` on the wire is the one `writeResponse` generates: a map with canonical keys
    contributes none of its own -/
theorem values_writeResponse_cl (closing : Bool) (r : GoResp) (hc : CanonKeys r.header) :
    (writeResponse closing r).values (bs "Content-Length") = [natToDec r.contentLength] := by
  have k1 : canonicalKey (bs "Connection") = connName := by with_unfolding_all rfl
  have kc : canonicalKey connName = connName := by with_unfolding_all rfl
  have e0 : (bs "content-length" == lower (bs "Content-Length")) = true := by with_unfolding_all rfl
  have ht : (bs "Content-Length").all isTokenByte = true := by with_unfolding_all rfl
  have hck : canonicalKey (bs "Content-Length") = bs "Content-Length" := by with_unfolding_all rfl
  have hmem : [bs "Content-Length", bs "Transfer-Encoding", bs "Trailer"].contains (bs "Content-Length") = true := by
    with_unfolding_all rfl
  unfold writeResponse WireResp.values
  simp only [List.filter_cons, e0, if_true, List.flatMap_cons]
  suffices hs : ∀ h : HMap, CanonKeys h →
      vals (h.filter fun e => !([bs "Content-Length", bs "Transfer-Encoding", bs "Trailer"].contains e.1))
        (lower (bs "Content-Length")) = [] by
    have hh : CanonKeys (if (closing || r.close) = true then goAdd r.header (bs "Connection") (bs "close") else r.header) := by
      split
      · simp only [goAdd, k1]; exact hc.put _ kc
      · exact hc
    have := hs _ hh
    unfold vals at this
    rw [this]; rfl
  intro h hch
  apply vals_eq_nil
  intro e he
  have hm := List.mem_filter.1 he
  cases hl : (lower e.1 == lower (bs "Content-Length"))
  · rfl
  · exfalso
    have heq : lower e.1 = lower (bs "Content-Length") := by simpa using hl
    have hkey : e.1 = bs "Content-Length" := by
      have := (lower_eq_iff_of_canon (hch e hm.1) ht).1 heq
      rw [this, hck]
    have := hm.2
    rw [hkey, hmem] at this
    simp at this

theorem modified_canon (rq : ReqFacts) (st : Nat) (msg err : Bytes)
    (hr : NoRename rq.rules) (hv : ∀ r ∈ rq.rules, ValidRule r) :
    CanonKeys (modifyResponse rq (errorResponse rq st msg err)).header := by
  obtain ⟨hc, hn⟩ := errHeader_canon rq st err
  show CanonKeys (removeHopByHop _)
  refine CanonKeys.sublist (removeHopByHop_sublist _) ?_
  rw [errorResponse_header]
  change CanonKeys (if rq.isConnect = true then errHeader rq st err else applyRules rq.rules (errHeader rq st err))
  split
  · exact hc
  · exact (applyRules_inv hr hv hc hn).1


/-! ## §1d the relayed CONNECT rejection -/

/-- the response modifiers keep the keys of a relayed header map canonical -/
theorem modified_relay_canon (rq : ReqFacts) (st : Nat) (up : HMap) (body : Bytes)
    (hr : NoRename rq.rules) (hv : ∀ r ∈ rq.rules, ValidRule r) (hc : CanonKeys up) (hn : NodupKeys up) :
    CanonKeys (modifyResponse rq (relayResponse rq st up body)).header := by
  show CanonKeys (removeHopByHop _)
  refine CanonKeys.sublist (removeHopByHop_sublist _) ?_
  change CanonKeys (if rq.isConnect = true then up else applyRules rq.rules up)
  split
  · exact hc
  · exact (applyRules_inv hr hv hc hn).1

/-- every value stored under a key whose lower-case form is `x` is among `vals g x` -/
theorem mem_vals_of_mem {g : HMap} {k : Bytes} {vs : List Bytes} {x v : Bytes} (he : (k, vs) ∈ g)
    (hk : (lower k == x) = true) (hv : v ∈ vs) : v ∈ vals g x := by
  induction g with
  | nil => simp at he
  | cons e g ih =>
    rw [vals_cons]
    rcases List.mem_cons.1 he with h | h
    · subst h
      simp only [hk, if_true]
      exact List.mem_append_left _ hv
    · exact List.mem_append_right _ (ih h)

/-- `h[k] = xs ++ [v]`: `v` is among the values of `k` afterwards -/
theorem mem_vals_put (g : HMap) (k : Bytes) (xs : List Bytes) (v : Bytes) :
    v ∈ vals (HMap.put g k (xs ++ [v])) (lower k) := by
  have hk : (lower k == lower k) = true := by simp
  unfold HMap.put
  split
  · rename_i hany
    obtain ⟨e, he, hek⟩ := List.any_eq_true.1 hany
    refine mem_vals_of_mem (k := k) (vs := xs ++ [v]) ?_ hk (by simp)
    exact List.mem_map.2 ⟨e, he, by simp [hek]⟩
  · exact mem_vals_of_mem (k := k) (vs := xs ++ [v]) (by simp) hk (by simp)

/-- when `writeResponse` closes, `Connection: close` is on the wire -/
theorem close_on_wire (closing : Bool) (r : GoResp) (h : (closing || r.close) = true) :
    bs "close" ∈ (writeResponse closing r).values connName := by
  have k1 : canonicalKey (bs "Connection") = connName := by with_unfolding_all rfl
  have h1 : (bs "content-length" == lower connName) = false := by with_unfolding_all rfl
  have h3 : ∀ k ∈ [bs "Content-Length", bs "Transfer-Encoding", bs "Trailer"], (lower k == lower connName) = false := by
    with_unfolding_all decide
  unfold writeResponse WireResp.values
  simp only [List.filter_cons, h1, Bool.false_eq_true, if_false, h, if_true]
  show bs "close" ∈ vals (List.filter _ _) (lower connName)
  rw [vals_filter]
  · simp only [goAdd, k1]
    exact mem_vals_put _ _ _ _
  · intro e _ he
    have hc : [bs "Content-Length", bs "Transfer-Encoding", bs "Trailer"].contains e.1 = true := by
      revert he
      generalize [bs "Content-Length", bs "Transfer-Encoding", bs "Trailer"].contains e.1 = b
      cases b <;> simp
    exact h3 e.1 (List.contains_iff_mem.1 hc)

/-- the values of a field the response rules and hop-by-hop removal leave alone are, after the
    response modifiers, those of the upstream proxy's reply (as a multiset) -/
theorem modified_relay_vals (rq : ReqFacts) (st : Nat) (up : HMap) (body : Bytes) (x : Bytes)
    (hr : NoRename rq.rules) (hv : ∀ r ∈ rq.rules, ValidRule r) (hc : CanonKeys up) (hn : NodupKeys up)
    (hl : ∀ r ∈ rq.rules, leaves x r = true ∧ leaves (lower connName) r = true)
    (hconn : vals up (lower connName) = [])
    (hx : ∀ k ∈ hopByHopNames.map canonicalKey, (lower k == x) = false) :
    (vals (modifyResponse rq (relayResponse rq st up body)).header x).Perm (vals up x) := by
  show (vals (removeHopByHop (if rq.isConnect = true then up else applyRules rq.rules up)) x).Perm _
  by_cases hco : rq.isConnect = true
  · simp only [hco, if_true]
    rw [vals_removeHopByHop _ _ hconn hx]
  · have hco' : rq.isConnect = false := by simpa using hco
    simp only [hco', Bool.false_eq_true, if_false]
    have p1 := vals_applyRules x hr hv hc hn (fun r h => (hl r h).1)
    have p2 := vals_applyRules (lower connName) hr hv hc hn (fun r h => (hl r h).2)
    rw [hconn] at p2
    rw [vals_removeHopByHop _ _ (List.perm_nil.1 p2) hx]
    exact p1

/-! ## §1b′ the ordered handler list -/

/-- a handler of the list that claims the error makes the list claim it -/
theorem firstVerdict_ne_zero {hs : List Handler} {h : Handler} (hm : h ∈ hs) {https : Bool} {e : ErrShape}
    (hn : (h https e).1 ≠ 0) : (firstVerdict hs https e).1 ≠ 0 := by
  induction hs with
  | nil => simp at hm
  | cons h' hs ih =>
    simp only [firstVerdict]
    by_cases h0 : (h' https e).1 = 0
    · have hm' : h ∈ hs := by
        rcases List.mem_cons.mp hm with rfl | hm'
        · exact absurd h0 hn
        · exact hm'
      simp only [h0, bne_self_eq_false, Bool.false_eq_true, if_false]
      exact ih hm'
    · simp [h0]

/-- the verdict of the list is the verdict of one of its handlers (or nobody's) -/
theorem firstVerdict_mem (hs : List Handler) (https : Bool) (e : ErrShape) :
    firstVerdict hs https e = pass ∨ ∃ h ∈ hs, firstVerdict hs https e = h https e := by
  induction hs with
  | nil => exact Or.inl rfl
  | cons h' hs ih =>
    simp only [firstVerdict]
    by_cases h0 : (h' https e).1 = 0
    · simp only [h0, bne_self_eq_false, Bool.false_eq_true, if_false]
      rcases ih with hp | ⟨h, hm, he⟩
      · exact Or.inl hp
      · exact Or.inr ⟨h, List.mem_cons_of_mem _ hm, he⟩
    · refine Or.inr ⟨h', List.mem_cons_self, ?_⟩
      simp [h0]

/-- no handler of `errorResponse` uses the label of the fallback -/
theorem handlers_label (h : Handler) (hm : h ∈ handlers) (https : Bool) (e : ErrShape) :
    (h https e).2 ≠ "unexpected_error" := by
  simp only [handlers, List.mem_cons, List.not_mem_nil, or_false] at hm
  rcases hm with rfl | rfl | rfl | rfl | rfl | rfl | rfl | rfl | rfl | rfl | rfl | rfl | rfl | rfl
  · simp only [handleWindowsNetError, pass]; decide
  · unfold handleNetError
    rcases e.opError with _ | ⟨o, t⟩
    · decide
    · cases o <;> cases t <;> decide
  · unfold handleTLSRecordHeader; split <;> decide
  · unfold handleTLSCertificateError; split <;> decide
  · unfold handleTLSECHRejectionError; split <;> decide
  · unfold handleTLSAlertError; split <;> decide
  · unfold handleMartianErrorStatus; split <;> simp only [pass] <;> decide
  · unfold handleAuthenticationError; split <;> decide
  · unfold handleDenyError; split <;> decide
  · unfold handleProhibitedError; split <;> decide
  · unfold handleContextCancelationError; split <;> decide
  · unfold handleStatusText; (repeat' split) <;> simp only [pass] <;> decide
  · unfold handleTimeoutError; split <;> decide
  · unfold handleEOFError; split <;> decide

/-! ## §1c the shapes `clientStream` takes -/

theorem errorObs_generated (ex : Exchange) (k : ErrKind) (h : ∀ s, k ≠ .connectRejected s) :
    errorObs ex k = .errorResponse ex.id (classify k).1 (classify k).2 (!ex.reqClose) := by
  cases k <;> first | rfl | exact absurd rfl (h _)

theorem errorObs_relay (ex : Exchange) (s : Nat) :
    errorObs ex (.connectRejected s) = .relayedRejection ex.id s true (!ex.reqClose) := rfl

theorem cutErr_upstream (k : Nat) (r sf e : Bool) :
    upstreamKind (cutErr k r sf e) = true ∧ ∀ s, cutErr k r sf e ≠ .connectRejected s := by
  unfold cutErr
  constructor
  · split
    · split <;> rfl
    · split
      · rfl
      · split <;> rfl
  · intro s
    split
    · split <;> simp
    · split
      · simp
      · split <;> simp

theorem dialErr_upstream (ex : Exchange) (t : Bool) :
    upstreamKind (dialErr ex t) = true ∧ ∀ s, dialErr ex t ≠ .connectRejected s := by
  unfold dialErr
  constructor
  · split
    · rfl
    · split <;> rfl
  · intro s; split
    · simp
    · split <;> simp

/-- the error a fault raises is an upstream-fault kind, except for the transport-level CONNECT rejection -/
theorem faultErr_kind (f : Fault) (ex : Exchange) (k : ErrKind) (h : faultErr f ex = some k) :
    (upstreamKind k = true ∧ ∀ s, k ≠ .connectRejected s) ∨
      (∃ s, k = .connectRejected s ∧ transportConnectRejection f ex = true) := by
  cases f with
  | none => simp [faultErr] at h
  | dialRefused => simp only [faultErr, Option.some.injEq] at h; subst h; exact Or.inl (dialErr_upstream ex false)
  | dialTimeout => simp only [faultErr, Option.some.injEq] at h; subst h; exact Or.inl (dialErr_upstream ex true)
  | dialReset op =>
    simp only [faultErr, resetErr] at h
    split at h
    · simp at h
    · split at h <;> (simp only [Option.some.injEq] at h; subst h; exact Or.inl ⟨rfl, by simp⟩)
  | tls t =>
    simp only [faultErr] at h
    split at h
    · simp only [Option.some.injEq] at h; subst h
      exact Or.inl ⟨by cases t <;> rfl, by cases t <;> simp [TLSFault.errKind]⟩
    · simp at h
  | connectReply r =>
    simp only [faultErr] at h
    split at h
    · rename_i huc
      cases r with
      | rejected s fr =>
        simp only at h
        split at h
        · simp at h
        · rename_i hk
          simp only [Option.some.injEq] at h; subst h
          refine Or.inr ⟨s, rfl, ?_⟩
          simp only [transportConnectRejection, huc, Bool.true_and]
          simpa [bne] using hk
      | rejectedCut s n k =>
        simp only at h
        split at h
        · simp at h
        · rename_i hk
          simp only [Option.some.injEq] at h; subst h
          refine Or.inr ⟨s, rfl, ?_⟩
          simp only [transportConnectRejection, huc, Bool.true_and]
          simpa [bne] using hk
      | cut k r sf e =>
        simp only [Option.some.injEq] at h; subst h
        exact Or.inl (cutErr_upstream k r sf e)
      | malformed => simp only [Option.some.injEq] at h; subst h; exact Or.inl ⟨rfl, by simp⟩
      | timeout =>
        simp only [Option.some.injEq] at h; subst h
        split
        · exact Or.inl ⟨rfl, by simp⟩
        · exact Or.inl ⟨rfl, by simp⟩
    · simp at h
  | headCut k r sf e =>
    simp only [faultErr] at h
    split at h
    · simp at h
    · simp only [Option.some.injEq] at h; subst h; exact Or.inl (cutErr_upstream k r sf e)
  | headMalformed =>
    simp only [faultErr] at h
    split at h
    · simp at h
    · simp only [Option.some.injEq] at h; subst h; exact Or.inl ⟨rfl, by simp⟩
  | bodyCut k r l => simp [faultErr] at h

/-- without a fault nothing is missing -/
theorem okObs_not_truncated (ex : Exchange) (hcl : ∀ n, ex.framing = .cl n → n = ex.bodyLen) :
    (okObs ex).truncated ex = false := by
  unfold okObs
  cases ex.kind <;> first
    | rfl
    | (cases hf : ex.framing with
       | cl n => have := hcl n hf; simp [ClientObs.truncated, this]
       | chunked => simp only []; split <;> simp [ClientObs.truncated]
       | eof => simp [ClientObs.truncated])

theorem okObs_clean (ex : Exchange) (hcl : ∀ n, ex.framing = .cl n → n = ex.bodyLen) :
    cleanOutcome ex (okObs ex) = true := by
  have ht := okObs_not_truncated ex hcl
  unfold okObs at ht ⊢
  cases hk : ex.kind <;> simp only [hk] at ht ⊢
  case connect => simp [cleanOutcome, ClientObs.id?, hk]
  all_goals
    cases hf : ex.framing with
    | cl n => simp only [hf] at ht ⊢; simp [cleanOutcome, ClientObs.id?, ht]
    | chunked =>
      simp only [hf] at ht ⊢
      split at ht <;> simp_all [cleanOutcome, ClientObs.id?]
    | eof => simp only [hf] at ht ⊢; simp [cleanOutcome, ClientObs.id?, ht]

/-- a relay framing other than close-delimited: the origin's is not close-delimited, and a chunked
    one goes to an HTTP/1.1 client -/
theorem relayFraming_ne_eof {ex : Exchange} (h : relayFraming ex ≠ .eof) :
    ex.framing ≠ .eof ∧ (ex.framing = .chunked → (ex.clientMinor == 0) = false) := by
  constructor
  · intro hf; exact h (by simp [relayFraming, hf])
  · intro hf
    cases h0 : (ex.clientMinor == 0)
    · rfl
    · exact absurd (by simp [relayFraming, hf, h0]) h

/-- the five shapes of `clientStream` -/
theorem clientStream_cases (f : Fault) (ex : Exchange) :
    (∃ k, faultErr f ex = some k ∧ clientStream f ex = errorObs ex k) ∨
      (∃ s fr, f = .connectReply (.rejected s fr) ∧ ex.kind = .connect ∧
        clientStream f ex = .relayedRejection ex.id s true (fr && !ex.reqClose)) ∨
      (∃ k r lost, f = .bodyCut k r lost ∧ (ex.kind == ReqKind.connect) = false ∧
        clientStream f ex = bodyCutObs ex k r lost) ∨
      (∃ s n k, f = .connectReply (.rejectedCut s n k) ∧ ex.kind = .connect ∧
        clientStream f ex = .prefixThenClose ex.id (.cl n) k false .fin) ∨
      clientStream f ex = okObs ex := by
  unfold clientStream
  cases h : faultErr f ex with
  | some k => exact Or.inl ⟨k, rfl, rfl⟩
  | none =>
    right
    cases f with
    | connectReply r =>
      cases r with
      | rejected s fr =>
        simp only
        split
        · rename_i hc
          simp only [Bool.and_eq_true, beq_iff_eq] at hc
          exact Or.inl ⟨s, fr, rfl, hc.2, rfl⟩
        · exact Or.inr (Or.inr (Or.inr rfl))
      | rejectedCut s n k =>
        simp only
        split
        · rename_i hc
          simp only [Bool.and_eq_true, beq_iff_eq] at hc
          exact Or.inr (Or.inr (Or.inl ⟨s, n, k, rfl, hc.2, rfl⟩))
        · exact Or.inr (Or.inr (Or.inr rfl))
      | _ => exact Or.inr (Or.inr (Or.inr rfl))
    | bodyCut k r lost =>
      simp only
      split
      · exact Or.inr (Or.inr (Or.inr rfl))
      · rename_i hk
        exact Or.inr (Or.inl ⟨k, r, lost, rfl, by simpa using hk, rfl⟩)
    | _ => exact Or.inr (Or.inr (Or.inr rfl))

/-! ## §2 the consecutive-error counter -/

theorem loopStep_closed {s : LoopState} (h : s.closed = true) (r : HandleResult) : loopStep s r = s := by
  simp [loopStep, h]

theorem runLoop_closed {s : LoopState} (h : s.closed = true) (rs : List HandleResult) :
    runLoop s rs = s := by
  induction rs with
  | nil => rfl
  | cons r rs ih => simp only [runLoop, List.foldl_cons, loopStep_closed h]; exact ih

theorem runLoop_append (s : LoopState) (a b : List HandleResult) :
    runLoop s (a ++ b) = runLoop (runLoop s a) b := by
  simp [runLoop, List.foldl_append]

/-- `n` further non-closeable errors on an open connection -/
theorem runLoop_replicate_other (s : LoopState) (hs : s.closed = false) (n : Nat) :
    runLoop s (List.replicate n .other) =
      if s.errorsN + n < maxConsecutiveErrors then { errorsN := s.errorsN + n, closed := false }
      else if n = 0 then s
      else { errorsN := max (s.errorsN + 1) maxConsecutiveErrors, closed := true } := by
  induction n generalizing s with
  | zero =>
    cases s with
    | mk e c =>
      simp only [runLoop, List.replicate_zero, List.foldl_nil, Nat.add_zero] at *
      subst hs
      split <;> simp
  | succ n ih =>
    cases s with
    | mk e c =>
      simp only at hs
      subst hs
      simp only [List.replicate_succ, runLoop, List.foldl_cons]
      by_cases hlt : e + 1 < maxConsecutiveErrors
      · have hstep : loopStep { errorsN := e, closed := false } .other = { errorsN := e + 1, closed := false } := by
          simp only [loopStep, maxConsecutiveErrors] at *
          simp; omega
        have := ih { errorsN := e + 1, closed := false } rfl
        simp only [runLoop] at this
        rw [hstep, this]
        simp only [maxConsecutiveErrors] at *
        by_cases h2 : e + 1 + n < 5
        · have h3 : e + (n + 1) < 5 := by omega
          simp [h2, h3]; omega
        · have h3 : ¬ e + (n + 1) < 5 := by omega
          simp only [h2, h3, if_false]
          by_cases hn : n = 0
          · subst hn; omega
          · simp [hn]; omega
      · have hstep : loopStep { errorsN := e, closed := false } .other = { errorsN := e + 1, closed := true } := by
          simp only [loopStep, maxConsecutiveErrors] at *
          simp; omega
        have hcl := runLoop_closed (s := { errorsN := e + 1, closed := true }) rfl (List.replicate n .other)
        simp only [runLoop] at hcl
        rw [hstep, hcl]
        simp only [maxConsecutiveErrors] at *
        have h3 : ¬ e + (n + 1) < 5 := by omega
        simp [h3]; omega

/-! ## §3 several exchanges on one connection -/

theorem connStream_length_le (l : List (Fault × Exchange)) : (connStream l).length ≤ l.length := by
  induction l with
  | nil => simp [connStream]
  | cons p rest ih =>
    obtain ⟨f, ex⟩ := p
    simp only [connStream]
    split <;> simp <;> omega

/-- the i-th observation is the i-th exchange's, and every earlier one kept the connection -/
theorem connStream_get (l : List (Fault × Exchange)) (i : Nat) (o : ClientObs)
    (h : (connStream l)[i]? = some o) :
    ∃ f ex, l[i]? = some (f, ex) ∧ o = clientStream f ex ∧
      ∀ j, j < i → ∃ fj exj, l[j]? = some (fj, exj) ∧ (clientStream fj exj).keepsAlive = true := by
  induction l generalizing i with
  | nil => simp [connStream] at h
  | cons p rest ih =>
    obtain ⟨f, ex⟩ := p
    simp only [connStream] at h
    by_cases hk : (clientStream f ex).keepsAlive = true
    · simp only [hk, if_true] at h
      cases i with
      | zero =>
        simp only [List.getElem?_cons_zero, Option.some.injEq] at h
        exact ⟨f, ex, by simp, h.symm, fun j hj => absurd hj (Nat.not_lt_zero j)⟩
      | succ i =>
        simp only [List.getElem?_cons_succ] at h
        obtain ⟨f', ex', h1, h2, h3⟩ := ih i h
        refine ⟨f', ex', by simpa using h1, h2, ?_⟩
        intro j hj
        cases j with
        | zero => exact ⟨f, ex, by simp, hk⟩
        | succ j =>
          obtain ⟨fj, exj, h4, h5⟩ := h3 j (by omega)
          exact ⟨fj, exj, by simpa using h4, h5⟩
    · simp only [hk] at h
      cases i with
      | zero =>
        simp only [Bool.false_eq_true, if_false, List.getElem?_cons_zero, Option.some.injEq] at h
        exact ⟨f, ex, by simp, h.symm, fun j hj => absurd hj (Nat.not_lt_zero j)⟩
      | succ i => simp at h

/-- nothing follows an observation that ends the connection -/
theorem connStream_stops (l : List (Fault × Exchange)) (i : Nat) (o : ClientObs)
    (h : (connStream l)[i]? = some o) (hk : o.keepsAlive = false) : (connStream l).length = i + 1 := by
  induction l generalizing i with
  | nil => simp [connStream] at h
  | cons p rest ih =>
    obtain ⟨f, ex⟩ := p
    simp only [connStream] at h ⊢
    by_cases hka : (clientStream f ex).keepsAlive = true
    · simp only [hka, if_true] at h ⊢
      cases i with
      | zero =>
        simp only [List.getElem?_cons_zero, Option.some.injEq] at h
        rw [← h, hka] at hk
        exact absurd hk (by simp)
      | succ i =>
        simp only [List.getElem?_cons_succ] at h
        simp [ih i h]
    · simp only [hka] at h ⊢
      cases i with
      | zero => simp
      | succ i => simp at h

end C12
end FwdVerif
