/-
  C13 — helper lemmas for the dialled connections of the CONNECT path: who owns the connection after
  `Connect`, the shapes of an exchange's dial events, and two invariants of the listener/dialer machine
  (every connection has a closer / some connection has none).
-/
import FwdVerif.Lemmas.C13Close

namespace FwdVerif
namespace C13

/-! ## `connect` / `Connect`: a connection is either handed out or already closed -/

theorem connect_cases (route : Route) :
    ((connect route).1.conn = true ∧ (connect route).1.err = false ∧ (connect route).2 = [.opened]) ∨
    ((connect route).1.conn = false ∧ (connect route).1.err = true ∧
      ((connect route).2 = [] ∨ (connect route).2 = [.dialError] ∨ (connect route).2 = [.opened, .close])) := by
  cases route with
  | proxyURLError => simp [connect, ConnectResult.failed]
  | unsupportedScheme => simp [connect, ConnectResult.failed]
  | direct ok => cases ok <;> simp [connect, ConnectResult.failed]
  | viaHTTP tls ok e => cases ok <;> cases e <;> simp [connect, ConnectResult.failed]
  | viaSOCKS5 ok e => cases ok <;> cases e <;> simp [connect, ConnectResult.failed]

theorem proxyConnect_cases (cf : ConnectFn) (route : Route) (tt hs : Bool) :
    ((proxyConnect cf route tt hs).1.conn = true ∧ (proxyConnect cf route tt hs).2 = [.opened]) ∨
    ((proxyConnect cf route tt hs).1.conn = false ∧
      ((proxyConnect cf route tt hs).2 = [] ∨ (proxyConnect cf route tt hs).2 = [.dialError] ∨
        (proxyConnect cf route tt hs).2 = [.opened, .close])) := by
  cases cf with
  | result r =>
    cases hc : r.conn <;> simp [proxyConnect, hc]
  | unset =>
    rcases connect_cases route with ⟨hc, he, hv⟩ | ⟨hc, he, hv⟩
    · left
      by_cases hg : (tt && !hs) = true
      · simp [proxyConnect, hc, hg, hv]
      · have : (tt && !hs) = false := by simpa using hg
        simp [proxyConnect, hc, this, hv]
    · right
      simp [proxyConnect, hc]
      exact hv
  | fallback =>
    rcases connect_cases route with ⟨hc, he, hv⟩ | ⟨hc, he, hv⟩
    · left
      by_cases hg : (tt && !hs) = true
      · simp [proxyConnect, hc, hg, hv]
      · have : (tt && !hs) = false := by simpa using hg
        simp [proxyConnect, hc, this, hv]
    · right
      simp [proxyConnect, hc]
      exact hv

/-- the deferred `Close` registered before the error check runs on every return; the tunnel adds at most one -/
theorem callerCloses_code (r : ConnectResult) (a : AfterConnect) :
    (r.conn = true → callerCloses .beforeErrorCheck r a = 1 ∨ callerCloses .beforeErrorCheck r a = 2) ∧
    (r.conn = false → callerCloses .beforeErrorCheck r a = 0) := by
  constructor
  · intro hc
    cases he : r.err
    · cases a with
      | modifyResponseError w => simp [callerCloses, hc, he, AfterConnect.extraCloses]
      | passedOn w => simp [callerCloses, hc, he, AfterConnect.extraCloses]
      | tunnel e f => cases e <;> cases f <;> simp [callerCloses, hc, he, AfterConnect.extraCloses]
    · simp [callerCloses, hc, he]
  · intro hc; simp [callerCloses, hc]

/-- the four shapes of an exchange's dial events in the code's order of defer and error check -/
def dialShapes : List (List DEv) :=
  [[], [.dialError], [.opened, .close], [.opened, .close, .close]]

theorem devents_shape (x : ConnectExit) : x.devents .beforeErrorCheck ∈ dialShapes := by
  unfold ConnectExit.devents ConnectExit.result
  have hcc := callerCloses_code (proxyConnect x.cf x.route x.terminateTLS x.handshakeOk).1 x.after
  rcases proxyConnect_cases x.cf x.route x.terminateTLS x.handshakeOk with ⟨hc, hv⟩ | ⟨hc, hv⟩
  · rcases hcc.1 hc with h1 | h2
    · rw [hv, h1]; simp [dialShapes, List.replicate]
    · rw [hv, h2]; simp [dialShapes, List.replicate]
  · rw [hcc.2 hc]
    rcases hv with hv | hv | hv <;> rw [hv] <;> simp [dialShapes]

/-! ## Every connection has a closer -/

/-- every tracked connection has at least one `Close` call coming -/
def NPos (s : LSt) : Prop := ∀ c ∈ s.conns, 1 ≤ c.n

theorem npos_step (s : LSt) (op : LOp) (h : NPos s) (hop : ∀ n, op = .accept n → 1 ≤ n) :
    NPos (s.step true op) := by
  cases op with
  | accept n =>
    intro c hc
    simp only [LSt.step] at hc
    rcases List.mem_append.mp hc with h1 | h2
    · exact h c h1
    · have : c = CloseSt.init n := by simpa using h2
      subst this
      exact hop n rfl
  | acceptError => exact h
  | close i j =>
    simp only [LSt.step]
    cases hc : s.conns[i]? with
    | none => exact h
    | some c =>
      exact modifyAt_mem _ (fun c => 1 ≤ c.n) (fun c hc => by rw [step_n]; exact hc) _ _ h

theorem npos_run (s : LSt) (ops : List LOp) (h : NPos s) (hop : ∀ n, LOp.accept n ∈ ops → 1 ≤ n) :
    NPos (s.run true ops) := by
  induction ops generalizing s with
  | nil => exact h
  | cons op t ih =>
    apply ih (s.step true op)
    · exact npos_step s op h (fun n hn => hop n (by rw [hn]; exact List.mem_cons_self))
    · intro n hn; exact hop n (List.mem_cons_of_mem _ hn)

/-! ## A connection without a closer -/

/-- some tracked connection has no `Close` call coming at all -/
def HasOrphan (s : LSt) : Prop := ∃ c ∈ s.conns, c.n = 0

theorem modifyAt_exists (f : CloseSt → CloseSt) (P : CloseSt → Prop) (hf : ∀ c, P c → P (f c))
    (cs : List CloseSt) (i : Nat) (h : ∃ c ∈ cs, P c) : ∃ c ∈ modifyAt f cs i, P c := by
  induction cs generalizing i with
  | nil => obtain ⟨c, hc, _⟩ := h; simp at hc
  | cons a t ih =>
    obtain ⟨c, hc, hp⟩ := h
    cases i with
    | zero =>
      rcases List.mem_cons.mp hc with h1 | h2
      · subst h1; exact ⟨f c, by simp [modifyAt], hf c hp⟩
      · exact ⟨c, by simp [modifyAt, h2], hp⟩
    | succ k =>
      rcases List.mem_cons.mp hc with h1 | h2
      · subst h1; exact ⟨c, by simp [modifyAt], hp⟩
      · obtain ⟨d, hd, hpd⟩ := ih k ⟨c, h2, hp⟩
        exact ⟨d, by simp [modifyAt, hd], hpd⟩

theorem orphan_step (s : LSt) (op : LOp) (h : HasOrphan s) : HasOrphan (s.step true op) := by
  cases op with
  | accept n =>
    obtain ⟨c, hc, h0⟩ := h
    exact ⟨c, by simp [LSt.step, hc], h0⟩
  | acceptError => exact h
  | close i j =>
    simp only [LSt.step]
    cases hc : s.conns[i]? with
    | none => exact h
    | some c =>
      exact modifyAt_exists _ (fun c => c.n = 0) (fun c hc => by rw [step_n]; exact hc) _ _ h

theorem orphan_run (s : LSt) (ops : List LOp) (h : HasOrphan s) : HasOrphan (s.run true ops) := by
  induction ops generalizing s with
  | nil => exact h
  | cons op t ih => exact ih (s.step true op) (orphan_step s op h)

theorem sum_lt_length_of_zero (cs : List CloseSt) (h : ∀ c ∈ cs, c.callbacks ≤ 1)
    (hz : ∃ c ∈ cs, c.callbacks = 0) : (cs.map fun c => c.callbacks).sum + 1 ≤ cs.length := by
  induction cs with
  | nil => obtain ⟨c, hc, _⟩ := hz; simp at hc
  | cons a t ih =>
    obtain ⟨c, hc, h0⟩ := hz
    have ha := h a List.mem_cons_self
    have ht := sum_le_length t (fun c hc => h c (List.mem_cons_of_mem _ hc))
    rcases List.mem_cons.mp hc with h1 | h2
    · subst h1; simp; omega
    · have := ih (fun c hc => h c (List.mem_cons_of_mem _ hc)) ⟨c, h2, h0⟩
      simp; omega

theorem doneCount_zero_of_n_zero (c : CloseSt) (h : c.n = 0) : c.doneCount = 0 := by
  simp [CloseSt.doneCount, h]

theorem lrun_append (once : Bool) (s : LSt) (a b : List LOp) :
    s.run once (a ++ b) = (s.run once a).run once b := by
  simp [LSt.run, List.foldl_append]

/-- with a connection nobody closes the gauge stays at least 1 -/
theorem active_pos_of_orphan (s : LSt) (hi : LInv s) (ho : HasOrphan s) : 1 ≤ s.active := by
  obtain ⟨c, hc, h0⟩ := ho
  have hcb : ∀ d ∈ s.conns, d.callbacks ≤ 1 := by
    intro d hd
    have := (hi.each d hd).cb
    rw [this]; split <;> omega
  have hz : c.callbacks = 0 := by
    rw [callbacks_eq c (hi.each c hc), doneCount_zero_of_n_zero c h0]; simp
  have hs := sum_lt_length_of_zero s.conns hcb ⟨c, hc, hz⟩
  have := hi.act
  have := hi.len
  simp only [LSt.closedCount] at *
  omega

end C13
end FwdVerif
