/-
  C18 — helper lemmas, part e: how `processRequest` can end, seen from the Via modifier; the Via
  field of a forwarded message; instances composed into a loop (`reinject`).  Core Lean only.
-/
import FwdVerif.Lemmas.C18d

namespace FwdVerif
namespace C18
open Ascii Req
open C16 (HMap goDel goSet goAdd Rule applyRules prefixFold NodupKeys)

/-! ## §10 outcomes -/

theorem securityCheck_not_loop {cfg : Cfg} {g : GoReq} {why : Refusal}
    (h : securityCheck cfg g = some why) : why ≠ .loop := by
  unfold securityCheck at h
  simp only at h
  repeat' split at h
  all_goals first
    | (cases h; intro hc; cases hc)
    | exact absurd h (by simp)

theorem preVia_error_not_forwarded {cfg : Cfg} {ctx : Ctx} {r : Request} {o : Outcome}
    (h : preVia cfg ctx r = .error o) : isForwarded o = false ∧ isLoopRefusal o = false := by
  unfold preVia at h
  split at h
  · cases h; exact ⟨rfl, rfl⟩
  · simp only at h
    split at h
    · rename_i why hsc
      cases h
      have := securityCheck_not_loop hsc
      cases why <;> first | exact ⟨rfl, rfl⟩ | exact absurd rfl this
    · split at h
      · cases h; exact ⟨rfl, rfl⟩
      · exact absurd h (by simp)

theorem postVia_out {cfg : Cfg} {p : PreVia} {h4 : HMap} {hop : Hop} {out : OutMsg}
    (h : postVia cfg p h4 = .forwarded hop out) :
    ∃ hop' auth', out = writeRequest hop' auth' { p.g with header := finalHeader cfg p.upType h4 } := by
  unfold postVia at h
  simp only at h
  split at h
  all_goals first
    | (cases h; exact ⟨_, _, rfl⟩)
    | (split at h
       · cases h; exact ⟨_, _, rfl⟩
       · cases h; exact ⟨_, _, rfl⟩)
    | cases h

/-- the Via modifier let the request pass: it is forwarded, unless the proxy function failed -/
theorem postVia_forwarded (cfg : Cfg) (p : PreVia) (h4 : HMap) (hup : cfg.upstream ≠ .failed) :
    isForwarded (postVia cfg p h4) = true := by
  unfold postVia
  simp only
  split
  all_goals first
    | rfl
    | (split <;> rfl)
    | (rename_i hu; exact absurd hu hup)

theorem postVia_failed (cfg : Cfg) (p : PreVia) (h4 : HMap) (hup : cfg.upstream = .failed) :
    postVia cfg p h4 = .routeError := by
  unfold postVia
  simp only [hup]

/-- the three ways `processRequest` can end, seen from the Via modifier -/
theorem processRequest_cases (cfg : Cfg) (ctx : Ctx) (r : Request) :
    (∃ o, preVia cfg ctx r = .error o ∧ processRequest cfg ctx r = o) ∨
    (∃ p, preVia cfg ctx r = .ok p ∧ viaStep cfg p.g.minor p.h3 = none ∧
        processRequest cfg ctx r = .refused 400 .loop) ∨
    (∃ p h4, preVia cfg ctx r = .ok p ∧ viaStep cfg p.g.minor p.h3 = some h4 ∧
        processRequest cfg ctx r = postVia cfg p h4) := by
  rw [processRequest_eq]
  cases hp : preVia cfg ctx r with
  | error o => exact Or.inl ⟨o, rfl, rfl⟩
  | ok p =>
    cases hs : viaStep cfg p.g.minor p.h3 with
    | none => exact Or.inr (Or.inl ⟨p, rfl, hs, by simp only [hs]⟩)
    | some h4 => exact Or.inr (Or.inr ⟨p, h4, rfl, hs, by simp only [hs]⟩)

/-- A forwarded request carries exactly one Via field line: what the modifier wrote. -/
theorem forwarded_out {cfg : Cfg} {ctx : Ctx} {r : Request} {hop : Hop} {out : OutMsg}
    (h : processRequest cfg ctx r = .forwarded hop out) (hr : rulesAvoidVia cfg.rules = true) :
    ∃ p, preVia cfg ctx r = .ok p ∧
      outVia out = [newVia cfg.tag p.g.minor (viaChainOf p.h3)] ∧
      ¬ (viaChainOf p.h3 ≠ [] ∧ isInfix cfg.tag (viaChainOf p.h3) = true) ∧
      ∃ hop' auth' g', out = writeRequest hop' auth' g' := by
  rcases processRequest_cases cfg ctx r with ⟨o, hp, ho⟩ | ⟨p, hp, hs, ho⟩ | ⟨p, h4, hp, hs, ho⟩
  · rw [h] at ho
    have := (preVia_error_not_forwarded hp).1
    rw [← ho] at this
    exact absurd this (by simp [isForwarded])
  · rw [h] at ho
    exact absurd ho (by simp)
  · rw [h] at ho
    obtain ⟨hop', auth', hout⟩ := postVia_out ho.symm
    obtain ⟨h4eq, hnl⟩ := viaStep_some hs
    obtain ⟨g0, _, _, hreach⟩ := preVia_ok hp
    have hv3 : ViaInv p.h3 := hreach.viaInv (toHeader_viaInv _)
    have hv4 : ViaInv h4 := by rw [h4eq]; exact hv3.goSet _ _
    obtain ⟨hvf, hgf⟩ := finalHeader_via (up := p.upType) hr hv4
    refine ⟨p, hp, ?_, hnl, hop', auth', _, hout⟩
    rw [hout, outVia_writeRequest _ _ _ hvf]
    show hget (finalHeader cfg p.upType h4) viaName = _
    unfold hget
    rw [hgf, h4eq]
    have := get_goSet_self p.h3 viaName (newVia cfg.tag p.g.minor (viaChainOf p.h3))
    rw [viaName_canon] at this
    rw [this]
    rfl

/-- a request whose Via value (as the modifier sees it) contains the tag is never forwarded -/
theorem tagged_not_forwarded {cfg : Cfg} {ctx : Ctx} {r : Request}
    (hn : viaNominated r.fields = false) (hne : viaChain (viaLines r.fields) ≠ [])
    (hi : isInfix cfg.tag (viaChain (viaLines r.fields)) = true) :
    isForwarded (processRequest cfg ctx r) = false ∧
      (reachesVia cfg ctx r = true → processRequest cfg ctx r = .refused 400 .loop) := by
  rcases processRequest_cases cfg ctx r with ⟨o, hp, ho⟩ | ⟨p, hp, hs, ho⟩ | ⟨p, h4, hp, hs, ho⟩
  · refine ⟨by rw [ho]; exact (preVia_error_not_forwarded hp).1, ?_⟩
    intro hreach
    unfold reachesVia at hreach
    rw [hp] at hreach
    exact absurd hreach (by simp)
  · exact ⟨by rw [ho]; rfl, fun _ => ho⟩
  · obtain ⟨hget, _, _⟩ := preVia_via hp hn
    have := (viaStep_some hs).2
    rw [hget] at this
    exact absurd ⟨hne, hi⟩ this

/-- a request whose Via value does not contain the tag passes the modifier: it is forwarded, or —
    when the proxy function itself failed — answered with the route error -/
theorem untagged_passes {cfg : Cfg} {ctx : Ctx} {r : Request}
    (hn : viaNominated r.fields = false)
    (hi : viaChain (viaLines r.fields) ≠ [] → isInfix cfg.tag (viaChain (viaLines r.fields)) = false)
    (hreach : reachesVia cfg ctx r = true) :
    (cfg.upstream ≠ .failed ∧ isForwarded (processRequest cfg ctx r) = true) ∨
      (cfg.upstream = .failed ∧ processRequest cfg ctx r = .routeError) := by
  rcases processRequest_cases cfg ctx r with ⟨o, hp, ho⟩ | ⟨p, hp, hs, ho⟩ | ⟨p, h4, hp, hs, ho⟩
  · unfold reachesVia at hreach
    rw [hp] at hreach
    exact absurd hreach (by simp)
  · obtain ⟨hget, _, _⟩ := preVia_via hp hn
    have := (viaStep_none_iff cfg p.g.minor p.h3).mp hs
    rw [hget] at this
    rw [hi this.1] at this
    exact absurd this.2 (by simp)
  · by_cases hup : cfg.upstream = .failed
    · exact Or.inr ⟨hup, by rw [ho]; exact postVia_failed cfg p h4 hup⟩
    · exact Or.inl ⟨hup, by rw [ho]; exact postVia_forwarded cfg p h4 hup⟩

theorem untagged_forwarded {cfg : Cfg} {ctx : Ctx} {r : Request}
    (hn : viaNominated r.fields = false)
    (hi : viaChain (viaLines r.fields) ≠ [] → isInfix cfg.tag (viaChain (viaLines r.fields)) = false)
    (hreach : reachesVia cfg ctx r = true) (hup : cfg.upstream ≠ .failed) :
    isForwarded (processRequest cfg ctx r) = true := by
  rcases untagged_passes hn hi hreach with ⟨_, h⟩ | ⟨hf, _⟩
  · exact h
  · exact absurd hf hup

/-! ## §11 composing instances -/

theorem toLower_idem (c : UInt8) : toLower (toLower c) = toLower c := by
  simp only [toLower, isUpper]
  grind

theorem lower_idem (s : Bytes) : lower (lower s) = lower s := by
  induction s with
  | nil => rfl
  | cons c cs ih => simp only [lower, List.map_cons, List.map_map] at ih ⊢; simp [toLower_idem]

theorem ownOutNames_lower : ∀ n ∈ ownOutNames, lower n = n := by decide +kernel

theorem mergeStep_mem_key {acc : List (Bytes × List Bytes)} {f e : Bytes × List Bytes}
    (he : e ∈ mergeStep acc f) : e.1 ∈ acc.map (·.1) ∨ e.1 = f.1 := by
  have : e.1 ∈ (mergeStep acc f).map (·.1) := List.mem_map.mpr ⟨e, he, rfl⟩
  rw [mergeStep_keys] at this
  split at this
  · exact Or.inl this
  · rcases List.mem_append.mp this with h | h
    · exact Or.inl h
    · exact Or.inr (by simpa using h)

theorem foldl_mergeStep_mem_key (fs acc : List (Bytes × List Bytes)) {e : Bytes × List Bytes}
    (he : e ∈ fs.foldl mergeStep acc) : e.1 ∈ acc.map (·.1) ∨ e.1 ∈ fs.map (·.1) := by
  induction fs generalizing acc with
  | nil => exact Or.inl (List.mem_map.mpr ⟨e, he, rfl⟩)
  | cons f fs ih =>
    rcases ih _ he with h | h
    · obtain ⟨e', he', hee⟩ := List.mem_map.mp h
      rcases mergeStep_mem_key he' with h' | h'
      · exact Or.inl (hee ▸ h')
      · exact Or.inr (by rw [List.map_cons]; exact List.mem_cons.mpr (Or.inl (hee ▸ h')))
    · exact Or.inr (by rw [List.map_cons]; exact List.mem_cons_of_mem _ h)

theorem mergeFields_mem_key {fs : List (Bytes × List Bytes)} {e : Bytes × List Bytes}
    (he : e ∈ mergeFields fs) : e.1 ∈ fs.map (·.1) := by
  rw [mergeFields_eq] at he
  rcases foldl_mergeStep_mem_key fs [] he with h | h
  · exact absurd h (by simp)
  · exact h

/-- every field name of a written request is in lower case (the model's canonical spelling) -/
theorem writeRequest_names_lower (hop : Hop) (auth : Option Bytes) (g : GoReq) :
    ∀ e ∈ (writeRequest hop auth g).fields, lower e.1 = e.1 := by
  intro e he
  unfold writeRequest at he
  simp only at he
  have hk := mergeFields_mem_key he
  obtain ⟨e', he', hee⟩ := List.mem_map.mp hk
  rw [← hee]
  have own : e'.1 ∈ ownOutNames → lower e'.1 = e'.1 := ownOutNames_lower _
  simp only [List.mem_append] at he'
  rcases he' with ((((he' | he') | he') | he') | he') | (he' | he')
  · apply own; simp only [List.mem_singleton] at he'; subst he'; simp [ownOutNames]
  · apply own
    split at he'
    · split at he'
      · exact absurd he' (by simp)
      · simp only [List.mem_singleton] at he'; subst he'; simp [ownOutNames]
    · exact absurd he' (by simp)
  · apply own
    split at he'
    · simp only [List.mem_singleton] at he'; subst he'; simp [ownOutNames]
    · exact absurd he' (by simp)
  · apply own
    split at he'
    · simp only [List.mem_append, List.mem_singleton] at he'
      rcases he' with he' | he'
      · subst he'; simp [ownOutNames]
      · split at he'
        · exact absurd he' (by simp)
        · simp only [List.mem_singleton] at he'; subst he'; simp [ownOutNames]
    · split at he'
      · simp only [List.mem_singleton] at he'; subst he'; simp [ownOutNames]
      · exact absurd he' (by simp)
  · unfold lowerFields at he'
    obtain ⟨x, _, hx⟩ := List.mem_map.mp he'
    rw [← hx]
    exact lower_idem x.1
  · apply own
    split at he'
    · simp only [List.mem_singleton] at he'; subst he'; simp [ownOutNames]
    · exact absurd he' (by simp)
  · apply own
    split at he'
    all_goals first
      | (split at he'
         · simp only [List.mem_singleton] at he'; subst he'; simp [ownOutNames]
         · exact absurd he' (by simp))
      | exact absurd he' (by simp)

/-- field lines of a message: one line per value -/
def flatten (fs : List (Bytes × List Bytes)) : List (Bytes × Bytes) :=
  fs.flatMap fun e => e.2.map fun v => (e.1, v)

theorem reinject_fields (o : OutMsg) : (reinject o).fields = flatten o.fields := by
  unfold reinject
  simp only
  split
  · rfl
  · split <;> rfl

theorem reinject_minor (o : OutMsg) : (reinject o).minor = 1 := by
  unfold reinject
  simp only
  split
  · rfl
  · split <;> rfl

theorem viaLines_flatten (fs : List (Bytes × List Bytes)) :
    viaLines (flatten fs) = (fs.filter fun e => eqFold e.1 viaName).flatMap (·.2) := by
  induction fs with
  | nil => rfl
  | cons e t ih =>
    unfold viaLines flatten at ih ⊢
    rw [List.flatMap_cons, List.filter_append, List.map_append, ih, List.filter_cons]
    by_cases he : eqFold e.1 viaName = true
    · simp only [he, if_true, List.flatMap_cons]
      congr 1
      rw [List.filter_eq_self.mpr (by intro x hx; obtain ⟨v, _, rfl⟩ := List.mem_map.mp hx; exact he)]
      rw [List.map_map]
      exact List.map_id' e.2
    · have he' : eqFold e.1 viaName = false := by simpa using he
      simp only [he', Bool.false_eq_true, if_false]
      rw [List.filter_eq_nil_iff.mpr (by
        intro x hx; obtain ⟨v, _, rfl⟩ := List.mem_map.mp hx; simpa using he')]
      simp

/-- the Via lines the next instance reads are the Via lines the previous one wrote -/
theorem viaLines_reinject {o : OutMsg} (hl : ∀ e ∈ o.fields, lower e.1 = e.1) :
    viaLines (reinject o).fields = outVia o := by
  rw [reinject_fields, viaLines_flatten]
  unfold outVia outValues
  congr 1
  apply List.filter_congr
  intro e he
  unfold eqFold
  rw [hl e he]

/-! ## §12 concrete configurations and requests used as witnesses / non-vacuity examples -/

def tagW : Bytes := bs "fwd-0123456789abcdef0123"
def tagX : Bytes := bs "fwd-0123456789abcdef0124"      -- same name, other instance
def cfgW : Cfg := { tag := tagW, name := bs "fwd" }
def cfgX : Cfg := { tag := tagX, name := bs "fwd" }
def ctxW : Ctx := { clientIP := bs "127.0.0.1" }

def reqWith (minor : Nat) (via : List Bytes) : Request :=
  { method := bs "GET", minor := minor, target := .origin, path := bs "/", query := none,
    fields := (bs "Host", bs "origin.test") :: via.map fun v => (bs "Via", v) }

/-- no Via at all -/
def reqPlain : Request := reqWith 1 []
/-- other hops before and after this instance's element (a later hop appended `1.1 edge`) -/
def reqLoop : Request := reqWith 1 [bs "1.0 fred, 1.1 fwd-0123456789abcdef0123, 1.1 edge (x)"]
/-- the same chain split over two field lines: the tag sits on the second line -/
def reqSecondLine : Request := reqWith 1 [bs "1.0 fred", bs "1.1 fwd-0123456789abcdef0123, 1.1 edge (x)"]
/-- only foreign elements, one from an instance with the same configured name -/
def reqForeign : Request := reqWith 0 [bs "1.0 fred, 1.1 fwd-0123456789abcdef0124 (c)"]
/-- a foreign pseudonym that embeds the tag -/
def reqEmbedded : Request := reqWith 1 [bs "1.1 xfwd-0123456789abcdef0123.example"]

end C18
end FwdVerif
