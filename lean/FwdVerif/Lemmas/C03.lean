/-
  C03 — helper lemmas for `FwdVerif/Theorems/C03.lean` (core Lean only).

  §1 projections of `setPipe`, arithmetic of `Pipe.pull`
  §2 the invariant `Inv` of the tunnel machine and its preservation by every step
  §3 reachability (`runFrom`) and what is frozen once a direction has finished
  §4 the clock of the grace period: the timed machine refines the untimed one (`trun_erase`), its
     invariant `TInv` (timer started iff a direction finished, fired only within its window)
-/
import FwdVerif.Model.C03

set_option linter.unusedSimpArgs false

namespace FwdVerif
namespace C03

/-! ## §1 -/

@[simp] theorem pipe_up (s : State) : s.pipe .up = s.up := rfl
@[simp] theorem pipe_down (s : State) : s.pipe .down = s.down := rfl
@[simp] theorem other_up : Dir.other .up = .down := rfl
@[simp] theorem other_down : Dir.other .down = .up := rfl
@[simp] theorem other_other (d : Dir) : d.other.other = d := by cases d <;> rfl
theorem other_ne (d : Dir) : d.other ≠ d := by cases d <;> decide

@[simp] theorem setPipe_up (s : State) (p : Pipe) : s.setPipe .up p = { s with up := p } := rfl
@[simp] theorem setPipe_down (s : State) (p : Pipe) : s.setPipe .down p = { s with down := p } := rfl

@[simp] theorem pipe_setPipe_same (s : State) (d : Dir) (p : Pipe) : (s.setPipe d p).pipe d = p := by
  cases d <;> rfl

@[simp] theorem pipe_setPipe_other (s : State) (d : Dir) (p : Pipe) :
    (s.setPipe d p).pipe d.other = s.pipe d.other := by
  cases d <;> rfl

theorem drop_append_drop {α : Type} (h r : List α) (n : Nat) :
    (h ++ r).drop n = h.drop n ++ r.drop (n - h.length) := List.drop_append

/-- the copier moves bytes, it neither makes nor loses any -/
theorem pull_cons (p : Pipe) (n : Nat) :
    (p.pull n).delivered ++ (p.pull n).held ++ (p.pull n).written.drop (p.pull n).taken =
      p.delivered ++ p.held ++ p.written.drop p.taken := by
  simp only [Pipe.pull]
  have h : p.held.drop n ++ p.written.drop (p.taken + (n - p.held.length)) =
      (p.held ++ p.written.drop p.taken).drop n := by
    rw [drop_append_drop, List.drop_drop]
  rw [List.append_assoc, List.append_assoc, h, List.take_append_drop, List.append_assoc]

theorem pull_written (p : Pipe) (n : Nat) : (p.pull n).written = p.written := rfl
theorem pull_fin (p : Pipe) (n : Nat) : (p.pull n).fin = p.fin := rfl
theorem pull_eof (p : Pipe) (n : Nat) : (p.pull n).eof = p.eof := rfl
theorem pull_done (p : Pipe) (n : Nat) : (p.pull n).done = p.done := rfl

theorem pull_taken_le (p : Pipe) (n : Nat) (hle : p.taken ≤ p.written.length) (hn : n ≤ p.avail) :
    (p.pull n).taken ≤ (p.pull n).written.length := by
  simp only [Pipe.pull, Pipe.avail] at *
  omega

theorem pull_taken_ge (p : Pipe) (n : Nat) : p.taken ≤ (p.pull n).taken := by
  simp only [Pipe.pull]
  omega

theorem pull_held_nil (p : Pipe) (n : Nat) (h : p.held = []) : (p.pull n).held = [] := by
  simp [Pipe.pull, h]

theorem pull_delivered_prefix (p : Pipe) (n : Nat) : p.delivered <+: (p.pull n).delivered := by
  simp only [Pipe.pull]
  exact List.prefix_append _ _

theorem avail_zero_iff (p : Pipe) (hle : p.taken ≤ p.written.length) :
    p.avail = 0 ↔ p.held = [] ∧ p.taken = p.written.length := by
  simp only [Pipe.avail]
  constructor
  · intro h
    have h1 : p.held.length = 0 := by omega
    exact ⟨List.length_eq_zero_iff.mp h1, by omega⟩
  · intro ⟨h1, h2⟩
    rw [h1, h2]
    simp

/-! ## §2 the invariant -/

structure Inv (c : Cfg) (s : State) : Prop where
  upLe : s.up.taken ≤ s.up.written.length
  upReading : s.phase = .reading →
    s.up.taken = 0 ∧ s.up.held = [] ∧ s.up.delivered = [] ∧ s.early = []
  headLe : s.phase ≠ .reading → c.headLen ≤ s.up.taken
  upCons : s.phase ≠ .reading →
    s.up.delivered ++ s.up.held ++ s.up.written.drop s.up.taken = s.up.written.drop c.headLen
  upPre : s.phase = .dialing ∨ s.phase = .replied → s.up.delivered = [] ∧ s.up.held = s.early
  upPost : s.phase = .tunnel ∨ s.phase = .closed → s.up.held = [] ∧ s.early <+: s.up.delivered
  earlyLen : s.early.length ≤ c.bufSize
  downLe : s.down.taken ≤ s.down.written.length
  downPre : s.phase = .reading ∨ s.phase = .dialing →
    s.down.held = [] ∧ s.down.delivered = [] ∧ s.dropped = 0
  downReading : s.phase = .reading → s.down.taken = 0
  downGran : s.phase = .dialing → s.down.taken ≤ c.replyLen + (c.replyGran - 1)
  replyLe : s.phase = .replied ∨ s.phase = .tunnel ∨ s.phase = .closed →
    c.replyLen + s.dropped ≤ s.down.taken
  downCons : s.phase = .replied ∨ s.phase = .tunnel ∨ s.phase = .closed →
    s.down.delivered ++ s.down.held ++ s.down.written.drop s.down.taken =
      s.down.written.drop (c.replyLen + s.dropped)
  dropLe : s.dropped ≤ c.replyGran - 1
  dropKeep : c.replyKeep = true → s.dropped = 0
  eofUp : s.up.eof = true → s.up.fin = true ∧ s.up.done = true ∧ s.up.avail = 0
  eofDown : s.down.eof = true → s.down.fin = true ∧ s.down.done = true ∧ s.down.avail = 0
  doneUp : s.up.done = true → s.up.eof = true ∨ s.expired = true
  doneDown : s.down.done = true → s.down.eof = true ∨ s.expired = true
  early : s.phase = .reading ∨ s.phase = .dialing ∨ s.phase = .replied →
    s.up.done = false ∧ s.down.done = false
  closedIff : s.phase = .closed ↔ (s.up.done = true ∧ s.down.done = true)
  closedC : s.closedC = true ↔ s.phase = .closed
  closedT : s.closedT = true ↔ s.phase = .closed
  expired : s.expired = true → s.phase = .closed
  grace : s.grace = true ↔ (s.up.done = true ∨ s.down.done = true)
  expiredEof : s.expired = true → s.up.eof = true ∨ s.down.eof = true
  expiredNotBoth : s.expired = true → ¬ (s.up.eof = true ∧ s.down.eof = true)

theorem inv_init (c : Cfg) : Inv c init := by
  constructor <;> simp [init, Pipe.avail]

/-- open the goal `Inv c s'` field by field; fields that are literally an old field are closed -/
macro "inv_start " h:ident : tactic => `(tactic| (
  refine ⟨?upLe, ?upReading, ?headLe, ?upCons, ?upPre, ?upPost, ?earlyLen, ?downLe, ?downPre, ?downReading, ?downGran, ?replyLe, ?downCons, ?dropLe, ?dropKeep, ?eofUp, ?eofDown, ?doneUp, ?doneDown, ?early, ?closedIff, ?closedC, ?closedT, ?expired, ?grace, ?expiredEof, ?expiredNotBoth⟩ <;> (try simp only [setPipe_up, setPipe_down, pipe_up, pipe_down]) <;>
  first
    | exact ($h).upLe
    | exact ($h).upReading
    | exact ($h).headLe
    | exact ($h).upCons
    | exact ($h).upPre
    | exact ($h).upPost
    | exact ($h).earlyLen
    | exact ($h).downLe
    | exact ($h).downPre
    | exact ($h).downReading
    | exact ($h).downGran
    | exact ($h).replyLe
    | exact ($h).downCons
    | exact ($h).dropLe
    | exact ($h).dropKeep
    | exact ($h).eofUp
    | exact ($h).eofDown
    | exact ($h).doneUp
    | exact ($h).doneDown
    | exact ($h).early
    | exact ($h).closedIff
    | exact ($h).closedC
    | exact ($h).closedT
    | exact ($h).expired
    | exact ($h).grace
    | exact ($h).expiredEof
    | exact ($h).expiredNotBoth
    | skip))

theorem some_inj {α : Type} {a b : α} (h : some a = some b) : a = b := Option.some.inj h

theorem inv_clientWrite {c : Cfg} {s s' : State} {seg : Bytes} (hi : Inv c s)
    (h : step c s (.clientWrite seg) = some s') : Inv c s' := by
  simp only [step] at h
  split at h
  · exact absurd h (by simp)
  · rename_i hfin
    have := some_inj h
    subst this
    inv_start hi
    case upLe => have := hi.upLe; simp only [List.length_append]; omega
    case upCons =>
      intro hp
      have h1 := hi.upCons hp
      have h2 := hi.headLe hp
      have h3 := hi.upLe
      rw [List.drop_append_of_le_length h3, ← List.append_assoc, h1,
        List.drop_append_of_le_length (by omega)]
    case eofUp =>
      intro he
      exact absurd (hi.eofUp he).1 hfin

theorem inv_targetWrite {c : Cfg} {s s' : State} {seg : Bytes} (hi : Inv c s)
    (h : step c s (.targetWrite seg) = some s') : Inv c s' := by
  simp only [step] at h
  split at h
  · exact absurd h (by simp)
  · rename_i hfin
    have := some_inj h
    subst this
    inv_start hi
    case downLe => have := hi.downLe; simp only [List.length_append]; omega
    case downCons =>
      intro hp
      have h1 := hi.downCons hp
      have h2 := hi.replyLe hp
      have h3 := hi.downLe
      rw [List.drop_append_of_le_length h3, ← List.append_assoc, h1,
        List.drop_append_of_le_length (by omega)]
    case eofDown =>
      intro he
      exact absurd (hi.eofDown he).1 hfin

theorem inv_fin {c : Cfg} {s s' : State} {d : Dir} (hi : Inv c s)
    (h : step c s (.fin d) = some s') : Inv c s' := by
  simp only [step] at h
  split at h
  · exact absurd h (by simp)
  · have := some_inj h
    subst this
    cases d
    · inv_start hi
      case eofUp => intro he; have := hi.eofUp he; simp_all
    · inv_start hi
      case eofDown => intro he; have := hi.eofDown he; simp_all

theorem inv_readHead {c : Cfg} {s s' : State} {k : Nat} (hi : Inv c s)
    (h : step c s (.readHead k) = some s') : Inv c s' := by
  simp only [step] at h
  split at h
  · rename_i hc
    obtain ⟨hph, hlen, hk⟩ := hc
    have := some_inj h
    subst this
    have hr := hi.upReading hph
    have he := hi.early (Or.inl hph)
    have hd := hi.downPre (Or.inl hph)
    have hdr := hi.downReading hph
    have h1 := hi.closedIff
    have h2 := hi.closedC
    have h3 := hi.closedT
    have h4 := hi.expired
    have h5 := hi.eofUp
    inv_start hi
    case upLe => exact hlen
    case upCons =>
      intro _
      rw [hr.2.2.1, List.nil_append, ← List.drop_drop, List.take_append_drop]
    case earlyLen => simp only [List.length_take]; omega
    all_goals (first | (simp_all; done))
  · exact absurd h (by simp)

theorem inv_replyRead {c : Cfg} {s s' : State} {n : Nat} (hi : Inv c s)
    (h : step c s (.replyRead n) = some s') : Inv c s' := by
  simp only [step] at h
  split at h
  · rename_i hc
    obtain ⟨hph, hlt, hn1, hng, hlen⟩ := hc
    have := some_inj h
    subst this
    have he := hi.early (Or.inr (Or.inl hph))
    have hd := hi.downPre (Or.inr hph)
    have h1 := hi.closedIff
    have h5 := hi.eofDown
    inv_start hi
    case downLe => exact hlen
    case downGran => intro _; omega
    all_goals (first | (simp_all; done))
  · exact absurd h (by simp)

theorem inv_connected {c : Cfg} {s s' : State} (hi : Inv c s)
    (h : step c s .connected = some s') : Inv c s' := by
  simp only [step] at h
  split at h
  · rename_i hc
    obtain ⟨hph, hrl⟩ := hc
    have he := hi.early (Or.inr (Or.inl hph))
    have hd := hi.downPre (Or.inr hph)
    have hg := hi.downGran hph
    have hu := hi.upPre (Or.inl hph)
    have hcons := hi.upCons (by simp [hph])
    have hhl := hi.headLe (by simp [hph])
    have h1 := hi.closedIff
    have h2 := hi.closedC
    have h3 := hi.closedT
    have h4 := hi.expired
    have h5 := hi.eofDown
    have h6 := hi.eofUp
    split at h
    · rename_i hk
      have := some_inj h
      subst this
      inv_start hi
      case downCons =>
        intro _
        rw [hd.2.1, hd.2.2, List.nil_append, Nat.add_zero]
        have e : List.drop s.down.taken s.down.written =
            List.drop (s.down.taken - c.replyLen) (List.drop c.replyLen s.down.written) := by
          rw [List.drop_drop]; congr 1; omega
        rw [e, List.take_append_drop]
      case replyLe => intro _; rw [hd.2.2]; omega
      all_goals (first | (simp_all; done))
    · rename_i hk
      have := some_inj h
      subst this
      inv_start hi
      case dropLe => omega
      case replyLe => intro _; omega
      case downCons =>
        intro _
        rw [hd.2.1, hd.1, List.nil_append, List.nil_append]
        congr 1
        omega
      all_goals (first | (simp_all; done))
  · exact absurd h (by simp)

theorem inv_drain {c : Cfg} {s s' : State} (hi : Inv c s)
    (h : step c s .drain = some s') : Inv c s' := by
  simp only [step] at h
  split at h
  · rename_i hph
    have := some_inj h
    subst this
    have he := hi.early (Or.inr (Or.inr hph))
    have hu := hi.upPre (Or.inr hph)
    have hcons := hi.upCons (by simp [hph])
    have hhl := hi.headLe (by simp [hph])
    have hdc := hi.downCons (Or.inl hph)
    have hrl := hi.replyLe (Or.inl hph)
    have h1 := hi.closedIff
    have h2 := hi.closedC
    have h3 := hi.closedT
    have h4 := hi.expired
    have h5 := hi.eofDown
    have h6 := hi.eofUp
    have h7 := hi.doneUp
    have h8 := hi.doneDown
    have h9 := hi.grace
    have h10 := hi.expiredEof
    have h11 := hi.expiredNotBoth
    inv_start hi
    all_goals (first | (simp_all; done))
  · exact absurd h (by simp)

theorem inv_copy {c : Cfg} {s s' : State} {d : Dir} {n : Nat} (hi : Inv c s)
    (h : step c s (.copy d n) = some s') : Inv c s' := by
  simp only [step] at h
  split at h
  · rename_i hc
    obtain ⟨hph, hnd, hn1, hnm, hna⟩ := hc
    have := some_inj h
    subst this
    have hup := hi.upPost (Or.inl hph)
    have hcons := hi.upCons (by simp [hph])
    have hhl := hi.headLe (by simp [hph])
    have hdc := hi.downCons (Or.inr (Or.inl hph))
    have hrl := hi.replyLe (Or.inr (Or.inl hph))
    have h1 := hi.closedIff
    have h2 := hi.closedC
    have h3 := hi.closedT
    have h4 := hi.expired
    have h5 := hi.eofDown
    have h6 := hi.eofUp
    have h7 := hi.doneUp
    have h8 := hi.doneDown
    have h9 := hi.grace
    have h10 := hi.expiredEof
    have h11 := hi.expiredNotBoth
    cases d
    · simp only [pipe_up] at hnd hna
      inv_start hi
      case upLe => exact pull_taken_le _ _ hi.upLe hna
      case headLe => intro hp; exact Nat.le_trans (hi.headLe hp) (pull_taken_ge _ _)
      case upCons => intro _; rw [pull_cons, pull_written]; exact hcons
      case upPost =>
        intro _
        exact ⟨pull_held_nil _ _ hup.1, List.IsPrefix.trans hup.2 (pull_delivered_prefix _ _)⟩
      case eofUp =>
        rw [pull_eof, pull_done]
        intro he
        have := (hi.eofUp he).2.1
        rw [hnd] at this
        exact absurd this (by simp)
      all_goals (first | (simp_all; done))
    · simp only [pipe_down] at hnd hna
      inv_start hi
      case downLe => exact pull_taken_le _ _ hi.downLe hna
      case replyLe => intro hp; exact Nat.le_trans (hi.replyLe hp) (pull_taken_ge _ _)
      case downCons => intro _; rw [pull_cons, pull_written]; exact hdc
      case eofDown =>
        rw [pull_eof, pull_done]
        intro he
        have := (hi.eofDown he).2.1
        rw [hnd] at this
        exact absurd this (by simp)
      all_goals (first | (simp_all; done))
  · exact absurd h (by simp)

theorem inv_eof {c : Cfg} {s s' : State} {d : Dir} (hi : Inv c s)
    (h : step c s (.eof d) = some s') : Inv c s' := by
  cases d
  · simp only [step] at h
    split at h
    · rename_i hc
      obtain ⟨hph, hnd, hfin, hav⟩ := hc
      simp only [pipe_up, pipe_down] at hnd hfin hav
      have hup := hi.upPost (Or.inl hph)
      have hcons := hi.upCons (by simp [hph])
      have hhl := hi.headLe (by simp [hph])
      have hdc := hi.downCons (Or.inr (Or.inl hph))
      have hrl := hi.replyLe (Or.inr (Or.inl hph))
      have h1 := hi.closedIff
      have h2 := hi.closedC
      have h3 := hi.closedT
      have h4 := hi.expired
      have h5 := hi.eofDown
      have h6 := hi.eofUp
      have h7 := hi.doneUp
      have h8 := hi.doneDown
      have h9 := hi.grace
      have h10 := hi.expiredEof
      have h11 := hi.expiredNotBoth
      split at h
      · rename_i hod
        simp only [pipe_up, pipe_down, other_up, other_down] at hod
        have := some_inj h
        subst this
        inv_start hi
        all_goals (first | (simp_all; done) | (simp_all [Pipe.avail]; done))
      · rename_i hod
        simp only [pipe_up, pipe_down, other_up, other_down] at hod
        have := some_inj h
        subst this
        inv_start hi
        all_goals (first | (simp_all; done) | (simp_all [Pipe.avail]; done))
    · exact absurd h (by simp)
  · simp only [step] at h
    split at h
    · rename_i hc
      obtain ⟨hph, hnd, hfin, hav⟩ := hc
      simp only [pipe_up, pipe_down] at hnd hfin hav
      have hup := hi.upPost (Or.inl hph)
      have hcons := hi.upCons (by simp [hph])
      have hhl := hi.headLe (by simp [hph])
      have hdc := hi.downCons (Or.inr (Or.inl hph))
      have hrl := hi.replyLe (Or.inr (Or.inl hph))
      have h1 := hi.closedIff
      have h2 := hi.closedC
      have h3 := hi.closedT
      have h4 := hi.expired
      have h5 := hi.eofDown
      have h6 := hi.eofUp
      have h7 := hi.doneUp
      have h8 := hi.doneDown
      have h9 := hi.grace
      have h10 := hi.expiredEof
      have h11 := hi.expiredNotBoth
      split at h
      · rename_i hod
        simp only [pipe_up, pipe_down, other_up, other_down] at hod
        have := some_inj h
        subst this
        inv_start hi
        all_goals (first | (simp_all; done) | (simp_all [Pipe.avail]; done))
      · rename_i hod
        simp only [pipe_up, pipe_down, other_up, other_down] at hod
        have := some_inj h
        subst this
        inv_start hi
        all_goals (first | (simp_all; done) | (simp_all [Pipe.avail]; done))
    · exact absurd h (by simp)

theorem inv_graceExpire {c : Cfg} {s s' : State} (hi : Inv c s)
    (h : step c s .graceExpire = some s') : Inv c s' := by
  simp only [step] at h
  split at h
  · rename_i hc
    obtain ⟨hph, hgr⟩ := hc
    have := some_inj h
    subst this
    have hup := hi.upPost (Or.inl hph)
    have hcons := hi.upCons (by simp [hph])
    have hhl := hi.headLe (by simp [hph])
    have hdc := hi.downCons (Or.inr (Or.inl hph))
    have hrl := hi.replyLe (Or.inr (Or.inl hph))
    have h1 := hi.closedIff
    have h2 := hi.closedC
    have h3 := hi.closedT
    have h4 := hi.expired
    have h5 := hi.eofDown
    have h6 := hi.eofUp
    have h7 := hi.doneUp
    have h8 := hi.doneDown
    have h9 := hi.grace
    have h10 := hi.expiredEof
    have h11 := hi.expiredNotBoth
    have hne : s.expired = false := by
      cases he : s.expired
      · rfl
      · have := h4 he; rw [hph] at this; exact absurd this (by decide)
    inv_start hi
    case expiredEof =>
      intro _
      rcases h9.mp hgr with hd | hd
      · rcases h7 hd with e | e
        · exact Or.inl e
        · rw [hne] at e; exact absurd e (by decide)
      · rcases h8 hd with e | e
        · exact Or.inr e
        · rw [hne] at e; exact absurd e (by decide)
    case expiredNotBoth =>
      intro _ hb
      have := h1.mpr ⟨(h6 hb.1).2.1, (h5 hb.2).2.1⟩
      rw [hph] at this
      exact absurd this (by decide)
    all_goals (first | (simp_all; done) | (simp_all [Pipe.avail]; done))
  · exact absurd h (by simp)

/-- every step keeps the invariant -/
theorem inv_step {c : Cfg} {s s' : State} {st : Step} (hi : Inv c s)
    (h : step c s st = some s') : Inv c s' := by
  cases st with
  | clientWrite seg => exact inv_clientWrite hi h
  | targetWrite seg => exact inv_targetWrite hi h
  | fin d => exact inv_fin hi h
  | readHead k => exact inv_readHead hi h
  | replyRead n => exact inv_replyRead hi h
  | connected => exact inv_connected hi h
  | drain => exact inv_drain hi h
  | copy d n => exact inv_copy hi h
  | eof d => exact inv_eof hi h
  | graceExpire => exact inv_graceExpire hi h

/-! ## §3 reachability -/

theorem runFrom_nil (c : Cfg) (s : State) : runFrom c s [] = some s := rfl

theorem runFrom_cons {c : Cfg} {s s' : State} {st : Step} {rest : List Step}
    (h : runFrom c s (st :: rest) = some s') :
    ∃ m, step c s st = some m ∧ runFrom c m rest = some s' := by
  simp only [runFrom] at h
  split at h
  · exact absurd h (by simp)
  · rename_i m hm
    exact ⟨m, hm, h⟩

theorem runFrom_append {c : Cfg} {s : State} {a b : List Step} :
    runFrom c s (a ++ b) = (runFrom c s a).bind (fun m => runFrom c m b) := by
  induction a generalizing s with
  | nil => rfl
  | cons st rest ih =>
    simp only [List.cons_append, runFrom]
    cases step c s st with
    | none => rfl
    | some m => exact ih

theorem inv_runFrom {c : Cfg} {s s' : State} {steps : List Step} (hi : Inv c s)
    (h : runFrom c s steps = some s') : Inv c s' := by
  induction steps generalizing s with
  | nil => have := some_inj h; subst this; exact hi
  | cons st rest ih =>
    obtain ⟨m, hm, hr⟩ := runFrom_cons h
    exact ih (inv_step hi hm) hr

theorem inv_run {c : Cfg} {s : State} {steps : List Step} (h : run c steps = some s) : Inv c s :=
  inv_runFrom (inv_init c) h

/-- what a single step can do to one direction and to the ghost `early` -/
structure Frame (s s' : State) (d : Dir) : Prop where
  mono : (s.pipe d).delivered <+: (s'.pipe d).delivered
  eof : (s.pipe d).eof = true → (s'.pipe d).eof = true
  done : (s.pipe d).done = true →
    (s'.pipe d).delivered = (s.pipe d).delivered ∧ (s'.pipe d).done = true
  fin : (s.pipe d).fin = true → (s'.pipe d).fin = true ∧ (s'.pipe d).written = (s.pipe d).written
  early : s.phase ≠ .reading → s'.early = s.early ∧ s'.phase ≠ .reading
  expired : s.expired = true → s'.expired = true

theorem frame_refl (s : State) (d : Dir) : Frame s s d :=
  ⟨List.prefix_refl _, id, fun h => ⟨rfl, h⟩, fun h => ⟨h, rfl⟩, fun h => ⟨rfl, h⟩, id⟩

theorem frame_trans {a b c : State} {d : Dir} (h1 : Frame a b d) (h2 : Frame b c d) : Frame a c d where
  mono := List.IsPrefix.trans h1.mono h2.mono
  eof h := h2.eof (h1.eof h)
  done h := by
    have x := h1.done h
    have y := h2.done x.2
    exact ⟨by rw [y.1, x.1], y.2⟩
  fin h := by
    have x := h1.fin h
    have y := h2.fin x.1
    exact ⟨y.1, by rw [y.2, x.2]⟩
  early h := by
    have x := h1.early h
    have y := h2.early x.2
    exact ⟨by rw [y.1, x.1], y.2⟩
  expired h := h2.expired (h1.expired h)

macro "frame_close" : tactic => `(tactic| (
  constructor <;> (try simp only [setPipe_up, setPipe_down, pipe_up, pipe_down]) <;>
  first
    | (simp_all; done)
    | (simp_all [Pipe.pull]; done)
   ))

theorem step_frame {c : Cfg} {s s' : State} {st : Step} (hi : Inv c s)
    (h : step c s st = some s') (d : Dir) : Frame s s' d := by
  have e1 := hi.early
  have e2 := hi.closedIff
  have e3 := hi.eofUp
  have e4 := hi.eofDown
  cases st with
  | clientWrite seg =>
    simp only [step] at h
    split at h
    · exact absurd h (by simp)
    · have := some_inj h; subst this
      cases d <;> frame_close
  | targetWrite seg =>
    simp only [step] at h
    split at h
    · exact absurd h (by simp)
    · have := some_inj h; subst this
      cases d <;> frame_close
  | fin d' =>
    simp only [step] at h
    split at h
    · exact absurd h (by simp)
    · have := some_inj h; subst this
      cases d <;> cases d' <;> frame_close
  | readHead k =>
    simp only [step] at h
    split at h
    · have := some_inj h; subst this
      cases d <;> frame_close
    · exact absurd h (by simp)
  | replyRead n =>
    simp only [step] at h
    split at h
    · have := some_inj h; subst this
      cases d <;> frame_close
    · exact absurd h (by simp)
  | connected =>
    simp only [step] at h
    split at h
    · split at h
      · have := some_inj h; subst this
        cases d <;> frame_close
      · have := some_inj h; subst this
        cases d <;> frame_close
    · exact absurd h (by simp)
  | drain =>
    simp only [step] at h
    split at h
    · have := some_inj h; subst this
      cases d <;> frame_close
    · exact absurd h (by simp)
  | copy d' n =>
    simp only [step] at h
    split at h
    · have := some_inj h; subst this
      cases d <;> cases d' <;> frame_close
    · exact absurd h (by simp)
  | eof d' =>
    simp only [step] at h
    split at h
    · split at h
      · have := some_inj h; subst this
        cases d <;> cases d' <;> frame_close
      · have := some_inj h; subst this
        cases d <;> cases d' <;> frame_close
    · exact absurd h (by simp)
  | graceExpire =>
    simp only [step] at h
    split at h
    · have := some_inj h; subst this
      cases d <;> frame_close
    · exact absurd h (by simp)

theorem runFrom_frame {c : Cfg} {s s' : State} {steps : List Step} (hi : Inv c s)
    (h : runFrom c s steps = some s') (d : Dir) : Frame s s' d := by
  induction steps generalizing s with
  | nil => have := some_inj h; subst this; exact frame_refl _ _
  | cons st rest ih =>
    obtain ⟨m, hm, hr⟩ := runFrom_cons h
    exact frame_trans (step_frame hi hm d) (ih (inv_step hi hm) hr)

/-- the up stream only grows at its end -/
theorem stream_up_prefix_of_cons {c : Cfg} {s : State} (hi : Inv c s) (hp : s.phase ≠ .reading) :
    s.up.delivered <+: stream c s .up := by
  have := hi.upCons hp
  simp only [stream]
  rw [← this, List.append_assoc]
  exact List.prefix_append _ _

theorem isPrefixOf_true_of_prefix {a b : Bytes} (h : a <+: b) : a.isPrefixOf b = true :=
  List.isPrefixOf_iff_prefix.mpr h

/-! ## §4 the clock of the grace period -/

@[simp] theorem setPipe_phase (s : State) (d : Dir) (p : Pipe) : (s.setPipe d p).phase = s.phase := by
  cases d <;> rfl
@[simp] theorem setPipe_expired (s : State) (d : Dir) (p : Pipe) : (s.setPipe d p).expired = s.expired := by
  cases d <;> rfl
@[simp] theorem setPipe_grace (s : State) (d : Dir) (p : Pipe) : (s.setPipe d p).grace = s.grace := by
  cases d <;> rfl

/-- what the forced close does -/
theorem step_graceExpire_spec {c : Cfg} {s s' : State} (h : step c s .graceExpire = some s') :
    s.phase = .tunnel ∧ s.grace = true ∧ s'.phase = .closed ∧ s'.expired = true ∧ s'.grace = s.grace ∧
      s'.closedC = true ∧ s'.closedT = true ∧
      s'.up.delivered = s.up.delivered ∧ s'.down.delivered = s.down.delivered ∧
      s'.up.written = s.up.written ∧ s'.down.written = s.down.written ∧
      s'.up.eof = s.up.eof ∧ s'.down.eof = s.down.eof := by
  simp only [step] at h
  split at h
  · rename_i hc
    have := some_inj h; subst this
    exact ⟨hc.1, hc.2, rfl, rfl, rfl, rfl, rfl, rfl, rfl, rfl, rfl, rfl, rfl⟩
  · exact absurd h (by simp)

theorem step_graceExpire_enabled {c : Cfg} {s : State} (hp : s.phase = .tunnel) (hg : s.grace = true) :
    ∃ s', step c s .graceExpire = some s' := by
  simp only [step]
  rw [if_pos ⟨hp, hg⟩]
  exact ⟨_, rfl⟩

/-- `closed` is absorbing, and nothing fires in it -/
theorem step_closed {c : Cfg} {s s' : State} {st : Step} (hp : s.phase = .closed)
    (h : step c s st = some s') : s'.phase = .closed ∧ s'.expired = s.expired := by
  cases st <;> simp only [step] at h <;> (repeat' split at h) <;>
    first
      | (have := some_inj h; subst this; simp_all; done)
      | (simp at h; done)

/-- only the timer sets `expired` -/
theorem step_expired_eq {c : Cfg} {s s' : State} {st : Step} (hne : st ≠ .graceExpire)
    (h : step c s st = some s') : s'.expired = s.expired := by
  cases st <;> simp only [step] at h <;> (repeat' split at h) <;>
    first
      | (exact absurd rfl hne; done)
      | (have := some_inj h; subst this; simp; done)
      | (simp at h; done)

/-- once a direction has finished, `grace` stays -/
theorem step_grace_mono {c : Cfg} {s s' : State} {st : Step} (hg : s.grace = true)
    (h : step c s st = some s') : s'.grace = true := by
  cases st <;> simp only [step] at h <;> (repeat' split at h) <;>
    first
      | (have := some_inj h; subst this; simp [hg]; done)
      | (simp at h; done)

/-- what finishing a direction does to its own pipe -/
theorem step_eof_spec {c : Cfg} {s s' : State} {d : Dir} (h : step c s (.eof d) = some s') :
    (s'.pipe d).done = true ∧ (s'.pipe d).eof = true := by
  simp only [step] at h
  split at h
  · split at h <;> (have := some_inj h; subst this; cases d <;> exact ⟨rfl, rfl⟩)
  · exact absurd h (by simp)

theorem runFrom_closed {c : Cfg} {s s' : State} {steps : List Step} (hp : s.phase = .closed)
    (h : runFrom c s steps = some s') : s'.phase = .closed ∧ s'.expired = s.expired := by
  induction steps generalizing s with
  | nil => have := some_inj h; subst this; exact ⟨hp, rfl⟩
  | cons st rest ih =>
    obtain ⟨m, hm, hr⟩ := runFrom_cons h
    have x := step_closed hp hm
    have y := ih x.1 hr
    exact ⟨y.1, by rw [y.2, x.2]⟩

/-- a direction has finished and the machine is not closed: it is in phase `tunnel` -/
theorem phase_tunnel_of_grace {c : Cfg} {s : State} (hi : Inv c s) (hg : s.grace = true)
    (hnc : s.phase ≠ .closed) : s.phase = .tunnel := by
  have hd := hi.grace.mp hg
  cases hs : s.phase
  · have := hi.early (Or.inl hs); simp_all
  · have := hi.early (Or.inr (Or.inl hs)); simp_all
  · have := hi.early (Or.inr (Or.inr hs)); simp_all
  · rfl
  · exact absurd hs hnc

theorem trunFrom_cons {c : Cfg} {τ : Timing} {t t' : TState} {st : TStep} {rest : List TStep}
    (h : trunFrom c τ t (st :: rest) = some t') :
    ∃ m, tstep c τ t st = some m ∧ trunFrom c τ m rest = some t' := by
  simp only [trunFrom] at h
  split at h
  · exact absurd h (by simp)
  · rename_i m hm
    exact ⟨m, hm, h⟩

theorem trunFrom_append {c : Cfg} {τ : Timing} {t : TState} {a b : List TStep} :
    trunFrom c τ t (a ++ b) = (trunFrom c τ t a).bind (fun m => trunFrom c τ m b) := by
  induction a generalizing t with
  | nil => rfl
  | cons st rest ih =>
    simp only [List.cons_append, trunFrom]
    cases tstep c τ t st with
    | none => rfl
    | some m => exact ih

/-- the three shapes of an enabled timed step -/
theorem tstep_cases {c : Cfg} {τ : Timing} {t t' : TState} {st : TStep} (h : tstep c τ t st = some t') :
    (∃ n, st = .tick n ∧ t.blocked τ n = false ∧ t' = { t with now := t.now + n }) ∨
    (st = .act .graceExpire ∧ t.due τ = true ∧
      ∃ s', step c t.s .graceExpire = some s' ∧ t' = { t with s := s', expiredAt := some t.now }) ∨
    (∃ u, st = .act u ∧ u ≠ .graceExpire ∧ ∃ s', step c t.s u = some s' ∧ t' = t.moved s') := by
  cases st with
  | tick n =>
    left
    simp only [tstep] at h
    split at h
    · exact absurd h (by simp)
    · rename_i hb
      exact ⟨n, rfl, by simpa using hb, (some_inj h).symm⟩
  | act u =>
    right
    simp only [tstep] at h
    by_cases hu : u = .graceExpire
    · left
      subst hu
      rw [if_pos rfl] at h
      split at h
      · rename_i hd
        split at h
        · rename_i s' hs
          exact ⟨rfl, hd, s', hs, (some_inj h).symm⟩
        · exact absurd h (by simp)
      · exact absurd h (by simp)
    · right
      rw [if_neg hu] at h
      split at h
      · rename_i s' hs
        exact ⟨u, rfl, hu, s', hs, (some_inj h).symm⟩
      · exact absurd h (by simp)

/-- erasing the ticks of a timed run gives a run of the untimed machine -/
theorem tstep_erase {c : Cfg} {τ : Timing} {t t' : TState} {st : TStep} (h : tstep c τ t st = some t') :
    runFrom c t.s (erase [st]) = some t'.s := by
  rcases tstep_cases h with ⟨n, rfl, _, rfl⟩ | ⟨rfl, _, s', hs, rfl⟩ | ⟨u, rfl, _, s', hs, rfl⟩
  · rfl
  · simp only [erase, runFrom, hs]
  · simp only [erase, runFrom, hs, TState.moved]

theorem erase_cons (st : TStep) (rest : List TStep) : erase (st :: rest) = erase [st] ++ erase rest := by
  cases st <;> rfl

theorem trunFrom_erase {c : Cfg} {τ : Timing} {t t' : TState} {steps : List TStep}
    (h : trunFrom c τ t steps = some t') : runFrom c t.s (erase steps) = some t'.s := by
  induction steps generalizing t with
  | nil => have := some_inj h; subst this; rfl
  | cons st rest ih =>
    obtain ⟨m, hm, hr⟩ := trunFrom_cons h
    rw [erase_cons, runFrom_append, tstep_erase hm]
    exact ih hr

theorem trun_erase {c : Cfg} {τ : Timing} {t : TState} {steps : List TStep}
    (h : trun c τ steps = some t) : run c (erase steps) = some t.s :=
  trunFrom_erase h

/-- the invariant of the timed machine -/
structure TInv (c : Cfg) (τ : Timing) (t : TState) : Prop where
  inv : Inv c t.s
  /-- the timer has been started iff a direction has finished -/
  armed : t.armedAt.isSome = t.s.grace
  armedLe : ∀ a, t.armedAt = some a → a ≤ t.now
  /-- a pending timer is not overdue by more than the slack -/
  bound : ∀ a, t.armedAt = some a → t.s.phase = .tunnel → t.now ≤ a + τ.period + τ.slack
  expAt : t.expiredAt.isSome = t.s.expired
  /-- the timer fired within `[armedAt + period, armedAt + period + slack]` -/
  expWin : ∀ e, t.expiredAt = some e →
    ∃ a, t.armedAt = some a ∧ a + τ.period ≤ e ∧ e ≤ a + τ.period + τ.slack ∧ e ≤ t.now

theorem tinv_init (c : Cfg) (τ : Timing) : TInv c τ tinit := by
  refine ⟨inv_init c, rfl, ?_, ?_, rfl, ?_⟩ <;> intro a h <;> simp [tinit] at h

theorem tinv_step {c : Cfg} {τ : Timing} {t t' : TState} {st : TStep} (hi : TInv c τ t)
    (h : tstep c τ t st = some t') : TInv c τ t' := by
  rcases tstep_cases h with ⟨n, rfl, hb, rfl⟩ | ⟨rfl, hd, s', hs, rfl⟩ | ⟨u, rfl, hu, s', hs, rfl⟩
  · -- time passes
    refine ⟨hi.inv, hi.armed, ?_, ?_, hi.expAt, ?_⟩
    · intro a ha
      have := hi.armedLe a ha
      show a ≤ t.now + n
      omega
    · intro a ha hp
      show t.now + n ≤ a + τ.period + τ.slack
      simp only [TState.blocked] at hb
      have ha' : t.armedAt = some a := ha
      have hp' : t.s.phase = .tunnel := hp
      rw [ha'] at hb
      simp only [hp', decide_true, Bool.true_and, decide_eq_false_iff_not] at hb
      omega
    · intro e he
      obtain ⟨a, h1, h2, h3, h4⟩ := hi.expWin e he
      exact ⟨a, h1, h2, h3, by show e ≤ t.now + n; omega⟩
  · -- the timer fires
    obtain ⟨hp, hg, hp', hx, hg', _⟩ := step_graceExpire_spec hs
    have hsome : t.armedAt.isSome = true := by rw [hi.armed]; exact hg
    obtain ⟨a, ha⟩ := Option.isSome_iff_exists.mp hsome
    have hdue : a + τ.period ≤ t.now := by
      simp only [TState.due, ha, decide_eq_true_eq] at hd
      exact hd
    refine ⟨inv_step hi.inv hs, ?_, hi.armedLe, ?_, ?_, ?_⟩
    · show t.armedAt.isSome = s'.grace
      rw [hg', hi.armed]
    · intro a' _ hpt
      have hpt' : s'.phase = .tunnel := hpt
      rw [hp'] at hpt'
      exact absurd hpt' (by decide)
    · show (some t.now).isSome = s'.expired
      rw [hx]; rfl
    · intro e he
      have he' : some t.now = some e := he
      have := some_inj he'
      subst this
      exact ⟨a, ha, hdue, hi.bound a ha hp, Nat.le_refl _⟩
  · -- a step of the untimed machine
    have hinv := inv_step hi.inv hs
    have hexp := step_expired_eq hu hs
    refine ⟨hinv, ?_, ?_, ?_, ?_, ?_⟩
    · show (t.moved s').armedAt.isSome = s'.grace
      simp only [TState.moved]
      cases ha : t.armedAt with
      | some a =>
        have : t.s.grace = true := by rw [← hi.armed, ha]; rfl
        rw [step_grace_mono this hs]; rfl
      | none =>
        cases hg : s'.grace <;> simp
    · intro a ha
      simp only [TState.moved] at ha
      show a ≤ t.now
      cases hb : t.armedAt with
      | some b => rw [hb] at ha; exact hi.armedLe a (by rw [hb]; exact ha)
      | none =>
        rw [hb] at ha
        by_cases hg : s'.grace = true
        · rw [if_pos hg] at ha; have := some_inj ha; omega
        · rw [if_neg hg] at ha; exact absurd ha (by simp)
    · intro a ha hp
      simp only [TState.moved] at ha hp
      show t.now ≤ a + τ.period + τ.slack
      cases hb : t.armedAt with
      | some b =>
        rw [hb] at ha
        have hab := some_inj ha
        subst hab
        have hg : t.s.grace = true := by rw [← hi.armed, hb]; rfl
        have hnc : t.s.phase ≠ .closed := by
          intro hcl
          have := (step_closed hcl hs).1
          rw [hp] at this
          exact absurd this (by decide)
        exact hi.bound b hb (phase_tunnel_of_grace hi.inv hg hnc)
      | none =>
        rw [hb] at ha
        by_cases hg : s'.grace = true
        · rw [if_pos hg] at ha; have := some_inj ha; omega
        · rw [if_neg hg] at ha; exact absurd ha (by simp)
    · show t.expiredAt.isSome = s'.expired
      rw [hexp, hi.expAt]
    · intro e he
      have he' : t.expiredAt = some e := he
      obtain ⟨a, h1, h2, h3, h4⟩ := hi.expWin e he'
      refine ⟨a, ?_, h2, h3, h4⟩
      show (t.moved s').armedAt = some a
      simp only [TState.moved, h1]

theorem tinv_runFrom {c : Cfg} {τ : Timing} {t t' : TState} {steps : List TStep} (hi : TInv c τ t)
    (h : trunFrom c τ t steps = some t') : TInv c τ t' := by
  induction steps generalizing t with
  | nil => have := some_inj h; subst this; exact hi
  | cons st rest ih =>
    obtain ⟨m, hm, hr⟩ := trunFrom_cons h
    exact ih (tinv_step hi hm) hr

theorem tinv_run {c : Cfg} {τ : Timing} {t : TState} {steps : List TStep}
    (h : trun c τ steps = some t) : TInv c τ t :=
  tinv_runFrom (tinv_init c τ) h

theorem trun_snoc {c : Cfg} {τ : Timing} {steps : List TStep} {t t' : TState} {st : TStep}
    (h : trun c τ steps = some t) (hx : tstep c τ t st = some t') : trun c τ (steps ++ [st]) = some t' := by
  unfold trun at *
  rw [trunFrom_append, h]
  show trunFrom c τ t [st] = some t'
  simp only [trunFrom, hx]

/-- the timer is started once: later steps do not move `armedAt` -/
theorem tstep_armed_stable {c : Cfg} {τ : Timing} {t t' : TState} {st : TStep} {a : Nat}
    (ha : t.armedAt = some a) (h : tstep c τ t st = some t') : t'.armedAt = some a := by
  rcases tstep_cases h with ⟨n, rfl, _, rfl⟩ | ⟨rfl, _, s', _, rfl⟩ | ⟨u, rfl, _, s', _, rfl⟩
  · exact ha
  · exact ha
  · simp only [TState.moved, ha]

theorem trunFrom_armed_stable {c : Cfg} {τ : Timing} {t t' : TState} {steps : List TStep} {a : Nat}
    (ha : t.armedAt = some a) (h : trunFrom c τ t steps = some t') : t'.armedAt = some a := by
  induction steps generalizing t with
  | nil => have := some_inj h; subst this; exact ha
  | cons st rest ih =>
    obtain ⟨m, hm, hr⟩ := trunFrom_cons h
    exact ih (tstep_armed_stable ha hm) hr

end C03
end FwdVerif
