/-
  C02 — incremental delivery over a whole client connection (`Flush.Conn`, Model/Flush.lean).

  Every response of a keep-alive connection gets a fresh `patternFlushWriter`; the responses share
  only the `bufio.Writer`, which every response leaves empty.  Hence

  * `replies_flushes`            the flush decisions of the k-th response are those of that response
                                     alone (`replyFlushes`): its own writes and its own pattern, whatever
                                     state the earlier responses left behind;
  * `replies_outs`               what has reached the client after each of its writes is what a new
                                     connection would have delivered, shifted by the bytes of the earlier
                                     responses;
  * `writes_flushed_delivers`    a write that is followed by a flush leaves nothing behind: every byte
                                     written on the connection so far has been handed to the socket;
  * `replies_after_pattern`      the per-response theorem `flush_after_pattern_partial` on the
                                     connection: when the output of response k ends with its pattern, all
                                     bytes up to there have been delivered.

  Core-only.
-/
import FwdVerif.Lemmas.RespFlush

namespace FwdVerif
namespace Flush

/-! ## `bufio.Writer` -/

theorem Buf.write_total (size : Nat) (b : Buf) (n : Nat) : (b.write size n).total = b.total + n := by
  unfold Buf.write Buf.total
  dsimp only
  split
  · simp only; omega
  · split
    · simp only; omega
    · split
      · simp only; omega
      · simp only; omega

theorem Buf.flush_total (b : Buf) : b.flush.total = b.total := by
  simp [Buf.flush, Buf.total]

theorem Buf.flush_buffered (b : Buf) : b.flush.buffered = 0 := rfl

theorem Buf.flush_delivered (b : Buf) : b.flush.delivered = b.total := rfl

/-- Nothing is ever delivered that was not written. -/
theorem Buf.delivered_le_total (b : Buf) : b.delivered ≤ b.total := Nat.le_add_right _ _

def Buf.shift (k : Nat) (b : Buf) : Buf := { b with delivered := b.delivered + k }

theorem Buf.write_shift (size k : Nat) (b : Buf) (n : Nat) :
    (b.shift k).write size n = (b.write size n).shift k := by
  unfold Buf.write Buf.shift
  dsimp only
  split
  · rfl
  · split
    · simp only [Buf.mk.injEq, true_and]; omega
    · split
      · simp only [Buf.mk.injEq, true_and]; omega
      · simp only [Buf.mk.injEq, true_and]; omega

theorem Buf.flush_shift (k : Nat) (b : Buf) : (b.shift k).flush = b.flush.shift k := by
  simp only [Buf.flush, Buf.shift, Buf.mk.injEq, true_and]; omega

/-! ## one write -/

def Conn.shift (k : Nat) (c : Conn) : Conn := { c with buf := c.buf.shift k }

theorem Conn.write_flushed (size : Nat) (c : Conn) (p : Bytes) :
    (c.write size p).2.flushed =
      match c.pat with
      | none => false
      | some pat => (step pat c.last p).1 := by
  unfold Conn.write
  cases c.pat <;> rfl

theorem Conn.write_pat (size : Nat) (c : Conn) (p : Bytes) : (c.write size p).1.pat = c.pat := by
  unfold Conn.write
  cases c.pat <;> rfl

theorem Conn.write_last (size : Nat) (c : Conn) (p : Bytes) (pat : Pat) (h : c.pat = some pat) :
    (c.write size p).1.last = (step pat c.last p).2 := by
  unfold Conn.write
  simp [h]

theorem Conn.write_total (size : Nat) (c : Conn) (p : Bytes) :
    (c.write size p).1.buf.total = c.buf.total + p.length := by
  unfold Conn.write
  cases c.pat with
  | none => simp [Buf.write_total]
  | some pat =>
    dsimp only
    split
    · rw [Buf.flush_total, Buf.write_total]
    · rw [Buf.write_total]

/-- The `delivered` reported for a write is the state's. -/
theorem Conn.write_out_delivered (size : Nat) (c : Conn) (p : Bytes) :
    (c.write size p).2.delivered = (c.write size p).1.buf.delivered := by
  unfold Conn.write
  cases c.pat <;> rfl

/-- A write followed by a flush leaves the buffer empty. -/
theorem Conn.write_flushed_buffered (size : Nat) (c : Conn) (p : Bytes)
    (h : (c.write size p).2.flushed = true) : (c.write size p).1.buf.buffered = 0 := by
  unfold Conn.write at h ⊢
  cases hp : c.pat with
  | none => simp [hp] at h
  | some pat =>
    simp only [hp] at h ⊢
    simp only [h, if_true, Buf.flush_buffered]

theorem Conn.write_shift (size k : Nat) (c : Conn) (p : Bytes) :
    (c.shift k).write size p = ((c.write size p).1.shift k, (c.write size p).2.shift k) := by
  unfold Conn.write Conn.shift
  cases hp : c.pat with
  | none =>
    simp only [Buf.write_shift]
    rfl
  | some pat =>
    simp only [Buf.write_shift]
    split
    · simp only [Buf.flush_shift]
      rfl
    · rfl

/-! ## the writes of one response -/

theorem Conn.writes_flushed (size : Nat) (c : Conn) (ws : List Bytes) :
    (c.writes size ws).2.map Out.flushed =
      match c.pat with
      | none => ws.map fun _ => false
      | some pat => flushesFrom pat c.last ws := by
  induction ws generalizing c with
  | nil => cases c.pat <;> rfl
  | cons p ps ih =>
    simp only [Conn.writes, List.map_cons, ih, Conn.write_pat, Conn.write_flushed]
    cases hp : c.pat with
    | none => rfl
    | some pat => simp only [flushesFrom, Conn.write_last size c p pat hp]

theorem Conn.writes_length (size : Nat) (c : Conn) (ws : List Bytes) :
    (c.writes size ws).2.length = ws.length := by
  induction ws generalizing c with
  | nil => rfl
  | cons p ps ih => simp [Conn.writes, ih]

theorem Conn.writes_total (size : Nat) (c : Conn) (ws : List Bytes) :
    (c.writes size ws).1.buf.total = c.buf.total + ws.flatten.length := by
  induction ws generalizing c with
  | nil => simp [Conn.writes]
  | cons p ps ih =>
    simp only [Conn.writes, ih, Conn.write_total, List.flatten_cons, List.length_append]
    omega

theorem written_cons_succ (p : Bytes) (ps : List Bytes) (i : Nat) :
    written (p :: ps) (i + 1) = p ++ written ps i := by
  simp [written]

theorem written_cons_zero (p : Bytes) (ps : List Bytes) : written (p :: ps) 0 = p := by
  simp [written]

/-- A write followed by a flush: the client has been given everything written so far. -/
theorem Conn.writes_flushed_delivers (size : Nat) (c : Conn) (ws : List Bytes) (i : Nat) (o : Out)
    (hi : (c.writes size ws).2[i]? = some o) (hf : o.flushed = true) :
    o.delivered = c.buf.total + (written ws i).length := by
  induction ws generalizing c i with
  | nil => simp [Conn.writes] at hi
  | cons p ps ih =>
    cases i with
    | zero =>
      simp only [Conn.writes, List.getElem?_cons_zero, Option.some.injEq] at hi
      subst hi
      rw [written_cons_zero, Conn.write_out_delivered]
      have ht := Conn.write_total size c p
      have hb := Conn.write_flushed_buffered size c p hf
      simp only [Buf.total] at ht ⊢
      omega
    | succ i =>
      simp only [Conn.writes, List.getElem?_cons_succ] at hi
      rw [ih _ i hi, Conn.write_total, written_cons_succ, List.length_append]
      omega

/-- The client never has more than what was written. -/
theorem Conn.writes_delivered_le (size : Nat) (c : Conn) (ws : List Bytes) (i : Nat) (o : Out)
    (hi : (c.writes size ws).2[i]? = some o) :
    o.delivered ≤ c.buf.total + (written ws i).length := by
  induction ws generalizing c i with
  | nil => simp [Conn.writes] at hi
  | cons p ps ih =>
    cases i with
    | zero =>
      simp only [Conn.writes, List.getElem?_cons_zero, Option.some.injEq] at hi
      subst hi
      rw [written_cons_zero, Conn.write_out_delivered, ← Conn.write_total size c p]
      exact Buf.delivered_le_total _
    | succ i =>
      simp only [Conn.writes, List.getElem?_cons_succ] at hi
      have := ih _ i hi
      rw [Conn.write_total] at this
      rw [written_cons_succ, List.length_append]
      omega

theorem Conn.writes_shift (size k : Nat) (c : Conn) (ws : List Bytes) :
    (c.shift k).writes size ws =
      ((c.writes size ws).1.shift k, (c.writes size ws).2.map (Out.shift k)) := by
  induction ws generalizing c with
  | nil => rfl
  | cons p ps ih => simp only [Conn.writes, Conn.write_shift, ih, List.map_cons]

/-! ## one response -/

theorem Conn.begin_pat (c : Conn) (pat : Option Pat) : (c.begin pat).pat = pat := rfl
theorem Conn.begin_last (c : Conn) (pat : Option Pat) : (c.begin pat).last = 0 := rfl
theorem Conn.begin_buf (c : Conn) (pat : Option Pat) : (c.begin pat).buf = c.buf := rfl

/-- The flush decisions of a response do not depend on the state it starts in. -/
theorem Conn.reply_flushes (size : Nat) (c : Conn) (r : Reply) :
    (c.reply size r).2.map Out.flushed = replyFlushes r := by
  simp only [Conn.reply, List.map_append, Conn.writes_flushed, Conn.begin_pat, Conn.begin_last,
    replyFlushes, flushes, Conn.finish, List.map_cons, List.map_nil]
  cases r.pat <;> rfl

theorem Conn.reply_buffered (size : Nat) (c : Conn) (r : Reply) :
    (c.reply size r).1.buf.buffered = 0 := rfl

theorem Conn.reply_total (size : Nat) (c : Conn) (r : Reply) :
    (c.reply size r).1.buf.total = c.buf.total + r.size := by
  simp only [Conn.reply, Conn.finish, Buf.flush_total, Conn.writes_total, Conn.begin_buf, Reply.size]

theorem Conn.reply_delivered (size : Nat) (c : Conn) (r : Reply) :
    (c.reply size r).1.buf.delivered = c.buf.total + r.size := by
  have h := Conn.reply_total size c r
  have hb := Conn.reply_buffered size c r
  simp only [Buf.total] at h ⊢
  omega

theorem Conn.reply_length (size : Nat) (c : Conn) (r : Reply) :
    (c.reply size r).2.length = r.writes.length + 1 := by
  simp [Conn.reply, Conn.writes_length]

theorem Conn.begin_shift (k : Nat) (c : Conn) (pat : Option Pat) :
    (c.shift k).begin pat = (c.begin pat).shift k := rfl

theorem Conn.finish_shift (k : Nat) (c : Conn) :
    (c.shift k).finish = (c.finish.1.shift k, c.finish.2.shift k) := by
  simp only [Conn.finish, Conn.shift, Buf.flush_shift]
  rfl

theorem Conn.reply_shift (size k : Nat) (c : Conn) (r : Reply) :
    (c.shift k).reply size r = ((c.reply size r).1.shift k, (c.reply size r).2.map (Out.shift k)) := by
  simp only [Conn.reply, Conn.begin_shift, Conn.writes_shift, Conn.finish_shift, List.map_append,
    List.map_cons, List.map_nil]

/-- A response that starts with an empty buffer goes out as on a new connection, counted from the
    bytes delivered before it. -/
theorem Conn.reply_outs (size : Nat) (c : Conn) (r : Reply) (h0 : c.buf.buffered = 0) :
    (c.reply size r).2 = (replyOuts size r).map (Out.shift c.buf.delivered) := by
  have hb : (c.begin r.pat) = ((Conn.fresh.begin r.pat).shift c.buf.delivered) := by
    obtain ⟨pat, last, ⟨bu, de⟩⟩ := c
    simp only at h0
    subst h0
    simp [Conn.begin, Conn.fresh, Conn.shift, Buf.shift]
  have := Conn.reply_shift size c.buf.delivered Conn.fresh r
  simp only [Conn.reply, replyOuts] at this ⊢
  rw [hb]
  simp only [Conn.begin_shift] at this
  exact congrArg Prod.snd this

/-! ## the responses of a connection -/

theorem repliesSize_take_succ (r : Reply) (rs : List Reply) (k : Nat) :
    repliesSize ((r :: rs).take (k + 1)) = r.size + repliesSize (rs.take k) := by
  simp [repliesSize]

/-- The flush decisions of the k-th response of a connection are those of that response alone:
    they depend on its own writes and pattern only — not on the connection's earlier responses, nor
    on the state `c` the connection was in before. -/
theorem Conn.replies_flushes (size : Nat) (c : Conn) (rs : List Reply) (k : Nat) (r : Reply)
    (hk : rs[k]? = some r) :
    ((c.replies size rs)[k]?).map (List.map Out.flushed) = some (replyFlushes r) := by
  induction rs generalizing c k with
  | nil => simp at hk
  | cons r0 rs ih =>
    cases k with
    | zero =>
      simp only [List.getElem?_cons_zero, Option.some.injEq] at hk
      subst hk
      simp [Conn.replies, Conn.reply_flushes]
    | succ k =>
      simp only [List.getElem?_cons_succ] at hk
      simpa [Conn.replies] using ih _ k hk

theorem Conn.replies_length (size : Nat) (c : Conn) (rs : List Reply) :
    (c.replies size rs).length = rs.length := by
  induction rs generalizing c with
  | nil => rfl
  | cons r rs ih => simp [Conn.replies, ih]

/-- What the client has after each write of the k-th response: what a new connection would have
    delivered for that response alone, plus all bytes of the earlier responses. -/
theorem Conn.replies_outs (size : Nat) (c : Conn) (rs : List Reply) (k : Nat) (r : Reply)
    (h0 : c.buf.buffered = 0) (hk : rs[k]? = some r) :
    (c.replies size rs)[k]? =
      some ((replyOuts size r).map (Out.shift (c.buf.delivered + repliesSize (rs.take k)))) := by
  induction rs generalizing c k with
  | nil => simp at hk
  | cons r0 rs ih =>
    cases k with
    | zero =>
      simp only [List.getElem?_cons_zero, Option.some.injEq] at hk
      subst hk
      simp [Conn.replies, Conn.reply_outs size c r0 h0, repliesSize]
    | succ k =>
      simp only [List.getElem?_cons_succ] at hk
      have := ih (c.reply size r0).1 k (Conn.reply_buffered size c r0) hk
      simp only [Conn.replies, List.getElem?_cons_succ, this, Conn.reply_delivered,
        repliesSize_take_succ, Buf.total, h0]
      congr 3
      omega

/-- The state before the k-th response: nothing buffered, everything written so far delivered. -/
theorem Conn.replies_flushed_delivers (size : Nat) (c : Conn) (rs : List Reply) (k : Nat) (r : Reply)
    (outs : List Out) (i : Nat) (o : Out)
    (hk : rs[k]? = some r) (ho : (c.replies size rs)[k]? = some outs) (hi : outs[i]? = some o)
    (hf : o.flushed = true) (hlt : i < r.writes.length) :
    o.delivered = c.buf.total + repliesSize (rs.take k) + (written r.writes i).length := by
  induction rs generalizing c k with
  | nil => simp at hk
  | cons r0 rs ih =>
    cases k with
    | zero =>
      simp only [List.getElem?_cons_zero, Option.some.injEq] at hk
      subst hk
      simp only [Conn.replies, List.getElem?_cons_zero, Option.some.injEq] at ho
      subst ho
      simp only [Conn.reply] at hi
      rw [List.getElem?_append_left (by simpa [Conn.writes_length] using hlt)] at hi
      have := Conn.writes_flushed_delivers size (c.begin r0.pat) r0.writes i o hi hf
      simpa [repliesSize, Conn.begin_buf] using this
    | succ k =>
      simp only [List.getElem?_cons_succ] at hk
      simp only [Conn.replies, List.getElem?_cons_succ] at ho
      rw [ih _ k hk ho, Conn.reply_total, repliesSize_take_succ]
      omega

/-- `flush_after_pattern_partial` on a connection: when the bytes response k has written so far end
    with its pattern (an event / a chunk is complete), that write is followed by a flush and the
    client has been given every byte written on the connection up to there — whatever came
    before on the connection. -/
theorem Conn.replies_after_pattern (size : Nat) (c : Conn) (rs : List Reply) (k : Nat) (r : Reply)
    (pat : Pat) (i : Nat) (p : Bytes)
    (hk : rs[k]? = some r) (hpat : r.pat = some pat)
    (hi : r.writes[i]? = some p) (hne : p ≠ []) (hend : endsWithPair pat (written r.writes i))
    (hside : 2 ≤ p.length ∨ ∃ q, 0 < i ∧ r.writes[i - 1]? = some q ∧ q ≠ []) :
    ∃ outs o, (c.replies size rs)[k]? = some outs ∧ outs[i]? = some o ∧ o.flushed = true ∧
      o.delivered = c.buf.total + repliesSize (rs.take k) + (written r.writes i).length := by
  have hlen : k < (c.replies size rs).length := by
    rw [Conn.replies_length]; exact (List.getElem?_eq_some_iff.mp hk).1
  obtain ⟨outs, ho⟩ : ∃ outs, (c.replies size rs)[k]? = some outs :=
    ⟨_, List.getElem?_eq_getElem hlen⟩
  have hfl := Conn.replies_flushes size c rs k r hk
  rw [ho] at hfl
  simp only [Option.map_some, Option.some.injEq] at hfl
  have hilt : i < r.writes.length := (List.getElem?_eq_some_iff.mp hi).1
  have hbit : (replyFlushes r)[i]? = some true := by
    simp only [replyFlushes, hpat]
    rw [List.getElem?_append_left (by rw [flushes_length]; exact hilt)]
    exact flush_after_pattern_partial pat r.writes i p hi hne hend hside
  rw [← hfl, List.getElem?_map] at hbit
  cases hoi : outs[i]? with
  | none => simp [hoi] at hbit
  | some o =>
    simp only [hoi, Option.map_some, Option.some.injEq] at hbit
    exact ⟨outs, o, ho, hoi, hbit,
      Conn.replies_flushed_delivers size c rs k r outs i o hk ho hoi hbit hilt⟩

/-- The last entry of every response is the end-of-response flush: every byte of the responses up to
    and including the k-th has been delivered. -/
theorem Conn.replies_end (size : Nat) (c : Conn) (rs : List Reply) (k : Nat) (r : Reply)
    (hk : rs[k]? = some r) :
    ∃ outs, (c.replies size rs)[k]? = some outs ∧
      outs[r.writes.length]? =
        some { flushed := true, delivered := c.buf.total + repliesSize (rs.take (k + 1)) } := by
  induction rs generalizing c k with
  | nil => simp at hk
  | cons r0 rs ih =>
    cases k with
    | zero =>
      simp only [List.getElem?_cons_zero, Option.some.injEq] at hk
      subst hk
      refine ⟨_, rfl, ?_⟩
      have hd := Conn.reply_delivered size c r0
      simp only [Conn.reply] at hd ⊢
      rw [List.getElem?_append_right (by simp [Conn.writes_length])]
      simp only [Conn.writes_length, Nat.sub_self, List.getElem?_cons_zero, Conn.finish] at hd ⊢
      simp [hd, repliesSize]
    | succ k =>
      simp only [List.getElem?_cons_succ] at hk
      obtain ⟨outs, h1, h2⟩ := ih (c.reply size r0).1 k hk
      refine ⟨outs, by simpa [Conn.replies] using h1, ?_⟩
      rw [h2, Conn.reply_total, repliesSize_take_succ (k := k + 1)]
      simp only [Option.some.injEq, Out.mk.injEq, true_and]
      omega

/-- A write that contains the response's pattern: flushed, and everything written on the connection
    so far is delivered. -/
theorem Conn.replies_contains (size : Nat) (c : Conn) (rs : List Reply) (k : Nat) (r : Reply)
    (pat : Pat) (i : Nat) (p : Bytes)
    (hk : rs[k]? = some r) (hpat : r.pat = some pat)
    (hi : r.writes[i]? = some p) (hc : containsPair pat p = true) :
    ∃ outs o, (c.replies size rs)[k]? = some outs ∧ outs[i]? = some o ∧ o.flushed = true ∧
      o.delivered = c.buf.total + repliesSize (rs.take k) + (written r.writes i).length := by
  have hlen : k < (c.replies size rs).length := by
    rw [Conn.replies_length]; exact (List.getElem?_eq_some_iff.mp hk).1
  obtain ⟨outs, ho⟩ : ∃ outs, (c.replies size rs)[k]? = some outs :=
    ⟨_, List.getElem?_eq_getElem hlen⟩
  have hfl := Conn.replies_flushes size c rs k r hk
  rw [ho] at hfl
  simp only [Option.map_some, Option.some.injEq] at hfl
  have hilt : i < r.writes.length := (List.getElem?_eq_some_iff.mp hi).1
  have hbit : (replyFlushes r)[i]? = some true := by
    simp only [replyFlushes, hpat]
    rw [List.getElem?_append_left (by rw [flushes_length]; exact hilt)]
    exact flush_if_contains pat r.writes i p hi hc
  rw [← hfl, List.getElem?_map] at hbit
  cases hoi : outs[i]? with
  | none => simp [hoi] at hbit
  | some o =>
    simp only [hoi, Option.map_some, Option.some.injEq] at hbit
    exact ⟨outs, o, ho, hoi, hbit,
      Conn.replies_flushed_delivers size c rs k r outs i o hk ho hoi hbit hilt⟩

end Flush
end FwdVerif
