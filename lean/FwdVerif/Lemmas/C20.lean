/-
  C20 — helper lemmas: the token-bucket invariant behind the throughput bound.
-/
import FwdVerif.Model.C20

namespace FwdVerif
namespace C20

/-! ### slack: `W` for every connection whose last call has not returned by `τ` -/

def slack (W : Nat) : List Nat → Nat → Nat
  | [], _ => 0
  | r :: rs, τ => (if τ < r then W else 0) + slack W rs τ

theorem slack_le (W : Nat) (rd : List Nat) (τ : Nat) : slack W rd τ ≤ W * rd.length := by
  induction rd with
  | nil => simp [slack]
  | cons r rs ih =>
    simp only [slack, List.length_cons, Nat.mul_succ]
    split <;> omega

theorem slack_set (W : Nat) (rd : List Nat) (c v τ : Nat) (hc : c < rd.length)
    (hr : rd.getD c 0 ≤ τ) :
    slack W (rd.set c v) τ = slack W rd τ + (if τ < v then W else 0) := by
  induction rd generalizing c with
  | nil => simp at hc
  | cons r rs ih =>
    cases c with
    | zero =>
      simp only [List.getD_cons_zero] at hr
      simp only [List.set_cons_zero, slack]
      have : ¬ τ < r := by omega
      simp only [this, if_false]
      omega
    | succ c =>
      simp only [List.getD_cons_succ] at hr
      simp only [List.length_cons, Nat.succ_lt_succ_iff] at hc
      simp only [List.set_cons_succ, slack, ih c hc hr]
      omega


theorem advance_of_le (l : Limiter) (s : LState) (t : Nat) (h : s.last ≤ t) :
    advance l s t ≤ l.cap ∧
    (advance l s t = l.cap ∨ advance l s t = s.tokens + ((t : Int) - (s.last : Int)) * (l.rate : Int)) ∧
    advance l s t ≤ s.tokens + ((t : Int) - (s.last : Int)) * (l.rate : Int) := by
  have h1 : ¬ t < s.last := by omega
  have h2 : ((t - s.last : Nat) : Int) = (t : Int) - (s.last : Int) := by omega
  simp only [advance, h1, if_false, h2]
  split <;> omega

theorem cap_nonneg (l : Limiter) : 0 ≤ l.cap := by
  simp only [Limiter.cap]; omega

theorem stepB_zero (l : Limiter) (s : RunSt) (op : BOp) (hn : op.n = 0) :
    stepB l s op = { st := s.st, now := op.t, rd := s.rd.set op.c op.t } := by
  simp [stepB, hn]

/-- wait computed by `reserveN` for the token level `tok` -/
def waitOf (l : Limiter) (tok : Int) : Nat := if tok < 0 then (-tok).toNat / l.rate else 0

theorem stepB_pos (l : Limiter) (s : RunSt) (op : BOp) (hn : op.n ≠ 0) (hb : op.n ≤ l.burst) :
    stepB l s op =
      { st := { tokens := advance l s.st op.t - ((op.n * nsPerSec : Nat) : Int), last := op.t },
        now := op.t,
        rd := s.rd.set op.c (op.t + waitOf l (advance l s.st op.t - ((op.n * nsPerSec : Nat) : Int))) } := by
  have hb' : ¬ l.burst < op.n := by omega
  simp [stepB, hn, waitN, reserveN, hb', waitOf]

theorem waitOf_spec (l : Limiter) (tok : Int) (hR : 0 < l.rate) :
    -tok < (l.rate : Int) * ((waitOf l tok : Nat) + 1) := by
  unfold waitOf
  split
  · rename_i h
    have h1 := Nat.lt_mul_div_succ (-tok).toNat hR
    have h2 : ((-tok).toNat : Int) = -tok := Int.toNat_of_nonneg (by omega)
    have h3 : (((-tok).toNat : Nat) : Int) < ((l.rate * ((-tok).toNat / l.rate + 1) : Nat) : Int) := by
      exact_mod_cast h1
    rw [h2] at h3
    simpa using h3
  · rename_i h
    have : (0:Int) < (l.rate : Int) := by exact_mod_cast hR
    simp
    omega



structure Inv (l : Limiter) (w : Nat) (s : RunSt) : Prop where
  tok_le : s.st.tokens ≤ l.cap
  last_le : s.st.last ≤ s.now
  debt : ∀ τ : Nat, s.now ≤ τ →
    -s.st.tokens - (l.rate : Int) * ((τ : Int) - (s.st.last : Int)) ≤
      (l.rate : Int) + ((slack (w * nsPerSec) s.rd τ : Nat) : Int)

theorem inv_init (l : Limiter) (w k : Nat) : Inv l w (initRun l k) := by
  refine ⟨by simp [initRun, Limiter.init], by simp [initRun, Limiter.init], ?_⟩
  intro τ _
  have h1 := cap_nonneg l
  have h2 : (0:Int) ≤ (l.rate : Int) * ((τ : Int) - ((0:Nat) : Int)) :=
    Int.mul_nonneg (by omega) (by omega)
  simp only [initRun, Limiter.init]
  omega

theorem initRun_len (l : Limiter) (k : Nat) : (initRun l k).rd.length = k := by simp [initRun]

theorem stepB_len (l : Limiter) (s : RunSt) (op : BOp) : (stepB l s op).rd.length = s.rd.length := by
  unfold stepB; split <;> simp

theorem stepB_now (l : Limiter) (s : RunSt) (op : BOp) : (stepB l s op).now = op.t := by
  unfold stepB; split <;> simp

theorem inv_step (l : Limiter) (w : Nat) (s : RunSt) (op : BOp) (hR : 0 < l.rate) (hw : w ≤ l.burst)
    (hi : Inv l w s) (hnow : s.now ≤ op.t) (hc : op.c < s.rd.length) (hrd : s.rd.getD op.c 0 ≤ op.t)
    (hn : op.n ≤ w) : Inv l w (stepB l s op) := by
  by_cases hz : op.n = 0
  · rw [stepB_zero l s op hz]
    refine ⟨hi.tok_le, by have := hi.last_le; simp; omega, ?_⟩
    intro τ hτ
    simp only at hτ ⊢
    have hd := hi.debt τ (by omega)
    rw [slack_set _ _ _ _ _ hc (by omega)]
    have : ¬ τ < op.t := by omega
    simp only [this, if_false, Nat.add_zero]
    exact hd
  · rw [stepB_pos l s op hz (by omega)]
    have hl := hi.last_le
    obtain ⟨ha1, ha2, ha3⟩ := advance_of_le l s.st op.t (by omega)
    refine ⟨?_, by simp, ?_⟩
    · simp only; omega
    · intro τ hτ
      simp only at hτ ⊢
      rw [slack_set _ _ _ _ _ hc (by omega)]
      generalize hadv : advance l s.st op.t = adv at *
      generalize hN : ((op.n * nsPerSec : Nat) : Int) = N
      have hNW : N ≤ ((w * nsPerSec : Nat) : Int) := by
        rw [← hN]; exact_mod_cast Nat.mul_le_mul_right _ hn
      have hN0 : 0 ≤ N := by rw [← hN]; omega
      have hws := waitOf_spec l (adv - N) hR
      have hd := hi.debt τ (by omega)
      have hC := cap_nonneg l
      have hRτ : (0:Int) ≤ (l.rate : Int) * ((τ : Int) - (op.t : Int)) :=
        Int.mul_nonneg (by omega) (by omega)
      split
      · -- the call has not returned by τ: it is counted in the slack
        rename_i hlt
        push_cast
        rcases ha2 with h | h
        · omega
        · have e : (l.rate : Int) * ((τ : Int) - (s.st.last : Int)) =
              ((op.t : Int) - (s.st.last : Int)) * (l.rate : Int) + (l.rate : Int) * ((τ : Int) - (op.t : Int)) := by
            grind
          omega
      · -- the call has returned by τ
        rename_i hge
        have hge' : (op.t : Int) + (waitOf l (adv - N) : Nat) ≤ τ := by omega
        have hm : (l.rate : Int) * (((waitOf l (adv - N) : Nat) : Int) + 1) ≤
            (l.rate : Int) * (((τ : Int) - (op.t : Int)) + 1) :=
          Int.mul_le_mul_of_nonneg_left (by omega) (by omega)
        have e : (l.rate : Int) * (((τ : Int) - (op.t : Int)) + 1) =
            (l.rate : Int) * ((τ : Int) - (op.t : Int)) + (l.rate : Int) := by grind
        omega



/-- potential: bytes counted so far (`acc`, in token-ns) against the bucket level -/
def Phi (l : Limiter) (s : RunSt) (t0 t1 : Nat) (acc : Nat) : Prop :=
  acc = 0 ∨ (t0 ≤ s.st.last ∧ s.now ≤ t1 ∧
    (acc : Int) + s.st.tokens ≤ l.cap + (l.rate : Int) * ((s.st.last : Int) - (t0 : Int)))

theorem final_bound (l : Limiter) (w : Nat) (s : RunSt) (t0 t1 acc : Nat) (h01 : t0 ≤ t1)
    (hi : Inv l w s) (hp : Phi l s t0 t1 acc) :
    (acc : Int) ≤ l.cap + ((w * nsPerSec * s.rd.length : Nat) : Int) +
      (l.rate : Int) * ((t1 : Int) - (t0 : Int) + 1) := by
  have hC := cap_nonneg l
  have h0 : (0:Int) ≤ (l.rate : Int) * ((t1 : Int) - (t0 : Int) + 1) :=
    Int.mul_nonneg (by omega) (by omega)
  rcases hp with h | ⟨h1, h2, h3⟩
  · subst h; omega
  · have hd := hi.debt s.now (Nat.le_refl _)
    have hs := slack_le (w * nsPerSec) s.rd s.now
    have hs' : ((slack (w * nsPerSec) s.rd s.now : Nat) : Int) ≤ ((w * nsPerSec * s.rd.length : Nat) : Int) := by
      exact_mod_cast hs
    have hl := hi.last_le
    have hm : (l.rate : Int) * ((s.now : Int) - (t0 : Int) + 1) ≤ (l.rate : Int) * ((t1 : Int) - (t0 : Int) + 1) :=
      Int.mul_le_mul_of_nonneg_left (by omega) (by omega)
    have e : (l.rate : Int) * ((s.now : Int) - (t0 : Int) + 1) =
        (l.rate : Int) * ((s.st.last : Int) - (t0 : Int)) + (l.rate : Int) * ((s.now : Int) - (s.st.last : Int)) + (l.rate : Int) := by
      grind
    omega

theorem phi_step (l : Limiter) (w : Nat) (s : RunSt) (op : BOp) (t0 t1 acc : Nat) (hw : w ≤ l.burst)
    (hi : Inv l w s) (hnow : s.now ≤ op.t) (hn : op.n ≤ w) (ht1 : op.t ≤ t1) (hp : Phi l s t0 t1 acc) :
    Phi l (stepB l s op) t0 t1 (acc + (if t0 ≤ op.t then op.n * nsPerSec else 0)) := by
  have hl := hi.last_le
  by_cases hz : op.n = 0
  · rw [stepB_zero l s op hz]
    have : (acc + (if t0 ≤ op.t then op.n * nsPerSec else 0)) = acc := by simp [hz]
    rw [this]
    rcases hp with h | ⟨h1, h2, h3⟩
    · exact Or.inl h
    · exact Or.inr ⟨h1, ht1, h3⟩
  · rw [stepB_pos l s op hz (by omega)]
    obtain ⟨ha1, ha2, ha3⟩ := advance_of_le l s.st op.t (by omega)
    by_cases h0 : t0 ≤ op.t
    · simp only [h0, if_true]
      refine Or.inr ⟨h0, ht1, ?_⟩
      simp only
      generalize advance l s.st op.t = adv at *
      have h0' : (0:Int) ≤ (l.rate : Int) * ((op.t : Int) - (t0 : Int)) :=
        Int.mul_nonneg (by omega) (by omega)
      push_cast
      rcases hp with h | ⟨h1, h2, h3⟩
      · subst h; omega
      · have e : (l.rate : Int) * ((op.t : Int) - (t0 : Int)) =
            (l.rate : Int) * ((s.st.last : Int) - (t0 : Int)) + ((op.t : Int) - (s.st.last : Int)) * (l.rate : Int) := by
          grind
        omega
    · simp only [h0, if_false, Nat.add_zero]
      rcases hp with h | ⟨h1, h2, h3⟩
      · exact Or.inl h
      · omega

theorem bytesIn_after (l : Limiter) (w : Nat) (t0 t1 : Nat) :
    ∀ (ops : List BOp) (s : RunSt), validB l w s ops = true → t1 < s.now → bytesIn ops t0 t1 = 0 := by
  intro ops
  induction ops with
  | nil => intros; rfl
  | cons op rest ih =>
    intro s hv hlt
    simp only [validB, Bool.and_eq_true, decide_eq_true_eq] at hv
    obtain ⟨⟨⟨⟨h1, _⟩, _⟩, _⟩, h5⟩ := hv
    have := ih (stepB l s op) h5 (by rw [stepB_now]; omega)
    have hn : ¬ (t0 ≤ op.t ∧ op.t ≤ t1) := by omega
    simp only [bytesIn, hn, if_false, this]

theorem bound_gen (l : Limiter) (w : Nat) (t0 t1 : Nat) (hR : 0 < l.rate) (hw : w ≤ l.burst) (h01 : t0 ≤ t1) :
    ∀ (ops : List BOp) (s : RunSt) (acc : Nat), Inv l w s → validB l w s ops = true → Phi l s t0 t1 acc →
      ((acc + bytesIn ops t0 t1 * nsPerSec : Nat) : Int) ≤
        l.cap + ((w * nsPerSec * s.rd.length : Nat) : Int) + (l.rate : Int) * ((t1 : Int) - (t0 : Int) + 1) := by
  intro ops
  induction ops with
  | nil =>
    intro s acc hi _ hp
    simpa [bytesIn] using final_bound l w s t0 t1 acc h01 hi hp
  | cons op rest ih =>
    intro s acc hi hv hp
    have hv0 := hv
    simp only [validB, Bool.and_eq_true, decide_eq_true_eq] at hv
    obtain ⟨⟨⟨⟨hnow, hc⟩, hrd⟩, hn⟩, hv'⟩ := hv
    by_cases ht1 : op.t ≤ t1
    · have hi' := inv_step l w s op hR hw hi hnow hc hrd hn
      have hp' := phi_step l w s op t0 t1 acc hw hi hnow hn ht1 hp
      have := ih (stepB l s op) _ hi' hv' hp'
      rw [stepB_len] at this
      have e : acc + bytesIn (op :: rest) t0 t1 * nsPerSec =
          acc + (if t0 ≤ op.t then op.n * nsPerSec else 0) + bytesIn rest t0 t1 * nsPerSec := by
        simp only [bytesIn, ht1, and_true]
        split <;> simp [Nat.add_mul, Nat.add_assoc]
      rw [e]; exact this
    · have hz : bytesIn (op :: rest) t0 t1 = 0 := by
        have hr := bytesIn_after l w t0 t1 rest (stepB l s op) hv' (by rw [stepB_now]; omega)
        have hn' : ¬ (t0 ≤ op.t ∧ op.t ≤ t1) := by omega
        simp only [bytesIn, hn', if_false, hr]
      rw [hz]
      simpa using final_bound l w s t0 t1 acc h01 hi hp



/-- the bound in natural numbers, from any state satisfying the invariant -/
theorem bound_nat (l : Limiter) (w : Nat) (t0 t1 : Nat) (hR : 0 < l.rate) (hw : w ≤ l.burst) (h01 : t0 ≤ t1)
    (ops : List BOp) (s : RunSt) (hi : Inv l w s) (hv : validB l w s ops = true) :
    bytesIn ops t0 t1 * nsPerSec ≤ (l.burst + s.rd.length * w) * nsPerSec + l.rate * (t1 - t0 + 1) := by
  have h := bound_gen l w t0 t1 hR hw h01 ops s 0 hi hv (Or.inl rfl)
  have e : (l.rate : Int) * ((t1 : Int) - (t0 : Int) + 1) = ((l.rate * (t1 - t0 + 1) : Nat) : Int) := by
    have : ((t1 - t0 + 1 : Nat) : Int) = (t1 : Int) - (t0 : Int) + 1 := by omega
    rw [Int.natCast_mul, this]
  rw [e] at h
  simp only [Limiter.cap, Nat.zero_add] at h
  have h' : bytesIn ops t0 t1 * nsPerSec ≤ l.burst * nsPerSec + w * nsPerSec * s.rd.length + l.rate * (t1 - t0 + 1) := by
    exact_mod_cast h
  have e2 : (l.burst + s.rd.length * w) * nsPerSec = l.burst * nsPerSec + w * nsPerSec * s.rd.length := by
    rw [Nat.add_mul, Nat.mul_comm s.rd.length w, Nat.mul_assoc, Nat.mul_assoc, Nat.mul_comm s.rd.length nsPerSec]
  omega

theorem step_other (L : Listener) (s : Sys) (op : Op) (d : Dir) (h : op.dir ≠ d) :
    (step L s op).1.get d = s.get d := by
  unfold step
  split
  · rfl
  · split
    · rfl
    · cases hd : op.dir <;> cases d <;> simp_all [Sys.get, Sys.set]

theorem step_same (L : Listener) (s : Sys) (op : Op) (l : Limiter) (now : Nat) (rd : List Nat)
    (h : L.limiter op.dir = some l) :
    (step L s op).1.get op.dir =
      (stepB l { st := s.get op.dir, now := now, rd := rd } { t := op.time, c := op.conn, n := op.n }).st := by
  unfold step stepB
  rw [h]
  simp only
  split
  · rfl
  · cases op.dir <;> simp [Sys.get, Sys.set]

theorem run_get (L : Listener) (d : Dir) (l : Limiter) (h : L.limiter d = some l) :
    ∀ (ops : List Op) (s : Sys) (now : Nat) (rd : List Nat),
      (run L s ops).1.get d = (runB l { st := s.get d, now := now, rd := rd } (proj d ops)).st := by
  intro ops
  induction ops with
  | nil => intros; rfl
  | cons op rest ih =>
    intro s now rd
    simp only [run, proj]
    by_cases hd : op.dir = d
    · simp only [hd, if_true, runB]
      subst hd
      have e := step_same L s op l now rd h
      rw [ih (step L s op).1
        (stepB l { st := s.get op.dir, now := now, rd := rd } { t := op.time, c := op.conn, n := op.n }).now
        (stepB l { st := s.get op.dir, now := now, rd := rd } { t := op.time, c := op.conn, n := op.n }).rd]
      rw [e]
    · simp only [hd, if_false]
      rw [ih (step L s op).1 now rd, step_other L s op d hd]



/-! ### out-of-order time stamps: the run is that of a time-ordered schedule on a shifted clock -/

/-- the schedule on the virtual clock `t + (backward steps so far)`; calls that do not reach the
    limiter (`n = 0`) are dropped -/
def virt (l : Limiter) : Nat → RunSt → List BOp → List BOp
  | _, _, [] => []
  | j, s, op :: rest =>
    if op.n = 0 then virt l j (stepB l s op) rest
    else { t := op.t + (j + (s.st.last - op.t)), c := op.c, n := op.n } ::
      virt l (j + (s.st.last - op.t)) (stepB l s op) rest

structure Rel (j : Nat) (s v : RunSt) : Prop where
  tok : v.st.tokens = s.st.tokens
  last : v.st.last = s.st.last + j
  now : v.now = v.st.last
  len : v.rd.length = s.rd.length
  rd : ∀ c, c < s.rd.length → v.rd.getD c 0 ≤ s.rd.getD c 0 + j

theorem advance_shift (l : Limiter) (tok : Int) (last t j : Nat) :
    advance l ⟨tok, last + j⟩ (t + (j + (last - t))) = advance l ⟨tok, last⟩ t := by
  unfold advance
  simp only
  have h1 : ¬ (t + (j + (last - t)) < last + j) := by omega
  simp only [h1, if_false]
  by_cases h : t < last
  · simp only [h, if_true]
    have e1 : t + (j + (last - t)) - (last + j) = 0 := by omega
    have e2 : t - t = 0 := by omega
    rw [e1, e2]
  · simp only [h, if_false]
    have e1 : t + (j + (last - t)) - (last + j) = t - last := by omega
    rw [e1]

theorem getD_set (rd : List Nat) (c c' v : Nat) (hc : c < rd.length) :
    (rd.set c v).getD c' 0 = if c' = c then v else rd.getD c' 0 := by
  simp only [List.getD_eq_getElem?_getD, List.getElem?_set]
  by_cases h : c = c'
  · subst h; simp [hc]
  · have : ¬ c' = c := fun e => h e.symm
    simp [h, this]

theorem rel_step (l : Limiter) (w j : Nat) (s v : RunSt) (op : BOp) (hw : w ≤ l.burst)
    (hr : Rel j s v) (hc : op.c < s.rd.length) (hn : op.n ≤ w)
    (hz : op.n ≠ 0) :
    Rel (j + (s.st.last - op.t)) (stepB l s op)
      (stepB l v { t := op.t + (j + (s.st.last - op.t)), c := op.c, n := op.n }) := by
  have hb : op.n ≤ l.burst := by omega
  rw [stepB_pos l s op hz hb,
    stepB_pos l v { t := op.t + (j + (s.st.last - op.t)), c := op.c, n := op.n } hz hb]
  simp only
  have hv : v.st = ⟨s.st.tokens, s.st.last + j⟩ := by
    cases hvs : v.st with
    | mk a b => have h1 := hr.tok; have h2 := hr.last; rw [hvs] at h1 h2; simp at h1 h2; subst h1; subst h2; rfl
  have ha : advance l v.st (op.t + (j + (s.st.last - op.t))) = advance l s.st op.t := by
    rw [hv, advance_shift]
  rw [ha]
  refine ⟨rfl, rfl, rfl, by simp [hr.len], ?_⟩
  intro c' hc'
  simp only [List.length_set] at hc'
  have hcv : op.c < v.rd.length := by rw [hr.len]; exact hc
  rw [getD_set _ _ _ _ hcv, getD_set _ _ _ _ hc]
  by_cases h : c' = op.c
  · simp only [h, if_true]; omega
  · simp only [h, if_false]
    have := hr.rd c' hc'
    omega

theorem rel_step_zero (l : Limiter) (j : Nat) (s v : RunSt) (op : BOp)
    (hr : Rel j s v) (hc : op.c < s.rd.length) (hrd : s.rd.getD op.c 0 ≤ op.t) (hz : op.n = 0) :
    Rel j (stepB l s op) v := by
  rw [stepB_zero l s op hz]
  refine ⟨hr.tok, hr.last, hr.now, by simp [hr.len], ?_⟩
  intro c' hc'
  simp only [List.length_set] at hc'
  simp only
  rw [getD_set _ _ _ _ hc]
  have := hr.rd c' hc'
  by_cases h : c' = op.c
  · subst h; simp only [if_true]; omega
  · simp only [h, if_false]; exact this

theorem virt_valid (l : Limiter) (w : Nat) (hw : w ≤ l.burst) :
    ∀ (ops : List BOp) (j : Nat) (s v : RunSt), Rel j s v → validJ l w s ops = true →
      validB l w v (virt l j s ops) = true := by
  intro ops
  induction ops with
  | nil => intros; rfl
  | cons op rest ih =>
    intro j s v hr hv
    simp only [validJ, Bool.and_eq_true, decide_eq_true_eq] at hv
    obtain ⟨⟨⟨hc, hrd⟩, hn⟩, hv'⟩ := hv
    by_cases hz : op.n = 0
    · simp only [virt, hz, if_true]
      exact ih j _ v (rel_step_zero l j s v op hr hc hrd hz) hv'
    · simp only [virt, hz, if_false, validB, Bool.and_eq_true, decide_eq_true_eq]
      have h1 := hr.now; have h2 := hr.last; have h3 := hr.rd op.c hc; have h4 := hr.len
      refine ⟨⟨⟨⟨by omega, by omega⟩, by omega⟩, hn⟩, ?_⟩
      exact ih _ _ _ (rel_step l w j s v op hw hr hc hn hz) hv'

theorem virt_bytes (l : Limiter) (t0 t1 JT : Nat) :
    ∀ (ops : List BOp) (j : Nat) (s : RunSt), j + jitter l s ops ≤ JT →
      (∀ op ∈ ops, op.n ≤ l.burst) →
      bytesIn ops t0 t1 ≤ bytesIn (virt l j s ops) t0 (t1 + JT) := by
  intro ops
  induction ops with
  | nil => intros; exact Nat.le_refl _
  | cons op rest ih =>
    intro j s hj hb
    have hb' : ∀ o ∈ rest, o.n ≤ l.burst := fun o ho => hb o (List.mem_cons_of_mem _ ho)
    have hbo : ¬ l.burst < op.n := by have := hb op List.mem_cons_self; omega
    simp only [jitter, backStep] at hj
    by_cases hz : op.n = 0
    · simp only [hz, true_or, if_true, Nat.zero_add] at hj
      simp only [virt, hz, if_true, bytesIn]
      have := ih j (stepB l s op) hj hb'
      split <;> omega
    · simp only [hz, hbo, or_self, if_false] at hj
      simp only [virt, hz, if_false, bytesIn]
      have := ih (j + (s.st.last - op.t)) (stepB l s op) (by omega) hb'
      split
      · rename_i h
        have : t0 ≤ op.t + (j + (s.st.last - op.t)) ∧ op.t + (j + (s.st.last - op.t)) ≤ t1 + JT := by omega
        simp only [this, and_self, if_true]
        omega
      · split <;> omega

theorem validJ_le (l : Limiter) (w : Nat) :
    ∀ (ops : List BOp) (s : RunSt), validJ l w s ops = true → ∀ op ∈ ops, op.n ≤ w := by
  intro ops
  induction ops with
  | nil => intro _ _ op h; cases h
  | cons o rest ih =>
    intro s hv op hm
    simp only [validJ, Bool.and_eq_true, decide_eq_true_eq] at hv
    rcases List.mem_cons.mp hm with h | h
    · subst h; exact hv.1.2
    · exact ih _ hv.2 op h

/-- the bound with the jitter term -/
theorem bound_jitter (l : Limiter) (w k : Nat) (t0 t1 : Nat) (hR : 0 < l.rate) (hw : w ≤ l.burst) (h01 : t0 ≤ t1)
    (ops : List BOp) (hv : validJ l w (initRun l k) ops = true) :
    bytesIn ops t0 t1 * nsPerSec ≤
      (l.burst + k * w) * nsPerSec + l.rate * (t1 - t0 + 1 + jitter l (initRun l k) ops) := by
  have hrel : Rel 0 (initRun l k) (initRun l k) := ⟨rfl, rfl, rfl, rfl, fun _ _ => Nat.le_refl _⟩
  have hvb := virt_valid l w hw ops 0 _ _ hrel hv
  have hle := validJ_le l w ops _ hv
  have hb := virt_bytes l t0 t1 (jitter l (initRun l k) ops) ops 0 (initRun l k) (by omega)
    (fun op ho => Nat.le_trans (hle op ho) hw)
  have hbound := bound_nat l w t0 (t1 + jitter l (initRun l k) ops) hR hw (by omega) _ (initRun l k) (inv_init l w k) hvb
  rw [initRun_len] at hbound
  have e : t1 + jitter l (initRun l k) ops - t0 + 1 = t1 - t0 + 1 + jitter l (initRun l k) ops := by omega
  rw [e] at hbound
  exact Nat.le_trans (Nat.mul_le_mul_right _ hb) hbound

theorem stepB_last_le (l : Limiter) (s : RunSt) (op : BOp) (h : s.st.last ≤ s.now) (hnow : s.now ≤ op.t) :
    (stepB l s op).st.last ≤ (stepB l s op).now := by
  by_cases hz : op.n = 0
  · rw [stepB_zero l s op hz]; simp only; omega
  · by_cases hb : op.n ≤ l.burst
    · rw [stepB_pos l s op hz hb]; exact Nat.le_refl _
    · have hb' : l.burst < op.n := by omega
      simp only [stepB, hz, if_false, waitN, reserveN, hb', if_true]
      omega

/-- a time-ordered schedule is a valid schedule without jitter -/
theorem ordered_no_jitter (l : Limiter) (w : Nat) :
    ∀ (ops : List BOp) (s : RunSt), s.st.last ≤ s.now → validB l w s ops = true →
      validJ l w s ops = true ∧ jitter l s ops = 0 := by
  intro ops
  induction ops with
  | nil => intros; exact ⟨rfl, rfl⟩
  | cons op rest ih =>
    intro s hl hv
    simp only [validB, Bool.and_eq_true, decide_eq_true_eq] at hv
    obtain ⟨⟨⟨⟨hnow, hc⟩, hrd⟩, hn⟩, hv'⟩ := hv
    have := ih (stepB l s op) (stepB_last_le l s op hl hnow) hv'
    simp only [validJ, Bool.and_eq_true, decide_eq_true_eq, jitter, backStep]
    refine ⟨⟨⟨⟨hc, hrd⟩, hn⟩, this.1⟩, ?_⟩
    rw [this.2]
    split <;> omega

/-! ### deadline-honouring waits: a schedule in which every call did wait is an ordinary schedule -/

/-- without a deadline, or when the wait fits into the time left, the deadline-honouring wait is the
    plain one -/
theorem waitNWithin_eq (l : Limiter) (s : LState) (t n : Nat) (left : Option Nat)
    (h : ∀ w d, (reserveN l s t n).2 = some w → left = some d → w ≤ d) :
    waitNWithin l s t n left = waitN l s t n := by
  unfold waitNWithin waitN
  generalize reserveN l s t n = r at h ⊢
  obtain ⟨s', ow⟩ := r
  cases ow with
  | none => cases left <;> rfl
  | some w =>
    cases left with
    | none => rfl
    | some d =>
      have := h w d rfl rfl
      have hn : ¬ d < w := by omega
      simp only [hn, if_false]

theorem stepD_eq (l : Limiter) (s : RunSt) (op : DOp)
    (h : op.n = 0 ∨ ∀ w d, (reserveN l s.st op.t op.n).2 = some w → op.left = some d → w ≤ d) :
    stepD l s op = stepB l s op.toB := by
  unfold stepD stepB DOp.toB
  by_cases hz : op.n = 0
  · simp only [hz, if_true]
  · rcases h with h | h
    · exact absurd h hz
    · simp only [hz, if_false, waitNWithin_eq l s.st op.t op.n op.left h]

/-- a valid schedule of deadline-honouring waits in which every call did wait is a valid schedule of
    plain waits -/
theorem validD_waited (l : Limiter) (w : Nat) :
    ∀ (ops : List DOp) (s : RunSt), allWaitedD l s ops = true → validD l w s ops = true →
      validB l w s (ops.map DOp.toB) = true := by
  intro ops
  induction ops with
  | nil => intros; rfl
  | cons op rest ih =>
    intro s ha hv
    simp only [allWaitedD, Bool.and_eq_true] at ha
    obtain ⟨hh, ha'⟩ := ha
    simp only [validD, Bool.and_eq_true, decide_eq_true_eq] at hv
    obtain ⟨⟨⟨⟨hnow, hc⟩, hrd⟩, hn⟩, hv'⟩ := hv
    have he : stepD l s op = stepB l s op.toB := by
      apply stepD_eq
      by_cases hz : op.n = 0
      · exact Or.inl hz
      · right
        intro w' d hw hd
        rw [hw, hd] at hh
        simp only [Bool.or_eq_true, decide_eq_true_eq] at hh
        rcases hh with hh | hh
        · exact hh
        · exact absurd hh hz
    rw [he] at ha' hv'
    simp only [List.map_cons, validB, Bool.and_eq_true, decide_eq_true_eq]
    exact ⟨⟨⟨⟨hnow, hc⟩, hrd⟩, hn⟩, ih _ ha' hv'⟩

/-! ### the wait context: a wait on a context that is not done is the plain wait -/

theorem stepC_live (l : Limiter) (s : RunSt) (op : BOp) : stepC l s op false = stepB l s op := by
  unfold stepC stepB waitNCtx
  simp only [Bool.false_eq_true, if_false]

theorem stepC_zero (l : Limiter) (s : RunSt) (op : BOp) (done : Bool) (hz : op.n = 0) :
    stepC l s op done = stepB l s op := by
  unfold stepC stepB
  simp only [hz, if_true]

/-- a history none of whose calls found its context done runs like its calls alone -/
theorem runH_live (cx : WaitCtx) (l : Limiter) :
    ∀ (h : List HEv) (s : HSt), liveAtCalls cx s.life h = true →
      (runH cx l s h).run = runB l s.run (callsOf h) := by
  intro h
  induction h with
  | nil => intros; rfl
  | cons e rest ih =>
    intro s hl
    cases e with
    | call op =>
      simp only [liveAtCalls, Bool.and_eq_true, Bool.or_eq_true, Bool.not_eq_true', decide_eq_true_eq] at hl
      obtain ⟨h1, h2⟩ := hl
      have he : stepC l s.run op (cx.done s.life) = stepB l s.run op := by
        rcases h1 with h1 | h1
        · rw [h1]; exact stepC_live l s.run op
        · exact stepC_zero l s.run op _ h1
      simp only [runH, callsOf, runB, stepH]
      rw [ih { run := stepC l s.run op (cx.done s.life), life := s.life } h2, he]
    | listenerClose => simp only [liveAtCalls] at hl; exact ih (stepH cx l s .listenerClose) hl
    | listenerOpen => simp only [liveAtCalls] at hl; exact ih (stepH cx l s .listenerOpen) hl
    | runCancel => simp only [liveAtCalls] at hl; exact ih (stepH cx l s .runCancel) hl

theorem validH_live (cx : WaitCtx) (l : Limiter) (w : Nat) :
    ∀ (h : List HEv) (s : HSt), liveAtCalls cx s.life h = true → validH cx l w s h = true →
      validB l w s.run (callsOf h) = true := by
  intro h
  induction h with
  | nil => intros; rfl
  | cons e rest ih =>
    intro s hl hv
    cases e with
    | call op =>
      simp only [liveAtCalls, Bool.and_eq_true, Bool.or_eq_true, Bool.not_eq_true', decide_eq_true_eq] at hl
      obtain ⟨h1, h2⟩ := hl
      have he : stepC l s.run op (cx.done s.life) = stepB l s.run op := by
        rcases h1 with h1 | h1
        · rw [h1]; exact stepC_live l s.run op
        · exact stepC_zero l s.run op _ h1
      simp only [validH, Bool.and_eq_true, decide_eq_true_eq, stepH] at hv
      obtain ⟨hh, hv'⟩ := hv
      simp only [callsOf, validB, Bool.and_eq_true, decide_eq_true_eq]
      refine ⟨hh, ?_⟩
      have := ih { run := stepC l s.run op (cx.done s.life), life := s.life } h2 hv'
      simp only [he] at this
      exact this
    | listenerClose => simp only [liveAtCalls] at hl; simp only [validH] at hv; exact ih (stepH cx l s .listenerClose) hl hv
    | listenerOpen => simp only [liveAtCalls] at hl; simp only [validH] at hv; exact ih (stepH cx l s .listenerOpen) hl hv
    | runCancel => simp only [liveAtCalls] at hl; simp only [validH] at hv; exact ih (stepH cx l s .runCancel) hl hv

/-- the code's wait context is never done -/
theorem live_conn : ∀ (h : List HEv) (lf : Life), liveAtCalls connWaitCtx lf h = true := by
  unfold connWaitCtx
  intro h
  induction h with
  | nil => intros; rfl
  | cons e rest ih =>
    intro lf
    cases e <;> simp [liveAtCalls, WaitCtx.done, ih]

/-! ### the schedule layer: one direction's return times are those of that direction alone -/

theorem sys_get_set (s : Sys) (d : Dir) (v : LState) : (s.set d v).get d = v := by
  cases d <;> rfl

/-- a call seen from its own direction -/
theorem step_solo (L : Listener) (s : Sys) (op : Op) :
    ((step L s op).1.get op.dir, (step L s op).2) = soloStep (L.limiter op.dir) (s.get op.dir) op.time op.n := by
  unfold step soloStep
  split
  · rfl
  · split
    · rfl
    · simp only [sys_get_set]

theorem stepQ_wait_same (L : Listener) (s : Duplex) (op : QOp) :
    (stepQ L s op).1.wait op.dir = upd (s.wait op.dir) op.conn (stepQ L s op).2 := by
  unfold stepQ
  cases hd : op.dir <;> simp only [Duplex.wait]

theorem stepQ_wait_other (L : Listener) (s : Duplex) (op : QOp) (d : Dir) (h : op.dir ≠ d) :
    (stepQ L s op).1.wait d = s.wait d := by
  unfold stepQ
  cases hd : op.dir <;> cases d <;> simp_all [Duplex.wait]

theorem stepQ_sys (L : Listener) (s : Duplex) (op : QOp) :
    (stepQ L s op).1.sys =
      (step L s.sys { time := s.wait op.dir op.conn + op.io, conn := op.conn, dir := op.dir, n := op.n }).1 := by
  unfold stepQ
  cases op.dir <;> rfl

theorem stepQ_ret (L : Listener) (s : Duplex) (op : QOp) :
    (stepQ L s op).2 =
      (step L s.sys { time := s.wait op.dir op.conn + op.io, conn := op.conn, dir := op.dir, n := op.n }).2 := by
  unfold stepQ
  cases op.dir <;> rfl

theorem retsQ_solo (L : Listener) (d : Dir) :
    ∀ (ops : List QOp) (s : Duplex),
      retsQ L d s ops = soloQ (L.limiter d) (s.sys.get d) (s.wait d) (projQ d ops) := by
  intro ops
  induction ops with
  | nil => intros; rfl
  | cons op rest ih =>
    intro s
    simp only [retsQ, projQ]
    by_cases hd : op.dir = d
    · simp only [hd, if_true, soloQ]
      have e := step_solo L s.sys { time := s.wait op.dir op.conn + op.io, conn := op.conn, dir := op.dir, n := op.n }
      simp only at e
      have e1 := congrArg Prod.fst e
      have e2 := congrArg Prod.snd e
      simp only at e1 e2
      rw [← stepQ_sys] at e1
      rw [← stepQ_ret] at e2
      rw [ih (stepQ L s op).1]
      have hw := stepQ_wait_same L s op
      subst hd
      rw [hw, e1, e2]
    · simp only [hd, if_false]
      rw [ih (stepQ L s op).1, stepQ_wait_other L s op d hd, stepQ_sys]
      rw [step_other L s.sys _ d hd]

/-! ### reservations stamped at or after the limiter's last event -/

theorem monotone_no_jitter (l : Limiter) :
    ∀ (ops : List BOp) (s : RunSt), stampsMonotone l s ops = true → jitter l s ops = 0 := by
  intro ops
  induction ops with
  | nil => intros; rfl
  | cons op rest ih =>
    intro s h
    simp only [stampsMonotone, Bool.and_eq_true, Bool.or_eq_true, decide_eq_true_eq] at h
    simp only [jitter, backStep, ih _ h.2]
    split <;> omega

theorem ordered_monotone (l : Limiter) (w : Nat) :
    ∀ (ops : List BOp) (s : RunSt), s.st.last ≤ s.now → validB l w s ops = true →
      stampsMonotone l s ops = true := by
  intro ops
  induction ops with
  | nil => intros; rfl
  | cons op rest ih =>
    intro s hl hv
    simp only [validB, Bool.and_eq_true, decide_eq_true_eq] at hv
    obtain ⟨⟨⟨⟨hnow, hc⟩, hrd⟩, hn⟩, hv'⟩ := hv
    have := ih (stepB l s op) (stepB_last_le l s op hl hnow) hv'
    simp only [stampsMonotone, Bool.and_eq_true, Bool.or_eq_true, decide_eq_true_eq]
    exact ⟨Or.inr (by omega), this⟩

theorem bytesDone_eq (ops : List SOp) (t0 t1 : Nat) :
    bytesDone ops t0 t1 = bytesIn (ops.map (SOp.res false)) t0 t1 := by
  induction ops with
  | nil => rfl
  | cons op rest ih => simp [bytesDone, bytesIn, SOp.res, ih]

end C20
end FwdVerif
