/-
  C11 — helper lemmas (part 8): the host layer (`Model/C11Group.lean`).  What a step of the proxy does to the ghost
  `api`, to `runner = finished` and to "some context is cancelled"; the invariant of the hosted system.
-/
import FwdVerif.Model.C11Group
import FwdVerif.Lemmas.C11Late

namespace FwdVerif
namespace C11

/-- only the API calls set `api` -/
theorem step_api {s s' : State} (a : Action) (h : step s a = some s') (ho : hostOwned a = false) : s'.api = s.api := by
  by_cases he : a.isEnv = true
  · exact congrArg Ctl.api (step_env_ctl a h he)
  · cases a <;> first | (exact absurd rfl he) | (simp [hostOwned] at ho; done) | skip
    all_goals
      simp only [step] at h <;> (repeat' split at h) <;>
      first
        | (simp at h; done)
        | (simp only [Option.some.injEq] at h; subst h
           first | rfl | (simp only [closeListener]; done) | (split <;> rfl))

/-- `run` has returned: nothing takes that back -/
theorem step_runner_finished {s s' : State} (a : Action) (h : step s a = some s') (hf : s.runner = .finished) :
    s'.runner = .finished := by
  by_cases he : a.isEnv = true
  · rw [show s'.runner = (ctl s').runner from rfl, step_env_ctl a h he]; exact hf
  · cases a <;> first | (exact absurd rfl he) | skip
    all_goals
      simp only [step] at h <;> (repeat' split at h) <;>
      first
        | (simp at h; done)
        | (simp_all; done)
        | (simp only [Option.some.injEq] at h; subst h
           first | exact hf | (simp only [closeListener]; exact hf) | (split <;> exact hf))

/-- the context of a call becomes cancelled by two kinds of step only: the delivery of a signal to its relay, and its
    caller's `cancel()` -/
theorem step_done_cancel {s s' : State} (k : CallId) (a : Action) (h : step s a = some s')
    (h0 : (s.shuts k).done ≠ some .cancel) (h1 : (s'.shuts k).done = some .cancel) :
    (∃ n, a = .sig n k) ∨ a = .ctxCancel k := by
  by_cases ho : a.shutOf = some k
  · cases a <;> simp only [Action.shutOf, Option.some.injEq, reduceCtorEq] at ho
    case sig n j => subst ho; exact Or.inl ⟨n, rfl⟩
    case ctxCancel j => subst ho; exact Or.inr rfl
    all_goals
      subst ho
      simp only [step] at h
      repeat' split at h
      all_goals first
        | (simp at h; done)
        | (simp only [Option.some.injEq] at h; subst h
           simp_all [setShut, ctxDone]
           done)
        | (simp only [Option.some.injEq] at h; subst h
           revert h1 h0; simp only [setShut, ctxDone, if_true]
           cases (s.shuts _).done <;> simp)
  · rw [step_shuts_other a k h ho] at h1
    exact absurd h1 h0

theorem allMembersReturned_iff (g : GState) : allMembersReturned g = true ↔ ∀ i, i < g.members → g.mret i = true := by
  simp [allMembersReturned, List.all_eq_true]

/-- the invariant of the hosted system -/
structure GInv (g : GState) : Prop where
  base : Reachable g.base
  api : g.base.api = false
  grace : g.graceHits = 0 → ∀ k, (g.base.shuts k).done ≠ some .cancel
  ret : g.groupRet = true → g.base.runner = .finished ∧ ∀ i, i < g.members → g.mret i = true

theorem ginv_init (nl : Bool) (sg gs : List Sig) (m : Nat) : GInv (ginit nl sg gs m) := by
  refine ⟨Reachable.start nl sg, rfl, fun _ k => ?_, fun h => ?_⟩
  · simp [ginit, initCfg]
  · simp [ginit] at h

/-- what the group's relay does to the proxy: nothing, or the cancellation of the run context -/
theorem groupRelay_cases (g : GState) (n : Sig) :
    groupRelay g n = g.base ∨
    (n ∈ g.gsigs ∧ step g.base .cancel = some (groupRelay g n) ∧ g.base.runner = .idle ∧
      groupRelay g n = { g.base with runner := .cancelled }) := by
  unfold groupRelay
  by_cases hn : n ∈ g.gsigs
  · rw [if_pos hn]
    cases hc : step g.base .cancel with
    | none => left; rfl
    | some b =>
      right
      refine ⟨hn, rfl, ?_, ?_⟩
      · simp only [step] at hc
        split at hc
        · rename_i hg; exact hg.1
        · simp at hc
      · simp only [step] at hc
        split at hc
        · cases hc; rfl
        · simp at hc
  · rw [if_neg hn]; left; rfl

theorem groupRelay_reachable {g : GState} (h : Reachable g.base) (n : Sig) : Reachable (groupRelay g n) := by
  rcases groupRelay_cases g n with h1 | h1
  · rw [h1]; exact h
  · exact Reachable.step .cancel h h1.2.1

theorem groupRelay_fields (g : GState) (n : Sig) :
    (groupRelay g n).shuts = g.base.shuts ∧ (groupRelay g n).closes = g.base.closes ∧
    (groupRelay g n).conns = g.base.conns ∧ (groupRelay g n).closing = g.base.closing ∧
    (groupRelay g n).api = g.base.api ∧ (groupRelay g n).runShut = g.base.runShut ∧
    (groupRelay g n).cfgSignals = g.base.cfgSignals ∧
    (g.base.runner = .finished → (groupRelay g n).runner = .finished) := by
  rcases groupRelay_cases g n with h1 | h1
  · rw [h1]; exact ⟨rfl, rfl, rfl, rfl, rfl, rfl, rfl, fun h => h⟩
  · rw [h1.2.2.2]
    exact ⟨rfl, rfl, rfl, rfl, rfl, rfl, rfl, fun h => by rw [h1.2.2.1] at h; cases h⟩

/-- the delivery to the grace relay: when it does not hit a live subscribed context it changes nothing -/
theorem sig_miss {b b' : State} {n : Sig} (h : step b (.sig n b.runShut) = some b') (hm : hitsGrace b n = false) :
    b' = b := by
  simp only [step] at h
  split at h
  · rename_i hg
    simp [hitsGrace, hg.1, hg.2] at hm
  · cases h; rfl

theorem sig_fields {b b' : State} {n : Sig} {k : CallId} (h : step b (.sig n k) = some b') :
    b'.closes = b.closes ∧ b'.conns = b.conns ∧ b'.closing = b.closing ∧ b'.api = b.api ∧ b'.runner = b.runner := by
  simp only [step] at h
  split at h <;> cases h <;> exact ⟨rfl, rfl, rfl, rfl, rfl⟩

theorem ginv_step {g g' : GState} (a : GAction) (hi : GInv g) (h : gstep g a = some g') : GInv g' := by
  cases a with
  | base a =>
    simp only [gstep] at h
    split at h
    · simp at h
    · rename_i ho
      have ho' : hostOwned a = false := by simpa using ho
      cases hs : step g.base a with
      | none => rw [hs] at h; simp at h
      | some b =>
        rw [hs] at h
        simp only [Option.map_some, Option.some.injEq] at h
        subst h
        have hapi : b.api = false := (step_api a hs ho').trans hi.api
        refine ⟨Reachable.step a hi.base hs, hapi, fun hg k hd => ?_, fun hr => ?_⟩
        · rcases step_done_cancel k a hs (hi.grace hg k) hd with ⟨n, rfl⟩ | rfl
          · simp [hostOwned] at ho'
          · -- `ctxCancel k`: the context would have to be cancellable, run's is not
            simp only [step] at hs
            split at hs
            · rename_i hgd
              have hc := ctxinv_reachable hi.base
              have h1 := hc.onlyS hi.api k hgd.1
              have h2 := hc.kind h1.1
              rw [show (ctl g.base).runShut = g.base.runShut from rfl] at h1 h2
              have : (g.base.shuts k).cancellable = false := by rw [h1.2]; exact h2.2.2.1
              rw [this] at hgd; cases hgd.2
            · simp at hs
        · exact ⟨step_runner_finished a hs (hi.ret hr).1, (hi.ret hr).2⟩
  | signal n =>
    simp only [gstep] at h
    cases hs : step (groupRelay g n) (.sig n (groupRelay g n).runShut) with
    | none => rw [hs] at h; simp at h
    | some b2 =>
      rw [hs] at h
      simp only [Option.some.injEq] at h
      subst h
      obtain ⟨f1, f2, f3, f4, f5, f6, f7, f8⟩ := groupRelay_fields g n
      obtain ⟨s1, s2, s3, s4, s5⟩ := sig_fields hs
      refine ⟨Reachable.step _ (groupRelay_reachable hi.base n) hs, by rw [s4, f5]; exact hi.api, fun hg k => ?_, fun hr => ?_⟩
      · have hm : hitsGrace (groupRelay g n) n = false := by
          cases hh : hitsGrace (groupRelay g n) n with
          | false => rfl
          | true => simp [hh] at hg
        have hg0 : g.graceHits = 0 := by simp [hm] at hg; exact hg
        rw [sig_miss hs hm, f1]
        exact hi.grace hg0 k
      · exact ⟨by rw [s5]; exact f8 (hi.ret hr).1, (hi.ret hr).2⟩
  | memberRet i =>
    simp only [gstep] at h
    split at h
    · cases h
      refine ⟨hi.base, hi.api, hi.grace, fun hr => ⟨(hi.ret hr).1, fun j hj => ?_⟩⟩
      by_cases hji : j = i
      · simp [hji]
      · simp [hji]; exact (hi.ret hr).2 j hj
    · simp at h
  | groupRet =>
    simp only [gstep] at h
    split at h
    · rename_i hg
      cases h
      exact ⟨hi.base, hi.api, hi.grace, fun _ => ⟨hg.2.1, (allMembersReturned_iff g).mp hg.2.2⟩⟩
    · simp at h

theorem ginv_reachable {g : GState} (h : GReachable g) : GInv g := by
  induction h with
  | start nl sg gs m => exact ginv_init nl sg gs m
  | step a _ hs ih => exact ginv_step a ih hs

theorem greachable_grun {g g' : GState} {as : List GAction} (hr : GReachable g) (h : grun g as = some g') :
    GReachable g' := by
  induction as generalizing g with
  | nil => have h' : some g = some g' := h; cases h'; exact hr
  | cons a as ih =>
    simp only [grun] at h
    cases hs1 : gstep g a with
    | none => rw [hs1] at h; cases h
    | some g1 => rw [hs1] at h; exact ih (GReachable.step a hr hs1) h

end C11
end FwdVerif
