/-
  C16 — helper lemmas about the request modifier stack (`runStack`) and the `User-Agent` line of the
  written request (`writtenUA`); the property theorems are in `Theorems/C16.lean`.  Core-only.
-/
import FwdVerif.Lemmas.C16

namespace FwdVerif
namespace C16

open Ascii

theorem canonicalKey_uaKey : canonicalKey uaKey = uaKey := by decide
theorem canonicalKey_authKey : canonicalKey authKey = authKey := by decide
theorem uaKey_ne_authKey : uaKey ≠ authKey := by decide

theorem lookup_none_of_forall {h : HMap} {k : Bytes} (hk : ∀ e ∈ h, e.1 ≠ k) : h.lookup k = none := by
  induction h with
  | nil => rfl
  | cons e h ih =>
    obtain ⟨k', ws⟩ := e
    have hne : k' ≠ k := hk (k', ws) (List.mem_cons_self ..)
    have : (k == k') = false := by simpa using (fun h' : k = k' => hne h'.symm)
    rw [List.lookup_cons, this]
    exact ih (fun e he => hk e (List.mem_cons_of_mem _ he))

theorem get_goSet_self (h : HMap) (n v : Bytes) : HMap.get (goSet h n v) (canonicalKey n) = some [v] := by
  unfold HMap.get goSet
  exact lookup_put_self h _ _

theorem get_goSet_ne (h : HMap) (n v : Bytes) {k : Bytes} (hk : k ≠ canonicalKey n) :
    HMap.get (goSet h n v) k = HMap.get h k := by
  unfold HMap.get goSet
  exact lookup_put_ne h _ hk

theorem get_goAdd_self (h : HMap) (n v : Bytes) :
    HMap.get (goAdd h n v) (canonicalKey n) = some ((HMap.get h (canonicalKey n)).getD [] ++ [v]) := by
  unfold goAdd
  unfold HMap.get
  exact lookup_put_self h _ _

theorem get_goDel_self (h : HMap) (n : Bytes) : HMap.get (goDel h n) (canonicalKey n) = none := by
  unfold HMap.get goDel HMap.erase
  apply lookup_none_of_forall
  intro e he
  have := (List.mem_filter.mp he).2
  simpa using this

/-- `-prefix*` with a prefix of `k` (whatever the case) leaves no entry under the canonical key `k`,
    on every map -/
theorem get_removeByPrefix_self (h : HMap) {p k : Bytes} (hp : prefixFold p k = true)
    (hk : canonicalKey k = k) : HMap.get (removeByPrefix h p) k = none := by
  unfold HMap.get removeByPrefix
  apply lookup_none_of_forall
  intro e he hek
  have hm := List.mem_filter.mp he
  have hcont : ((h.filter (fun e => prefixFold p e.1)).map (fun e => canonicalKey e.1)).contains e.1 = true := by
    rw [List.contains_iff_mem]
    refine List.mem_map.mpr ⟨e, List.mem_filter.mpr ⟨hm.1, ?_⟩, ?_⟩
    · rw [hek]; exact hp
    · rw [hek]; exact hk
  have := hm.2
  simp only [hcont, Bool.not_true] at this
  exact absurd this (by decide)

theorem applyRules_append_one (rs : List Rule) (r : Rule) (h : HMap) :
    applyRules (rs ++ [r]) h = applyRule (applyRules rs h) r := by
  unfold applyRules
  rw [List.foldl_append]
  rfl

theorem runStack_stackOrder (cred : Option Bytes) (rs : List Rule) (h : HMap) :
    runStack stackOrder cred rs h = setEmptyUserAgent (setBasicAuth cred (applyRules rs h)) := rfl

theorem get_setBasicAuth_ua (cred : Option Bytes) (h : HMap) :
    HMap.get (setBasicAuth cred h) uaKey = HMap.get h uaKey := by
  unfold setBasicAuth
  split
  · split
    · exact get_goSet_ne h authKey _ (by rw [canonicalKey_authKey]; exact uaKey_ne_authKey)
    · rfl
  · rfl

theorem get_setEmptyUserAgent_auth (h : HMap) :
    HMap.get (setEmptyUserAgent h) authKey = HMap.get h authKey := by
  unfold setEmptyUserAgent
  split
  · exact get_goSet_ne h uaKey _ (by rw [canonicalKey_uaKey]; exact fun e => uaKey_ne_authKey e.symm)
  · rfl

/-- after `setEmptyUserAgent` the map always has the key, so `Request.write` never falls back to the
    library's default -/
theorem get_setEmptyUserAgent_ua_isSome (h : HMap) : (HMap.get (setEmptyUserAgent h) uaKey).isSome = true := by
  unfold setEmptyUserAgent
  split
  · have := get_goSet_self h uaKey []
    rw [canonicalKey_uaKey] at this
    rw [this]; rfl
  · next hn =>
    cases hg : HMap.get h uaKey with
    | none => rw [hg] at hn; exact absurd rfl hn
    | some _ => rfl

theorem writtenUA_setEmptyUserAgent (h : HMap) :
    writtenUA (setEmptyUserAgent h) =
      uaLineOfValues (HMap.get h uaKey) := by
  unfold setEmptyUserAgent
  cases hg : HMap.get h uaKey with
  | none =>
    have := get_goSet_self h uaKey []
    rw [canonicalKey_uaKey] at this
    simp only [Option.isNone_none, if_true]
    unfold writtenUA
    rw [this]
    rfl
  | some vs =>
    simp only [Option.isNone_some, Bool.false_eq_true, if_false]
    unfold writtenUA
    rw [hg]
    cases vs with
    | nil => rfl
    | cons v vs =>
      by_cases hv : v = []
      · subst hv; rfl
      · have : (v == []) = false := by simpa using hv
        simp only [List.headD_cons, this, Bool.false_eq_true, if_false, uaLineOfValues, hv]

theorem goGet1_eq (h : HMap) : goGet1 h authKey = ((HMap.get h authKey).getD []).headD [] := by
  unfold goGet1
  rw [canonicalKey_authKey]

/-! ### the CONNECT head: second pass of the connect list -/

theorem copyOver_nil (d : HMap) : copyOver d [] = d := rfl

theorem copyOver_single (d : HMap) (k : Bytes) (vs : List Bytes) : copyOver d [(k, vs)] = HMap.put d k vs := rfl

theorem goAdd_nil (n v : Bytes) : goAdd [] n v = [(canonicalKey n, [v])] := rfl

theorem goSet_nil (n v : Bytes) : goSet [] n v = [(canonicalKey n, [v])] := rfl

theorem goDel_nil (n : Bytes) : goDel [] n = [] := rfl

theorem renameCase_nil (n : Bytes) : renameCase [] n = [] := rfl

end C16
end FwdVerif
