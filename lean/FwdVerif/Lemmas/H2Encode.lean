/-
  Encoding order versus sending order of header blocks in the HTTP/2 relay model (F21).
  If no header block is ever left queued at the end of the step that encoded it, the blocks leave a
  direction in the order of their encode sequence numbers.  Core-only.
-/
import FwdVerif.Lemmas.H2Order

namespace FwdVerif
namespace H2

variable {α : Type}

/-- header-block sequence numbers of queued frames, in list order -/
def seqs (qs : List (QFrame α)) : List Nat :=
  qs.filterMap fun q => match q with
    | .headers _ _ _ _ n => some n
    | .push _ _ _ n => some n
    | _ => none

theorem seqs_append (a b : List (QFrame α)) : seqs (a ++ b) = seqs a ++ seqs b := by
  simp [seqs, List.filterMap_append]

theorem seqs_nil : seqs ([] : List (QFrame α)) = [] := rfl

/-- frames of stream `s` -/
def onStream (s : Nat) (qs : List (QFrame α)) : List (QFrame α) := qs.filter (fun q => q.sid == s)

theorem onStream_append (s : Nat) (a b : List (QFrame α)) : onStream s (a ++ b) = onStream s a ++ onStream s b := by
  simp [onStream, List.filter_append]

theorem Hist.addOut_out (H : Hist α) (e : List (QFrame α)) (s : Nat) :
    (H.addOut e).out s = H.out s ++ onStream s e := by
  induction e generalizing H with
  | nil => simp [Hist.addOut, onStream]
  | cons q t ih =>
    have := ih (H.addOut1 q)
    simp only [Hist.addOut, List.foldl_cons] at this ⊢
    rw [this]
    simp only [Hist.addOut1, onStream, List.filter_cons]
    by_cases h : s = q.sid
    · subst h; simp
    · have : ¬ q.sid = s := fun x => h x.symm
      simp [h, this]

theorem Hist.addEnq_enq (H : Hist α) (e : List (QFrame α)) (s : Nat) :
    (H.addEnq e).enq s = H.enq s ++ onStream s e := by
  induction e generalizing H with
  | nil => simp [Hist.addEnq, onStream]
  | cons q t ih =>
    have := ih (H.addEnq1 q)
    simp only [Hist.addEnq, List.foldl_cons] at this ⊢
    rw [this]
    simp only [Hist.addEnq1, onStream, List.filter_cons]
    by_cases h : s = q.sid
    · subst h; simp
    · have : ¬ q.sid = s := fun x => h x.symm
      simp [h, this]

/-- what one step releases on a stream, followed by what it leaves queued, is what was queued
    followed by what it enqueued -/
theorem step_conservation {d d' : Dir α} {H : Hist α} {enq e : List (QFrame α)}
    (h : Fifo d H) (h' : Fifo d' ((H.addEnq enq).addOut e)) (s : Nat) :
    onStream s e ++ d'.queueOf s = d.queueOf s ++ onStream s enq := by
  have a := h.split s
  have b := h'.split s
  rw [Hist.addOut_out, Hist.addOut_enq, Hist.addEnq_enq, Hist.addEnq_out, ← a, List.append_assoc, List.append_assoc] at b
  exact List.append_cancel_left b

/-- no header block is waiting in any queue -/
def NoHdrQ (d : Dir α) : Prop := ∀ s, seqs (d.queueOf s) = []

/-- decidable form, for concrete states -/
theorem NoHdrQ.of_all (d : Dir α) (h : d.streams.all (fun e => (seqs e.2.queue).isEmpty) = true) : NoHdrQ d := by
  intro s
  unfold Dir.queueOf
  generalize d.streams = m at h
  induction m with
  | nil => rfl
  | cons e m ih =>
    obtain ⟨k, st⟩ := e
    simp only [List.all_cons, Bool.and_eq_true] at h
    simp only [SMap.get]
    split
    · rename_i st' heq
      split at heq
      · injection heq with heq; subst heq; simpa using h.1
      · have := ih h.2; rw [heq] at this; exact this
    · rfl

theorem seqs_onStream_of_nil (s : Nat) (qs : List (QFrame α)) (h : seqs qs = []) : seqs (onStream s qs) = [] := by
  induction qs with
  | nil => rfl
  | cons q t ih =>
    have hq : seqs [q] ++ seqs t = [] := by rw [← seqs_append]; exact h
    have h1 : seqs [q] = [] := (List.append_eq_nil_iff.mp hq).1
    have h2 : seqs t = [] := (List.append_eq_nil_iff.mp hq).2
    simp only [onStream, List.filter_cons]
    split
    · show seqs ([q] ++ List.filter (fun q => q.sid == s) t) = []
      rw [seqs_append, h1]; exact ih h2
    · exact ih h2

/-- if on every stream the released header blocks are a prefix of the enqueued ones, and only
    stream `t` got (at most one) new block numbered `n`, then at most that block was released -/
theorem seqs_released (e enq : List (QFrame α)) (t n : Nat) (R : Nat → List Nat)
    (hs : ∀ s, seqs (onStream s e) ++ R s = seqs (onStream s enq))
    (ht : ∀ q ∈ enq, q.sid = t) (hn : seqs enq = [] ∨ seqs enq = [n]) :
    seqs e = [] ∨ (seqs e = [n] ∧ seqs enq = [n]) := by
  -- blocks released on streams other than t: none
  have hother : ∀ s, s ≠ t → seqs (onStream s e) = [] := by
    intro s hst
    have hnil : onStream s enq = [] := by
      simp only [onStream, List.filter_eq_nil_iff]
      intro q hq; have := ht q hq; simp [this]; exact fun x => hst x.symm
    have hss := hs s
    rw [hnil, seqs_nil] at hss
    exact (List.append_eq_nil_iff.mp hss).1
  -- all of enq is on t
  have henq : onStream t enq = enq := by
    simp only [onStream, List.filter_eq_self]
    intro q hq; simp [ht q hq]
  -- seqs e = seqs (onStream t e)
  have hall : seqs e = seqs (onStream t e) := by
    clear hs hn henq
    induction e with
    | nil => rfl
    | cons q r ih =>
      have hoth : ∀ s, s ≠ t → seqs (onStream s r) = [] := by
        intro s hst
        have := hother s hst
        simp only [onStream, List.filter_cons] at this
        split at this
        · have h2 : seqs ([q] ++ List.filter (fun q => q.sid == s) r) = [] := this
          rw [seqs_append] at h2
          exact (List.append_eq_nil_iff.mp h2).2
        · exact this
      have ihr := ih hoth
      show seqs ([q] ++ r) = _
      rw [seqs_append, ihr]
      simp only [onStream, List.filter_cons]
      by_cases hq : q.sid = t
      · simp only [hq, beq_self_eq_true, if_true]
        show _ = seqs ([q] ++ _)
        rw [seqs_append]
      · have hq' : (q.sid == t) = false := by simpa using hq
        simp only [hq', Bool.false_eq_true, if_false]
        have := hother q.sid hq
        simp only [onStream, List.filter_cons, beq_self_eq_true, if_true] at this
        have h2 : seqs ([q] ++ List.filter (fun x => x.sid == q.sid) r) = [] := this
        rw [seqs_append] at h2
        rw [(List.append_eq_nil_iff.mp h2).1]; rfl
  rw [hall]
  have := hs t
  rw [henq] at this
  rcases hn with hn | hn
  · rw [hn] at this; exact Or.inl (List.append_eq_nil_iff.mp this).1
  · rw [hn] at this
    cases hx : seqs (onStream t e) with
    | nil => exact Or.inl rfl
    | cons a rest =>
      rw [hx] at this
      simp only [List.cons_append, List.cons.injEq] at this
      have hr : rest = [] := (List.append_eq_nil_iff.mp this.2).1
      exact Or.inr ⟨by rw [this.1, hr], hn⟩

/-! ### the encoder's counter -/

theorem emitOn_encSeq (d : Dir α) (s : Nat) : (d.emitOn s).1.encSeq = d.encSeq := by
  rcases d.emitOn_spec s with ⟨_, he⟩ | ⟨_, _, _, he1⟩
  · rw [he]
  · rw [he1]

theorem emitList_encSeq (d : Dir α) (ss : List Nat) : (d.emitList ss).1.encSeq = d.encSeq := by
  induction ss generalizing d with
  | nil => rfl
  | cons s t ih => simp only [Dir.emitList]; rw [ih, emitOn_encSeq]

theorem enqEmit_encSeq (d : Dir α) (f : QFrame α) : (d.enqEmit f).1.encSeq = d.encSeq := by
  unfold Dir.enqEmit; rw [emitOn_encSeq]

theorem enqEmitAll_encSeq (d : Dir α) (fs : List (QFrame α)) : (d.enqEmitAll fs).1.encSeq = d.encSeq := by
  induction fs generalizing d with
  | nil => rfl
  | cons f t ih => simp only [Dir.enqEmitAll]; rw [ih, enqEmit_encSeq]

theorem windowUpdate_encSeq (d : Dir α) (order : List Nat) (s n : Nat) : (d.windowUpdate order s n).1.encSeq = d.encSeq := by
  unfold Dir.windowUpdate
  by_cases hs : s = 0
  · subst hs; simp only [if_true]; rw [emitOn_encSeq]; simp only [Dir.pass]; rw [emitList_encSeq]
  · simp only [hs, if_false]; rw [emitOn_encSeq]

theorem setInitWin_encSeq (d : Dir α) (order : List Nat) (v : Nat) : (d.setInitWin order v).1.encSeq = d.encSeq := by
  unfold Dir.setInitWin Dir.pass; rw [emitList_encSeq]

theorem applyEach_encSeq (o : Dir α) (ord : Nat → List Nat) (k : Nat) (kvs : List (Nat × Nat)) :
    (applyEach o ord k kvs).1.encSeq = o.encSeq := by
  induction kvs generalizing o k with
  | nil => rfl
  | cons kv rest ih =>
    obtain ⟨id, v⟩ := kv
    simp only [H2.applyEach]
    split
    · rw [ih, setInitWin_encSeq]
    · split
      · rw [ih]
      · split
        · rw [ih]
        · rw [ih]

/-- sequence numbers and stream of what a frame makes the relay enqueue -/
theorem enqOf_seqs (d : Dir α) (op : Op α) :
    (seqs (enqOf d op) = [] ∨ seqs (enqOf d op) = [d.encSeq]) ∧ ∃ t, ∀ q ∈ enqOf d op, q.sid = t := by
  cases op with
  | data sid p pad es =>
    refine ⟨Or.inl ?_, sid, dataQ_sid sid es _⟩
    simp only [enqOf]
    generalize splitData d.maxFrame p = cs
    induction cs with
    | nil => rfl
    | cons c t ih =>
      cases t with
      | nil => rfl
      | cons c' t' => simp only [dataQ]; show seqs ([_] ++ _) = []; rw [seqs_append, ih]; rfl
  | headers sid es eh prio frag reenc =>
    simp only [enqOf]
    split
    · exact ⟨Or.inr rfl, sid, by intro q hq; simp at hq; subst hq; rfl⟩
    · exact ⟨Or.inl rfl, 0, by intro q hq; simp at hq⟩
  | continuation sid eh frag reenc =>
    simp only [enqOf]
    split
    · split
      · exact ⟨Or.inr rfl, sid, by intro q hq; simp at hq; subst hq; rfl⟩
      · exact ⟨Or.inr rfl, sid, by intro q hq; simp at hq; subst hq; rfl⟩
      · exact ⟨Or.inl rfl, 0, by intro q hq; simp at hq⟩
    · exact ⟨Or.inl rfl, 0, by intro q hq; simp at hq⟩
  | pushPromise sid promised eh frag reenc =>
    simp only [enqOf]
    split
    · exact ⟨Or.inr rfl, sid, by intro q hq; simp at hq; subst hq; rfl⟩
    · exact ⟨Or.inl rfl, 0, by intro q hq; simp at hq⟩
  | priority sid prio => exact ⟨Or.inl rfl, sid, by intro q hq; simp [enqOf] at hq; subst hq; rfl⟩
  | rst sid code => exact ⟨Or.inl rfl, sid, by intro q hq; simp [enqOf] at hq; subst hq; rfl⟩
  | windowUpdate sid inc => exact ⟨Or.inl rfl, 0, by intro q hq; simp [enqOf] at hq⟩
  | settings kvs => exact ⟨Or.inl rfl, 0, by intro q hq; simp [enqOf] at hq⟩
  | settingsAck => exact ⟨Or.inl rfl, 0, by intro q hq; simp [enqOf] at hq⟩
  | ping ack data => exact ⟨Or.inl rfl, 0, by intro q hq; simp [enqOf] at hq⟩
  | goAway last code debug => exact ⟨Or.inl rfl, 0, by intro q hq; simp [enqOf] at hq⟩
  | unknown typ => exact ⟨Or.inl rfl, 0, by intro q hq; simp [enqOf] at hq⟩

/-- the counter advances by the number of blocks encoded; the other direction's is untouched -/
theorem process_encSeq (d o : Dir α) (ord : Nat → List Nat) (op : Op α) :
    (process d o ord op).1.encSeq = d.encSeq + (seqs (enqOf d op)).length ∧
    (process d o ord op).2.1.encSeq = o.encSeq := by
  cases op with
  | data sid p pad es =>
    have := (enqOf_seqs d (.data sid p pad es)).1
    have h0 : seqs (enqOf d (.data sid p pad es)) = [] := by
      rcases this with h | h
      · exact h
      · -- impossible: DATA enqueues no header block; shown by the same computation
        have : seqs (enqOf d (Op.data sid p pad es)) = [] := by
          simp only [enqOf]
          generalize splitData d.maxFrame p = cs
          induction cs with
          | nil => rfl
          | cons c t ih =>
            cases t with
            | nil => rfl
            | cons c' t' => simp only [dataQ]; show seqs ([_] ++ _) = []; rw [seqs_append, ih]; rfl
        exact this
    rw [h0]
    exact ⟨by simp [H2.process, Dir.data, enqEmitAll_encSeq], rfl⟩
  | headers sid es eh prio frag reenc =>
    simp only [H2.process, enqOf]
    split
    · exact ⟨by simp [Dir.header, enqEmit_encSeq, seqs, Dir.headerQ], rfl⟩
    · exact ⟨by simp [seqs], rfl⟩
  | continuation sid eh frag reenc =>
    simp only [H2.process, enqOf]
    split
    · split
      · rename_i prio es hc
        have hc' : d.cont = Cont.headers prio es := hc
        simp only [hc']
        refine ⟨?_, ?_⟩ <;> simp [Dir.header, enqEmit_encSeq, seqs, Dir.headerQ]
      · rename_i promised hc
        have hc' : d.cont = Cont.push promised := hc
        simp only [hc']
        refine ⟨?_, ?_⟩ <;> simp [Dir.pushPromise, enqEmit_encSeq, seqs, Dir.pushQ]
      · rename_i hc
        have hc' : d.cont = Cont.none := hc
        refine ⟨?_, ?_⟩ <;> simp [seqs]
    · exact ⟨by simp [seqs], rfl⟩
  | pushPromise sid promised eh frag reenc =>
    simp only [H2.process, enqOf]
    split
    · exact ⟨by simp [Dir.pushPromise, enqEmit_encSeq, seqs, Dir.pushQ], rfl⟩
    · exact ⟨by simp [seqs], rfl⟩
  | priority sid prio => exact ⟨by simp [H2.process, enqOf, enqEmit_encSeq, seqs], rfl⟩
  | rst sid code => exact ⟨by simp [H2.process, enqOf, enqEmit_encSeq, seqs], rfl⟩
  | windowUpdate sid inc => exact ⟨by simp [H2.process, enqOf, seqs], windowUpdate_encSeq o (ord 0) sid inc⟩
  | settings kvs => exact ⟨by simp [H2.process, enqOf, seqs], applyEach_encSeq o ord 0 (inForce kvs)⟩
  | settingsAck => exact ⟨by simp [H2.process, enqOf, seqs], rfl⟩
  | ping ack data => exact ⟨by simp [H2.process, enqOf, seqs], rfl⟩
  | goAway last code debug => exact ⟨by simp [H2.process, enqOf, seqs], rfl⟩
  | unknown typ => exact ⟨by simp [H2.process, enqOf, seqs], rfl⟩

theorem step_encSeq (d o : Dir α) (ord : Nat → List Nat) (op : Op α) :
    (step d o ord op).1.encSeq = d.encSeq + (seqs (if accepted d op then enqOf d op else [])).length ∧
    (step d o ord op).2.1.encSeq = o.encSeq := by
  unfold H2.step accepted
  by_cases hdead : d.dead = true
  · simp [hdead, seqs]
  · have hdead' : d.dead = false := by simpa using hdead
    by_cases hok : orderOk d op = true
    · simp only [hdead', hok, if_true, Bool.not_false, Bool.true_and, Bool.false_eq_true, if_false]
      exact process_encSeq d o ord op
    · have hok' : orderOk d op = false := by simpa using hok
      simp [hdead', hok', seqs]

/-! ### the order invariant -/

/-- the blocks released so far carry increasing numbers, all below the encoder's counter -/
structure EncInv (d : Dir α) (E : List (QFrame α)) : Prop where
  below : ∀ n ∈ seqs E, n < d.encSeq
  sorted : (seqs E).Pairwise (· < ·)

theorem EncInv.init : EncInv ({} : Dir α) [] := ⟨by intro n h; simp [seqs] at h, by simp [seqs]⟩

theorem EncInv.extend {d d' : Dir α} {E e : List (QFrame α)} (h : EncInv d E)
    (he : seqs e = [] ∨ (seqs e = [d.encSeq] ∧ d'.encSeq = d.encSeq + 1)) (hmono : d.encSeq ≤ d'.encSeq) :
    EncInv d' (E ++ e) := by
  rcases he with he | ⟨he, hd⟩
  · refine ⟨?_, ?_⟩
    · intro n hn; rw [seqs_append, he, List.append_nil] at hn; have := h.below n hn; omega
    · rw [seqs_append, he, List.append_nil]; exact h.sorted
  · refine ⟨?_, ?_⟩
    · intro n hn
      rw [seqs_append, he] at hn
      rcases List.mem_append.mp hn with hn | hn
      · have := h.below n hn; omega
      · simp at hn; omega
    · rw [seqs_append, he, List.pairwise_append]
      refine ⟨h.sorted, by simp, ?_⟩
      intro a ha b hb
      simp at hb; subst hb
      exact h.below a ha

/-- one iteration of a reader loop keeps the order invariant of both directions, provided no
    header block was waiting in a queue before it -/
theorem EncInv.step {d o : Dir α} {Ld Lo : Ledger} {Hd Ho : Hist α} {Ed Eo : List (QFrame α)}
    (hd : Inv d Ld Hd) (ho : Inv o Lo Ho) (nd : NoHdrQ d) (no : NoHdrQ o) (ed : EncInv d Ed) (eo : EncInv o Eo)
    (ord : Nat → List Nat) (op : Op α) :
    EncInv (step d o ord op).1 (Ed ++ (step d o ord op).2.2.fwd) ∧
    EncInv (step d o ord op).2.1 (Eo ++ (step d o ord op).2.2.back) := by
  have hs := Inv.step hd ho ord op
  have hseq := step_encSeq d o ord op
  constructor
  · -- the frame's own direction
    have hcons := fun s => step_conservation hd.fifo hs.1.fifo s
    have hq : ∀ s, seqs (onStream s (H2.step d o ord op).2.2.fwd) ++ seqs ((H2.step d o ord op).1.queueOf s) =
        seqs (onStream s (if accepted d op then enqOf d op else [])) := by
      intro s
      have := congrArg seqs (hcons s)
      rw [seqs_append, seqs_append, nd s, List.nil_append] at this
      exact this
    have hen : (seqs (if accepted d op then enqOf d op else []) = [] ∨
        seqs (if accepted d op then enqOf d op else []) = [d.encSeq]) ∧
        ∃ t, ∀ q ∈ (if accepted d op then enqOf d op else []), q.sid = t := by
      split
      · exact enqOf_seqs d op
      · exact ⟨Or.inl rfl, 0, by intro q hq; simp at hq⟩
    obtain ⟨hn, t, ht⟩ := hen
    have := seqs_released _ _ t d.encSeq _ hq ht hn
    apply ed.extend
    · rcases this with h | ⟨h1, h2⟩
      · exact Or.inl h
      · exact Or.inr ⟨h1, by rw [hseq.1, h2]; rfl⟩
    · rw [hseq.1]; omega
  · -- the opposite direction: nothing is enqueued there
    have hcons := fun s => step_conservation (enq := []) ho.fifo hs.2.fifo s
    have hq : ∀ s, seqs (onStream s (H2.step d o ord op).2.2.back) ++ seqs ((H2.step d o ord op).2.1.queueOf s) =
        seqs (onStream s ([] : List (QFrame α))) := by
      intro s
      have := congrArg seqs (hcons s)
      rw [seqs_append, seqs_append, no s, List.nil_append] at this
      exact this
    have := seqs_released _ _ 0 o.encSeq _ hq (by intro q hq; simp at hq) (Or.inl rfl)
    apply eo.extend
    · rcases this with h | ⟨_, h2⟩
      · exact Or.inl h
      · simp [seqs] at h2
    · rw [hseq.2]; omega

/-- at no step boundary of the schedule is a header block waiting in a queue -/
def NeverQueuesHeaders (r : Relay α) : List (Ev α) → Prop
  | [] => NoHdrQ r.cs ∧ NoHdrQ r.sc
  | e :: es => NoHdrQ r.cs ∧ NoHdrQ r.sc ∧ NeverQueuesHeaders (r.step e.side e.ord e.op).1 es

theorem EncInv.run {r : Relay α} {g : Ghost α} (h : RInv r g) (ecs : EncInv r.cs g.Ecs) (esc : EncInv r.sc g.Esc)
    (evs : List (Ev α)) (hq : NeverQueuesHeaders r evs) :
    EncInv (r.runG g evs).1.cs (r.runG g evs).2.Ecs ∧ EncInv (r.runG g evs).1.sc (r.runG g evs).2.Esc := by
  induction evs generalizing r g with
  | nil => exact ⟨ecs, esc⟩
  | cons e es ih =>
    obtain ⟨side, ord, op⟩ := e
    obtain ⟨n1, n2, hrest⟩ := hq
    simp only [Relay.runG]
    apply ih (h.step ⟨side, ord, op⟩) _ _ hrest
    · cases side with
      | client => exact (EncInv.step h.cs h.sc n1 n2 ecs esc ord op).1
      | server => exact (EncInv.step h.sc h.cs n2 n1 esc ecs ord op).2
    · cases side with
      | client => exact (EncInv.step h.cs h.sc n1 n2 ecs esc ord op).2
      | server => exact (EncInv.step h.sc h.cs n2 n1 esc ecs ord op).1

end H2
end FwdVerif
