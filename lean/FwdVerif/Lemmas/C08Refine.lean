/-
  C08 helper lemmas, part 2: buffer-free reading functions (`…S`) and the proof that the model's
  buffer-based functions compute the same (`readHeader_eq`).  All slice bound checks on the 232-byte
  buffer are discharged here, once.
-/
import FwdVerif.Lemmas.C08Basic

namespace FwdVerif
namespace C08

/-- the two bytes at positions `i`, `i+1` -/
def pairAt (bs : Bytes) (i : Nat) : Bytes := (bs.take (i + 2)).drop i

def crlfAt (bs : Bytes) (i : Nat) : Bool := pairAt bs i == crlf

/-- `readUntilCRLF` without the buffer: scan positions `idx, idx+1, …` of the whole input -/
def untilS (bs : Bytes) : Nat → Nat → Res (Bytes × Bytes)
  | 0, _ => .err .v1GaveUp
  | fuel + 1, idx =>
    if idx < bs.length then
      if crlfAt bs (idx - 1) then .ok (bs.take (idx - 1), bs.drop (idx + 1))
      else untilS bs fuel (idx + 1)
    else .err .v1Short

/-- parse the line `b`, keep `rest` -/
def parseKeep (b rest : Bytes) : Res (Header × Bytes) :=
  match parseV1Header b with
  | .ok h => .ok (h, rest)
  | .err e => .err e
  | .panic => .panic

def lineS (bs : Bytes) (fuel idx : Nat) : Res (Header × Bytes) :=
  match untilS bs fuel idx with
  | .ok (b, rest) => parseKeep b rest
  | .err e => .err e
  | .panic => .panic

/-- `readV1Header` on the whole input (`13 ≤ bs.length`) -/
def readV1S (bs : Bytes) : Res (Header × Bytes) :=
  if (bs.take 13).drop 6 == sUnknown then
    match untilS bs 94 13 with
    | .ok (b, rest) => .ok (unknownHdr b, rest)
    | .err e => .err e
    | .panic => .panic
  else if (bs.take 10).drop 6 == sTCP4 then
    if 32 ≤ bs.length then
      if crlfAt bs 30 then parseKeep (bs.take 30) (bs.drop 32) else lineS bs 75 32
    else .err .v1Short
  else if (bs.take 10).drop 6 == sTCP6 then
    if 22 ≤ bs.length then
      if crlfAt bs 20 then parseKeep (bs.take 20) (bs.drop 22) else lineS bs 85 22
    else .err .v1Short
  else .err .v1Proto

theorem untilLoop_eq (bs : Bytes) : ∀ (fuel idx : Nat), 1 ≤ idx → idx + fuel ≤ 232 → idx ≤ bs.length →
    untilLoop fuel (mkBuf bs idx) (bs.drop idx) idx = untilS bs fuel idx := by
  intro fuel
  induction fuel with
  | zero => intro idx _ _ _; rfl
  | succ n ih =>
    intro idx h1 h2 h3
    have hlen := mkBuf_length h3 (by omega : idx ≤ 232)
    unfold untilLoop untilS
    have hsl : sl (mkBuf bs idx) idx (idx + 1) = .ok (((mkBuf bs idx).take (idx + 1)).drop idx) := by
      unfold sl; rw [if_pos ⟨by omega, by omega⟩]
    rw [hsl]
    simp only [bind_ok]
    by_cases hlt : idx < bs.length
    · rw [if_pos hlt]
      rw [List.drop_eq_getElem_cons hlt]
      simp only []
      rw [mkBuf_store hlt (by omega)]
      rw [sl_mkBuf (by omega) (by omega) (by omega) (by omega)]
      simp only [bind_ok]
      have e1 : (bs.take (idx + 1)).drop (idx - 1) = pairAt bs (idx - 1) := by
        unfold pairAt; congr 2; omega
      rw [e1]
      by_cases hc : crlfAt bs (idx - 1)
      · have hc' : (pairAt bs (idx - 1) == crlf) = true := hc
        rw [if_pos hc, if_pos hc']
        rw [sl_mkBuf (by omega) (by omega) (by omega) (by omega)]
        simp
      · have hc' : ¬ (pairAt bs (idx - 1) == crlf) = true := hc
        rw [if_neg hc, if_neg hc']
        exact ih (idx + 1) (by omega) (by omega) (by omega)
    · rw [if_neg hlt]
      rw [List.drop_eq_nil_of_le (by omega)]

theorem readUntilCRLF_eq (bs : Bytes) (idx : Nat) (h1 : 1 ≤ idx) (h2 : idx ≤ 107) (h3 : idx ≤ bs.length) :
    readUntilCRLF (mkBuf bs idx) (bs.drop idx) idx = untilS bs (107 - idx) idx := by
  unfold readUntilCRLF
  exact untilLoop_eq bs _ _ h1 (by omega) h3

theorem parseBind (b rest : Bytes) :
    (do let h ← parseV1Header b; pure (h, rest) : Res (Header × Bytes)) = parseKeep b rest := by
  unfold parseKeep
  cases parseV1Header b <;> rfl

theorem lineBind (bs : Bytes) (fuel idx : Nat) :
    (do let (b, rest) ← untilS bs fuel idx
        let h ← parseV1Header b
        pure (h, rest) : Res (Header × Bytes)) = lineS bs fuel idx := by
  unfold lineS
  cases untilS bs fuel idx with
  | ok p => obtain ⟨b, rest⟩ := p; exact parseBind b rest
  | err e => rfl
  | panic => rfl

theorem readV1Header_eq (bs : Bytes) (h13 : 13 ≤ bs.length) :
    readV1Header (mkBuf bs 13) (bs.drop 13) = readV1S bs := by
  unfold readV1Header readV1S
  rw [sl_mkBuf h13 (by omega) (by omega) (by omega)]
  simp only [bind_ok]
  split
  · rw [readUntilCRLF_eq bs 13 (by omega) (by omega) h13]
    cases untilS bs (107 - 13) 13 with
    | ok p => obtain ⟨b, rest⟩ := p; rfl
    | err e => rfl
    | panic => rfl
  · rw [sl_mkBuf h13 (by omega) (by omega) (by omega)]
    simp only [bind_ok]
    split
    · rw [readFullInto_mkBuf _ h13 (by omega) (by omega)]
      by_cases h32 : 32 ≤ bs.length
      · rw [if_pos h32, if_pos h32]
        simp only [bind_ok]
        rw [sl_mkBuf h32 (by omega) (by omega) (by omega)]
        simp only [bind_ok]
        have e1 : (bs.take 32).drop 30 = pairAt bs 30 := rfl
        rw [e1]
        by_cases hc : crlfAt bs 30
        · have hc' : (pairAt bs 30 == crlf) = true := hc
          rw [if_pos hc, if_pos hc']
          rw [sl_mkBuf h32 (by omega) (by omega) (by omega)]
          simp only [bind_ok, List.drop_zero]
          exact parseBind _ _
        · have hc' : ¬ (pairAt bs 30 == crlf) = true := hc
          rw [if_neg hc, if_neg hc']
          rw [readUntilCRLF_eq bs 32 (by omega) (by omega) h32]
          exact lineBind bs _ _
      · rw [if_neg h32, if_neg h32]; rfl
    · split
      · rw [readFullInto_mkBuf _ h13 (by omega) (by omega)]
        by_cases h22 : 22 ≤ bs.length
        · rw [if_pos h22, if_pos h22]
          simp only [bind_ok]
          rw [sl_mkBuf h22 (by omega) (by omega) (by omega)]
          simp only [bind_ok]
          have e1 : (bs.take 22).drop 20 = pairAt bs 20 := rfl
          rw [e1]
          by_cases hc : crlfAt bs 20
          · have hc' : (pairAt bs 20 == crlf) = true := hc
            rw [if_pos hc, if_pos hc']
            rw [sl_mkBuf h22 (by omega) (by omega) (by omega)]
            simp only [bind_ok, List.drop_zero]
            exact parseBind _ _
          · have hc' : ¬ (pairAt bs 20 == crlf) = true := hc
            rw [if_neg hc, if_neg hc']
            rw [readUntilCRLF_eq bs 22 (by omega) (by omega) h22]
            exact lineBind bs _ _
        · rw [if_neg h22, if_neg h22]; rfl
      · rfl

/-- `readV2Header` on the whole input (`13 ≤ bs.length`) -/
def readV2S (bs : Bytes) : Res (Header × Bytes) :=
  if 16 ≤ bs.length then
    if (bs.getD 12 0).toNat / 16 != 2 then .err .v2Version
    else v2Rest (bs.getD 12 0) (bs.getD 13 0) ((bs.getD 14 0).toNat * 256 + (bs.getD 15 0).toNat) (bs.drop 16)
  else .err .v2Short

theorem ix_getD {bs : Bytes} {i : Nat} (h : i < bs.length) : ix bs i = .ok (bs.getD i 0) := by
  unfold ix
  rw [List.getElem?_eq_getElem h]
  simp [List.getD, List.getElem?_eq_getElem h]

theorem be16_pair (bs : Bytes) (h : 16 ≤ bs.length) :
    be16 ((bs.take 16).drop 14) = .ok ((bs.getD 14 0).toNat * 256 + (bs.getD 15 0).toNat) := by
  have e : (bs.take 16).drop 14 = [bs.getD 14 0, bs.getD 15 0] := by
    apply List.ext_getElem
    · simp [List.length_take]; omega
    · intro i h1 h2
      have : i < 2 := by simpa using h2
      simp only [List.getElem_drop, List.getElem_take]
      match i, this with
      | 0, _ => simp [List.getD, List.getElem?_eq_getElem (show 14 < bs.length by omega)]
      | 1, _ => simp [List.getD, List.getElem?_eq_getElem (show 15 < bs.length by omega)]
  rw [e]; rfl

theorem readV2Header_eq (bs : Bytes) (h13 : 13 ≤ bs.length) :
    readV2Header (mkBuf bs 13) (bs.drop 13) = readV2S bs := by
  unfold readV2Header readV2S
  rw [readFullInto_mkBuf _ h13 (by omega) (by omega)]
  by_cases h16 : 16 ≤ bs.length
  · rw [if_pos h16, if_pos h16]
    simp only [bind_ok]
    rw [ix_mkBuf h16 (by omega), ix_getD (by omega)]
    simp only [bind_ok]
    split
    · rfl
    · rw [sl_mkBuf h16 (by omega) (by omega) (by omega)]
      simp only [bind_ok]
      rw [be16_pair bs h16]
      simp only [bind_ok]
      rw [ix_mkBuf h16 (by omega), ix_getD (by omega)]
      rfl
  · rw [if_neg h16, if_neg h16]; rfl

/-- `ReadHeader` without the buffer -/
def readHeaderS (bs : Bytes) : Res (Header × Bytes) :=
  if 13 ≤ bs.length then
    if v2Ident.isPrefixOf (bs.take 13) then readV2S bs
    else if v1Ident.isPrefixOf (bs.take 13) then readV1S bs
    else .err .notProxy
  else .err .eofIdent

theorem readHeader_eq (bs : Bytes) : readHeader bs = readHeaderS bs := by
  unfold readHeader readHeaderS
  rw [← mkBuf_zero bs]
  have := readFullInto_mkBuf (bs := bs) (k := 0) (hi := 13) .eofIdent (by omega) (by omega) (by omega)
  rw [List.drop_zero] at this
  rw [this]
  by_cases h13 : 13 ≤ bs.length
  · rw [if_pos h13, if_pos h13]
    simp only [bind_ok]
    rw [sl_mkBuf h13 (by omega) (by omega) (by omega)]
    simp only [bind_ok, List.drop_zero]
    split
    · exact readV2Header_eq bs h13
    · split
      · exact readV1Header_eq bs h13
      · have hlen := mkBuf_length h13 (by omega : 13 ≤ 232)
        unfold sl
        rw [if_pos ⟨by omega, by omega⟩]
        rfl
  · rw [if_neg h13, if_neg h13]; rfl

end C08
end FwdVerif
