/-
  C03 — helper lemmas for section L (a copy direction that ends with an error) of
  `FwdVerif/Theorems/C03.lean` (core Lean only).

  §1 which steps of the plain machine make a copier return
  §2 the shapes of an enabled step of the machine with errors (`astep`)
  §3 the invariant `AInv`: the plain state inside is a reachable state of the plain machine, `bicopy`'s
     bookkeeping (`closed` iff both copiers returned or the timer fired, `grace` iff one returned)
-/
import FwdVerif.Lemmas.C03Legs

set_option linter.unusedSimpArgs false
set_option linter.unusedVariables false

namespace FwdVerif
namespace C03

/-! ## §1 -/

/-- only `eof` and the forced close make a copier return -/
theorem step_done_eq {c : Cfg} {s s' : State} {st : Step} (hne : ∀ d, st ≠ .eof d) (hng : st ≠ .graceExpire)
    (h : step c s st = some s') : s'.up.done = s.up.done ∧ s'.down.done = s.down.done := by
  cases st with
  | eof d => exact absurd rfl (hne d)
  | graceExpire => exact absurd rfl hng
  | clientWrite seg =>
    simp only [step] at h
    split at h
    · exact absurd h (by simp)
    · have := some_inj h; subst this; exact ⟨rfl, rfl⟩
  | targetWrite seg =>
    simp only [step] at h
    split at h
    · exact absurd h (by simp)
    · have := some_inj h; subst this; exact ⟨rfl, rfl⟩
  | fin d =>
    simp only [step] at h
    split at h
    · exact absurd h (by simp)
    · have := some_inj h; subst this; cases d <;> exact ⟨rfl, rfl⟩
  | readHead k =>
    simp only [step] at h
    split at h
    · have := some_inj h; subst this; exact ⟨rfl, rfl⟩
    · exact absurd h (by simp)
  | replyRead n =>
    simp only [step] at h
    split at h
    · have := some_inj h; subst this; exact ⟨rfl, rfl⟩
    · exact absurd h (by simp)
  | connected =>
    simp only [step] at h
    split at h
    · split at h <;> (have := some_inj h; subst this; exact ⟨rfl, rfl⟩)
    · exact absurd h (by simp)
  | drain =>
    simp only [step] at h
    split at h
    · have := some_inj h; subst this; exact ⟨rfl, rfl⟩
    · exact absurd h (by simp)
  | copy d n =>
    simp only [step] at h
    split at h
    · have := some_inj h; subst this; cases d <;> exact ⟨rfl, rfl⟩
    · exact absurd h (by simp)

/-- the forced close makes both copiers return -/
theorem step_graceExpire_done {c : Cfg} {s s' : State} (h : step c s .graceExpire = some s') :
    s'.up.done = true ∧ s'.down.done = true := by
  simp only [step] at h
  split at h
  · have := some_inj h; subst this; exact ⟨rfl, rfl⟩
  · exact absurd h (by simp)

theorem run_snoc {c : Cfg} {steps : List Step} {s s' : State} {st : Step}
    (hx : run c steps = some s) (hs : step c s st = some s') : run c (steps ++ [st]) = some s' := by
  unfold run at *
  rw [runFrom_append, hx]
  show runFrom c s [st] = some s'
  simp only [runFrom, hs]

/-! ## §2 -/

@[simp] theorem failed_up (a : AState) : a.failed .up = a.failedU := rfl
@[simp] theorem failed_down (a : AState) : a.failed .down = a.failedD := rfl

@[simp] theorem setFailed_h (a : AState) (d : Dir) : (a.setFailed d).h = a.h := by cases d <;> rfl
@[simp] theorem setFailed_grace (a : AState) (d : Dir) : (a.setFailed d).grace = a.grace := by cases d <;> rfl
@[simp] theorem setFailed_closed (a : AState) (d : Dir) : (a.setFailed d).closed = a.closed := by
  cases d <;> rfl
@[simp] theorem setFailed_expired (a : AState) (d : Dir) : (a.setFailed d).expired = a.expired := by
  cases d <;> rfl
@[simp] theorem setFailed_failed_same (a : AState) (d : Dir) : (a.setFailed d).failed d = true := by
  cases d <;> rfl
@[simp] theorem setFailed_failed_other (a : AState) (d : Dir) :
    (a.setFailed d).failed d.other = a.failed d.other := by cases d <;> rfl

theorem setFailed_returned_same (a : AState) (d : Dir) : (a.setFailed d).returned d = true := by
  simp [AState.returned]

theorem setFailed_returned_other (a : AState) (d : Dir) :
    (a.setFailed d).returned d.other = a.returned d.other := by
  simp [AState.returned]

@[simp] theorem closeWriter_s (h : HState) (L : Legs) (d : Dir) : (h.closeWriter L d).s = h.s := by
  unfold HState.closeWriter
  split
  · cases d <;> rfl
  · rfl

@[simp] theorem closeWriter_cut (h : HState) (L : Legs) (d : Dir) : (h.closeWriter L d).cut = h.cut := by
  unfold HState.closeWriter
  split
  · cases d <;> rfl
  · rfl

theorem closeWriter_shown_other (h : HState) (L : Legs) (d : Dir) :
    (h.closeWriter L d).shown d.other = h.shown d.other := by
  unfold HState.closeWriter
  split
  · cases d <;> rfl
  · rfl

theorem closeWriter_shown_capable (h : HState) (L : Legs) (d : Dir) (hcap : L.dst d = .halfClose) :
    (h.closeWriter L d).shown d = true := by
  unfold HState.closeWriter
  rw [hcap]
  cases d <;> rfl

theorem closeWriter_incapable (h : HState) (L : Legs) (d : Dir) (hcap : L.dst d = .none) :
    h.closeWriter L d = h := by
  unfold HState.closeWriter
  rw [hcap]

/-- `bicopy`'s bookkeeping touches no byte, no flag of the copiers -/
@[simp] theorem settle_s (a : AState) : a.settle.h.s = a.h.s := by
  unfold AState.settle
  split <;> rfl

@[simp] theorem settle_cut (a : AState) : a.settle.h.cut = a.h.cut := by
  unfold AState.settle
  split <;> rfl

@[simp] theorem settle_failedU (a : AState) : a.settle.failedU = a.failedU := by
  unfold AState.settle
  split <;> rfl

@[simp] theorem settle_failedD (a : AState) : a.settle.failedD = a.failedD := by
  unfold AState.settle
  split <;> rfl

@[simp] theorem settle_failed (a : AState) (d : Dir) : a.settle.failed d = a.failed d := by
  cases d <;> simp

@[simp] theorem settle_expired (a : AState) : a.settle.expired = a.expired := by
  unfold AState.settle
  split <;> rfl

@[simp] theorem settle_grace (a : AState) : a.settle.grace = true := by
  unfold AState.settle
  split <;> rfl

@[simp] theorem settle_returned (a : AState) (d : Dir) : a.settle.returned d = a.returned d := by
  simp [AState.returned]

/-- both copiers have returned: `bicopy` returns, everybody is shown end-of-stream -/
theorem settle_both (a : AState) (hu : a.returned .up = true) (hd : a.returned .down = true) :
    a.settle.closed = true ∧ a.settle.h.shownU = true ∧ a.settle.h.shownD = true := by
  unfold AState.settle
  rw [if_pos ⟨hu, hd⟩]
  exact ⟨rfl, rfl, rfl⟩

/-- one copier is still running: nothing is closed, nobody is shown anything -/
theorem settle_one (a : AState) (h : ¬ (a.returned .up = true ∧ a.returned .down = true)) :
    a.settle.closed = a.closed ∧ a.settle.h = a.h := by
  unfold AState.settle
  rw [if_neg h]
  exact ⟨rfl, rfl⟩

/-- the plain step under a step of the machine with capabilities (the code's policy) -/
theorem hstep_leave_state {c : Cfg} {L : Legs} {h h' : HState} {st : Step}
    (hx : hstep c L .leave h st = some h') : step c h.s st = some h'.s := by
  obtain ⟨s', hs, hms, _⟩ := hstep_leave_cases hx
  rw [hms]; exact hs

/-- the shapes of an enabled step of the machine with errors -/
theorem astep_cases {c : Cfg} {L : Legs} {pol : ErrPolicy} {a a' : AState} {st : AStep}
    (hx : astep c L pol a st = some a') :
    (∃ pst h', st = .s pst ∧ (∀ d, pst ≠ .eof d) ∧ pst ≠ .graceExpire ∧ a.blocks pst = false ∧
        hstep c L .leave a.h pst = some h' ∧ a' = { a with h := h' }) ∨
    (∃ d h', st = .s (.eof d) ∧ a.closed = false ∧ a.failed d = false ∧
        hstep c L .leave a.h (.eof d) = some h' ∧ a' = ({ a with h := h' } : AState).settle) ∨
    (st = .s .graceExpire ∧ a.closed = false ∧ a.grace = true ∧ a.h.s.phase = .tunnel ∧
        ((∃ h', hstep c L .leave a.h .graceExpire = some h' ∧
            a' = { a with h := h', closed := true, expired := true }) ∨
          (hstep c L .leave a.h .graceExpire = none ∧ a' = { a with closed := true, expired := true }))) ∨
    (∃ d k, st = .abort d k ∧ a.h.s.phase = .tunnel ∧ a.closed = false ∧ a.returned d = false ∧
        a' = (({ a with h := if pol.callsCloseWriter k = true then a.h.closeWriter L d else a.h } : AState).setFailed
          d).settle) ∨
    (∃ d, st = .writeFail d ∧ a.h.s.phase = .tunnel ∧ a.closed = false ∧ a.returned d = false ∧
        a.failed d.other = true ∧ 1 ≤ (a.h.s.pipe d).avail ∧ a' = (a.setFailed d).settle) := by
  cases st with
  | abort d k =>
    simp only [astep] at hx
    split at hx
    · rename_i hc
      exact Or.inr (Or.inr (Or.inr (Or.inl ⟨d, k, rfl, hc.1, hc.2.1, hc.2.2, (some_inj hx).symm⟩)))
    · exact absurd hx (by simp)
  | writeFail d =>
    simp only [astep] at hx
    split at hx
    · rename_i hc
      exact Or.inr (Or.inr (Or.inr (Or.inr
        ⟨d, rfl, hc.1, hc.2.1, hc.2.2.1, hc.2.2.2.1, hc.2.2.2.2, (some_inj hx).symm⟩)))
    · exact absurd hx (by simp)
  | s pst =>
    cases pst with
    | graceExpire =>
      simp only [astep] at hx
      split at hx
      · rename_i hc
        refine Or.inr (Or.inr (Or.inl ⟨rfl, hc.1, hc.2.1, hc.2.2, ?_⟩))
        split at hx
        · rename_i h' hh
          exact Or.inl ⟨h', hh, (some_inj hx).symm⟩
        · rename_i hh
          exact Or.inr ⟨hh, (some_inj hx).symm⟩
      · exact absurd hx (by simp)
    | eof d =>
      simp only [astep] at hx
      split at hx
      · exact absurd hx (by simp)
      · rename_i hb
        split at hx
        · rename_i h' hh
          have hb' : (a.closed || a.failed d) = false := by
            simpa [AState.blocks] using hb
          simp only [Bool.or_eq_false_iff] at hb'
          exact Or.inr (Or.inl ⟨d, h', rfl, hb'.1, hb'.2, hh, (some_inj hx).symm⟩)
        · exact absurd hx (by simp)
    | clientWrite seg =>
      simp only [astep] at hx
      split at hx
      · exact absurd hx (by simp)
      · rename_i hb
        split at hx
        · rename_i h' hh
          exact Or.inl ⟨_, h', rfl, by simp, by simp, by simpa using hb, hh, (some_inj hx).symm⟩
        · exact absurd hx (by simp)
    | targetWrite seg =>
      simp only [astep] at hx
      split at hx
      · exact absurd hx (by simp)
      · rename_i hb
        split at hx
        · rename_i h' hh
          exact Or.inl ⟨_, h', rfl, by simp, by simp, by simpa using hb, hh, (some_inj hx).symm⟩
        · exact absurd hx (by simp)
    | fin d =>
      simp only [astep] at hx
      split at hx
      · exact absurd hx (by simp)
      · rename_i hb
        split at hx
        · rename_i h' hh
          exact Or.inl ⟨_, h', rfl, by simp, by simp, by simpa using hb, hh, (some_inj hx).symm⟩
        · exact absurd hx (by simp)
    | readHead k =>
      simp only [astep] at hx
      split at hx
      · exact absurd hx (by simp)
      · rename_i hb
        split at hx
        · rename_i h' hh
          exact Or.inl ⟨_, h', rfl, by simp, by simp, by simpa using hb, hh, (some_inj hx).symm⟩
        · exact absurd hx (by simp)
    | replyRead n =>
      simp only [astep] at hx
      split at hx
      · exact absurd hx (by simp)
      · rename_i hb
        split at hx
        · rename_i h' hh
          exact Or.inl ⟨_, h', rfl, by simp, by simp, by simpa using hb, hh, (some_inj hx).symm⟩
        · exact absurd hx (by simp)
    | connected =>
      simp only [astep] at hx
      split at hx
      · exact absurd hx (by simp)
      · rename_i hb
        split at hx
        · rename_i h' hh
          exact Or.inl ⟨_, h', rfl, by simp, by simp, by simpa using hb, hh, (some_inj hx).symm⟩
        · exact absurd hx (by simp)
    | drain =>
      simp only [astep] at hx
      split at hx
      · exact absurd hx (by simp)
      · rename_i hb
        split at hx
        · rename_i h' hh
          exact Or.inl ⟨_, h', rfl, by simp, by simp, by simpa using hb, hh, (some_inj hx).symm⟩
        · exact absurd hx (by simp)
    | copy d n =>
      simp only [astep] at hx
      split at hx
      · exact absurd hx (by simp)
      · rename_i hb
        split at hx
        · rename_i h' hh
          exact Or.inl ⟨_, h', rfl, by simp, by simp, by simpa using hb, hh, (some_inj hx).symm⟩
        · exact absurd hx (by simp)

theorem arunFrom_cons {c : Cfg} {L : Legs} {pol : ErrPolicy} {a a' : AState} {st : AStep} {rest : List AStep}
    (hx : arunFrom c L pol a (st :: rest) = some a') :
    ∃ m, astep c L pol a st = some m ∧ arunFrom c L pol m rest = some a' := by
  simp only [arunFrom] at hx
  split at hx
  · exact absurd hx (by simp)
  · rename_i m hm
    exact ⟨m, hm, hx⟩

theorem arunFrom_append {c : Cfg} {L : Legs} {pol : ErrPolicy} {a : AState} {x y : List AStep} :
    arunFrom c L pol a (x ++ y) = (arunFrom c L pol a x).bind (fun m => arunFrom c L pol m y) := by
  induction x generalizing a with
  | nil => rfl
  | cons st rest ih =>
    simp only [List.cons_append, arunFrom]
    cases astep c L pol a st with
    | none => rfl
    | some m => exact ih

theorem arun_snoc {c : Cfg} {L : Legs} {pol : ErrPolicy} {steps : List AStep} {a a' : AState} {st : AStep}
    (hx : arun c L pol steps = some a) (hs : astep c L pol a st = some a') :
    arun c L pol (steps ++ [st]) = some a' := by
  unfold arun at *
  rw [arunFrom_append, hx]
  show arunFrom c L pol a [st] = some a'
  simp only [arunFrom, hs]

/-! ## §3 -/

structure AInv (c : Cfg) (a : AState) : Prop where
  /-- the bytes are the plain machine's -/
  reach : ∃ steps, run c steps = some a.h.s
  /-- both copiers have returned: `bicopy` has returned and both legs are closed -/
  bothClosed : a.returned .up = true → a.returned .down = true → a.closed = true
  /-- nothing else closes a tunnel but the grace timer -/
  closedWhy : a.closed = true → (a.returned .up = true ∧ a.returned .down = true) ∨ a.expired = true
  /-- closed by `bicopy` returning: everybody has been shown end-of-stream -/
  closedShown : a.closed = true → a.expired = false → a.h.shownU = true ∧ a.h.shownD = true
  /-- the grace timer is armed by the first copier that returns, however it returns -/
  graceIff : a.grace = true ↔ (a.returned .up = true ∨ a.returned .down = true)
  expiredClosed : a.expired = true → a.closed = true
  noCut : a.h.cut = false

theorem ainv_init (c : Cfg) : AInv c ainit := by
  refine ⟨⟨[], rfl⟩, ?_, ?_, ?_, ?_, ?_, rfl⟩
  · intro h; simp [ainit, AState.returned, init] at h
  · intro h; simp [ainit] at h
  · intro h; simp [ainit] at h
  · simp [ainit, AState.returned, init]
  · intro h; simp [ainit] at h

theorem returned_of_h_done {a : AState} {h' : HState} (d : Dir)
    (e : (h'.s.pipe d).done = (a.h.s.pipe d).done) :
    ({ a with h := h' } : AState).returned d = a.returned d := by
  cases d <;> simp_all [AState.returned]

theorem ainv_step {c : Cfg} {L : Legs} {pol : ErrPolicy} {a a' : AState} {st : AStep} (hi : AInv c a)
    (hx : astep c L pol a st = some a') : AInv c a' := by
  obtain ⟨steps, hr⟩ := hi.reach
  rcases astep_cases hx with ⟨pst, h', rfl, hne, hng, hb, hh, rfl⟩ | ⟨d, h', rfl, hcl, hf, hh, rfl⟩ |
    ⟨rfl, hcl, hg, hp, hh⟩ | ⟨d, k, rfl, hp, hcl, hret, rfl⟩ | ⟨d, rfl, hp, hcl, hret, hfo, hav, rfl⟩
  · -- a step that makes no copier return
    have hs := hstep_leave_state hh
    obtain ⟨_, _, _, hcut, hsh, _⟩ := hstep_leave_cases hh
    have hdn := step_done_eq hne hng hs
    have ru : ({ a with h := h' } : AState).returned .up = a.returned .up := returned_of_h_done .up hdn.1
    have rd : ({ a with h := h' } : AState).returned .down = a.returned .down := returned_of_h_done .down hdn.2
    have hsh' := hsh hne
    refine ⟨⟨_, run_snoc hr hs⟩, ?_, ?_, ?_, ?_, hi.expiredClosed, by rw [← hi.noCut]; exact hcut⟩
    · rw [ru, rd]; exact hi.bothClosed
    · rw [ru, rd]; exact hi.closedWhy
    · intro h1 h2
      show h'.shownU = true ∧ h'.shownD = true
      rw [hsh'.1, hsh'.2]; exact hi.closedShown h1 h2
    · rw [ru, rd]; exact hi.graceIff
  · -- a copier returns after end-of-stream
    have hs := hstep_leave_state hh
    obtain ⟨_, _, _, hcut, _, _⟩ := hstep_leave_cases hh
    have hexp : a.expired = false := by
      cases he : a.expired
      · rfl
      · have := hi.expiredClosed he; rw [hcl] at this; exact absurd this (by decide)
    have hdone : (h'.s.pipe d).done = true := (step_eof_spec hs).1
    have hrd : ({ a with h := h' } : AState).returned d = true := by
      simp [AState.returned, hdone]
    refine ⟨⟨_, by rw [settle_s]; exact run_snoc hr hs⟩, ?_, ?_, ?_, ?_, ?_, ?_⟩
    · intro hu hd
      rw [settle_returned] at hu hd
      exact (settle_both _ hu hd).1
    · intro hc
      by_cases hb : ({ a with h := h' } : AState).returned .up = true ∧
          ({ a with h := h' } : AState).returned .down = true
      · exact Or.inl (by simpa using hb)
      · rw [(settle_one _ hb).1] at hc
        exact absurd hc (by simp [hcl])
    · intro hc _
      by_cases hb : ({ a with h := h' } : AState).returned .up = true ∧
          ({ a with h := h' } : AState).returned .down = true
      · exact (settle_both _ hb.1 hb.2).2
      · rw [(settle_one _ hb).1] at hc
        exact absurd hc (by simp [hcl])
    · simp only [settle_grace, settle_returned, true_iff]
      cases d
      · exact Or.inl hrd
      · exact Or.inr hrd
    · intro he
      rw [settle_expired] at he
      exact absurd he (by simp [hexp])
    · rw [settle_cut]; show h'.cut = false; rw [hcut]; exact hi.noCut
  · -- the grace timer fires
    rcases hh with ⟨h', hh, rfl⟩ | ⟨hh, rfl⟩
    · have hs := hstep_leave_state hh
      obtain ⟨_, _, _, hcut, _, _⟩ := hstep_leave_cases hh
      have hdn := step_graceExpire_done hs
      have ru : ({ a with h := h', closed := true, expired := true } : AState).returned .up = true := by
        simp [AState.returned, hdn.1]
      have rd : ({ a with h := h', closed := true, expired := true } : AState).returned .down = true := by
        simp [AState.returned, hdn.2]
      refine ⟨⟨_, run_snoc hr hs⟩, fun _ _ => rfl, fun _ => Or.inr rfl, ?_, ?_, fun _ => rfl, ?_⟩
      · intro _ he; exact absurd he (by simp)
      · show a.grace = true ↔ _
        rw [ru]; simp [hg]
      · show h'.cut = false; rw [hcut]; exact hi.noCut
    · refine ⟨⟨_, hr⟩, fun _ _ => rfl, fun _ => Or.inr rfl, ?_, hi.graceIff, fun _ => rfl, hi.noCut⟩
      intro _ he; exact absurd he (by simp)
  · -- a copier returns on a read error
    have hexp : a.expired = false := by
      cases he : a.expired
      · rfl
      · have := hi.expiredClosed he; rw [hcl] at this; exact absurd this (by decide)
    -- the state before `settle`
    generalize hm : (({ a with h := if pol.callsCloseWriter k = true then a.h.closeWriter L d else a.h } :
      AState).setFailed d) = m
    have ms : m.h.s = a.h.s := by
      rw [← hm]; simp only [setFailed_h]; split <;> simp
    have mcut : m.h.cut = a.h.cut := by
      rw [← hm]; simp only [setFailed_h]; split <;> simp
    have mcl : m.closed = false := by rw [← hm]; simp [hcl]
    have mex : m.expired = false := by rw [← hm]; simp [hexp]
    have mrd : m.returned d = true := by rw [← hm]; exact setFailed_returned_same _ d
    refine ⟨⟨_, by rw [settle_s, ms]; exact hr⟩, ?_, ?_, ?_, ?_, ?_, ?_⟩
    · intro hu hd
      rw [settle_returned] at hu hd
      exact (settle_both _ hu hd).1
    · intro hc
      by_cases hb : m.returned .up = true ∧ m.returned .down = true
      · exact Or.inl (by simpa using hb)
      · rw [(settle_one _ hb).1] at hc
        exact absurd hc (by simp [mcl])
    · intro hc _
      by_cases hb : m.returned .up = true ∧ m.returned .down = true
      · exact (settle_both _ hb.1 hb.2).2
      · rw [(settle_one _ hb).1] at hc
        exact absurd hc (by simp [mcl])
    · simp only [settle_grace, settle_returned, true_iff]
      cases d
      · exact Or.inl mrd
      · exact Or.inr mrd
    · intro he
      rw [settle_expired] at he
      exact absurd he (by simp [mex])
    · rw [settle_cut, mcut]; exact hi.noCut
  · -- a copier returns on a write error
    have hexp : a.expired = false := by
      cases he : a.expired
      · rfl
      · have := hi.expiredClosed he; rw [hcl] at this; exact absurd this (by decide)
    generalize hm : a.setFailed d = m
    have ms : m.h = a.h := by rw [← hm]; simp
    have mcl : m.closed = false := by rw [← hm]; simp [hcl]
    have mex : m.expired = false := by rw [← hm]; simp [hexp]
    have mrd : m.returned d = true := by rw [← hm]; exact setFailed_returned_same _ d
    refine ⟨⟨_, by rw [settle_s, ms]; exact hr⟩, ?_, ?_, ?_, ?_, ?_, ?_⟩
    · intro hu hd
      rw [settle_returned] at hu hd
      exact (settle_both _ hu hd).1
    · intro hc
      by_cases hb : m.returned .up = true ∧ m.returned .down = true
      · exact Or.inl (by simpa using hb)
      · rw [(settle_one _ hb).1] at hc
        exact absurd hc (by simp [mcl])
    · intro hc _
      by_cases hb : m.returned .up = true ∧ m.returned .down = true
      · exact (settle_both _ hb.1 hb.2).2
      · rw [(settle_one _ hb).1] at hc
        exact absurd hc (by simp [mcl])
    · simp only [settle_grace, settle_returned, true_iff]
      cases d
      · exact Or.inl mrd
      · exact Or.inr mrd
    · intro he
      rw [settle_expired] at he
      exact absurd he (by simp [mex])
    · rw [settle_cut, ms]; exact hi.noCut

theorem ainv_runFrom {c : Cfg} {L : Legs} {pol : ErrPolicy} {a a' : AState} {steps : List AStep} (hi : AInv c a)
    (hx : arunFrom c L pol a steps = some a') : AInv c a' := by
  induction steps generalizing a with
  | nil => have := some_inj hx; subst this; exact hi
  | cons st rest ih =>
    obtain ⟨m, hm, hr⟩ := arunFrom_cons hx
    exact ih (ainv_step hi hm) hr

theorem ainv_run {c : Cfg} {L : Legs} {pol : ErrPolicy} {a : AState} {steps : List AStep}
    (hx : arun c L pol steps = some a) : AInv c a :=
  ainv_runFrom (ainv_init c) hx

/-! ## §4 what stays enabled -/

/-- a copier that has not returned on an error, in a tunnel that is not closed, copies exactly when the
    plain machine's does -/
theorem astep_copy_isSome {c : Cfg} {L : Legs} {pol : ErrPolicy} {a : AState} {d : Dir} {n : Nat}
    (hcl : a.closed = false) (hf : a.failed d = false) :
    (astep c L pol a (.s (.copy d n))).isSome = (step c a.h.s (.copy d n)).isSome := by
  rw [← hstep_isSome (L := L) (pol := .leave)]
  simp only [astep, AState.blocks, hcl, hf, Bool.or_self, Bool.false_eq_true, if_false]
  cases hstep c L .leave a.h (.copy d n) <;> rfl

/-- … and finishes when the plain machine's does; `bicopy` then does its bookkeeping -/
theorem astep_eof_some {c : Cfg} {L : Legs} {pol : ErrPolicy} {a : AState} {d : Dir} {s' : State}
    (hcl : a.closed = false) (hf : a.failed d = false) (hs : step c a.h.s (.eof d) = some s') :
    ∃ h', hstep c L .leave a.h (.eof d) = some h' ∧ h'.s = s' ∧
      astep c L pol a (.s (.eof d)) = some (({ a with h := h' } : AState).settle) := by
  have hsome : (hstep c L .leave a.h (.eof d)).isSome = true := by rw [hstep_isSome, hs]; rfl
  cases hh : hstep c L .leave a.h (.eof d) with
  | none => rw [hh] at hsome; exact absurd hsome (by simp)
  | some h' =>
    have e := hstep_leave_state hh
    rw [hs] at e
    refine ⟨h', rfl, (some_inj e).symm, ?_⟩
    simp only [astep, AState.blocks, hcl, hf, Bool.or_self, Bool.false_eq_true, if_false, hh]

theorem returned_false {a : AState} {d : Dir} (h : a.returned d = false) :
    (a.h.s.pipe d).done = false ∧ a.failed d = false := by
  simpa [AState.returned] using h

theorem returned_of_failed {a : AState} {d : Dir} (h : a.failed d = true) : a.returned d = true := by
  simp [AState.returned, h]

theorem returned_of_done {a : AState} {d : Dir} (h : (a.h.s.pipe d).done = true) : a.returned d = true := by
  simp [AState.returned, h]

/-- a copier whose source offers nothing does not copy -/
theorem astep_copy_none_of_avail_zero {c : Cfg} {L : Legs} {pol : ErrPolicy} {a : AState} {d : Dir} {n : Nat}
    (h : (a.h.s.pipe d).avail = 0) : astep c L pol a (.s (.copy d n)) = none := by
  have hst : step c a.h.s (.copy d n) = none := by
    simp only [step]
    rw [if_neg]
    intro hc
    have h1 := hc.2.2.1
    have h2 := hc.2.2.2.2
    omega
  have hh : hstep c L .leave a.h (.copy d n) = none := by simp only [hstep, hst]
  simp only [astep, hh]
  split <;> rfl

/-- a copier whose source has not finished does not finish -/
theorem astep_eof_none_of_not_fin {c : Cfg} {L : Legs} {pol : ErrPolicy} {a : AState} {d : Dir}
    (h : (a.h.s.pipe d).fin = false) : astep c L pol a (.s (.eof d)) = none := by
  have hst : step c a.h.s (.eof d) = none := by
    simp only [step]
    rw [if_neg]
    intro hc
    rw [h] at hc
    exact absurd hc.2.2.1 (by decide)
  have hh : hstep c L .leave a.h (.eof d) = none := by simp only [hstep, hst]
  simp only [astep, hh]
  split <;> rfl

/-- a copier that has returned on an error takes no step of the plain machine any more -/
theorem astep_failed_none {c : Cfg} {L : Legs} {pol : ErrPolicy} {a : AState} {d : Dir}
    (h : a.failed d = true) :
    (∀ n, astep c L pol a (.s (.copy d n)) = none) ∧ astep c L pol a (.s (.eof d)) = none := by
  constructor
  · intro n; simp [astep, AState.blocks, h]
  · simp [astep, AState.blocks, h]

/-! ## §5 without errors the machine is the machine with leg capabilities -/

/-- the abort layer's own bookkeeping agrees with the plain machine's as long as no copier has failed -/
structure CInv (c : Cfg) (L : Legs) (a : AState) : Prop where
  hinv : HInv c L a.h
  noFailU : a.failedU = false
  noFailD : a.failedD = false
  expiredEq : a.expired = a.h.s.expired
  closedIff : a.closed = true ↔ a.h.s.phase = .closed
  graceEq : a.grace = a.h.s.grace

theorem cinv_init (c : Cfg) (L : Legs) : CInv c L ainit :=
  ⟨hinv_init c L, rfl, rfl, rfl, by simp [ainit, init], rfl⟩

theorem bool_eq_of_iff {x y : Bool} (h : x = true ↔ y = true) : x = y := by
  cases x <;> cases y <;> simp_all

theorem cinv_step {c : Cfg} {L : Legs} {pol : ErrPolicy} {a a' : AState} {st : Step} (hi : CInv c L a)
    (hx : astep c L pol a (.s st) = some a') : hstep c L .leave a.h st = some a'.h ∧ CInv c L a' := by
  have hI := hi.hinv.inv
  have rdone : ∀ (x : AState) (d : Dir), x.failedU = false → x.failedD = false →
      x.returned d = (x.h.s.pipe d).done := by
    intro x d h1 h2; cases d <;> simp [AState.returned, h1, h2]
  rcases astep_cases hx with ⟨pst, h', e, hne, hng, hb, hh, rfl⟩ | ⟨d, h', e, hcl, hf, hh, rfl⟩ |
    ⟨e, hcl, hg, hp, hh⟩ | ⟨_, _, e, _⟩ | ⟨_, e, _⟩
  · have := AStep.s.inj e; subst this
    have hs := hstep_leave_state hh
    have hI' := inv_step hI hs
    have hdn := step_done_eq hne hng hs
    refine ⟨hh, hinv_step hi.hinv hh, hi.noFailU, hi.noFailD, ?_, ?_, ?_⟩
    · show a.expired = h'.s.expired
      rw [step_expired_eq hng hs]; exact hi.expiredEq
    · show a.closed = true ↔ h'.s.phase = .closed
      rw [hi.closedIff]
      constructor
      · intro hc; exact (step_closed hc hs).1
      · intro hc
        apply Classical.byContradiction
        intro hn
        rcases step_closes hs hc hn with ⟨d, e⟩ | e
        · exact hne d e
        · exact hng e
    · show a.grace = h'.s.grace
      rw [hi.graceEq]
      apply bool_eq_of_iff
      rw [hI.grace, hI'.grace, hdn.1, hdn.2]
  · have := AStep.s.inj e; subst this
    have hs := hstep_leave_state hh
    have hI' := inv_step hI hs
    have hH' := hinv_step hi.hinv hh
    have pre := step_eof_pre hs
    have hexp : a.h.s.expired = false := by
      cases he : a.h.s.expired
      · rfl
      · have := hi.closedIff.mpr (hI.expired he); rw [hcl] at this; exact absurd this (by decide)
    have hexp' : h'.s.expired = false := by rw [pre.2.2.2.2.2.1]; exact hexp
    have hdone : (h'.s.pipe d).done = true := (step_eof_spec hs).1
    have hgr' : h'.s.grace = true := by
      rw [hI'.grace]
      cases d
      · exact Or.inl hdone
      · exact Or.inr hdone
    generalize hm : ({ a with h := h' } : AState) = m
    have mh : m.h = h' := by rw [← hm]
    have mfu : m.failedU = false := by rw [← hm]; exact hi.noFailU
    have mfd : m.failedD = false := by rw [← hm]; exact hi.noFailD
    have mcl : m.closed = false := by rw [← hm]; exact hcl
    have mex : m.expired = a.expired := by rw [← hm]
    by_cases hb : m.returned .up = true ∧ m.returned .down = true
    · have hsb := settle_both _ hb.1 hb.2
      rw [rdone m .up mfu mfd, rdone m .down mfu mfd, mh] at hb
      have hc' : h'.s.phase = .closed := hI'.closedIff.mpr hb
      have hsh := hH'.closedShown hc' hexp'
      have hhe : m.settle.h = h' := by
        unfold AState.settle
        rw [if_pos (by rw [rdone m .up mfu mfd, rdone m .down mfu mfd, mh]; exact hb)]
        show { m.h with shownU := true, shownD := true } = h'
        rw [mh]
        cases h'
        simp_all
      refine ⟨by rw [hhe]; exact hh, by rw [hhe]; exact hH', by rw [settle_failedU]; exact mfu,
        by rw [settle_failedD]; exact mfd, ?_, ?_, ?_⟩
      · rw [settle_expired, mex, hhe, hexp']; rw [hi.expiredEq]; exact hexp
      · rw [hhe]; exact ⟨fun _ => hc', fun _ => hsb.1⟩
      · rw [settle_grace, hhe, hgr']
    · obtain ⟨scl, sh⟩ := settle_one _ hb
      have hnc : h'.s.phase ≠ .closed := by
        intro hc'
        apply hb
        have := hI'.closedIff.mp hc'
        rw [rdone m .up mfu mfd, rdone m .down mfu mfd, mh]
        exact this
      refine ⟨by rw [sh, mh]; exact hh, by rw [sh, mh]; exact hH', by rw [settle_failedU]; exact mfu,
        by rw [settle_failedD]; exact mfd, ?_, ?_, ?_⟩
      · rw [settle_expired, mex, sh, mh, hexp']; rw [hi.expiredEq]; exact hexp
      · rw [scl, mcl, sh, mh]
        exact ⟨fun h => absurd h (by decide), fun h => absurd h hnc⟩
      · rw [settle_grace, sh, mh, hgr']
  · have := AStep.s.inj e; subst this
    have hg' : a.h.s.grace = true := by rw [← hi.graceEq]; exact hg
    obtain ⟨s', hs⟩ := step_graceExpire_enabled (c := c) hp hg'
    have hsome : (hstep c L .leave a.h .graceExpire).isSome = true := by rw [hstep_isSome, hs]; rfl
    rcases hh with ⟨h', hh, rfl⟩ | ⟨hh, _⟩
    · have hs' := hstep_leave_state hh
      have sp := step_graceExpire_spec hs'
      refine ⟨hh, hinv_step hi.hinv hh, hi.noFailU, hi.noFailD, ?_, ?_, ?_⟩
      · show true = h'.s.expired
        rw [sp.2.2.2.1]
      · show true = true ↔ h'.s.phase = .closed
        simp [sp.2.2.1]
      · show a.grace = h'.s.grace
        rw [sp.2.2.2.2.1]; exact hi.graceEq
    · rw [hh] at hsome; exact absurd hsome (by simp)
  · exact absurd e (by simp)
  · exact absurd e (by simp)

theorem arunFrom_plain {c : Cfg} {L : Legs} {pol : ErrPolicy} {a a' : AState} {steps : List Step}
    (hi : CInv c L a) (hx : arunFrom c L pol a (steps.map .s) = some a') :
    hrunFrom c L .leave a.h steps = some a'.h ∧ CInv c L a' := by
  induction steps generalizing a with
  | nil => have := some_inj hx; subst this; exact ⟨rfl, hi⟩
  | cons st rest ih =>
    obtain ⟨m, hm, hr⟩ := arunFrom_cons hx
    obtain ⟨hh, hi'⟩ := cinv_step hi hm
    obtain ⟨hr', hi''⟩ := ih hi' hr
    refine ⟨?_, hi''⟩
    simp only [hrunFrom, hh]
    exact hr'

end C03
end FwdVerif
