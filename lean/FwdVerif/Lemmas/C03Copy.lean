/-
  C03 — helper lemmas about the copy loop over read results (`copyLoopFrom`, `calls`, `splitEnds`, `joinEnds`
  of `Model/C03.lean`); the property theorems are in `Theorems/C03.lean`, section N.  Core-only.
-/
import FwdVerif.Model.C03

namespace FwdVerif
namespace C03

/-- the accumulator is a prefix of what the loop ends up with -/
theorem copyLoopFrom_acc (ord : LoopOrder) (rs : List ReadRes) (acc : Bytes) :
    copyLoopFrom ord acc rs =
      { copyLoopFrom ord [] rs with written := acc ++ (copyLoopFrom ord [] rs).written } := by
  induction rs generalizing acc with
  | nil => simp [copyLoopFrom]
  | cons r rest ih =>
    by_cases h : r.ends = true
    · simp [copyLoopFrom, h]
    · simp only [copyLoopFrom, h, Bool.false_eq_true, ↓reduceIte, List.nil_append]
      rw [ih (acc ++ ord.writes r), ih (ord.writes r)]
      simp [List.append_assoc]

theorem copyLoop_cons_data (ord : LoopOrder) (bs : Bytes) (rest : List ReadRes) :
    copyLoop ord (.data bs :: rest) =
      { copyLoop ord rest with written := bs ++ (copyLoop ord rest).written } := by
  unfold copyLoop
  simp only [copyLoopFrom, ReadRes.ends, Bool.false_eq_true, ↓reduceIte, List.nil_append]
  rw [copyLoopFrom_acc]
  cases ord <;> simp [LoopOrder.writes, ReadRes.ends, ReadRes.bytes]

theorem copyLoop_cons_ends (ord : LoopOrder) (r : ReadRes) (rest : List ReadRes) (h : r.ends = true) :
    copyLoop ord (r :: rest) = { written := ord.writes r, returned := true, clean := r.clean } := by
  simp [copyLoop, copyLoopFrom, h]

theorem copyLoop_nil (ord : LoopOrder) : copyLoop ord [] = {} := rfl

end C03
end FwdVerif
