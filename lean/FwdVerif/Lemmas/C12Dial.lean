/- Helper lemmas for C12 §12 (the dialer's retry loop). -/
import FwdVerif.Model.C12Dial

namespace FwdVerif
namespace C12

theorem attemptsOf_pos (n : Int) : 0 < attemptsOf n := by
  unfold attemptsOf
  split <;> omega

/-- the loop hands back `err = nil` only together with a connection — unless it was never entered with no
    error on record -/
theorem dialLoopFrom_err_none (out : Nat → Attempt) :
    ∀ (fuel i : Nat) (last : Option DialErr), (dialLoopFrom out i fuel last).err = none →
      (dialLoopFrom out i fuel last).conn.isSome = true ∨ (fuel = 0 ∧ last = none) := by
  intro fuel
  induction fuel with
  | zero => intro i last h; right; exact ⟨rfl, by simpa [dialLoopFrom] using h⟩
  | succ n ih =>
    intro i last h
    left
    unfold dialLoopFrom at h ⊢
    cases hr : (out i).res with
    | conn c => simp
    | fail e =>
      simp only [hr] at h ⊢
      rcases ih (i + 1) (some e) h with h' | ⟨_, h'⟩
      · exact h'
      · cases h'

/-- the same for the early exit that records the error first -/
theorem dialLoopStopFrom_err_none (out : Nat → Attempt) :
    ∀ (fuel i : Nat) (last : Option DialErr), (dialLoopStopFrom out i fuel last).err = none →
      (dialLoopStopFrom out i fuel last).conn.isSome = true ∨ (fuel = 0 ∧ last = none) := by
  intro fuel
  induction fuel with
  | zero => intro i last h; right; exact ⟨rfl, by simpa [dialLoopStopFrom] using h⟩
  | succ n ih =>
    intro i last h
    left
    unfold dialLoopStopFrom at h ⊢
    cases hr : (out i).res with
    | conn c => simp
    | fail e =>
      simp only [hr] at h ⊢
      by_cases hd : (out i).ctxDone = true
      · simp [hd] at h
      · simp only [hd] at h ⊢
        rcases ih (i + 1) (some e) h with h' | ⟨_, h'⟩
        · exact h'
        · cases h'

/-- a connection the loop returns is the one some attempt within the budget returned -/
theorem dialLoopFrom_conn (out : Nat → Attempt) (c : Nat) :
    ∀ (fuel i : Nat) (last : Option DialErr), (dialLoopFrom out i fuel last).conn = some c →
      ∃ j, i ≤ j ∧ j < i + fuel ∧ (out j).res = .conn c := by
  intro fuel
  induction fuel with
  | zero => intro i last h; simp [dialLoopFrom] at h
  | succ n ih =>
    intro i last h
    unfold dialLoopFrom at h
    cases hr : (out i).res with
    | conn c' =>
      simp only [hr] at h
      refine ⟨i, Nat.le_refl _, by omega, ?_⟩
      rw [hr]
      simp at h
      rw [h]
    | fail e =>
      simp only [hr] at h
      obtain ⟨j, h1, h2, h3⟩ := ih (i + 1) (some e) h
      exact ⟨j, by omega, by omega, h3⟩

/-- when every attempt of the budget fails, the loop reports the error of the last one -/
theorem dialLoopFrom_all_fail (out : Nat → Attempt) :
    ∀ (fuel i : Nat) (last : Option DialErr), (∀ j, i ≤ j → j < i + fuel → ∃ e, (out j).res = .fail e) →
      dialLoopFrom out i fuel last =
        ⟨none, if fuel = 0 then last else match (out (i + fuel - 1)).res with | .fail e => some e | .conn _ => none⟩ := by
  intro fuel
  induction fuel with
  | zero => intro i last _; simp [dialLoopFrom]
  | succ n ih =>
    intro i last h
    unfold dialLoopFrom
    obtain ⟨e, he⟩ := h i (Nat.le_refl _) (by omega)
    simp only [he]
    rw [ih (i + 1) (some e) (fun j h1 h2 => h j (by omega) (by omega))]
    by_cases hn : n = 0
    · subst hn; simp [he]
    · have : i + 1 + n - 1 = i + (n + 1) - 1 := by omega
      simp [hn, this]

end C12
end FwdVerif
