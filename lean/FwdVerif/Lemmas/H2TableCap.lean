/-
  `Dir.decoderCap` (the relay decoders' limit on dynamic table size updates) is set by `newRelay` and
  by nothing else: no frame changes it on either direction.  Core-only.
-/
import FwdVerif.Model.H2TableCap

namespace FwdVerif
namespace H2

variable {α : Type}

theorem cap_emitOn (d : Dir α) (s : Nat) : (d.emitOn s).1.decoderCap = d.decoderCap := by
  unfold Dir.emitOn
  split <;> rfl

theorem cap_emitList (d : Dir α) (ss : List Nat) : (d.emitList ss).1.decoderCap = d.decoderCap := by
  induction ss generalizing d with
  | nil => rfl
  | cons s t ih => simp only [Dir.emitList]; rw [ih, cap_emitOn]

theorem cap_enqEmit (d : Dir α) (f : QFrame α) : (d.enqEmit f).1.decoderCap = d.decoderCap := by
  unfold Dir.enqEmit
  rw [cap_emitOn]

theorem cap_enqEmitAll (d : Dir α) (fs : List (QFrame α)) : (d.enqEmitAll fs).1.decoderCap = d.decoderCap := by
  induction fs generalizing d with
  | nil => rfl
  | cons f t ih => simp only [Dir.enqEmitAll]; rw [ih, cap_enqEmit]

theorem cap_pass (d : Dir α) (order : List Nat) : (d.pass order).1.decoderCap = d.decoderCap := by
  unfold Dir.pass
  rw [cap_emitList]

theorem cap_windowUpdate (d : Dir α) (order : List Nat) (s inc : Nat) :
    (d.windowUpdate order s inc).1.decoderCap = d.decoderCap := by
  unfold Dir.windowUpdate
  simp only
  rw [cap_emitOn]
  show (ite (s = 0) _ _ : Dir α × List (QFrame α)).1.decoderCap = _
  split
  · rw [cap_pass]
  · rfl

theorem cap_setInitWin (d : Dir α) (order : List Nat) (v : Nat) :
    (d.setInitWin order v).1.decoderCap = d.decoderCap := by
  unfold Dir.setInitWin
  rw [cap_pass]

theorem cap_applyEach (o : Dir α) (ord : Nat → List Nat) (k : Nat) (kvs : List (Nat × Nat)) :
    (applyEach o ord k kvs).1.decoderCap = o.decoderCap := by
  induction kvs generalizing o k with
  | nil => rfl
  | cons kv rest ih =>
    obtain ⟨id, v⟩ := kv
    simp only [H2.applyEach]
    split
    · rw [ih, cap_setInitWin]
    · split
      · rw [ih]
      · split
        · rw [ih]
        · rw [ih]

theorem cap_applySettings (o : Dir α) (ord : Nat → List Nat) (kvs : List (Nat × Nat)) :
    (applySettings o ord kvs).1.decoderCap = o.decoderCap := cap_applyEach o ord 0 _

theorem cap_header (d : Dir α) (sid : Nat) (b : List α) (es : Bool) (p : Prio) :
    (d.header sid b es p).1.decoderCap = d.decoderCap := by
  unfold Dir.header
  rw [cap_enqEmit]

theorem cap_pushPromise (d : Dir α) (sid pr : Nat) (b : List α) :
    (d.pushPromise sid pr b).1.decoderCap = d.decoderCap := by
  unfold Dir.pushPromise
  rw [cap_enqEmit]

/-- **no frame changes the limit**, on the frame's own direction or on the opposite one -/
theorem cap_process (d o : Dir α) (ord : Nat → List Nat) (op : Op α) :
    (process d o ord op).1.decoderCap = d.decoderCap ∧ (process d o ord op).2.1.decoderCap = o.decoderCap := by
  cases op with
  | data sid payload pad es => exact ⟨by simp only [process, Dir.data]; rw [cap_enqEmitAll], rfl⟩
  | headers sid es eh prio frag reenc =>
    simp only [process]
    split
    · exact ⟨cap_header _ _ _ _ _, rfl⟩
    · exact ⟨rfl, rfl⟩
  | continuation sid eh frag reenc =>
    simp only [process]
    split
    · split
      · exact ⟨cap_header _ _ _ _ _, rfl⟩
      · exact ⟨cap_pushPromise _ _ _ _, rfl⟩
      · exact ⟨rfl, rfl⟩
    · exact ⟨rfl, rfl⟩
  | pushPromise sid promised eh frag reenc =>
    simp only [process]
    split
    · exact ⟨cap_pushPromise _ _ _ _, rfl⟩
    · exact ⟨rfl, rfl⟩
  | priority sid prio => exact ⟨cap_enqEmit _ _, rfl⟩
  | rst sid code => exact ⟨cap_enqEmit _ _, rfl⟩
  | windowUpdate sid inc => exact ⟨rfl, cap_windowUpdate _ _ _ _⟩
  | settings kvs => exact ⟨rfl, cap_applySettings _ _ _⟩
  | settingsAck => exact ⟨rfl, rfl⟩
  | ping ack data => exact ⟨rfl, rfl⟩
  | goAway last code debug => exact ⟨rfl, rfl⟩
  | unknown t => exact ⟨rfl, rfl⟩

theorem cap_step (d o : Dir α) (ord : Nat → List Nat) (op : Op α) :
    (step d o ord op).1.decoderCap = d.decoderCap ∧ (step d o ord op).2.1.decoderCap = o.decoderCap := by
  unfold step
  split
  · exact ⟨rfl, rfl⟩
  · split
    · exact ⟨(cap_process d o ord op).1, (cap_process d o ord op).2⟩
    · exact ⟨rfl, rfl⟩

/-- in the tree as it is (`capFollows = false`) the sized step keeps both limits as well -/
theorem cap_stepSized (d o : Dir α) (ord : Nat → List Nat) (op : Op α) (us : List Nat) :
    (stepSized false d o ord op us).1.decoderCap = d.decoderCap ∧
    (stepSized false d o ord op us).2.1.decoderCap = o.decoderCap := by
  unfold stepSized
  split
  · exact ⟨rfl, rfl⟩
  · refine ⟨(cap_step d o ord op).1, ?_⟩
    simp only [Dir.capAfter, Bool.false_eq_true, if_false, ite_self]
    exact (cap_step d o ord op).2

/-- both decoders' limits -/
def Relay.caps (r : Relay α) : Nat × Nat := (r.cs.decoderCap, r.sc.decoderCap)

theorem caps_stepSized (r : Relay α) (e : EvS α) : (r.stepSized false e).1.caps = r.caps := by
  unfold Relay.stepSized Relay.caps
  cases e.ev.side with
  | client =>
    have h := cap_stepSized r.cs r.sc e.ev.ord e.ev.op e.updates
    simp only [h.1, h.2]
  | server =>
    have h := cap_stepSized r.sc r.cs e.ev.ord e.ev.op e.updates
    simp only [h.1, h.2]

theorem caps_runSized (r : Relay α) (es : List (EvS α)) : (r.runSized false es).1.caps = r.caps := by
  induction es generalizing r with
  | nil => rfl
  | cons e t ih => simp only [Relay.runSized]; rw [ih, caps_stepSized]

/-- every value the sender was ever allowed is a 32-bit number -/
theorem allowedEver_lt (side : Side) (hist : List (EvS α)) (hw : wireSettings hist) :
    ∀ v ∈ allowedEver side hist, v < 4294967296 := by
  induction hist with
  | nil => intro v hv; simp [allowedEver] at hv; omega
  | cons e t ih =>
    intro v hv
    simp only [allowedEver, List.mem_append] at hv
    rcases hv with hv | hv
    · split at hv
      · exact hw e (List.mem_cons_self ..) v hv
      · simp at hv
    · exact ih (fun e' he' => hw e' (List.mem_cons_of_mem _ he')) v hv

/-- a step whose block passes the decoder's limit is the step of the machine without sizes -/
theorem stepSized_eq_step (d o : Dir α) (ord : Nat → List Nat) (op : Op α) (us : List Nat)
    (h : d.acceptsBlock us = true) : stepSized false d o ord op us = step d o ord op := by
  unfold stepSized
  simp only [h, Bool.not_true, Bool.and_false, Bool.false_eq_true, if_false, Dir.capAfter, ite_self]

end H2
end FwdVerif
