/-
  C08 helper lemmas, part 11: the timed header read (`timedLoop`, `readTimed`) with the deadline
  fixed once (`Deadline.total`).
-/
import FwdVerif.Model.C08

namespace FwdVerif
namespace C08

theorem verdict_ne_timedOut (got : Bytes) : verdict got ≠ some .timedOut := by
  unfold verdict
  split
  · simp
  · simp
  · split <;> simp

theorem verdict_accepted {got : Bytes} {h : Header} {rest : Bytes} (hv : verdict got = some (.accepted h rest)) :
    readHeader got = .ok (h, rest) := by
  unfold verdict at hv
  split at hv
  · rename_i h' rest' heq
    simp only [Option.some.injEq, TRes.accepted.injEq] at hv
    rw [heq, hv.1, hv.2]
  · simp at hv
  · split at hv <;> simp at hv

theorem deadlineAt_le (timeout start : Nat) (limit : Option Nat) :
    deadlineAt timeout start limit ≤ start + timeout ∧ ∀ l, limit = some l → deadlineAt timeout start limit ≤ l := by
  unfold deadlineAt
  cases limit with
  | none => exact ⟨Nat.le_refl _, fun l h => by cases h⟩
  | some l => exact ⟨Nat.min_le_left _ _, fun l' h => by cases h; exact Nat.min_le_right _ _⟩

/- `verdict got` must stay folded: unfolding it evaluates the 232-byte buffer of `readHeader` -/
attribute [local irreducible] verdict

theorem timedLoop_nil (pol : Deadline) (timeout now dl : Nat) (got : Bytes) :
    timedLoop pol timeout [] now dl got =
      match verdict got with
      | some r => ⟨r, now⟩
      | none => ⟨.timedOut, dl⟩ := by rfl

theorem timedLoop_cons (pol : Deadline) (timeout now dl : Nat) (got : Bytes) (a : Arr) (as : List Arr) :
    timedLoop pol timeout (a :: as) now dl got =
      match verdict got with
      | some r => ⟨r, now⟩
      | none =>
        if max now a.time ≤ dl then
          timedLoop pol timeout as (max now a.time) (pol.next timeout dl (max now a.time)) (got ++ a.data)
        else ⟨.timedOut, dl⟩ := by rfl

theorem bytesOf_append (xs ys : List Arr) : bytesOf (xs ++ ys) = bytesOf xs ++ bytesOf ys := by
  induction xs with
  | nil => rfl
  | cons a as ih => simp [bytesOf, ih]

theorem lastTime_ge (as : List Arr) : ∀ now, now ≤ lastTime now as := by
  induction as with
  | nil => intro now; exact Nat.le_refl _
  | cons a as ih => intro now; exact Nat.le_trans (Nat.le_max_left _ _) (ih _)

theorem lastTime_le (as : List Arr) : ∀ now dl, now ≤ dl → (∀ a ∈ as, a.time ≤ dl) → lastTime now as ≤ dl := by
  induction as with
  | nil => intro now dl h _; exact h
  | cons a as ih =>
    intro now dl h ha
    exact ih _ _ (Nat.max_le.mpr ⟨h, ha a (List.mem_cons_self ..)⟩) (fun x hx => ha x (List.mem_cons_of_mem _ hx))

theorem lastTime_mem (as : List Arr) : ∀ now, ∀ a ∈ as, a.time ≤ lastTime now as := by
  induction as with
  | nil => intro _ a ha; cases ha
  | cons b bs ih =>
    intro now a ha
    cases ha with
    | head => exact Nat.le_trans (Nat.le_max_right _ _) (lastTime_ge bs _)
    | tail _ h => exact ih _ a h

/-- the time of a result lies between the reader's clock and the deadline, and a time-out is
    reported at the deadline exactly -/
theorem timedLoop_total_time (timeout dl : Nat) : ∀ (sched : List Arr) (now : Nat) (got : Bytes), now ≤ dl →
    now ≤ (timedLoop .total timeout sched now dl got).time ∧
    (timedLoop .total timeout sched now dl got).time ≤ dl ∧
    ((timedLoop .total timeout sched now dl got).res = .timedOut →
      (timedLoop .total timeout sched now dl got).time = dl) := by
  intro sched
  induction sched with
  | nil =>
    intro now got hn
    rw [timedLoop_nil]
    cases hv : verdict got with
    | some r =>
      refine ⟨Nat.le_refl _, hn, fun h => ?_⟩
      have h' : r = .timedOut := h
      exact absurd (h' ▸ hv) (verdict_ne_timedOut got)
    | none => exact ⟨hn, Nat.le_refl _, fun _ => rfl⟩
  | cons a as ih =>
    intro now got hn
    rw [timedLoop_cons]
    cases hv : verdict got with
    | some r =>
      refine ⟨Nat.le_refl _, hn, fun h => ?_⟩
      have h' : r = .timedOut := h
      exact absurd (h' ▸ hv) (verdict_ne_timedOut got)
    | none =>
      dsimp only
      by_cases ht : max now a.time ≤ dl
      · rw [if_pos ht]
        obtain ⟨i1, i2, i3⟩ := ih (max now a.time) (got ++ a.data) ht
        exact ⟨Nat.le_trans (Nat.le_max_left _ _) i1, i2, i3⟩
      · rw [if_neg ht]; exact ⟨hn, Nat.le_refl _, fun _ => rfl⟩

/-- a header that is complete with arrivals that all come in time gets the reader's verdict, at the
    time of the last of them -/
theorem timedLoop_total_in_time (timeout dl : Nat) (unused : List Arr) (r : TRes) :
    ∀ (used : List Arr) (now : Nat) (got : Bytes), now ≤ dl →
    (∀ k, k < used.length → verdict (got ++ bytesOf (used.take k)) = none) →
    verdict (got ++ bytesOf used) = some r →
    (∀ a ∈ used, a.time ≤ dl) →
    timedLoop .total timeout (used ++ unused) now dl got = ⟨r, lastTime now used⟩ := by
  intro used
  induction used with
  | nil =>
    intro now got _ _ hv _
    have hv' : verdict got = some r := by simpa [bytesOf] using hv
    cases unused with
    | nil => simp only [List.append_nil]; rw [timedLoop_nil, hv']; rfl
    | cons b bs => simp only [List.nil_append]; rw [timedLoop_cons, hv']; rfl
  | cons b bs ih =>
    intro now got hn hw hv hin
    have h0 : verdict got = none := by
      have := hw 0 (by simp)
      simpa [bytesOf] using this
    have hb : max now b.time ≤ dl := Nat.max_le.mpr ⟨hn, hin b (List.mem_cons_self ..)⟩
    simp only [List.cons_append]
    rw [timedLoop_cons, h0]
    dsimp only
    rw [if_pos hb]
    simp only [Deadline.next, lastTime]
    apply ih _ _ hb
    · intro k hk
      have := hw (k + 1) (by simp; omega)
      simpa [bytesOf, List.append_assoc] using this
    · simpa [bytesOf, List.append_assoc] using hv
    · exact fun x hx => hin x (List.mem_cons_of_mem _ hx)

/-- a header still incomplete when an arrival comes after the deadline is cut off at the deadline -/
theorem timedLoop_total_late (timeout dl : Nat) (a : Arr) (unused : List Arr) (hlate : dl < a.time) :
    ∀ (used : List Arr) (now : Nat) (got : Bytes), now ≤ dl →
    (∀ k, k ≤ used.length → verdict (got ++ bytesOf (used.take k)) = none) →
    timedLoop .total timeout (used ++ a :: unused) now dl got = ⟨.timedOut, dl⟩ := by
  intro used
  induction used with
  | nil =>
    intro now got _ hw
    have h0 : verdict got = none := by
      have := hw 0 (Nat.le_refl _)
      simpa [bytesOf] using this
    simp only [List.nil_append]
    rw [timedLoop_cons, h0]
    dsimp only
    rw [if_neg]
    have := Nat.le_max_right now a.time
    omega
  | cons b bs ih =>
    intro now got _ hw
    have h0 : verdict got = none := by
      have := hw 0 (Nat.zero_le _)
      simpa [bytesOf] using this
    simp only [List.cons_append]
    rw [timedLoop_cons, h0]
    dsimp only
    by_cases ht : max now b.time ≤ dl
    · rw [if_pos ht]
      simp only [Deadline.next]
      apply ih _ _ ht
      intro k hk
      have := hw (k + 1) (by simp; omega)
      simpa [bytesOf, List.append_assoc] using this
    · rw [if_neg ht]

/-- a peer that goes silent inside the header is cut off at the deadline -/
theorem timedLoop_total_silent (timeout dl : Nat) :
    ∀ (sched : List Arr) (now : Nat) (got : Bytes), now ≤ dl →
    (∀ k, k ≤ sched.length → verdict (got ++ bytesOf (sched.take k)) = none) →
    timedLoop .total timeout sched now dl got = ⟨.timedOut, dl⟩ := by
  intro sched
  induction sched with
  | nil =>
    intro now got _ hw
    have h0 : verdict got = none := by
      have := hw 0 (Nat.le_refl _)
      simpa [bytesOf] using this
    rw [timedLoop_nil, h0]
  | cons b bs ih =>
    intro now got _ hw
    have h0 : verdict got = none := by
      have := hw 0 (Nat.zero_le _)
      simpa [bytesOf] using this
    rw [timedLoop_cons, h0]
    dsimp only
    by_cases ht : max now b.time ≤ dl
    · rw [if_pos ht]
      simp only [Deadline.next]
      apply ih _ _ ht
      intro k hk
      have := hw (k + 1) (by simp; omega)
      simpa [bytesOf, List.append_assoc] using this
    · rw [if_neg ht]

/-- whatever the reader answers other than a time-out, it answers from the arrivals `used` that it
    consumed: none of them came after the answer, the header was still incomplete before the last of
    them, and the answer is the reader's verdict on exactly their bytes -/
theorem timedLoop_total_answer (timeout dl : Nat) (r : TRes) (t : Nat) (hr : r ≠ .timedOut) :
    ∀ (sched : List Arr) (now : Nat) (got : Bytes), now ≤ dl →
    timedLoop .total timeout sched now dl got = ⟨r, t⟩ →
    ∃ used unused, sched = used ++ unused ∧ verdict (got ++ bytesOf used) = some r ∧
      (∀ k, k < used.length → verdict (got ++ bytesOf (used.take k)) = none) ∧
      (∀ a ∈ used, a.time ≤ t) ∧ t = lastTime now used := by
  intro sched
  induction sched with
  | nil =>
    intro now got _ h
    rw [timedLoop_nil] at h
    cases hv : verdict got with
    | some r' =>
      rw [hv] at h
      have e1 : r' = r := congrArg TDone.res h
      have e2 : now = t := congrArg TDone.time h
      refine ⟨[], [], rfl, by simpa [bytesOf, e1] using hv, fun k hk => by simp at hk, fun a ha => by simp at ha, ?_⟩
      simp [lastTime, e2]
    | none =>
      rw [hv] at h
      exact absurd (congrArg TDone.res h).symm hr
  | cons a as ih =>
    intro now got hn h
    rw [timedLoop_cons] at h
    cases hv : verdict got with
    | some r' =>
      rw [hv] at h
      have e1 : r' = r := congrArg TDone.res h
      have e2 : now = t := congrArg TDone.time h
      refine ⟨[], a :: as, rfl, by simpa [bytesOf, e1] using hv, fun k hk => by simp at hk, fun a ha => by simp at ha, ?_⟩
      simp [lastTime, e2]
    | none =>
      rw [hv] at h
      dsimp only at h
      by_cases ht : max now a.time ≤ dl
      · rw [if_pos ht] at h
        simp only [Deadline.next] at h
        obtain ⟨used, unused, hs, hvd, hw, hin, hlt⟩ := ih _ _ ht h
        refine ⟨a :: used, unused, by simp [hs], by simpa [bytesOf, List.append_assoc] using hvd, ?_, ?_, ?_⟩
        · intro k hk
          cases k with
          | zero => simpa [bytesOf] using hv
          | succ k =>
            have := hw k (by simp at hk; omega)
            simpa [bytesOf, List.append_assoc] using this
        · intro x hx
          cases hx with
          | head =>
            rw [hlt]
            exact Nat.le_trans (Nat.le_max_right _ _) (lastTime_ge used _)
          | tail _ hx' => exact hin x hx'
        · simpa [lastTime] using hlt
      · rw [if_neg ht] at h
        exact absurd (congrArg TDone.res h).symm hr

end C08
end FwdVerif
