/-
  C18 helper lemmas, part i: the construction step (`Model/C18Tag.lean` `mkInstance`): the hex encoding
  of the boundary is injective and has the tag's shape.
-/
import FwdVerif.Lemmas.C18h

namespace FwdVerif
namespace C18

open Req

theorem hexNib_inj : ∀ a, a < 16 → ∀ b, b < 16 → hexNib a = hexNib b → a = b := by decide

theorem hexNib_lower : ∀ a, a < 16 → isLowerHex (hexNib a) = true := by decide

theorem hexByte_inj {x y : UInt8} (h1 : hexNib (x.toNat / 16) = hexNib (y.toNat / 16))
    (h2 : hexNib (x.toNat % 16) = hexNib (y.toNat % 16)) : x = y := by
  have hx := x.toNat_lt
  have hy := y.toNat_lt
  have e1 := hexNib_inj _ (by omega) _ (by omega) h1
  have e2 := hexNib_inj _ (by omega) _ (by omega) h2
  apply UInt8.toNat_inj.mp
  omega

theorem hexEnc_inj : ∀ {a b : Bytes}, hexEnc a = hexEnc b → a = b
  | [], [], _ => rfl
  | [], _ :: _, h => by simp [hexEnc] at h
  | _ :: _, [], h => by simp [hexEnc] at h
  | x :: xs, y :: ys, h => by
    simp only [hexEnc, List.cons.injEq] at h
    obtain ⟨h1, h2, h3⟩ := h
    rw [hexByte_inj h1 h2, hexEnc_inj h3]

theorem hexEnc_length : ∀ b : Bytes, (hexEnc b).length = 2 * b.length
  | [] => rfl
  | _ :: xs => by simp only [hexEnc, List.length_cons, hexEnc_length xs]; omega

theorem hexEnc_lower : ∀ (b : Bytes) (c : UInt8), c ∈ hexEnc b → isLowerHex c = true
  | [], c, h => by simp [hexEnc] at h
  | x :: xs, c, h => by
    have hx := x.toNat_lt
    simp only [hexEnc, List.mem_cons] at h
    rcases h with h | h | h
    · rw [h]; exact hexNib_lower _ (by omega)
    · rw [h]; exact hexNib_lower _ (by omega)
    · exact hexEnc_lower xs c h

theorem mkTag_inj {name b₁ b₂ : Bytes} (h : mkTag name b₁ = mkTag name b₂) : b₁ = b₂ :=
  (List.cons.inj (List.append_cancel_left h)).2

theorem mkInstance_some {name b : Bytes} {i : Instance} (h : mkInstance name (some b) = some i) :
    b.length = boundaryBytes ∧ i = { name := name, tag := mkTag name (hexEnc b) } := by
  simp only [mkInstance] at h
  split at h
  · rename_i hl; exact ⟨hl, (Option.some.inj h).symm⟩
  · cases h

theorem mkInstance_eq_some {name : Bytes} {ans : Option Bytes} {i : Instance}
    (h : mkInstance name ans = some i) :
    ∃ b, ans = some b ∧ b.length = boundaryBytes ∧ i.tag = mkTag name (hexEnc b) := by
  cases ans with
  | none => cases h
  | some b =>
    obtain ⟨hl, hi⟩ := mkInstance_some h
    exact ⟨b, rfl, hl, by rw [hi]⟩

/-- the tags of the live instances are pairwise different when the delivered boundaries are -/
theorem liveTags_pairwise (name : Bytes) : ∀ (answers : List (Option Bytes)),
    (answers.filterMap id).Pairwise (· ≠ ·) →
    ((liveInstances (mkInstance name) answers).map Instance.tag).Pairwise (· ≠ ·)
  | [], _ => List.Pairwise.nil
  | a :: rest, h => by
    have hrest : (rest.filterMap id).Pairwise (· ≠ ·) := by
      cases a with
      | none => simpa using h
      | some b =>
        have h' : (b :: rest.filterMap id).Pairwise (· ≠ ·) := by simpa using h
        exact List.Pairwise.of_cons h'
    have ih := liveTags_pairwise name rest hrest
    unfold liveInstances at ih ⊢
    rw [List.filterMap_cons]
    cases hm : mkInstance name a with
    | none => exact ih
    | some i =>
      simp only [List.map_cons]
      refine List.Pairwise.cons (fun t ht => ?_) ih
      obtain ⟨b, rfl, _, hi⟩ := mkInstance_eq_some hm
      have h' : (b :: rest.filterMap id).Pairwise (· ≠ ·) := by simpa using h
      have hb : ∀ x ∈ rest.filterMap id, b ≠ x := fun x hx => List.rel_of_pairwise_cons h' hx
      obtain ⟨j, hj, rfl⟩ := List.mem_map.mp ht
      obtain ⟨a', ha, hja⟩ := List.mem_filterMap.mp hj
      obtain ⟨b', rfl, _, htag⟩ := mkInstance_eq_some hja
      have hne : b ≠ b' := hb b' (List.mem_filterMap.mpr ⟨some b', ha, rfl⟩)
      intro heq
      rw [hi, htag] at heq
      exact hne (hexEnc_inj (mkTag_inj heq))

end C18
end FwdVerif
