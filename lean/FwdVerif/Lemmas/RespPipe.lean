/-
  C02 — the response pipeline (`processResponse`) taken apart (core Lean only).

  `pipeHeader` is the header map handed to the writers, `writeHO` / `writeFull` are the two writers
  (martian's head writer for header-only responses, `Response.Write` otherwise).
-/
import FwdVerif.Lemmas.RespRead

namespace FwdVerif
namespace Resp

open Ascii
open C16 (HMap goDel goSet goAdd CanonKeys NodupKeys Rule applyRules)
open Req (bs hget goGet trimOWS splitComma valuesContainToken parseNat? toHeader removeHopByHop upgradeType
          lowerFields mergeFields natToDec joinWith hopByHopNames)

/-! ### the pipeline in named pieces -/

/-- `res.Close` as the writers see it (`writeResponse`'s close decision incl. the two re-framings) -/
def pipeClose (rc : ReqCtx) (g : GoResp) : Bool := (frameForClient rc g).close

/-- the header map the writers receive -/
def pipeHeader (rc : ReqCtx) (g : GoResp) : HMap :=
  let resUp := upgradeType g.header
  let h1 := if rc.method == bs "CONNECT" then g.header else applyRules rc.rules g.header
  let h2 := removeHopByHop h1
  let h3 := if resUp.isEmpty then h2 else goSet (goSet h2 (bs "Connection") (bs "Upgrade")) (bs "Upgrade") resUp
  if pipeClose rc g then goAdd h3 (bs "Connection") (bs "close") else h3

/-- the `Trailer:` line of martian's head writer -/
def hoTrailerLine (g : GoResp) : List (Bytes × List Bytes) :=
  if g.trailer.isEmpty then [] else [(bs "trailer", [joinWith [44, 32] (trailerKeys g)])]

/-- martian's head writer -/
def writeHO (rc : ReqCtx) (g : GoResp) : ClientResp :=
  { minor := g.minor, status := g.status, reason := reasonOut g.reason,
    fields := mergeFields (lowerFields (pipeHeader rc g) ++ hoTrailerLine g),
    framing := Framing.none,
    body := .dropped, keepAlive := !pipeClose rc g }

/-- `res.ContentLength` as `Response.Write` sees it -/
def wLen (rc : ReqCtx) (g : GoResp) : Int := (frameForClient rc g).contentLength

def wChunked (rc : ReqCtx) (g : GoResp) : Bool := (frameForClient rc g).chunked && g.minor ≥ 1

def wClose (rc : ReqCtx) (g : GoResp) : Bool :=
  pipeClose rc g || (wLen rc g == -1 && g.minor ≥ 1 && !wChunked rc g && !g.uncompressed)

def wConnLine (rc : ReqCtx) (g : GoResp) : List (Bytes × List Bytes) :=
  if wClose rc g && !valuesContainToken [goGet (pipeHeader rc g) (bs "Connection")] (bs "close")
  then [(bs "connection", [bs "close"])] else []

def wLenFields (rc : ReqCtx) (g : GoResp) : List (Bytes × List Bytes) :=
  if wChunked rc g then [(bs "transfer-encoding", [bs "chunked"])] ++
    (if g.trailer.isEmpty then [] else [(bs "trailer", [joinWith [44] (trailerKeys g)])])
  else if wLen rc g ≥ 0 then [(bs "content-length", [natToDec (wLen rc g).toNat])]
  else []

def wExcluded : List Bytes := [bs "Content-Length", bs "Transfer-Encoding", bs "Trailer"]

def wRest (rc : ReqCtx) (g : GoResp) : List (Bytes × List Bytes) :=
  lowerFields ((pipeHeader rc g).filter fun e => !wExcluded.contains e.1)

def wFraming (rc : ReqCtx) (g : GoResp) : Framing :=
  if wChunked rc g then .chunked (trailerKeys g)
  else if wLen rc g ≥ 0 then .cl (wLen rc g).toNat
  else .eof

/-- `Response.Write` -/
def writeFull (rc : ReqCtx) (g : GoResp) : ClientResp :=
  { minor := g.minor, status := g.status, reason := reasonOut g.reason,
    fields := mergeFields (wConnLine rc g ++ wLenFields rc g ++ wRest rc g),
    framing := wFraming rc g,
    body := if g.uncompressed then .gunzip else .same, keepAlive := !wClose rc g }

theorem processResponse_eq (rc : ReqCtx) (o : OriginResp) :
    processResponse rc o =
      match readResponse rc o with
      | none => .badGateway
      | some g => if headerOnly rc.method g.status then .ok (writeHO rc g) else .ok (writeFull rc g) := by
  unfold processResponse
  cases readResponse rc o with
  | none => rfl
  | some g => rfl

/-- a forwarded response: what was read and which writer wrote it -/
theorem processResponse_ok {rc : ReqCtx} {o : OriginResp} {r : ClientResp}
    (h : processResponse rc o = .ok r) :
    ∃ g, readResponse rc o = some g ∧
      ((headerOnly rc.method g.status = true ∧ r = writeHO rc g) ∨
       (headerOnly rc.method g.status = false ∧ r = writeFull rc g)) := by
  rw [processResponse_eq] at h
  split at h
  · exact absurd h (by simp)
  · rename_i g hg
    refine ⟨g, hg, ?_⟩
    split at h
    · rename_i hho
      exact Or.inl ⟨hho, (Outcome.ok.inj h).symm⟩
    · rename_i hho
      exact Or.inr ⟨by simpa using hho, (Outcome.ok.inj h).symm⟩

/-! ### facts about what was read -/

section read
variable {rc : ReqCtx} {o : OriginResp} {g : GoResp}

theorem ReadOK.minor (ok : ReadOK rc o g) : g.minor = o.minor := congrArg GoResp.minor ok.hg
theorem ReadOK.status (ok : ReadOK rc o g) : g.status = o.status := congrArg GoResp.status ok.hg
theorem ReadOK.reason (ok : ReadOK rc o g) : g.reason = o.reason := congrArg GoResp.reason ok.hg
theorem ReadOK.chunked_eq (ok : ReadOK rc o g) : g.chunked = ok.chunked := congrArg GoResp.chunked ok.hg
theorem ReadOK.trailer_eq (ok : ReadOK rc o g) :
    g.trailer = (rrTrailer ok.chunked (rrLen rc o ok.chunked ok.h3 ok.n?).1).2 :=
  congrArg GoResp.trailer ok.hg

/-- chunked only for an HTTP/1.1 origin -/
theorem ReadOK.chunked_minor (ok : ReadOK rc o g) (hc : g.chunked = true) : o.minor ≠ 0 := by
  rw [ok.chunked_eq] at hc
  have h := ok.hch
  rw [hc] at h
  unfold rrChunked at h
  split at h
  · simp at h
  · split at h
    · simp at h
    · rename_i hm
      intro h0
      exact hm (by simp [h0])

theorem rrTrailer_nonempty {chunked : Bool} {h4 : HMap} (h : (rrTrailer chunked h4).2 ≠ []) :
    chunked = true := by
  unfold rrTrailer at h
  split at h
  · exact absurd rfl h
  · split at h
    · exact absurd rfl h
    · rename_i hc
      simpa using hc

/-- declared trailers only on a chunked response -/
theorem ReadOK.trailer_chunked (ok : ReadOK rc o g) (ht : g.trailer ≠ []) : g.chunked = true := by
  rw [ok.chunked_eq]
  rw [ok.trailer_eq] at ht
  exact rrTrailer_nonempty ht

theorem ReadOK.uncompressed_eq (ok : ReadOK rc o g) :
    g.uncompressed = rrGz rc o ok.chunked ok.n? (rrLen rc o ok.chunked ok.h3 ok.n?).2
      (rrTrailer ok.chunked (rrLen rc o ok.chunked ok.h3 ok.n?).1).1 := by
  exact (congrArg GoResp.uncompressed ok.hg).trans (rrFinish_uncompressed ..)

theorem ReadOK.header_eq (ok : ReadOK rc o g) :
    g.header =
      if g.uncompressed then
        goDel (goDel (rrTrailer ok.chunked (rrLen rc o ok.chunked ok.h3 ok.n?).1).1 (bs "Content-Encoding"))
          (bs "Content-Length")
      else (rrTrailer ok.chunked (rrLen rc o ok.chunked ok.h3 ok.n?).1).1 := by
  rw [ok.uncompressed_eq]
  exact (congrArg GoResp.header ok.hg).trans (rrFinish_header ..)

theorem rrLen_snd (rc : ReqCtx) (o : OriginResp) (chunked : Bool) (h3 : HMap) (n? : Option Nat) :
    (rrLen rc o chunked h3 n?).2 =
      if headerOnly rc.method o.status then 0
      else if chunked then -1
      else match n? with
        | some n => (n : Int)
        | none => -1 := by
  unfold rrLen headerOnly
  split
  · rfl
  · split
    · rfl
    · split <;> rfl

/-- the length of a response that is not header-only: −1 (unknown) or the declared length -/
theorem ReadOK.contentLength_full (ok : ReadOK rc o g) (hho : headerOnly rc.method o.status = false) :
    g.contentLength =
      if g.uncompressed then -1
      else if ok.chunked then -1
      else match ok.n? with
        | some n => (n : Int)
        | none => -1 := by
  have hhead : (rc.method == bs "HEAD") = false := by
    unfold headerOnly at hho
    simp only [Bool.or_eq_false_iff] at hho
    exact hho.1
  rw [ok.uncompressed_eq]
  refine (congrArg GoResp.contentLength ok.hg).trans ?_
  unfold rrFinish
  simp only [hhead, Bool.false_eq_true, if_false]
  split
  · rfl
  · show (rrLen rc o ok.chunked ok.h3 ok.n?).2 = _
    rw [rrLen_snd, hho]
    rfl

theorem ReadOK.close_eq (ok : ReadOK rc o g) :
    g.close = ((rrConn o).1 ||
      ((rrLen rc o ok.chunked ok.h3 ok.n?).2 == -1 && !ok.chunked && bodyAllowed o.status)) := by
  exact congrArg GoResp.close ok.hg

/-- unknown length without chunking (and without transparent gzip) ⇒ the origin connection is
    read to its end and `Close` is set -/
theorem ReadOK.close_of_unknown (ok : ReadOK rc o g) (hho : headerOnly rc.method o.status = false)
    (hlen : g.contentLength < 0) (hch : g.chunked = false) (hunc : g.uncompressed = false) :
    g.close = true := by
  have hba : bodyAllowed o.status = true := by
    unfold headerOnly at hho
    simp only [Bool.or_eq_false_iff, Bool.not_eq_false'] at hho
    exact hho.2
  rw [ok.chunked_eq] at hch
  have hl := ok.contentLength_full hho
  rw [hunc, hch] at hl
  simp only [Bool.false_eq_true, if_false] at hl
  rw [ok.close_eq, rrLen_snd, hho, hch, hba]
  simp only [Bool.false_eq_true, if_false]
  cases hn : ok.n? with
  | none => simp
  | some n =>
    rw [hn] at hl
    simp only at hl
    omega

/-- transparent gzip happens only when solicited, on a gzip-coded response that is not header-only -/
theorem ReadOK.gz_facts (ok : ReadOK rc o g) (hunc : g.uncompressed = true) :
    rc.solicitedGzip = true ∧
    eqFold (goGet (rrTrailer ok.chunked (rrLen rc o ok.chunked ok.h3 ok.n?).1).1 (bs "Content-Encoding"))
      (bs "gzip") = true ∧
    headerOnly rc.method o.status = false := by
  rw [ok.uncompressed_eq] at hunc
  unfold rrGz at hunc
  simp only [Bool.and_eq_true] at hunc
  obtain ⟨⟨⟨⟨hb, hh⟩, _⟩, hs⟩, he⟩ := hunc
  refine ⟨hs, he, ?_⟩
  have hhead : (rc.method == bs "HEAD") = false := by simpa using hh
  unfold headerOnly
  rw [hhead, Bool.false_or]
  split at hb
  · simpa [hhead] using hb
  · rw [rrLen_snd] at hb
    by_cases hho : headerOnly rc.method o.status = true
    · simp [hho] at hb
    · unfold headerOnly at hho
      rw [hhead, Bool.false_or] at hho
      simpa using hho

end read

/-! ### `frameForClient`: close decision and re-framing, as a function of six facts -/

/-- `frameForClient` for a response that is not header-only: `a` = the client speaks HTTP/1.1,
    `b` = the response is HTTP/1.1, `c` = chunked, `k` = close so far, `u` = `Uncompressed`,
    `L` = `ContentLength` -/
def frameCore (a b c k u : Bool) (L : Int) : Framed :=
  let f0 : Framed := { chunked := c, contentLength := L, close := k }
  let f1 : Framed := if !a && c then { chunked := false, contentLength := -1, close := true } else f0
  if u && f1.contentLength < 0 && !f1.chunked && !f1.close then
    if b && a then { f1 with chunked := true } else { f1 with close := true }
  else f1

theorem frameForClient_full {rc : ReqCtx} {g : GoResp} (hho : headerOnly rc.method g.status = false) :
    frameForClient rc g =
      frameCore (decide (rc.reqMinor ≥ 1)) (decide (g.minor ≥ 1)) g.chunked (g.close || rc.reqClose)
        g.uncompressed g.contentLength := by
  unfold frameForClient frameCore
  simp only [hho, Bool.not_false, Bool.and_true]

/-- header-only: nothing is re-framed -/
theorem frameForClient_ho {rc : ReqCtx} {g : GoResp} (hho : headerOnly rc.method g.status = true) :
    frameForClient rc g =
      { chunked := g.chunked, contentLength := g.contentLength, close := g.close || rc.reqClose } := by
  unfold frameForClient
  simp only [hho, Bool.not_true, Bool.and_false, Bool.false_eq_true, if_false]

/-- an HTTP/1.0 client is never promised a chunked body -/
theorem frameCore_http10 (b c k u : Bool) (L : Int) : (frameCore false b c k u L).chunked = false := by
  unfold frameCore
  cases b <;> cases c <;> cases k <;> cases u <;> simp <;> split <;> rfl

/-- neither chunked (for the writer) nor a length ⇒ the writer closes: given that the length is −1 or
    non-negative, that chunked implies an HTTP/1.1 response, and that the transport has set `Close`
    for an unknown length without chunking and without transparent gzip -/
theorem frameCore_unframed_closes {a b c k0 q u : Bool} {L : Int} (hL : L = -1 ∨ 0 ≤ L)
    (hcb : c = true → b = true) (hk : L < 0 → c = false → u = false → k0 = true)
    (hch : ((frameCore a b c (k0 || q) u L).chunked && b) = false)
    (hlen : (frameCore a b c (k0 || q) u L).contentLength < 0) :
    ((frameCore a b c (k0 || q) u L).close ||
      ((frameCore a b c (k0 || q) u L).contentLength == -1 && b &&
        !((frameCore a b c (k0 || q) u L).chunked && b) && !u)) = true := by
  rcases hL with rfl | hL
  · have hk' := hk (by decide)
    revert hch hlen hcb hk'
    unfold frameCore
    cases a <;> cases b <;> cases c <;> cases k0 <;> cases q <;> cases u <;> simp
  · have h1 : ¬ L < 0 := by omega
    revert hch hlen hcb
    unfold frameCore
    cases a <;> cases b <;> cases c <;> cases k0 <;> cases q <;> cases u <;> simp [h1] <;> omega

/-- a transparently gunzipped response has no length -/
theorem frameCore_len_unknown (a b c k u : Bool) : (frameCore a b c k u (-1)).contentLength = -1 := by
  unfold frameCore
  cases a <;> cases b <;> cases c <;> cases k <;> cases u <;> simp <;> split <;> rfl

/-! ### the header map that was read -/

/-- keys the transport's read may change -/
def readKeys : List Bytes :=
  [bs "Connection", bs "Transfer-Encoding", bs "Content-Length", bs "Trailer", bs "Content-Encoding"]

section header
variable {rc : ReqCtx} {o : OriginResp} {g : GoResp}

theorem ReadOK.h5_derived (ok : ReadOK rc o g) :
    Derived [bs "Connection", bs "Transfer-Encoding", bs "Content-Length", bs "Trailer"]
      (toHeader o.fields) (rrTrailer ok.chunked (rrLen rc o ok.chunked ok.h3 ok.n?).1).1 :=
  ((rrConn_derived o).mono (by simp)).trans (ok.derived5.mono (by simp [framingKeys]))

theorem ReadOK.header_derived (ok : ReadOK rc o g) : Derived readKeys (toHeader o.fields) g.header := by
  rw [ok.header_eq]
  have d5 := ok.h5_derived.mono (T := readKeys) (by simp [readKeys])
  split
  · exact (d5.trans (Derived.del _ _ (by rw [ck_CE]; simp [readKeys]))).trans
      (Derived.del _ _ (by rw [ck_CL]; simp [readKeys]))
  · exact d5

/-- without transparent gzip `Content-Encoding` is not touched -/
theorem ReadOK.header_derived_plain (ok : ReadOK rc o g) (hunc : g.uncompressed = false) :
    Derived [bs "Connection", bs "Transfer-Encoding", bs "Content-Length", bs "Trailer"]
      (toHeader o.fields) g.header := by
  rw [ok.header_eq, hunc]
  exact ok.h5_derived

theorem ReadOK.canon (ok : ReadOK rc o g) : CanonKeys g.header :=
  ok.header_derived.canon (canonKeys_toHeader _)
theorem ReadOK.nodup (ok : ReadOK rc o g) : NodupKeys g.header :=
  ok.header_derived.nodup (nodupKeys_toHeader _)

theorem conn_not_mem_framing : bs "Connection" ∉
    [bs "Transfer-Encoding", bs "Content-Length", bs "Trailer", bs "Content-Encoding"] := by
  bs_norm; decide

/-- the `Connection` values the modifiers see: those of `h1` -/
theorem ReadOK.lookup_connection (ok : ReadOK rc o g) :
    g.header.lookup (bs "Connection") = (rrConn o).2.lookup (bs "Connection") := by
  have d : Derived [bs "Transfer-Encoding", bs "Content-Length", bs "Trailer", bs "Content-Encoding"]
      (rrConn o).2 g.header := by
    rw [ok.header_eq]
    have d5 := ok.derived5.mono
      (T := [bs "Transfer-Encoding", bs "Content-Length", bs "Trailer", bs "Content-Encoding"])
      (by simp [framingKeys])
    split
    · exact (d5.trans (Derived.del _ _ (by rw [ck_CE]; simp))).trans (Derived.del _ _ (by rw [ck_CL]; simp))
    · exact d5
  exact d.agree _ conn_not_mem_framing

theorem rrConn_lookup_connection (o : OriginResp) :
    (rrConn o).2.lookup (bs "Connection") =
      if o.minor ≠ 0 ∧ valuesContainToken (hget (toHeader o.fields) (bs "Connection")) (bs "close") = true
      then none else (toHeader o.fields).lookup (bs "Connection") := by
  unfold rrConn
  simp only
  by_cases hm : (o.minor == 0) = true
  · have : o.minor = 0 := by simpa using hm
    simp [this]
  · have hm' : o.minor ≠ 0 := by simpa using hm
    simp only [hm, Bool.false_eq_true, if_false]
    by_cases hc : valuesContainToken (hget (toHeader o.fields) (bs "Connection")) (bs "close") = true
    · simp only [hc, if_true, hm', ne_eq, not_false_eq_true, and_self]
      rw [lookup_goDel, ck_Connection]
      simp
    · simp [hc]

/-- the `Connection` values the hop-by-hop modifier sees are the origin's, or none at all -/
theorem ReadOK.hget_connection (ok : ReadOK rc o g) :
    hget g.header (bs "Connection") =
      if o.minor ≠ 0 ∧ valuesContainToken (hget (toHeader o.fields) (bs "Connection")) (bs "close") = true
      then [] else hget (toHeader o.fields) (bs "Connection") := by
  have h1 : hget g.header (bs "Connection") = ((rrConn o).2.lookup (bs "Connection")).getD [] := by
    unfold hget C16.HMap.get
    rw [ok.lookup_connection]
  rw [h1, rrConn_lookup_connection]
  split <;> rfl

end header

/-! ### rules -/

/-- the configured rules are what the flag parser produces and none is a `%name` rule -/
def RulesOK (rc : ReqCtx) : Prop := C16.NoRename rc.rules ∧ ∀ r ∈ rc.rules, C16.ValidRule r

theorem rulesOK_nil {rc : ReqCtx} (h : rc.rules = []) : RulesOK rc := by
  unfold RulesOK C16.NoRename
  rw [h]
  exact ⟨fun r hr => absurd hr (by simp), fun r hr => absurd hr (by simp)⟩

theorem applyRules_canon_nodup {rs : List Rule} {h : HMap} (hr : C16.NoRename rs)
    (hv : ∀ r ∈ rs, C16.ValidRule r) (hc : CanonKeys h) (hn : NodupKeys h) :
    CanonKeys (applyRules rs h) ∧ NodupKeys (applyRules rs h) := by
  induction rs generalizing h with
  | nil => exact ⟨hc, hn⟩
  | cons r rs ih =>
    obtain ⟨_, h2, h3⟩ :=
      C16.applyRule_spec (hr r List.mem_cons_self) (hv r List.mem_cons_self) hc hn
    exact ih (fun r' hr' => hr r' (List.mem_cons_of_mem _ hr'))
      (fun r' hr' => hv r' (List.mem_cons_of_mem _ hr')) h2 h3

/-! ### the header map handed to the writers -/

/-- the map after the response modifiers (rules, hop-by-hop removal) -/
def pipeH2 (rc : ReqCtx) (g : GoResp) : HMap :=
  removeHopByHop (if rc.method == bs "CONNECT" then g.header else applyRules rc.rules g.header)

theorem pipeHeader_eq (rc : ReqCtx) (g : GoResp) :
    pipeHeader rc g =
      let h3 := if (upgradeType g.header).isEmpty then pipeH2 rc g
        else goSet (goSet (pipeH2 rc g) (bs "Connection") (bs "Upgrade")) (bs "Upgrade") (upgradeType g.header)
      if pipeClose rc g then goAdd h3 (bs "Connection") (bs "close") else h3 := rfl

theorem pipeHeader_derived (rc : ReqCtx) (g : GoResp) :
    Derived [bs "Connection", bs "Upgrade"] (pipeH2 rc g) (pipeHeader rc g) := by
  rw [pipeHeader_eq]
  simp only
  have d3 : Derived [bs "Connection", bs "Upgrade"] (pipeH2 rc g)
      (if (upgradeType g.header).isEmpty then pipeH2 rc g
        else goSet (goSet (pipeH2 rc g) (bs "Connection") (bs "Upgrade")) (bs "Upgrade") (upgradeType g.header)) := by
    split
    · exact Derived.refl _ _
    · exact (Derived.set _ _ _ (by rw [ck_Connection]; simp) tok_Connection).trans
        (Derived.set _ _ _ (by rw [ck_Upgrade]; simp) tok_Upgrade)
  split
  · exact d3.trans (Derived.add _ _ _ (by rw [ck_Connection]; simp) tok_Connection)
  · exact d3

theorem pipeH2_canon_nodup {rc : ReqCtx} {g : GoResp} (hr : RulesOK rc) (hc : CanonKeys g.header)
    (hn : NodupKeys g.header) : CanonKeys (pipeH2 rc g) ∧ NodupKeys (pipeH2 rc g) := by
  unfold pipeH2
  split
  · exact ⟨canonKeys_removeHopByHop hc, nodupKeys_removeHopByHop hn⟩
  · obtain ⟨h1, h2⟩ := applyRules_canon_nodup hr.1 hr.2 hc hn
    exact ⟨canonKeys_removeHopByHop h1, nodupKeys_removeHopByHop h2⟩

theorem pipeHeader_canon_nodup {rc : ReqCtx} {g : GoResp} (hr : RulesOK rc) (hc : CanonKeys g.header)
    (hn : NodupKeys g.header) : CanonKeys (pipeHeader rc g) ∧ NodupKeys (pipeHeader rc g) := by
  obtain ⟨h1, h2⟩ := pipeH2_canon_nodup hr hc hn
  exact ⟨(pipeHeader_derived rc g).canon h1, (pipeHeader_derived rc g).nodup h2⟩

/-- without rules the modifiers only remove: what survives is what was read -/
theorem pipeH2_lookup {rc : ReqCtx} {g : GoResp} (hrules : rc.rules = []) (k : Bytes) :
    (pipeH2 rc g).lookup k =
      if k ∈ hopByHopNames.map canonicalKey then none
      else if k ∈ nominatedOf (hget g.header (bs "Connection")) then none
      else g.header.lookup k := by
  have : (if rc.method == bs "CONNECT" then g.header else applyRules rc.rules g.header) = g.header := by
    rw [hrules]; split <;> rfl
  unfold pipeH2
  rw [this, lookup_removeHopByHop, nominatedOf_canon]

/-- static hop-by-hop keys never survive the modifiers, whatever the rules -/
theorem pipeH2_lookup_static (rc : ReqCtx) (g : GoResp) {k : Bytes}
    (hk : k ∈ hopByHopNames.map canonicalKey) : (pipeH2 rc g).lookup k = none := by
  unfold pipeH2
  rw [lookup_removeHopByHop, if_pos hk]

end Resp
end FwdVerif
