/-
  C08 helper lemmas, part 3: CRLF positions, the byte-wise scan, panic-freedom of the parts.
-/
import FwdVerif.Lemmas.C08Refine

namespace FwdVerif
namespace C08

/-! ### CRLF positions -/

theorem pairAt_cons (c : UInt8) (bs : Bytes) (i : Nat) : pairAt (c :: bs) (i + 1) = pairAt bs i := by
  simp [pairAt]

theorem crlfAt_cons (c : UInt8) (bs : Bytes) (i : Nat) : crlfAt (c :: bs) (i + 1) = crlfAt bs i := by
  simp [crlfAt, pairAt_cons]

theorem crlfAt_zero_cons (c : UInt8) (bs : Bytes) :
    crlfAt (c :: bs) 0 = (c == 13 && bs.head? == some 10) := by
  cases bs with
  | nil => simp [crlfAt, pairAt, crlf]
  | cons d ds => simp [crlfAt, pairAt, crlf]

theorem crlfAt_nil (i : Nat) : crlfAt [] i = false := by
  simp [crlfAt, pairAt, crlf]

theorem crlfAt_lt_length {bs : Bytes} {i : Nat} (h : crlfAt bs i = true) : i + 2 ≤ bs.length := by
  have : (pairAt bs i).length = 2 := by
    have : pairAt bs i = crlf := by simpa [crlfAt] using h
    rw [this]; rfl
  simp [pairAt, List.length_take] at this
  omega

/-- what `firstCRLFEnd` finds -/
theorem firstCRLFEnd_some {bs : Bytes} {n : Nat} (h : firstCRLFEnd bs = some n) :
    2 ≤ n ∧ crlfAt bs (n - 2) = true ∧ ∀ j, j + 2 < n → crlfAt bs j = false := by
  induction bs generalizing n with
  | nil => simp [firstCRLFEnd] at h
  | cons c cs ih =>
    unfold firstCRLFEnd at h
    split at h
    · rename_i hc
      injection h with h; subst h
      refine ⟨by omega, ?_, ?_⟩
      · rw [show (2 - 2 : Nat) = 0 from rfl, crlfAt_zero_cons]; exact hc
      · intro j hj; omega
    · rename_i hc
      cases h' : firstCRLFEnd cs with
      | none => simp [h'] at h
      | some m =>
        simp [h'] at h
        subst h
        obtain ⟨h2, hat, hbefore⟩ := ih h'
        refine ⟨by omega, ?_, ?_⟩
        · have : m + 1 - 2 = (m - 2) + 1 := by omega
          rw [this, crlfAt_cons]; exact hat
        · intro j hj
          cases j with
          | zero => rw [crlfAt_zero_cons]; simpa using hc
          | succ j => rw [crlfAt_cons]; exact hbefore j (by omega)

theorem firstCRLFEnd_of_crlfAt {bs : Bytes} {j : Nat} (h : crlfAt bs j = true) :
    ∃ n, firstCRLFEnd bs = some n ∧ n ≤ j + 2 := by
  induction bs generalizing j with
  | nil => simp [crlfAt_nil] at h
  | cons c cs ih =>
    unfold firstCRLFEnd
    split
    · exact ⟨2, rfl, by omega⟩
    · rename_i hc
      cases j with
      | zero => rw [crlfAt_zero_cons] at h; exact absurd h hc
      | succ j =>
        rw [crlfAt_cons] at h
        obtain ⟨n, hn, hle⟩ := ih h
        exact ⟨n + 1, by simp [hn], by omega⟩

theorem crlfAt_false_of_none {bs : Bytes} (h : firstCRLFEnd bs = none) (j : Nat) : crlfAt bs j = false := by
  cases hc : crlfAt bs j with
  | false => rfl
  | true =>
    obtain ⟨n, hn, _⟩ := firstCRLFEnd_of_crlfAt hc
    rw [h] at hn; cases hn

theorem firstCRLFEnd_le_length {bs : Bytes} {n : Nat} (h : firstCRLFEnd bs = some n) : n ≤ bs.length := by
  obtain ⟨h2, hat, _⟩ := firstCRLFEnd_some h
  have := crlfAt_lt_length hat
  omega

/-- no CR in `pre`: the first CRLF of `pre ++ t` is the first CRLF of `t` -/
theorem firstCRLFEnd_append_clean {pre : Bytes} (hpre : ∀ c ∈ pre, c ≠ 13) (t : Bytes) :
    firstCRLFEnd (pre ++ t) = (firstCRLFEnd t).map (· + pre.length) := by
  induction pre with
  | nil => simp
  | cons c cs ih =>
    have hc : c ≠ 13 := hpre c (by simp)
    have ih' := ih (fun x hx => hpre x (by simp [hx]))
    rw [List.cons_append, firstCRLFEnd]
    have : (c == 13 && (cs ++ t).head? == some 10) = false := by simp [hc]
    rw [this]
    simp only [Bool.false_eq_true, if_false]
    rw [ih']
    cases firstCRLFEnd t <;> simp; omega

theorem firstCRLFEnd_crlf_cons (rest : Bytes) : firstCRLFEnd (13 :: 10 :: rest) = some 2 := by
  simp [firstCRLFEnd]

/-- a CRLF found in a prefix is found in the whole -/
theorem firstCRLFEnd_append_of_some {a : Bytes} {n : Nat} (h : firstCRLFEnd a = some n) (p : Bytes) :
    firstCRLFEnd (a ++ p) = some n := by
  induction a generalizing n with
  | nil => simp [firstCRLFEnd] at h
  | cons c cs ih =>
    rw [List.cons_append]
    unfold firstCRLFEnd at h ⊢
    by_cases hc : (c == 13 && cs.head? == some 10) = true
    · rw [if_pos hc] at h
      have : (c == 13 && (cs ++ p).head? == some 10) = true := by
        cases cs with
        | nil => simp at hc
        | cons d ds => simpa using hc
      rw [if_pos this]; exact h
    · rw [if_neg hc] at h
      cases h' : firstCRLFEnd cs with
      | none => simp [h'] at h
      | some m =>
        have hm := ih h'
        have hne : ¬ (c == 13 && (cs ++ p).head? == some 10) = true := by
          cases cs with
          | nil => simp [firstCRLFEnd] at h'
          | cons d ds => simpa using hc
        rw [if_neg hne, hm]
        simpa [h'] using h

/-! ### the scan -/

theorem untilS_found (bs : Bytes) {n : Nat} (hn : firstCRLFEnd bs = some n) :
    ∀ fuel idx, 1 ≤ idx → idx + 1 ≤ n → n ≤ idx + fuel →
      untilS bs fuel idx = .ok (bs.take (n - 2), bs.drop n) := by
  obtain ⟨h2, hat, hbefore⟩ := firstCRLFEnd_some hn
  have hlen := firstCRLFEnd_le_length hn
  intro fuel
  induction fuel with
  | zero => intro idx _ h1 h2; omega
  | succ f ih =>
    intro idx h1 hlo hhi
    unfold untilS
    rw [if_pos (by omega)]
    by_cases he : idx + 1 = n
    · have : idx - 1 = n - 2 := by omega
      rw [this, hat]
      simp only [if_true]
      have e2 : idx + 1 = n := he
      rw [e2]
    · have hf : crlfAt bs (idx - 1) = false := hbefore _ (by omega)
      rw [hf]
      simp only [Bool.false_eq_true, if_false]
      exact ih (idx + 1) (by omega) (by omega) (by omega)

theorem untilS_ok {bs : Bytes} : ∀ {fuel idx : Nat} {b rest : Bytes},
    untilS bs fuel idx = .ok (b, rest) →
      ∃ m, idx ≤ m ∧ m < idx + fuel ∧ m < bs.length ∧ crlfAt bs (m - 1) = true ∧
        b = bs.take (m - 1) ∧ rest = bs.drop (m + 1) := by
  intro fuel
  induction fuel with
  | zero => intro idx b rest h; simp [untilS] at h
  | succ f ih =>
    intro idx b rest h
    unfold untilS at h
    split at h
    · rename_i hlt
      split at h
      · rename_i hc
        injection h with h
        injection h with hb hr
        exact ⟨idx, by omega, by omega, hlt, hc, hb.symm, hr.symm⟩
      · obtain ⟨m, h1, h2, h3, h4, h5, h6⟩ := ih h
        exact ⟨m, by omega, by omega, h3, h4, h5, h6⟩
    · cases h

theorem untilS_ne_panic (bs : Bytes) : ∀ fuel idx, untilS bs fuel idx ≠ .panic := by
  intro fuel
  induction fuel with
  | zero => intro idx; simp [untilS]
  | succ f ih =>
    intro idx
    unfold untilS
    split
    · split
      · simp
      · exact ih _
    · simp

end C08
end FwdVerif
