/-
  C14 — helper lemmas about the string-level helpers (dnsDomainIs, dnsDomainLevels,
  isPlainHostName, localHostOrDomainIs, shExpMatch).
-/
import FwdVerif.Spec.C14

namespace FwdVerif
namespace C14

open Ascii

theorem splitOn_length (sep : UInt8) (s : Bytes) : (splitOn sep s).length = s.count sep + 1 := by
  induction s with
  | nil => simp [splitOn]
  | cons c cs ih =>
    by_cases h : c == sep
    · simp [splitOn, h, ih, List.count_cons]
    · simp only [splitOn, h, List.count_cons]
      cases hs : splitOn sep cs with
      | nil => simp [hs] at ih
      | cons x t => simp [hs] at ih ⊢; omega

theorem isPlain_eq_spec (host : Bytes) : isPlainHostName host = specIsPlainHostName host := by
  unfold isPlainHostName specIsPlainHostName
  induction host with
  | nil => simp
  | cons c cs ih =>
    simp only [List.findIdx?_cons, List.contains_cons]
    by_cases h1 : c = 46
    · subst h1; simp
    · by_cases h2 : c = 58
      · subst h2; simp
      · have a1 : (c == 46) = false := beq_eq_false_iff_ne.mpr h1
        have a2 : (c == 58) = false := beq_eq_false_iff_ne.mpr h2
        have e1 : ((46 : UInt8) == c) = false := beq_eq_false_iff_ne.mpr (Ne.symm h1)
        have e2 : ((58 : UInt8) == c) = false := beq_eq_false_iff_ne.mpr (Ne.symm h2)
        simp only [a1, a2, e1, e2, Bool.or_self, Bool.false_eq_true, ↓reduceIte, Bool.false_or]
        rw [← ih]
        cases List.findIdx? (fun c => c == 46 || c == 58) cs <;> simp

theorem dnsDomainIs_iff (host domain : Bytes) :
    dnsDomainIs host domain = true ↔ domain <:+ host := by
  unfold dnsDomainIs
  rw [List.suffix_iff_eq_drop]
  simp only [Bool.and_eq_true, decide_eq_true_eq, beq_iff_eq]
  constructor
  · rintro ⟨_, h⟩; exact h.symm
  · intro h
    refine ⟨?_, h.symm⟩
    have := congrArg List.length h
    simp at this
    omega

theorem dnsDomainIs_eq_spec (host domain : Bytes) : dnsDomainIs host domain = specDnsDomainIs host domain := by
  have h1 := dnsDomainIs_iff host domain
  have h2 : specDnsDomainIs host domain = true ↔ domain <:+ host := by
    unfold specDnsDomainIs; exact List.isSuffixOf_iff_suffix
  cases h : dnsDomainIs host domain <;> cases h' : specDnsDomainIs host domain <;> simp_all

theorem lhod_aux (host : Bytes) : ∀ d : Bytes, (46 : UInt8) ∉ host →
    ((host ++ [46]).isPrefixOf d || host == d) = (d.takeWhile (· != 46) == host) := by
  induction host with
  | nil =>
    intro d _
    cases d with
    | nil => simp
    | cons c d' =>
      by_cases h : c = 46
      · subst h; simp [List.isPrefixOf, List.takeWhile]
      · have a1 : ((46 : UInt8) == c) = false := beq_eq_false_iff_ne.mpr (Ne.symm h)
        have a2 : (c != 46) = true := by simp [bne, beq_eq_false_iff_ne.mpr h]
        simp [List.isPrefixOf, List.takeWhile, a1, a2]
  | cons a hs ih =>
    intro d hmem
    have ha : a ≠ 46 := fun h => hmem (by simp [h])
    have hmem' : (46 : UInt8) ∉ hs := fun h => hmem (List.mem_cons_of_mem _ h)
    cases d with
    | nil => simp
    | cons c d' =>
      by_cases h : c = 46
      · subst h
        have : (a == (46 : UInt8)) = false := beq_eq_false_iff_ne.mpr ha
        simp [List.isPrefixOf, List.takeWhile, this]
      · have a2 : (c != 46) = true := by simp [bne, beq_eq_false_iff_ne.mpr h]
        have := ih d' hmem'
        simp only [List.cons_append, List.isPrefixOf, List.takeWhile, a2]
        by_cases hac : a = c
        · subst hac
          simp only [BEq.rfl, Bool.true_and]
          rw [show (a :: hs == a :: d') = (hs == d') by simp]
          rw [this]; simp
        · have : (a == c) = false := beq_eq_false_iff_ne.mpr hac
          simp [this, Ne.symm hac]

theorem lhod_eq_spec (host d : Bytes) (h : host.contains 46 = false) :
    localHostOrDomainIs host d = specLocalHostOrDomainIs host d := by
  have hm : (46 : UInt8) ∉ host := by
    intro hin
    have : host.contains 46 = true := by simpa using hin
    rw [h] at this; exact Bool.false_ne_true this
  unfold localHostOrDomainIs specLocalHostOrDomainIs firstLabel
  rw [h]
  have := lhod_aux host d hm
  rw [Bool.or_comm] at this
  simp only [Bool.not_false, Bool.true_and]
  rw [this]
  by_cases e : host = d
  · subst e
    simp
    -- takeWhile over a dot-free list is the list
    have : ∀ l : Bytes, (46 : UInt8) ∉ l → l.takeWhile (· != 46) = l := by
      intro l; induction l with
      | nil => simp
      | cons x xs ih =>
        intro hx
        have hx1 : x ≠ 46 := fun h => hx (by simp [h])
        have : (x != 46) = true := by simp [bne, beq_eq_false_iff_ne.mpr hx1]
        simp [List.takeWhile, this, ih (fun h => hx (List.mem_cons_of_mem _ h))]
    rw [this host hm]
  · have : (host == d) = false := beq_eq_false_iff_ne.mpr e
    simp [this]
end C14
end FwdVerif
