/-
  C17 helper lemmas, part 1: the byte-level lexer is compositional.
  `lexAll (a ++ "|" ++ b) = lexAll a ++ [bar] ++ lexAll b` and `lexAll ("(?:" ++ a ++ ")")`.
-/
import FwdVerif.Model.C17

namespace FwdVerif
namespace C17

theorem lexRun_append (lx : Lex) (a b : Bytes) :
    lexRun lx (a ++ b) =
      match lexRun lx a with
      | .error e => .error e
      | .ok (lx', ts) =>
        match lexRun lx' b with
        | .error e => .error e
        | .ok (lx'', ts') => .ok (lx'', ts ++ ts') := by
  induction a generalizing lx with
  | nil =>
    simp only [List.nil_append, lexRun]
    cases lexRun lx b with
    | error e => rfl
    | ok p => cases p; simp
  | cons c cs ih =>
    simp only [List.cons_append, lexRun]
    cases h : lexStep lx c with
    | error e => rfl
    | ok p =>
      obtain ⟨lx1, t1⟩ := p
      simp only [ih lx1]
      cases lexRun lx1 cs with
      | error e => rfl
      | ok q =>
        obtain ⟨lx2, t2⟩ := q
        simp only []
        cases lexRun lx2 b with
        | error e => rfl
        | ok r => obtain ⟨lx3, t3⟩ := r; simp [List.append_assoc]

/-- in normal mode `|` always yields the `bar` token and resets the lexer -/
theorem lexStep_bar (r : Rep) : lexStep { mode := .normal, rep := r } 124 = .ok (Lex.init, [.bar]) := by
  simp [lexStep, normalStep, Lex.init]

/-- in normal mode `)` always yields the `clo` token and resets the lexer -/
theorem lexStep_close (r : Rep) : lexStep { mode := .normal, rep := r } 41 = .ok (Lex.init, [.clo]) := by
  simp [lexStep, normalStep, Lex.init]

theorem lexRun_wrap_open : lexRun Lex.init [40, 63, 58] = .ok (Lex.init, [.opn {} {}]) := by
  rfl

/-- what `lexAll a = ok ta` says about the run -/
theorem lexAll_ok {a : Bytes} {ta : List Tok} (h : lexAll a = .ok ta) :
    ∃ r, lexRun Lex.init a = .ok ({ mode := .normal, rep := r }, ta) := by
  unfold lexAll at h
  cases hr : lexRun Lex.init a with
  | error e => simp [hr] at h
  | ok p =>
    obtain ⟨lx, ts⟩ := p
    simp only [hr] at h
    obtain ⟨mode, rep⟩ := lx
    cases mode <;> simp [Mode.isNormal] at h
    exact ⟨rep, by rw [h]⟩

theorem lexAll_of_run {a : Bytes} {ta : List Tok} {r : Rep}
    (h : lexRun Lex.init a = .ok ({ mode := .normal, rep := r }, ta)) : lexAll a = .ok ta := by
  simp [lexAll, h, Mode.isNormal]

/-- joining two lexable texts with `|` -/
theorem lexAll_join {a b : Bytes} {ta tb : List Tok} (ha : lexAll a = .ok ta) (hb : lexAll b = .ok tb) :
    lexAll (a ++ 124 :: b) = .ok (ta ++ .bar :: tb) := by
  obtain ⟨ra, hra⟩ := lexAll_ok ha
  obtain ⟨rb, hrb⟩ := lexAll_ok hb
  apply lexAll_of_run (r := rb)
  rw [lexRun_append, hra]
  simp only [lexRun, lexStep_bar, hrb, List.singleton_append]

/-- wrapping a lexable text in `(?:` … `)` -/
theorem lexAll_wrap {a : Bytes} {ta : List Tok} (ha : lexAll a = .ok ta) :
    lexAll (wrapSrc a) = .ok (.opn {} {} :: (ta ++ [.clo])) := by
  obtain ⟨ra, hra⟩ := lexAll_ok ha
  apply lexAll_of_run (r := .none)
  unfold wrapSrc
  rw [List.append_assoc, lexRun_append, lexRun_wrap_open]
  simp only []
  rw [lexRun_append, hra]
  simp only [lexRun, lexStep_close, List.singleton_append, List.append_nil]
  rfl

end C17
end FwdVerif
