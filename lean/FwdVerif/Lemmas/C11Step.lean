/-
  C11 — helper lemmas (part 1): facts about one connection step (`cstep`), the counting function `cnt`,
  the inductive invariant `Inv` of the transition system and its preservation by every action.
-/
import FwdVerif.Model.C11

namespace FwdVerif
namespace C11

def effDelta : Eff → Int
  | .add => 1 | .dec => -1 | _ => 0

/-- connection states a connection that registered after `closing` can be in -/
def noService : PC → Bool
  | .registered | .closingCheck0 | .deferredClose | .closingSock | .counterDec | .waitingForLockUnreg
  | .lockedUnreg | .deleted | .unregistered => true
  | _ => false

/-- connection states after a request was read while `closing` -/
def dropPath : PC → Bool
  | .closingCheck | .deferredClose | .closingSock | .counterDec | .waitingForLockUnreg | .lockedUnreg | .deleted
  | .unregistered => true
  | _ => false

/-- case analysis of one connection step: one goal per enabled branch, result substituted -/
macro "cstep_cases " h:ident : tactic =>
  `(tactic| (cases ‹CAct› <;> simp only [cstep] at $h:ident <;> (repeat' split at $h:ident) <;>
      simp only [reduceCtorEq, Option.some.injEq, Prod.mk.injEq] at $h:ident <;>
      (try (obtain ⟨h1, h2⟩ := $h:ident; subst h1; subst h2))))

/-! ## facts about one connection step -/

theorem cstep_counted {cl lf : Bool} {y x : Conn} {a : CAct} {e : Eff}
    (h : cstep cl lf y a = some (x, e)) :
    (if counted x.pc then (1:Int) else 0) = (if counted y.pc then 1 else 0) + effDelta e := by
  cstep_cases h <;> cases cl <;> simp_all [counted, effDelta]

/-- what a step does to "holds connsMu" -/
def lockSpec (lf : Bool) (y x : Conn) : Eff → Prop
  | .acq => lf = true ∧ holdsLock y.pc = false ∧ holdsLock x.pc = true
  | .rel => holdsLock y.pc = true ∧ holdsLock x.pc = false
  | _ => holdsLock x.pc = holdsLock y.pc

theorem cstep_lock {cl lf : Bool} {y x : Conn} {a : CAct} {e : Eff}
    (h : cstep cl lf y a = some (x, e)) : lockSpec lf y x e := by
  cstep_cases h <;> cases cl <;> simp_all [lockSpec, holdsLock]

/-- what a step does to "is in the conns map" -/
def mapSpec (y x : Conn) : Eff → Prop
  | .ins => inMap y.pc = false ∧ inMap x.pc = true
  | .del => inMap y.pc = true ∧ inMap x.pc = false
  | _ => inMap x.pc = inMap y.pc

theorem cstep_map {cl lf : Bool} {y x : Conn} {a : CAct} {e : Eff}
    (h : cstep cl lf y a = some (x, e)) : mapSpec y x e := by
  cstep_cases h <;> cases cl <;> simp_all [mapSpec, inMap, counted]

theorem cstep_present {cl lf : Bool} {y x : Conn} {a : CAct} {e : Eff}
    (h : cstep cl lf y a = some (x, e)) : y.pc ≠ .absent ∧ x.pc ≠ .absent := by
  cstep_cases h <;> cases cl <;> simp_all

/-- steps that touch the shared state are done holding the lock, except the decrement -/
theorem cstep_eff_holds {cl lf : Bool} {y x : Conn} {a : CAct} {e : Eff}
    (h : cstep cl lf y a = some (x, e)) :
    ((e = .ins ∨ e = .add ∨ e = .del) → holdsLock y.pc = true) ∧ (e = .dec → y.pc = .counterDec) := by
  cstep_cases h <;> cases cl <;> simp_all [holdsLock]

/-- how the ghost `regClosing` and the socket evolve -/
theorem cstep_reg {cl lf : Bool} {y x : Conn} {a : CAct} {e : Eff}
    (h : cstep cl lf y a = some (x, e)) (hx : preReg x.pc = false) :
    (e = .add ∧ x.regClosing = cl) ∨
    (e ≠ .add ∧ preReg y.pc = false ∧ x.regClosing = y.regClosing ∧ (y.sockClosed = true → x.sockClosed = true)) := by
  cstep_cases h <;> cases cl <;> simp_all [preReg]

/-- the socket is closed, or the handler is inside its own `conn.Close()` (the close has begun; the socket is closed
    when that call returns, `closeDone`) -/
def sockDone (x : Conn) : Prop := x.sockClosed = true ∨ x.pc = .closingSock

/-- no step of a handler takes that back: a closed socket stays closed, and the only step out of `closingSock` is the
    return of the call, which leaves the socket closed -/
theorem cstep_sockDone {cl lf : Bool} {y x : Conn} {a : CAct} {e : Eff}
    (h : cstep cl lf y a = some (x, e)) (hy : sockDone y) : sockDone x := by
  unfold sockDone at *
  cstep_cases h <;> cases cl <;> simp_all

/-- what `Close`'s `conn.Close()` leaves behind: the socket closed, or the handler inside its own Close -/
theorem sockDone_sweepClose (x : Conn) : sockDone (sweepClose x) := by
  unfold sockDone sweepClose
  by_cases h : x.pc = .closingSock <;> simp [h]

theorem cstep_counted_reg {cl lf : Bool} {y x : Conn} {a : CAct} {e : Eff}
    (h : cstep cl lf y a = some (x, e)) (hx : counted x.pc = true) :
    (e = .add ∧ x.regClosing = cl) ∨ (e ≠ .add ∧ counted y.pc = true ∧ x.regClosing = y.regClosing) := by
  cstep_cases h <;> cases cl <;> simp_all [counted]

/-- the invariant of one connection, relative to `closing` -/
structure Local (cl : Bool) (x : Conn) : Prop where
  regCl : x.regClosing = true → cl = true
  pre : preReg x.pc = true → x.regClosing = false ∧ x.readClosing = false ∧ x.reads = 0 ∧ x.forwards = 0
  late : x.regClosing = true → x.reads = 0 ∧ x.forwards = 0 ∧ noService x.pc = true
  readCl : x.readClosing = true → cl = true ∧ dropPath x.pc = true
  closed : (x.pc = .counterDec ∨ pastDec x.pc = true) → x.sockClosed = true
  wr : x.pc = .writing → x.cur.connect = false ∧ (x.respClosing = true → x.lastClose = true)
  respCl : x.respClosing = true → cl = true

theorem Local.default (cl : Bool) : Local cl {} := by
  constructor <;> simp [preReg, pastDec]

theorem Local.mono {x : Conn} (h : Local false x) : Local true x := by
  constructor
  · intro _; rfl
  · exact h.pre
  · exact h.late
  · intro hr; exact absurd (h.readCl hr).1 (by simp)
  · exact h.closed
  · exact h.wr
  · intro _; rfl

theorem Local.toTrue {cl : Bool} {x : Conn} (h : Local cl x) : Local true x := by
  cases cl
  · exact h.mono
  · exact h

theorem cstep_local {cl lf : Bool} {y x : Conn} {a : CAct} {e : Eff}
    (h : cstep cl lf y a = some (x, e)) (hl : Local cl y) : Local cl x := by
  obtain ⟨h1, h2, h3, h4, h5, h6, h7⟩ := hl
  cstep_cases h <;> cases cl <;> constructor <;>
    simp_all [preReg, noService, dropPath, pastDec]


/-! ## counting -/

theorem cnt_nonneg (f : ConnId → Conn) (l : List ConnId) : 0 ≤ cnt f l := by
  induction l with
  | nil => simp [cnt]
  | cons c cs ih => simp only [cnt]; split <;> omega

theorem cnt_congr {f g : ConnId → Conn} {l : List ConnId}
    (h : ∀ c ∈ l, counted (f c).pc = counted (g c).pc) : cnt f l = cnt g l := by
  induction l with
  | nil => rfl
  | cons c cs ih =>
    simp only [cnt]
    rw [h c (by simp), ih (fun d hd => h d (by simp [hd]))]

theorem cnt_update_not_mem {f : ConnId → Conn} {l : List ConnId} {c : ConnId} {x : Conn}
    (h : c ∉ l) : cnt (fun d => if d = c then x else f d) l = cnt f l := by
  apply cnt_congr
  intro d hd
  have : d ≠ c := fun e => h (e ▸ hd)
  simp [this]

theorem cnt_update {f : ConnId → Conn} {l : List ConnId} {c : ConnId} {x : Conn}
    (hn : l.Nodup) (hc : c ∈ l) :
    cnt (fun d => if d = c then x else f d) l
      = cnt f l - (if counted (f c).pc then 1 else 0) + (if counted x.pc then 1 else 0) := by
  induction l with
  | nil => simp at hc
  | cons a as ih =>
    have hn' := List.nodup_cons.mp hn
    by_cases hac : a = c
    · subst hac
      simp only [cnt, if_true]
      rw [cnt_update_not_mem hn'.1]
      omega
    · have hc' : c ∈ as := by
        rcases List.mem_cons.mp hc with h | h
        · exact absurd h.symm hac
        · exact h
      simp only [cnt, if_neg hac]
      rw [ih hn'.2 hc']
      omega

theorem cnt_pos_of_mem {f : ConnId → Conn} {l : List ConnId} {c : ConnId}
    (hc : c ∈ l) (h : counted (f c).pc = true) : 1 ≤ cnt f l := by
  induction l with
  | nil => simp at hc
  | cons a as ih =>
    simp only [cnt]
    rcases List.mem_cons.mp hc with rfl | h'
    · have := cnt_nonneg f as
      simp [h]; omega
    · have := ih h'
      split <;> omega

theorem cnt_zero {f : ConnId → Conn} {l : List ConnId} (h : cnt f l = 0) :
    ∀ c ∈ l, counted (f c).pc = false := by
  intro c hc
  cases hcc : counted (f c).pc with
  | false => rfl
  | true => have := cnt_pos_of_mem hc hcc; omega

theorem cnt_eq_zero_of {f : ConnId → Conn} {l : List ConnId}
    (h : ∀ c ∈ l, counted (f c).pc = false) : cnt f l = 0 := by
  induction l with
  | nil => rfl
  | cons a as ih =>
    simp only [cnt, h a (by simp)]
    rw [ih (fun d hd => h d (by simp [hd]))]
    simp

/-! ## the invariant -/

def shutHolds : SPC → Bool
  | .locked | .polling | .selecting | .retNil | .retErr => true
  | _ => false

def shutClosed : SPC → Bool
  | .polling | .selecting | .retNil | .retErr | .doneNil | .doneErr => true
  | _ => false

def closeHolds : CPC → Bool
  | .locked | .closedCh | .closedConns => true
  | _ => false

def closeClosed : CPC → Bool
  | .closedCh | .closedConns | .done => true
  | _ => false

def closeSwept : CPC → Bool
  | .closedConns | .done => true
  | _ => false

structure Inv (s : State) : Prop where
  nodup : s.ids.Nodup
  absent : ∀ c, c ∉ s.ids → s.conns c = {}
  counter : s.counter = cnt s.conns s.ids
  lockConn : ∀ c, holdsLock (s.conns c).pc = true ↔ s.lock = .conn c
  lockShut : ∀ k, s.lock = .shutdown k ↔ shutHolds (s.shuts k).pc = true
  lockClose : ∀ k, s.lock = .closer k ↔ closeHolds (s.closes k) = true
  closingS : ∀ k, shutClosed (s.shuts k).pc = true → s.closing = true
  closingC : ∀ k, closeClosed (s.closes k) = true → s.closing = true
  regNodup : s.registered.Nodup
  reg : ∀ c, c ∈ s.registered ↔ inMap (s.conns c).pc = true
  loc : ∀ c, Local s.closing (s.conns c)
  nilDrained : ∀ k, (s.shuts k).pc = .retNil → s.counter = 0
  afterNil : ∀ k, ((s.shuts k).pc = .retNil ∨ (s.shuts k).pc = .doneNil) →
      ∀ c, counted (s.conns c).pc = true → (s.conns c).regClosing = true
  errCtx : ∀ k, ((s.shuts k).pc = .retErr ∨ (s.shuts k).pc = .doneErr) → (s.shuts k).done.isSome = true
  afterClose : ∀ k, closeSwept (s.closes k) = true → ∀ c, preReg (s.conns c).pc = false →
      sockDone (s.conns c) ∨ (s.conns c).regClosing = true
  sweep : ∀ k, s.closes k = .closedCh → ∀ c, c ∈ s.registered → c ∈ s.sweepLeft ∨ sockDone (s.conns c)

theorem inv_initCfg (nl : Bool) (sg : List Sig) : Inv (initCfg nl sg) := by
  constructor <;> simp [initCfg, cnt, holdsLock, shutHolds, closeHolds, shutClosed, closeClosed, inMap, counted,
    Local.default, closeSwept]

end C11
end FwdVerif
