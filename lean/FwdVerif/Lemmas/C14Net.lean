/-
  C14 — `isInNet`: dotted-quad validity, `convert_addr` as a number, masked equality as bitwise
  containment.
-/
import FwdVerif.Lemmas.C14Str
namespace FwdVerif
namespace C14
open Ascii

theorem isValid_eq_quad (s : Bytes) : isValidIpAddress s = (quadOctets s).isSome := by
  unfold isValidIpAddress quadOctets
  generalize splitOn 46 s = parts
  rcases parts with _ | ⟨a, _ | ⟨b, _ | ⟨c, _ | ⟨d, _ | ⟨e, t⟩⟩⟩⟩⟩
  · simp
  · simp
  · simp
  · simp
  · rw [Bool.eq_iff_iff]
    simp [isDigits13]
    grind
  · simp

theorem quad_shape (s : Bytes) (o : List Nat) (h : quadOctets s = some o) :
    ∃ a b c d, o = [a, b, c, d] ∧ a ≤ 255 ∧ b ≤ 255 ∧ c ≤ 255 ∧ d ≤ 255 ∧ (splitOn 46 s).map decVal = [a, b, c, d] := by
  unfold quadOctets at h
  generalize splitOn 46 s = parts at h
  rcases parts with _ | ⟨a, _ | ⟨b, _ | ⟨c, _ | ⟨d, _ | ⟨e, t⟩⟩⟩⟩⟩ <;> simp at h
  obtain ⟨⟨_, h5, h6, h7, h8⟩, rfl⟩ := h
  exact ⟨decVal a, decVal b, decVal c, decVal d, rfl, h5, h6, h7, h8, rfl⟩

theorem and255 (x : Nat) (h : x ≤ 255) : x &&& 255 = x := by
  have := Nat.and_two_pow_sub_one_eq_mod x 8
  simp at this
  rw [this]; omega

theorem shifts_eq (a b c d : Nat) (_ha : a ≤ 255) (hb : b ≤ 255) (hc : c ≤ 255) (hd : d ≤ 255) :
    (a <<< 24) ||| (b <<< 16) ||| (c <<< 8) ||| d = a * 2 ^ 24 + b * 2 ^ 16 + c * 2 ^ 8 + d := by
  have e1 : a <<< 24 ||| b <<< 16 = (a * 256 + b) <<< 16 := by
    have h := Nat.shiftLeft_add_eq_or_of_lt (i := 24) (b := b <<< 16) (by simp [Nat.shiftLeft_eq]; omega) a
    rw [← h]; simp [Nat.shiftLeft_eq]; omega
  have e2 : (a * 256 + b) <<< 16 ||| c <<< 8 = ((a * 256 + b) * 256 + c) <<< 8 := by
    have h := Nat.shiftLeft_add_eq_or_of_lt (i := 16) (b := c <<< 8) (by simp [Nat.shiftLeft_eq]; omega) (a * 256 + b)
    rw [← h]; simp [Nat.shiftLeft_eq]; omega
  have e3 : ((a * 256 + b) * 256 + c) <<< 8 ||| d = ((a * 256 + b) * 256 + c) <<< 8 + d := by
    exact (Nat.shiftLeft_add_eq_or_of_lt (i := 8) (b := d) (by omega) _).symm
  rw [e1, e2, e3]; simp [Nat.shiftLeft_eq]; omega

theorem convertAddr_eq (s : Bytes) (o : List Nat) (h : quadOctets s = some o) :
    convertAddr s = quadVal o ∧ quadVal o < 2 ^ 32 := by
  obtain ⟨a, b, c, d, rfl, ha, hb, hc, hd, hm⟩ := quad_shape s o h
  unfold convertAddr quadVal
  simp only [hm, List.getD_cons_zero, List.getD_cons_succ]
  rw [and255 a ha, and255 b hb, and255 c hc, and255 d hd, shifts_eq a b c d ha hb hc hd]
  constructor
  · rfl
  · omega

theorem maskedEq_iff (h p m : Nat) (hm : m < 2 ^ 32) :
    maskedEq h p m = true ↔ inNetBits h p m := by
  unfold maskedEq inNetBits
  simp only [beq_iff_eq]
  constructor
  · intro e i _ hmi
    have := congrArg (fun x => x.testBit i) e
    simpa [Nat.testBit_and, hmi] using this
  · intro hb
    apply Nat.eq_of_testBit_eq
    intro i
    simp only [Nat.testBit_and]
    by_cases hi : i < 32
    · cases hmi : m.testBit i
      · simp
      · simp [hb i hi hmi]
    · have : m.testBit i = false := by
        apply Nat.testBit_lt_two_pow
        exact Nat.lt_of_lt_of_le hm (Nat.pow_le_pow_right (by omega) (by omega))
      simp [this]

end C14
end FwdVerif
