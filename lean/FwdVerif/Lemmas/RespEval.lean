/-
  C02 — evaluating the response model on concrete inputs in the kernel (for witnesses and
  non-vacuity examples).  `resp_eval` unfolds the definitions that mention `bs "…"` literals,
  rewrites the literals to byte lists and closes the goal by `decide`.
-/
import FwdVerif.Lemmas.RespDec
import FwdVerif.Lemmas.RespFrame

namespace FwdVerif
namespace Resp

deriving instance DecidableEq for ClientResp
deriving instance DecidableEq for Resp.Outcome

instance (o : OriginResp) : Decidable (OriginWF o) := by
  unfold OriginWF; exact inferInstance

/-- evaluate `processResponse` / `readResponse` on concrete arguments -/
macro "resp_eval" : tactic =>
  `(tactic| (unfold processResponse frameForClient trailerKeys readResponse headerOnly Req.removeHopByHop Req.hopByHopNames Req.upgradeType; bs_norm; (try simp only [natToDec_eq]); decide +kernel))

end Resp
end FwdVerif
