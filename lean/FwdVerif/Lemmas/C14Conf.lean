/-
  C14 — every helper of the model equals its specification wherever the specification is defined.
-/
import FwdVerif.Lemmas.C14Glob
import FwdVerif.Lemmas.C14Net
import FwdVerif.Lemmas.C14Cidr
namespace FwdVerif
namespace C14
open Ascii

theorem isInNet_quads (env : Env) (x p m : Bytes) (xo po mo : List Nat)
    (hx : quadOctets x = some xo) (hp : quadOctets p = some po) (hm : quadOctets m = some mo) :
    isInNet env x p m = decide (inNetBits (quadVal xo) (quadVal po) (quadVal mo)) := by
  unfold isInNet
  simp only [isValid_eq_quad, hx, hp, hm, Option.isSome_some, Bool.not_true, Bool.or_self,
    Bool.false_eq_true, if_false, if_true]
  obtain ⟨e1, _⟩ := convertAddr_eq x xo hx
  obtain ⟨e2, _⟩ := convertAddr_eq p po hp
  obtain ⟨e3, b3⟩ := convertAddr_eq m mo hm
  rw [e1, e2, e3, Bool.eq_iff_iff, maskedEq_iff _ _ _ b3]
  simp

theorem isInNet_invalid (env : Env) (x p m : Bytes) (h : quadOctets p = none ∨ quadOctets m = none) :
    isInNet env x p m = false := by
  unfold isInNet
  rcases h with h | h <;> simp [isValid_eq_quad, h]

theorem specCall_conform (env : Env) (h : Helper) (args : List Val) (v : Val)
    (hs : specCall env h args = some v) : callHelper env h args = .ok v := by
  unfold specCall at hs
  split at hs
  · -- isPlainHostName
    simp only [Option.some.injEq] at hs; subst hs
    simp [callHelper, argAt, isPlain_eq_spec]
  · -- dnsDomainIs
    simp only [Option.some.injEq] at hs; subst hs
    simp [callHelper, argAt, Val.isNullish, dnsDomainIs_eq_spec]
  · -- dnsDomainLevels
    simp only [Option.some.injEq] at hs; subst hs
    simp [callHelper, argAt, dnsDomainLevels, specDnsDomainLevels, splitOn_length]
  · -- localHostOrDomainIs
    rename_i x d
    split at hs
    · simp at hs
    · rename_i hx
      simp only [Option.some.injEq] at hs; subst hs
      have hx' : x.contains 46 = false := by simpa using hx
      simp [callHelper, argAt, lhod_eq_spec x d hx']
  · -- shExpMatch
    rename_i u p
    split at hs
    · rename_i hd
      simp only [Bool.and_eq_true] at hd
      simp only [Option.some.injEq] at hs; subst hs
      simp [callHelper, argAt, Val.toStr, shExpMatch_eq_glob u p hd.1 hd.2]
    · simp at hs
  · -- isInNet
    rename_i x p m
    split at hs
    · rename_i po mo hp hm
      split at hs
      · rename_i xo hx
        simp only [Option.some.injEq] at hs; subst hs
        simp [callHelper, argAt, isInNet_quads env x p m xo po mo hx hp hm]
      · simp at hs
    · rename_i hne
      simp only [Option.some.injEq] at hs; subst hs
      have : quadOctets p = none ∨ quadOctets m = none := by
        cases hp : quadOctets p with
        | none => exact Or.inl rfl
        | some po =>
          cases hm : quadOctets m with
          | none => exact Or.inr rfl
          | some mo => exact absurd hm (hne po mo hp)
      simp [callHelper, argAt, isInNet_invalid env x p m this]
  · -- isResolvable
    simp only [Option.some.injEq] at hs; subst hs
    simp [callHelper, argAt, dnsResolveStr]
  · -- isInNetEx
    rename_i x c
    split at hs
    · simp at hs
    · rename_i addr m hc
      split at hs
      · rename_i xo ao hx ha
        split at hs
        · simp at hs
        · rename_i hm
          have hm' : (m.isEmpty || !m.all isDigit || decide (decVal m > 8 * ao.length)) = false := by
            simpa using hm
          have key := isInNetEx_spec x c addr m xo ao hc hx ha hm'
          split at hs
          · rename_i hl
            simp only [Option.some.injEq] at hs; subst hs
            simp [callHelper, argAt, Val.isNullish, key, hl]
          · rename_i hl
            simp only [Option.some.injEq] at hs; subst hs
            simp [callHelper, argAt, Val.isNullish, key, hl]
      · simp at hs
  · -- getClientVersion
    simp only [Option.some.injEq] at hs; subst hs
    simp [callHelper]
  · -- dnsResolve
    simp only [Option.some.injEq] at hs; subst hs
    simp [callHelper, argAt]
  · -- dnsResolveEx
    simp only [Option.some.injEq] at hs; subst hs
    simp [callHelper, argAt, Val.isNullish]
  · -- isResolvableEx
    simp only [Option.some.injEq] at hs; subst hs
    simp [callHelper, argAt]
  · -- myIpAddress
    simp only [Option.some.injEq] at hs; subst hs
    simp [callHelper]
  · -- myIpAddressEx
    simp only [Option.some.injEq] at hs; subst hs
    simp [callHelper]
  · simp at hs

theorem evalCond_congr (hc1 hc2 : Helper → List Val → Res) (url host : Bytes) (c : Cond)
    (h : evalCall hc1 url host c.call = evalCall hc2 url host c.call) :
    evalCond hc1 url host c = evalCond hc2 url host c := by
  induction c with
  | truthy k => simp only [Cond.call] at h; simp [evalCond, h]
  | eq k v => simp only [Cond.call] at h; simp [evalCond, h]
  | not k ih => simp only [Cond.call] at h; simp [evalCond, ih h]

theorem evalTree_congr (hc1 hc2 : Helper → List Val → Res) (url host : Bytes) (t : Tree)
    (h : ∀ c, c ∈ t.calls → evalCall hc1 url host c = evalCall hc2 url host c) :
    evalTree hc1 url host t = evalTree hc2 url host t := by
  induction t with
  | ret e =>
    cases e with
    | lit v => simp [evalTree, evalRet]
    | call k => simp [evalTree, evalRet, h k (by simp [Tree.calls])]
    | strOf k => simp [evalTree, evalRet, h k (by simp [Tree.calls])]
  | ite c t e iht ihe =>
    have hcnd := evalCond_congr hc1 hc2 url host c (h c.call (by simp [Tree.calls]))
    have h1 := iht (fun k hk => h k (by simp [Tree.calls, hk]))
    have h2 := ihe (fun k hk => h k (by simp [Tree.calls, hk]))
    simp [evalTree, hcnd, h1, h2]

theorem evalTree_conform (env : Env) (url host : Bytes) (t : Tree) (hd : t.inDomain env url host) :
    evalTree (callHelper env) url host t = evalTree (specHc env) url host t := by
  apply evalTree_congr
  intro c hc
  have := hd c hc
  unfold evalCall specHc
  cases hs : specCall env c.h (c.args.map (Arg.val url host)) with
  | none => simp [hs] at this
  | some v => simp [specCall_conform env _ _ v hs]

end C14
end FwdVerif
