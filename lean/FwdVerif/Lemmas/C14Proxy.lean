/-
  C14 — result lists: first segment of a split, `mapM` over `Option`.
-/
import FwdVerif.Spec.C14
namespace FwdVerif
namespace C14

open Ascii

theorem splitOn_head (sep : UInt8) (s : Bytes) :
    ∃ t, splitOn sep s = (match cutAt sep s with | some (a, _) => a | none => s) :: t := by
  induction s with
  | nil => exact ⟨[], by simp [splitOn, cutAt]⟩
  | cons c cs ih =>
    obtain ⟨t, ht⟩ := ih
    by_cases h : c == sep
    · exact ⟨splitOn sep cs, by simp [splitOn, cutAt, h]⟩
    · refine ⟨t, ?_⟩
      simp only [splitOn, cutAt, h, ht]
      cases hc : cutAt sep cs with
      | none => simp
      | some ab => obtain ⟨a, b⟩ := ab; simp

theorem mapM_cons_some {α β : Type} (f : α → Option β) (x : α) (xs : List α) (y : β) (ys : List β)
    (h : (x :: xs).mapM f = some (y :: ys)) : f x = some y ∧ xs.mapM f = some ys := by
  rw [List.mapM_cons] at h
  cases hx : f x with
  | none => simp [hx] at h
  | some y' =>
    cases hxs : xs.mapM f with
    | none => simp [hx, hxs] at h
    | some ys' =>
      simp [hx, hxs] at h
      exact ⟨by rw [h.1], by rw [h.2]⟩

theorem mapM_none_of_mem {α β : Type} (f : α → Option β) (l : List α) (x : α) (hx : x ∈ l) (hf : f x = none) :
    l.mapM f = none := by
  induction l with
  | nil => simp at hx
  | cons a t ih =>
    rw [List.mapM_cons]
    rcases List.mem_cons.mp hx with rfl | hm
    · simp [hf]
    · cases f a <;> simp [ih hm]

theorem first_of_all (s : Bytes) (p : Proxy) (ps : List Proxy) (h : proxiesAll s = some (p :: ps)) :
    proxiesFirst s = some p := by
  unfold proxiesAll at h
  unfold proxiesFirst
  by_cases he : s.isEmpty
  · simp [he] at h
  · simp only [he, Bool.false_eq_true, if_false] at h ⊢
    obtain ⟨t, ht⟩ := splitOn_head 59 s
    rw [ht] at h
    exact (mapM_cons_some _ _ _ _ _ h).1

theorem cutAt_append (sep : UInt8) (k rest : Bytes) (hk : sep ∉ k) :
    cutAt sep (k ++ sep :: rest) = some (k, rest) := by
  induction k with
  | nil => simp [cutAt]
  | cons c k ih =>
    have hc : c ≠ sep := fun h => hk (by simp [h])
    have hk' : sep ∉ k := fun h => hk (List.mem_cons_of_mem _ h)
    have : (c == sep) = false := beq_eq_false_iff_ne.mpr hc
    simp [cutAt, this, ih hk']

theorem dropWhile_head_false (f : UInt8 → Bool) (s : Bytes)
    (h : ∀ c, s.head? = some c → f c = false) : s.dropWhile f = s := by
  cases s with
  | nil => rfl
  | cons c t => simp [List.dropWhile, h c rfl]

theorem trimSpace_id (s : Bytes) (h1 : ∀ c, s.head? = some c → isGoSpace c = false)
    (h2 : ∀ c, s.getLast? = some c → isGoSpace c = false) : trimSpace s = s := by
  unfold trimSpace
  rw [dropWhile_head_false _ s h1]
  rw [dropWhile_head_false _ s.reverse (by intro c hc; rw [List.head?_reverse] at hc; exact h2 c hc)]
  simp

theorem contains_false_of (c : UInt8) (s : Bytes) (h : ∀ x ∈ s, x ≠ c) : s.contains c = false := by
  cases hc : s.contains c with
  | false => rfl
  | true => exact absurd rfl (h c (by simpa using hc))

theorem findIdx_none_of (c : UInt8) (s : Bytes) (h : ∀ x ∈ s, x ≠ c) : s.findIdx? (· == c) = none := by
  rw [List.findIdx?_eq_none_iff]
  intro x hx
  simpa using h x hx

theorem lastIndexOf_append (c : UInt8) (h p : Bytes) (hp : ∀ x ∈ p, x ≠ c) :
    lastIndexOf c (h ++ c :: p) = some h.length := by
  unfold lastIndexOf
  have hr : (h ++ c :: p).reverse = p.reverse ++ (c :: h.reverse) := by simp
  rw [hr, List.findIdx?_append, findIdx_none_of c p.reverse (by intro x hx; exact hp x (List.mem_reverse.mp hx))]
  simp [List.findIdx?_cons]

theorem splitHostPort_plain (h p : Bytes) (hh : ∀ c ∈ h, c ≠ 58 ∧ c ≠ 91 ∧ c ≠ 93)
    (hp : ∀ c ∈ p, c ≠ 58 ∧ c ≠ 91 ∧ c ≠ 93) : splitHostPort (h ++ 58 :: p) = some (h, p) := by
  unfold splitHostPort
  rw [lastIndexOf_append 58 h p (fun x hx => (hp x hx).1)]
  have hhead : ((h ++ 58 :: p).head? == some 91) = false := by
    cases h with
    | nil => simp
    | cons c t =>
      have := (hh c (by simp)).2.1
      simp [this]
  have e1 : (h ++ 58 :: p).take h.length = h := by simp
  have e2 : (h ++ 58 :: p).drop (h.length + 1) = p := by
    rw [← List.drop_drop]; simp
  have c1 : h.contains 58 = false := contains_false_of 58 h (fun x hx => (hh x hx).1)
  have c2 : (h ++ 58 :: p).contains 91 = false := contains_false_of 91 _ (by
    intro x hx
    rcases List.mem_append.mp hx with hx | hx
    · exact (hh x hx).2.1
    · rcases List.mem_cons.mp hx with rfl | hx
      · decide
      · exact (hp x hx).2.1)
  have c3 : (h ++ 58 :: p).contains 93 = false := contains_false_of 93 _ (by
    intro x hx
    rcases List.mem_append.mp hx with hx | hx
    · exact (hh x hx).2.2
    · rcases List.mem_cons.mp hx with rfl | hx
      · decide
      · exact (hp x hx).2.2)
  simp only [hhead, Bool.false_eq_true, if_false, e1, e2, c1, c2, c3]


theorem hostChar_ok (c : UInt8) (h : isHostChar c = true) : c ≠ 58 ∧ c ≠ 91 ∧ c ≠ 93 := by
  refine ⟨?_, ?_, ?_⟩ <;> (intro e; subst e; revert h; decide)

theorem digit_ok (c : UInt8) (h : isDigit c = true) : c ≠ 58 ∧ c ≠ 91 ∧ c ≠ 93 := by
  refine ⟨?_, ?_, ?_⟩ <;> (intro e; subst e; revert h; decide)

theorem digit_not_space (c : UInt8) (h : isDigit c = true) : isGoSpace c = false := by
  cases hs : isGoSpace c with
  | false => rfl
  | true =>
    exfalso
    unfold isGoSpace at hs
    simp only [Bool.or_eq_true, beq_iff_eq] at hs
    rcases hs with ((((e | e) | e) | e) | e) | e <;> (subst e; revert h; decide)

theorem getLast_mem_of_append (a p : Bytes) (hp : p ≠ []) (c : UInt8) (h : (a ++ p).getLast? = some c) : c ∈ p := by
  rw [← List.head?_reverse, List.reverse_append] at h
  cases hr : p.reverse with
  | nil => exact absurd (List.reverse_eq_nil_iff.mp hr) hp
  | cons d r =>
    rw [hr] at h
    simp at h
    subst h
    have : d ∈ p.reverse := by rw [hr]; simp
    exact List.mem_reverse.mp this

/-- a well-formed `<keyword> <host>:<port>` entry is parsed to exactly that keyword, host and port -/
theorem parseProxy_wellformed (k h p : Bytes) (hk : isKeyword k = true)
    (hh : ∀ c ∈ h, isHostChar c = true) (hp : validPort p = true) :
    parseProxy (k ++ 32 :: (h ++ 58 :: p)) = some ⟨parseMode k, h, p⟩ := by
  unfold validPort at hp
  simp only [Bool.and_eq_true, Bool.not_eq_true', List.all_eq_true, decide_eq_true_eq] at hp
  obtain ⟨⟨⟨hp0, hpd⟩, _⟩, _⟩ := hp
  have hpne : p ≠ [] := by intro e; subst e; simp at hp0
  have hlast : ∀ c, (k ++ 32 :: (h ++ 58 :: p)).getLast? = some c → isGoSpace c = false := by
    intro c hc
    have e : k ++ 32 :: (h ++ 58 :: p) = (k ++ 32 :: (h ++ [58])) ++ p := by simp
    rw [e] at hc
    exact digit_not_space c (hpd c (getLast_mem_of_append _ p hpne c hc))
  have hsplit := splitHostPort_plain h p (fun c hc => hostChar_ok c (hh c hc)) (fun c hc => digit_ok c (hpd c hc))
  have hkw : (k = kPROXY ∨ k = kHTTP ∨ k = kHTTPS) ∨ (k = kSOCKS ∨ k = kSOCKS4 ∨ k = kSOCKS5) := by
    unfold isKeyword at hk
    simp only [Bool.or_eq_true, beq_iff_eq] at hk
    rcases hk with ((((h1 | h1) | h1) | h1) | h1) | h1 <;> simp [h1]
  have main : ∀ k0 : Bytes, (32 : UInt8) ∉ k0 → (∀ c, k0.head? = some c → isGoSpace c = false) → k0 ≠ [] →
      k = k0 → parseProxy (k ++ 32 :: (h ++ 58 :: p)) = some ⟨parseMode k, h, p⟩ := by
    intro k0 hns hhead hne hk0
    subst hk0
    unfold parseProxy
    have hhd : ∀ c, (k ++ 32 :: (h ++ 58 :: p)).head? = some c → isGoSpace c = false := by
      intro c hc
      cases k with
      | nil => exact absurd rfl hne
      | cons a t => exact hhead c (by simpa using hc)
    rw [trimSpace_id _ hhd hlast]
    have e1 : (k ++ 32 :: (h ++ 58 :: p)).isEmpty = false := by cases k <;> simp
    have e2 : (k ++ 32 :: (h ++ 58 :: p) == kDIRECT) = false := by
      apply beq_eq_false_iff_ne.mpr
      intro e
      have : (32 : UInt8) ∈ kDIRECT := by rw [← e]; simp
      revert this; decide
    simp only [e1, e2, Bool.false_eq_true, if_false, cutAt_append 32 k _ hns, hsplit]
  rcases hkw with (h1 | h1 | h1) | (h1 | h1 | h1)
  · exact main kPROXY (by decide) (by decide) (by decide) h1
  · exact main kHTTP (by decide) (by decide) (by decide) h1
  · exact main kHTTPS (by decide) (by decide) (by decide) h1
  · exact main kSOCKS (by decide) (by decide) (by decide) h1
  · exact main kSOCKS4 (by decide) (by decide) (by decide) h1
  · exact main kSOCKS5 (by decide) (by decide) (by decide) h1


theorem mapM_some_mem {α β : Type} (f : α → Option β) (l : List α) (ys : List β) (h : l.mapM f = some ys)
    (x : α) (hx : x ∈ l) : ∃ y, f x = some y := by
  cases hf : f x with
  | some y => exact ⟨y, rfl⟩
  | none => rw [mapM_none_of_mem f l x hx hf] at h; simp at h

end C14
end FwdVerif
