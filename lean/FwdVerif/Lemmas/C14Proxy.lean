/-
  C14 — result lists: first segment of a split, `mapM` over `Option`.
-/
import FwdVerif.Spec.C14
namespace FwdVerif
namespace C14

open Ascii

theorem splitOn_head (sep : UInt8) (s : Bytes) :
    ∃ t, splitOn sep s = (match cutAt sep s with | some (a, _) => a | none => s) :: t := by
  induction s with
  | nil => exact ⟨[], by simp [splitOn, cutAt]⟩
  | cons c cs ih =>
    obtain ⟨t, ht⟩ := ih
    by_cases h : c == sep
    · exact ⟨splitOn sep cs, by simp [splitOn, cutAt, h]⟩
    · refine ⟨t, ?_⟩
      simp only [splitOn, cutAt, h, ht]
      cases hc : cutAt sep cs with
      | none => simp
      | some ab => obtain ⟨a, b⟩ := ab; simp

theorem mapM_cons_some {α β : Type} (f : α → Option β) (x : α) (xs : List α) (y : β) (ys : List β)
    (h : (x :: xs).mapM f = some (y :: ys)) : f x = some y ∧ xs.mapM f = some ys := by
  rw [List.mapM_cons] at h
  cases hx : f x with
  | none => simp [hx] at h
  | some y' =>
    cases hxs : xs.mapM f with
    | none => simp [hx, hxs] at h
    | some ys' =>
      simp [hx, hxs] at h
      exact ⟨by rw [h.1], by rw [h.2]⟩

theorem mapM_none_of_mem {α β : Type} (f : α → Option β) (l : List α) (x : α) (hx : x ∈ l) (hf : f x = none) :
    l.mapM f = none := by
  induction l with
  | nil => simp at hx
  | cons a t ih =>
    rw [List.mapM_cons]
    rcases List.mem_cons.mp hx with rfl | hm
    · simp [hf]
    · cases f a <;> simp [ih hm]

theorem first_of_all (s : Bytes) (p : Proxy) (ps : List Proxy) (h : proxiesAll s = some (p :: ps)) :
    proxiesFirst s = some p := by
  unfold proxiesAll at h
  unfold proxiesFirst
  by_cases he : s.isEmpty
  · simp [he] at h
  · simp only [he, Bool.false_eq_true, if_false] at h ⊢
    obtain ⟨t, ht⟩ := splitOn_head 59 s
    rw [ht] at h
    exact (mapM_cons_some _ _ _ _ _ h).1

theorem cutAt_append (sep : UInt8) (k rest : Bytes) (hk : sep ∉ k) :
    cutAt sep (k ++ sep :: rest) = some (k, rest) := by
  induction k with
  | nil => simp [cutAt]
  | cons c k ih =>
    have hc : c ≠ sep := fun h => hk (by simp [h])
    have hk' : sep ∉ k := fun h => hk (List.mem_cons_of_mem _ h)
    have : (c == sep) = false := beq_eq_false_iff_ne.mpr hc
    simp [cutAt, this, ih hk']

theorem dropWhile_head_false (f : UInt8 → Bool) (s : Bytes)
    (h : ∀ c, s.head? = some c → f c = false) : s.dropWhile f = s := by
  cases s with
  | nil => rfl
  | cons c t => simp [List.dropWhile, h c rfl]

theorem trimSpace_id (s : Bytes) (h1 : ∀ c, s.head? = some c → isGoSpace c = false)
    (h2 : ∀ c, s.getLast? = some c → isGoSpace c = false) : trimSpace s = s := by
  unfold trimSpace
  rw [dropWhile_head_false _ s h1]
  rw [dropWhile_head_false _ s.reverse (by intro c hc; rw [List.head?_reverse] at hc; exact h2 c hc)]
  simp

theorem contains_false_of (c : UInt8) (s : Bytes) (h : ∀ x ∈ s, x ≠ c) : s.contains c = false := by
  cases hc : s.contains c with
  | false => rfl
  | true => exact absurd rfl (h c (by simpa using hc))

theorem findIdx_none_of (c : UInt8) (s : Bytes) (h : ∀ x ∈ s, x ≠ c) : s.findIdx? (· == c) = none := by
  rw [List.findIdx?_eq_none_iff]
  intro x hx
  simpa using h x hx

theorem lastIndexOf_append (c : UInt8) (h p : Bytes) (hp : ∀ x ∈ p, x ≠ c) :
    lastIndexOf c (h ++ c :: p) = some h.length := by
  unfold lastIndexOf
  have hr : (h ++ c :: p).reverse = p.reverse ++ (c :: h.reverse) := by simp
  rw [hr, List.findIdx?_append, findIdx_none_of c p.reverse (by intro x hx; exact hp x (List.mem_reverse.mp hx))]
  simp [List.findIdx?_cons]

theorem splitHostPort_plain (h p : Bytes) (hh : ∀ c ∈ h, c ≠ 58 ∧ c ≠ 91 ∧ c ≠ 93)
    (hp : ∀ c ∈ p, c ≠ 58 ∧ c ≠ 91 ∧ c ≠ 93) : splitHostPort (h ++ 58 :: p) = some (h, p) := by
  unfold splitHostPort
  rw [lastIndexOf_append 58 h p (fun x hx => (hp x hx).1)]
  have hhead : ((h ++ 58 :: p).head? == some 91) = false := by
    cases h with
    | nil => simp
    | cons c t =>
      have := (hh c (by simp)).2.1
      simp [this]
  have e1 : (h ++ 58 :: p).take h.length = h := by simp
  have e2 : (h ++ 58 :: p).drop (h.length + 1) = p := by
    rw [← List.drop_drop]; simp
  have c1 : h.contains 58 = false := contains_false_of 58 h (fun x hx => (hh x hx).1)
  have c2 : (h ++ 58 :: p).contains 91 = false := contains_false_of 91 _ (by
    intro x hx
    rcases List.mem_append.mp hx with hx | hx
    · exact (hh x hx).2.1
    · rcases List.mem_cons.mp hx with rfl | hx
      · decide
      · exact (hp x hx).2.1)
  have c3 : (h ++ 58 :: p).contains 93 = false := contains_false_of 93 _ (by
    intro x hx
    rcases List.mem_append.mp hx with hx | hx
    · exact (hh x hx).2.2
    · rcases List.mem_cons.mp hx with rfl | hx
      · decide
      · exact (hp x hx).2.2)
  simp only [hhead, Bool.false_eq_true, if_false, e1, e2, c1, c2, c3]


theorem hostChar_ok (c : UInt8) (h : isHostChar c = true) : c ≠ 58 ∧ c ≠ 91 ∧ c ≠ 93 := by
  refine ⟨?_, ?_, ?_⟩ <;> (intro e; subst e; revert h; decide)

theorem digit_ok (c : UInt8) (h : isDigit c = true) : c ≠ 58 ∧ c ≠ 91 ∧ c ≠ 93 := by
  refine ⟨?_, ?_, ?_⟩ <;> (intro e; subst e; revert h; decide)

theorem digit_not_space (c : UInt8) (h : isDigit c = true) : isGoSpace c = false := by
  cases hs : isGoSpace c with
  | false => rfl
  | true =>
    exfalso
    unfold isGoSpace at hs
    simp only [Bool.or_eq_true, beq_iff_eq] at hs
    rcases hs with ((((e | e) | e) | e) | e) | e <;> (subst e; revert h; decide)

theorem getLast_mem_of_append (a p : Bytes) (hp : p ≠ []) (c : UInt8) (h : (a ++ p).getLast? = some c) : c ∈ p := by
  rw [← List.head?_reverse, List.reverse_append] at h
  cases hr : p.reverse with
  | nil => exact absurd (List.reverse_eq_nil_iff.mp hr) hp
  | cons d r =>
    rw [hr] at h
    simp at h
    subst h
    have : d ∈ p.reverse := by rw [hr]; simp
    exact List.mem_reverse.mp this

/-! ### the port check: `strconv.ParseUint(p, 10, 16)` succeeds ⇔ `validPort p` -/

/-- the digit fold started at `n` -/
def decFrom (n : Nat) (s : Bytes) : Nat := s.foldl (fun a c => a * 10 + (c.toNat - 48)) n

theorem decVal_eq_decFrom (s : Bytes) : decVal s = decFrom 0 s := rfl

theorem decFrom_ge (s : Bytes) (n : Nat) : n ≤ decFrom n s := by
  induction s generalizing n with
  | nil => exact Nat.le_refl n
  | cons c t ih =>
    have := ih (n * 10 + (c.toNat - 48))
    simp only [decFrom, List.foldl_cons] at this ⊢
    omega

/-- the loop of `ParseUint` (early `ErrRange` exit) computes the closed form: all digits and the
    whole value within range — digit strings of any length included -/
theorem parseUint16Loop_eq (s : Bytes) (n : Nat) (hn : n ≤ 65535) :
    parseUint16Loop s n = if s.all isDigit = true ∧ decFrom n s ≤ 65535 then some (decFrom n s) else none := by
  induction s generalizing n with
  | nil => simp [parseUint16Loop, decFrom, hn]
  | cons c t ih =>
    unfold parseUint16Loop
    by_cases hd : isDigit c = true
    · simp only [hd, if_true]
      by_cases hr : n * 10 + (c.toNat - 48) > 65535
      · have hge := decFrom_ge t (n * 10 + (c.toNat - 48))
        have e : decFrom n (c :: t) = decFrom (n * 10 + (c.toNat - 48)) t := by simp [decFrom]
        have : ¬ decFrom n (c :: t) ≤ 65535 := by rw [e]; omega
        simp [hr, this]
      · have e : decFrom n (c :: t) = decFrom (n * 10 + (c.toNat - 48)) t := by simp [decFrom]
        simp only [hr, if_false, e, List.all_cons, hd, Bool.true_and]
        exact ih _ (by omega)
    · simp [hd]

theorem parseUint16_isSome (p : Bytes) : (parseUint16 p).isSome = validPort p := by
  unfold parseUint16 validPort
  cases p with
  | nil => rfl
  | cons c t =>
    rw [decVal_eq_decFrom]
    simp only [List.isEmpty_cons, Bool.false_eq_true, if_false, Bool.not_false, Bool.true_and]
    rw [parseUint16Loop_eq _ 0 (by omega)]
    by_cases h1 : (c :: t).all isDigit = true
    · by_cases h2 : decFrom 0 (c :: t) ≤ 65535
      · simp [h1, h2]
      · simp [h1, h2]
    · simp [h1]

theorem parseUint16_isNone (p : Bytes) : (parseUint16 p).isNone = !validPort p := by
  rw [← parseUint16_isSome]; cases parseUint16 p <;> rfl

/-! ### the host check -/

theorem hostOk_eq_validHost (h : Bytes) : hostOk h = validHost h := by
  unfold hostOk validHost
  rw [Bool.and_assoc]
  congr 1
  induction h with
  | nil => rfl
  | cons c t ih =>
    by_cases h1 : c = 32
    · subst h1; simp
    · by_cases h2 : c = 9
      · subst h2; simp
      · have a1 : ((32 : UInt8) == c) = false := beq_eq_false_iff_ne.mpr (Ne.symm h1)
        have a2 : ((9 : UInt8) == c) = false := beq_eq_false_iff_ne.mpr (Ne.symm h2)
        have b1 : (c != 32) = true := by simp [h1]
        have b2 : (c != 9) = true := by simp [h2]
        simp only [List.contains_cons, List.all_cons, a1, a2, b1, b2, Bool.false_or, Bool.true_and, Bool.and_self]
        exact ih

/-- `parseProxy` in terms of the grammar's predicates -/
theorem parseProxy_eq (s : Bytes) :
    parseProxy s =
      (if (trimSpace s).isEmpty then some noProxy
       else if trimSpace s == kDIRECT then some ⟨.DIRECT, [], []⟩
       else match cutAt 32 (trimSpace s) with
         | none => none
         | some (k, hp) =>
           match splitHostPort hp with
           | none => none
           | some (h, p) => if validHost h && validPort p then some ⟨parseMode k, h, p⟩ else none) := by
  unfold parseProxy
  simp only []
  split
  · rfl
  · split
    · rfl
    · cases cutAt 32 (trimSpace s) with
      | none => rfl
      | some khp =>
        obtain ⟨k, hp⟩ := khp
        simp only []
        cases splitHostPort hp with
        | none => rfl
        | some x =>
          obtain ⟨h, p⟩ := x
          simp only [hostOk_eq_validHost, parseUint16_isNone]
          cases validHost h <;> cases validPort p <;> rfl

/-- an entry is accepted exactly when its address part is well-formed -/
theorem parseProxy_isSome (s : Bytes) : (parseProxy s).isSome = entryAddrWellFormed s := by
  rw [parseProxy_eq]
  unfold entryAddrWellFormed addrWellFormed
  simp only []
  cases h1 : (trimSpace s).isEmpty
  · cases h2 : (trimSpace s == kDIRECT)
    · simp only [Bool.false_eq_true, if_false, Bool.false_or]
      cases cutAt 32 (trimSpace s) with
      | none => rfl
      | some khp =>
        obtain ⟨k, hp⟩ := khp
        simp only []
        cases splitHostPort hp with
        | none => rfl
        | some x =>
          obtain ⟨h, p⟩ := x
          simp only []
          cases validHost h && validPort p <;> rfl
    · simp
  · simp

/-- what an accepted entry is mapped to -/
theorem parseProxy_parts (s : Bytes) (q : Proxy) (h : parseProxy s = some q) :
    (((trimSpace s).isEmpty = true ∨ trimSpace s = kDIRECT) ∧ q = ⟨.DIRECT, [], []⟩) ∨
    (∃ k hp, cutAt 32 (trimSpace s) = some (k, hp) ∧ splitHostPort hp = some (q.host, q.port) ∧
      q.mode = parseMode k ∧ validHost q.host = true ∧ validPort q.port = true) := by
  rw [parseProxy_eq] at h
  by_cases h1 : (trimSpace s).isEmpty = true
  · simp only [h1, if_true, Option.some.injEq] at h
    exact Or.inl ⟨Or.inl h1, h.symm⟩
  · by_cases h2 : (trimSpace s == kDIRECT) = true
    · simp only [h1, h2, if_true, Bool.false_eq_true, if_false, Option.some.injEq] at h
      exact Or.inl ⟨Or.inr (by simpa using h2), h.symm⟩
    · simp only [h1, h2, Bool.false_eq_true, if_false] at h
      cases hc : cutAt 32 (trimSpace s) with
      | none => simp [hc] at h
      | some khp =>
        obtain ⟨k, hp⟩ := khp
        simp only [hc] at h
        cases hs : splitHostPort hp with
        | none => simp [hs] at h
        | some x =>
          obtain ⟨a, b⟩ := x
          simp only [hs] at h
          by_cases hv : (validHost a && validPort b) = true
          · simp only [hv, if_true, Option.some.injEq] at h
            subst h
            simp only [Bool.and_eq_true] at hv
            exact Or.inr ⟨k, hp, rfl, hs, rfl, hv.1, hv.2⟩
          · simp [hv] at h

theorem hostChar_not_blank (c : UInt8) (h : isHostChar c = true) : (c != 32 && c != 9) = true := by
  by_cases h1 : c = 32
  · subst h1; revert h; decide
  · by_cases h2 : c = 9
    · subst h2; revert h; decide
    · simp [h1, h2]

theorem hexColonDot_not_blank (c : UInt8) (h : isHexColonDot c = true) : (c != 32 && c != 9) = true := by
  by_cases h1 : c = 32
  · subst h1; revert h; decide
  · by_cases h2 : c = 9
    · subst h2; revert h; decide
    · simp [h1, h2]

theorem validHost_of (h : Bytes) (hne : h ≠ []) (hc : ∀ c ∈ h, (c != 32 && c != 9) = true) : validHost h = true := by
  unfold validHost
  have : h.isEmpty = false := by cases h <;> simp_all
  simp only [this, Bool.not_false, Bool.true_and, List.all_eq_true]
  exact hc

/-- `[host]:port` with a colon-bearing host free of brackets -/
theorem splitHostPort_bracket (h p : Bytes) (hh : ∀ c ∈ h, c ≠ 91 ∧ c ≠ 93)
    (hp : ∀ c ∈ p, c ≠ 58 ∧ c ≠ 91 ∧ c ≠ 93) : splitHostPort (91 :: (h ++ 93 :: 58 :: p)) = some (h, p) := by
  unfold splitHostPort
  have e0 : (91 : UInt8) :: (h ++ 93 :: 58 :: p) = (91 :: (h ++ [93])) ++ 58 :: p := by simp
  have hl : lastIndexOf 58 (91 :: (h ++ 93 :: 58 :: p)) = some (h.length + 2) := by
    rw [e0, lastIndexOf_append 58 _ p (fun x hx => (hp x hx).1)]; simp
  have hi : indexOf 93 (91 :: (h ++ 93 :: 58 :: p)) = some (h.length + 1) := by
    unfold indexOf
    rw [List.findIdx?_cons]
    simp only [show ((91 : UInt8) == 93) = false by decide, Bool.false_eq_true, if_false]
    rw [List.findIdx?_append, findIdx_none_of 93 h (fun x hx => (hh x hx).2)]
    simp [List.findIdx?_cons]
  rw [hl, hi]
  have c1 : (h ++ 93 :: 58 :: p).contains 91 = false := contains_false_of 91 _ (by
    intro x hx
    rcases List.mem_append.mp hx with hx | hx
    · exact (hh x hx).1
    · rcases List.mem_cons.mp hx with rfl | hx
      · decide
      · rcases List.mem_cons.mp hx with rfl | hx
        · decide
        · exact (hp x hx).2.1)
  have c2 : ((58 : UInt8) :: p).contains 93 = false := contains_false_of 93 _ (by
    intro x hx
    rcases List.mem_cons.mp hx with rfl | hx
    · decide
    · exact (hp x hx).2.2)
  have d1 : (91 :: (h ++ 93 :: 58 :: p)).drop 1 = h ++ 93 :: 58 :: p := rfl
  have d2 : (91 :: (h ++ 93 :: 58 :: p)).drop (h.length + 1 + 1) = 58 :: p := by
    simp [List.drop_append]
  have d3 : ((91 :: (h ++ 93 :: 58 :: p)).take (h.length + 1)).drop 1 = h := by
    simp
  have d4 : (91 :: (h ++ 93 :: 58 :: p)).drop (h.length + 2 + 1) = p := by
    simp [List.drop_append]
  have l1 : (h.length + 1 + 1 == (91 :: (h ++ 93 :: 58 :: p)).length) = false := by
    simp <;> omega
  simp only [List.head?_cons, beq_self_eq_true, if_true, l1, Bool.false_eq_true, if_false, d1, d2, d3, d4, c1, c2]

/-- a well-formed `<keyword> <host>:<port>` entry is parsed to exactly that keyword, host and port;
    `hp` = the address text, `h`, `p` = what `net.SplitHostPort` makes of it -/
theorem parseProxy_keyword_addr (k hp h p : Bytes) (hk : isKeyword k = true)
    (hsplit : splitHostPort hp = some (h, p)) (hvh : validHost h = true) (hvp : validPort p = true)
    (hend : ∀ c, (k ++ 32 :: hp).getLast? = some c → isGoSpace c = false) :
    parseProxy (k ++ 32 :: hp) = some ⟨parseMode k, h, p⟩ := by
  have hkw : (k = kPROXY ∨ k = kHTTP ∨ k = kHTTPS) ∨ (k = kSOCKS ∨ k = kSOCKS4 ∨ k = kSOCKS5) := by
    unfold isKeyword at hk
    simp only [Bool.or_eq_true, beq_iff_eq] at hk
    rcases hk with ((((h1 | h1) | h1) | h1) | h1) | h1 <;> simp [h1]
  have main : ∀ k0 : Bytes, (32 : UInt8) ∉ k0 → (∀ c, k0.head? = some c → isGoSpace c = false) → k0 ≠ [] →
      k = k0 → parseProxy (k ++ 32 :: hp) = some ⟨parseMode k, h, p⟩ := by
    intro k0 hns hhead hne hk0
    subst hk0
    rw [parseProxy_eq]
    have hhd : ∀ c, (k ++ 32 :: hp).head? = some c → isGoSpace c = false := by
      intro c hc
      cases k with
      | nil => exact absurd rfl hne
      | cons a t => exact hhead c (by simpa using hc)
    rw [trimSpace_id _ hhd hend]
    have e1 : (k ++ 32 :: hp).isEmpty = false := by cases k <;> simp
    have e2 : (k ++ 32 :: hp == kDIRECT) = false := by
      apply beq_eq_false_iff_ne.mpr
      intro e
      have : (32 : UInt8) ∈ kDIRECT := by rw [← e]; simp
      revert this; decide
    simp only [e1, e2, Bool.false_eq_true, if_false, cutAt_append 32 k _ hns, hsplit, hvh, hvp, Bool.and_self, if_true]
  rcases hkw with (h1 | h1 | h1) | (h1 | h1 | h1)
  · exact main kPROXY (by decide) (by decide) (by decide) h1
  · exact main kHTTP (by decide) (by decide) (by decide) h1
  · exact main kHTTPS (by decide) (by decide) (by decide) h1
  · exact main kSOCKS (by decide) (by decide) (by decide) h1
  · exact main kSOCKS4 (by decide) (by decide) (by decide) h1
  · exact main kSOCKS5 (by decide) (by decide) (by decide) h1

theorem validPort_parts (p : Bytes) (hp : validPort p = true) : p ≠ [] ∧ ∀ c ∈ p, isDigit c = true := by
  unfold validPort at hp
  simp only [Bool.and_eq_true, Bool.not_eq_true', List.all_eq_true, decide_eq_true_eq] at hp
  obtain ⟨⟨hp0, hpd⟩, _⟩ := hp
  exact ⟨by intro e; subst e; simp at hp0, hpd⟩

/-- the last byte of an entry that ends in a valid port is a digit, hence not white space -/
theorem last_of_port (a p : Bytes) (hp : validPort p = true) (c : UInt8) (h : (a ++ p).getLast? = some c) :
    isGoSpace c = false := by
  obtain ⟨hne, hd⟩ := validPort_parts p hp
  exact digit_not_space c (hd c (getLast_mem_of_append a p hne c h))

/-- `<keyword> <host>:<port>` with a host name / IPv4 literal -/
theorem parseProxy_wellformed (k h p : Bytes) (hk : isKeyword k = true) (hne : h ≠ [])
    (hh : ∀ c ∈ h, isHostChar c = true) (hp : validPort p = true) :
    parseProxy (k ++ 32 :: (h ++ 58 :: p)) = some ⟨parseMode k, h, p⟩ := by
  obtain ⟨_, hpd⟩ := validPort_parts p hp
  refine parseProxy_keyword_addr k _ h p hk
    (splitHostPort_plain h p (fun c hc => hostChar_ok c (hh c hc)) (fun c hc => digit_ok c (hpd c hc)))
    (validHost_of h hne (fun c hc => hostChar_not_blank c (hh c hc))) hp ?_
  intro c hc
  have e : k ++ 32 :: (h ++ 58 :: p) = (k ++ 32 :: (h ++ [58])) ++ p := by simp
  rw [e] at hc
  exact last_of_port _ p hp c hc

/-- `<keyword> [<IPv6 literal>]:<port>`: the brackets are stripped -/
theorem parseProxy_wellformed_v6 (k h p : Bytes) (hk : isKeyword k = true) (hne : h ≠ [])
    (hh : ∀ c ∈ h, isHexColonDot c = true) (hp : validPort p = true) :
    parseProxy (k ++ 32 :: 91 :: (h ++ 93 :: 58 :: p)) = some ⟨parseMode k, h, p⟩ := by
  obtain ⟨_, hpd⟩ := validPort_parts p hp
  have hb : ∀ c ∈ h, c ≠ 91 ∧ c ≠ 93 := by
    intro c hc
    have := hh c hc
    refine ⟨?_, ?_⟩ <;> (intro e; subst e; revert this; decide)
  refine parseProxy_keyword_addr k _ h p hk
    (splitHostPort_bracket h p hb (fun c hc => digit_ok c (hpd c hc)))
    (validHost_of h hne (fun c hc => hexColonDot_not_blank c (hh c hc))) hp ?_
  intro c hc
  have e : k ++ 32 :: 91 :: (h ++ 93 :: 58 :: p) = (k ++ 32 :: 91 :: (h ++ [93, 58])) ++ p := by simp
  rw [e] at hc
  exact last_of_port _ p hp c hc

theorem mapM_some_of_mem_result {α β : Type} (f : α → Option β) (l : List α) (ys : List β) (h : l.mapM f = some ys)
    (y : β) (hy : y ∈ ys) : ∃ x, x ∈ l ∧ f x = some y := by
  induction l generalizing ys with
  | nil => simp at h; subst h; simp at hy
  | cons a t ih =>
    cases ys with
    | nil =>  simp at hy
    | cons y0 ys' =>
      obtain ⟨h1, h2⟩ := mapM_cons_some f a t y0 ys' h
      rcases List.mem_cons.mp hy with rfl | hm
      · exact ⟨a, by simp, h1⟩
      · obtain ⟨x, hx, hfx⟩ := ih ys' h2 hm
        exact ⟨x, List.mem_cons_of_mem _ hx, hfx⟩

theorem mapM_some_mem {α β : Type} (f : α → Option β) (l : List α) (ys : List β) (h : l.mapM f = some ys)
    (x : α) (hx : x ∈ l) : ∃ y, f x = some y := by
  cases hf : f x with
  | some y => exact ⟨y, rfl⟩
  | none => rw [mapM_none_of_mem f l x hx hf] at h; simp at h

end C14
end FwdVerif
