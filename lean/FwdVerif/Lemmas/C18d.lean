/-
  C18 — helper lemmas, part d: the Via modifier (`viaStep`), header rules that do not address Via,
  `finalHeader`, and the message the next hop receives (`mergeFields`, `writeRequest`).  Core Lean only.
-/
import FwdVerif.Lemmas.C18c

namespace FwdVerif
namespace C18
open Ascii Req
open C16 (HMap goDel goSet goAdd Rule applyRules prefixFold NodupKeys)

/-! ## §8 the Via modifier and what follows it -/

theorem viaStep_none_iff (cfg : Cfg) (m : Nat) (h : HMap) :
    viaStep cfg m h = none ↔ viaChainOf h ≠ [] ∧ isInfix cfg.tag (viaChainOf h) = true := by
  unfold viaStep
  show (if (!(viaChainOf h).isEmpty && isInfix cfg.tag (viaChainOf h)) = true then none else some _) = none ↔ _
  split
  · rename_i hc
    simp only [Bool.and_eq_true, Bool.not_eq_true', List.isEmpty_eq_false_iff] at hc
    simp [hc.1, hc.2]
  · rename_i hc
    simp only [Bool.and_eq_true, Bool.not_eq_true', List.isEmpty_eq_false_iff, not_and] at hc
    simp only [reduceCtorEq, false_iff, not_and]
    intro hne
    exact hc hne

/-- the value the modifier writes -/
def newVia (tag : Bytes) (minor : Nat) (via : Bytes) : Bytes :=
  (if via.isEmpty then [] else via ++ bs ", ") ++ ownElement tag minor

theorem viaStep_some {cfg : Cfg} {m : Nat} {h h4 : HMap} (hs : viaStep cfg m h = some h4) :
    h4 = goSet h viaName (newVia cfg.tag m (viaChainOf h)) ∧
      ¬ (viaChainOf h ≠ [] ∧ isInfix cfg.tag (viaChainOf h) = true) := by
  refine ⟨?_, fun hc => ?_⟩
  · unfold viaStep at hs
    simp only at hs
    split at hs
    · exact absurd hs (by simp)
    · simp only [Option.some.injEq] at hs
      rw [← hs]
      unfold newVia ownElement
      simp only [List.append_assoc]
      rfl
  · rw [(viaStep_none_iff cfg m h).mpr hc] at hs
    exact absurd hs (by simp)

/-- elements of the value the modifier writes = old elements followed by `proto tag` -/
theorem elementsOf_newVia {tag : Bytes} (ht : TagClean tag) (m : Nat) (via : Bytes) :
    elementsOf (newVia tag m via) = elementsOf via ++ [ownElement tag m] := by
  unfold newVia
  cases via with
  | nil =>
    simp only [List.isEmpty_nil, if_true, List.nil_append]
    rw [elementsOf_single (ownElement_clean ht m)]
    rfl
  | cons c cs =>
    simp only [List.isEmpty_cons, Bool.false_eq_true, if_false]
    exact elementsOf_append (ownElement_clean ht m)

theorem tag_infix_newVia (tag : Bytes) (m : Nat) (via : Bytes) : tag <:+: newVia tag m via :=
  (tag_infix_ownElement tag m).trans (List.suffix_append _ _).isInfix

theorem newVia_ne_nil {tag : Bytes} (m : Nat) (via : Bytes) : newVia tag m via ≠ [] := by
  unfold newVia ownElement
  rcases protoText_cases m with hp | hp <;> rw [hp] <;> simp

/-- anything already in the chain stays in it -/
theorem infix_newVia_of_infix {t via : Bytes} (tag : Bytes) (m : Nat) (hne : t ≠ [])
    (h : t <:+: via) : t <:+: newVia tag m via := by
  unfold newVia
  cases via with
  | nil => exact absurd (List.infix_nil.mp h) hne
  | cons c cs =>
    simp only [List.isEmpty_cons, Bool.false_eq_true, if_false, List.append_assoc]
    exact h.trans (List.prefix_append _ _).isInfix

/-! ### header rules that do not address Via -/

theorem lookup_filter_keep (h : HMap) (k : Bytes) (q : Bytes × List Bytes → Bool)
    (hq : ∀ e ∈ h, e.1 = k → q e = true) : (h.filter q).lookup k = h.lookup k := by
  induction h with
  | nil => rfl
  | cons e h ih =>
    obtain ⟨k', ws⟩ := e
    have ih := ih (fun e he => hq e (List.mem_cons_of_mem _ he))
    by_cases hk : k' = k
    · subst hk
      have := hq (k', ws) (by simp) rfl
      rw [List.filter_cons_of_pos this]
      simp
    · have hkk : (k == k') = false := by simpa using (fun h' : k = k' => hk h'.symm)
      by_cases hqq : q (k', ws) = true
      · rw [List.filter_cons_of_pos hqq, List.lookup_cons, List.lookup_cons, hkk, ih]
      · rw [List.filter_cons_of_neg hqq, List.lookup_cons, hkk, ih]

theorem lower_via_of_canon_eq {n : Bytes} (h : canonicalKey n = viaName) : lower n = lower viaName := by
  rw [← h, C16.lower_canonicalKey]

theorem applyRule_via {h : HMap} {r : Rule} (hr : ruleAvoidsVia r = true) (hv : ViaInv h) :
    ViaInv (C16.applyRule h r) ∧ HMap.get (C16.applyRule h r) viaName = HMap.get h viaName := by
  cases r with
  | remove n =>
    have hn : viaName ≠ canonicalKey n := by
      intro hc
      have := lower_via_of_canon_eq hc.symm
      simp [ruleAvoidsVia, Rule.name, this] at hr
    exact ⟨hv.goDel n, get_goDel_ne h n hn⟩
  | empty n =>
    have hn : viaName ≠ canonicalKey n := by
      intro hc
      have := lower_via_of_canon_eq hc.symm
      simp [ruleAvoidsVia, Rule.name, this] at hr
    exact ⟨hv.goSet n [], get_goSet_ne h n [] hn⟩
  | add n v =>
    have hn : viaName ≠ canonicalKey n := by
      intro hc
      have := lower_via_of_canon_eq hc.symm
      simp [ruleAvoidsVia, Rule.name, this] at hr
    exact ⟨hv.goAdd n v, get_goAdd_ne h n v hn⟩
  | rename n =>
    have hl : lower n ≠ lower viaName := by
      intro hc
      simp [ruleAvoidsVia, Rule.name, hc] at hr
    have hn : viaName ≠ canonicalKey n := fun hc => hl (lower_via_of_canon_eq hc.symm)
    have hn' : viaName ≠ n := fun hc => hl (by rw [← hc])
    show ViaInv (C16.renameCase h n) ∧ HMap.get (C16.renameCase h n) viaName = HMap.get h viaName
    unfold C16.renameCase
    simp only
    split
    · exact ⟨hv, rfl⟩
    · rename_i vs _
      split
      case isFalse => exact ⟨hv, rfl⟩
      refine ⟨(hv.put n vs (fun hc => absurd hc hl)).sublist (C16.erase_sublist _ _), ?_⟩
      show (HMap.erase (HMap.put h n vs) (canonicalKey n)).lookup viaName = h.lookup viaName
      rw [lookup_erase_ne _ hn, C16.lookup_put_ne h vs hn']
  | removePrefix p =>
    have hp : prefixFold p viaName = false := by
      simpa [ruleAvoidsVia] using hr
    show ViaInv (C16.removeByPrefix h p) ∧ HMap.get (C16.removeByPrefix h p) viaName = HMap.get h viaName
    unfold C16.removeByPrefix
    simp only
    refine ⟨hv.sublist List.filter_sublist, ?_⟩
    apply lookup_filter_keep
    intro e _ hek
    simp only [Bool.not_eq_true', List.contains_eq_mem, decide_eq_false_iff_not]
    rw [hek]
    intro hmem
    obtain ⟨e', he', hce⟩ := List.mem_map.mp hmem
    obtain ⟨he'h, hpe⟩ := List.mem_filter.mp he'
    have : e'.1 = viaName := hv.2 e' he'h (lower_via_of_canon_eq hce)
    rw [this, hp] at hpe
    exact absurd hpe (by simp)

theorem applyRules_via {rs : List Rule} {h : HMap} (hr : rulesAvoidVia rs = true) (hv : ViaInv h) :
    ViaInv (applyRules rs h) ∧ HMap.get (applyRules rs h) viaName = HMap.get h viaName := by
  induction rs generalizing h with
  | nil => exact ⟨hv, rfl⟩
  | cons r rs ih =>
    unfold rulesAvoidVia at hr
    rw [List.all_cons, Bool.and_eq_true] at hr
    obtain ⟨h1, h2⟩ := applyRule_via hr.1 hv
    obtain ⟨h3, h4⟩ := ih (h := C16.applyRule h r) hr.2 h1
    exact ⟨h3, h4.trans h2⟩

def finalNames : List Bytes := [bs "Authorization", bs "User-Agent", bs "Connection", bs "Upgrade"]

theorem finalNames_not_via : ∀ n ∈ finalNames, viaName ≠ canonicalKey n := by decide +kernel

theorem finalHeader_via {cfg : Cfg} {up : Bytes} {h4 : HMap} (hr : rulesAvoidVia cfg.rules = true)
    (hv : ViaInv h4) :
    ViaInv (finalHeader cfg up h4) ∧ HMap.get (finalHeader cfg up h4) viaName = HMap.get h4 viaName := by
  obtain ⟨h1, h2⟩ := applyRules_via hr hv
  have hreach : Reach finalNames (applyRules cfg.rules h4) (finalHeader cfg up h4) := by
    unfold finalHeader
    simp only
    repeat (first
      | exact Reach.refl
      | apply Reach.set _ _ _ (by simp [finalNames])
      | split)
  exact ⟨hreach.viaInv h1, (hreach.get_eq finalNames_not_via).trans h2⟩

/-! ## §9 what the next hop receives -/

/-- all values of the entries named `k` -/
def fvals (fs : List (Bytes × List Bytes)) (k : Bytes) : List Bytes :=
  (fs.filter fun e => e.1 == k).flatMap (·.2)

theorem fvals_append (a b : List (Bytes × List Bytes)) (k : Bytes) :
    fvals (a ++ b) k = fvals a k ++ fvals b k := by
  simp [fvals]

theorem fvals_of_names {fs : List (Bytes × List Bytes)} {k : Bytes} (h : ∀ e ∈ fs, e.1 ≠ k) :
    fvals fs k = [] := by
  unfold fvals
  rw [List.filter_eq_nil_iff.mpr]
  · rfl
  · intro e he
    simpa using h e he

def mergeStep (acc : List (Bytes × List Bytes)) (f : Bytes × List Bytes) : List (Bytes × List Bytes) :=
  if acc.any (fun e => e.1 == f.1) then acc.map (fun e => if e.1 == f.1 then (e.1, e.2 ++ f.2) else e)
  else acc ++ [f]

theorem mergeFields_eq (fs : List (Bytes × List Bytes)) : mergeFields fs = fs.foldl mergeStep [] := rfl

theorem mergeStep_keys (acc : List (Bytes × List Bytes)) (f : Bytes × List Bytes) :
    (mergeStep acc f).map (·.1) =
      if acc.any (fun e => e.1 == f.1) then acc.map (·.1) else acc.map (·.1) ++ [f.1] := by
  unfold mergeStep
  split
  · rw [List.map_map]
    apply List.map_congr_left
    intro e _
    show (if (e.1 == f.1) = true then (e.1, e.2 ++ f.2) else e).1 = e.1
    split <;> rfl
  · simp

theorem mergeStep_nodup {acc : List (Bytes × List Bytes)} (f : Bytes × List Bytes)
    (hn : (acc.map (·.1)).Nodup) : ((mergeStep acc f).map (·.1)).Nodup := by
  rw [mergeStep_keys]
  split
  · exact hn
  · rename_i hc
    rw [List.nodup_append]
    refine ⟨hn, by simp, ?_⟩
    intro a ha b hb
    simp only [List.mem_singleton] at hb
    subst hb
    intro hab
    subst hab
    apply hc
    obtain ⟨e, he, hea⟩ := List.mem_map.mp ha
    rw [List.any_eq_true]
    exact ⟨e, he, by simpa using hea⟩

theorem fvals_map_append_of_nodup (acc : List (Bytes × List Bytes)) (k : Bytes) (vs : List Bytes)
    (hn : (acc.map (·.1)).Nodup) (hk : k ∈ acc.map (·.1)) :
    fvals (acc.map fun e => if e.1 == k then (e.1, e.2 ++ vs) else e) k = fvals acc k ++ vs := by
  induction acc with
  | nil => exact absurd hk (by simp)
  | cons e t ih =>
    rw [List.map_cons, List.nodup_cons] at hn
    by_cases he : e.1 = k
    · have hb : (e.1 == k) = true := by simpa using he
      have hnot : k ∉ t.map (·.1) := he ▸ hn.1
      have htail : (t.map fun e => if e.1 == k then (e.1, e.2 ++ vs) else e) = t := by
        conv => rhs; rw [← List.map_id t]
        apply List.map_congr_left
        intro e' he'
        have : (e'.1 == k) = false := by
          simpa using (fun h' : e'.1 = k => hnot (List.mem_map.mpr ⟨e', he', h'⟩))
        simp [this]
      have hz : fvals t k = [] := fvals_of_names (fun e' he' h' => hnot (List.mem_map.mpr ⟨e', he', h'⟩))
      rw [List.map_cons, htail]
      simp only [hb, if_true]
      unfold fvals at hz ⊢
      simp only [List.filter_cons, hb, if_true, List.flatMap_cons, hz, List.append_nil]
    · have hb : (e.1 == k) = false := by simpa using he
      have hk' : k ∈ t.map (·.1) := by
        rw [List.map_cons] at hk
        rcases List.mem_cons.mp hk with h' | h'
        · exact absurd h'.symm he
        · exact h'
      have := ih hn.2 hk'
      unfold fvals at this ⊢
      simp only [List.map_cons, hb, Bool.false_eq_true, if_false, List.filter_cons]
      exact this

theorem fvals_map_other (acc : List (Bytes × List Bytes)) (k j : Bytes) (vs : List Bytes) (hkj : k ≠ j) :
    fvals (acc.map fun e => if e.1 == j then (e.1, e.2 ++ vs) else e) k = fvals acc k := by
  induction acc with
  | nil => rfl
  | cons e t ih =>
    unfold fvals at ih ⊢
    by_cases hej : (e.1 == j) = true
    · have : (e.1 == k) = false := by
        have : e.1 = j := by simpa using hej
        simpa [this] using hkj.symm
      simp only [List.map_cons, hej, if_true, List.filter_cons, this, Bool.false_eq_true, if_false]
      exact ih
    · have hej' : (e.1 == j) = false := by simpa using hej
      by_cases hek : (e.1 == k) = true
      · simp only [List.map_cons, hej', Bool.false_eq_true, if_false, List.filter_cons, hek, if_true,
          List.flatMap_cons, ih]
      · have hek' : (e.1 == k) = false := by simpa using hek
        simp only [List.map_cons, hej', Bool.false_eq_true, if_false, List.filter_cons, hek']
        exact ih

theorem mergeStep_fvals {acc : List (Bytes × List Bytes)} (f : Bytes × List Bytes) (k : Bytes)
    (hn : (acc.map (·.1)).Nodup) : fvals (mergeStep acc f) k = fvals acc k ++ fvals [f] k := by
  unfold mergeStep
  split
  · rename_i hc
    by_cases hk : f.1 = k
    · subst hk
      have hmem : f.1 ∈ acc.map (·.1) := by
        obtain ⟨e, he, hef⟩ := List.any_eq_true.mp hc
        exact List.mem_map.mpr ⟨e, he, by simpa using hef⟩
      rw [fvals_map_append_of_nodup acc f.1 f.2 hn hmem]
      simp [fvals]
    · rw [fvals_map_other acc k f.1 f.2 (fun h => hk h.symm)]
      have : (f.1 == k) = false := by simpa using hk
      simp [fvals, this]
  · exact fvals_append _ _ _

theorem foldl_mergeStep_fvals (fs acc : List (Bytes × List Bytes)) (k : Bytes)
    (hn : (acc.map (·.1)).Nodup) :
    fvals (fs.foldl mergeStep acc) k = fvals acc k ++ fvals fs k := by
  induction fs generalizing acc with
  | nil => simp [fvals]
  | cons f fs ih =>
    rw [List.foldl_cons, ih _ (mergeStep_nodup f hn), mergeStep_fvals f k hn]
    have : fvals (f :: fs) k = fvals [f] k ++ fvals fs k := fvals_append [f] fs k
    rw [this, List.append_assoc]

/-- merging entries of equal name keeps, per name, all values in order -/
theorem fvals_mergeFields (fs : List (Bytes × List Bytes)) (k : Bytes) :
    fvals (mergeFields fs) k = fvals fs k := by
  rw [mergeFields_eq, foldl_mergeStep_fvals fs [] k List.nodup_nil]
  rfl

def ownOutNames : List Bytes :=
  [bs "host", bs "user-agent", bs "connection", bs "transfer-encoding", bs "trailer",
   bs "content-length", bs "accept-encoding", bs "proxy-authorization"]

theorem ownOutNames_not_via : ∀ n ∈ ownOutNames, n ≠ lower viaName := by decide +kernel

theorem excluded_not_via :
    [bs "Host", bs "User-Agent", bs "Content-Length", bs "Transfer-Encoding", bs "Trailer"].contains viaName = false := by
  decide +kernel

theorem lower_viaName_self : lower viaName = lower viaName := rfl

theorem mem_of_lookup {t : HMap} {k : Bytes} {vs : List Bytes} (h : t.lookup k = some vs) :
    (k, vs) ∈ t := by
  induction t with
  | nil => exact absurd h (by simp)
  | cons e t ih =>
    obtain ⟨k', ws⟩ := e
    rw [List.lookup_cons] at h
    by_cases hk : (k == k') = true
    · rw [hk] at h
      simp only [Option.some.injEq] at h
      have : k = k' := by simpa using hk
      subst this; subst h
      exact List.mem_cons_self
    · have : (k == k') = false := by simpa using hk
      rw [this] at h
      exact List.mem_cons_of_mem _ (ih h)

/-- field lines named `via` among the end-to-end fields = the values stored under `Via` -/
theorem fvals_rest_via (h : HMap) (q : Bytes → Bool) (hq : q viaName = true) (hv : ViaInv h) :
    fvals (lowerFields (h.filter fun e => q e.1)) (lower viaName) = hget h viaName := by
  induction h with
  | nil => rfl
  | cons e t ih =>
    have hvt : ViaInv t := hv.sublist (List.sublist_cons_self e t)
    have ih := ih hvt
    obtain ⟨k, ws⟩ := e
    by_cases hk : k = viaName
    · subst hk
      have hnot : viaName ∉ t.map (·.1) := C16.not_mem_keys_of_nodup_cons hv.1
      have hz : hget t viaName = [] := by
        unfold hget HMap.get
        cases hl : t.lookup viaName with
        | none => rfl
        | some vs =>
          have hmem : (viaName, vs) ∈ t := mem_of_lookup hl
          exact absurd (List.mem_map.mpr ⟨_, hmem, rfl⟩) hnot
      rw [hz] at ih
      have h1 : hget ((viaName, ws) :: t) viaName = ws := by
        unfold hget HMap.get
        simp
      rw [h1, List.filter_cons_of_pos (by simpa using hq)]
      unfold lowerFields at ih ⊢
      unfold fvals at ih ⊢
      simp only [List.map_cons, List.filter_cons, beq_self_eq_true, if_true, List.flatMap_cons, ih,
        List.append_nil]
    · have hl : lower k ≠ lower viaName := fun hc => hk (hv.2 (k, ws) (by simp) hc)
      have h1 : hget ((k, ws) :: t) viaName = hget t viaName := by
        unfold hget HMap.get
        have : (viaName == k) = false := by simpa using (fun h' : viaName = k => hk h'.symm)
        rw [List.lookup_cons, this]
      rw [h1, ← ih]
      have hb : (lower k == lower viaName) = false := by simpa using hl
      by_cases hqk : q k = true
      · rw [List.filter_cons_of_pos (by simpa using hqk)]
        unfold lowerFields fvals
        simp only [List.map_cons, List.filter_cons, hb, Bool.false_eq_true, if_false]
      · rw [List.filter_cons_of_neg (by simpa using hqk)]

theorem outVia_writeRequest (hop : Hop) (auth : Option Bytes) (g : GoReq) (hv : ViaInv g.header) :
    outVia (writeRequest hop auth g) = hget g.header viaName := by
  unfold outVia outValues writeRequest
  simp only
  show fvals (mergeFields _) _ = _
  rw [fvals_mergeFields]
  simp only [fvals_append]
  have hrest := fvals_rest_via g.header
    (fun k => ![bs "Host", bs "User-Agent", bs "Content-Length", bs "Transfer-Encoding", bs "Trailer"].contains k)
    (by simp only [excluded_not_via]; rfl) hv
  rw [hrest]
  have own : ∀ (P : List (Bytes × List Bytes)), (∀ e ∈ P, e.1 ∈ ownOutNames) → fvals P (lower viaName) = [] :=
    fun P hP => fvals_of_names (fun e he => ownOutNames_not_via _ (hP e he))
  have key : ∀ a b c d e f R : List Bytes, a = [] → b = [] → c = [] → d = [] → e = [] → f = [] →
      a ++ b ++ c ++ d ++ R ++ (e ++ f) = R := by
    intro a b c d e f R ha hb hc hd he hf
    subst ha hb hc hd he hf
    simp
  refine key _ _ _ _ _ _ _ (own _ ?_) (own _ ?_) (own _ ?_) (own _ ?_) (own _ ?_) (own _ ?_)
  · intro e he; simp only [List.mem_singleton] at he; subst he; simp [ownOutNames]
  · intro e he
    split at he
    · split at he
      · exact absurd he (by simp)
      · simp only [List.mem_singleton] at he; subst he; simp [ownOutNames]
    · exact absurd he (by simp)
  · intro e he
    split at he
    · simp only [List.mem_singleton] at he; subst he; simp [ownOutNames]
    · exact absurd he (by simp)
  · intro e he
    split at he
    · simp only [List.mem_append, List.mem_singleton] at he
      rcases he with he | he
      · subst he; simp [ownOutNames]
      · split at he
        · exact absurd he (by simp)
        · simp only [List.mem_singleton] at he; subst he; simp [ownOutNames]
    · split at he
      · simp only [List.mem_singleton] at he; subst he; simp [ownOutNames]
      · exact absurd he (by simp)
  · intro e he
    split at he
    · simp only [List.mem_singleton] at he; subst he; simp [ownOutNames]
    · exact absurd he (by simp)
  · intro e he
    split at he
    all_goals first
      | (split at he
         · simp only [List.mem_singleton] at he; subst he; simp [ownOutNames]
         · exact absurd he (by simp))
      | exact absurd he (by simp)

end C18
end FwdVerif
